#!/bin/bash
# applyfix.sh <property[,property2]> <key>  : applies /verif/fixes/<key>.patch to /repo as one fix: commit
# and marks the finding fixed in known_findings.json (status fixed suppresses nothing).
set -e
props=$1; key=$2
cd /repo
git apply --check /verif/fixes/$key.patch
git apply --index /verif/fixes/$key.patch
# (staged by --index)
git commit -q -F /verif/fixes/$key.msg
H=$(git log --format=%h -1)
python3 - "$props" "$key" "$H" <<'PY'
import json,sys
props,key,h=sys.argv[1].split(','),sys.argv[2],sys.argv[3]
p='/verif/known_findings.json'
d=json.load(open(p))
n=0
for e in d['findings']:
    if e['key']==key and e['property'] in props and e['status']=='known':
        e['status']='fixed'; e['commit']=h
        e['what']='fixed: property=%s %s %s' % (e['property'],h,e['what'])
        n+=1
json.dump(d,open(p,'w'),indent=1)
print("marked fixed:",n,key,h)
PY
