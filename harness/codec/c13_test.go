package codec

import (
	"encoding/binary"
	"fmt"
	"strings"
	"testing"

	"github.com/apmckinlay/gsuneido/core"
	"pgregory.net/rapid"
	"verifharness/internal/ev"
	"verifharness/internal/gen"
	"verifharness/internal/kf"
	"verifharness/internal/rt"
)

func packOf(v core.Value) string {
	return core.Pack(v.(core.Packable))
}

// deepEq: equality as the language defines it, both directions.
func deepEq(a, b core.Value) bool {
	return a.Equal(b) && b.Equal(a)
}

// TestC13: packed values round-trip, are canonical and sort like values.
func TestC13(t *testing.T) {
	rec := ev.New("C13", "rapid-generated scalars (bool; int64 boundary-weighted in every representation; decimals over all coefficient/exponent classes, ±inf, 0; strings as SuStr/SuConcat/SuExcept; dates and timestamps) and nested objects/records. Non-trivial: a pair of equal kind whose packed forms share >= 2 leading bytes or two representations of one value; an object with nesting or named members; distinct = by rendered case.")
	rec.Assumptions = []string{"model order of scalars is computed from the generated parts with math/big, not from Compare",
		"SuInt64 exists only outside the small-int range (no constructor for small values)"}
	defer rec.Write()

	rt.Check(t, rec, "roundtrip", 15000, 300000, func(t *rapid.T) {
		m := rapid.OneOf(gen.ScalarMV(), gen.ScalarMV(), gen.ObjMV(3)).Draw(t, "v")
		p := packOf(m.V)
		pk := m.V.(core.Packable)
		var h uint64 = 17
		if n := pk.PackSize(&h); n != len(p) && !(p == "" && m.Kind == gen.KStr) && !(len(p) == 1) {
			t.Fatalf("PackSize %d != len(Pack) %d for %v", n, len(p), m)
		}
		u := core.Unpack(p)
		if !deepEq(u, m.V) {
			t.Fatalf("Unpack(Pack(v)) = %v, want %v (%v) packed %x", u, m.V, m, p)
		}
		// packing the unpacked value must be a fixpoint (canonical)
		if p2 := packOf(u); p2 != p {
			t.Fatalf("Pack(Unpack(p)) differs: %x vs %x for %v", p2, p, m)
		}
		if m.Kind == gen.KStr && m.S == "" && p != "" {
			t.Fatalf("empty string packs to %x", p)
		}
		if m.Kind != gen.KStr || m.S != "" {
			if p == "" || strings.Compare("", p) >= 0 {
				t.Fatalf("empty string is not the smallest encoding vs %v", m)
			}
		}
		nt := m.Kind == gen.KObj && (strings.Contains(m.V.String(), ":") || strings.Count(m.V.String(), "(") > 1) ||
			m.Kind == gen.KNum && len(p) > 3 || m.Kind == gen.KDate || m.Kind == gen.KStr && m.Repr != "SuStr"
		rec.Case(nt, m.String())
		rec.Label("kind_" + fmt.Sprint(m.Kind) + "_" + m.Repr)
		if rec.WantSample("roundtrip_" + m.Repr) {
			rec.Sample("roundtrip_"+m.Repr, map[string]string{"value": m.String(), "packed": fmt.Sprintf("%x", p)})
		}
	})

	rt.Check(t, rec, "concat", 1500, 30000, func(t *rapid.T) { checkConcatFamily(t, rec) })

	rt.Check(t, rec, "order", 15000, 300000, func(t *rapid.T) {
		var a, b gen.MV
		switch rapid.IntRange(0, 4).Draw(t, "paircls") {
		case 0: // same value, possibly different representation
			n := gen.Int64().Draw(t, "n")
			a, b = gen.IntAs(t, n), gen.IntAs(t, n)
		case 1: // neighbours
			n := gen.Int64().Draw(t, "n")
			d := rapid.Int64Range(-2, 2).Draw(t, "d")
			a = gen.IntAs(t, n)
			n2 := n + d
			if (d > 0 && n2 < n) || (d < 0 && n2 > n) {
				n2 = n
			}
			b = gen.IntAs(t, n2)
		case 2:
			a, b = gen.NumMV().Draw(t, "a"), gen.NumMV().Draw(t, "b")
		case 3:
			k := rapid.SampledFrom([]*rapid.Generator[gen.MV]{gen.StrMV(), gen.DateMV(), gen.DnumMV(), gen.BoolMV()}).Draw(t, "kindgen")
			a, b = k.Draw(t, "a"), k.Draw(t, "b")
		default:
			a, b = gen.ScalarMV().Draw(t, "a"), gen.ScalarMV().Draw(t, "b")
		}
		pa, pb := packOf(a.V), packOf(b.V)
		want := gen.CmpModel(a, b)
		// canonical: equal scalar values pack identically, whatever the representation
		if want == 0 && pa != pb {
			t.Fatalf("equal values pack differently: %v -> %x, %v -> %x", a, pa, b, pb)
		}
		if want != 0 && pa == pb {
			t.Fatalf("different values pack identically: %v, %v -> %x", a, b, pa)
		}
		// Equal must agree with the model
		if (want == 0) != deepEq(a.V, b.V) {
			t.Fatalf("Equal(%v,%v)=%v but model compare=%d", a, b, deepEq(a.V, b.V), want)
		}
		emptyStr := (a.Kind == gen.KStr && a.S == "") || (b.Kind == gen.KStr && b.S == "")
		if negPrefix(a, b, pa, pb) {
			if e, ok := kf.Known("C13", "negative-number-prefix-order"); ok {
				rec.Excluded("negative-number-prefix-order")
				rec.Known(e.What)
				rec.Case(false, "")
				return
			}
		}
		if !emptyStr {
			got := strings.Compare(pa, pb)
			if got != want {
				t.Fatalf("packed order %d != value order %d for %v (%x) vs %v (%x)", got, want, a, pa, b, pb)
			}
			if c := gen.Sgn(a.V.Compare(b.V)); c != want {
				t.Fatalf("Compare %d != model order %d for %v vs %v", c, want, a, b)
			}
		} else if pa != pb {
			// "" packs to the empty buffer: below everything
			if (pa == "") != (strings.Compare(pa, pb) < 0) {
				t.Fatalf("empty string not smallest: %x vs %x", pa, pb)
			}
		}
		common := 0
		for common < len(pa) && common < len(pb) && pa[common] == pb[common] {
			common++
		}
		nt := a.Kind == b.Kind && (common >= 2 || (want == 0 && a.Repr != b.Repr))
		rec.Case(nt, a.String()+"|"+b.String())
		rec.LabelIf(want == 0 && a.Repr != b.Repr, "same_value_two_representations")
		rec.LabelIf(common >= 2, "shared_prefix>=2")
		rec.LabelIf(a.Kind != b.Kind, "cross_kind")
		if nt && rec.WantSample("order_pair") {
			rec.Sample("order_pair", map[string]string{"a": a.String(), "b": b.String(), "pa": fmt.Sprintf("%x", pa), "pb": fmt.Sprintf("%x", pb), "cmp": fmt.Sprint(want)})
		}
	})
}

// concatFamily builds strings the way `$` does: s (>= 256 bytes, so it is an
// SuConcat), t = s $ x (appended in place: shares s's buffer), u = s $ y (a
// second extension: copied). Every member must pack exactly like the SuStr of
// its own bytes, whatever was appended to the shared buffer afterwards.
func checkConcatFamily(t *rapid.T, rec *ev.Rec) {
	base := strings.Repeat(rapid.StringMatching(`[a-c\x00]{1,3}`).Draw(t, "unit"), rapid.IntRange(130, 300).Draw(t, "reps"))
	tail := func(label string) string { return rapid.StringMatching(`[a-z\x00\xff]{1,5}`).Draw(t, label) }
	type mem struct {
		v    core.Value
		want string
	}
	s := core.OpCat(core.SuStr(base), core.SuStr(tail("s")))
	ws := base + string(core.ToStr(s)[len(base):])
	fam := []mem{{s, ws}}
	n := rapid.IntRange(1, 4).Draw(t, "next")
	for i := 0; i < n; i++ {
		from := fam[rapid.IntRange(0, len(fam)-1).Draw(t, "from")]
		x := tail("x")
		fam = append(fam, mem{core.OpCat(from.v, core.SuStr(x)), from.want + x})
	}
	shared := 0
	for i, m := range fam {
		if _, ok := m.v.(core.SuConcat); ok {
			shared++
		}
		ref := core.SuStr(m.want)
		if !deepEq(m.v, ref) {
			t.Fatalf("concat family member %d: value is not its own bytes (len %d vs %d)", i, len(core.ToStr(m.v)), len(m.want))
		}
		p, pr := packOf(m.v), packOf(ref)
		if p != pr {
			t.Fatalf("concat family member %d (%d bytes, later extended through the shared buffer) packs to %d bytes, the equal SuStr to %d bytes", i, len(m.want), len(p), len(pr))
		}
		var h uint64 = 17
		if n := m.v.(core.Packable).PackSize(&h); n != len(p) {
			t.Fatalf("concat family member %d: PackSize %d != len(Pack) %d", i, n, len(p))
		}
		if u := core.Unpack(p); !deepEq(u, ref) {
			t.Fatalf("concat family member %d does not round-trip", i)
		}
		ob := core.SuObjectOf(m.v, core.IntVal(i))
		if u := core.Unpack(packOf(ob)); !deepEq(u, core.SuObjectOf(ref, core.IntVal(i))) {
			t.Fatalf("object holding concat family member %d does not round-trip", i)
		}
	}
	for i := range fam {
		for j := range fam {
			if got, want := strings.Compare(packOf(fam[i].v), packOf(fam[j].v)), strings.Compare(fam[i].want, fam[j].want); got != want {
				t.Fatalf("packed order of concat family members %d,%d is %d, value order %d", i, j, got, want)
			}
		}
	}
	rec.Case(shared >= 2, fmt.Sprintf("concatfam|%d|%d|%s", len(base), len(fam), fam[len(fam)-1].want[len(base):]))
	rec.Label("concat_family")
	rec.LabelIf(shared >= 2, "concat_family_with_shared_buffer_members")
}

// negPrefix: two different negative numbers where the packed form of one is
// a proper prefix of the other's (known finding negative-number-prefix-order:
// the shorter one sorts first although it is the larger number).
func negPrefix(a, b gen.MV, pa, pb string) bool {
	if a.Kind != gen.KNum || b.Kind != gen.KNum || pa == pb || len(pa) < 2 || len(pb) < 2 {
		return false
	}
	if pa[0] != core.PackMinus || pb[0] != core.PackMinus {
		return false
	}
	return strings.HasPrefix(pa, pb) || strings.HasPrefix(pb, pa)
}

// FuzzC13Unpack (thorough tier only): coverage-guided search over raw bytes.
// The property speaks about values, so the oracle only judges inputs that are
// canonical encodings (Pack(Unpack(b)) == b): for those, unpacking the repacked
// bytes must give an equal value and the same bytes again. Anything else
// (refused input, non-canonical bytes that no Pack produces) is not judged.
func FuzzC13Unpack(f *testing.F) {
	for _, v := range []core.Value{core.True, core.IntVal(1), core.IntVal(-70000), core.SuStr("hello"),
		core.NewDate(2020, 2, 29, 1, 2, 3, 4), core.SuObjectOf(core.IntVal(1), core.SuStr("x"))} {
		f.Add([]byte(packOf(v)))
	}
	f.Add([]byte{core.PackPlus, 0x80, 1})
	f.Add([]byte{core.PackMinus, 0x7f, 0xfe})
	f.Fuzz(func(t *testing.T, b []byte) {
		if !plausible(b, 0) {
			// a container whose counts or sizes exceed the bytes that follow
			// is not the encoding of any value; Unpack sizes its slices from
			// those counts (robustness against damaged data is not C13)
			return
		}
		var v core.Value
		var p string
		ok := false
		func() {
			defer func() { recover() }()
			v = core.Unpack(string(b))
			_ = v.String() // may be lazy
			p = core.Pack(v.(core.Packable))
			ok = true
		}()
		if !ok || p != string(b) {
			return
		}
		u := core.Unpack(p)
		if !deepEq(u, v) {
			t.Fatalf("canonical %x unpacks to %v and again to %v", b, v, u)
		}
		if p2 := core.Pack(u.(core.Packable)); p2 != p {
			t.Fatalf("repacking not a fixpoint: %x -> %x", p, p2)
		}
	})
}

// plausible: structural pre-check of raw fuzz input, written from the
// container layout (tag, list count, items as size+bytes, named count, pairs):
// every count and size must fit in the bytes that follow, nesting <= 16.
func plausible(b []byte, depth int) bool {
	if len(b) <= 1 || (b[0] != core.PackObject && b[0] != core.PackRecord) {
		return true // scalars: Unpack reads fixed fields or refuses
	}
	if depth > 16 {
		return false
	}
	rest := b[1:]
	uv := func() (int, bool) {
		n, k := binary.Uvarint(rest)
		if k <= 0 || n > uint64(len(rest)-k) {
			return 0, false
		}
		rest = rest[k:]
		return int(n), true
	}
	item := func() bool {
		size, ok := uv()
		if !ok {
			return false
		}
		it := rest[:size]
		rest = rest[size:]
		return plausible(it, depth+1)
	}
	n, ok := uv()
	if !ok {
		return false
	}
	for i := 0; i < n; i++ {
		if !item() {
			return false
		}
	}
	if len(rest) == 0 {
		return true // Unpack would refuse (no named count)
	}
	n, ok = uv()
	if !ok {
		return false
	}
	for i := 0; i < 2*n; i++ {
		if !item() {
			return false
		}
	}
	return true
}

// FuzzC13Values (thorough tier only): the same value-level properties as
// TestC13, driven by Go's coverage-guided fuzzer through rapid.MakeFuzz.
func FuzzC13Values(f *testing.F) {
	f.Fuzz(rapid.MakeFuzz(func(t *rapid.T) {
		a, b := gen.ScalarMV().Draw(t, "a"), gen.ScalarMV().Draw(t, "b")
		pa, pb := packOf(a.V), packOf(b.V)
		if !deepEq(core.Unpack(pa), a.V) {
			t.Fatalf("round trip of %v", a)
		}
		want := gen.CmpModel(a, b)
		if (want == 0) != (pa == pb) {
			t.Fatalf("canonical form: %v (%x) vs %v (%x) model %d", a, pa, b, pb, want)
		}
		emptyStr := (a.Kind == gen.KStr && a.S == "") || (b.Kind == gen.KStr && b.S == "")
		if _, ok := kf.Known("C13", "negative-number-prefix-order"); ok && negPrefix(a, b, pa, pb) {
			return
		}
		if !emptyStr && strings.Compare(pa, pb) != want {
			t.Fatalf("packed order %d != value order %d for %v (%x) vs %v (%x)", strings.Compare(pa, pb), want, a, pa, b, pb)
		}
	}))
}
