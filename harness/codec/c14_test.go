package codec

import (
	"bytes"
	"encoding/binary"
	"fmt"
	"io"
	"log"
	"math"
	"net"
	"os"
	"runtime"
	"strings"
	"sync"
	"testing"

	"github.com/apmckinlay/gsuneido/core"
	"github.com/apmckinlay/gsuneido/db19/stor"
	"github.com/apmckinlay/gsuneido/dbms/commands"
	"github.com/apmckinlay/gsuneido/dbms/mux"
	"github.com/apmckinlay/gsuneido/options"
	"github.com/apmckinlay/gsuneido/util/pack"
	"github.com/apmckinlay/gsuneido/util/varint"
	"pgregory.net/rapid"
	"verifharness/internal/ev"
	"verifharness/internal/gen"
	"verifharness/internal/rt"
)

// ------------------------------------------------------------------ helpers

// mix is splitmix64: a pure function used to expand one drawn seed into bulk
// content (field bytes, sizes of thousands of fields) without thousands of
// rapid draws. All variation still comes from rapid (the seed).
func mix(x uint64) uint64 {
	x += 0x9e3779b97f4a7c15
	x = (x ^ (x >> 30)) * 0xbf58476d1ce4e5b9
	x = (x ^ (x >> 27)) * 0x94d049bb133111eb
	return x ^ (x >> 31)
}

func fillBytes(n int, seed uint64) []byte {
	b := make([]byte, n)
	s := seed
	for i := 0; i < n; i += 8 {
		s = mix(s)
		v := s
		for j := 0; j < 8 && i+j < n; j++ {
			b[i+j] = byte(v)
			v >>= 8
		}
	}
	return b
}

// try runs f and returns the recovered panic value (nil if it returned).
// rapid's own control-flow panics (t.Fatalf, data overrun while shrinking)
// are passed on.
func try(f func()) (p any) {
	defer func() {
		p = recover()
		if p != nil && strings.HasPrefix(fmt.Sprintf("%T", p), "rapid.") {
			panic(p)
		}
	}()
	f()
	return nil
}

// loud: a deliberate refusal (panic with a message), not a runtime fault.
func loud(p any) bool {
	if p == nil {
		return false
	}
	if _, ok := p.(runtime.Error); ok {
		return false
	}
	return true
}

// sameVal: a value that went through an encoding is "exactly the same" if it
// packs to the same bytes and, for scalars, is Equal both ways. (Equality of
// unpacked containers is C13's subject and is affected by known finding F3:
// integer-valued SuDnum member keys hash differently after a round trip.)
func sameVal(got, want core.Value) bool {
	if packOf(got) != packOf(want) {
		return false
	}
	switch want.(type) {
	case *core.SuObject, *core.SuRecord:
		return true
	}
	return deepEq(got, want)
}

func zigzag(n int64) uint64 { return uint64((n << 1) ^ (n >> 63)) }

// ------------------------------------------------------------------ records

const c14MaxValues = 0x3fff  // documented: count is the low 14 bits of the header
const c14MaxRecLen = 1000000 // "record too large" above this

type recCase struct {
	fields []string     // expected raw content of every field
	vals   []core.Value // non-nil entries are added with Add (packed by the builder)
}

func (rc *recCase) build() core.Record {
	var rb core.RecordBuilder
	for i, f := range rc.fields {
		if rc.vals != nil && rc.vals[i] != nil {
			rb.Add(rc.vals[i].(core.Packable))
		} else {
			rb.AddRaw(f)
		}
	}
	return rb.Build()
}

// partition splits data bytes over n fields.
func partition(t *rapid.T, data, n int, seed uint64) []int {
	sizes := make([]int, n)
	if n == 0 {
		return sizes
	}
	rem := data
	if n <= 32 {
		for i := 0; i < n-1 && rem > 0; i++ {
			if gen.Chance(t, "empty field", 20) {
				continue
			}
			lim := min(rem, 2*rem/(n-i)+1)
			sizes[i] = rapid.IntRange(0, lim).Draw(t, "field size")
			rem -= sizes[i]
		}
		sizes[n-1] = rem
		j := gen.Uniform(t, "big field position", n)
		sizes[j], sizes[n-1] = sizes[n-1], sizes[j]
		return sizes
	}
	avg := data / n
	for i := 0; i < n && rem > 0; i++ {
		h := mix(seed + uint64(i))
		if h&7 == 0 {
			continue
		}
		s := min(rem, int((h>>8)%uint64(2*avg+2)))
		sizes[i] = s
		rem -= s
	}
	sizes[int(mix(seed)%uint64(n))] += rem
	return sizes
}

func fieldsOf(sizes []int, seed uint64) []string {
	total := 0
	for _, s := range sizes {
		total += s
	}
	block := string(fillBytes(total, seed))
	fields := make([]string, len(sizes))
	off := 0
	for i, s := range sizes {
		fields[i] = block[off : off+s]
		off += s
	}
	return fields
}

func trimmed(fields []string) []string {
	n := len(fields)
	for n > 0 && fields[n-1] == "" {
		n--
	}
	return fields[:n]
}

// checkRecord compares a built record with the list of fields it was built from.
func checkRecord(t *rapid.T, what string, r core.Record, fields []string) {
	n := len(fields)
	if r.Count() != n {
		t.Fatalf("%s: Count %d, want %d", what, r.Count(), n)
	}
	if r.Len() != len(r) || core.RecLen([]byte(r)) != len(r) {
		t.Fatalf("%s: Len %d RecLen %d len %d (n=%d)", what, r.Len(), core.RecLen([]byte(r)), len(r), n)
	}
	data := 0
	for _, f := range fields {
		data += len(f)
	}
	if n == 0 {
		if r != "\x00" {
			t.Fatalf("%s: empty record is %x", what, string(r))
		}
	} else {
		// the documented layout: 2 byte header, (n+1) offsets of the header's width, the data
		w := map[byte]int{1: 1, 2: 2, 3: 4}[r[0]>>6]
		if w == 0 || len(r) != 2+w*(n+1)+data {
			t.Fatalf("%s: header type %d, len %d, but n=%d data=%d", what, r[0]>>6, len(r), n, data)
		}
	}
	for i, f := range fields {
		if g := r.GetRaw(i); g != f {
			t.Fatalf("%s: field %d of %d: got %d bytes %.40q, want %d bytes %.40q (record len %d)", what, i, n, len(g), g, len(f), f, len(r))
		}
	}
	for _, i := range []int{-1, n, n + 1, n + 1000, c14MaxValues, c14MaxValues + 1, math.MaxInt, math.MinInt} {
		if g := r.GetRaw(i); g != "" {
			t.Fatalf("%s: out of range field %d (n=%d) is %.40q", what, i, n, g)
		}
	}
}

func recMode(r core.Record) int {
	if r[0] == 0 {
		return 0
	}
	return int(r[0] >> 6)
}

func c14Records(t *rapid.T, rec *ev.Rec) {
	seed := rapid.Uint64().Draw(t, "seed")
	cls := gen.Weighted(t, "class", []int{25, 23, 20, 8, 3, 3, 18})
	var rc recCase
	wantPanic := ""
	switch cls {
	case 0: // small, random
		n := rapid.IntRange(0, 20).Draw(t, "n")
		sizes := make([]int, n)
		for i := range sizes {
			if !gen.Chance(t, "empty", 25) {
				sizes[i] = rapid.IntRange(0, 40).Draw(t, "size")
			}
		}
		rc.fields = fieldsOf(sizes, seed)
	case 1: // total length around the 8 bit limit
		l8 := gen.Pick(t, "L8", []int{0xfd, 0xfe, 0xff, 0x100, 0x101, 0x102})
		n := 1 + gen.Uniform(t, "n", 40)
		rc.fields = fieldsOf(partition(t, l8-3-n, n, seed), seed)
	case 2: // total length around the 16 bit limit
		l16 := gen.Pick(t, "L16", []int{0xfffd, 0xfffe, 0xffff, 0x10000, 0x10001, 0x10002})
		var n int
		switch gen.Weighted(t, "ncls", []int{3, 3, 2, 1, 1}) {
		case 0:
			n = 1 + gen.Uniform(t, "n", 10)
		case 1:
			n = 11 + gen.Uniform(t, "n", 300)
		case 2:
			n = 300 + gen.Uniform(t, "n", 3000)
		case 3:
			n = 3000 + gen.Uniform(t, "n", c14MaxValues-3000)
		default:
			n = c14MaxValues
		}
		rc.fields = fieldsOf(partition(t, l16-4-2*n, n, seed), seed)
	case 3: // many fields, little data
		n := gen.Pick(t, "n", []int{c14MaxValues - 1, c14MaxValues, 255, 256, 300 + gen.Uniform(t, "nr", c14MaxValues-300)})
		rc.fields = fieldsOf(partition(t, n/2*gen.Uniform(t, "density", 4), n, seed), seed)
	case 4: // more fields than the header can count
		n := c14MaxValues + 1 + gen.Uniform(t, "over", 3)
		rc.fields = fieldsOf(partition(t, n/2*gen.Uniform(t, "density", 2), n, seed), seed)
		wantPanic = "too many values"
	case 5: // around the maximum record length
		l32 := gen.Pick(t, "L32", []int{c14MaxRecLen - 2, c14MaxRecLen - 1, c14MaxRecLen, c14MaxRecLen + 1, c14MaxRecLen + 2})
		n := gen.Pick(t, "n", []int{1, 2, 7, 1000, c14MaxValues})
		rc.fields = fieldsOf(partition(t, l32-6-4*n, n, seed), seed)
		if l32 > c14MaxRecLen {
			wantPanic = "too large"
		}
	default: // real packed values through Add, mixed with raw fields
		n := 1 + gen.Uniform(t, "n", 12)
		rc.fields = make([]string, n)
		rc.vals = make([]core.Value, n)
		for i := range rc.fields {
			switch gen.Uniform(t, "fieldkind", 4) {
			case 0:
				rc.fields[i] = string(fillBytes(rapid.IntRange(0, 30).Draw(t, "rawsize"), seed+uint64(i)))
			case 1:
				m := gen.ObjMV(2).Draw(t, "obj")
				rc.vals[i], rc.fields[i] = m.V, packOf(m.V)
			default:
				m := gen.ScalarMV().Draw(t, "val")
				rc.vals[i], rc.fields[i] = m.V, packOf(m.V)
			}
		}
	}
	n := len(rc.fields)
	data := 0
	for _, f := range rc.fields {
		data += len(f)
	}
	l8, l16, l32 := 3+n+data, 4+2*n+data, 6+4*n+data
	canon := fmt.Sprintf("rec cls=%d n=%d data=%d seed=%d", cls, n, data, seed)
	if cls == 0 || cls == 6 {
		canon = fmt.Sprintf("rec %q", rc.fields)
	}

	var r core.Record
	p := try(func() { r = rc.build() })
	if wantPanic != "" {
		if s, ok := p.(string); !ok || !strings.Contains(s, wantPanic) {
			t.Fatalf("building a record with n=%d, length %d: want panic %q, got %v (record len %d)", n, l32, wantPanic, p, len(r))
		}
		rec.Case(true, canon)
		rec.Label("rec_refused_" + strings.ReplaceAll(wantPanic, " ", "_"))
		return
	}
	if p != nil {
		t.Fatalf("Build panicked for n=%d data=%d (lengths %#x/%#x/%d): %v", n, data, l8, l16, l32, p)
	}
	checkRecord(t, "built", r, rc.fields)
	if rc.vals != nil {
		for i, v := range rc.vals {
			if v != nil && !sameVal(r.GetVal(i), v) {
				t.Fatalf("GetVal(%d) = %v, want %v", i, r.GetVal(i), v)
			}
		}
	}

	// Truncate keeps exactly the leading fields (and trims trailing empty ones)
	ks := []int{0, 1, n - 1, n, n + 1, gen.Uniform(t, "k", n+1)}
	if n > 2 && n <= 1000 && len(r) <= 100000 { // (each k < n rebuilds the record: fewer for the big ones)
		ks = append(ks, len(trimmed(rc.fields[:n-1])), n/2)
	}
	for _, k := range ks {
		if k < 0 {
			continue
		}
		var tr core.Record
		if p := try(func() { tr = r.Truncate(k) }); p != nil {
			t.Fatalf("Truncate(%d) of n=%d panicked: %v", k, n, p)
		}
		if k >= n {
			if tr != r {
				t.Fatalf("Truncate(%d) of a record with %d fields changed it", k, n)
			}
			continue
		}
		want := trimmed(rc.fields[:k])
		checkRecord(t, fmt.Sprintf("Truncate(%d) of n=%d", k, n), tr, want)
		for i := len(want); i <= k+1; i++ {
			if g := tr.GetRaw(i); g != "" {
				t.Fatalf("Truncate(%d): field %d is %.40q", k, i, g)
			}
		}
		rec.LabelIf(len(want) < k, "rec_truncate_trims_trailing_empty")
		rec.LabelIf(recMode(tr) != recMode(r), "rec_truncate_changes_header_class")
	}

	edge := n == 0 || n == c14MaxValues || l8 >= 0xff && l8 <= 0x100 || l16 >= 0xffff && l16 <= 0x10000 || l32 >= c14MaxRecLen-1 && recMode(r) == 3
	rec.Case(edge, canon)
	rec.Label(fmt.Sprintf("rec_header_type%d", []int{0, 8, 16, 32}[recMode(r)]))
	rec.LabelIf(n == 0, "rec_no_fields")
	rec.LabelIf(n == c14MaxValues, "rec_n_eq_16383")
	rec.LabelIf(l8 == 0xff, "rec_largest_type8(len=0xff)")
	rec.LabelIf(l8 == 0x100, "rec_smallest_type16(type8_len_would_be_0x100)")
	rec.LabelIf(l16 == 0xffff, "rec_largest_type16(len=0xffff)")
	rec.LabelIf(l16 == 0x10000, "rec_smallest_type32(type16_len_would_be_0x10000)")
	rec.LabelIf(len(r) == c14MaxRecLen, "rec_len_eq_1000000")
	rec.LabelIf(rc.vals != nil, "rec_with_packed_values")
	if edge && rec.WantSample("record_edge") {
		rec.Sample("record_edge", map[string]any{"fields": n, "data_bytes": data, "len": len(r), "header_type": recMode(r), "first_bytes": fmt.Sprintf("%x", string(r[:min(8, len(r))]))})
	}
}

// --------------------------------------------------------------------- stor

type storOp struct {
	Kind int // 1..5 PutK, 6 PutStr, 7 PutStrs
	N    int64
	S    string
	SS   []string
}

func leBytes(v uint64, k int) []byte {
	var b [8]byte
	binary.LittleEndian.PutUint64(b[:], v)
	return b[:k]
}

func storStr(t *rapid.T, seed uint64) string {
	var n int
	switch gen.Weighted(t, "strcls", []int{6, 2, 1, 1}) {
	case 0:
		n = rapid.IntRange(0, 20).Draw(t, "len")
	case 1:
		n = gen.Pick(t, "len", []int{0, 255, 256, 257})
	case 2:
		n = gen.Pick(t, "len", []int{65534, 65535})
	default:
		n = rapid.IntRange(0, 65535).Draw(t, "len")
	}
	return string(fillBytes(n, seed))
}

func c14Stor(t *rapid.T, rec *ev.Rec) {
	seed := rapid.Uint64().Draw(t, "seed")
	nops := 1 + gen.Uniform(t, "nops", 12)
	var ops []storOp
	var want []byte
	edge := false
	for i := 0; i < nops; i++ {
		k := 1 + gen.Uniform(t, "kind", 7)
		op := storOp{Kind: k}
		switch {
		case k <= 5:
			maxv := int64(1)<<(8*k) - 1
			switch gen.Uniform(t, "valcls", 4) {
			case 0:
				j := gen.Uniform(t, "byte", k+1)
				op.N = max(0, min(maxv, int64(1)<<(8*j)-1+int64(gen.Uniform(t, "d", 3))-1))
				edge = true
			case 1:
				op.N = maxv - int64(gen.Uniform(t, "below max", 2))
				edge = true
			default:
				op.N = rapid.Int64Range(0, maxv).Draw(t, "v")
			}
			want = append(want, leBytes(uint64(op.N), k)...)
			rec.LabelIf(op.N == maxv, fmt.Sprintf("stor_put%d_max", k))
		case k == 6:
			op.S = storStr(t, seed+uint64(i))
			want = append(want, leBytes(uint64(len(op.S)), 2)...)
			want = append(want, op.S...)
			edge = edge || len(op.S) == 65535
			rec.LabelIf(len(op.S) == 65535, "stor_putstr_len_65535")
		default:
			ns := rapid.IntRange(0, 6).Draw(t, "nstrs")
			if gen.Chance(t, "many strs", 4) {
				ns = gen.Pick(t, "nstrs", []int{255, 256, 65535})
				edge = true
				rec.LabelIf(ns == 65535, "stor_putstrs_65535_strings")
			}
			op.SS = make([]string, ns)
			want = append(want, leBytes(uint64(ns), 2)...)
			for j := range op.SS {
				if ns <= 6 {
					op.SS[j] = storStr(t, seed+uint64(i*1000+j))
				} else if mix(seed+uint64(j))&3 == 0 {
					op.SS[j] = string(fillBytes(int(mix(seed+uint64(j))>>60), seed))
				}
				want = append(want, leBytes(uint64(len(op.SS[j])), 2)...)
				want = append(want, op.SS[j]...)
			}
		}
		ops = append(ops, op)
	}
	// write: the writer appends into the caller's buffer (as hamt.Write and the
	// btree/meta writers use it: the exact size is allocated first)
	buf := make([]byte, len(want))
	w := stor.NewWriter(buf)
	pos := 0
	p := try(func() {
		for _, op := range ops {
			switch op.Kind {
			case 1:
				w.Put1(int(op.N))
			case 2:
				w.Put2(int(op.N))
			case 3:
				w.Put3(int(op.N))
			case 4:
				w.Put4(int(op.N))
			case 5:
				w.Put5(op.N)
			case 6:
				w.PutStr(op.S)
				if stor.LenStr(op.S) != 2+len(op.S) {
					panic("LenStr")
				}
			case 7:
				before := w.Len()
				w.PutStrs(op.SS)
				if stor.LenStrs(op.SS) != w.Len()-before {
					panic(fmt.Sprintf("LenStrs %d but PutStrs wrote %d", stor.LenStrs(op.SS), w.Len()-before))
				}
			}
		}
	})
	if p != nil {
		t.Fatalf("writer refused an in-range script %v: %v", ops, p)
	}
	if w.Len() != len(want) || !bytes.Equal(buf, want) {
		t.Fatalf("writer produced %d bytes %x, want %d bytes %x", w.Len(), buf[:min(len(buf), 64)], len(want), want[:min(len(want), 64)])
	}
	r := stor.NewReader(buf)
	p = try(func() {
		for i, op := range ops {
			var got int64
			switch op.Kind {
			case 1:
				got, pos = int64(r.Get1()), pos+1
			case 2:
				got, pos = int64(r.Get2()), pos+2
			case 3:
				got, pos = int64(r.Get3()), pos+3
			case 4:
				got, pos = int64(r.Get4()), pos+4
			case 5:
				got, pos = r.Get5(), pos+5
			case 6:
				s := r.GetStr()
				pos += 2 + len(op.S)
				if s != op.S {
					panic(fmt.Sprintf("op %d GetStr: %d bytes, want %d", i, len(s), len(op.S)))
				}
			case 7:
				ss := r.GetStrs()
				if len(ss) != len(op.SS) {
					panic(fmt.Sprintf("op %d GetStrs: %d strings, want %d", i, len(ss), len(op.SS)))
				}
				pos += 2
				for j := range ss {
					pos += 2 + len(ss[j])
					if ss[j] != op.SS[j] {
						panic(fmt.Sprintf("op %d GetStrs[%d] differs", i, j))
					}
				}
			}
			if op.Kind <= 5 && got != op.N {
				panic(fmt.Sprintf("op %d Get%d = %d, want %d", i, op.Kind, got, op.N))
			}
			if r.Remaining() != len(want)-pos {
				panic(fmt.Sprintf("op %d Remaining %d, want %d", i, r.Remaining(), len(want)-pos))
			}
		}
	})
	if p != nil {
		t.Fatalf("reading back %v: %v", ops, p)
	}

	// values outside the representable range must be refused loudly
	{
		k := 1 + gen.Uniform(t, "okind", 7)
		ow := stor.NewWriter(make([]byte, 0, 16))
		var bad any
		var p any
		if k <= 5 {
			lim := int64(1) << (8 * k)
			v := gen.Pick(t, "out of range", []int64{-1, lim, lim + 1, -lim, math.MaxInt64, math.MinInt64, lim << 8})
			bad = v
			p = try(func() {
				switch k {
				case 1:
					ow.Put1(int(v))
				case 2:
					ow.Put2(int(v))
				case 3:
					ow.Put3(int(v))
				case 4:
					ow.Put4(int(v))
				case 5:
					ow.Put5(v)
				}
			})
		} else if k == 6 {
			n := gen.Pick(t, "too long", []int{65536, 65537, 70000, 1 << 17})
			bad = n
			p = try(func() { ow.PutStr(string(make([]byte, n))) })
		} else {
			n := gen.Pick(t, "too many", []int{65536, 65537})
			bad = n
			p = try(func() { ow.PutStrs(make([]string, n)) })
		}
		if !loud(p) {
			t.Fatalf("kind %d value %v outside the range: want a loud panic, got %v (writer now holds %d bytes)", k, bad, p, ow.Len())
		}
		if ow.Len() != 0 {
			t.Fatalf("kind %d value %v was refused (%v) after writing %d bytes", k, bad, p, ow.Len())
		}
		rec.Label("stor_out_of_range_refused")
	}

	// SmallOffset: five bytes, little endian, every value up to MaxSmallOffset
	{
		var v uint64
		switch gen.Uniform(t, "socls", 3) {
		case 0:
			j := gen.Uniform(t, "sobyte", 6)
			v = min(uint64(stor.MaxSmallOffset), uint64(1)<<(8*j)-1+uint64(gen.Uniform(t, "sod", 2)))
		case 1:
			v = stor.MaxSmallOffset - uint64(gen.Uniform(t, "sodown", 3))
		default:
			v = rapid.Uint64Range(0, stor.MaxSmallOffset).Draw(t, "so")
		}
		pre := gen.Uniform(t, "prefix", 4)
		b := make([]byte, pre+stor.SmallOffsetLen+1)
		b[len(b)-1] = 0xa5
		stor.WriteSmallOffset(b[pre:], v)
		if g := stor.ReadSmallOffset(b[pre:]); g != v || b[len(b)-1] != 0xa5 {
			t.Fatalf("SmallOffset %d read back as %d (bytes %x)", v, g, b)
		}
		if !bytes.Equal(b[pre:pre+5], leBytes(v, 5)) {
			t.Fatalf("SmallOffset %d written as %x", v, b[pre:pre+5])
		}
		a := stor.AppendSmallOffset(append([]byte(nil), b[:pre]...), v)
		if !bytes.Equal(a, b[:pre+5]) {
			t.Fatalf("AppendSmallOffset %d gives %x, WriteSmallOffset %x", v, a, b[:pre+5])
		}
		// the same five bytes as Put5/Get5 (chunk links are written with Put5)
		if g := stor.NewReader(b[pre:]).Get5(); uint64(g) != v {
			t.Fatalf("Get5 of SmallOffset %d = %d", v, g)
		}
		rec.LabelIf(v == stor.MaxSmallOffset, "smalloffset_max")
		edge = edge || v == stor.MaxSmallOffset
	}
	rec.Case(edge, fmt.Sprintf("stor %d %v", seed, opsCanon(ops)))
	if edge && rec.WantSample("stor_script") {
		rec.Sample("stor_script", opsCanon(ops))
	}
}

func opsCanon(ops []storOp) string {
	var sb strings.Builder
	for _, op := range ops {
		switch {
		case op.Kind <= 5:
			fmt.Fprintf(&sb, "Put%d(%d) ", op.Kind, op.N)
		case op.Kind == 6:
			fmt.Fprintf(&sb, "PutStr(len %d) ", len(op.S))
		default:
			fmt.Fprintf(&sb, "PutStrs(%d strings) ", len(op.SS))
		}
	}
	return sb.String()
}

// ------------------------------------------------------------------- varint

func c14Varint(t *rapid.T, rec *ev.Rec) {
	var n uint64
	edge := false
	switch gen.Uniform(t, "cls", 3) {
	case 0:
		k := 1 + gen.Uniform(t, "k", 9)
		n = uint64(1)<<(7*k) - 1 + uint64(gen.Uniform(t, "d", 2))
		edge = true
	case 1:
		n = math.MaxUint64 - uint64(gen.Uniform(t, "down", 2))
		edge = true
	default:
		n = rapid.Uint64().Draw(t, "n")
	}
	want := len(binary.AppendUvarint(nil, n))
	if g := varint.Len(n); g != want {
		t.Fatalf("varint.Len(%d) = %d, encoding/binary uses %d bytes", n, g, want)
	}
	// the encoder whose size it predicts (object packing)
	enc := pack.NewEncoder(binary.MaxVarintLen64)
	enc.VarUint(n)
	if len(enc.Buffer()) != want {
		t.Fatalf("pack VarUint(%d) wrote %d bytes, varint.Len says %d", n, len(enc.Buffer()), want)
	}
	if g := pack.NewDecoder(string(enc.Buffer())).VarUint(); g != n {
		t.Fatalf("pack VarUint %d read back as %d", n, g)
	}
	rec.Case(edge, fmt.Sprintf("varint %d", n))
	rec.Label(fmt.Sprintf("varint_len_%d", want))
}

// --------------------------------------------------------------------- wire

const c14BufSize = 4096       // mux bufSize
const c14HeaderSize = 9       // mux.HeaderSize
const c14MaxMsg = 1024 * 1024 // mux maxSize / maxio

type witem struct {
	Tag  byte // L int64, i int, s str, S strs, I ints, r rec, v val, b bool
	N    int64
	S    string
	SS   []string
	NS   []int
	V    core.Value
	B    bool
	Edge bool
}

func (it *witem) canon() string {
	switch it.Tag {
	case 'L', 'i':
		return fmt.Sprintf("%c%d", it.Tag, it.N)
	case 's', 'r':
		return fmt.Sprintf("%c%d:%x", it.Tag, len(it.S), ev.Hash(it.S))
	case 'S':
		var sb strings.Builder
		for _, s := range it.SS {
			fmt.Fprintf(&sb, "%d:%x,", len(s), ev.Hash(s))
		}
		return "S[" + sb.String() + "]"
	case 'I':
		return fmt.Sprint("I", it.NS)
	case 'v':
		return "v" + it.V.String()
	}
	return fmt.Sprint("b", it.B)
}

// bufsim mirrors how WriteBuf fills its 4 KB buffer; it only steers the
// generator towards strings that exactly fill / just overflow the buffer and
// feeds the label counters. It is not part of the oracle.
type bufsim struct {
	fill, flushes, direct int
	exact, over           bool // a string exactly filled the buffer / was one byte too long for it
}

func (b *bufsim) space() int { return c14BufSize - b.fill }
func (b *bufsim) write1() {
	if b.space() == 0 {
		b.fill = c14HeaderSize
		b.flushes++
	}
	b.fill++
}
func (b *bufsim) writeN(n int) {
	b.exact = b.exact || n == b.space() && n > 0
	b.over = b.over || n == b.space()+1
	if n > b.space() {
		b.fill = c14HeaderSize
		b.flushes++
	}
	if n >= c14BufSize {
		b.direct++
	} else {
		b.fill += n
	}
}
func (b *bufsim) varint(n int64) {
	for range varint.Len(zigzag(n)) {
		b.write1()
	}
}
func (b *bufsim) str(s string) { b.varint(int64(len(s))); b.writeN(len(s)) }
func (b *bufsim) item(it *witem) {
	b.write1()
	switch it.Tag {
	case 'L', 'i':
		b.varint(it.N)
	case 's', 'r':
		b.str(it.S)
	case 'S':
		b.varint(int64(len(it.SS)))
		for _, s := range it.SS {
			b.str(s)
		}
	case 'I':
		b.varint(int64(len(it.NS)))
		for _, n := range it.NS {
			b.varint(int64(n))
		}
	case 'v':
		b.str(packOf(it.V))
	case 'b':
		b.write1()
	}
}

// own encoder = the documented wire format: zig-zag base-128 varints (the
// protobuf format implemented by encoding/binary) and size-prefixed strings.
func encInt(b []byte, n int64) []byte  { return binary.AppendVarint(b, n) }
func encStr(b []byte, s string) []byte { return append(encInt(b, int64(len(s))), s...) }

func (it *witem) enc(b []byte) []byte {
	b = append(b, it.Tag)
	switch it.Tag {
	case 'L', 'i':
		b = encInt(b, it.N)
	case 's', 'r':
		b = encStr(b, it.S)
	case 'S':
		b = encInt(b, int64(len(it.SS)))
		for _, s := range it.SS {
			b = encStr(b, s)
		}
	case 'I':
		b = encInt(b, int64(len(it.NS)))
		for _, n := range it.NS {
			b = encInt(b, int64(n))
		}
	case 'v':
		b = encStr(b, packOf(it.V))
	case 'b':
		if it.B {
			b = append(b, 1)
		} else {
			b = append(b, 0)
		}
	}
	return b
}

func (it *witem) size() int {
	switch it.Tag {
	case 's', 'r':
		return 1 + varint.Len(zigzag(int64(len(it.S)))) + len(it.S)
	}
	return len(it.enc(nil))
}

var wireEdgeInts = func() []int64 {
	r := []int64{0, 1, -1, math.MaxInt64, math.MinInt64, math.MaxInt64 - 1, math.MinInt64 + 1, math.MaxInt32, math.MinInt32}
	for k := 1; k <= 9; k++ { // zig-zag value needs k / k+1 bytes on either side of ±2^(7k-1)
		p := int64(1) << (7*k - 1)
		r = append(r, p-1, p, -p, -p-1)
	}
	return r
}()

func wireInt(t *rapid.T) (int64, bool) {
	switch gen.Uniform(t, "intcls", 4) {
	case 0, 1:
		return gen.Pick(t, "edge int", wireEdgeInts), true
	case 2:
		return gen.Int64().Draw(t, "int"), false
	}
	return rapid.Int64().Draw(t, "int"), false
}

// wireStrLen picks a string length; sim is positioned after the item's tag.
func wireStrLen(t *rapid.T, sim *bufsim, room int) (int, bool) {
	n, edge := 0, false
	switch gen.Weighted(t, "lencls", []int{8, 3, 5, 3, 2, 1}) {
	case 0:
		n = rapid.IntRange(0, 40).Draw(t, "len")
	case 1: // length prefix grows from 1 to 2 to 3 bytes
		n, edge = gen.Pick(t, "len", []int{63, 64, 65, 8191, 8192, 8193}), true
	case 2: // relative to the space left in the write buffer (after the prefix)
		sp := sim.space()
		n, edge = max(0, sp-gen.Uniform(t, "under", 5)+1), true
	case 3:
		n, edge = gen.Pick(t, "len", []int{c14BufSize - c14HeaderSize - 1, c14BufSize - c14HeaderSize, c14BufSize - 1, c14BufSize, c14BufSize + 1, 2 * c14BufSize, 2*c14BufSize + 1}), true
	case 4:
		n = rapid.IntRange(0, 20000).Draw(t, "len")
	default:
		n = rapid.IntRange(0, 300000).Draw(t, "len")
	}
	return min(n, max(0, room-5)), edge
}

func genWireItem(t *rapid.T, sim *bufsim, room int, seed uint64) witem {
	it := witem{Tag: "LLisSIrvb"[gen.Weighted(t, "tag", []int{3, 2, 2, 4, 2, 2, 1, 2, 1})]}
	switch it.Tag {
	case 'L', 'i':
		it.N, it.Edge = wireInt(t)
	case 's':
		n, e := wireStrLen(t, sim, room)
		it.S, it.Edge = string(fillBytes(n, seed)), e
	case 'S':
		ns := rapid.IntRange(0, 5).Draw(t, "nstrs")
		for j := 0; j < ns; j++ {
			n, e := wireStrLen(t, sim, max(0, room/(ns+1)))
			it.SS = append(it.SS, string(fillBytes(n, seed+uint64(j))))
			it.Edge = it.Edge || e
		}
	case 'I':
		ns := rapid.IntRange(0, 8).Draw(t, "nints")
		for j := 0; j < ns; j++ {
			n, e := wireInt(t)
			it.NS = append(it.NS, int(n))
			it.Edge = it.Edge || e
		}
	case 'r':
		nf := rapid.IntRange(0, 6).Draw(t, "nfields")
		if gen.Chance(t, "wide record", 15) {
			nf = 250 + gen.Uniform(t, "nf", 10)
		}
		sizes := make([]int, nf)
		for j := range sizes {
			sizes[j] = rapid.IntRange(0, 12).Draw(t, "fsize")
		}
		rc := recCase{fields: fieldsOf(sizes, seed)}
		it.S = string(rc.build())
	case 'v':
		if gen.Chance(t, "object", 30) {
			it.V = gen.ObjMV(2).Draw(t, "obj").V
		} else {
			it.V = gen.ScalarMV().Draw(t, "val").V
		}
	case 'b':
		it.B = rapid.Bool().Draw(t, "b")
	}
	return it
}

type wirePair struct {
	cc *mux.ClientConn
}

// c14Worker is the server side: it decodes a typed script with ReadBuf and
// re-encodes every value with WriteBuf; with command 1 it also returns the
// request bytes exactly as they arrived.
func c14Worker(wb *mux.WriteBuf, _ *core.Thread, _ uint64, req []byte) {
	if req == nil {
		return // connection closed
	}
	defer func() {
		if e := recover(); e != nil {
			wb.ResetWrite()
			wb.PutBool(false).PutStr(fmt.Sprint("worker: ", e)).EndMsg()
		}
	}()
	var rb mux.ReadBuf
	rb.SetBuf(req)
	raw := rb.GetCmd() == 1
	wb.ResetWrite()
	wb.PutBool(true)
	for rb.Remaining() > 0 {
		tag := rb.GetByte()
		wb.PutByte(tag)
		switch tag {
		case 'L':
			wb.PutInt64(rb.GetInt64())
		case 'i':
			wb.PutInt(rb.GetInt())
		case 's':
			wb.PutStr(rb.GetStr())
		case 'S':
			wb.PutStrs(rb.GetStrs())
		case 'I':
			ints := make([]int, rb.GetInt())
			for i := range ints {
				ints[i] = rb.GetInt()
			}
			wb.PutInts(ints)
		case 'r':
			wb.PutRec(rb.GetRec())
		case 'v':
			wb.PutVal(rb.GetVal())
		case 'b':
			wb.PutBool(rb.GetBool())
		default:
			panic(fmt.Sprintf("bad tag %q with %d bytes left", tag, rb.Remaining()))
		}
	}
	if raw {
		wb.PutStr(string(req))
	}
	wb.EndMsg()
}

var wireOnce = sync.OnceValue(func() *wirePair {
	p1, p2 := net.Pipe()
	workers := mux.NewWorkers(c14Worker)
	sc := mux.NewServerConn(p2)
	go sc.Run(workers.Submit)
	return &wirePair{cc: mux.NewClientConn(p1)}
})

func c14Wire(t *rapid.T, rec *ev.Rec) {
	seed := rapid.Uint64().Draw(t, "seed")
	raw := gen.Chance(t, "raw echo", 50)
	budgetCls := gen.Weighted(t, "budget", []int{82, 14, 4})
	budget := []int{20000, 300000, c14MaxMsg}[budgetCls]
	if raw {
		budget = min(budget, (c14MaxMsg-16)/2)
	}
	sim := &bufsim{fill: c14HeaderSize}
	sim.write1() // command byte
	total := 1
	var items []witem
	nitems := 1 + gen.Uniform(t, "nitems", 10)
	for i := 0; i < nitems; i++ {
		s2 := *sim
		s2.write1() // tag
		s2.write1() // at least one byte of length prefix
		it := genWireItem(t, &s2, budget-total-1, seed+uint64(i)<<20)
		if total+it.size() > budget {
			continue
		}
		sim.item(&it)
		items = append(items, it)
		total += it.size()
	}
	fullDelta := -1
	if budgetCls == 2 && !raw {
		// fill the message up to (or just below) the largest accepted size
		fullDelta = gen.Uniform(t, "below max", 3)
		rem := c14MaxMsg - fullDelta - total
		for vl := 1; vl <= 4; vl++ {
			if n := rem - 1 - vl; n >= 0 && varint.Len(zigzag(int64(n))) == vl {
				it := witem{Tag: 's', S: string(fillBytes(n, seed)), Edge: true}
				sim.item(&it)
				items = append(items, it)
				total += it.size()
				break
			}
		}
	}
	var want []byte // the request as the documented format defines it
	want = append(want, 0)
	if raw {
		want[0] = 1
	}
	for i := range items {
		want = items[i].enc(want)
	}
	if len(want) != total {
		t.Fatalf("harness: size model %d != encoder %d", total, len(want))
	}

	cs := wireOnce().cc.NewClientSession()
	p := try(func() {
		cs.PutCmd(commands.Command(want[0]))
		for i := range items {
			it := &items[i]
			cs.PutByte(it.Tag)
			switch it.Tag {
			case 'L':
				cs.PutInt64(it.N)
			case 'i':
				cs.PutInt(int(it.N))
			case 's':
				cs.PutStr(it.S)
			case 'S':
				cs.PutStrs(it.SS)
			case 'I':
				cs.PutInts(it.NS)
			case 'r':
				cs.PutRec(core.Record(it.S))
			case 'v':
				cs.PutVal(it.V)
			case 'b':
				cs.PutBool(it.B)
			}
		}
		cs.Request()
	})
	if p != nil {
		t.Fatalf("request of %d bytes (%d items) failed: %v", total, len(items), p)
	}
	// read the reply with ReadBuf and compare with what was sent
	p = try(func() {
		for i := range items {
			it := &items[i]
			if tag := cs.GetByte(); tag != it.Tag {
				panic(fmt.Sprintf("item %d: tag %q, want %q", i, tag, it.Tag))
			}
			switch it.Tag {
			case 'L', 'i':
				before := cs.Remaining()
				var g int64
				if it.Tag == 'L' {
					g = cs.GetInt64()
				} else {
					g = int64(cs.GetInt())
				}
				if g != it.N {
					panic(fmt.Sprintf("item %d: int %d came back as %d", i, it.N, g))
				}
				if used := before - cs.Remaining(); used != varint.Len(zigzag(it.N)) {
					panic(fmt.Sprintf("item %d: int %d used %d bytes, varint.Len says %d", i, it.N, used, varint.Len(zigzag(it.N))))
				}
			case 's':
				if g := cs.GetStr(); g != it.S {
					panic(fmt.Sprintf("item %d: string of %d bytes came back as %d bytes (first difference at %d)", i, len(it.S), len(g), firstDiff(g, it.S)))
				}
			case 'S':
				g := cs.GetStrs()
				if len(g) != len(it.SS) {
					panic(fmt.Sprintf("item %d: %d strings came back as %d", i, len(it.SS), len(g)))
				}
				for j := range g {
					if g[j] != it.SS[j] {
						panic(fmt.Sprintf("item %d: string %d of %d bytes came back as %d bytes", i, j, len(it.SS[j]), len(g[j])))
					}
				}
			case 'I':
				n := cs.GetInt()
				if n != len(it.NS) {
					panic(fmt.Sprintf("item %d: %d ints came back as %d", i, len(it.NS), n))
				}
				for j := range it.NS {
					if g := cs.GetInt(); g != it.NS[j] {
						panic(fmt.Sprintf("item %d: int %d came back as %d", i, it.NS[j], g))
					}
				}
			case 'r':
				if g := cs.GetRec(); string(g) != it.S {
					panic(fmt.Sprintf("item %d: record of %d bytes came back as %d bytes", i, len(it.S), len(g)))
				}
			case 'v':
				if g := cs.GetVal(); !sameVal(g, it.V) {
					panic(fmt.Sprintf("item %d: value %v came back as %v", i, it.V, g))
				}
			case 'b':
				if g := cs.GetBool(); g != it.B {
					panic(fmt.Sprintf("item %d: bool %v came back as %v", i, it.B, g))
				}
			}
		}
		if raw {
			// the bytes that crossed the wire are exactly the documented encoding
			if g := cs.GetStr(); g != string(want) {
				panic(fmt.Sprintf("request bytes on the wire (%d) differ from the documented encoding (%d) at %d: %x vs %x", len(g), len(want),
					firstDiff(g, string(want)), clip(g, firstDiff(g, string(want))), clip(string(want), firstDiff(g, string(want)))))
			}
		}
		if cs.Remaining() != 0 {
			panic(fmt.Sprintf("%d unread bytes after the reply", cs.Remaining()))
		}
	})
	if p != nil {
		t.Fatalf("script %s (%d bytes): %v", itemsCanon(items), total, p)
	}
	edge := false
	for i := range items {
		edge = edge || items[i].Edge
		rec.Label("wire_item_" + string(items[i].Tag))
		switch items[i].Tag {
		case 'L', 'i':
			rec.Label(fmt.Sprintf("wire_int_%d_bytes", varint.Len(zigzag(items[i].N))))
			rec.LabelIf(items[i].N == math.MinInt64, "wire_int_MinInt64")
			rec.LabelIf(items[i].N == math.MaxInt64, "wire_int_MaxInt64")
		}
	}
	rec.Case(edge, fmt.Sprint(raw, itemsCanon(items)))
	rec.LabelIf(raw, "wire_raw_bytes_compared")
	rec.LabelIf(sim.exact, "wire_str_exactly_fills_buffer")
	rec.LabelIf(sim.over, "wire_str_one_byte_more_than_buffer_space")
	rec.LabelIf(sim.direct > 0, "wire_str_ge_4096_written_directly")
	rec.LabelIf(sim.flushes > 0, "wire_multi_part_request")
	rec.LabelIf(total >= 100000, "wire_request_ge_100KB")
	rec.LabelIf(fullDelta == 0 && total == c14MaxMsg, "wire_request_eq_1MB_limit")
	rec.LabelIf(fullDelta > 0 && total == c14MaxMsg-fullDelta, "wire_request_just_below_1MB_limit")
	if edge && rec.WantSample("wire_script") {
		rec.Sample("wire_script", map[string]any{"items": itemsCanon(items), "bytes": total, "raw_compared": raw})
	}
}

func itemsCanon(items []witem) string {
	var sb strings.Builder
	for i := range items {
		sb.WriteString(items[i].canon())
		sb.WriteByte(' ')
	}
	return sb.String()
}

func firstDiff(a, b string) int {
	i := 0
	for i < len(a) && i < len(b) && a[i] == b[i] {
		i++
	}
	return i
}

func clip(s string, at int) string {
	lo := max(0, at-4)
	return s[min(lo, len(s)):min(len(s), at+12)]
}

// c14Limits: sizes outside the protocol's range are refused loudly.
func c14Limits(t *testing.T, rec *ev.Rec) {
	saveAction, saveExit := options.Action, core.Exit
	defer func() { options.Action, core.Exit = saveAction, saveExit }()
	log.SetOutput(io.Discard) // Fatal logs before it exits
	defer log.SetOutput(os.Stderr)
	type fatal struct{}
	core.Exit = func(int) { panic(fatal{}) }
	for _, action := range []string{"server", "client"} {
		options.Action = action
		for _, n := range []int{c14MaxMsg + 1, c14MaxMsg + 2, 2 * c14MaxMsg} {
			cs := wireOnce().cc.NewClientSession()
			big := string(make([]byte, n))
			for name, f := range map[string]func(){
				"PutStr": func() { cs.PutStr(big) },
				"PutRec": func() { cs.PutRec(core.Record(big)) },
				"PutBuf": func() { cs.PutBuf(big) }} {
				cs.ResetWrite()
				p := try(f)
				_, isFatal := p.(fatal)
				if s, ok := p.(string); !(isFatal && action == "client") && !(ok && strings.Contains(s, "too large") && action == "server") {
					rt.Fail(t, rec, "limits", "", fmt.Sprintf("%s of %d bytes as %s: want a loud refusal, got %v", name, n, action, p))
				}
				rec.Case(true, fmt.Sprint("limit", name, n, action))
				rec.Label("wire_over_1MB_refused")
			}
		}
	}
}

// TestC14: stored records and binary encodings round-trip.
func TestC14(t *testing.T) {
	rec := ev.New("C14", "rapid-generated (1) records of 0..16383 fields whose total length is steered onto both sides of the 8/16/32-bit header limits (0xff/0x100, 0xffff/0x10000), the 1,000,000 byte limit and the 16383 field limit, raw fields and packed values, every field read back, out-of-range indexes, Truncate(k) for k around n; (2) stor.Writer/Reader scripts of Put1..Put5/PutStr/PutStrs with values at every byte-width limit compared byte-for-byte with encoding/binary little endian, SmallOffset, out-of-range values must panic; (3) varint.Len against encoding/binary and the pack encoder; (4) typed scripts sent through a real mux ClientConn/ServerConn pair on net.Pipe whose worker decodes with ReadBuf and re-encodes with WriteBuf (PutInt64/PutInt/PutStr/PutStrs/PutInts/PutRec/PutVal/PutBool), read back and, in half of the cases, the request bytes as received compared with the harness's own encoder (encoding/binary zig-zag varints). Non-trivial: the case contains a value at a width/size boundary (header class limit, byte-width limit, varint length limit incl. MinInt64/MaxInt64, a string that exactly fills / overflows the 4 KB write buffer or the 1 MB message limit); distinct = by rendered case.")
	rec.Assumptions = []string{
		"Truncate is documented to trim: its result has the leading fields minus trailing empty ones",
		"a record's header class is only required to be consistent (length = 2 + width*(n+1) + data for the class in the header), not minimal",
		"SmallOffset has no range check; only representable values (<= MaxSmallOffset) are judged",
		"a wire message is limited to 1 MB by the mux reader, so single strings of exactly maxio (1 MB) cannot be sent; the largest request is 1 MB in total",
	}
	defer rec.Write()

	rt.Check(t, rec, "records", 3500, 60000, func(t *rapid.T) { c14Records(t, rec) })
	rt.Check(t, rec, "stor", 3000, 60000, func(t *rapid.T) { c14Stor(t, rec) })
	rt.Check(t, rec, "varint", 2000, 20000, func(t *rapid.T) { c14Varint(t, rec) })
	rt.Check(t, rec, "wire", 4500, 100000, func(t *rapid.T) { c14Wire(t, rec) })
	c14Limits(t, rec)
}
