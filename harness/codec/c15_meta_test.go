package codec

import (
	"fmt"
	"sort"
	"strings"
	"testing"

	"github.com/apmckinlay/gsuneido/db19/index"
	"github.com/apmckinlay/gsuneido/db19/index/btree"
	"github.com/apmckinlay/gsuneido/db19/meta"
	"github.com/apmckinlay/gsuneido/db19/meta/schema"
	"github.com/apmckinlay/gsuneido/db19/stor"
	"pgregory.net/rapid"
	"verifharness/internal/ev"
	"verifharness/internal/gen"
	"verifharness/internal/rt"
)

// Sub-check "meta" of C15: the same map / persist-cycle property judged on
// db19/meta.Meta itself (the schema and info chains together, with Meta's own
// decision between tombstone and physical delete, which depends on the two
// persist clocks) rather than on util/hamt with the harness's item type.

type mTable struct {
	cols  string // schema as Schema.String() of what was put
	nrows int    // persisted row count (BtreeNrows)
	size  int64
}

type mModel struct {
	tables map[string]mTable
	views  map[string]string
}

func (md mModel) clone() mModel {
	c := mModel{tables: map[string]mTable{}, views: map[string]string{}}
	for k, v := range md.tables {
		c.tables[k] = v
	}
	for k, v := range md.views {
		c.views[k] = v
	}
	return c
}

type mVersion struct {
	id int
	m  *meta.Meta
	md mModel
}

// metaAgrees compares everything Meta's read interface shows with the model.
// persisted: m was read back from storage (only the persisted row counts are
// comparable then; in memory Nrows follows the layered deltas).
func metaAgrees(m *meta.Meta, md mModel, names []string) string {
	seen := map[string]bool{}
	for ts := range m.Tables() {
		if seen[ts.Table] {
			return fmt.Sprintf("Tables() yields %q twice", ts.Table)
		}
		seen[ts.Table] = true
		want, ok := md.tables[ts.Table]
		if !ok {
			return fmt.Sprintf("Tables() yields %q which is not a live table of the model", ts.Table)
		}
		if got := ts.Schema.String(); got != want.cols {
			return fmt.Sprintf("schema of %q = %s, model %s", ts.Table, got, want.cols)
		}
	}
	if len(seen) != len(md.tables) {
		return fmt.Sprintf("Tables() yields %d tables, model has %d (%v)", len(seen), len(md.tables), sortedKeys(md.tables))
	}
	seenI := map[string]bool{}
	for ti := range m.Infos() {
		if seenI[ti.Table] {
			return fmt.Sprintf("Infos() yields %q twice", ti.Table)
		}
		seenI[ti.Table] = true
		want, ok := md.tables[ti.Table]
		if !ok {
			return fmt.Sprintf("Infos() yields %q which is not a live table of the model", ti.Table)
		}
		if ti.BtreeNrows != want.nrows || ti.BtreeSize != want.size {
			return fmt.Sprintf("info of %q: persisted nrows/size %d/%d, model %d/%d", ti.Table, ti.BtreeNrows, ti.BtreeSize, want.nrows, want.size)
		}
	}
	if len(seenI) != len(md.tables) {
		return fmt.Sprintf("Infos() yields %d infos, model has %d tables (%v)", len(seenI), len(md.tables), sortedKeys(md.tables))
	}
	nv := 0
	for name, def := range m.Views() {
		nv++
		if want, ok := md.views[name]; !ok || want != def {
			return fmt.Sprintf("Views() yields %q=%q, model %q (present %v)", name, def, want, ok)
		}
	}
	if nv != len(md.views) {
		return fmt.Sprintf("Views() yields %d views, model has %d", nv, len(md.views))
	}
	for _, n := range names {
		_, live := md.tables[n]
		if (m.GetRoSchema(n) != nil) != live {
			return fmt.Sprintf("GetRoSchema(%q) != nil is %v, model live %v", n, !live, live)
		}
		if (m.GetRoInfo(n) != nil) != live {
			return fmt.Sprintf("GetRoInfo(%q) != nil is %v, model live %v", n, !live, live)
		}
		if got, want := m.GetView(n), md.views[n]; got != want {
			return fmt.Sprintf("GetView(%q) = %q, model %q", n, got, want)
		}
	}
	return ""
}

func sortedKeys[V any](m map[string]V) []string {
	var ks []string
	for k := range m {
		ks = append(ks, k)
	}
	sort.Strings(ks)
	return ks
}

func c15MetaMachine(t *rapid.T, rec *ev.Rec) {
	nnames := 6 + gen.Uniform(t, "nnames", 35)
	names := make([]string, nnames)
	for i := range names {
		names[i] = fmt.Sprintf("t%d", i)
	}
	store := stor.HeapStor(64 * 1024)
	store.Alloc(1)
	var m = &meta.Meta{}
	md := mModel{tables: map[string]mTable{}, views: map[string]string{}}
	var held []*mVersion
	nextID := 0
	var trace strings.Builder
	fail := func(format string, args ...any) {
		t.Fatalf("after %d ops [%s]: %s", strings.Count(trace.String(), " "), clipTrace(trace.String()), fmt.Sprintf(format, args...))
	}
	serial := 0
	mkTable := func(name string) (*meta.Schema, *meta.Info) {
		serial++
		sc := schema.Schema{Table: name, Columns: []string{"a", fmt.Sprintf("c%d", serial)},
			Indexes: []schema.Index{{Mode: 'k', Columns: []string{"a"}}}}
		ts := &meta.Schema{Schema: sc}
		ts.SetupIndexes()
		ov := []*index.Overlay{index.OverlayFor(btree.CreateBtree(store))}
		return ts, meta.NewInfo(name, ov, 0, 0)
	}
	pickName := func(label, kind string) (string, bool) {
		var c []string
		for _, n := range names {
			_, isTable := md.tables[n]
			_, isView := md.views[n]
			if kind == "table" && isTable || kind == "view" && isView || kind == "free" && !isTable && !isView {
				c = append(c, n)
			}
		}
		if len(c) == 0 {
			return "", false
		}
		return c[gen.Uniform(t, label, len(c))], true
	}

	// persisted[name]: the table's items were contained in a write of the chains
	persisted := map[string]bool{}
	var nWrites, nWritesData, nDropPersisted, nDropFresh, nDropClocksDiffer, nReopen, nRename, nInfoOnly, maxDiff int
	lastSO, lastIO := uint64(0), uint64(0)

	// ops:         create drop put layer addview dropview rename write reopen hold dropmissing
	churn := gen.Pick(t, "schema churn", []int{3, 8, 22}) // low: the info clock runs ahead of the schema clock
	weights := []int{churn, 2 + churn/2, churn / 3, 22, churn / 6, churn / 7, churn / 4, 16, gen.Pick(t, "reopen weight", []int{0, 1, 3}), 5, 1}
	nops := 15 + gen.Uniform(t, "nops", 106)
	for i := 0; i < nops; i++ {
		switch gen.Weighted(t, "op", weights) {
		case 0: // create
			n, ok := pickName("create", "free")
			if !ok {
				continue
			}
			ts, ti := mkTable(n)
			fmt.Fprintf(&trace, "create(%s) ", n)
			m = m.PutNew(ts, ti, &ts.Schema)
			md.tables[n] = mTable{cols: ts.Schema.String()}
			persisted[n] = false
		case 1: // drop
			n, ok := pickName("drop", "table")
			if !ok {
				continue
			}
			sch, inf := m.VerifChains()
			fmt.Fprintf(&trace, "drop(%s)@%d/%d ", n, sch.Clock, inf.Clock)
			r := m.Drop(n)
			if r == nil {
				fail("Drop(%q) of a live table returned nil (nonexistent)", n)
			}
			m = r
			delete(md.tables, n)
			if persisted[n] {
				nDropPersisted++
			} else {
				nDropFresh++
			}
			if sch.Clock != inf.Clock {
				nDropClocksDiffer++
			}
		case 2: // put: schema and info replaced (as admin changes / LoadedTable do)
			n, ok := pickName("put", "table")
			if !ok {
				continue
			}
			ts, _ := mkTable(n)
			old := m.GetRoInfo(n)
			nr := gen.Uniform(t, "nrows", 1000)
			ti := meta.NewInfo(n, old.Indexes, nr, int64(nr)*17)
			fmt.Fprintf(&trace, "put(%s,%d) ", n, nr)
			m = m.Put(ts, ti)
			md.tables[n] = mTable{cols: ts.Schema.String(), nrows: nr, size: int64(nr) * 17}
		case 3: // layer: an update transaction's info change merged onto the latest meta (info chain only)
			n, ok := pickName("layer", "table")
			if !ok {
				continue
			}
			mm := m.Mutable()
			ti := mm.GetRwInfo(n)
			if ti == nil {
				fail("GetRwInfo(%q) of a live table = nil", n)
			}
			d := 1 + gen.Uniform(t, "d", 5)
			ti.Nrows += d
			ti.Size += int64(d) * 10
			fmt.Fprintf(&trace, "layer(%s) ", n)
			m = mm.LayeredOnto(m)
			nInfoOnly++
		case 4: // addview
			n, ok := pickName("addview", "free")
			if !ok {
				continue
			}
			serial++
			def := fmt.Sprintf("tables where x is %d", serial)
			fmt.Fprintf(&trace, "addview(%s) ", n)
			m = m.AddView(n, def)
			md.views[n] = def
		case 5: // dropview
			n, ok := pickName("dropview", "view")
			if !ok {
				continue
			}
			fmt.Fprintf(&trace, "dropview(%s) ", n)
			r := m.Drop(n)
			if r == nil {
				fail("Drop(%q) of a view returned nil", n)
			}
			m = r
			delete(md.views, n)
		case 6: // rename
			from, ok := pickName("renfrom", "table")
			to, ok2 := pickName("rento", "free")
			if !ok || !ok2 {
				continue
			}
			fmt.Fprintf(&trace, "rename(%s,%s) ", from, to)
			m = m.RenameTable(from, to)
			e := md.tables[from]
			e.cols = strings.Replace(e.cols, from+" ", to+" ", 1)
			md.tables[to] = e
			delete(md.tables, from)
			persisted[to] = false
			nRename++
		case 7: // write (persist) + read back
			cp := *m
			so, io := cp.Write(store)
			m = &cp
			nWrites++
			if so != lastSO || io != lastIO {
				nWritesData++
			}
			lastSO, lastIO = so, io
			sch, inf := m.VerifChains()
			fmt.Fprintf(&trace, "write->%d/%d ", sch.Clock, inf.Clock)
			maxDiff = max(maxDiff, inf.Clock-sch.Clock, sch.Clock-inf.Clock)
			for n := range md.tables {
				persisted[n] = true
			}
			r := meta.ReadMeta(store, so, io)
			if msg := metaAgrees(r, md, names); msg != "" {
				fail("meta read back after write: %s", msg)
			}
		case 8: // reopen: continue from what storage holds
			if lastSO == 0 && lastIO == 0 {
				continue
			}
			cp := *m
			so, io := cp.Write(store)
			lastSO, lastIO = so, io
			fmt.Fprintf(&trace, "reopen ")
			m = meta.ReadMeta(store, so, io)
			for n := range md.tables {
				persisted[n] = true
			}
			nReopen++
		case 9: // hold the current version
			nextID++
			held = append(held, &mVersion{id: nextID, m: m, md: md.clone()})
			if len(held) > 6 {
				held = held[1:]
			}
			fmt.Fprintf(&trace, "hold ")
		case 10: // drop of something that does not exist
			n, ok := pickName("dropmissing", "free")
			if !ok {
				continue
			}
			fmt.Fprintf(&trace, "dropmissing(%s) ", n)
			if r := m.Drop(n); r != nil {
				fail("Drop(%q) of a name that is not live returned a new meta", n)
			}
		}
		if msg := metaAgrees(m, md, names); msg != "" {
			fail("current meta: %s", msg)
		}
		for _, v := range held {
			if msg := metaAgrees(v.m, v.md, names); msg != "" {
				fail("held version %d changed by later operations: %s", v.id, msg)
			}
		}
	}
	// final write and read back
	cp := *m
	so, io := cp.Write(store)
	if msg := metaAgrees(meta.ReadMeta(store, so, io), md, names); msg != "" {
		fail("meta read back after the final write: %s", msg)
	}
	nt := nWritesData >= 3 && nDropPersisted >= 1 && nDropFresh >= 1 && nDropClocksDiffer >= 1
	rec.Case(nt, trace.String())
	rec.LabelIf(nDropClocksDiffer > 0, "meta_drop_while_schema_and_info_clocks_differ")
	rec.LabelIf(nDropPersisted > 0, "meta_drop_of_persisted_table")
	rec.LabelIf(nDropFresh > 0, "meta_drop_of_table_not_yet_persisted")
	rec.LabelIf(nReopen > 0, "meta_reopen")
	rec.LabelIf(nRename > 0, "meta_rename")
	rec.LabelIf(maxDiff >= 3, "meta_clocks_differ_by_3+")
	rec.LabelN("meta_write_cycles_total", nWrites)
	rec.LabelN("meta_info_only_changes", nInfoOnly)
	if nt && rec.WantSample("meta") {
		rec.Sample("meta", map[string]any{"names": nnames, "ops": nops, "writes_with_data": nWritesData, "drops_persisted": nDropPersisted,
			"drops_fresh": nDropFresh, "drops_clocks_differ": nDropClocksDiffer, "reopens": nReopen, "trace": clipTrace(trace.String())})
	}
}

func c15Meta(t *testing.T, rec *ev.Rec) {
	rt.Check(t, rec, "meta", 1500, 20000, func(t *rapid.T) { c15MetaMachine(t, rec) })
}
