package codec

import (
	"fmt"
	"hash/crc32"
	"math/bits"
	"runtime"
	"strings"
	"testing"

	"github.com/apmckinlay/gsuneido/db19/stor"
	"github.com/apmckinlay/gsuneido/util/hamt"
	"pgregory.net/rapid"
	"verifharness/internal/ev"
	"verifharness/internal/gen"
	"verifharness/internal/kf"
	"verifharness/internal/rt"
)

// ------------------------------------------------------------- the item type

// hkey is the key of the harness's own hamt instantiation. The hash is part
// of the key, so the generator decides which keys collide and how deep.
type hkey struct {
	H uint64 // hash, 40 bits (the trie consumes the low 35, 5 per level)
	N uint16 // distinguishes keys with equal hashes
}

type hitem struct {
	k       hkey
	val     uint32
	pad     string // varies the stored size
	tomb    bool
	lastMod int // set to the chain clock when put, as meta.go does
	created int // chain clock at which the key first appeared (0: unknown), as meta.go does
}

func (it *hitem) Key() hkey        { return it.k }
func (*hitem) Hash(k hkey) uint64  { return k.H }
func (it *hitem) IsTomb() bool     { return it.tomb }
func (it *hitem) LastMod() int     { return it.lastMod }
func (it *hitem) SetLastMod(m int) { it.lastMod = m }
func (it *hitem) StorSize() int    { return 5 + 2 + 1 + 4 + stor.LenStr(it.pad) }
func (it *hitem) Cksum() uint32 {
	return uint32(mix(it.k.H^uint64(it.k.N)<<44^uint64(it.val)<<8)) + crc32.ChecksumIEEE([]byte(it.pad))
}
func (it *hitem) Write(w *stor.Writer) {
	tomb := 0
	if it.tomb {
		tomb = 1
	}
	w.Put5(int64(it.k.H)).Put2(int(it.k.N)).Put1(tomb).Put4(int(it.val)).PutStr(it.pad)
}
func readHitem(_ *stor.Stor, r *stor.Reader) *hitem {
	it := &hitem{}
	it.k.H = uint64(r.Get5())
	it.k.N = uint16(r.Get2())
	it.tomb = r.Get1() == 1
	it.val = uint32(r.Get4())
	it.pad = r.GetStr()
	return it
}

type hHamt = hamt.Hamt[hkey, *hitem]
type hChain = hamt.Chain[hkey, *hitem]

// sharedGroups: number of leading 5-bit hash groups two keys share (0..7;
// 7 = the same 35 bits, i.e. they can only be told apart in an overflow node).
func sharedGroups(a, b hkey) int {
	x := (a.H ^ b.H) & (1<<35 - 1)
	if x == 0 {
		return 7
	}
	return bits.TrailingZeros64(x) / 5
}

// genUniverse draws the keys of one script: a heavy bucket of keys with the
// same low 35 bits (some with fully equal hashes) and keys that share exactly
// 0, 5, ..., 30 low bits with a base hash.
func genUniverse(t *rapid.T) []hkey {
	const mask40 = 1<<40 - 1
	var keys []hkey
	n := uint16(0)
	add := func(h uint64) { keys = append(keys, hkey{H: h & mask40, N: n}); n++ }
	nbases := 1 + gen.Uniform(t, "bases", 2)
	for b := 0; b < nbases; b++ {
		base := rapid.Uint64().Draw(t, "base") & mask40
		add(base)
		heavy := gen.Pick(t, "heavy", []int{0, 2, 8, 9, 11, 13})
		if b > 0 {
			heavy = gen.Pick(t, "heavy2", []int{0, 0, 3})
		}
		for i := 0; i < heavy; i++ {
			if gen.Chance(t, "same hash", 30) {
				add(base) // equal in all 40 bits
			} else {
				add(base&(1<<35-1) | uint64(gen.Uniform(t, "high", 32))<<35)
			}
		}
		others := 2 + gen.Uniform(t, "others", 10)
		for i := 0; i < others; i++ {
			d := 5 * gen.Uniform(t, "shared bits/5", 7) // 0..30
			h := rapid.Uint64().Draw(t, "h")
			g := ((base>>d)&31 + 1 + uint64(gen.Uniform(t, "group", 31))) & 31 // differs from base in group d
			add(base&(1<<d-1) | g<<d | h&^(1<<(d+5)-1))
		}
	}
	return keys
}

// ------------------------------------------------------------ model + checks

// hver is one version (frozen or mutable) with its model: a plain Go map
// holding exactly the items that were put (tombstones are items too).
type hver struct {
	id      int
	h       hHamt
	m       map[hkey]*hitem
	mods    map[hkey]int // lastMod of each item when it was put (items must never change afterwards)
	mutable bool
}

func (v *hver) clone(id int, h hHamt, mutable bool) *hver {
	nv := &hver{id: id, h: h, m: make(map[hkey]*hitem, len(v.m)), mods: make(map[hkey]int, len(v.m)), mutable: mutable}
	for k, it := range v.m { // copying a map: order is irrelevant
		nv.m[k] = it
		nv.mods[k] = v.mods[k]
	}
	return nv
}

func (v *hver) put(it *hitem) {
	v.h.Put(it)
	v.m[it.k] = it
	v.mods[it.k] = it.lastMod
}

// verify compares one version with its model: Get for every key of the
// universe (present and absent ones) and All.
func (v *hver) verify(keys []hkey) string {
	for _, k := range keys {
		got, ok := v.h.Get(k)
		want, wok := v.m[k]
		if ok != wok {
			return fmt.Sprintf("version %d: Get(%x/%d) found=%v, model says %v", v.id, k.H, k.N, ok, wok)
		}
		if ok && got != want {
			return fmt.Sprintf("version %d: Get(%x/%d) returned item {%x/%d val %d tomb %v}, model has {%x/%d val %d tomb %v}", v.id, k.H, k.N,
				got.k.H, got.k.N, got.val, got.tomb, want.k.H, want.k.N, want.val, want.tomb)
		}
		if ok && (got.k != k || got.lastMod != v.mods[k]) {
			return fmt.Sprintf("version %d: item of key %x/%d was modified in place (key %x/%d lastMod %d, was %d)", v.id, k.H, k.N, got.k.H, got.k.N, got.lastMod, v.mods[k])
		}
	}
	seen := make(map[hkey]bool, len(v.m))
	for it := range v.h.All() {
		if it == nil {
			return fmt.Sprintf("version %d: All yields nil", v.id)
		}
		if seen[it.k] {
			return fmt.Sprintf("version %d: All yields key %x/%d twice", v.id, it.k.H, it.k.N)
		}
		seen[it.k] = true
		if v.m[it.k] != it {
			return fmt.Sprintf("version %d: All yields {%x/%d val %d tomb %v}, model has %v", v.id, it.k.H, it.k.N, it.val, it.tomb, v.m[it.k])
		}
	}
	if len(seen) != len(v.m) {
		return fmt.Sprintf("version %d: All yields %d items, model has %d", v.id, len(seen), len(v.m))
	}
	return ""
}

type liveEntry struct {
	val uint32
	pad string
}

func liveOf(m map[hkey]*hitem) map[hkey]liveEntry {
	r := make(map[hkey]liveEntry, len(m))
	for k, it := range m {
		if !it.tomb {
			r[k] = liveEntry{it.val, it.pad}
		}
	}
	return r
}

// sameLive compares what a chain read from storage contains with the expected
// live entries (tombstones in the chain are not entries).
func sameLive(keys []hkey, rc hChain, want map[hkey]liveEntry) string {
	n := 0
	seen := map[hkey]bool{}
	for it := range rc.All() {
		if seen[it.k] {
			return fmt.Sprintf("chain read back yields key %x/%d twice", it.k.H, it.k.N)
		}
		seen[it.k] = true
		if it.tomb {
			continue
		}
		n++
		w, ok := want[it.k]
		if !ok {
			return fmt.Sprintf("chain read back contains {%x/%d val %d} which is not a live entry", it.k.H, it.k.N, it.val)
		}
		if w.val != it.val || w.pad != it.pad {
			return fmt.Sprintf("chain read back has {%x/%d val %d pad %q}, the live entry is {val %d pad %q}", it.k.H, it.k.N, it.val, it.pad, w.val, w.pad)
		}
	}
	if n != len(want) {
		for _, k := range keys {
			if _, ok := want[k]; ok {
				if it, ok := rc.Get(k); !ok || it.tomb {
					return fmt.Sprintf("live entry %x/%d (val %d) is missing from the chain read back (found=%v)", k.H, k.N, want[k].val, ok)
				}
			}
		}
		return fmt.Sprintf("chain read back has %d live entries, want %d", n, len(want))
	}
	for _, k := range keys {
		it, ok := rc.Get(k)
		_, wok := want[k]
		if wok != (ok && !it.tomb) {
			return fmt.Sprintf("Get(%x/%d) on the chain read back: found=%v, live entry expected=%v", k.H, k.N, ok, wok)
		}
	}
	return ""
}

var castagnoli = crc32.MakeTable(crc32.Castagnoli)

// chunkStillValid: independent check whether a (corrupted) chunk happens to
// carry a matching 16 bit checksum (util/cksum: low 16 bits of crc32-Castagnoli
// over the chunk without its last two bytes).
func chunkStillValid(buf []byte) bool {
	size := int(buf[0]) | int(buf[1])<<8 | int(buf[2])<<16
	if size < 3+5+4+2 || size > len(buf) {
		return false
	}
	cs := crc32.Checksum(buf[:size-2], castagnoli)
	return buf[size-2] == byte(cs) && buf[size-1] == byte(cs>>8)
}

// -------------------------------------------------------------- the machine

type c15Stats struct {
	writes, writesWithData, reopens, corrupts int
	delPersisted, delUnpersisted              bool
	maxVersions, maxClock                     int
	physDeleteSibling, oldHoldsDeleted        bool
	overflow                                  bool
	depths                                    [8]bool
}

func c15Machine(t *rapid.T, rec *ev.Rec, profile string) {
	keys := genUniverse(t)
	store := stor.HeapStor(64 * 1024)
	store.Alloc(1) // offset 0 means "no chunk" (a database file starts with a header)
	nextID := 0
	newID := func() int { nextID++; return nextID }

	var cur hChain // the chain as meta.go holds it: frozen Hamt + Offs/Ages/Clock
	curV := &hver{id: newID(), h: cur.Hamt, m: map[hkey]*hitem{}, mods: map[hkey]int{}}
	versions := []*hver{curV} // every version still held, frozen and mutable
	lastOff := uint64(0)
	persisted := map[hkey]liveEntry{} // live entries as of the last write
	var st c15Stats
	var trace strings.Builder

	var weights []int
	// ops:              sbegin sput sdel sfreeze pbatch write reopen corrupt drop frozenmod
	if profile == "versions" {
		weights = []int{8, 30, 24, 7, 12, 4, 1, 1, 3, 1}
	} else {
		// some scripts never reopen, so that the clock reaches 15 and 31
		reopen := gen.Pick(t, "reopen weight", []int{0, 0, 2, 6, 12})
		weights = []int{2, 5, 4, 2, 40, 40, reopen, 4, 1, 0}
	}
	nops := 20 + gen.Uniform(t, "nops", 181)
	if profile == "chain" {
		nops = 30 + gen.Uniform(t, "nops", 101)
	}
	dirty := false // the chain's Hamt changed since the last write

	fail := func(format string, args ...any) {
		t.Fatalf("after %d ops [%s]: %s", strings.Count(trace.String(), " "), clipTrace(trace.String()), fmt.Sprintf(format, args...))
	}
	verifyAll := func() {
		for _, v := range versions {
			if msg := v.verify(keys); msg != "" {
				fail("%s", msg)
			}
		}
		st.maxVersions = max(st.maxVersions, len(versions))
	}
	pick := func(label string, pred func(*hver) bool) *hver {
		var c []*hver
		for _, v := range versions {
			if pred(v) {
				c = append(c, v)
			}
		}
		if len(c) == 0 {
			return nil
		}
		return gen.Pick(t, label, c)
	}
	newItem := func(k hkey, clock int) *hitem {
		return &hitem{k: k, val: rapid.Uint32().Draw(t, "val"),
			pad: strings.Repeat("p", rapid.IntRange(0, 12).Draw(t, "pad")), lastMod: clock}
	}
	noteDepths := func(v *hver, k hkey) {
		same := 0
		for _, k2 := range keys {
			if _, ok := v.m[k2]; ok && k2 != k {
				g := sharedGroups(k, k2)
				st.depths[g] = true
				if g == 7 {
					same++
				}
			}
		}
		// one value per level fits on the path (7 levels): the 9th key sharing
		// 35 bits is the second one in the overflow node
		st.overflow = st.overflow || same >= 8
	}
	removeVersion := func(v *hver) {
		for i, x := range versions {
			if x == v {
				versions = append(versions[:i], versions[i+1:]...)
				return
			}
		}
	}

	for op := 0; op < nops; op++ {
		var p any
		opc := gen.Weighted(t, "op", weights)
		if opc == 5 && !dirty && profile == "chain" && gen.Chance(t, "change first", 90) {
			opc = 4 // a write cycle with nothing to write teaches little
		}
		switch opc {
		case 0: // sbegin: a mutable copy of any frozen version
			nm := 0
			for _, v := range versions {
				if v.mutable {
					nm++
				}
			}
			base := pick("base", func(v *hver) bool { return !v.mutable })
			if nm >= 3 || base == nil || len(versions) >= 10 {
				continue
			}
			p = try(func() {
				v := base.clone(newID(), base.h.Mutable(), true)
				versions = append(versions, v)
				fmt.Fprintf(&trace, "M%d<%d ", v.id, base.id)
			})
		case 1: // sput on a scratch (never persisted) mutable version
			v := pick("mutable", func(v *hver) bool { return v.mutable })
			if v == nil {
				continue
			}
			k := gen.Pick(t, "key", keys)
			it := newItem(k, 0)
			it.tomb = gen.Chance(t, "tomb item", 5)
			p = try(func() { v.put(it); noteDepths(v, k) })
			fmt.Fprintf(&trace, "p%d:%d ", v.id, k.N)
		case 2: // sdel: physical delete on a scratch version
			v := pick("mutable", func(v *hver) bool { return v.mutable })
			if v == nil {
				continue
			}
			k := gen.Pick(t, "key", keys)
			if _, present := v.m[k]; !present && gen.Chance(t, "prefer present", 70) {
				for _, k2 := range keys { // first present key after a drawn position
					if _, ok := v.m[k2]; ok {
						k = k2
						if gen.Chance(t, "stop", 30) {
							break
						}
					}
				}
			}
			_, present := v.m[k]
			if present {
				for _, k2 := range keys {
					if _, ok := v.m[k2]; ok && k2 != k && sharedGroups(k, k2) >= 1 {
						st.physDeleteSibling = true
					}
				}
				for _, o := range versions {
					if o != v && o.m[k] == v.m[k] {
						st.oldHoldsDeleted = true
					}
				}
			}
			p = try(func() {
				if found := v.h.Delete(k); found != present {
					panic(fmt.Sprintf("Delete(%x/%d) on version %d returned %v, model says present=%v", k.H, k.N, v.id, found, present))
				}
				delete(v.m, k)
				delete(v.mods, k)
			})
			fmt.Fprintf(&trace, "d%d:%d ", v.id, k.N)
		case 3: // sfreeze
			v := pick("mutable", func(v *hver) bool { return v.mutable })
			if v == nil {
				continue
			}
			p = try(func() { v.h = v.h.Freeze(); v.mutable = false })
			fmt.Fprintf(&trace, "F%d ", v.id)
		case 4: // pbatch: an update of the current chain exactly as meta.go does it
			// (Mutable on the chain's Hamt, puts with lastMod = chain clock,
			// delete = physical only for an item created in this clock, else a
			// tombstone, Freeze, install as the chain's Hamt)
			if len(versions) >= 10 {
				if old := pick("forget", func(v *hver) bool { return v != curV }); old != nil {
					removeVersion(old)
				}
			}
			nb := 1 + gen.Uniform(t, "batch", 4)
			p = try(func() {
				pm := curV.clone(newID(), cur.Hamt.Mutable(), true)
				versions = append(versions, pm)
				fmt.Fprintf(&trace, "B%d( ", pm.id)
				for i := 0; i < nb; i++ {
					k := gen.Pick(t, "key", keys)
					prev, exists := pm.m[k]
					if exists && !prev.tomb && gen.Chance(t, "delete", 45) {
						if prev.created != 0 && prev.created == cur.Clock {
							// not persisted so no need for a tombstone
							if !pm.h.Delete(k) {
								panic(fmt.Sprintf("Delete(%x/%d) of an unpersisted item returned false", k.H, k.N))
							}
							delete(pm.m, k)
							delete(pm.mods, k)
							st.delUnpersisted = true
							fmt.Fprintf(&trace, "x%d ", k.N)
						} else {
							pm.put(&hitem{k: k, tomb: true, lastMod: cur.Clock})
							if _, ok := persisted[k]; ok {
								st.delPersisted = true // the key was live at the last write
							}
							fmt.Fprintf(&trace, "t%d ", k.N)
						}
					} else if !exists && gen.Chance(t, "delete absent", 10) {
						if pm.h.Delete(k) {
							panic(fmt.Sprintf("Delete(%x/%d) of an absent key returned true", k.H, k.N))
						}
						fmt.Fprintf(&trace, "a%d ", k.N)
					} else {
						it := newItem(k, cur.Clock)
						if !exists {
							it.created = cur.Clock // PutNew: only when there is no entry at all
						} else {
							it.created = prev.created // a modified copy keeps it; a tombstone has 0
						}
						pm.put(it)
						noteDepths(pm, k)
						fmt.Fprintf(&trace, "s%d ", k.N)
					}
					verifyAll()
				}
				pm.h = pm.h.Freeze()
				pm.mutable = false
				cur.Hamt = pm.h
				curV = pm
				dirty = true
				trace.WriteString(") ")
			})
		case 5: // write: one persist cycle
			if no := len(cur.Offs); len(liveOf(curV.m)) == 0 && no > 0 && (no >= 7 || bits.TrailingZeros(^uint(cur.Clock)) >= no) {
				// known finding: a write that merges every chunk of the chain while
				// no live entry exists writes nothing and keeps the old chain
				if e, ok := kf.Known("C15", "flatten-to-empty"); ok {
					rec.Excluded("flatten-to-empty")
					rec.Known(e.What)
					trace.WriteString("w- ")
					continue
				}
			}
			p = try(func() {
				before := len(cur.Offs)
				clock := cur.Clock
				off, c2 := cur.WriteChain(store)
				wrote := c2.Clock != clock
				cur = c2
				lastOff = off
				dirty = false
				st.writes++
				if wrote {
					st.writesWithData++
					rec.Label(fmt.Sprintf("chain_write_at_clock_with_%d_trailing_ones", min(5, bits.TrailingZeros(^uint(clock)))))
					after := len(cur.Offs)
					switch {
					case before >= 7 && after == 1:
						rec.Label("chain_flatten_all_at_maxChain")
					case before > 0 && after == 1:
						rec.Label("chain_flatten_all_by_clock")
					case after <= before:
						rec.Label("chain_merge_some_chunks")
					default:
						rec.Label("chain_append_chunk")
					}
				} else {
					rec.Label("chain_write_nothing_to_write")
				}
				st.maxClock = max(st.maxClock, cur.Clock)
				persisted = liveOf(curV.m)
				fmt.Fprintf(&trace, "W%d/%d ", cur.Clock, len(cur.Offs))
				rc := hamt.ReadChain(store, off, readHitem)
				if msg := sameLive(keys, rc, persisted); msg != "" {
					panic(fmt.Sprintf("after write cycle %d (clock %d, %d chunks, offset %d): %s", st.writes, cur.Clock, len(cur.Offs), off, msg))
				}
				for _, k := range keys {
					if it, ok := curV.m[k]; ok && it.tomb {
						if _, ok := rc.Get(k); ok {
							rec.Label("chain_tombstone_on_disk")
						} else {
							rec.Label("chain_tombstone_dropped_by_flatten")
						}
					}
				}
			})
		case 6: // reopen: continue from what is in storage (unwritten changes are lost, as in a crash)
			p = try(func() {
				rc := hamt.ReadChain(store, lastOff, readHitem)
				if msg := sameLive(keys, rc, persisted); msg != "" {
					panic("reopen: " + msg)
				}
				cur = rc
				dirty = false
				curV = &hver{id: newID(), h: rc.Hamt, m: map[hkey]*hitem{}, mods: map[hkey]int{}}
				for it := range rc.All() {
					curV.m[it.k] = it
					curV.mods[it.k] = it.lastMod
				}
				if len(versions) >= 10 {
					versions = versions[1:]
				}
				versions = append(versions, curV)
				st.reopens++
				fmt.Fprintf(&trace, "R%d ", len(cur.Offs))
			})
		case 7: // corrupt one byte of one chunk of the chain: must be reported, not read as data
			if lastOff == 0 {
				continue
			}
			var chunks []uint64
			p = try(func() { chunks = hamt.ReadChain(store, lastOff, readHitem).Offs })
			if p != nil {
				break
			}
			coff := gen.Pick(t, "chunk", chunks)
			buf := store.Data(coff)
			size := int(buf[0]) | int(buf[1])<<8 | int(buf[2])<<16
			i := gen.Uniform(t, "byte", size)
			if gen.Chance(t, "header byte", 15) {
				i = gen.Uniform(t, "hbyte", 3+5+4)
			}
			mask := byte(1 + gen.Uniform(t, "mask", 255))
			buf[i] ^= mask
			var rc hChain
			cp := try(func() { rc = hamt.ReadChain(store, lastOff, readHitem) })
			valid := chunkStillValid(buf)
			buf[i] ^= mask
			fmt.Fprintf(&trace, "C%d ", i)
			st.corrupts++
			switch {
			case cp != nil:
				if _, rte := cp.(runtime.Error); rte {
					rec.Label("chain_corruption_reported_by_runtime_error")
				} else {
					rec.Label("chain_corruption_reported:" + fmt.Sprint(cp))
				}
				rec.LabelIf(i < 3, "chain_corrupt_size_field")
				rec.LabelIf(i >= 3 && i < 8, "chain_corrupt_prev_offset_field")
				rec.LabelIf(len(chunks) > 1 && coff != chunks[len(chunks)-1], "chain_corrupt_older_chunk")
			case valid:
				// the 16 bit checksum of the corrupted chunk matches by chance: nothing can report it
				rec.Excluded("corrupted chunk has a matching 16 bit checksum by chance")
			default:
				fail("byte %d of the chunk at offset %d (size %d, chain of %d chunks) changed by xor %#x: ReadChain reported nothing and returned %d chunks (%s)",
					i, coff, size, len(chunks), mask, len(rc.Offs), sameLive(keys, rc, persisted))
			}
		case 8: // drop an old version
			if old := pick("forget", func(v *hver) bool { return v != curV }); old != nil && len(versions) > 3 {
				removeVersion(old)
				fmt.Fprintf(&trace, "~%d ", old.id)
			}
		case 9: // a frozen version refuses modification
			v := pick("frozen", func(v *hver) bool { return !v.mutable })
			if v == nil {
				continue
			}
			k := gen.Pick(t, "key", keys)
			if p1 := try(func() { v.h.Put(&hitem{k: k}) }); !loud(p1) {
				fail("Put on frozen version %d: want a loud panic, got %v", v.id, p1)
			}
			if p2 := try(func() { v.h.Delete(k) }); !loud(p2) {
				fail("Delete on frozen version %d: want a loud panic, got %v", v.id, p2)
			}
			rec.Label("frozen_version_refuses_put_and_delete")
			fmt.Fprintf(&trace, "!%d ", v.id)
		}
		if p != nil {
			fail("%v", p)
		}
		verifyAll()
	}

	// final: whatever is in storage is still exactly what was live at the last write
	if p := try(func() {
		if msg := sameLive(keys, hamt.ReadChain(store, lastOff, readHitem), persisted); msg != "" {
			panic(msg)
		}
	}); p != nil {
		fail("final read: %v", p)
	}

	ntChain := st.writesWithData >= 8 && st.delPersisted
	ntVers := st.maxVersions >= 3 && st.physDeleteSibling && st.oldHoldsDeleted
	rec.Case(ntChain || ntVers, trace.String())
	for g, on := range st.depths {
		rec.LabelIf(on, fmt.Sprintf("keys_present_colliding_on_%d_low_bits", 5*g))
	}
	rec.LabelIf(st.overflow, "overflow_node_with_>=2_keys(>=9 keys share 35 bits)")
	rec.LabelIf(st.physDeleteSibling, "physical_delete_of_key_with_colliding_sibling")
	rec.LabelIf(st.oldHoldsDeleted, "delete_of_item_still_held_by_other_version")
	rec.LabelIf(st.delPersisted, "chain_delete_of_persisted_key(tombstone)")
	rec.LabelIf(st.delUnpersisted, "chain_delete_of_unpersisted_key(physical)")
	rec.LabelIf(ntChain, "chain_>=8_write_cycles_with_delete_of_persisted_key")
	rec.LabelIf(ntVers, "versions_>=3_held_and_delete_under_collision")
	rec.LabelIf(st.reopens > 0, "chain_reopened")
	switch {
	case st.writesWithData >= 20:
		rec.Label("write_cycles_>=20")
	case st.writesWithData >= 8:
		rec.Label("write_cycles_8..19")
	case st.writesWithData >= 1:
		rec.Label("write_cycles_1..7")
	default:
		rec.Label("write_cycles_0")
	}
	rec.Label(fmt.Sprintf("max_versions_held_%d", st.maxVersions))
	rec.LabelN("chain_corruptions_tried", st.corrupts)
	rec.LabelN("chain_write_cycles_total", st.writesWithData)
	if (ntChain || ntVers) && rec.WantSample(profile) {
		rec.Sample(profile, map[string]any{"keys": len(keys), "ops": nops, "write_cycles": st.writesWithData, "max_clock": st.maxClock,
			"reopens": st.reopens, "max_versions": st.maxVersions, "trace": clipTrace(trace.String())})
	}
}

func clipTrace(s string) string {
	if len(s) > 700 {
		return "..." + s[len(s)-700:]
	}
	return s
}

// TestC15: metadata tables behave as persistent maps and survive persist cycles.
func TestC15(t *testing.T) {
	rec := ev.New("C15", "rapid state machine over util/hamt instantiated with the harness's own item type whose hash is part of the generated key (keys sharing exactly 0,5,...,30 low bits with a base hash, a bucket of up to 14 keys sharing all 35 bits the trie uses -> overflow nodes, fully equal hashes). Operations: Mutable of any frozen version, Put, physical Delete, Freeze on up to 3 concurrently open scratch versions; batches on the current chain exactly as db19/meta/meta.go does them (lastMod = chain clock, created clock, tombstone for a possibly persisted item, physical delete only for an item created in the current clock); WriteChain persist cycles each followed by ReadChain into a fresh chain; reopen (continue from the chain read back); one-byte corruption of a chunk. Oracle: one Go map per version (up to 10 versions held), every held version re-checked (Get of every key of the universe, All) after every operation; live entries of every chain read back == model at the last write. Two profiles: 'versions' (map operations dominate) and 'chain' (30..100 operations, mostly batches and write cycles). Non-trivial: >= 8 write cycles that wrote data including a tombstone for a key present in a written chunk, or >= 3 versions held with a physical delete of a key that has a hash-colliding sibling while another version still holds the deleted item; distinct = by operation trace. Sub-check 'meta': the same property on db19/meta.Meta itself: 6-40 names, PutNew (create), Drop of tables/views/missing names, Put (schema+info replaced), Mutable+GetRwInfo+LayeredOnto (info chain only, so the info clock runs ahead of the schema clock; schema churn 3/8/22 per case), AddView, RenameTable, Write followed by ReadMeta, reopen (continue from the Meta read back), up to 6 held older Metas; oracle: Tables/Infos/Views/GetRoSchema/GetRoInfo/GetView of the current Meta, of every held Meta and of every Meta read back == map model (schema text, persisted row count and size); non-trivial: >= 3 writes that wrote data, a drop of a persisted table, a drop of a never persisted table and a drop while the two clocks differ.")
	rec.Assumptions = []string{
		"a mutable Hamt is not used after Freeze and Mutable is only taken from frozen versions (as every caller does)",
		"chain updates are serialized (meta.go runs them inside UpdateState): a batch is applied on top of the current chain and installed before the next write",
		"the chunk checksum is 16 bits: a corrupted chunk whose checksum still matches (verified independently with hash/crc32) is counted as excluded, not judged",
		"any panic of ReadChain on a corrupted chunk counts as 'reported'",
	}
	defer rec.Write()
	rt.Check(t, rec, "versions", 1200, 18000, func(t *rapid.T) { c15Machine(t, rec, "versions") })
	rt.Check(t, rec, "chain", 800, 12000, func(t *rapid.T) { c15Machine(t, rec, "chain") })
	c15Meta(t, rec)
}
