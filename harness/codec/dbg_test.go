package codec

import (
	"fmt"
	"testing"

	"github.com/apmckinlay/gsuneido/core"
	"github.com/apmckinlay/gsuneido/util/dnum"
)

func TestDbg(t *testing.T) {
	k := core.SuDnum{Dnum: dnum.FromInt(32769)}
	ob := &core.SuObject{}
	ob.Set(k, core.False)
	u := core.Unpack(packOf(ob))
	fmt.Printf("%v: %T equal %v %v\n", k, k, u.Equal(ob), ob.Equal(u))
}
