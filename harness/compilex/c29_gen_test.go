package compilex

// Generator of block mini-language programs for C29. It only produces
// programs whose meaning the documentation defines:
//   * calls occur only as statements / right-hand sides with side-effect
//     free arguments (variable reads, constants, block literals), so the
//     (undocumented) order of evaluation of arguments cannot matter;
//   * arithmetic is + and - on two simple operands (`x * 0` is rewritten by
//     the constant folder, C30's business);
//   * no `try` lexically inside a try body (the compiler rejects it, also
//     through nested blocks and function literals);
//   * no `break`/`continue` outside a loop in a function (compile error);
//   * names `it`, `unused`, `_x`, `this`, `super` are not used.
// The reference interpreter additionally discards (and counts) runs that
// leave the documented part dynamically (ordering of non-numbers, `return`
// into a function that already returned, throw of a non-string, calling a
// string, size bounds).
//
// The generator is biased towards programs that do something with their
// blocks: a block/function literal is usually followed by calls of it with
// the right number of arguments, reads prefer names that are probably
// initialised and of the right kind, assignments inside blocks prefer
// variables of enclosing scopes, and statements that end a scope early
// (return / throw / break) are generated at the end of a branch only.

import (
	"fmt"
	"sort"

	"pgregory.net/rapid"
	"verifharness/internal/gen"
)

var dataNames = []string{"a", "b", "c", "x", "y"}
var blkNames = []string{"f", "g", "h"}
var loopNames = []string{"i", "j"}
var allNames = []string{"a", "b", "c", "x", "y", "f", "g", "h", "i", "j", "e"}
var throwStrs = []string{"e1", "e2", "x9"}

const (
	kInt   = 'i'
	kBlock = 'b'
	kStr   = 's'
	kAny   = '?'
)

// sigT: what the generator knows about a block / function value
type sigT struct {
	pk       []byte // probable kind of each parameter (kInt / kBlock)
	pa       []int  // for kBlock parameters: their arity
	retBlock bool   // calls probably return a block ...
	retArity int    // ... of this arity
	retKind  byte   // kInt / kBlock / kAny
}

func sigOfArity(n int) *sigT {
	s := &sigT{}
	for i := 0; i < n; i++ {
		s.pk = append(s.pk, kInt)
		s.pa = append(s.pa, 0)
	}
	return s
}

type lex struct {
	s      *scope
	parent *lex
	kind   map[string]byte  // names probably initialised here, with the probable kind of value
	sig    map[string]*sigT // for kBlock: what is known about the block (nil = nothing)
	open   map[string]bool  // literals under construction (calling them unguarded recurses forever)
	loop   int
	inTry  bool
	self   string // name the scope's literal is being assigned to ("" unknown)
	depth  int    // nesting depth of literals
}

func (lx *lex) child(s *scope, self string) *lex {
	c := &lex{s: s, parent: lx, kind: map[string]byte{}, sig: map[string]*sigT{}, open: map[string]bool{}, self: self}
	if lx != nil {
		c.depth = lx.depth + 1
		// the parser's "in try" flag is not reset by a nested function literal
		c.inTry = lx.inTry
	}
	if s.isFunc {
		c.parent = nil // nothing of the outside is visible in a function literal
	}
	for i, p := range s.params {
		c.kind[p] = s.pk[i]
		if s.pk[i] == kBlock {
			c.sig[p] = sigOfArity(s.pa[i])
		}
	}
	return c
}

// visible returns the names that are probably initialised and whose probable
// kind is one of kinds (inner scopes hide outer ones), sorted.
func (lx *lex) visible(kinds string) []string {
	seen := map[string]bool{}
	var r []string
	for l := lx; l != nil; l = l.parent {
		for _, n := range allNames {
			k, ok := l.kind[n]
			if !ok || seen[n] {
				continue
			}
			seen[n] = true
			for i := 0; i < len(kinds); i++ {
				if kinds[i] == k {
					r = append(r, n)
				}
			}
		}
	}
	sort.Strings(r)
	return r
}

func (lx *lex) isOpen(name string) bool {
	for l := lx; l != nil; l = l.parent {
		if l.open[name] {
			return true
		}
		if _, ok := l.kind[name]; ok {
			return false
		}
	}
	return false
}

// sigOf returns what is known about the block held by name (nil = nothing).
func (lx *lex) sigOf(name string) *sigT {
	for l := lx; l != nil; l = l.parent {
		if _, ok := l.kind[name]; ok {
			return l.sig[name]
		}
	}
	return nil
}

func (lx *lex) set(name string, k byte, sig *sigT) {
	lx.kind[name] = k
	if k == kBlock && sig != nil {
		lx.sig[name] = sig
	} else {
		delete(lx.sig, name)
	}
}

// clobbers: assigning name here would overwrite a block of an enclosing scope
func (lx *lex) clobbers(name string) bool {
	if _, ok := lx.kind[name]; ok || lx.parent == nil {
		return false
	}
	for _, v := range lx.parent.visible("b") {
		if v == name {
			return true
		}
	}
	return false
}

type pgen struct {
	t      *rapid.T
	budget int
	nscope int
	n      int // label counter
}

func (g *pgen) lab(s string) string { g.n++; return fmt.Sprintf("%s%d", s, g.n) }

func (g *pgen) uni(n int) int           { return gen.Uniform(g.t, g.lab("u"), n) }
func (g *pgen) chance(pct int) bool     { return gen.Chance(g.t, g.lab("c"), pct) }
func (g *pgen) weighted(w []int) int    { return gen.Weighted(g.t, g.lab("w"), w) }
func (g *pgen) pick(xs []string) string { return xs[g.uni(len(xs))] }

// rare: about 1 in 500 (a program has dozens of reads; a read of a random
// name usually ends the run with "uninitialized variable")
func (g *pgen) rare() bool { return gen.Uniform(g.t, g.lab("r"), 500) == 0 }

func (g *pgen) smallInt() int64 {
	return int64(rapid.IntRange(-3, 9).Draw(g.t, g.lab("k")))
}

// readInt picks a name to read where a number is wanted ("" = none suitable).
// Rarely (2%) any name at all: errors are legitimate results but end the run.
func (g *pgen) readInt(lx *lex) string {
	if g.rare() {
		return g.pick(allNames)
	}
	if v := lx.visible("i"); len(v) > 0 && g.chance(85) {
		return g.pick(v)
	}
	if v := lx.visible("i"); len(v) > 0 {
		return g.pick(v)
	}
	if v := lx.visible("i?"); len(v) > 0 && g.chance(50) {
		return g.pick(v)
	}
	if g.rare() {
		if v := lx.visible("i?bs"); len(v) > 0 {
			return g.pick(v)
		}
	}
	return ""
}

// readAny picks a name to read where any value will do ("" = none).
func (g *pgen) readAny(lx *lex) string {
	if g.rare() {
		return g.pick(allNames)
	}
	if v := lx.visible("i?bs"); len(v) > 0 {
		return g.pick(v)
	}
	return ""
}

// varOr returns a read of name, or a constant if there is no name.
func (g *pgen) varOr(name string) expr {
	if name == "" {
		return &eInt{g.smallInt()}
	}
	return &eVar{name}
}

// intTarget picks the name an assignment of a number goes to: often a
// variable of an enclosing scope (that is what makes variables shared).
func (g *pgen) intTarget(lx *lex) string {
	if v := lx.visible("i?"); len(v) > 0 && g.chance(55) {
		return g.pick(v)
	}
	return g.pick(dataNames)
}

func (g *pgen) simpleOperand(lx *lex) expr {
	if g.chance(60) {
		return g.varOr(g.readInt(lx))
	}
	return &eInt{g.smallInt()}
}

func (g *pgen) arith(lx *lex) expr {
	// no `*`: `x * 0` (also with a propagated constant 0) is folded to 0
	// without evaluating x, which is C30's business (known finding there)
	op := g.pick([]string{"+", "-"})
	l, r := g.simpleOperand(lx), g.simpleOperand(lx)
	return &eBin{op: op, l: l, r: r}
}

func (g *pgen) cond(lx *lex) *eCmp {
	switch g.weighted([]int{60, 25, 15}) {
	case 0:
		return &eCmp{op: g.pick([]string{"<", "<=", ">", ">="}), l: g.varOr(g.readInt(lx)), r: &eInt{g.smallInt()}}
	case 1:
		return &eCmp{op: g.pick([]string{"is", "isnt"}), l: g.varOr(g.readAny(lx)), r: g.simpleOperand(lx)}
	default:
		l := g.readAny(lx)
		if v := lx.visible("s"); len(v) > 0 {
			l = g.pick(v)
		}
		return &eCmp{op: g.pick([]string{"is", "isnt"}), l: g.varOr(l), r: &eStr{g.pick(throwStrs)}}
	}
}

// params draws 0..2 distinct parameter names and what the body will use
// them as: a number (mostly) or a block of some arity.
func (g *pgen) params(s *scope) {
	n := g.weighted([]int{35, 40, 25})
	for len(s.params) < n {
		blk := g.chance(22)
		pool := dataNames
		if blk {
			pool = []string{"f", "g", "h", "x"}
		} else if g.chance(10) {
			pool = []string{"i", "f"}
		}
		p := g.pick(pool)
		dup := false
		for _, q := range s.params {
			dup = dup || q == p
		}
		if dup {
			continue
		}
		s.params = append(s.params, p)
		if blk {
			s.pk = append(s.pk, kBlock)
			s.pa = append(s.pa, g.weighted([]int{55, 45}))
		} else {
			s.pk = append(s.pk, kInt)
			s.pa = append(s.pa, 0)
		}
	}
}

func (s *scope) sig() *sigT {
	return &sigT{pk: s.pk, pa: s.pa, retBlock: s.retBlock, retArity: s.retArity, retKind: s.retKind}
}

func (g *pgen) newScope(lx *lex, isFunc bool, self string) *scope {
	g.nscope++
	s := &scope{id: g.nscope, isFunc: isFunc}
	g.params(s)
	g.fillScope(lx, s, self)
	return s
}

// fillScope generates body and final expression of s (parameters are set).
func (g *pgen) fillScope(lx *lex, s *scope, self string) {
	c := lx.child(s, self)
	// a literal gets a share of the remaining statement budget only, so that
	// the enclosing scope can still use (call) it afterwards
	old := g.budget
	sub := 2 + g.uni(5)
	if c.depth >= 2 {
		sub = 1 + g.uni(3)
	}
	if sub > old-2 {
		sub = old - 2
	}
	if sub < 1 {
		sub = 1
	}
	g.budget = sub
	s.body = g.stmts(c, sub, false)
	s.final = g.final(c)
	g.budget = old - (sub - g.budget)
}

func (g *pgen) blockLit(lx *lex, self string) *eBlock {
	return &eBlock{g.newScope(lx, false, self)}
}

// callee picks the name to call ("" = nothing sensible to call).
func (g *pgen) callee(lx *lex) string {
	var cand []string
	for _, n := range lx.visible("b") {
		if !lx.isOpen(n) {
			cand = append(cand, n)
		}
	}
	if g.rare() {
		if n := g.pick(allNames); !lx.isOpen(n) {
			return n
		}
	}
	if v := lx.visible("?"); len(v) > 0 && g.chance(3) {
		return g.pick(v)
	}
	if len(cand) > 0 {
		return g.pick(cand)
	}
	return ""
}

// blockArg makes an argument for a parameter that the callee calls with
// `arity` arguments: a visible block of that arity or a new literal.
func (g *pgen) blockArg(lx *lex, arity int) expr {
	var cand []string
	for _, n := range lx.visible("b") {
		if sg := lx.sigOf(n); sg != nil && len(sg.pk) == arity && !lx.isOpen(n) {
			cand = append(cand, n)
		}
	}
	if len(cand) > 0 && (g.chance(45) || lx.depth >= 3 || g.budget < 3) {
		return &eVar{g.pick(cand)}
	}
	if lx.depth >= 4 {
		if len(cand) > 0 {
			return &eVar{g.pick(cand)}
		}
		if v := lx.visible("b"); len(v) > 0 {
			return &eVar{g.pick(v)}
		}
		return &eInt{g.smallInt()}
	}
	// literal with exactly `arity` number parameters
	g.nscope++
	s := &scope{id: g.nscope}
	for len(s.params) < arity {
		p := g.pick(dataNames)
		if len(s.params) == 1 && s.params[0] == p {
			continue
		}
		s.params = append(s.params, p)
		s.pk = append(s.pk, kInt)
		s.pa = append(s.pa, 0)
	}
	g.fillScope(lx, s, "")
	return &eBlock{s}
}

func (g *pgen) callOf(lx *lex, fn string) *eCall {
	sg := lx.sigOf(fn)
	c := &eCall{fn: fn}
	if sg == nil {
		n := g.weighted([]int{60, 30, 10})
		for k := 0; k < n; k++ {
			c.args = append(c.args, g.simpleOperand(lx))
		}
		return c
	}
	for k := range sg.pk {
		switch {
		case sg.pk[k] == kBlock:
			c.args = append(c.args, g.blockArg(lx, sg.pa[k]))
		case g.rare():
			c.args = append(c.args, g.varOr(g.readAny(lx)))
		default:
			c.args = append(c.args, g.simpleOperand(lx))
		}
	}
	if g.rare() {
		// wrong number of arguments
		if len(c.args) > 0 && g.chance(50) {
			c.args = c.args[:len(c.args)-1]
		} else {
			c.args = append(c.args, &eInt{g.smallInt()})
		}
	}
	return c
}

func (g *pgen) final(lx *lex) expr {
	lx.s.retKind = kAny
	switch g.weighted([]int{30, 10, 15, 20, 25}) {
	case 0:
		lx.s.retKind = kInt
		return g.varOr(g.readInt(lx))
	case 1:
		lx.s.retKind = kInt
		return &eInt{g.smallInt()}
	case 2:
		lx.s.retKind = kInt
		return g.arith(lx)
	case 3:
		// return a block (closures that outlive the call)
		if v := lx.visible("b"); len(v) > 0 {
			n := g.pick(v)
			if sg := lx.sigOf(n); sg != nil {
				lx.s.retBlock, lx.s.retArity = true, len(sg.pk)
			}
			lx.s.retKind = kBlock
			return &eVar{n}
		}
		return g.varOr(g.readAny(lx))
	default:
		if fn := g.callee(lx); fn != "" {
			return g.callOf(lx, fn)
		}
		return g.varOr(g.readInt(lx))
	}
}

// stmts generates n statement groups. branch: the list is the body of an
// if / loop / try / catch (a statement that ends it early may come last).
func (g *pgen) stmts(lx *lex, n int, branch bool) []stmt {
	var saveK map[string]byte
	var saveS map[string]*sigT
	if branch {
		// what a branch assigns is not definitely assigned afterwards
		saveK, saveS = map[string]byte{}, map[string]*sigT{}
		for k, v := range lx.kind {
			saveK[k] = v
		}
		for k, v := range lx.sig {
			saveS[k] = v
		}
	}
	r := []stmt{}
	for k := 0; k < n && g.budget > 0; k++ {
		r = append(r, g.stmt(lx, branch && k == n-1)...)
	}
	if branch {
		lx.kind, lx.sig = saveK, saveS
	}
	return r
}

// callStmt makes `fn(args)` or `x = fn(args)`.
func (g *pgen) callStmt(lx *lex, fn string) stmt {
	c := g.callOf(lx, fn)
	if sg := lx.sigOf(fn); sg != nil && sg.retBlock && g.chance(85) {
		// keep the returned block in a variable so that it gets called
		name := g.pick(blkNames)
		if name != fn && !lx.isOpen(name) && !lx.clobbers(name) {
			lx.set(name, kBlock, sigOfArity(sg.retArity))
			return &sAssign{name, c}
		}
	}
	if g.chance(60) {
		var name string
		if g.chance(20) {
			name = g.pick(blkNames)
			if lx.isOpen(name) || name == fn || lx.clobbers(name) {
				name = g.pick(dataNames)
			}
		} else {
			name = g.intTarget(lx)
		}
		if name == fn || lx.isOpen(name) {
			return &sCall{c}
		}
		k := byte(kAny)
		if sg := lx.sigOf(fn); sg != nil && sg.retKind != 0 {
			k = sg.retKind
		}
		lx.set(name, k, nil)
		return &sAssign{name, c}
	}
	return &sCall{c}
}

func (g *pgen) terminator(lx *lex) stmt {
	w := []int{35, 40, 25}
	if lx.loop == 0 && lx.s.isFunc {
		w[2] = 0
	}
	switch g.weighted(w) {
	case 0:
		if g.chance(60) {
			return &sReturn{g.simpleOperand(lx)}
		}
		return &sReturn{g.arith(lx)}
	case 1:
		if v := lx.visible("s"); len(v) > 0 && g.chance(30) {
			return &sThrow{&eVar{g.pick(v)}}
		}
		return &sThrow{&eStr{g.pick(throwStrs)}}
	default:
		if g.chance(60) {
			return &sBreak{inLoop: lx.loop > 0}
		}
		return &sContinue{inLoop: lx.loop > 0}
	}
}

func (g *pgen) stmt(lx *lex, mayEnd bool) []stmt {
	g.budget--
	canNest := lx.depth < 4 && g.budget >= 2
	w := []int{
		12, // 0 assign number
		26, // 1 assign block literal (+ calls)
		5,  // 2 assign function literal (+ calls)
		22, // 3 call / assign call
		8,  // 4 op-assign / incr
		6,  // 5 if
		5,  // 6 for
		2,  // 7 while
		5,  // 8 try
		5,  // 9 probe
		5,  // 10 return / throw / break / continue
		6,  // 11 recursion template
		2,  // 12 copy any value
		1,  // 13 loop { try { ...; break/continue } catch { .. } } (jump out of a try body)
	}
	if !canNest {
		w[1], w[2], w[5], w[6], w[7], w[8] = 0, 0, 0, 0, 0, 0
	}
	w[1] >>= uint(lx.depth) // fewer literals the deeper we are
	if lx.depth >= 2 {
		w[2] = 0
	}
	if lx.inTry {
		w[8], w[9], w[13] = 0, 0, 0
	}
	if !canNest {
		w[13] = 0
	}
	if lx.self == "" || len(lx.s.params) == 0 || !canNest || lx.s.isFunc || lx.s.pk[0] != kInt {
		w[11] = 0
	}
	switch g.weighted(w) {
	case 0:
		name := g.intTarget(lx)
		var e expr
		switch g.weighted([]int{30, 20, 50}) {
		case 0:
			e = &eInt{g.smallInt()}
		case 1:
			e = g.varOr(g.readInt(lx))
		default:
			e = g.arith(lx)
		}
		if lx.isOpen(name) {
			name = g.pick(dataNames)
		}
		lx.set(name, kInt, nil)
		return []stmt{&sAssign{name, e}}
	case 1, 2:
		name := g.pick(blkNames)
		if g.chance(10) {
			name = g.pick(dataNames)
		}
		for try := 0; try < 4 && lx.clobbers(name) && g.chance(85); try++ {
			name = g.pick(allNames[:8])
		}
		if lx.isOpen(name) {
			name = g.pick(dataNames)
		}
		var lit expr
		var sc *scope
		lx.open[name] = true
		// for the literal's body the name is (going to be) a block
		oldK, had := lx.kind[name]
		oldS := lx.sig[name]
		lx.set(name, kBlock, nil)
		if w[2] > 0 && g.chance(20) {
			sc = g.newScope(lx, true, name)
			lit = &eFunc{sc}
		} else {
			b := g.blockLit(lx, name)
			sc = b.s
			lit = b
		}
		delete(lx.open, name)
		if had {
			lx.set(name, oldK, oldS)
		} else {
			delete(lx.kind, name)
		}
		lx.set(name, kBlock, sc.sig())
		r := []stmt{&sAssign{name, lit}}
		if g.chance(88) {
			nc := 1 + g.weighted([]int{55, 35, 10})
			for k := 0; k < nc; k++ {
				g.budget--
				if _, ok := lx.kind[name]; !ok || lx.kind[name] != kBlock {
					break
				}
				r = append(r, g.callStmt(lx, name))
			}
		}
		return r
	case 3:
		fn := g.callee(lx)
		if fn == "" {
			name := g.intTarget(lx)
			e := g.arith(lx)
			lx.set(name, kInt, nil)
			return []stmt{&sAssign{name, e}}
		}
		return []stmt{g.callStmt(lx, fn)}
	case 4:
		name := g.readInt(lx)
		if name == "" {
			name = g.pick(dataNames)
			lx.set(name, kInt, nil)
			return []stmt{&sAssign{name, &eInt{g.smallInt()}}}
		}
		if g.chance(50) {
			return []stmt{&sOpAssign{name: name, op: g.pick([]string{"+=", "-="}), e: g.simpleOperand(lx)}}
		}
		return []stmt{&sIncr{name: name, pre: g.chance(50), dec: g.chance(30)}}
	case 5:
		st := &sIf{cond: g.cond(lx)}
		st.then = g.stmts(lx, 1+g.uni(2), true)
		if g.chance(40) {
			st.els = g.stmts(lx, 1+g.uni(2), true)
		}
		return []stmt{st}
	case 6:
		v := g.pick(loopNames)
		if g.chance(15) {
			v = g.pick(dataNames)
		}
		if lx.isOpen(v) {
			v = "j"
		}
		st := &sFor{v: v, k: int64(1 + g.uni(3))}
		lx.set(v, kInt, nil)
		lx.loop++
		st.body = g.stmts(lx, 1+g.uni(3), true)
		lx.loop--
		lx.set(v, kInt, nil)
		return []stmt{st}
	case 7:
		vi := lx.visible("i")
		if len(vi) == 0 {
			name := g.intTarget(lx)
			lx.set(name, kInt, nil)
			return []stmt{&sAssign{name, &eInt{g.smallInt()}}}
		}
		v := g.pick(vi)
		st := &sWhile{cond: &eCmp{op: "<", l: &eVar{v}, r: &eInt{int64(1 + g.uni(4))}}}
		lx.loop++
		st.body = g.stmts(lx, 1+g.uni(2), true)
		lx.loop--
		if n := len(st.body); n > 0 {
			switch st.body[n-1].(type) {
			case *sReturn, *sThrow, *sBreak, *sContinue:
				// keep the increment reachable
				st.body[n-1] = &sIf{cond: g.cond(lx), then: []stmt{st.body[n-1]}}
			}
		}
		st.body = append(st.body, &sIncr{name: v, pre: true})
		return []stmt{st}
	case 8:
		st := &sTry{hasCatch: g.chance(85)}
		lx.inTry = true
		st.body = g.stmts(lx, 1+g.uni(3), true)
		lx.inTry = false
		if st.hasCatch {
			if g.chance(70) {
				st.catchVar = "e"
				st.pat = []string{"", "", "", "", "", "", "e1", "e", "block:", "uninit"}[g.uni(10)]
			}
			oldK, had := lx.kind["e"]
			if st.catchVar != "" {
				lx.set("e", kStr, nil)
			}
			st.catchBody = g.stmts(lx, g.uni(3), true)
			if st.catchVar != "" {
				// e is set only if something was caught
				if had {
					lx.kind["e"] = oldK
				} else {
					delete(lx.kind, "e")
				}
			}
		}
		return []stmt{st}
	case 9:
		// try { d = src } catch { d = -1 }: observes whether src is initialised
		d := g.pick(dataNames)
		if lx.isOpen(d) {
			d = "y"
		}
		src := g.pick(allNames)
		if g.chance(50) {
			src = g.pick(dataNames)
		}
		lx.set(d, kAny, nil)
		return []stmt{&sTry{body: []stmt{&sAssign{d, &eVar{src}}}, hasCatch: true,
			catchBody: []stmt{&sAssign{d, &eInt{-1}}}}}
	case 10:
		term := g.terminator(lx)
		if mayEnd {
			return []stmt{term}
		}
		// not at the end of a branch: make it conditional (and not too likely)
		c := g.cond(lx)
		if g.chance(60) {
			c = &eCmp{op: "is", l: g.varOr(g.readInt(lx)), r: &eInt{g.smallInt()}}
		}
		return []stmt{&sIf{cond: c, then: []stmt{term}}}
	case 11:
		// if (p > 0) { t = (p - 1); r = self(t, consts...) }
		p := lx.s.params[0]
		t := g.pick(dataNames)
		if lx.isOpen(t) {
			t = p
		}
		c := &eCall{fn: lx.self, args: []expr{&eVar{t}}}
		for k := 1; k < len(lx.s.params); k++ {
			if lx.s.pk[k] == kBlock {
				c.args = append(c.args, &eVar{lx.s.params[k]})
			} else {
				c.args = append(c.args, &eInt{g.smallInt()})
			}
		}
		r := g.intTarget(lx)
		if lx.isOpen(r) {
			r = t
		}
		lx.set(t, kInt, nil)
		lx.set(r, kAny, nil)
		return []stmt{&sIf{cond: &eCmp{op: ">", l: &eVar{p}, r: &eInt{0}},
			then: []stmt{&sAssign{t, &eBin{op: "-", l: &eVar{p}, r: &eInt{1}}}, &sAssign{r, c}}}}
	case 13:
		v := g.pick(loopNames)
		if lx.isOpen(v) {
			v = "j"
		}
		st := &sFor{v: v, k: int64(1 + g.uni(2))}
		lx.set(v, kInt, nil)
		lx.loop++
		lx.inTry = true
		body := g.stmts(lx, 1+g.uni(2), true)
		lx.inTry = false
		if n := len(body); n > 0 {
			switch body[n-1].(type) {
			case *sReturn, *sThrow, *sBreak, *sContinue:
				body = body[:n-1]
			}
		}
		if g.chance(60) {
			body = append(body, &sBreak{inLoop: true})
		} else {
			body = append(body, &sContinue{inLoop: true})
		}
		tr := &sTry{body: body, hasCatch: true, catchVar: "e"}
		d := g.pick(dataNames)
		if lx.isOpen(d) {
			d = "y"
		}
		tr.catchBody = []stmt{&sAssign{d, &eInt{g.smallInt()}}}
		lx.loop--
		lx.set(v, kInt, nil)
		st.body = []stmt{tr}
		return []stmt{st}
	case 12:
		name := g.pick(allNames[:8])
		src := g.readAny(lx)
		if src == "" {
			lx.set("y", kInt, nil)
			return []stmt{&sAssign{"y", &eInt{g.smallInt()}}}
		}
		if lx.isOpen(name) || lx.isOpen(src) {
			name = "y"
		}
		k := byte(kAny)
		for l := lx; l != nil; l = l.parent {
			if kk, ok := l.kind[src]; ok {
				k = kk
				break
			}
		}
		if lx.clobbers(name) {
			name = "y"
		}
		lx.set(name, k, lx.sigOf(src))
		return []stmt{&sAssign{name, &eVar{src}}}
	}
	panic("stmt")
}

// genProgram draws a whole program: a parameterless root function.
// limits of the slot assignment (compile/ast/blocks.go, core.SharedSlotStart):
// slots 0..191 are the locals of one scope (parameters included), 192..255
// the variables shared between scopes of one function.
const maxLocalSlots = 192
const maxSharedSlots = 64

// genBoundaryProgram builds a program at the slot limits: a scope (the root
// function, a closure block, or a function without blocks) with 185..196 local
// slots, each local assigned a distinct value and summed afterwards, plus
// get / set blocks on a shared variable called between the assignments and the
// sum; or a function with 60..67 variables shared with a block.
func genBoundaryProgram(g *pgen) *scope {
	g.nscope++
	root := &scope{id: g.nscope, isFunc: true, boundary: true}
	lname := func(i int) string { return fmt.Sprintf("l%03d", i) }
	kind := g.weighted([]int{35, 35, 15, 15})
	if kind == 3 {
		// shared-variable limit
		k := 60 + g.uni(8)
		g.nscope++
		blk := &scope{id: g.nscope}
		for i := 1; i <= k; i++ {
			n := fmt.Sprintf("s%02d", i)
			root.body = append(root.body, &sAssign{n, &eInt{int64(i)}}) // assigned again in the block: not final
			blk.body = append(blk.body, &sOpAssign{name: n, op: "+=", e: &eInt{1}})
		}
		blk.final = &eInt{0}
		root.body = append(root.body, &sAssign{"g", &eBlock{blk}}, &sCall{&eCall{fn: "g"}}, &sAssign{"t", &eInt{0}})
		for i := 1; i <= k; i++ {
			root.body = append(root.body, &sOpAssign{name: "t", op: "+=", e: &eVar{fmt.Sprintf("s%02d", i)}})
		}
		root.final = &eObject{[]string{"t"}}
		analyze(root)
		return root
	}
	total := 185 + g.uni(12) // local slots of the scope
	body := func(n int, shared bool) []stmt {
		var b []stmt
		if shared {
			g.nscope++
			set := &scope{id: g.nscope, params: []string{"a"}, pk: []byte{kInt}, pa: []int{0}}
			set.body = []stmt{&sAssign{"sh", &eVar{"a"}}}
			set.final = &eInt{0}
			g.nscope++
			get := &scope{id: g.nscope}
			get.final = &eVar{"sh"}
			b = append(b, &sAssign{"sh", &eInt{1000}}, &sAssign{"st", &eBlock{set}}, &sAssign{"gt", &eBlock{get}})
		}
		// the values are not constants (k is a call result / a parameter):
		// constant propagation would otherwise remove the locals altogether
		if shared {
			b = append(b, &sAssign{"k", &eCall{fn: "gt"}})
		}
		for i := 1; i <= n; i++ {
			b = append(b, &sAssign{lname(i), &eBin{op: "+", l: &eVar{"k"}, r: &eInt{int64(i)}}})
		}
		if shared {
			b = append(b, &sAssign{"r", &eCall{fn: "gt"}}, &sCall{&eCall{fn: "st", args: []expr{&eInt{5000}}}})
		}
		b = append(b, &sAssign{"t", &eInt{0}})
		for i := 1; i <= n; i++ {
			b = append(b, &sOpAssign{name: "t", op: "+=", e: &eVar{lname(i)}})
		}
		if shared {
			b = append(b, &sAssign{"q", &eCall{fn: "gt"}})
		}
		return b
	}
	switch kind {
	case 0: // root function with closures: locals st gt k r t q + n
		root.body = body(total-6, true)
		root.final = &eObject{[]string{"r", "t", "q"}}
	case 1: // closure block: parameter p + st gt k r t q + n
		g.nscope++
		blk := &scope{id: g.nscope, params: []string{"p"}, pk: []byte{kInt}, pa: []int{0}}
		blk.body = body(total-7, true)
		blk.final = &eObject{[]string{"r", "t", "q", "p"}}
		root.body = []stmt{&sAssign{"h", &eBlock{blk}}, &sAssign{"x", &eCall{fn: "h", args: []expr{&eInt{7}}}}}
		root.final = &eObject{[]string{"x"}}
	default: // nested function without blocks: parameter k + t + n
		g.nscope++
		fn := &scope{id: g.nscope, isFunc: true, params: []string{"k"}, pk: []byte{kInt}, pa: []int{0}}
		fn.body = body(total-2, false)
		fn.final = &eObject{[]string{"t"}}
		root.body = []stmt{&sAssign{"f", &eFunc{fn}}, &sAssign{"x", &eCall{fn: "f", args: []expr{&eInt{10}}}}}
		root.final = &eObject{[]string{"x"}}
	}
	analyze(root)
	return root
}

// slotDemand returns the largest number of local slots any scope of the
// program needs and the largest number of shared variables of a function.
func slotDemand(root *scope) (locals, shared int) {
	for _, s := range allScopes(root) {
		n := len(s.params)
		for name := range s.mentions {
			if s.isParam(name) {
				continue
			}
			if o := s.resolve(name); o == s && !s.root.shared[bkey{s, name}] {
				n++
			}
		}
		if n > locals {
			locals = n
		}
		if s.isFunc && len(s.shared) > shared {
			shared = len(s.shared)
		}
	}
	return
}

func genProgram(t *rapid.T) *scope {
	g := &pgen{t: t, budget: 25}
	if g.chance(5) {
		return genBoundaryProgram(g)
	}
	g.nscope++
	root := &scope{id: g.nscope, isFunc: true}
	lx := (*lex)(nil).child(root, "")
	// usually start with a few initialised variables so that blocks share them
	if g.chance(85) {
		n := 1 + g.uni(3)
		for k := 0; k < n; k++ {
			name := g.pick(dataNames)
			var e expr = &eInt{g.smallInt()}
			if g.chance(50) {
				// not a constant: keeps the variable out of constant propagation
				e = &eBin{op: "+", l: &eInt{g.smallInt()}, r: &eInt{g.smallInt()}}
			}
			root.body = append(root.body, &sAssign{name, e})
			lx.set(name, kInt, nil)
		}
	}
	root.body = append(root.body, g.stmts(lx, 3+g.uni(7), false)...)
	var names []string
	seen := map[string]bool{}
	for _, st := range root.body {
		if a, ok := st.(*sAssign); ok && !seen[a.name] {
			seen[a.name] = true
			names = append(names, a.name)
		}
	}
	if len(names) > 0 && g.chance(75) {
		root.final = &eObject{names}
	} else {
		root.final = g.final(lx)
	}
	analyze(root)
	return root
}

// allScopes lists every scope of the program, including nested functions.
func allScopes(root *scope) []*scope {
	var r []*scope
	var walkE func(e expr)
	var walkS func(ss []stmt)
	var sc func(s *scope)
	walkE = func(e expr) {
		switch e := e.(type) {
		case *eBlock:
			sc(e.s)
		case *eFunc:
			sc(e.s)
		case *eCall:
			for _, a := range e.args {
				walkE(a)
			}
		}
	}
	walkS = func(ss []stmt) {
		for _, st := range ss {
			switch st := st.(type) {
			case *sAssign:
				walkE(st.e)
			case *sCall:
				walkE(st.c)
			case *sIf:
				walkS(st.then)
				walkS(st.els)
			case *sFor:
				walkS(st.body)
			case *sWhile:
				walkS(st.body)
			case *sTry:
				walkS(st.body)
				walkS(st.catchBody)
			}
		}
	}
	sc = func(s *scope) {
		r = append(r, s)
		walkS(s.body)
		walkE(s.final)
	}
	sc(root)
	return r
}
