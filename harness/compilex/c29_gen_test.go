package compilex

// Generator of block mini-language programs for C29. It only produces
// programs whose meaning the documentation defines:
//   * calls occur only as statements / right-hand sides with side-effect
//     free arguments (variable reads, constants, block literals), so the
//     (undocumented) order of evaluation of arguments cannot matter;
//   * arithmetic is on two simple operands, never `* 0` (the constant folder
//     rewrites that, C30's business);
//   * no `try` lexically inside a try body (the compiler rejects it);
//   * no `break`/`continue` outside a loop in a function (compile error);
//   * names `it`, `unused`, `_x`, `this`, `super` are not used.
// The reference interpreter additionally discards (and counts) runs that
// leave the documented part dynamically (ordering of non-numbers, `return`
// into a function that already returned, throw of a non-string, size bounds).

import (
	"fmt"
	"sort"

	"pgregory.net/rapid"
	"verifharness/internal/gen"
)

var dataNames = []string{"a", "b", "c", "x", "y"}
var blkNames = []string{"f", "g", "h"}
var loopNames = []string{"i", "j"}
var allNames = []string{"a", "b", "c", "x", "y", "f", "g", "h", "i", "j", "e"}
var throwStrs = []string{"e1", "e2", "x9"}

type lex struct {
	s      *scope
	parent *lex
	init   map[string]bool
	blocks map[string]int // name -> arity (-1 unknown)
	loop   int
	inTry  bool
	self   string // name the scope's literal is being assigned to ("" unknown)
	depth  int    // block nesting depth
}

func (lx *lex) child(s *scope, self string) *lex {
	c := &lex{s: s, parent: lx, init: map[string]bool{}, blocks: map[string]int{}, self: self}
	if lx != nil {
		c.depth = lx.depth + 1
		// the parser's "in try" flag is not reset by a nested function literal
		c.inTry = lx.inTry
	}
	if s.isFunc {
		c.parent = nil // nothing of the outside is visible in a function literal
		if lx != nil {
			c.depth = lx.depth + 1
		}
	}
	for _, p := range s.params {
		c.init[p] = true
	}
	return c
}

func (lx *lex) visibleInit() []string {
	seen := map[string]bool{}
	var r []string
	for l := lx; l != nil; l = l.parent {
		for _, n := range allNames {
			if l.init[n] && !seen[n] {
				seen[n] = true
				r = append(r, n)
			}
		}
	}
	sort.Strings(r)
	return r
}

func (lx *lex) visibleBlocks() []string {
	seen := map[string]bool{}
	var r []string
	for l := lx; l != nil; l = l.parent {
		for _, n := range allNames {
			if _, ok := l.blocks[n]; ok && !seen[n] {
				seen[n] = true
				r = append(r, n)
			}
		}
	}
	sort.Strings(r)
	return r
}

func (lx *lex) arity(name string) int {
	for l := lx; l != nil; l = l.parent {
		if a, ok := l.blocks[name]; ok {
			return a
		}
	}
	return -1
}

type pgen struct {
	t      *rapid.T
	budget int
	nscope int
	n      int // label counter
}

func (g *pgen) lab(s string) string { g.n++; return fmt.Sprintf("%s%d", s, g.n) }

func (g *pgen) uni(n int) int         { return gen.Uniform(g.t, g.lab("u"), n) }
func (g *pgen) chance(pct int) bool   { return gen.Chance(g.t, g.lab("c"), pct) }
func (g *pgen) weighted(w []int) int  { return gen.Weighted(g.t, g.lab("w"), w) }
func (g *pgen) pick(xs []string) string { return xs[g.uni(len(xs))] }

func (g *pgen) smallInt() int64 {
	return int64(rapid.IntRange(-3, 9).Draw(g.t, g.lab("k")))
}

// readName picks a name to read: mostly one that is probably initialised.
func (g *pgen) readName(lx *lex) string {
	vi := lx.visibleInit()
	if len(vi) > 0 && g.chance(80) {
		return g.pick(vi)
	}
	return g.pick(allNames)
}

func (g *pgen) dataName(lx *lex) string {
	if g.chance(85) {
		return g.pick(dataNames)
	}
	return g.pick(allNames)
}

func (g *pgen) simpleOperand(lx *lex) expr {
	if g.chance(60) {
		return &eVar{g.readName(lx)}
	}
	return &eInt{g.smallInt()}
}

func (g *pgen) arith(lx *lex) expr {
	op := g.pick([]string{"+", "-", "*"})
	l, r := g.simpleOperand(lx), g.simpleOperand(lx)
	if op == "*" {
		// never multiply by a literal 0 (folded away by the compiler)
		if k, ok := l.(*eInt); ok && k.v == 0 {
			k.v = 2
		}
		if k, ok := r.(*eInt); ok && k.v == 0 {
			k.v = 3
		}
	}
	return &eBin{op: op, l: l, r: r}
}

func (g *pgen) cond(lx *lex) *eCmp {
	switch g.weighted([]int{50, 25, 25}) {
	case 0:
		return &eCmp{op: g.pick([]string{"<", "<=", ">", ">="}), l: &eVar{g.readName(lx)}, r: &eInt{g.smallInt()}}
	case 1:
		return &eCmp{op: g.pick([]string{"is", "isnt"}), l: &eVar{g.readName(lx)}, r: g.simpleOperand(lx)}
	default:
		return &eCmp{op: g.pick([]string{"is", "isnt"}), l: &eVar{g.readName(lx)}, r: &eStr{g.pick(throwStrs)}}
	}
}

func (g *pgen) params() []string {
	n := g.weighted([]int{35, 40, 25})
	pool := append([]string{}, dataNames...)
	pool = append(pool, "f", "i")
	var ps []string
	for len(ps) < n {
		p := g.pick(pool)
		dup := false
		for _, q := range ps {
			dup = dup || q == p
		}
		if !dup {
			ps = append(ps, p)
		}
	}
	return ps
}

func (g *pgen) newScope(lx *lex, isFunc bool, self string) *scope {
	g.nscope++
	s := &scope{id: g.nscope, isFunc: isFunc, params: g.params()}
	c := lx.child(s, self)
	n := 1 + g.uni(5)
	s.body = g.stmts(c, n)
	s.final = g.final(c)
	return s
}

func (g *pgen) blockLit(lx *lex, self string) *eBlock {
	return &eBlock{g.newScope(lx, false, self)}
}

func (g *pgen) callExpr(lx *lex) *eCall {
	vb := lx.visibleBlocks()
	var fn string
	if len(vb) > 0 && g.chance(88) {
		fn = g.pick(vb)
	} else {
		fn = g.pick(allNames)
	}
	ar := lx.arity(fn)
	n := ar
	if ar < 0 || g.chance(8) {
		n = g.uni(3)
	}
	c := &eCall{fn: fn}
	for k := 0; k < n; k++ {
		switch w := g.weighted([]int{45, 40, 15}); {
		case w == 0:
			c.args = append(c.args, &eVar{g.readName(lx)})
		case w == 1 || lx.depth >= 3 || g.budget < 3:
			c.args = append(c.args, &eInt{g.smallInt()})
		default:
			c.args = append(c.args, g.blockLit(lx, ""))
		}
	}
	return c
}

func (g *pgen) final(lx *lex) expr {
	switch g.weighted([]int{50, 12, 15, 23}) {
	case 0:
		return &eVar{g.readName(lx)}
	case 1:
		return &eInt{g.smallInt()}
	case 2:
		return g.arith(lx)
	default:
		if len(lx.visibleBlocks()) > 0 {
			return g.callExpr(lx)
		}
		return &eVar{g.readName(lx)}
	}
}

func (g *pgen) stmts(lx *lex, n int) []stmt {
	var r []stmt
	for k := 0; k < n && g.budget > 0; k++ {
		r = append(r, g.stmt(lx))
	}
	return r
}

func (g *pgen) stmt(lx *lex) stmt {
	g.budget--
	canNest := lx.depth < 4 && g.budget >= 2
	w := []int{
		20, // 0 assign simple/arith
		14, // 1 assign block literal
		3,  // 2 assign function literal
		20, // 3 call / assign call
		8,  // 4 op-assign / incr
		7,  // 5 if
		5,  // 6 for
		2,  // 7 while
		6,  // 8 try
		6,  // 9 probe
		3,  // 10 return
		3,  // 11 throw
		3,  // 12 break/continue
		4,  // 13 recursion template
	}
	if !canNest {
		w[1], w[2], w[5], w[6], w[7], w[8] = 0, 0, 0, 0, 0, 0
	}
	if lx.depth >= 3 {
		w[2] = 0
	}
	if lx.inTry {
		w[8], w[9] = 0, 0
	}
	if lx.loop == 0 && lx.s.isFunc {
		w[12] = 0
	}
	if lx.self == "" || len(lx.s.params) == 0 || lx.s.isFunc || !canNest {
		w[13] = 0
	}
	if len(lx.visibleBlocks()) == 0 {
		w[3] = 4
	}
	switch g.weighted(w) {
	case 0:
		name := g.dataName(lx)
		var e expr
		switch g.weighted([]int{40, 25, 35}) {
		case 0:
			e = &eInt{g.smallInt()}
		case 1:
			e = &eVar{g.readName(lx)}
		default:
			e = g.arith(lx)
		}
		lx.init[name] = true
		delete(lx.blocks, name)
		return &sAssign{name, e}
	case 1:
		name := g.pick(blkNames)
		if g.chance(12) {
			name = g.pick(dataNames)
		}
		// register before generating the body so that it can call itself
		lx.blocks[name] = -1
		b := g.blockLit(lx, name)
		lx.blocks[name] = len(b.s.params)
		lx.init[name] = true
		return &sAssign{name, b}
	case 2:
		name := g.pick(blkNames)
		f := &eFunc{g.newScope(lx, true, "")}
		lx.blocks[name] = len(f.s.params)
		lx.init[name] = true
		return &sAssign{name, f}
	case 3:
		c := g.callExpr(lx)
		if g.chance(55) {
			name := g.dataName(lx)
			if g.chance(25) {
				name = g.pick(blkNames)
				lx.blocks[name] = -1
			}
			lx.init[name] = true
			return &sAssign{name, c}
		}
		return &sCall{c}
	case 4:
		name := g.readName(lx)
		if g.chance(50) {
			return &sOpAssign{name: name, op: g.pick([]string{"+=", "-="}), e: g.simpleOperand(lx)}
		}
		return &sIncr{name: name, pre: g.chance(50), dec: g.chance(30)}
	case 5:
		st := &sIf{cond: g.cond(lx)}
		st.then = g.stmts(lx, 1+g.uni(2))
		if g.chance(40) {
			st.els = g.stmts(lx, 1+g.uni(2))
			if st.els == nil {
				st.els = []stmt{}
			}
		}
		return st
	case 6:
		v := g.pick(loopNames)
		if g.chance(15) {
			v = g.pick(dataNames)
		}
		st := &sFor{v: v, k: int64(1 + g.uni(3))}
		lx.init[v] = true
		lx.loop++
		st.body = g.stmts(lx, 1+g.uni(3))
		lx.loop--
		return st
	case 7:
		vi := lx.visibleInit()
		v := "a"
		if len(vi) > 0 {
			v = g.pick(vi)
		}
		st := &sWhile{cond: &eCmp{op: "<", l: &eVar{v}, r: &eInt{int64(1 + g.uni(4))}}}
		lx.loop++
		st.body = g.stmts(lx, 1+g.uni(2))
		lx.loop--
		st.body = append(st.body, &sIncr{name: v, pre: true})
		return st
	case 8:
		st := &sTry{hasCatch: g.chance(85)}
		lx.inTry = true
		st.body = g.stmts(lx, 1+g.uni(3))
		lx.inTry = false
		if st.hasCatch {
			if g.chance(70) {
				st.catchVar = "e"
				st.pat = []string{"", "", "", "", "", "", "e1", "e", "block:", "uninit"}[g.uni(10)]
				lx.init["e"] = true
			}
			st.catchBody = g.stmts(lx, g.uni(3))
		}
		return st
	case 9:
		d := g.pick(dataNames)
		src := g.pick(allNames)
		lx.init[d] = true
		return &sTry{body: []stmt{&sAssign{d, &eVar{src}}}, hasCatch: true,
			catchBody: []stmt{&sAssign{d, &eInt{-1}}}}
	case 10:
		var e expr
		if g.chance(60) {
			e = g.simpleOperand(lx)
		} else {
			e = g.arith(lx)
		}
		return &sReturn{e}
	case 11:
		if lx.init["e"] && g.chance(25) {
			return &sThrow{&eVar{"e"}}
		}
		return &sThrow{&eStr{g.pick(throwStrs)}}
	case 12:
		if g.chance(60) {
			return &sBreak{inLoop: lx.loop > 0}
		}
		return &sContinue{inLoop: lx.loop > 0}
	case 13:
		// if (p > 0) { t = (p - 1); r = self(t, consts...) }
		p := lx.s.params[0]
		t := g.pick(dataNames)
		c := &eCall{fn: lx.self, args: []expr{&eVar{t}}}
		for k := 1; k < len(lx.s.params); k++ {
			c.args = append(c.args, &eInt{g.smallInt()})
		}
		r := g.dataName(lx)
		lx.init[r] = true
		return &sIf{cond: &eCmp{op: ">", l: &eVar{p}, r: &eInt{0}},
			then: []stmt{&sAssign{t, &eBin{op: "-", l: &eVar{p}, r: &eInt{1}}}, &sAssign{r, c}}}
	}
	panic("stmt")
}

// genProgram draws a whole program: a parameterless root function.
func genProgram(t *rapid.T) *scope {
	g := &pgen{t: t, budget: 25}
	g.nscope++
	root := &scope{id: g.nscope, isFunc: true}
	lx := (*lex)(nil).child(root, "")
	lx.depth = 0
	// usually start with a few initialised variables so that blocks share them
	if g.chance(85) {
		n := 1 + g.uni(3)
		for k := 0; k < n; k++ {
			name := g.pick(dataNames)
			root.body = append(root.body, &sAssign{name, &eInt{g.smallInt()}})
			lx.init[name] = true
			g.budget--
		}
	}
	root.body = append(root.body, g.stmts(lx, 3+g.uni(8))...)
	var names []string
	seen := map[string]bool{}
	for _, st := range root.body {
		if a, ok := st.(*sAssign); ok && !seen[a.name] {
			seen[a.name] = true
			names = append(names, a.name)
		}
	}
	if len(names) > 0 && g.chance(75) {
		root.final = &eObject{names}
	} else {
		root.final = g.final(lx)
	}
	analyze(root)
	return root
}

// allScopes lists every scope of the program, including nested functions.
func allScopes(root *scope) []*scope {
	var r []*scope
	var walkE func(e expr)
	var walkS func(ss []stmt)
	var sc func(s *scope)
	walkE = func(e expr) {
		switch e := e.(type) {
		case *eBlock:
			sc(e.s)
		case *eFunc:
			sc(e.s)
		case *eCall:
			for _, a := range e.args {
				walkE(a)
			}
		}
	}
	walkS = func(ss []stmt) {
		for _, st := range ss {
			switch st := st.(type) {
			case *sAssign:
				walkE(st.e)
			case *sCall:
				walkE(st.c)
			case *sIf:
				walkS(st.then)
				walkS(st.els)
			case *sFor:
				walkS(st.body)
			case *sWhile:
				walkS(st.body)
			case *sTry:
				walkS(st.body)
				walkS(st.catchBody)
			}
		}
	}
	sc = func(s *scope) {
		r = append(r, s)
		walkS(s.body)
		walkE(s.final)
	}
	sc(root)
	return r
}
