package compilex

// C29: block mini-language, its renderer to Suneido source, the static
// scoping analysis of the *documented* model (docs/Closures.md,
// docs/Closure_Changes.md, suneidoc/Language/Blocks.md, properties.jsonl C29)
// and a reference interpreter. Nothing here looks at compile/ast/blocks.go
// results: the model is written from the documentation:
//
//   * a name used in a block denotes the same storage as that name in the
//     nearest enclosing function/block that uses it (parameters count as a
//     use and stop the walk: they hide outer variables);
//   * a name used by >= 2 nested scopes has ONE cell per call of the
//     outermost function ("Shared" struct allocated on function entry, all
//     closures created during that call reference it); a block parameter that
//     is shared is copied into that cell on every call of the block;
//   * every other variable is private to each call of its scope;
//   * `return` in a block returns from the enclosing function; `break` /
//     `continue` in a block (outside a loop of that block) throw
//     "block:break" / "block:continue"; the value of a block is the value of
//     its last statement;
//   * whether a block is compiled as closure or plain function is invisible.

import (
	"fmt"
	"sort"
	"strings"
)

// ---------------------------------------------------------------- AST

type expr interface{}

type eInt struct{ v int64 }
type eStr struct{ s string }
type eVar struct{ name string }
type eBin struct {
	op   string // + - *
	l, r expr   // eVar / eInt only
}
type eCmp struct {
	op   string // < <= > >= is isnt
	l, r expr   // eVar / eInt / eStr
}
type eBlock struct{ s *scope }
type eFunc struct{ s *scope }
type eCall struct {
	fn   string
	args []expr // eVar / eInt / eBlock
}
type eObject struct{ names []string } // Object(a, b, ...): result of the root function

type stmt interface{}

type sAssign struct {
	name string
	e    expr
}
type sOpAssign struct {
	name string
	op   string // += -=
	e    expr   // eVar / eInt
}
type sIncr struct {
	name     string
	pre, dec bool
}
type sCall struct{ c *eCall }
type sIf struct {
	cond      *eCmp
	then, els []stmt
}
type sFor struct {
	v    string
	k    int64
	body []stmt
}
type sWhile struct {
	cond *eCmp
	body []stmt
}
type sBreak struct{ inLoop bool }    // inLoop: lexically inside a loop of its own scope
type sContinue struct{ inLoop bool } // otherwise (only in blocks) it throws block:continue
type sReturn struct{ e expr }
type sThrow struct{ e expr } // eStr or eVar
type sTry struct {
	body      []stmt
	hasCatch  bool
	catchVar  string // "" = none
	pat       string
	catchBody []stmt
}

// sRaw is only used by the metamorphic variants (text inserted verbatim;
// the model ignores it because it is unreachable or touches fresh names only)
type sRaw struct{ text string }

type scope struct {
	id     int
	isFunc bool
	params []string
	body   []stmt
	final  expr // value of the last statement (never a block literal)

	boundary bool // root only: program of the slot-limit class

	// generator hints
	pk       []byte // probable kind of each parameter
	pa       []int  // arity of block parameters
	retBlock bool
	retArity int
	retKind  byte

	// analysis
	parent   *scope
	root     *scope
	kids     []*scope
	all      []*scope // root only: every scope of the tree, outer first
	mentions map[string]bool
	shared   map[bkey]bool    // root only
	finals   map[string]value // root only: single-assignment constants (nil = no propagation pass)
	live     bool             // reached by the last analysis (not inside a skipped dead branch)
}

type bkey struct {
	owner *scope
	name  string
}

// ---------------------------------------------------------------- rendering

type renderer struct {
	sb  strings.Builder
	ind int
}

func (r *renderer) line(s string) {
	r.sb.WriteString(strings.Repeat("\t", r.ind))
	r.sb.WriteString(s)
	r.sb.WriteByte('\n')
}

func renderProgram(root *scope) string {
	r := &renderer{}
	r.sb.WriteString("function (" + strings.Join(root.params, ", ") + ")\n")
	r.ind = 1
	r.line("{")
	r.scopeBody(root)
	r.line("}")
	return r.sb.String()
}

func (r *renderer) scopeBody(s *scope) {
	r.stmts(s.body)
	r.line(r.expr(s.final) + ";")
}

func (r *renderer) stmts(ss []stmt) {
	for _, st := range ss {
		r.stmt(st)
	}
}

func (r *renderer) compound(ss []stmt) {
	r.line("{")
	r.ind++
	r.stmts(ss)
	r.ind--
	r.line("}")
}

func (r *renderer) stmt(st stmt) {
	switch st := st.(type) {
	case *sAssign:
		r.line(st.name + " = " + r.expr(st.e) + ";")
	case *sOpAssign:
		r.line(st.name + " " + st.op + " " + r.expr(st.e) + ";")
	case *sIncr:
		o := "++"
		if st.dec {
			o = "--"
		}
		if st.pre {
			r.line(o + st.name + ";")
		} else {
			r.line(st.name + o + ";")
		}
	case *sCall:
		r.line(r.expr(st.c) + ";")
	case *sIf:
		r.line("if (" + r.expr(st.cond) + ")")
		r.compound(st.then)
		if st.els != nil {
			r.line("else")
			r.compound(st.els)
		}
	case *sFor:
		r.line(fmt.Sprintf("for (%s = 0; %s < %d; ++%s)", st.v, st.v, st.k, st.v))
		r.compound(st.body)
	case *sWhile:
		r.line("while (" + r.expr(st.cond) + ")")
		r.compound(st.body)
	case *sBreak:
		r.line("break;")
	case *sContinue:
		r.line("continue;")
	case *sReturn:
		r.line("return " + r.expr(st.e) + ";")
	case *sThrow:
		r.line("throw " + r.expr(st.e) + ";")
	case *sTry:
		r.line("try")
		r.compound(st.body)
		if st.hasCatch {
			c := "catch"
			if st.catchVar != "" {
				c += " (" + st.catchVar
				if st.pat != "" {
					c += ", " + fmt.Sprintf("%q", st.pat)
				}
				c += ")"
			}
			r.line(c)
			r.compound(st.catchBody)
		}
	case *sRaw:
		r.line(st.text)
	default:
		panic(fmt.Sprintf("render: unknown stmt %T", st))
	}
}

func (r *renderer) expr(e expr) string {
	switch e := e.(type) {
	case *eInt:
		if e.v < 0 {
			return fmt.Sprintf("(%d)", e.v)
		}
		return fmt.Sprint(e.v)
	case *eStr:
		return fmt.Sprintf("%q", e.s)
	case *eVar:
		return e.name
	case *eBin:
		return "(" + r.expr(e.l) + " " + e.op + " " + r.expr(e.r) + ")"
	case *eCmp:
		return r.expr(e.l) + " " + e.op + " " + r.expr(e.r)
	case *eCall:
		as := make([]string, len(e.args))
		for i, a := range e.args {
			as[i] = r.expr(a)
		}
		return e.fn + "(" + strings.Join(as, ", ") + ")"
	case *eObject:
		return "Object(" + strings.Join(e.names, ", ") + ")"
	case *eBlock:
		return r.nested(e.s, "{", "}")
	case *eFunc:
		return r.nested(e.s, "function ("+strings.Join(e.s.params, ", ")+") {", "}")
	}
	panic(fmt.Sprintf("render: unknown expr %T", e))
}

// nested renders a block / function literal over several lines, at the
// current indentation (the first line continues the caller's line).
func (r *renderer) nested(s *scope, open, close string) string {
	sub := &renderer{ind: r.ind + 1}
	if !s.isFunc {
		open = "{"
		if len(s.params) > 0 {
			open = "{|" + strings.Join(s.params, ", ") + "|"
		}
	}
	sub.scopeBody(s)
	return open + "\n" + sub.sb.String() + strings.Repeat("\t", r.ind+1) + close
}

// ---------------------------------------------------------------- analysis

// analyze computes parent/kids/mentions for the tree rooted at the function
// scope f and, recursively, for nested function literals (separate trees).
// skipDeadBranches switches the analysis to what the scopes look like after
// the compiler's constant propagation removed `if` branches whose condition
// is a compile-time constant (only used to recognise the programs of known
// finding C29 dead-branch-mention-unshares; the model itself uses the text).
var skipDeadBranches bool

func analyze(f *scope) {
	f.parent, f.root = nil, f
	f.all = nil
	f.shared = map[bkey]bool{}
	f.finals = finalConstants(f)
	collect(f, f)
	for _, s := range f.all {
		for name := range s.mentions {
			if o := s.resolve(name); o != s {
				f.shared[bkey{o, name}] = true
			}
		}
	}
}

func collect(s, root *scope) {
	s.root = root
	s.kids = nil
	s.live = true
	s.mentions = map[string]bool{}
	root.all = append(root.all, s)
	for _, p := range s.params {
		s.mentions[p] = true
	}
	var ex func(e expr)
	var sts func(ss []stmt)
	ex = func(e expr) {
		switch e := e.(type) {
		case *eVar:
			s.mentions[e.name] = true
		case *eBin:
			ex(e.l)
			ex(e.r)
		case *eCmp:
			ex(e.l)
			ex(e.r)
		case *eCall:
			s.mentions[e.fn] = true
			for _, a := range e.args {
				ex(a)
			}
		case *eObject:
			for _, n := range e.names {
				s.mentions[n] = true
			}
		case *eBlock:
			e.s.parent = s
			s.kids = append(s.kids, e.s)
			collect(e.s, root)
		case *eFunc:
			analyze(e.s)
		}
	}
	sts = func(ss []stmt) {
		for _, st := range ss {
			switch st := st.(type) {
			case *sAssign:
				s.mentions[st.name] = true
				ex(st.e)
			case *sOpAssign:
				s.mentions[st.name] = true
				ex(st.e)
			case *sIncr:
				s.mentions[st.name] = true
			case *sCall:
				ex(st.c)
			case *sIf:
				if skipDeadBranches {
					// what is left after the compiler's constant propagation
					// (finding C29 dead-branch-mention-unshares)
					if v, known := staticCond(st.cond, root.finals); known {
						if v {
							sts(st.then)
						} else {
							sts(st.els)
						}
						break
					}
				}
				ex(st.cond)
				sts(st.then)
				sts(st.els)
			case *sFor:
				s.mentions[st.v] = true
				sts(st.body)
			case *sWhile:
				ex(st.cond)
				sts(st.body)
			case *sReturn:
				ex(st.e)
			case *sThrow:
				ex(st.e)
			case *sTry:
				sts(st.body)
				if st.catchVar != "" {
					s.mentions[st.catchVar] = true
				}
				sts(st.catchBody)
			}
		}
	}
	sts(s.body)
	ex(s.final)
}

func (s *scope) isParam(name string) bool {
	for _, p := range s.params {
		if p == name {
			return true
		}
	}
	return false
}

// resolve returns the scope that owns the storage name denotes in s.
func (s *scope) resolve(name string) *scope {
	if s.isParam(name) {
		return s
	}
	for a := s.parent; a != nil; a = a.parent {
		if a.mentions[name] {
			return a.resolve(name)
		}
	}
	return s
}

// ---------------------------------------------------------------- values

type value interface{}

type vInt int64
type vStr struct {
	s        string
	internal string // class of a run-time error message caught by the program ("" = user string)
}
type vClosure struct {
	id      int
	s       *scope
	inv     *invocation
	home    *activation
	creator *activation
}
type vFunc struct{ s *scope }
type vObject struct{ items []value }

type cell struct {
	v        value
	writers  map[int]map[int]bool // creator activation id -> closure ids that wrote
	ownerAct map[int]bool         // activations of the owner (block) scope that wrote
}

type invocation struct{ cells map[bkey]*cell }

type activation struct {
	id     int
	s      *scope
	locals map[string]*cell
	inv    *invocation
	home   *activation
	live   bool
	clo    *vClosure
}

// control transfer
type ctlKind int

const (
	cNone ctlKind = iota
	cBreak
	cContinue
	cReturn
	cThrow
)

type ctl struct {
	kind   ctlKind
	val    value
	target *activation
}

// discard is panicked by the model when the program leaves the part of the
// language the documentation defines (or exceeds the size bounds)
type discard struct{ why string }

type facts struct {
	reentered      bool // a block entered while an activation of the same block is live
	sharedW2       bool // two closures created by one call both wrote one shared cell
	cellReuse      bool // a shared cell owned by a block written by >= 2 calls of that block
	sharedAccess   int  // accesses to shared cells
	closuresMade   int
	closureCalls   int
	funcCalls      int
	nonLocalReturn bool
	blockBreak     bool
	caught         int
	maxDepth       int
	escaped        bool // closure called after its creator returned
	jumpOutOfTry   bool // an executed break/continue left a try body (known finding C29 break-out-of-try)
}

type machine struct {
	fuel    int
	depth   int
	stack   []*activation
	nextID  int
	f       facts
	maxInt  int64
	maxDeep int
}

func newMachine() *machine {
	return &machine{fuel: 6000, maxInt: 1_000_000_000_000, maxDeep: 40}
}

func (m *machine) id() int { m.nextID++; return m.nextID }

func (m *machine) tick() {
	m.fuel--
	if m.fuel < 0 {
		panic(discard{"fuel"})
	}
}

func throwStr(s, internal string) *ctl {
	return &ctl{kind: cThrow, val: &vStr{s: s, internal: internal}}
}

func (m *machine) cellOf(a *activation, name string, create bool) *cell {
	owner := a.s.resolve(name)
	k := bkey{owner, name}
	if a.s.root.shared[k] {
		m.f.sharedAccess++
		c := a.inv.cells[k]
		if c == nil {
			c = &cell{}
			a.inv.cells[k] = c
		}
		return c
	}
	c := a.locals[name]
	if c == nil {
		c = &cell{}
		a.locals[name] = c
	}
	return c
}

func (m *machine) isShared(a *activation, name string) bool {
	return a.s.root.shared[bkey{a.s.resolve(name), name}]
}

func (m *machine) load(a *activation, name string) (value, *ctl) {
	c := m.cellOf(a, name, false)
	if c.v == nil {
		return nil, throwStr("uninitialized variable: "+name, "uninit")
	}
	return c.v, nil
}

func (m *machine) store(a *activation, name string, v value) {
	c := m.cellOf(a, name, true)
	c.v = v
	if !m.isShared(a, name) {
		return
	}
	if a.clo != nil {
		if c.writers == nil {
			c.writers = map[int]map[int]bool{}
		}
		w := c.writers[a.clo.creator.id]
		if w == nil {
			w = map[int]bool{}
			c.writers[a.clo.creator.id] = w
		}
		w[a.clo.id] = true
		if len(w) >= 2 {
			m.f.sharedW2 = true
		}
	}
	owner := a.s.resolve(name)
	if !owner.isFunc && owner == a.s {
		if c.ownerAct == nil {
			c.ownerAct = map[int]bool{}
		}
		c.ownerAct[a.id] = true
		if len(c.ownerAct) >= 2 {
			m.f.cellReuse = true
		}
	}
}

// ---------------------------------------------------------------- evaluation

func (m *machine) simple(a *activation, e expr) (value, *ctl) {
	switch e := e.(type) {
	case *eInt:
		return vInt(e.v), nil
	case *eStr:
		return &vStr{s: e.s}, nil
	case *eVar:
		return m.load(a, e.name)
	case *eBlock:
		m.f.closuresMade++
		return &vClosure{id: m.id(), s: e.s, inv: a.inv, home: a.home, creator: a}, nil
	case *eFunc:
		return &vFunc{e.s}, nil
	}
	panic(fmt.Sprintf("simple: %T", e))
}

func (m *machine) arith(op string, x, y value) (value, *ctl) {
	xi, ok1 := x.(vInt)
	yi, ok2 := y.(vInt)
	if !ok1 || !ok2 {
		return nil, throwStr("can't convert", "convert")
	}
	var r int64
	switch op {
	case "+", "+=":
		r = int64(xi) + int64(yi)
	case "-", "-=":
		r = int64(xi) - int64(yi)
	case "*":
		r = int64(xi) * int64(yi)
	}
	if r > m.maxInt || r < -m.maxInt {
		panic(discard{"int-range"})
	}
	return vInt(r), nil
}

func (m *machine) eval(a *activation, e expr) (value, *ctl) {
	switch e := e.(type) {
	case *eBin:
		l, c := m.simple(a, e.l)
		if c != nil {
			return nil, c
		}
		r, c := m.simple(a, e.r)
		if c != nil {
			return nil, c
		}
		return m.arith(e.op, l, r)
	case *eCmp:
		b, c := m.cmp(a, e)
		if c != nil {
			return nil, c
		}
		if b {
			return vInt(1), nil
		}
		return vInt(0), nil
	case *eCall:
		return m.call(a, e)
	case *eObject:
		ob := &vObject{}
		for _, n := range e.names {
			v, c := m.load(a, n)
			if c != nil {
				return nil, c
			}
			ob.items = append(ob.items, v)
		}
		return ob, nil
	}
	return m.simple(a, e)
}

func (m *machine) cmp(a *activation, e *eCmp) (bool, *ctl) {
	l, c := m.simple(a, e.l)
	if c != nil {
		return false, c
	}
	r, c := m.simple(a, e.r)
	if c != nil {
		return false, c
	}
	if e.op == "is" || e.op == "isnt" {
		eq := valEqual(l, r)
		return eq == (e.op == "is"), nil
	}
	li, ok1 := l.(vInt)
	ri, ok2 := r.(vInt)
	if !ok1 || !ok2 {
		// ordering across types / of blocks is not part of the documented model
		panic(discard{"order-of-non-numbers"})
	}
	switch e.op {
	case "<":
		return li < ri, nil
	case "<=":
		return li <= ri, nil
	case ">":
		return li > ri, nil
	case ">=":
		return li >= ri, nil
	}
	panic("cmp op " + e.op)
}

func valEqual(l, r value) bool {
	switch l := l.(type) {
	case vInt:
		ri, ok := r.(vInt)
		return ok && l == ri
	case *vStr:
		rs, ok := r.(*vStr)
		if !ok {
			return false
		}
		if l.internal != "" && rs.internal != "" {
			panic(discard{"compare-two-runtime-messages"})
		}
		if l.internal != "" || rs.internal != "" {
			return false // user strings never look like run-time messages
		}
		return l.s == rs.s
	case *vClosure:
		return l == r
	case *vFunc:
		rf, ok := r.(*vFunc)
		return ok && l.s == rf.s
	}
	return false
}

func (m *machine) call(a *activation, e *eCall) (value, *ctl) {
	m.tick()
	// the callee is loaded after the arguments are evaluated? Arguments are
	// side-effect free here (variable reads, constants, block literals), so
	// the only observable order is which "uninitialized" error comes first;
	// only the class of that error is compared.
	args := make([]value, len(e.args))
	for i, ae := range e.args {
		v, c := m.simple(a, ae)
		if c != nil {
			return nil, c
		}
		args[i] = v
	}
	fv, c := m.load(a, e.fn)
	if c != nil {
		return nil, c
	}
	switch f := fv.(type) {
	case *vClosure:
		return m.invoke(f.s, f, args)
	case *vFunc:
		return m.invoke(f.s, nil, args)
	case *vStr:
		// calling a string is a method call on the first argument: not part
		// of the block model
		panic(discard{"call-string"})
	}
	return nil, throwStr("can't call", "cantcall")
}

func (m *machine) invoke(s *scope, clo *vClosure, args []value) (value, *ctl) {
	if len(args) > len(s.params) {
		return nil, throwStr("too many arguments", "toomany")
	}
	if len(args) < len(s.params) {
		return nil, throwStr("missing argument", "missing")
	}
	if len(m.stack) >= m.maxDeep {
		panic(discard{"depth"})
	}
	act := &activation{id: m.id(), s: s, locals: map[string]*cell{}, live: true, clo: clo}
	if clo != nil {
		m.f.closureCalls++
		act.inv = clo.inv
		act.home = clo.home
		if !clo.creator.live {
			m.f.escaped = true
		}
		for _, b := range m.stack {
			if b.s == s {
				m.f.reentered = true
			}
		}
	} else {
		m.f.funcCalls++
		act.inv = &invocation{cells: map[bkey]*cell{}}
		act.home = act
	}
	m.stack = append(m.stack, act)
	if len(m.stack) > m.f.maxDepth {
		m.f.maxDepth = len(m.stack)
	}
	defer func() {
		act.live = false
		m.stack = m.stack[:len(m.stack)-1]
	}()
	for i, p := range s.params {
		m.store(act, p, args[i])
	}
	c := m.exec(act, s.body)
	var v value
	if c == nil {
		v, c = m.eval(act, s.final)
		if c == nil {
			return v, nil
		}
	}
	switch c.kind {
	case cReturn:
		if c.target == act {
			return c.val, nil
		}
		return nil, c
	case cThrow:
		return nil, c
	}
	panic("invoke: loop jump escaped its scope")
}

func (m *machine) exec(a *activation, ss []stmt) *ctl {
	for _, st := range ss {
		if c := m.exec1(a, st); c != nil {
			return c
		}
	}
	return nil
}

func (m *machine) exec1(a *activation, st stmt) *ctl {
	m.tick()
	switch st := st.(type) {
	case *sRaw:
		return nil
	case *sAssign:
		v, c := m.eval(a, st.e)
		if c != nil {
			return c
		}
		m.store(a, st.name, v)
	case *sOpAssign:
		r, c := m.simple(a, st.e)
		if c != nil {
			return c
		}
		l, c := m.load(a, st.name)
		if c != nil {
			return c
		}
		v, c := m.arith(st.op, l, r)
		if c != nil {
			return c
		}
		m.store(a, st.name, v)
	case *sIncr:
		l, c := m.load(a, st.name)
		if c != nil {
			return c
		}
		op := "+"
		if st.dec {
			op = "-"
		}
		v, c := m.arith(op, l, vInt(1))
		if c != nil {
			return c
		}
		m.store(a, st.name, v)
	case *sCall:
		_, c := m.call(a, st.c)
		return c
	case *sIf:
		b, c := m.cmp(a, st.cond)
		if c != nil {
			return c
		}
		if b {
			return m.exec(a, st.then)
		}
		return m.exec(a, st.els)
	case *sFor:
		m.store(a, st.v, vInt(0))
		for {
			m.tick()
			b, c := m.cmp(a, &eCmp{op: "<", l: &eVar{st.v}, r: &eInt{st.k}})
			if c != nil {
				return c
			}
			if !b {
				break
			}
			c = m.exec(a, st.body)
			if c != nil {
				if c.kind == cBreak {
					break
				}
				if c.kind != cContinue {
					return c
				}
			}
			if c := m.exec1(a, &sIncr{name: st.v, pre: true}); c != nil {
				return c
			}
		}
	case *sWhile:
		for {
			m.tick()
			b, c := m.cmp(a, st.cond)
			if c != nil {
				return c
			}
			if !b {
				break
			}
			c = m.exec(a, st.body)
			if c != nil {
				if c.kind == cBreak {
					break
				}
				if c.kind != cContinue {
					return c
				}
			}
		}
	case *sBreak:
		if !st.inLoop {
			m.f.blockBreak = true
			return throwStr("block:break", "")
		}
		return &ctl{kind: cBreak}
	case *sContinue:
		if !st.inLoop {
			m.f.blockBreak = true
			return throwStr("block:continue", "")
		}
		return &ctl{kind: cContinue}
	case *sReturn:
		v, c := m.eval(a, st.e)
		if c != nil {
			return c
		}
		if !a.home.live {
			// the function that created the block has already returned:
			// not defined by the documentation
			panic(discard{"return-to-dead-function"})
		}
		if a.home != a {
			m.f.nonLocalReturn = true
		}
		return &ctl{kind: cReturn, val: v, target: a.home}
	case *sThrow:
		v, c := m.simple(a, st.e)
		if c != nil {
			return c
		}
		s, ok := v.(*vStr)
		if !ok {
			panic(discard{"throw-non-string"})
		}
		return &ctl{kind: cThrow, val: s}
	case *sTry:
		c := m.exec(a, st.body)
		if c == nil {
			return nil
		}
		if c.kind == cBreak || c.kind == cContinue {
			// a jump to a loop of this scope that encloses the try
			m.f.jumpOutOfTry = true
			return c
		}
		if c.kind != cThrow {
			return c // return is not catchable
		}
		ex := c.val.(*vStr)
		if !strings.HasPrefix(ex.s, st.pat) {
			return c
		}
		m.f.caught++
		if st.catchVar != "" {
			m.store(a, st.catchVar, ex)
		}
		if st.hasCatch {
			return m.exec(a, st.catchBody)
		}
	default:
		panic(fmt.Sprintf("exec: %T", st))
	}
	return nil
}

// ---------------------------------------------------------------- running the model

type outcome struct {
	val string // canonical value, or "" if exc
	exc string // exception class/text
}

func (o outcome) String() string {
	if o.exc != "" {
		return "EXC " + o.exc
	}
	return o.val
}

func canonModel(v value) string {
	switch v := v.(type) {
	case vInt:
		return fmt.Sprintf("i:%d", int64(v))
	case *vStr:
		if v.internal != "" {
			return "s:<" + v.internal + ">"
		}
		return fmt.Sprintf("s:%q", v.s)
	case *vClosure:
		return "block"
	case *vFunc:
		return "function"
	case *vObject:
		parts := make([]string, len(v.items))
		for i, it := range v.items {
			parts[i] = canonModel(it)
		}
		return "[" + strings.Join(parts, ", ") + "]"
	}
	return fmt.Sprintf("?%T", v)
}

func excClassModel(s *vStr) string {
	if s.internal != "" {
		return "<" + s.internal + ">"
	}
	return fmt.Sprintf("%q", s.s)
}

// runModel runs the root function with no arguments.
func runModel(root *scope) (o outcome, f facts, disc string) {
	m := newMachine()
	defer func() {
		if e := recover(); e != nil {
			d, ok := e.(discard)
			if !ok {
				panic(e)
			}
			disc = d.why
			f = m.f
		}
	}()
	v, c := m.invoke(root, nil, nil)
	f = m.f
	if c != nil {
		switch c.kind {
		case cThrow:
			return outcome{exc: excClassModel(c.val.(*vStr))}, f, ""
		default:
			panic("model: control escaped the root function")
		}
	}
	return outcome{val: canonModel(v)}, f, ""
}

// ---------------------------------------------------------------- constant propagation (for the known-finding predicate only)

// constOf: the value of a right-hand side that the parser sees as a constant.
func constOf(e expr) (value, bool) {
	switch e := e.(type) {
	case *eInt:
		return vInt(e.v), true
	case *eStr:
		return &vStr{s: e.s}, true
	case *eFunc:
		return &vFunc{e.s}, true // a function literal is a compile-time constant
	case *eBin:
		l, ok1 := e.l.(*eInt)
		r, ok2 := e.r.(*eInt)
		if ok1 && ok2 {
			if e.op == "+" {
				return vInt(l.v + r.v), true
			}
			return vInt(l.v - r.v), true
		}
	}
	return nil, false
}

// finalConstants mirrors Parser.final / processFinal as documented in
// docs/index.md ("final variables, ones that are assigned once and never
// modified"): locals of function f assigned exactly once with `=` to a
// constant and not modified otherwise (parameters, ++ += etc., loop and catch
// variables, any modification inside a block). nil if there is none (then the
// propagation pass does not run at all).
func finalConstants(f *scope) map[string]value {
	count := map[string]int{}
	val := map[string]value{}
	notConst := map[string]bool{}
	disq := map[string]bool{}
	for _, p := range f.params {
		disq[p] = true
	}
	var walk func(ss []stmt, inBlock bool)
	var ex func(e expr, inBlock bool)
	ex = func(e expr, inBlock bool) {
		switch e := e.(type) {
		case *eBlock:
			for _, p := range e.s.params {
				disq[p] = true
			}
			walk(e.s.body, true)
			ex(e.s.final, true)
		case *eCall:
			for _, a := range e.args {
				ex(a, inBlock)
			}
		}
	}
	walk = func(ss []stmt, inBlock bool) {
		for _, st := range ss {
			switch st := st.(type) {
			case *sAssign:
				if inBlock {
					disq[st.name] = true
				} else {
					count[st.name]++
					if v, ok := constOf(st.e); ok {
						val[st.name] = v
					} else {
						notConst[st.name] = true
					}
				}
				ex(st.e, inBlock)
			case *sOpAssign:
				disq[st.name] = true
			case *sIncr:
				disq[st.name] = true
			case *sCall:
				ex(st.c, inBlock)
			case *sIf:
				walk(st.then, inBlock)
				walk(st.els, inBlock)
			case *sFor:
				disq[st.v] = true
				walk(st.body, inBlock)
			case *sWhile:
				walk(st.body, inBlock)
			case *sTry:
				walk(st.body, inBlock)
				if st.catchVar != "" {
					disq[st.catchVar] = true
				}
				walk(st.catchBody, inBlock)
			}
		}
	}
	walk(f.body, false)
	ex(f.final, false)
	var r map[string]value
	for n, c := range count {
		if c == 1 && !disq[n] && !notConst[n] {
			if r == nil {
				r = map[string]value{}
			}
			r[n] = val[n]
		}
	}
	return r
}

// staticCond evaluates a condition whose operands are constants or final
// constants; known is false if it is not a compile-time constant (or the
// propagation pass does not run, or the comparison is not between numbers /
// strings of the same kind).
func staticCond(c *eCmp, finals map[string]value) (v, known bool) {
	if finals == nil {
		return false, false
	}
	operand := func(e expr) (value, bool) {
		if x, ok := e.(*eVar); ok {
			fv, ok := finals[x.name]
			return fv, ok
		}
		return constOf(e)
	}
	l, ok1 := operand(c.l)
	r, ok2 := operand(c.r)
	if !ok1 || !ok2 {
		return false, false
	}
	if _, isFn := l.(*vFunc); isFn {
		return false, false
	}
	if _, isFn := r.(*vFunc); isFn {
		return false, false
	}
	li, lint := l.(vInt)
	ri, rint := r.(vInt)
	switch c.op {
	case "is", "isnt":
		eq := false
		if lint && rint {
			eq = li == ri
		} else if !lint && !rint {
			eq = l.(*vStr).s == r.(*vStr).s
		}
		return eq == (c.op == "is"), true
	}
	if !lint || !rint {
		return false, false
	}
	switch c.op {
	case "<":
		return li < ri, true
	case "<=":
		return li <= ri, true
	case ">":
		return li > ri, true
	case ">=":
		return li >= ri, true
	}
	return false, false
}

// sharingSignature describes which storage every name of every scope denotes.
func sharingSignature(root *scope) string {
	var sb strings.Builder
	for _, s := range allScopes(root) {
		if !s.live {
			continue
		}
		var names []string
		for n := range s.mentions {
			names = append(names, n)
		}
		sort.Strings(names)
		for _, n := range names {
			o := s.resolve(n)
			fmt.Fprintf(&sb, "%d.%s>%d,%v;", s.id, n, o.id, s.root.shared[bkey{o, n}])
		}
	}
	return sb.String()
}

// deadBranchChangesSharing: would removing the compile-time-dead `if` branches
// change which variables are shared (or remove a scope that shares)?
func deadBranchChangesSharing(root *scope) bool {
	// only names that survive are compared: restrict the textual signature to
	// the scopes and names that still exist after the removal
	for _, s := range allScopes(root) {
		s.live = false
	}
	skipDeadBranches = true
	analyze(root)
	after := map[string]bool{}
	for _, part := range strings.Split(sharingSignature(root), ";") {
		after[part] = true
	}
	skipDeadBranches = false
	analyze(root)
	before := map[string]bool{}
	for _, part := range strings.Split(sharingSignature(root), ";") {
		before[part] = true
	}
	for part := range after {
		if !before[part] {
			return true
		}
	}
	return false
}
