package compilex

import (
	"fmt"
	"strings"
	"testing"

	"github.com/apmckinlay/gsuneido/compile"
	"github.com/apmckinlay/gsuneido/compile/ast"
	"github.com/apmckinlay/gsuneido/core"
	"pgregory.net/rapid"
	"verifharness/internal/ev"
	"verifharness/internal/gen"
	"verifharness/internal/kf"
	"verifharness/internal/rt"
)

// classify maps a run-time message of the interpreter to the class the model uses.
func classifyMsg(s string) (string, bool) {
	switch {
	case strings.HasPrefix(s, "uninitialized variable"):
		return "uninit", true
	case strings.HasPrefix(s, "can't call"):
		return "cantcall", true
	case strings.HasPrefix(s, "too many arguments"):
		return "toomany", true
	case strings.HasPrefix(s, "missing argument"):
		return "missing", true
	case strings.HasPrefix(s, "can't convert"):
		return "convert", true
	}
	return "", false
}

func canonReal(v core.Value) string {
	switch x := v.(type) {
	case nil:
		return "nil"
	case *core.SuClosure:
		return "block"
	case *core.SuFunc:
		if x.IsBlock {
			return "block"
		}
		return "function"
	case *core.SuObject:
		var parts []string
		for i := 0; i < x.ListSize(); i++ {
			parts = append(parts, canonReal(x.ListGet(i)))
		}
		if x.NamedSize() > 0 {
			parts = append(parts, "?named")
		}
		return "[" + strings.Join(parts, ", ") + "]"
	case *core.SuExcept:
		return canonRealStr(string(x.SuStr))
	case core.SuStr:
		return canonRealStr(string(x))
	}
	if n, ok := v.IfInt(); ok {
		return fmt.Sprintf("i:%d", n)
	}
	return "?" + safeString(v)
}

func canonRealStr(s string) string {
	if c, ok := classifyMsg(s); ok {
		return "s:<" + c + ">"
	}
	return fmt.Sprintf("s:%q", s)
}

// realOutcome compiles and runs a program. cerr is the compile error text.
func realOutcome(src string) (o outcome, cerr string, rterr any) {
	currentProgram("C29", src)
	c := compileConst(src)
	if c.failed() {
		if c.rterr {
			return outcome{}, "", c.err
		}
		return outcome{}, errText(c.err), nil
	}
	r := callFn(c.v)
	if r.failed() {
		if r.rterr {
			return outcome{}, "", r.err
		}
		s := errText(r.err)
		if c, ok := classifyMsg(s); ok {
			return outcome{exc: "<" + c + ">"}, "", nil
		}
		return outcome{exc: fmt.Sprintf("%q", s)}, "", nil
	}
	return outcome{val: canonReal(r.v)}, "", nil
}

// blockModes parses src the way codegen does and reports how many blocks are
// compiled as plain functions / as closures (used for labels only).
func blockModes(src string) (funcs, closures int) {
	defer func() { recover() }()
	p := compile.NewParser(src)
	f := p.Function()
	if len(f.Final) > 0 {
		ast.PropFold(f)
	}
	ast.Blocks(f)
	s := f.String()
	funcs = strings.Count(s, "Block-func(")
	closures = strings.Count(s, "Block(")
	return
}

func TestC29(t *testing.T) {
	curProp = "C29"
	rec := ev.New("C29", "rapid-generated programs in a block mini-language (<= 25 statements, <= 4 nested blocks: parameters with shadowing, assignments, += ++, if, for, while, stored / passed / returned / recursive blocks, nested function literals called several times, early return from blocks, break/continue in blocks, throw, try/catch with patterns) rendered to Suneido source, compiled with compile.Constant and run with core.Thread; result (value / object of the root's variables / exception class) compared with an own reference interpreter of the documented scoping model; each program is run again with (a) an unreachable `if false { return 0 }` in a random block and (b) a fresh variable shared between a random scope and a new nested block (both force closure compilation). Non-trivial: the reference run saw two closures created by one call write the same shared variable, or a block entered while an activation of the same block was live; distinct = by source text.")
	rec.Assumptions = []string{
		"model of C29 as in DESIGN.md §4: a variable used by >= 2 nested scopes has one cell per call of the outermost function (also when the owner is a block or a block parameter), all others are per call of their scope",
		"programs rejected by the compiler's static 'possibly uninitialized variable' check (constant propagation) are not programs of the quantifier: discarded and counted",
		"runs that leave the documented part are discarded and counted: ordering (<) of non-numbers, return into a function that has already returned, comparing two run-time error messages, size bounds (fuel 6000 steps, depth 40, |int| <= 1e12)",
		"only the class of run-time errors is compared (uninitialized variable / can't call / can't convert / missing argument / too many arguments), thrown strings are compared exactly",
	}
	defer rec.Write()

	kfBreak, kfBreakOK := kf.Known("C29", "break-out-of-try")
	kfS255, kfS255OK := kf.Known("C29", "shared-slot-255-assert")
	kfDead, kfDeadOK := kf.Known("C29", "dead-branch-mention-unshares")

	rt.Check(t, rec, "model", 3000, 50000, func(t *rapid.T) {
		root := genProgram(t)
		src := renderProgram(root)
		want, f, disc := runModel(root)
		if disc != "" {
			rec.Case(false, src)
			rec.Label("discard_" + disc)
			return
		}
		if kfDeadOK && deadBranchChangesSharing(root) {
			rec.Case(false, src)
			rec.Excluded("dead-branch-mention-unshares")
			rec.Known(kfDead.What)
			return
		}
		if f.jumpOutOfTry {
			if kfBreakOK {
				rec.Case(false, src)
				rec.Excluded("break-out-of-try")
				rec.Known(kfBreak.What)
				return
			}
		}
		got, cerr, rterr := realOutcome(src)
		if rterr != nil {
			t.Fatalf("Go runtime error %v\nprogram:\n%s", rterr, src)
		}
		needLocals, needShared := slotDemand(root)
		overLimit := needLocals > maxLocalSlots || needShared > maxSharedSlots
		if root.boundary {
			rec.Label(fmt.Sprintf("boundary_local_slots_%d_shared_%d", needLocals, needShared))
		}
		if needShared == maxSharedSlots {
			// legal according to blocks.go and Closure_Changes.md (slots 192-255)
			if kfS255OK {
				rec.Case(false, src)
				rec.Excluded("shared-slot-255-assert")
				rec.Known(kfS255.What)
				return
			}
		}
		if overLimit && cerr == "" {
			t.Fatalf("a scope needs %d local slots / %d shared variables (limits %d / %d) but the program was compiled\nprogram:\n%s", needLocals, needShared, maxLocalSlots, maxSharedSlots, src)
		}
		if cerr != "" {
			if overLimit && strings.Contains(cerr, "too many") {
				// refusal at and beyond the documented limit
				rec.Case(false, src)
				rec.Label("refused_beyond_slot_limit")
				return
			}
			if strings.Contains(cerr, "possibly uninitialized variable") {
				rec.Case(false, src)
				rec.Label("discard_static_uninit_check")
				return
			}
			if strings.Contains(cerr, "cannot do math on") {
				// constant propagation of a single-assignment variable holding
				// a function literal into arithmetic: static rejection
				rec.Case(false, src)
				rec.Label("discard_static_math_check")
				return
			}
			t.Fatalf("generated program does not compile: %s\nprogram:\n%s", cerr, src)
		}
		if got != want {
			t.Fatalf("result differs from the documented model\n real:  %v\n model: %v\nprogram:\n%s", got, want, src)
		}

		// metamorphic variants
		scopes := allScopes(root)
		var blocks []*scope
		for _, s := range scopes {
			if !s.isFunc {
				blocks = append(blocks, s)
			}
		}
		bf0, _ := blockModes(src)
		if len(blocks) > 0 {
			s := blocks[gen.Uniform(t, "varA", len(blocks))]
			old := s.body
			s.body = append([]stmt{&sRaw{"if false { return 0 }"}}, old...)
			srcA := renderProgram(root)
			s.body = old
			gotA, cerrA, rterrA := realOutcome(srcA)
			if root.boundary && strings.Contains(cerrA, "too many") {
				gotA, cerrA = want, ""
			}
			if rterrA != nil || cerrA != "" || gotA != want {
				t.Fatalf("inserting an unreachable `if false { return 0 }` changed the result\n before: %v\n after:  %v %s %v\nprogram:\n%s", want, gotA, cerrA, rterrA, srcA)
			}
			bfA, _ := blockModes(srcA)
			rec.LabelIf(bfA < bf0, "variantA_turned_function_block_into_closure")
			rec.Label("variantA_run")
		}
		{
			s := scopes[gen.Uniform(t, "varB", len(scopes))]
			old := s.body
			s.body = append([]stmt{&sRaw{"zz = 0; zq = { zz = 1; 0 };"}}, old...)
			srcB := renderProgram(root)
			s.body = old
			gotB, cerrB, rterrB := realOutcome(srcB)
			if root.boundary && strings.Contains(cerrB, "too many") {
				gotB, cerrB = want, "" // the two extra variables exceed the limit
			}
			if needShared+1 == maxSharedSlots && cerrB != "" && kfS255OK {
				rec.Excluded("shared-slot-255-assert")
				rec.Known(kfS255.What)
				gotB, cerrB = want, ""
			}
			if rterrB != nil || cerrB != "" || gotB != want {
				t.Fatalf("adding an unused shared variable changed the result\n before: %v\n after:  %v %s %v\nprogram:\n%s", want, gotB, cerrB, rterrB, srcB)
			}
			bfB, _ := blockModes(srcB)
			rec.LabelIf(bfB < bf0, "variantB_turned_function_block_into_closure")
			rec.Label("variantB_run")
		}

		nt := f.sharedW2 || f.reentered
		rec.Case(nt, src)
		rec.LabelIf(f.sharedAccess > 0, "shared_variable_program")
		rec.LabelIf(f.sharedW2, "two_closures_of_one_call_write_shared")
		rec.LabelIf(f.reentered, "block_reentered_while_live")
		rec.LabelIf(f.cellReuse, "block_owned_shared_cell_written_by_2_calls")
		rec.LabelIf(f.escaped, "closure_called_after_creator_returned")
		rec.LabelIf(f.nonLocalReturn, "return_from_block")
		rec.LabelIf(f.blockBreak, "block_break_or_continue")
		rec.LabelIf(f.caught > 0, "exception_caught")
		rec.LabelIf(f.closureCalls > 0, "calls_block")
		rec.LabelIf(f.funcCalls > 1, "calls_nested_function")
		rec.LabelIf(bf0 > 0, "has_block_compiled_as_function")
		rec.LabelIf(len(blocks) >= 3, "blocks>=3")
		if want.exc != "" {
			rec.Label("result_exception_" + strings.Trim(want.exc, "<>\""))
		} else {
			rec.Label("result_value")
		}
		class := "plain"
		switch {
		case f.sharedW2:
			class = "shared_written_by_two_closures"
		case f.reentered:
			class = "reentered"
		case f.cellReuse:
			class = "block_cell_reused"
		case f.nonLocalReturn:
			class = "return_from_block"
		}
		if rec.WantSample("C29_" + class) {
			rec.Sample("C29_"+class, map[string]string{"program": src, "result": want.String()})
		}
	})
}
