package compilex

// C30 sub-property `propagation`: constant propagation of single-assignment
// locals (Parser.final / ast.PropFold) must not touch a local that is also
// modified by something other than a plain `=`: for-in variables (one and two
// variable forms, ranges), classic for loops, catch variables, blocks that
// assign it or shadow it with a parameter, ++ -- += etc., multiple
// assignment, nested functions / classes using the same name, and a local
// assigned very many times. Each construct is combined with ONE constant
// assignment `v = C` before / after / inside it.
//
// Oracle (metamorphic): the program as written (propagation possible) must
// behave like (R1) the same program with the constant passed as a parameter
// (`v = pc`, not a constant, nothing to propagate) and like (R2) the same
// program with an unreachable `if false { v = v }` appended (second
// assignment: never final). Value tuple or failure must agree; a compile
// error of the propagating version alone is a violation.

import (
	"fmt"
	"strings"
	"testing"

	"github.com/apmckinlay/gsuneido/compile"
	"github.com/apmckinlay/gsuneido/core"
	"pgregory.net/rapid"
	"verifharness/internal/ev"
	"verifharness/internal/gen"
	"verifharness/internal/kf"
	"verifharness/internal/rt"
)

type propConstruct struct {
	name string
	// text of the construct; %I is replaced by the "inside" assignment (or "")
	text string
	// inside: the construct has a place for the assignment inside it
	inside bool
	// needsInit: reads v before writing it (only meaningful with `before`)
	needsInit bool
}

var propConstructs = []propConstruct{
	{"forin_one_var", "for v in ob { %I sum += v }", true, false},
	{"forin_two_var_second", "for m, v in ob { %I sum += v; sum += m }", true, false},
	{"forin_two_var_first", "for v, m in ob { %I sum += m; r1 = v }", true, false},
	{"forin_range", "for v in 0..n { %I sum += v }", true, false},
	{"forin_range_open", "for v in ..n { %I sum += v }", true, false},
	{"classic_for_incr", "for (j = 0; j < n; ++j) { %I ++v; sum += v }", true, true},
	{"classic_for_loopvar", "for (v = 0; v < n; ++v) { sum += v }", false, false},
	{"catch_var", "try throw \"boom\" catch (v) { %I r1 = v }", true, false},
	{"catch_var_pattern", "try throw \"boom2\" catch (v, \"boom\") { r1 = v $ \"!\" }", false, false},
	{"block_assigns", "b = { %I v = 9; v }; sum += b()", true, false},
	{"block_assigns_not_called", "b = { v = 9 }; r1 = 1", false, false},
	{"block_param_shadows", "b = {|v| %I sum += v }; b(4)", true, false},
	{"block_forin_two_var", "b = { for m, v in ob { sum += v } }; b()", false, false},
	{"block_forin_one_var", "b = { for v in ob { sum += v } }; b()", false, false},
	{"block_increments", "b = { ++v }; b(); b()", false, true},
	{"nested_block_assigns", "b = { c = { v = 7 }; c() }; b()", false, false},
	{"pre_increment", "++v", false, true},
	{"post_increment", "sum += v++", false, true},
	{"decrement", "v--", false, true},
	{"add_assign", "v += 2", false, true},
	{"mul_assign", "v *= 3", false, true},
	{"cat_assign", "v $= \"s\"", false, true},
	{"bitor_assign", "v |= 8", false, true},
	{"multi_assign_second", "g = function () { return 7, 8 }; m, v = g(); sum += m", false, false},
	{"multi_assign_first", "g = function () { return 7, 8 }; v, m = g(); sum += m", false, false},
	{"nested_function_same_name", "g = function () { v = 7; v += 1; return v }; sum += g()", false, false},
	{"nested_function_param", "g = function (v) { return v * 2 }; sum += g(21)", false, false},
	{"nested_class_method", "c = class { F() { v = 7; ++v; return v } }; sum += c.F()", false, false},
	{"forin_inside_if", "if n > 0 { for m, v in ob { sum += v } }", false, false},
	{"forin_in_try", "try { for m, v in ob { sum += v } } catch (e) { r1 = e }", false, false},
	{"while_with_increment", "j = 0; while j++ < n { %I v += 1 }", true, true},
}

func checkPropagation(t *testing.T, rec *ev.Rec) {
	kfWrap, kfWrapOK := kf.Known("C30", "final-count-wraps-at-256")
	rt.Check(t, rec, "propagation", 4000, 80000, func(t *rapid.T) {
		cval := gen.Pick(t, "c", []string{"0", "5", "false", "true", `"k"`, "1.5", "#20200101"})
		// the many-assignments class
		if gen.Chance(t, "many", 4) {
			k := gen.Pick(t, "k", []int{2, 3, 254, 255, 256, 257, 258, 511, 512, 513, 769})
			if k%256 == 1 && kfWrapOK {
				rec.Case(false, "wrap")
				rec.Excluded("final-count-wraps-at-256")
				rec.Known(kfWrap.What)
				return
			}
			tail := gen.Pick(t, "tail", []string{"v", "b = { v }; b()", "x = v; Object(x, v)", "b = { v = 0 }; v"})
			mk := func(first string) string {
				var sb strings.Builder
				sb.WriteString("function (pc) {\n")
				for i := 1; i <= k; i++ {
					if i == 1 {
						fmt.Fprintf(&sb, "v = %s;\n", first)
					} else {
						fmt.Fprintf(&sb, "v = %d;\n", i)
					}
				}
				sb.WriteString(tail + "\n}")
				return sb.String()
			}
			a := compileAndCall(mk("1"), core.One)
			b := compileAndCall(mk("pc"), core.One)
			if a.failed() != b.failed() || (!a.failed() && !sameValue(a.v, b.v)) {
				t.Fatalf("a local assigned %d times: constant version differs from the parameter version\n const: %v\n param: %v\n tail: %s", k, a, b, tail)
			}
			rec.Case(k > 250, fmt.Sprint("MANY:", k, tail))
			rec.Label("propagation_many_assignments")
			return
		}
		c := propConstructs[gen.Uniform(t, "construct", len(propConstructs))]
		pos := gen.Pick(t, "pos", []string{"before", "after", "inside", "before", "after"})
		if pos == "inside" && !c.inside {
			pos = "before"
		}
		if c.name == "classic_for_loopvar" && gen.Chance(t, "none", 50) {
			pos = "none" // the `v = 0` of the loop header is the single constant assignment
		}
		reader := gen.Pick(t, "reader", []string{"r2 = v", "rb = { v }; r2 = rb()", "r2 = v is 5 ? 1 : v", "r2 = Object(v)"})
		build := func(assign, extra string) string {
			var sb strings.Builder
			sb.WriteString("function (ob, n, pc) {\n\tsum = 100; r1 = 1; r2 = 2\n")
			if pos == "before" {
				sb.WriteString("\t" + assign + "\n")
			}
			in := ""
			if pos == "inside" {
				in = assign + ";"
			}
			sb.WriteString("\t" + strings.ReplaceAll(c.text, "%I", in) + "\n")
			if pos == "after" {
				sb.WriteString("\t" + assign + "\n")
			}
			sb.WriteString("\t" + reader + "\n")
			sb.WriteString(extra)
			sb.WriteString("\tObject(sum, r1, r2)\n}")
			return sb.String()
		}
		args := []core.Value{compile.Constant("#(11, 22)"), compile.Constant("3"), compile.Constant(cval)}
		srcP := build("v = "+cval, "")
		srcR1 := build("v = pc", "")
		srcR2 := build("v = "+cval, "\tif false { v = v }\n")
		describe := func(r realRes) string {
			if r.failed() {
				if r.compile {
					return "FAIL(compile) " + errText(r.err)
				}
				// only the kind of run-time failure
				s := errText(r.err)
				if i := strings.IndexAny(s, ":"); i > 0 {
					s = s[:i]
				}
				return "FAIL(run) " + s
			}
			return r.v.Type().String() + ":" + safeString(r.v)
		}
		p, r1, r2 := describe(compileAndCall(srcP, args...)), describe(compileAndCall(srcR1, args...)), describe(compileAndCall(srcR2, args...))
		if strings.HasPrefix(r1, "FAIL(compile)") || strings.HasPrefix(r2, "FAIL(compile)") {
			t.Fatalf("reference version does not compile: %s / %s\n%s", r1, r2, srcR1)
		}
		if r1 != r2 {
			t.Fatalf("the two reference versions differ (harness problem or propagation into `v = v`):\n R1 (v = pc): %s\n R2 (if false { v = v }): %s\n%s", r1, r2, srcR2)
		}
		if p != r1 {
			t.Fatalf("constant propagation changed the program\n as written:          %s\n constant as parameter: %s\n program:\n%s", p, r1, srcP)
		}
		changed := astOf(srcP, false) != astOf(srcP, true)
		rec.Case(true, "PROP:"+srcP)
		rec.Label("propagation_" + c.name)
		rec.Label("propagation_assignment_" + pos)
		rec.LabelIf(changed, "propagation_folder_rewrote_something")
		rec.LabelIf(strings.HasPrefix(p, "FAIL"), "propagation_result_failure")
		if rec.WantSample("C30_propagation_" + pos) {
			rec.Sample("C30_propagation_"+pos, map[string]string{"program": srcP, "result": p})
		}
	})
}
