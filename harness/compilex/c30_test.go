package compilex

// C30: constant folding and propagation preserve meaning.
//
// One generated expression E over a pool of constants c0..cn is compiled in
// four shapes and all must agree (equal value, or all fail):
//   run   function (p0..pn) { E(p) }   called with the constants (no folding possible)
//   lit   function () { E(literals) }  (Folder folds everything)
//   mix   function (pi...) { E(..) }   a random subset of the constants literal, the rest parameters
//                                      (partial folding: reassociation, canonical operand order,
//                                      or->in, and->in-range, not-inversion, short circuits)
//   loc   function () { v0 = c0; ...; E(v) }  single-assignment locals (PropFold)
//
// Domain (what is specified): the folder reassociates / commutes n-ary + - * /
// chains, so expressions that contain such a chain with >= 3 operands (or a
// chain nested in a chain of the same family) draw all their numbers from a
// small exactly representable set (results need <= 16 digits under every
// grouping) and use divisors with finite decimal expansions; all other
// expressions use numbers of every size and representation.

import (
	"encoding/json"
	"fmt"
	"math"
	"os"
	"strings"
	"testing"

	"github.com/apmckinlay/gsuneido/compile"
	"github.com/apmckinlay/gsuneido/compile/ast"
	"github.com/apmckinlay/gsuneido/core"
	"pgregory.net/rapid"
	"verifharness/internal/ev"
	"verifharness/internal/gen"
	"verifharness/internal/kf"
	"verifharness/internal/rt"
)

type cx interface{}

type cxLeaf struct{ i int }
type cxUn struct {
	op string // - + ~ not
	e  cx
}
type cxBin struct {
	op   string // is isnt < <= > >= % << >> =~ !~
	l, r cx
}
type cxNary struct {
	fam string   // "add" "mul" "cat" "bitor" "bitand" "bitxor" "and" "or"
	ops []string // operator before operand k (k >= 1): + - / * / / $ / | & ^ and or
	es  []cx
}
type cxTri struct{ c, t, f cx }
type cxIn struct {
	e  cx
	es []cx
}
type cxParen struct{ e cx }
type cxCall struct {
	fn string // Number? String? Date?
	e  cx
}

type cconst struct {
	text string // Suneido literal
	kind byte   // 'n' 's' 'b' 'd' 'o'
	val  core.Value
}

var numFull = []string{"0", "1", "2", "3", "7", "10", "100", "255", "256", "32767", "32768", "65535", "65536",
	"2147483647", "2147483648", "4294967295", "4294967296", "9007199254740993", "9999999999999999",
	"10000000000000000", "9223372036854775807", "9223372036854775806", "4611686018427387904",
	".5", "1.5", ".1", ".3", "1e3", "1e-3", "1e20", "1e-20", "123456789.123", "3.141592653589793", "1e126", "0xff", "0x7fffffff",
	"-1", "-2", "-7", "-32768", "-2147483648", "-9223372036854775807", "-.5", "-1.5", "-1e20"}
var numSafe = []string{"1", "2", "3", "4", "5", "6", "7", "8", "9", "10", "11", "12", ".5", "1.5", "2.5", "-1", "-2", "-3", "-5", "-10", "-.5", "-1.5"}
var numDiv = []string{"2", "4", "5", "10", ".5", "-2", "-4"}
var numSmall = []string{"0", "1", "2", "3", "5", "8", "31", "32", "63", "64", "-1"}
var strPool = []string{`""`, `"a"`, `"b"`, `"abc"`, `"ab"`, `"5"`, `"1.5"`, `" "`, `"A"`, `"true"`, `"a.c"`, `"^a"`, `"0x10"`, `"-3"`, `"c$"`, `'x"y'`, `"[a-c]+"`}
var boolPool = []string{"true", "false"}
var datePool = []string{"#20200101", "#20200229.1230", "#19991231.235959999", "#20200101.000000000001"}
var objPool = []string{"#()", "#(1, 2)", "#(a: 1)", "#(1, 2)"}

type egen struct {
	t      *rapid.T
	consts []cconst
	safe   bool
	n      int
	leaves int
}

func (g *egen) lab(s string) string     { g.n++; return fmt.Sprintf("%s%d", s, g.n) }
func (g *egen) uni(n int) int           { return gen.Uniform(g.t, g.lab("u"), n) }
func (g *egen) chance(p int) bool       { return gen.Chance(g.t, g.lab("c"), p) }
func (g *egen) weighted(w []int) int    { return gen.Weighted(g.t, g.lab("w"), w) }
func (g *egen) pick(xs []string) string { return xs[g.uni(len(xs))] }

func (g *egen) leafText(text string, kind byte) cx {
	g.leaves++
	for i, c := range g.consts {
		if c.text == text {
			return &cxLeaf{i}
		}
	}
	g.consts = append(g.consts, cconst{text: text, kind: kind, val: compile.Constant(text)})
	return &cxLeaf{len(g.consts) - 1}
}

// reuse returns an existing constant of the kind (so that one constant
// occurs several times, e.g. p > 1 and p < 5), or nil.
func (g *egen) reuse(kind byte) cx {
	if !g.chance(30) {
		return nil
	}
	var idx []int
	for i, c := range g.consts {
		if c.kind == kind {
			idx = append(idx, i)
		}
	}
	if len(idx) == 0 {
		return nil
	}
	g.leaves++
	return &cxLeaf{idx[g.uni(len(idx))]}
}

func (g *egen) numLeaf() cx {
	if l := g.reuse('n'); l != nil {
		return l
	}
	if g.safe {
		if g.chance(3) {
			return g.leafText("0", 'n')
		}
		return g.leafText(g.pick(numSafe), 'n')
	}
	return g.leafText(g.pick(numFull), 'n')
}

func (g *egen) smallNumLeaf() cx {
	if g.safe {
		return g.leafText(g.pick([]string{"1", "2", "3", "4", "5", "8"}), 'n')
	}
	return g.leafText(g.pick(numSmall), 'n')
}

func (g *egen) strLeaf() cx {
	if l := g.reuse('s'); l != nil {
		return l
	}
	return g.leafText(g.pick(strPool), 's')
}

func (g *egen) boolLeaf() cx {
	return g.leafText(g.pick(boolPool), 'b')
}

func (g *egen) anyLeaf() cx {
	switch g.weighted([]int{40, 25, 10, 15, 10}) {
	case 0:
		return g.numLeaf()
	case 1:
		return g.strLeaf()
	case 2:
		return g.boolLeaf()
	case 3:
		return g.leafText(g.pick(datePool), 'd')
	default:
		return g.leafText(g.pick(objPool), 'o')
	}
}

// noise: sometimes an operand of the wrong kind
func (g *egen) noise(d int, e func(int) cx) cx {
	if g.chance(5) {
		return g.anyExpr(d)
	}
	return e(d)
}

func (g *egen) anyExpr(d int) cx {
	switch g.weighted([]int{35, 25, 25, 15}) {
	case 0:
		return g.num(d)
	case 1:
		return g.boolean(d)
	case 2:
		return g.str(d)
	default:
		return g.anyLeaf()
	}
}

func (g *egen) maybeParen(e cx) cx {
	if g.chance(25) {
		return &cxParen{e}
	}
	return e
}

func isArith(e cx) bool {
	switch e := e.(type) {
	case *cxParen:
		return isArith(e.e)
	case *cxNary:
		return e.fam == "add" || e.fam == "mul"
	case *cxUn:
		return isArith(e.e)
	}
	return false
}

func (g *egen) num(d int) cx {
	if d <= 0 || g.leaves > 7 {
		return g.numLeaf()
	}
	w := []int{22, 8, 22, 18, 8, 8, 8, 6}
	if g.safe {
		// shifts, bit operations and ~ can turn small numbers into huge ones
		// (-5 >> 1): not in the exactly representable mode
		w[4], w[5] = 0, 0
	}
	switch g.weighted(w) {
	case 0:
		return g.numLeaf()
	case 1:
		op := g.pick([]string{"-", "-", "+", "~"})
		if g.safe && op == "~" {
			op = "-"
		}
		return &cxUn{op, g.maybeParenAlways(g.noise(d-1, g.num))}
	case 2, 3:
		fam := "add"
		opset := []string{"+", "-"}
		if g.chance(45) {
			fam, opset = "mul", []string{"*", "*", "/"}
		}
		n := 2
		if g.safe {
			n = 2 + g.weighted([]int{40, 40, 20})
		}
		c := &cxNary{fam: fam}
		for k := 0; k < n; k++ {
			op := ""
			if k > 0 {
				op = g.pick(opset)
			}
			var e cx
			switch {
			case op == "/":
				if g.safe {
					e = g.leafText(g.pick(numDiv), 'n')
					g.leaves++
				} else {
					e = g.numLeaf()
				}
			case g.safe:
				e = g.noise(d-1, g.num)
				if _, ok := e.(*cxNary); ok {
					e = &cxParen{e}
				}
			default:
				// full-range numbers: no arithmetic chain directly inside an arithmetic chain
				e = g.noise(d-1, g.num)
				if isArith(e) {
					e = g.numLeaf()
				} else if _, ok := e.(*cxNary); ok {
					e = &cxParen{e}
				}
			}
			if _, ok := e.(*cxTri); ok {
				e = &cxParen{e}
			}
			if _, ok := e.(*cxBin); ok {
				e = &cxParen{e}
			}
			c.ops = append(c.ops, op)
			c.es = append(c.es, e)
		}
		return c
	case 4:
		op := g.pick([]string{"%", "<<", ">>"})
		r := g.smallNumLeaf()
		if op == "%" {
			r = g.numLeaf()
		}
		return &cxBin{op, g.operand(g.noise(d-1, g.num)), r}
	case 5:
		fam := g.pick([]string{"bitor", "bitand", "bitxor"})
		o := map[string]string{"bitor": "|", "bitand": "&", "bitxor": "^"}[fam]
		n := 2 + g.uni(2)
		c := &cxNary{fam: fam}
		for k := 0; k < n; k++ {
			op := ""
			if k > 0 {
				op = o
			}
			c.ops = append(c.ops, op)
			if g.chance(20) {
				c.es = append(c.es, g.leafText(g.pick([]string{"0", "0xffffffff", "1", "0xff", "-1", "-1"}), 'n'))
			} else {
				c.es = append(c.es, g.operand(g.noise(d-1, g.num)))
			}
		}
		return c
	case 6:
		return &cxParen{&cxTri{g.operand(g.boolean(d - 1)), g.operand(g.num(d - 1)), g.operand(g.num(d - 1))}}
	default:
		return &cxParen{g.num(d - 1)}
	}
}

// operand wraps anything that is not a leaf / paren / call / unary in parens.
func (g *egen) operand(e cx) cx {
	switch e.(type) {
	case *cxLeaf, *cxParen, *cxCall:
		return e
	}
	return &cxParen{e}
}

func (g *egen) maybeParenAlways(e cx) cx { return g.operand(e) }

func (g *egen) cmpOperands(d int) (cx, cx) {
	switch g.weighted([]int{45, 25, 10, 20}) {
	case 0:
		return g.operand(g.num(d)), g.operand(g.num(d))
	case 1:
		return g.operand(g.str(d)), g.operand(g.str(d))
	case 2:
		return g.leafText(g.pick(datePool), 'd'), g.leafText(g.pick(datePool), 'd')
	default:
		return g.operand(g.anyExpr(d)), g.operand(g.anyExpr(d))
	}
}

func (g *egen) boolean(d int) cx {
	if d <= 0 || g.leaves > 7 {
		if g.chance(50) {
			return g.boolLeaf()
		}
		l, r := g.numLeaf(), g.numLeaf()
		return &cxBin{g.pick([]string{"is", "isnt", "<", "<=", ">", ">="}), l, r}
	}
	switch g.weighted([]int{8, 10, 30, 6, 16, 8, 8, 6, 8}) {
	case 0:
		return g.boolLeaf()
	case 1:
		return &cxUn{"not", g.operand(g.noise(d-1, g.boolean))}
	case 2:
		l, r := g.cmpOperands(d - 1)
		return &cxBin{g.pick([]string{"is", "isnt", "<", "<=", ">", ">="}), l, r}
	case 3:
		return &cxBin{g.pick([]string{"=~", "!~"}), g.operand(g.noise(d-1, g.str)), g.strLeaf()}
	case 4:
		fam := g.pick([]string{"and", "or"})
		n := 2 + g.uni(2)
		c := &cxNary{fam: fam}
		for k := 0; k < n; k++ {
			op := ""
			if k > 0 {
				op = fam
			}
			c.ops = append(c.ops, op)
			e := g.noise(d-1, g.boolean)
			if n, ok := e.(*cxNary); ok && g.chance(70) || ok && n.fam != fam {
				e = &cxParen{e}
			}
			if _, ok := e.(*cxTri); ok {
				e = &cxParen{e}
			}
			c.es = append(c.es, e)
		}
		return c
	case 5:
		// x > a and x < b  (folded to an in-range test when x is not constant)
		x := g.operand(g.anyLeaf())
		lo, hi := g.numLeaf(), g.numLeaf()
		if g.chance(25) {
			lo, hi = g.strLeaf(), g.strLeaf()
		}
		if g.chance(10) {
			hi = g.anyLeaf()
		}
		return &cxNary{fam: "and", ops: []string{"", "and"}, es: []cx{
			&cxBin{g.pick([]string{">", ">="}), x, lo}, &cxBin{g.pick([]string{"<", "<="}), x, hi}}}
	case 6:
		// x is a or x is b or ... (folded to `in`)
		x := g.operand(g.anyLeaf())
		n := 2 + g.uni(2)
		c := &cxNary{fam: "or"}
		for k := 0; k < n; k++ {
			op := ""
			if k > 0 {
				op = "or"
			}
			c.ops = append(c.ops, op)
			c.es = append(c.es, &cxBin{"is", x, g.anyLeaf()})
		}
		return c
	case 7:
		// at least one element: `E in ()` is folded to false without
		// evaluating E (same class as the absorbing-constant finding)
		n := 1 + g.uni(3)
		in := &cxIn{e: g.operand(g.anyExpr(d - 1))}
		for k := 0; k < n; k++ {
			in.es = append(in.es, g.anyLeaf())
		}
		return in
	default:
		return &cxCall{g.pick([]string{"Number?", "String?", "Date?"}), g.anyExpr(d - 1)}
	}
}

func (g *egen) str(d int) cx {
	if d <= 0 || g.leaves > 7 {
		return g.strLeaf()
	}
	switch g.weighted([]int{30, 55, 15}) {
	case 0:
		return g.strLeaf()
	case 1:
		n := 2 + g.uni(3)
		c := &cxNary{fam: "cat"}
		for k := 0; k < n; k++ {
			op := ""
			if k > 0 {
				op = "$"
			}
			c.ops = append(c.ops, op)
			var e cx
			switch g.weighted([]int{55, 30, 15}) {
			case 0:
				e = g.strLeaf()
			case 1:
				e = g.operand(g.num(d - 1))
			default:
				e = g.operand(g.anyExpr(d - 1))
			}
			c.es = append(c.es, e)
		}
		return c
	default:
		return &cxParen{&cxTri{g.operand(g.boolean(d - 1)), g.operand(g.str(d - 1)), g.operand(g.str(d - 1))}}
	}
}

// ---------------------------------------------------------------- rendering

// leafFn says how constant i is written.
func renderCx(e cx, leaf func(i int) string) string {
	switch e := e.(type) {
	case *cxLeaf:
		return leaf(e.i)
	case *cxParen:
		return "(" + renderCx(e.e, leaf) + ")"
	case *cxUn:
		if e.op == "not" {
			return "not " + renderCx(e.e, leaf)
		}
		return e.op + " " + renderCx(e.e, leaf)
	case *cxBin:
		return renderCx(e.l, leaf) + " " + e.op + " " + renderCx(e.r, leaf)
	case *cxNary:
		var sb strings.Builder
		for k, x := range e.es {
			if k > 0 {
				sb.WriteString(" " + e.ops[k] + " ")
			}
			sb.WriteString(renderCx(x, leaf))
		}
		return sb.String()
	case *cxTri:
		return renderCx(e.c, leaf) + " ? " + renderCx(e.t, leaf) + " : " + renderCx(e.f, leaf)
	case *cxIn:
		as := make([]string, len(e.es))
		for i, x := range e.es {
			as[i] = renderCx(x, leaf)
		}
		return renderCx(e.e, leaf) + " in (" + strings.Join(as, ", ") + ")"
	case *cxCall:
		return e.fn + "(" + renderCx(e.e, leaf) + ")"
	}
	panic(fmt.Sprintf("renderCx %T", e))
}

func litText(c cconst) string {
	if c.kind == 'n' && strings.HasPrefix(c.text, "-") {
		return "(" + c.text + ")"
	}
	return c.text
}

// absorbing-constant chains ---------------------------------------------------

// absorbingVal reports whether v is the absorbing element of the family.
func absorbingVal(fam string, v core.Value) bool {
	switch fam {
	case "and":
		return v == core.False
	case "or":
		return v == core.True
	case "mul", "bitand":
		return v.Type() == core.Zero.Type() && v.Equal(core.Zero)
	case "bitor":
		return v.Type() == core.Zero.Type() && v.Equal(core.IntVal(-1))
	}
	return false
}

// walkCx calls f on every node.
func walkCx(e cx, f func(cx)) {
	f(e)
	switch e := e.(type) {
	case *cxParen:
		walkCx(e.e, f)
	case *cxUn:
		walkCx(e.e, f)
	case *cxBin:
		walkCx(e.l, f)
		walkCx(e.r, f)
	case *cxNary:
		for _, x := range e.es {
			walkCx(x, f)
		}
	case *cxTri:
		walkCx(e.c, f)
		walkCx(e.t, f)
		walkCx(e.f, f)
	case *cxIn:
		walkCx(e.e, f)
		for _, x := range e.es {
			walkCx(x, f)
		}
	case *cxCall:
		walkCx(e.e, f)
	}
}

// ---------------------------------------------------------------- the check

type shape struct {
	name string
	src  string
	args []core.Value
}

func sameValue(a, b core.Value) bool {
	if a == nil || b == nil {
		return a == nil && b == nil
	}
	if a.Type() != b.Type() {
		return false
	}
	return a.Equal(b) && b.Equal(a)
}

func astOf(src string, folded bool) (s string) {
	defer func() {
		if e := recover(); e != nil {
			s = "panic: " + errText(e)
		}
	}()
	var f *ast.Function
	if folded {
		f = compile.NewParser(src).Function()
		if len(f.Final) > 0 {
			ast.PropFold(f)
		}
	} else {
		f = compile.AstParser(src).Function()
	}
	return f.String()
}

func TestC30(t *testing.T) {
	curProp = "C30"
	rec := ev.New("C30", "rapid-generated typed expression trees (depth <= 3, <= 8 leaves) over a pool of constants of every type (numbers of all sizes/representations, strings, booleans, dates, objects) with every unary, binary, n-ary and ternary operator, in, Number?/String?/Date?, and the patterns the folder rewrites (x>a and x<b, x is a or x is b, not(a<b), short circuits); compiled as run-time version (all parameters), all-literal, mixed literal/parameter and single-assignment-locals versions; all must give an equal value of the same type or all must fail. Non-trivial: the folded AST of the literal or mixed or locals version differs from the unfolded AST (the folder / PropFold rewrote something); distinct = by the literal source text plus the mixed assignment.")
	rec.Assumptions = []string{
		"expressions with an arithmetic chain of >= 3 operands (or nested chains) use only small exactly representable numbers and finite-expansion divisors: the folder's reassociation is exact there; other expressions use the full number range",
		"documented (suneidoc Language/Expressions/Overview.md): a chain with a constant absorbing element (x * 0, x and false, x or true, x & 0, x | -1) is compiled to that constant, run-time evaluation could throw: chains with an absorbing operand whose run-time evaluation raises are excluded (excluded_documented); operands WITH side effects must still be evaluated: sub-property side_effects",
		"documented limit (suneidoc Number.md: integers have 16 digits of precision; same ruling as C26 integer-decimal-beyond-16): subtraction of -9223372036854775808, a decimal identity (0 / 1) next to an integer of 17+ digits, and equal numbers with two display texts (integer >= 1e16 vs decimal) are excluded (excluded_documented)",
		"a compile-time 'cannot do math on <type> literal' is accepted as the counterpart of the run-time conversion error; when the run-time version succeeds because the string converts (\"5\" + 1) the compile-time rejection is counted as static check (label static_literal_check_stricter) and not judged",
		"a compile-time error of the literal / mixed / locals version while the run-time version succeeds is accepted (counted, not judged) only when some sub-expression fails when evaluated on its own at run time, i.e. the folder evaluated eagerly a constant operand that short-circuit evaluation skips (`false and not \"\"`): a loud static rejection of dead code, not a changed result",
		"error messages are not compared, only fail vs value",
	}
	defer rec.Write()

	// replay of a saved metamorphic pair: {"a": src, "b": src, "args": [literal...]}
	// both functions are called with the same arguments and must agree
	if rp := os.Getenv("VERIF_REPLAY"); rp != "" && strings.HasSuffix(rp, ".json") {
		var pair struct {
			A, B string
			Args []string
		}
		b, err := os.ReadFile(rp)
		if err == nil {
			err = json.Unmarshal(b, &pair)
		}
		if err != nil {
			t.Fatalf("replay: %v", err)
		}
		var args []core.Value
		for _, a := range pair.Args {
			args = append(args, compile.Constant(a))
		}
		ra, rb := compileAndCall(pair.A, args...), compileAndCall(pair.B, args...)
		rec.Case(true, pair.A)
		if ra.failed() != rb.failed() || (!ra.failed() && !sameValue(ra.v, rb.v)) {
			rt.Fail(t, rec, "replay", rp, fmt.Sprintf("the two versions differ\n a: %v\n b: %v", ra, rb))
		}
		return
	}

	rt.Check(t, rec, "shapes", 7000, 200000, func(t *rapid.T) {
		g := &egen{t: t}
		g.safe = gen.Chance(t, "safe", 45)
		var e cx
		switch gen.Weighted(t, "top", []int{40, 35, 25}) {
		case 0:
			e = g.num(3)
		case 1:
			e = g.boolean(3)
		default:
			e = g.str(3)
		}
		n := len(g.consts)
		// mixed: which constants stay literal
		lit := make([]bool, n)
		nl := 0
		for i := range lit {
			lit[i] = gen.Chance(t, fmt.Sprint("lit", i), 50)
			if lit[i] {
				nl++
			}
		}
		var allParams, mixParams []string
		var allArgs, mixArgs []core.Value
		var locals strings.Builder
		for i, c := range g.consts {
			allParams = append(allParams, fmt.Sprint("p", i))
			allArgs = append(allArgs, c.val)
			if !lit[i] {
				mixParams = append(mixParams, fmt.Sprint("p", i))
				mixArgs = append(mixArgs, c.val)
			}
			fmt.Fprintf(&locals, "v%d = %s; ", i, c.text)
		}
		pname := func(i int) string { return fmt.Sprint("p", i) }
		shapes := []shape{
			{"run", "function (" + strings.Join(allParams, ", ") + ") { " + renderCx(e, pname) + " }", allArgs},
			{"lit", "function () { " + renderCx(e, func(i int) string { return litText(g.consts[i]) }) + " }", nil},
			{"mix", "function (" + strings.Join(mixParams, ", ") + ") { " + renderCx(e, func(i int) string {
				if lit[i] {
					return litText(g.consts[i])
				}
				return pname(i)
			}) + " }", mixArgs},
			{"loc", "function () { " + locals.String() + renderCx(e, func(i int) string { return fmt.Sprint("v", i) }) + " }", nil},
		}

		// Documented (suneidoc Language/Expressions/Overview.md: "x * 0 will be
		// compiled to 0, whereas runtime evaluation could throw an exception if
		// x is not a number. This also applies to and, or, &, |"): a chain with a
		// constant absorbing element (false / true / 0 / 0 / -1) is replaced by
		// it and its pure operands are not evaluated. That can only lose an
		// exception: excluded iff the chain has an absorbing operand and its
		// run-time evaluation raises. (Operands with side effects are the
		// business of the sub-property side_effects below.)
		absFails := false
		walkCx(e, func(x cx) {
			c, ok := x.(*cxNary)
			if !ok || absFails {
				return
			}
			switch c.fam {
			case "and", "or", "mul", "bitand", "bitor":
			default:
				return
			}
			has := false
			for _, o := range c.es {
				// an operand that is (or folds to) the absorbing element
				r := compileAndCall("function ("+strings.Join(allParams, ", ")+") { "+renderCx(o, pname)+" }", allArgs...)
				if !r.failed() && r.v != nil && absorbingVal(c.fam, r.v) {
					has = true
				}
			}
			if !has {
				return
			}
			r := compileAndCall("function ("+strings.Join(allParams, ", ")+") { "+renderCx(c, pname)+" }", allArgs...)
			if r.failed() {
				absFails = true
			}
		})
		if absFails {
			rec.Case(false, shapes[1].src)
			rec.Excluded("excluded_documented: absorbing constant replaces a chain whose run-time evaluation raises (Expressions/Overview.md)")
			return
		}

		// Documented limit (suneidoc Number.md "Integers have 16 digits of
		// precision"; same ruling as C26 integer-decimal-beyond-16): the three
		// predicates below identify expressions whose folded and run-time
		// evaluation differ only beyond 16 significant digits.
		const doc16 = "excluded_documented: 16 digit limit (Number.md) - "
		// (a) folded `x - MinInt64` goes through unary minus (a 19 digit value)
		hdr := "function (" + strings.Join(allParams, ", ") + ") { "
		minint := false
		walkCx(e, func(x cx) {
			c, ok := x.(*cxNary)
			if !ok || c.fam != "add" || minint {
				return
			}
			for k, o := range c.es {
				if c.ops[k] != "-" {
					// `a + - b` is compiled like `a - b`
					u, ok := o.(*cxUn)
					if !ok || u.op != "-" || k == 0 {
						continue
					}
					o = u.e
				}
				r := compileAndCall(hdr+renderCx(o, pname)+" }", allArgs...)
				if !r.failed() && r.v != nil {
					if n, ok := r.v.IfInt(); ok && n == math.MinInt64 {
						minint = true
					}
				}
			}
		})
		if minint {
			rec.Case(false, shapes[1].src)
			rec.Excluded(doc16 + "subtraction of -9223372036854775808")
			return
		}
		// (b) an integer-valued SuDnum equal to the identity is dropped by the
		// folder; at run time it switches the chain to decimal arithmetic
		// (matters only next to integers of 17+ digits)
		dropped := false
		walkCx(e, func(x cx) {
			c, ok := x.(*cxNary)
			if !ok || (c.fam != "add" && c.fam != "mul") || dropped {
				return
			}
			ident, big := false, false
			for _, o := range c.es {
				r := compileAndCall(hdr+renderCx(o, pname)+" }", allArgs...)
				if r.failed() || r.v == nil {
					continue
				}
				if d, ok := r.v.(core.SuDnum); ok {
					if c.fam == "add" && d.IsZero() || c.fam == "mul" && d.Equal(core.One) {
						ident = true
					}
				} else if n, ok := r.v.IfInt(); ok && (n >= 1e16 || n <= -1e16) {
					big = true
				}
			}
			if ident && big {
				dropped = true
			}
		})
		if dropped {
			rec.Case(false, shapes[1].src)
			rec.Excluded(doc16 + "decimal identity next to an integer of 17+ digits")
			return
		}
		// (c) the constant pool merges equal numbers of different representation
		// and display text (only possible with integer constants >= 1e16)
		var wide []core.Value
		for _, c := range g.consts {
			if n, ok := c.val.IfInt(); ok && (n >= 1e16 || n <= -1e16) {
				wide = append(wide, c.val)
			}
		}
		if len(wide) > 0 {
			merged := false
			walkCx(e, func(x cx) {
				if merged {
					return
				}
				if _, ok := x.(*cxLeaf); ok {
					return
				}
				r := compileAndCall(hdr+renderCx(x, pname)+" }", allArgs...)
				if r.failed() || r.v == nil {
					return
				}
				for _, w := range wide {
					if r.v.Type() == w.Type() && r.v.Equal(w) && safeString(r.v) != safeString(w) {
						merged = true
					}
				}
			})
			if merged {
				rec.Case(false, shapes[1].src)
				rec.Excluded(doc16 + "equal numbers with two display texts")
				return
			}
		}

		res := make([]realRes, len(shapes))
		for i, s := range shapes {
			res[i] = compileAndCall(s.src, s.args...)
			if res[i].rterr {
				// e.g. `x % 0`: OpMod panics with Go's "integer divide by zero",
				// which the interpreter reports as an exception. Whether that is
				// acceptable is C26's question; here it is just "fails".
				rec.Label("go_runtime_error_as_failure_" + s.name)
			}
		}
		run := res[0]
		if run.compile {
			t.Fatalf("run-time version does not compile: %v\n%s", run.err, shapes[0].src)
		}
		for i := 1; i < len(shapes); i++ {
			r := res[i]
			if r.failed() && !run.failed() && r.compile {
				if strings.Contains(errText(r.err), "cannot do math on") {
					rec.Label("static_literal_check_stricter_" + shapes[i].name)
					continue
				}
				// eager folding of a constant sub-expression that is a type
				// error but is never evaluated at run time (short circuit of
				// and / or / ?:): a compile-time rejection of dead code, not a
				// changed result. Accepted only if some sub-expression really
				// fails when evaluated on its own.
				dead := false
				walkCx(e, func(x cx) {
					if dead {
						return
					}
					if _, ok := x.(*cxLeaf); ok {
						return
					}
					if x != e {
						sr := compileAndCall("function ("+strings.Join(allParams, ", ")+") { "+renderCx(x, pname)+" }", allArgs...)
						if sr.failed() {
							dead = true
						}
					}
					// operands of and / or and conditions of ?: used as conditions
					var conds []cx
					switch n := x.(type) {
					case *cxNary:
						if n.fam == "and" || n.fam == "or" {
							conds = n.es
						}
					case *cxTri:
						conds = []cx{n.c}
					}
					for _, c := range conds {
						cr := compileAndCall("function ("+strings.Join(allParams, ", ")+") { ("+renderCx(c, pname)+") ? 1 : 2 }", allArgs...)
						if cr.failed() {
							dead = true
						}
					}
				})
				if dead {
					rec.Label("static_error_in_unevaluated_operand_" + shapes[i].name)
					continue
				}
			}
			if r.failed() != run.failed() || (!r.failed() && !sameValue(r.v, run.v)) {
				t.Fatalf("%s version differs from the run-time version\n run: %v\n %s: %v\n run src: %s\n args: %v\n %s src: %s",
					shapes[i].name, run, shapes[i].name, r, shapes[0].src, allArgs, shapes[i].name, shapes[i].src)
			}
		}

		// non-trivial: did the folder rewrite something?
		rewrote := false
		for i := 1; i < len(shapes); i++ {
			a, b := astOf(shapes[i].src, false), astOf(shapes[i].src, true)
			if a != b {
				rewrote = true
				rec.Label("folder_rewrote_" + shapes[i].name)
				if strings.Contains(b, "InRange(") {
					rec.Label("folded_to_InRange")
				}
				if strings.Contains(b, "In(") && !strings.Contains(a, "In(") {
					rec.Label("folded_or_to_In")
				}
			}
		}
		rec.Case(rewrote, shapes[1].src+"|"+fmt.Sprint(lit))
		rec.LabelIf(g.safe, "safe_number_mode")
		rec.LabelIf(run.failed(), "all_fail")
		rec.LabelIf(!run.failed(), "all_value")
		rec.LabelIf(nl > 0 && nl < n, "mixed_has_both")
		if !run.failed() {
			rec.Label("result_type_" + run.v.Type().String())
		}
		cls := "C30_value"
		if run.failed() {
			cls = "C30_fail"
		}
		if rewrote && rec.WantSample(cls) {
			rec.Sample(cls, map[string]string{"lit": shapes[1].src, "mix": shapes[2].src, "loc": shapes[3].src, "result": run.String()})
		}
	})

	// side_effects: operands with an observable side effect next to an
	// absorbing constant must be evaluated exactly as at run time (the
	// documented "compiled to the constant" only covers operands that are
	// just values). One chain of and / or / * / & / | with >= 1 absorbing
	// constant and >= 1 side-effect operand (call of a counting block,
	// assignment, increment); constants are literal / parameter / local
	// depending on the shape; value AND side-effect state must agree.
	rt.Check(t, rec, "side_effects", 3000, 60000, func(t *rapid.T) {
		fams := []struct {
			fam, op, abs string
			other, rv    []string
		}{
			{"and", "and", "false", []string{"true"}, []string{"true", "false"}},
			{"or", "or", "true", []string{"false"}, []string{"true", "false"}},
			{"mul", "*", "0", []string{"2", "3", "1"}, []string{"2", "5", "0"}},
			{"bitand", "&", "0", []string{"7", "-1", "12"}, []string{"6", "3", "0"}},
			{"bitor", "|", "-1", []string{"0", "8", "3"}, []string{"4", "1", "-1"}},
		}
		f := fams[gen.Uniform(t, "fam", len(fams))]
		logical := f.fam == "and" || f.fam == "or"
		n := 2 + gen.Uniform(t, "n", 3)
		var consts []string // constant slots
		slot := func(text string) string {
			consts = append(consts, text)
			return fmt.Sprintf("\x00%d\x00", len(consts)-1)
		}
		absAt := gen.Uniform(t, "absAt", n)
		usedX, usedI := false, false
		var ops []string
		sideLeft, sideRight, nside := false, false, 0
		for k := 0; k < n; k++ {
			if k == absAt {
				ops = append(ops, slot(f.abs))
				continue
			}
			kind := gen.Weighted(t, fmt.Sprint("kind", k), []int{40, 15, 15, 12, 10, 8})
			if kind == 1 && usedX {
				kind = 0
			}
			if kind == 2 && usedI {
				kind = 0
			}
			side := true
			switch kind {
			case 0:
				ops = append(ops, "f()")
			case 1:
				usedX = true
				ops = append(ops, "(x = "+gen.Pick(t, fmt.Sprint("xv", k), f.rv)+")")
			case 2:
				usedI = true
				inc := gen.Pick(t, fmt.Sprint("inc", k), []string{"i++", "++i", "i--"})
				if logical {
					ops = append(ops, "("+inc+" < 1)")
				} else {
					ops = append(ops, "("+inc+")")
				}
			case 3:
				ops = append(ops, slot(gen.Pick(t, fmt.Sprint("oc", k), f.other)))
				side = false
			case 4:
				ops = append(ops, "w")
				side = false
			default:
				ops = append(ops, slot(f.abs)) // a second absorbing constant
				side = false
			}
			if side {
				nside++
				if k < absAt {
					sideLeft = true
				} else {
					sideRight = true
				}
			}
		}
		if nside == 0 {
			// make sure there is a side effect: replace a non-absorbing operand
			k := (absAt + 1) % n
			ops[k] = "f()"
			sideLeft, sideRight = sideLeft || k < absAt, sideRight || k > absAt
		}
		chain := strings.Join(ops, " "+f.op+" ")
		rv := gen.Pick(t, "rv", f.rv)
		wv := gen.Pick(t, "wv", f.other)
		lit := make([]bool, len(consts))
		for i := range lit {
			lit[i] = rapid.Bool().Draw(t, fmt.Sprint("slit", i))
		}
		build := func(mode string) (string, []core.Value) {
			params := []string{"w"}
			args := []core.Value{compile.Constant(wv)}
			var locals strings.Builder
			body := chain
			for i, c := range consts {
				ph := fmt.Sprintf("\x00%d\x00", i)
				txt := c
				if strings.HasPrefix(c, "-") {
					txt = "(" + c + ")"
				}
				switch {
				case mode == "lit" || mode == "mix" && lit[i]:
					body = strings.ReplaceAll(body, ph, txt)
				case mode == "loc":
					fmt.Fprintf(&locals, "v%d = %s; ", i, c)
					body = strings.ReplaceAll(body, ph, fmt.Sprint("v", i))
				default:
					params = append(params, fmt.Sprint("p", i))
					args = append(args, compile.Constant(c))
					body = strings.ReplaceAll(body, ph, fmt.Sprint("p", i))
				}
			}
			src := "function (" + strings.Join(params, ", ") + ") {\n" +
				"\tn = 0; x = 9; x = 8; i = 0; " + locals.String() + "\n" +
				"\tf = { n++; " + rv + " };\n" +
				"\tr = (" + body + ");\n" +
				"\tObject(r, n, x, i)\n}"
			return src, args
		}
		describe := func(r realRes) string {
			if r.failed() {
				return "FAIL " + errText(r.err)
			}
			ob, ok := r.v.(*core.SuObject)
			if !ok || ob.ListSize() != 4 {
				return "?" + r.String()
			}
			var parts []string
			for k := 0; k < 4; k++ {
				v := ob.ListGet(k)
				parts = append(parts, v.Type().String()+":"+safeString(v))
			}
			return strings.Join(parts, " ")
		}
		runSrc, runArgs := build("run")
		run := compileAndCall(runSrc, runArgs...)
		if run.failed() {
			t.Fatalf("run-time version of a well-typed chain fails: %v\n%s", run, runSrc)
		}
		want := describe(run)
		for _, mode := range []string{"lit", "mix", "loc"} {
			src, args := build(mode)
			got := describe(compileAndCall(src, args...))
			if got != want {
				t.Fatalf("%s version differs from the run-time version in value or side effects (r, calls of f, x, i)\n run: %s\n %s: %s\n run src:\n%s\n %s src:\n%s", mode, want, mode, got, runSrc, mode, src)
			}
		}
		litSrc, _ := build("lit")
		rec.Case(true, "SE:"+litSrc)
		rec.Label("side_effects_" + f.fam)
		rec.LabelIf(sideLeft, "side_effect_left_of_absorbing_constant")
		rec.LabelIf(sideRight, "side_effect_right_of_absorbing_constant")
		if rec.WantSample("C30_side_effects_" + f.fam) {
			rec.Sample("C30_side_effects_"+f.fam, map[string]string{"lit": litSrc, "result(r n x i)": want})
		}
	})

	// rewrites: the other places where the folder may drop or reorder the
	// evaluation of operands: `in` lists and `is .. or is ..` chains (folded
	// to `in`) with a constant left side, `isnt .. and isnt ..`, ?: with a
	// constant condition, and / or with constant identity or absorbing
	// prefix, not-inversion, constant concatenation around an operand,
	// reassociated + chains. Operands: constants (literal / parameter /
	// local per shape), a plain variable, operands with a side effect
	// (counting block call, assignment, increment) and operands that throw
	// (w % z with z = 0, s + 1 with s = "x", Object().q), before and after
	// matching / non-matching constants. `try r = (E) catch r = "EXC"` keeps
	// the side-effect record when E throws; (r, calls, x, i) must agree.
	kfIn, kfInOK := kf.Known("C30", "in-empty-list-drops-left-side")
	rt.Check(t, rec, "rewrites", 4000, 80000, func(t *rapid.T) {
		var consts []string
		slot := func(text string) string {
			consts = append(consts, text)
			return fmt.Sprintf("\x00%d\x00", len(consts)-1)
		}
		k := 0
		lab := func(s string) string { k++; return fmt.Sprint(s, k) }
		usedX, usedI := false, false
		nSide, nThrow := 0, 0
		num := func() string { return gen.Pick(t, lab("num"), []string{"5", "6", "7"}) }
		side := func() string { // value is a number
			nSide++
			kind := gen.Weighted(t, lab("sk"), []int{50, 25, 25})
			if kind == 1 && usedX || kind == 2 && usedI {
				kind = 0
			}
			switch kind {
			case 1:
				usedX = true
				return "(x = " + num() + ")"
			case 2:
				usedI = true
				return "(" + gen.Pick(t, lab("inc"), []string{"i++", "++i", "i--"}) + ")"
			}
			return "f()"
		}
		thrower := func() string {
			nThrow++
			return gen.Pick(t, lab("th"), []string{"(w % z)", "(s + 1)", "Object().q"})
		}
		// operand of an `in` list / comparison
		noThrow := false // and / or chains: losing the exception of a pure operand is documented
		elem := func() string {
			w := []int{40, 25, 15, 20}
			if noThrow {
				w[2] = 0
			}
			switch gen.Weighted(t, lab("ek"), w) {
			case 0:
				return slot(num())
			case 1:
				return side()
			case 2:
				return thrower()
			default:
				return "w"
			}
		}
		left := func() string {
			switch gen.Weighted(t, lab("lk"), []int{60, 20, 20}) {
			case 0:
				return slot(num())
			case 1:
				return "w"
			default:
				return side()
			}
		}
		var expr, form string
		emptyIn := false
		switch gen.Uniform(t, "form", 9) {
		case 0:
			form = "in"
			n := gen.Weighted(t, "nin", []int{4, 10, 30, 30, 26})
			var es []string
			l := left()
			for j := 0; j < n; j++ {
				es = append(es, elem())
			}
			emptyIn = n == 0 && !strings.HasPrefix(l, "\x00") && l != "w"
			expr = l + " in (" + strings.Join(es, ", ") + ")"
		case 1:
			form = "is_or_chain"
			noThrow = true
			l := slot(num())
			if rapid.Bool().Draw(t, "lw") {
				l = "w"
			}
			n := 2 + gen.Uniform(t, "nor", 3)
			var es []string
			for j := 0; j < n; j++ {
				es = append(es, l+" is "+elem())
			}
			expr = strings.Join(es, " or ")
		case 2:
			form = "isnt_and_chain"
			noThrow = true
			l := slot(num())
			if rapid.Bool().Draw(t, "lw") {
				l = "w"
			}
			n := 2 + gen.Uniform(t, "nand", 3)
			var es []string
			for j := 0; j < n; j++ {
				es = append(es, l+" isnt "+elem())
			}
			expr = strings.Join(es, " and ")
		case 3:
			form = "ternary_constant_condition"
			c := slot(gen.Pick(t, "tc", []string{"true", "false"}))
			if gen.Chance(t, "tcmp", 30) {
				c = "(" + slot(num()) + " is " + slot(num()) + ")"
			}
			expr = c + " ? " + elem() + " : " + elem()
		case 4:
			form = "andor_constant_operands"
			op := gen.Pick(t, "aop", []string{"and", "or"})
			n := 2 + gen.Uniform(t, "nao", 3)
			var es []string
			for j := 0; j < n; j++ {
				// no throwing operands here: losing the exception of a pure
				// operand next to an absorbing constant is documented
				switch gen.Weighted(t, lab("ao"), []int{45, 55, 0}) {
				case 0:
					es = append(es, slot(gen.Pick(t, lab("b"), []string{"true", "false"})))
				case 1:
					es = append(es, "("+side()+" < "+slot(num())+")")
				default:
					es = append(es, "("+thrower()+" is 1)")
				}
			}
			expr = strings.Join(es, " "+op+" ")
		case 5:
			form = "not_inversion"
			cmp := gen.Pick(t, "cmp", []string{"<", "<=", ">", ">=", "is", "isnt"})
			a, b := elem(), slot(num())
			if rapid.Bool().Draw(t, "swap") {
				a, b = b, a
			}
			expr = "not (" + a + " " + cmp + " " + b + ")"
		case 6:
			form = "cat_constants_around_operand"
			n := 3 + gen.Uniform(t, "ncat", 3)
			var es []string
			for j := 0; j < n; j++ {
				if gen.Chance(t, lab("cs"), 60) {
					es = append(es, slot(gen.Pick(t, lab("s"), []string{`"a"`, `"b"`, `""`, "1", "2.5"})))
				} else {
					es = append(es, elem())
				}
			}
			expr = strings.Join(es, " $ ")
		case 7:
			form = "add_chain_reassociated"
			n := 3 + gen.Uniform(t, "nadd", 3)
			var sb strings.Builder
			for j := 0; j < n; j++ {
				if j > 0 {
					sb.WriteString(gen.Pick(t, lab("pm"), []string{" + ", " - "}))
				}
				if gen.Chance(t, lab("ac"), 55) {
					sb.WriteString(slot(gen.Pick(t, lab("an"), []string{"1", "2", "3", "10"})))
				} else {
					sb.WriteString(elem())
				}
			}
			expr = sb.String()
		default:
			form = "unary_and_range"
			// w > a and w < b with a side-effect conjunct, unary minus on constants
			expr = "w > " + slot(num()) + " and w < " + slot(num()) + " and (" + side() + " is " + slot(num()) + ")"
			if rapid.Bool().Draw(t, "neg") {
				expr = "- " + slot(num()) + " + " + elem() + " + (- " + slot(num()) + ")"
			}
		}
		if emptyIn {
			// `E in ()` is false, but E must still be evaluated. Every shape
			// compiles this the same way, so there is nothing to compare:
			// judged directly with a counting block as E.
			if kfInOK {
				rec.Case(false, "emptyin")
				rec.Excluded("in-empty-list-drops-left-side")
				rec.Known(kfIn.What)
				return
			}
			r := compileAndCall("function () { n = 0; f = { n++; 5 }; r = (f() in ()); Object(r, n) }")
			if r.failed() || safeString(r.v) != "#(false, 1)" {
				t.Fatalf("`f() in ()` must evaluate f() once and be false: Object(r, calls) = %v", r)
			}
		}
		rv := num()
		wv := num()
		lit := make([]bool, len(consts))
		for i := range lit {
			lit[i] = rapid.Bool().Draw(t, fmt.Sprint("rlit", i))
		}
		build := func(mode string) (string, []core.Value) {
			params := []string{"w", "z", "s"}
			args := []core.Value{compile.Constant(wv), core.Zero, core.SuStr("x")}
			var locals strings.Builder
			body := expr
			for i, c := range consts {
				ph := fmt.Sprintf("\x00%d\x00", i)
				switch {
				case mode == "lit" || mode == "mix" && lit[i]:
					body = strings.ReplaceAll(body, ph, c)
				case mode == "loc":
					fmt.Fprintf(&locals, "v%d = %s; ", i, c)
					body = strings.ReplaceAll(body, ph, fmt.Sprint("v", i))
				default:
					params = append(params, fmt.Sprint("p", i))
					args = append(args, compile.Constant(c))
					body = strings.ReplaceAll(body, ph, fmt.Sprint("p", i))
				}
			}
			src := "function (" + strings.Join(params, ", ") + ") {\n" +
				"\tn = 0; x = 9; x = 8; i = 0; r = 0; r = 1; " + locals.String() + "\n" +
				"\tf = { n++; " + rv + " };\n" +
				"\ttry\n\t\tr = (" + body + ")\n\tcatch\n\t\tr = \"EXC\"\n" +
				"\tObject(r, n, x, i)\n}"
			return src, args
		}
		describe := func(r realRes) string {
			if r.failed() {
				stage := "run"
				if r.compile {
					stage = "compile"
				}
				return "FAIL(" + stage + ") " + errText(r.err)
			}
			ob, ok := r.v.(*core.SuObject)
			if !ok || ob.ListSize() != 4 {
				return "?" + r.String()
			}
			var parts []string
			for k := 0; k < 4; k++ {
				v := ob.ListGet(k)
				parts = append(parts, v.Type().String()+":"+safeString(v))
			}
			return strings.Join(parts, " ")
		}
		runSrc, runArgs := build("run")
		run := compileAndCall(runSrc, runArgs...)
		if run.failed() {
			t.Fatalf("run-time version fails outside the try: %v\n%s", run, runSrc)
		}
		want := describe(run)
		rewrote := false
		for _, mode := range []string{"lit", "mix", "loc"} {
			src, args := build(mode)
			got := describe(compileAndCall(src, args...))
			if got != want {
				t.Fatalf("%s version differs from the run-time version in value, exception or side effects (r, calls of f, x, i)\n run: %s\n %s: %s\n run src:\n%s\n %s src:\n%s", mode, want, mode, got, runSrc, mode, src)
			}
			if astOf(src, false) != astOf(src, true) {
				rewrote = true
			}
		}
		litSrc, _ := build("lit")
		rec.Case(rewrote && (nSide > 0 || nThrow > 0), "RW:"+litSrc)
		rec.Label("rewrites_" + form)
		rec.LabelIf(nSide > 0, "rewrites_with_side_effect_operand")
		rec.LabelIf(nThrow > 0, "rewrites_with_throwing_operand")
		rec.LabelIf(strings.HasPrefix(want, "String:\"EXC\""), "rewrites_result_exception")
		rec.LabelIf(rewrote, "rewrites_folder_rewrote")
		if rewrote && rec.WantSample("C30_rewrites_"+form) {
			rec.Sample("C30_rewrites_"+form, map[string]string{"lit": litSrc, "result(r n x i)": want})
		}
	})

	checkPropagation(t, rec)
}
