package compilex

// C31: displayed constants evaluate back to equal values; unterminated string
// literals are always errors.

import (
	"fmt"
	"strings"
	"testing"
	"time"

	"github.com/apmckinlay/gsuneido/compile"
	"github.com/apmckinlay/gsuneido/core"
	"github.com/apmckinlay/gsuneido/db19"
	"github.com/apmckinlay/gsuneido/db19/stor"
	_ "github.com/apmckinlay/gsuneido/dbms"
	qry "github.com/apmckinlay/gsuneido/dbms/query"
	"github.com/apmckinlay/gsuneido/util/dnum"
	"pgregory.net/rapid"
	"verifharness/internal/ev"
	"verifharness/internal/gen"
	"verifharness/internal/kf"
	"verifharness/internal/rt"
)

// pieces that look like escapes, quotes and awkward bytes
var strPieces = []string{"\\", "x", "4", "1", "0", "a", "f", "F", "g", "n", "t", "r", "\"", "'", "`",
	"\n", "\t", "\r", "\x00", "\xff", "\x80", "\x7f", "\x1f", "~", " ", "\\x", "\\\\", "#", "(", ")", ":", ","}

func genBytes(t *rapid.T, label string) string {
	switch gen.Weighted(t, label+"cls", []int{45, 25, 10, 10, 10}) {
	case 0:
		return strings.Join(rapid.SliceOfN(rapid.SampledFrom(strPieces), 0, 10).Draw(t, label+"pieces"), "")
	case 1:
		return string(rapid.SliceOfN(rapid.Byte(), 0, 40).Draw(t, label+"bytes"))
	case 2:
		return rapid.StringMatching(`[a-zA-Z_][a-zA-Z0-9_]{0,6}[?!]?`).Draw(t, label+"ident")
	case 3:
		return rapid.String().Draw(t, label+"utf8")
	default:
		return gen.Pick(t, label+"kw", []string{"", "true", "false", "function", "class", "is", "a b", "1", "-1", "1e3", "#", "a:", "0x10", "?", "!", "_", "default", "_a", "a?"})
	}
}

func strValue(t *rapid.T, label string) core.Value {
	return gen.StrAs(t, genBytes(t, label)).V
}

// sawExpMin is set when a decimal with the smallest exponent was drawn
// (finding dnum-string-exp-min); reset per case by the property.
var sawExpMin bool

func scalarValue(t *rapid.T, label string) (v core.Value, inf bool) {
	switch gen.Weighted(t, label+"k", []int{40, 25, 15, 10, 10}) {
	case 0:
		return strValue(t, label), false
	case 1:
		m := gen.NumMV().Draw(t, label+"num")
		if d, ok := m.V.(core.SuDnum); ok && m.Inf == 0 && !d.IsZero() && d.Exp() == -128 {
			sawExpMin = true
		}
		return m.V, m.Inf != 0
	case 2:
		return gen.DateMV().Draw(t, label+"date").V, false
	case 3:
		return core.SuBool(rapid.Bool().Draw(t, label+"b")), false
	default:
		// small numbers / decimals that display in unusual ways
		s := gen.Pick(t, label+"n", []string{"0", "-0", ".5", "-.5", "1e-7", "1e16", "1e17", "123456.789", "100000", "-100000", "1e5", "65536", "32768", "-32768"})
		return compile.Constant(s), false
	}
}

type objInfo struct {
	hasInf    bool
	f3key     bool // named key: integer-valued SuDnum outside the int16 range (C28 finding F3)
	nested    bool
	named     bool
	nonStrKey bool
	badKey    bool // member named "?", "!" or "_" (finding unquoted-key-not-identifier)
}

func containerValue(t *rapid.T, label string, depth int, info *objInfo) core.Value {
	isRec := gen.Chance(t, label+"rec", 30)
	var ob *core.SuObject
	var rec *core.SuRecord
	if isRec {
		rec = core.NewSuRecord()
	} else {
		ob = &core.SuObject{}
	}
	elem := func(l string) core.Value {
		if depth > 0 && gen.Chance(t, l+"nest", 22) {
			info.nested = true
			return containerValue(t, l, depth-1, info)
		}
		v, inf := scalarValue(t, l)
		info.hasInf = info.hasInf || inf
		return v
	}
	nl := gen.Weighted(t, label+"nl", []int{25, 30, 25, 15, 5})
	for i := 0; i < nl; i++ {
		v := elem(fmt.Sprintf("%sl%d", label, i))
		if isRec {
			rec.Add(v)
		} else {
			ob.Add(v)
		}
	}
	nn := gen.Weighted(t, label+"nn", []int{30, 30, 25, 15})
	for i := 0; i < nn; i++ {
		l := fmt.Sprintf("%sn%d", label, i)
		var k core.Value
		if isRec || gen.Chance(t, l+"strkey", 70) {
			ks := genBytes(t, l+"key")
			if ks == "?" || ks == "!" || ks == "_" {
				info.badKey = true
			}
			k = core.SuStr(ks)
		} else {
			var inf bool
			k, inf = scalarValue(t, l+"key")
			info.hasInf = info.hasInf || inf
			info.nonStrKey = true
			if ks, ok := k.ToStr(); ok && (ks == "?" || ks == "!" || ks == "_") {
				info.badKey = true
			}
			if d, ok := k.(core.SuDnum); ok {
				if n, ok := d.Dnum.ToInt64(); ok && (n < -32768 || n > 32767) {
					info.f3key = true
				}
			}
		}
		info.named = true
		v := elem(l)
		if isRec {
			rec.Set(k, v)
		} else {
			ob.Set(k, v)
		}
	}
	if isRec {
		return rec
	}
	return ob
}

func deepEqual(a, b core.Value) (eq bool) {
	defer func() {
		if e := recover(); e != nil {
			eq = false
		}
	}()
	if a == nil || b == nil {
		return false
	}
	// a record without named members displays as [..] which evaluates to an
	// object; the language treats them as equal, so that is accepted
	return a.Equal(b) && b.Equal(a)
}

// docLiteral writes s as a quoted literal using only the escapes documented
// in suneidoc/Language/Basic Data Types/String.md, choosing among the
// alternatives at random (an independent "display").
func docLiteral(t *rapid.T, s string) string {
	if !strings.Contains(s, "`") && gen.Chance(t, "raw", 20) {
		ok := true
		for i := 0; i < len(s); i++ {
			if s[i] == 0 {
				ok = false
			}
		}
		if ok {
			return "`" + s + "`"
		}
	}
	q := byte('"')
	if rapid.Bool().Draw(t, "single") {
		q = '\''
	}
	var sb strings.Builder
	sb.WriteByte(q)
	hex := func(c byte) {
		if rapid.Bool().Draw(t, "upper") {
			fmt.Fprintf(&sb, "\\x%02X", c)
		} else {
			fmt.Fprintf(&sb, "\\x%02x", c)
		}
	}
	for i := 0; i < len(s); i++ {
		c := s[i]
		alt := gen.Chance(t, fmt.Sprint("alt", i), 25)
		switch {
		case c == '\\':
			if alt {
				hex(c)
			} else {
				sb.WriteString(`\\`)
			}
		case c == q:
			if alt {
				hex(c)
			} else {
				sb.WriteByte('\\')
				sb.WriteByte(c)
			}
		case c == '"' || c == '\'':
			// the other kind of quote: plain or escaped, both documented
			if alt {
				sb.WriteByte('\\')
			}
			sb.WriteByte(c)
		case c == '\n' || c == '\t' || c == '\r':
			switch gen.Uniform(t, fmt.Sprint("ws", i), 3) {
			case 0:
				sb.WriteByte(c) // multi-line strings are allowed
			case 1:
				sb.WriteString(map[byte]string{'\n': `\n`, '\t': `\t`, '\r': `\r`}[c])
			default:
				hex(c)
			}
		case c < ' ' || c == 0x7f:
			hex(c)
		default:
			if alt {
				hex(c)
			} else {
				sb.WriteByte(c)
			}
		}
	}
	sb.WriteByte(q)
	return sb.String()
}

// unterminated literal bodies ------------------------------------------------

func untermBody(t *rapid.T, q byte) (body string, hasEsc bool) {
	if q == '`' {
		b := rapid.SliceOfN(rapid.SampledFrom([]string{"a", "b", " ", "\\", "\"", "'", "\n", "\\n", "x41", "\xff", "}", ")", "1"}), 0, 8).Draw(t, "rawbody")
		return strings.Join(b, ""), false
	}
	plain := []string{"a", "b", "c", " ", "1", "}", ")", ";", "\n", "\xff", "\x00", "x41", "n"}
	if q == '"' {
		plain = append(plain, "'", "`")
	} else {
		plain = append(plain, "\"", "`")
	}
	esc := []string{`\n`, `\t`, `\r`, `\x41`, `\x0a`, `\\`, `\` + string(q), `\q`, `\x4g`, `\0`}
	withEsc := rapid.Bool().Draw(t, "withesc")
	n := rapid.IntRange(0, 8).Draw(t, "nbody")
	var sb strings.Builder
	for i := 0; i < n; i++ {
		if withEsc && gen.Chance(t, fmt.Sprint("e", i), 40) {
			sb.WriteString(gen.Pick(t, fmt.Sprint("ep", i), esc))
			hasEsc = true
		} else {
			sb.WriteString(gen.Pick(t, fmt.Sprint("pp", i), plain))
		}
	}
	if withEsc && gen.Chance(t, "trailing", 15) {
		sb.WriteByte('\\') // a lone backslash right before the end of input
		hasEsc = true
	}
	return sb.String(), hasEsc
}

var c31db *db19.Database

func c31Tran() qry.QueryTran {
	if c31db == nil {
		db := db19.CreateDb(stor.HeapStor(8192))
		db19.StartConcur(db, 50*time.Millisecond)
		qry.DoAdmin(db, "create cus (n, s) key(n)", nil)
		c31db = db
	}
	return c31db.NewReadTran()
}

func parseQuery(q string) (r realRes) {
	defer func() {
		if e := recover(); e != nil {
			r = realRes{err: e, rterr: isRuntimeErr(e), compile: true}
		}
	}()
	x := qry.ParseQuery(q, c31Tran(), nil)
	return realRes{v: core.SuStr(qry.String(x))}
}

func evalString(s string) (r realRes) {
	defer func() {
		if e := recover(); e != nil {
			r = realRes{err: e, rterr: isRuntimeErr(e)}
		}
	}()
	return realRes{v: compile.EvalString(&core.Thread{}, s)}
}

func TestC31(t *testing.T) {
	curProp = "C31"
	rec := ev.New("C31", "rapid-generated constants: strings of arbitrary bytes (escape look-alikes, quotes, backslashes, control, high, NUL) as SuStr/SuConcat/SuExcept, numbers in every representation (no literal exists for +-inf: excluded), dates, timestamps, booleans, nested objects/records with unnamed and named members (string, number, date, boolean keys); compile.Constant(v.String()) and the quoted displays must equal v. Second oracle: the same string written with the escapes documented in String.md (random alternatives) must evaluate to it. Unterminated literals: generated prefixes with \" ' ` with and without escapes as constant, in an object, in a function, in an evaluated expression and in query where / extend must all be errors. Non-trivial: a value whose display needs an escape or is a container with named or nested members; an unterminated literal containing an escape; distinct = by displayed text / literal text.")
	rec.Assumptions = []string{
		"+-inf have no literal: containers holding them are excluded (counted)",
		"raw NUL and raw control bytes other than tab/newline/return are never written into the documented-escape literals (String.md documents \\xhh for them; `\\0` is documented but not implemented by the lexer and is not used)",
	}
	defer rec.Write()

	kfF3, kfF3ok := kf.Known("C31", "f3-dnum-key-hash")
	kfKey, kfKeyOK := kf.Known("C31", "unquoted-key-not-identifier")
	kfExp, kfExpOK := kf.Known("C31", "dnum-string-exp-min")

	rt.Check(t, rec, "display", 20000, 500000, func(t *rapid.T) {
		var v core.Value
		var info objInfo
		sawExpMin = false
		kind := gen.Weighted(t, "kind", []int{40, 20, 10, 30})
		switch kind {
		case 0:
			v = strValue(t, "s")
		case 1:
			var inf bool
			v, inf = scalarValue(t, "sc")
			info.hasInf = inf
		case 2:
			v = gen.DateMV().Draw(t, "d").V
		default:
			v = containerValue(t, "o", 3, &info)
		}
		if info.hasInf {
			rec.Case(false, "inf")
			rec.Label("excluded_inf_has_no_literal")
			return
		}
		if sawExpMin && kfExpOK {
			rec.Case(false, "expmin")
			rec.Excluded("dnum-string-exp-min")
			rec.Known(kfExp.What)
			return
		}
		if info.badKey && kfKeyOK {
			rec.Case(false, "badkey")
			rec.Excluded("unquoted-key-not-identifier")
			rec.Known(kfKey.What)
			return
		}
		if info.f3key && kfF3ok {
			rec.Case(false, "f3")
			rec.Excluded("f3-dnum-key-hash")
			rec.Known(kfF3.What)
			return
		}
		txt := v.String()
		check := func(what, text string) {
			r := compileConst(text)
			if r.rterr {
				t.Fatalf("Go runtime error compiling %s %q: %v", what, text, r.err)
			}
			if r.failed() {
				t.Fatalf("%s of %T does not compile: %s\n text: %s\n text (quoted): %q", what, v, errText(r.err), text, text)
			}
			if !deepEqual(r.v, v) {
				t.Fatalf("%s does not evaluate back to the value\n text: %s\n text (quoted): %q\n got:  %s (%T)\n want: %s (%T)", what, text, text, safeString(r.v), r.v, txt, v)
			}
		}
		check("String()", txt)
		if _, isStr := v.ToStr(); isStr {
			for q := 1; q <= 2; q++ {
				th := &core.Thread{}
				th.Quote = q
				if d, ok := v.(interface{ Display(*core.Thread) string }); ok {
					check(fmt.Sprintf("Display(quotes=%d)", q), d.Display(th))
				}
			}
			rec.Label("string_display")
		}
		nt := strings.ContainsAny(txt, "\\") || info.named || info.nested
		rec.Case(nt, txt)
		rec.Label(fmt.Sprintf("value_%T", v))
		rec.LabelIf(strings.Contains(txt, `\x`), "display_has_hex_escape")
		rec.LabelIf(strings.HasPrefix(txt, "`"), "display_backquoted")
		rec.LabelIf(info.nonStrKey, "container_non_string_key")
		rec.LabelIf(info.nested, "container_nested")
		if nt && rec.WantSample(fmt.Sprintf("C31_%T", v)) {
			rec.Sample(fmt.Sprintf("C31_%T", v), map[string]string{"display": txt})
		}
	})

	rt.Check(t, rec, "doc_escapes", 8000, 200000, func(t *rapid.T) {
		s := genBytes(t, "s")
		lit := docLiteral(t, s)
		r := compileConst(lit)
		if r.rterr {
			t.Fatalf("Go runtime error compiling %q: %v", lit, r.err)
		}
		if r.failed() {
			t.Fatalf("literal written with the documented escapes does not compile: %s\n literal (quoted): %q", errText(r.err), lit)
		}
		got, ok := r.v.ToStr()
		if !ok || got != s {
			t.Fatalf("literal written with the documented escapes evaluates to a different string\n literal (quoted): %q\n got:  %q\n want: %q", lit, got, s)
		}
		// and inside code
		r2 := compileAndCall("function () { return " + lit + " }")
		if r2.failed() {
			t.Fatalf("literal does not compile inside a function: %s\n literal (quoted): %q", errText(r2.err), lit)
		}
		if got2, ok := r2.v.ToStr(); !ok || got2 != s {
			t.Fatalf("literal inside a function evaluates to a different string\n literal (quoted): %q\n got:  %q\n want: %q", lit, got2, s)
		}
		rec.Case(strings.Contains(lit, `\`), lit)
		rec.LabelIf(strings.Contains(lit, `\x`), "doc_literal_hex")
		rec.LabelIf(lit[0] == '`', "doc_literal_raw")
	})

	kfF4, kfF4ok := kf.Known("C31", "unterminated-after-escape")
	rt.Check(t, rec, "unterminated", 5000, 100000, func(t *rapid.T) {
		q := gen.Pick(t, "q", []byte{'"', '\'', '`'})
		body, hasEsc := untermBody(t, q)
		lit := string(q) + body
		ctx := gen.Uniform(t, "ctx", 7)
		// F4: once a backslash has been seen, quotedString stops at end of
		// input and returns a String token. Where the literal is the last
		// token of an otherwise complete text this is silently accepted.
		f4class := hasEsc && (ctx == 0 || ctx == 4 || ctx == 5 || ctx == 6)
		if f4class && kfF4ok {
			rec.Case(false, lit)
			rec.Excluded("unterminated-after-escape")
			rec.Known(kfF4.What)
			return
		}
		var r realRes
		var text string
		switch ctx {
		case 0:
			text = lit
			r = compileConst(text)
		case 1:
			text = "#(1, a: " + lit
			r = compileConst(text)
		case 2:
			text = "function (p) { x = p $ " + lit
			r = compileConst(text)
		case 3:
			text = "x = 1; y = x $ " + lit
			r = evalString(text)
		case 4:
			text = "cus where s is " + lit
			r = parseQuery(text)
		case 5:
			text = "cus extend z = " + lit
			r = parseQuery(text)
		default:
			text = "cus where n > 1 and s =~ " + lit
			r = parseQuery(text)
		}
		if r.rterr {
			t.Fatalf("Go runtime error on unterminated literal: %v\n text (quoted): %q", r.err, text)
		}
		if !r.failed() {
			t.Fatalf("unterminated string literal accepted\n text (quoted): %q\n result: %s", text, r)
		}
		rec.Case(hasEsc, fmt.Sprint(ctx)+lit)
		rec.Label(fmt.Sprintf("unterminated_ctx%d", ctx))
		rec.Label("unterminated_quote_" + map[byte]string{'"': "double", '\'': "single", '`': "back"}[q])
		rec.LabelIf(hasEsc, "unterminated_with_escape")
		rec.LabelIf(strings.Contains(errText(r.err), "missing closing quote"), "reported_missing_closing_quote")
	})
	_ = dnum.Zero
}
