package compilex

// C32: lexer and parser are total and faithful to the source.
//
//   totality   raw bytes and byte-level mutations of valid programs (generated
//              block programs, expressions, constants, snippets of stdlib) are
//              given to compile.Constant (as constant and wrapped in a
//              function), to the query expression parser and to the lexer: a
//              Suneido compile error (panic with a string / SuExcept) is fine,
//              a Go runtime.Error is a violation; a fatal stack overflow kills
//              the process (the input is journaled first); an input that does
//              not return within 10 s, twice, is a violation (watchdog).
//   tiling     on every input: the first token starts at 0, every token starts
//              where the previous one ended, every token is non-empty, the
//              last one ends at len(src); the text of identifiers, keywords,
//              operators, whitespace and comments is the source slice.
//   faithful   token sequences generated from the documented lexical rules
//              (Names.md, Number.md, String.md, Comments.md, Whitespace.md,
//              Blocks.md `10.Times`) are rendered to text; the lexer must
//              return exactly those tokens at exactly those positions.

import (
	"bytes"
	"fmt"
	"os"
	"path/filepath"
	"regexp"
	"sort"
	"strings"
	"sync"
	"sync/atomic"
	"testing"
	"time"

	"github.com/apmckinlay/gsuneido/compile"
	"github.com/apmckinlay/gsuneido/compile/lexer"
	tok "github.com/apmckinlay/gsuneido/compile/tokens"
	"pgregory.net/rapid"
	"verifharness/internal/ev"
	"verifharness/internal/gen"
	"verifharness/internal/kf"
	"verifharness/internal/rt"
)

const maxInput = 4096

// ---------------------------------------------------------------- oracles

// lexTiling checks the position properties; returns "" or a description.
func lexTiling(src string) (msg string, ntok int) {
	defer func() {
		if e := recover(); e != nil {
			msg = fmt.Sprintf("lexer panicked: %v", e)
		}
	}()
	lx := lexer.NewLexer(src)
	for {
		before := lx.Position()
		it := lx.Next()
		after := lx.Position()
		if int(it.Pos) != before {
			return fmt.Sprintf("token %d (%v) reports Pos %d but the previous token ended at %d", ntok, it.Token, it.Pos, before), ntok
		}
		if it.Token == tok.Eof {
			if before != len(src) {
				return fmt.Sprintf("Eof at %d, input has %d bytes", before, len(src)), ntok
			}
			return "", ntok
		}
		ntok++
		if after <= before {
			return fmt.Sprintf("token %d (%v) at %d is empty (ends at %d)", ntok, it.Token, before, after), ntok
		}
		if after > len(src) {
			return fmt.Sprintf("token %d (%v) ends at %d beyond the input (%d)", ntok, it.Token, after, len(src)), ntok
		}
		slice := src[before:after]
		switch it.Token {
		case tok.String, tok.Error:
			// text is the value / a message
		case tok.Symbol:
			if "#"+it.Text != slice {
				return fmt.Sprintf("symbol text %q is not the source slice %q", it.Text, slice), ntok
			}
		case tok.Number:
			if strings.ReplaceAll(slice, "_", "") != it.Text {
				return fmt.Sprintf("number text %q is not the source slice %q", it.Text, slice), ntok
			}
		case tok.Identifier:
			if it.Text != slice && !(slice == "_" && it.Text == "unused") {
				return fmt.Sprintf("identifier text %q is not the source slice %q", it.Text, slice), ntok
			}
		default:
			if it.Text != slice {
				return fmt.Sprintf("token %v text %q is not the source slice %q", it.Token, it.Text, slice), ntok
			}
		}
		if ntok > len(src)+1 {
			return "more tokens than bytes", ntok
		}
	}
}

// parseTargets: every way the text is handed to the parser.
var parseTargets = []struct {
	name string
	f    func(src string)
}{
	{"constant", func(src string) { compile.Constant(src) }},
	{"function-body", func(src string) { compile.Constant("function () {\n" + src + "\n}") }},
	{"ast", func(src string) {
		p := compile.AstParser(src)
		p.Const()
	}},
	{"query-expression", func(src string) {
		// as dbms/query does it (queryParser.Expression)
		p := compile.QueryParser(src)
		p.InitFuncInfo()
		p.Expression()
	}},
}

// parseTotal runs one target; returns the Go runtime error if there was one.
func parseTotal(target int, src string) (rterr any, ok bool) {
	defer func() {
		if e := recover(); e != nil {
			if isRuntimeErr(e) {
				rterr = e
			}
		}
	}()
	parseTargets[target].f(src)
	return nil, true
}

// ---------------------------------------------------------------- watchdog + journal

type wdState struct {
	mu      sync.Mutex
	input   string
	target  int
	started time.Time
	seq     int64
}

var wd wdState
var wdOnce sync.Once
var wdFired atomic.Bool

func journalPath() string { return rt.ReplayOut("current_input.bin") }

// guarded runs f(input) under the hang watchdog. Deeply nested or long inputs
// are journaled first, so that a fatal stack overflow leaves the input behind.
func guarded(target int, input string, f func()) {
	wdOnce.Do(func() { go watchdog() })
	if len(input) > 1024 || strings.Count(input, "(")+strings.Count(input, "{")+strings.Count(input, "[") > 200 {
		os.WriteFile(journalPath(), []byte(input), 0o644)
	}
	wd.mu.Lock()
	wd.input, wd.target, wd.started = input, target, time.Now()
	wd.seq++
	wd.mu.Unlock()
	f()
	wd.mu.Lock()
	wd.input, wd.started = "", time.Time{}
	wd.seq++
	wd.mu.Unlock()
}

func watchdog() {
	for {
		time.Sleep(time.Second)
		wd.mu.Lock()
		in, target, st, seq := wd.input, wd.target, wd.started, wd.seq
		wd.mu.Unlock()
		if st.IsZero() || time.Since(st) < 10*time.Second {
			continue
		}
		// stuck for 10 s: confirm twice in fresh goroutines
		confirmed := 0
		for k := 0; k < 2; k++ {
			done := make(chan struct{})
			go func() {
				defer func() { recover(); close(done) }()
				if target < 0 {
					lexTiling(in)
				} else {
					parseTargets[target].f(in)
				}
			}()
			select {
			case <-done:
			case <-time.After(10 * time.Second):
				confirmed++
			}
		}
		wd.mu.Lock()
		still := wd.seq == seq
		wd.mu.Unlock()
		if confirmed == 2 && still {
			p := rt.ReplayOut("hang_input.bin")
			os.WriteFile(p, []byte(in), 0o644)
			fmt.Printf("VERIF-FAIL property=C32 sub=hang replay=%s\n", p)
			fmt.Printf("input (%d bytes, target %d) did not return within 10 s (confirmed twice): %q\n", len(in), target, clip(in, 300))
			wdFired.Store(true)
			os.Exit(1)
		}
	}
}

// checkInput applies every oracle to one input; returns "" or the violation.
func checkInput(src string) string {
	if len(src) > maxInput {
		src = src[:maxInput]
	}
	var msg string
	guarded(-1, src, func() { msg, _ = lexTiling(src) })
	if msg != "" {
		return "lexer: " + msg
	}
	for i := range parseTargets {
		var rterr any
		guarded(i, src, func() { rterr, _ = parseTotal(i, src) })
		if rterr != nil {
			if foldArithError(rterr) {
				if e, ok := kf.Known("C32", "folding-go-runtime-error"); ok {
					foldErr.n++
					foldErr.what = e.What
					continue
				}
			}
			if emptyMemberCrash(src, rterr) {
				if e, ok := kf.Known("C32", "class-empty-member-name"); ok {
					emptyMember.n++
					emptyMember.what = e.What
					continue
				}
			}
			return fmt.Sprintf("%s: Go runtime error: %v", parseTargets[i].name, rterr)
		}
	}
	return ""
}

// foldErr counts inputs excluded because of finding folding-go-runtime-error.
var foldErr struct {
	n    int
	what string
}

// emptyMember counts inputs excluded because of finding class-empty-member-name.
var emptyMember struct {
	n    int
	what string
}

var rxEmptyName = regexp.MustCompile("(''|\"\"|``)\\s*:")

func emptyMemberCrash(src string, e any) bool {
	return fmt.Sprint(e) == "runtime error: index out of range [0] with length 0" && rxEmptyName.MatchString(src)
}

func foldArithError(e any) bool {
	s := fmt.Sprint(e)
	return s == "runtime error: negative shift amount" || s == "runtime error: integer divide by zero"
}

// ---------------------------------------------------------------- inputs

var stdlibOnce sync.Once
var stdlibSnips []string

// stdlibSnippets loads a fixed sample of /repo/stdlib/**/*.ss (sorted, every
// k-th file, <= 4 KB each): valid library records used as mutation seeds.
func stdlibSnippets() []string {
	stdlibOnce.Do(func() {
		root := os.Getenv("VERIF_REPO")
		if root == "" {
			root = "/repo"
		}
		var files []string
		filepath.Walk(filepath.Join(root, "stdlib"), func(p string, info os.FileInfo, err error) error {
			if err == nil && !info.IsDir() && strings.HasSuffix(p, ".ss") && info.Size() > 40 && info.Size() <= maxInput {
				files = append(files, p)
			}
			return nil
		})
		sort.Strings(files)
		step := len(files)/120 + 1
		for i := 0; i < len(files); i += step {
			if b, err := os.ReadFile(files[i]); err == nil {
				stdlibSnips = append(stdlibSnips, string(b))
			}
		}
	})
	return stdlibSnips
}

var seedTexts = []string{
	`function (a, b = 1) { return a + b }`,
	`class { New(.x) { } Get() { return .x } }`,
	`#(1, 2, a: 3, b: #(4, "five", #20200101))`,
	`function () { for (i = 0; i < 10; ++i) { if i % 2 is 0 { continue } x = { |y| y * i }; try x(i) catch (e, "*err") { throw e } } }`,
	`function (@args) { switch args[0] { case 1, 2: return "a" default: return args.Map({ it $ 'x' }) } }`,
	"function () {\n\t// comment\r\n\t/* span */ s = `raw` $ 'q' $ \"d\\x41\\n\"\n\treturn s[1 .. 2] $ s[::1] =~ '^a'\n}",
	`function () { a = b ? c : d; e = f is g or h isnt i and not j; k |= 0xff << 2; return a in (1, 2, 3) }`,
	`[a: 1, b: [c: 2]]`,
	`x > 1 and x < 5 or name =~ "^a" and d >= #20200101`,
	`-123.456e-7`,
	`Name { X: 1, "y z": 2, F() { return .X } }`,
	`function () { f = function () { return 1, 2, 3 }; a, b, c = f(); x, y = ob.Split(2); return a + b + c + x + y }`,
	`class { F() { a, b = .G(); return a $ b } G() { return 1, 2 } }`,
	`function (ob) { for m, v in ob { b = {|x, y| p, q = x(y); p + q }; try b(m, v) catch (e, "x") { r, s = g() } } }`,
	`function () { a, b.c = f(); a, b[0] = f(); a, b, .c = f(); a, (b) = f(); a, B = f(); a, b += f(); a, b = 5 }`,
}

var mutTokens = []string{"'': ", "\"\": 1", ", b.c = f()", "a, b[0] = f();", ", .c = f()", "a, b = ", ", this = f()", "(", ")", "{", "}", "[", "]", "\"", "'", "`", "\\", "#", "/*", "*/", "//", "\n", "\r\n", "\x00", "\xff",
	"0x", "1e", "1_", "_1", "..", "::", ".5.", "9999999999999999999999", "function", "class", "catch", "switch", "case", "|", "||", "@", "? :", "++", "--", "=", "$=", "\x80\x81", "é", "\t"}

func mutate(t *rapid.T, src string) string {
	b := []byte(src)
	n := 1 + gen.Weighted(t, "nmut", []int{50, 30, 15, 5})
	for k := 0; k < n; k++ {
		if len(b) == 0 {
			b = append(b, gen.Pick(t, fmt.Sprint("ins0_", k), mutTokens)...)
			continue
		}
		pos := rapid.IntRange(0, len(b)).Draw(t, fmt.Sprint("pos", k))
		switch gen.Uniform(t, fmt.Sprint("mut", k), 9) {
		case 0: // truncate
			b = b[:pos]
		case 1: // delete a bracket / quote
			if i := bytes.IndexAny(b[min(pos, len(b)-1):], "(){}[]\"'`"); i >= 0 {
				i += min(pos, len(b)-1)
				b = append(b[:i:i], b[i+1:]...)
			}
		case 2: // duplicate a bracket / quote
			if i := bytes.IndexAny(b[min(pos, len(b)-1):], "(){}[]\"'`"); i >= 0 {
				i += min(pos, len(b)-1)
				b = append(b[:i+1:i+1], b[i:]...)
			}
		case 3: // splice a token
			tk := gen.Pick(t, fmt.Sprint("tk", k), mutTokens)
			b = append(b[:pos:pos], append([]byte(tk), b[pos:]...)...)
		case 4: // overwrite a byte
			if pos < len(b) {
				b[pos] = rapid.Byte().Draw(t, fmt.Sprint("byte", k))
			}
		case 5: // delete a range
			end := min(len(b), pos+rapid.IntRange(1, 20).Draw(t, fmt.Sprint("len", k)))
			b = append(b[:pos:pos], b[end:]...)
		case 6: // duplicate a range
			end := min(len(b), pos+rapid.IntRange(1, 30).Draw(t, fmt.Sprint("len", k)))
			seg := append([]byte{}, b[pos:end]...)
			b = append(b[:end:end], append(seg, b[end:]...)...)
		case 7: // deep nesting
			d := rapid.IntRange(1, 300).Draw(t, fmt.Sprint("depth", k))
			open := gen.Pick(t, fmt.Sprint("open", k), []string{"(", "{", "[", "#(", "-", "not ", "x ? ", "{|a| ", "function () { "})
			b = append(b[:pos:pos], append([]byte(strings.Repeat(open, d)), b[pos:]...)...)
		default: // swap two bytes
			if len(b) >= 2 {
				q := rapid.IntRange(0, len(b)-1).Draw(t, fmt.Sprint("q", k))
				p := min(pos, len(b)-1)
				b[p], b[q] = b[q], b[p]
			}
		}
		if len(b) > maxInput {
			b = b[:maxInput]
		}
	}
	return string(b)
}

// ---------------------------------------------------------------- faithful token sequences

type xtok struct {
	tok  tok.Token
	text string // source text
	val  string // expected Item.Text ("" = do not check)
	kind byte   // i ident, k keyword, n number, s string, y symbol, o operator, b bracket, w whitespace, l newline, c line comment, C span comment, d dot
}

var opTable = []struct {
	s string
	t tok.Token
}{
	{"+", tok.Add}, {"-", tok.Sub}, {"*", tok.Mul}, {"/", tok.Div}, {"%", tok.Mod}, {"$", tok.Cat}, {"=", tok.Eq},
	{"+=", tok.AddEq}, {"-=", tok.SubEq}, {"$=", tok.CatEq}, {"*=", tok.MulEq}, {"/=", tok.DivEq}, {"%=", tok.ModEq},
	{"<<", tok.LShift}, {">>", tok.RShift}, {"<<=", tok.LShiftEq}, {">>=", tok.RShiftEq},
	{"|", tok.BitOr}, {"&", tok.BitAnd}, {"^", tok.BitXor}, {"|=", tok.BitOrEq}, {"&=", tok.BitAndEq}, {"^=", tok.BitXorEq},
	{"~", tok.BitNot}, {"<", tok.Lt}, {"<=", tok.Lte}, {">", tok.Gt}, {">=", tok.Gte}, {"=~", tok.Match}, {"!~", tok.MatchNot},
	{"<>", tok.Isnt}, {"!=", tok.Isnt}, {"++", tok.Inc}, {"--", tok.Dec}, {"?", tok.QMark}, {":", tok.Colon}, {"::", tok.RangeLen},
	{"..", tok.RangeTo}, {"@", tok.At}, {"|>", tok.Pipe},
}

var bracketTable = []struct {
	s string
	t tok.Token
}{
	{"(", tok.LParen}, {")", tok.RParen}, {"[", tok.LBracket}, {"]", tok.RBracket}, {"{", tok.LCurly}, {"}", tok.RCurly}, {",", tok.Comma}, {";", tok.Semicolon},
}

var kwTable = []struct {
	s string
	t tok.Token
}{
	{"if", tok.If}, {"else", tok.Else}, {"while", tok.While}, {"for", tok.For}, {"forever", tok.Forever}, {"do", tok.Do},
	{"return", tok.Return}, {"function", tok.Function}, {"class", tok.Class}, {"is", tok.Is}, {"isnt", tok.Isnt},
	{"and", tok.And}, {"or", tok.Or}, {"not", tok.Not}, {"in", tok.In}, {"true", tok.True}, {"false", tok.False},
	{"try", tok.Try}, {"catch", tok.Catch}, {"throw", tok.Throw}, {"switch", tok.Switch}, {"case", tok.Case}, {"default", tok.Default},
	{"break", tok.Break}, {"continue", tok.Continue}, {"new", tok.New}, {"this", tok.This}, {"super", tok.Super},
}

func isKeyword(s string) bool {
	for _, k := range kwTable {
		if k.s == s {
			return true
		}
	}
	return false
}

// starSlash counts span comments whose body was changed because of the known
// finding span-comment-reuses-star (reported by the property after the draw).
var starSlash struct {
	excluded int
	what     string
}

func genIdent(t *rapid.T, label string) string {
	for {
		s := rapid.StringMatching(`[a-zA-Z][a-zA-Z0-9_]{0,6}[?!]?`).Draw(t, label)
		if !isKeyword(s) {
			return s
		}
	}
}

func genNumberText(t *rapid.T, label string) string {
	switch gen.Uniform(t, label+"cls", 5) {
	case 0:
		return rapid.StringMatching(`[0-9]{1,12}`).Draw(t, label)
	case 1:
		return rapid.StringMatching(`[0-9]{1,6}\.[0-9]{1,6}`).Draw(t, label)
	case 2:
		return rapid.StringMatching(`\.[0-9]{1,6}`).Draw(t, label)
	case 3:
		return rapid.StringMatching(`[0-9]{1,4}(\.[0-9]{1,3})?[eE][+-]?[0-9]{1,2}`).Draw(t, label)
	default:
		return rapid.StringMatching(`0x[0-9a-fA-F]{1,8}`).Draw(t, label)
	}
}

// genTokens draws a token sequence in which adjacent tokens cannot merge.
func genTokens(t *rapid.T) []xtok {
	n := rapid.IntRange(1, 40).Draw(t, "ntok")
	var r []xtok
	last := byte(0)
	for len(r) < n {
		l := fmt.Sprint("t", len(r))
		// what may follow what:
		//  ident/keyword/number/symbol: not ident/keyword/number/symbol, not dot-number; after number no dot except the `10.Times` form
		//  operator: only whitespace / newline / bracket-free things are safe -> whitespace
		//  whitespace/newline: anything but whitespace/newline
		//  line comment: newline (or end)
		var allowed []int
		const (
			cIdent = iota
			cKeyword
			cNumber
			cString
			cSymbol
			cOp
			cBracket
			cWs
			cNl
			cLineComment
			cSpanComment
			cMethodCall // number "." ident
		)
		switch last {
		case 'i', 'k', 'n', 'y':
			allowed = []int{cString, cBracket, cWs, cNl, cBracket, cWs}
		case 'o', 'd':
			allowed = []int{cWs, cNl}
		case 'w', 'l':
			allowed = []int{cIdent, cKeyword, cNumber, cString, cSymbol, cOp, cBracket, cLineComment, cSpanComment, cMethodCall, cIdent, cNumber}
		case 'c':
			allowed = []int{cNl}
		case 's':
			allowed = []int{cIdent, cKeyword, cNumber, cSymbol, cBracket, cWs, cNl, cOp}
		case 'C':
			allowed = []int{cIdent, cNumber, cString, cBracket, cWs, cNl, cSymbol}
		default: // start or bracket
			allowed = []int{cIdent, cKeyword, cNumber, cString, cSymbol, cBracket, cWs, cNl, cLineComment, cSpanComment, cMethodCall, cOp}
		}
		switch allowed[gen.Uniform(t, l+"c", len(allowed))] {
		case cIdent:
			s := genIdent(t, l)
			r = append(r, xtok{tok.Identifier, s, s, 'i'})
			last = 'i'
		case cKeyword:
			k := kwTable[gen.Uniform(t, l+"kw", len(kwTable))]
			r = append(r, xtok{k.t, k.s, k.s, 'k'})
			last = 'k'
		case cNumber:
			s := genNumberText(t, l)
			r = append(r, xtok{tok.Number, s, s, 'n'})
			last = 'n'
		case cString:
			q := gen.Pick(t, l+"q", []string{"\"", "'", "`"})
			body := rapid.StringMatching(`[a-z A-Z0-9_.,;:(){}#/*+-]{0,10}`).Draw(t, l+"body")
			if q != "`" && gen.Chance(t, l+"nl", 15) {
				body += "\n" + "x" // multi-line strings are allowed
			}
			r = append(r, xtok{tok.String, q + body + q, body, 's'})
			last = 's'
			if body == "" {
				r[len(r)-1].val = "\x00empty"
			}
		case cSymbol:
			s := genIdent(t, l)
			r = append(r, xtok{tok.Symbol, "#" + s, s, 'y'})
			last = 'y'
		case cOp:
			o := opTable[gen.Uniform(t, l+"op", len(opTable))]
			r = append(r, xtok{o.t, o.s, o.s, 'o'})
			last = 'o'
		case cBracket:
			b := bracketTable[gen.Uniform(t, l+"br", len(bracketTable))]
			r = append(r, xtok{b.t, b.s, b.s, 'b'})
			last = 'b'
		case cWs:
			s := gen.Pick(t, l+"ws", []string{" ", "  ", "\t", " \t "})
			r = append(r, xtok{tok.Whitespace, s, s, 'w'})
			last = 'w'
		case cNl:
			nls := []string{"\n", "\r\n", "\n\t", "\r\n\r\n  ", " \n", "\r"}
			if last == 'c' {
				// a line comment runs to the end of the line: the next token
				// must begin with the line terminator
				nls = nls[:4]
			}
			s := gen.Pick(t, l+"nl", nls)
			r = append(r, xtok{tok.Newline, s, s, 'l'})
			last = 'l'
		case cLineComment:
			s := "//" + rapid.StringMatching(`[a-z /*"'#0-9]{0,12}`).Draw(t, l+"cm")
			r = append(r, xtok{tok.Comment, s, s, 'c'})
			last = 'c'
		case cSpanComment:
			body := rapid.StringMatching(`[a-z /"'#0-9\n]{0,12}`).Draw(t, l+"cm")
			if strings.HasPrefix(body, "/") {
				if e, ok := kf.Known("C32", "span-comment-reuses-star"); ok {
					starSlash.excluded++
					starSlash.what = e.What
					body = " " + body
				}
			}
			s := "/*" + body + "*/"
			r = append(r, xtok{tok.Comment, s, s, 'C'})
			last = 'C'
		case cMethodCall:
			num := rapid.StringMatching(`[0-9]{1,5}`).Draw(t, l+"num")
			id := genIdent(t, l+"id")
			for id[0] == 'e' || id[0] == 'E' {
				// `12.e5` is a number with an exponent
				id = genIdent(t, l+"id")
			}
			r = append(r, xtok{tok.Number, num, num, 'n'}, xtok{tok.Dot, ".", ".", 'd'}, xtok{tok.Identifier, id, id, 'i'})
			last = 'i'
		}
	}
	return r
}

func lexAll(src string) (items []lexer.Item, ends []int, perr any) {
	defer func() {
		if e := recover(); e != nil {
			perr = e
		}
	}()
	lx := lexer.NewLexer(src)
	for {
		it := lx.Next()
		if it.Token == tok.Eof {
			return
		}
		items = append(items, it)
		ends = append(ends, lx.Position())
		if len(items) > len(src)+1 {
			return
		}
	}
}

// checkFaithful compares the lexer's output with the generated tokens.
func checkFaithful(toks []xtok) string {
	var sb strings.Builder
	for _, x := range toks {
		sb.WriteString(x.text)
	}
	src := sb.String()
	items, ends, perr := lexAll(src)
	if perr != nil {
		return fmt.Sprintf("lexer panicked: %v on %q", perr, src)
	}
	pos := 0
	for i, x := range toks {
		if i >= len(items) {
			return fmt.Sprintf("lexer returned %d tokens, expected %d; source %q", len(items), len(toks), src)
		}
		it := items[i]
		if it.Token != x.tok || int(it.Pos) != pos || ends[i] != pos+len(x.text) {
			return fmt.Sprintf("token %d: expected %v %q at [%d,%d), lexer gave %v %q at [%d,%d); source %q",
				i, x.tok, x.text, pos, pos+len(x.text), it.Token, it.Text, it.Pos, ends[i], src)
		}
		want := x.val
		if want == "\x00empty" {
			want = ""
		}
		if it.Text != want {
			return fmt.Sprintf("token %d (%v): text %q, expected %q; source %q", i, x.tok, it.Text, want, src)
		}
		pos += len(x.text)
	}
	if len(items) != len(toks) {
		return fmt.Sprintf("lexer returned %d tokens, expected %d; source %q", len(items), len(toks), src)
	}
	return ""
}

// ---------------------------------------------------------------- the test

func TestC32(t *testing.T) {
	curProp = "C32"
	rec := ev.New("C32", "inputs <= 4 KB: (a) raw bytes (uniform bytes, token soup), (b) valid texts (generated block programs, generated expressions, fixed seeds, a sample of stdlib/**/*.ss records) with 1-4 byte-level mutations (truncate, delete/duplicate a bracket or quote, splice a token / number fragment / NUL / 0xff, overwrite, delete or duplicate a range, deep nesting up to 300, swap); each is lexed (position tiling + text fidelity) and parsed as constant, as function body, by the AST parser and by the query expression parser: Go runtime errors, hangs (10 s watchdog, confirmed twice) and crashes are violations. (c) token sequences generated from the documented lexical rules must be returned exactly (kinds, positions, texts). Non-trivial: an input on which at least one parse target gets past the lexer without error or fails with a syntax error after >= 5 tokens (not rejected at the first token); a faithful sequence with >= 5 tokens; distinct = by input text.")
	rec.Assumptions = []string{
		"a hang is judged with a wall-clock watchdog (10 s, re-run twice in fresh goroutines); everything else is bounded by case count and input size",
		"faithful sequences only contain adjacent tokens whose boundaries the documentation fixes (operators are followed by whitespace; numbers are not followed by letters, digits, '_' or '.', except the documented `10.Times` form)",
	}
	defer rec.Write()

	if p := os.Getenv("VERIF_REPLAY"); p != "" && !strings.HasSuffix(p, ".fail") {
		b, err := os.ReadFile(p)
		if err != nil {
			t.Fatalf("replay: %v", err)
		}
		if msg := checkInput(string(b)); msg != "" {
			rt.Fail(t, rec, "replay", p, msg)
		}
		rec.Case(true, string(b))
		return
	}

	judge := func(t *rapid.T, class, src string) {
		foldErr.n, emptyMember.n = 0, 0
		if msg := checkInput(src); msg != "" {
			t.Fatalf("%s\ninput class %s, %d bytes (quoted): %q", msg, class, len(src), src)
		}
		if emptyMember.n > 0 {
			rec.Excluded("class-empty-member-name")
			rec.Known(emptyMember.what)
		}
		if foldErr.n > 0 {
			rec.Excluded("folding-go-runtime-error")
			rec.Known(foldErr.what)
		}
		_, ntok := lexTiling(src)
		// how far does the parser get? (labels only)
		okTargets := 0
		for i := range parseTargets {
			if _, ok := parseTotal(i, src); ok {
				okTargets++
			}
		}
		rec.Case(ntok >= 5, src)
		rec.Label("input_" + class)
		rec.LabelIf(okTargets > 0, "accepted_by_some_target")
		rec.LabelIf(okTargets == 0, "rejected_by_all_targets")
		rec.LabelIf(len(src) > 1000, "input>1000_bytes")
		if rec.WantSample("C32_" + class) {
			rec.Sample("C32_"+class, map[string]any{"input": clip(src, 300), "tokens": ntok, "accepted_by": okTargets})
		}
	}

	rt.Check(t, rec, "raw", 5000, 60000, func(t *rapid.T) {
		var src string
		if rapid.Bool().Draw(t, "soup") {
			src = strings.Join(rapid.SliceOfN(rapid.SampledFrom(append(append([]string{}, mutTokens...), "a", "x1", " ", "1", "2.5", "\"s\"", "'c'", "is", "if", "{|a|", "return", ".", ",", ";", ":", "<", ">", "&", "%", "~", "!", "^", "*", "+", "-")), 0, 60).Draw(t, "soup"), "")
			judge(t, "token_soup", src)
			return
		}
		n := rapid.IntRange(0, 300).Draw(t, "n")
		if gen.Chance(t, "long", 3) {
			n = rapid.IntRange(300, maxInput).Draw(t, "nlong")
		}
		src = string(rapid.SliceOfN(rapid.Byte(), n, n).Draw(t, "bytes"))
		judge(t, "raw_bytes", src)
	})

	rt.Check(t, rec, "mutated", 13000, 120000, func(t *rapid.T) {
		var src, class string
		switch gen.Weighted(t, "seedcls", []int{30, 15, 15, 40}) {
		case 0:
			src, class = renderProgram(genProgram(t)), "mutated_block_program"
		case 1:
			g := &egen{t: t}
			e := g.anyExpr(3)
			src = "function () { " + renderCx(e, func(i int) string { return litText(g.consts[i]) }) + " }"
			class = "mutated_expression"
		case 2:
			src, class = gen.Pick(t, "seed", seedTexts), "mutated_seed"
		default:
			sn := stdlibSnippets()
			if len(sn) == 0 {
				src, class = gen.Pick(t, "seed", seedTexts), "mutated_seed"
			} else {
				src, class = sn[gen.Uniform(t, "snip", len(sn))], "mutated_stdlib"
			}
		}
		if gen.Chance(t, "nomut", 5) {
			judge(t, strings.Replace(class, "mutated_", "valid_", 1), src)
			return
		}
		judge(t, class, mutate(t, src))
	})

	// constructs: structured statements / declarations assembled from valid and
	// invalid alternatives in every position (the places where the parser does
	// type assertions on parsed sub-expressions or expects a particular node:
	// multiple assignment targets, for-in / catch / block / function
	// parameters, class member names, lvalues of = ++ +=, case / in lists,
	// object constant members), in several contexts.
	rt.Check(t, rec, "constructs", 6000, 80000, func(t *rapid.T) {
		n := 0
		pick := func(xs ...string) string { n++; return gen.Pick(t, fmt.Sprint("p", n), xs) }
		target := func() string {
			return pick("a", "b", "c", "x", "b.c", "b[0]", "b[1 .. 2]", ".c", "G", "5", `"s"`, "this", "super", "(a)", "f()", "#(1)", "a b", "-a", "a.b.c", "b[i]", "{ a }", "_", "a?", "@a", "")
		}
		local := func() string { return pick("a", "b", "c", "x", "y") }
		rhs := func() string {
			return pick("f()", "f()", "ob.M(1)", "g(a, b)", "x", "5", "", "f", "f() + 1", "(f())", "function () { return 1, 2 }()", "{ 1 }()", "f() g()", "new C()", "x.y")
		}
		var body, family string
		switch gen.Uniform(t, "family", 10) {
		case 0, 1:
			family = "multi_assign"
			k := 2 + gen.Uniform(t, "k", 3)
			var ts []string
			allLocal := gen.Chance(t, "valid", 35)
			for i := 0; i < k; i++ {
				if allLocal {
					ts = append(ts, local())
				} else {
					ts = append(ts, target())
				}
			}
			op := pick("=", "=", "=", "+=", "$=", "is", "==", "")
			body = strings.Join(ts, pick(", ", ", ", ",", " , ", " ")) + " " + op + " " + rhs()
			if gen.Chance(t, "more", 30) {
				body = pick("x = 1; ", "f = function () { return 1, 2 }\n", "if a ") + body + pick("", "; return a", "\nb", " + 1")
			}
		case 2:
			family = "for_in"
			body = "for " + pick("", "(") + target() + pick("", ", "+target(), ", "+local()) + " in " + pick("ob", "0..n", "..n", "", "#(1, 2)", "a = b", "f()") + pick("", ")") + " " + pick("{ s += 1 }", "s += 1", "{ }", "")
		case 3:
			family = "catch"
			body = "try " + pick("f()", "{ f() }", "", "throw 1") + " catch " + pick("", "("+target()+")", "("+target()+", "+pick(`"x"`, "5", "p", `"*a|b"`, "")+")", "(e, \"x\", 1)", "()") + " " + pick("{ r = 1 }", "r = 1", "", "{")
		case 4:
			family = "block_params"
			body = "b = {|" + pick(target(), local()+", "+target(), "@"+local(), "@a, b", "a, a", "a = 1", "", "a,", ".a", "_x") + "| " + pick("a", "return a", "break", "") + " }" + pick("", "; b(1)", "()")
		case 5:
			family = "function_params"
			body = "g = function (" + pick(target(), local()+", "+target(), "@a", "@a, b", "a = 1", "a = f()", "a = b", "a = 1, b", ".x", "a, a", "_a", "a = #(1)", "a = -1", "a = 'x'", "a: string", "a:") + ") " + pick("{ a }", "{ }", "", "{ return 1, 2 }", "{ return 1, }") + pick("", "; g(1)")
		case 6:
			family = "lvalues"
			body = pick("++", "--", "", "") + target() + pick("++", "--", " = 1", " += 1", " $= 's'", " = b = c", " <<= 1", " |= 1", "", " = ") + pick("", "; a")
		case 7:
			family = "class_members"
			m := func() string {
				return pick("X", "x", `"s"`, "'q'", "5", "-1", "#20200101", "true", "#sym", "", "a.b", "X()", "New", "Default", "Getter_X", "getter_x", "super", "this", "1.5", "X:") + pick(": ", ":", " : ", "", " ") +
					pick("1", `"v"`, "function () { }", "class { }", "#(1)", "", "x", "-", "f()", "function (.a) { }", "function () { super.X() }", "function () { .x = 1; return this }")
			}
			body = pick("class", "class : Base", "Base", "class : 5", "class :") + " { " + m() + pick(" ", ", ", "; ", "\n") + m() + pick("", " F() { return .x } ", " New(.a) { super(1) } ", " F() { a, b.c = f() } ", " F() { a, b = .G() } ") + " }"
		case 8:
			family = "switch_case_in"
			body = pick("switch a {", "switch {", "switch (a) {", "switch a") + " " + pick("case 1: x = 1", "case 1, 2: x", "case: x", "case 1 x", "default: x", "case a, : x", "case 1: case 2:", "") + " " + pick("default: y", "default y", "", "case 1:") + pick(" }", "", " } }") + pick("", "; r = a in (1, 2)", "; r = a in (1, 2", "; r = a in b", "; r = a not in (1)", "; r = a in ()")
		default:
			family = "object_constants"
			body = "x = " + pick("#(", "#{", "#[", "[", "Object(") + pick("1, 2", "a: 1", "a: b: 1", "1:", "a:", ": 1", "-1: 2", "a: -", "#20200101: 1", "a: #(b: [c: 1])", "'s': x", "1, a: 2, 3", "a: function () { }", "a: class { }", "f()", "1 2") + pick(")", "}", "]", "", "))")
		}
		var src string
		switch gen.Uniform(t, "ctx", 6) {
		case 0:
			src = "function (ob, n) { " + body + " }"
		case 1:
			src = "function (ob, n) {\n" + body + "\n}"
		case 2:
			src = "function () { b = { " + body + " }; b() }"
		case 3:
			src = "class { F(ob, n) { " + body + " } }"
		case 4:
			src = "function () { if x { for i in ..3 { try { " + body + " } catch (e) { } } } }"
		default:
			src = "function () { g = function () { " + body + " }; g() }"
		}
		if family == "class_members" && gen.Chance(t, "bare", 60) {
			src = body
		}
		judge(t, "construct_"+family, src)
	})

	rt.Check(t, rec, "faithful", 4000, 60000, func(t *rapid.T) {
		starSlash.excluded = 0
		toks := genTokens(t)
		if starSlash.excluded > 0 {
			rec.Excluded("span-comment-reuses-star")
			rec.Known(starSlash.what)
		}
		if msg := checkFaithful(toks); msg != "" {
			t.Fatalf("lexer is not faithful to the source: %s", msg)
		}
		var sb strings.Builder
		for _, x := range toks {
			sb.WriteString(x.text)
		}
		rec.Case(len(toks) >= 5, "F:"+sb.String())
		for _, x := range toks {
			switch x.kind {
			case 'c':
				rec.Label("faithful_line_comment")
			case 'n':
				rec.Label("faithful_number")
			case 'd':
				rec.Label("faithful_number_dot_ident")
			}
		}
	})
	rec.Set("stdlib_snippets", len(stdlibSnippets()))
}

// ---------------------------------------------------------------- native fuzz (thorough tier)

func fuzzSeeds(f *testing.F) {
	for _, s := range seedTexts {
		f.Add([]byte(s))
	}
	sn := stdlibSnippets()
	for i := 0; i < len(sn) && i < 40; i++ {
		f.Add([]byte(sn[i]))
	}
}

// FuzzC32Parse: coverage-guided search for inputs that crash the parser.
func FuzzC32Parse(f *testing.F) {
	fuzzSeeds(f)
	f.Fuzz(func(t *testing.T, b []byte) {
		if len(b) > maxInput {
			return
		}
		src := string(b)
		for i := range parseTargets {
			if rterr, _ := parseTotal(i, src); rterr != nil {
				if _, ok := kf.Known("C32", "folding-go-runtime-error"); ok && foldArithError(rterr) {
					continue
				}
				if _, ok := kf.Known("C32", "class-empty-member-name"); ok && emptyMemberCrash(src, rterr) {
					continue
				}
				t.Fatalf("%s: Go runtime error: %v\ninput (quoted): %q", parseTargets[i].name, rterr, src)
			}
		}
	})
}

// FuzzC32Lex: coverage-guided search for inputs on which the token spans do not tile.
func FuzzC32Lex(f *testing.F) {
	fuzzSeeds(f)
	f.Fuzz(func(t *testing.T, b []byte) {
		if len(b) > maxInput {
			return
		}
		if msg, _ := lexTiling(string(b)); msg != "" {
			t.Fatalf("%s\ninput (quoted): %q", msg, string(b))
		}
	})
}
