package compilex

import (
	"fmt"
	"runtime"
	"strings"

	_ "github.com/apmckinlay/gsuneido/builtin"
	"github.com/apmckinlay/gsuneido/compile"
	"github.com/apmckinlay/gsuneido/core"
)

// errText renders whatever the compiler / interpreter panicked with.
func errText(e any) string {
	switch x := e.(type) {
	case nil:
		return ""
	case *core.SuExcept:
		return string(x.SuStr)
	case core.SuStr:
		return string(x)
	case error:
		return x.Error()
	case string:
		return x
	case core.Value:
		return x.String()
	}
	return fmt.Sprint(e)
}

// result of compiling / running something with the real implementation
type realRes struct {
	v       core.Value
	err     any  // panic value (nil if none)
	rterr   bool // the panic was a Go runtime.Error
	compile bool // the panic happened while compiling
}

func (r realRes) failed() bool { return r.err != nil }

func (r realRes) String() string {
	if r.err != nil {
		stage := "run"
		if r.compile {
			stage = "compile"
		}
		return fmt.Sprintf("%s-error(%s)", stage, errText(r.err))
	}
	if r.v == nil {
		return "nil"
	}
	return safeString(r.v)
}

func safeString(v core.Value) (s string) {
	defer func() {
		if e := recover(); e != nil {
			s = fmt.Sprintf("<String() panicked: %v>", e)
		}
	}()
	return v.String()
}

func isRuntimeErr(e any) bool {
	_, ok := e.(runtime.Error)
	return ok
}

// compileConst compiles src as a Suneido constant, catching the panic.
func compileConst(src string) (r realRes) {
	defer func() {
		if e := recover(); e != nil {
			r = realRes{err: e, rterr: isRuntimeErr(e), compile: true}
		}
	}()
	return realRes{v: compile.Constant(src)}
}

// callFn calls a compiled function on a fresh thread, catching the panic.
func callFn(fn core.Value, args ...core.Value) (r realRes) {
	th := &core.Thread{}
	defer func() {
		if e := recover(); e != nil {
			r = realRes{err: e, rterr: isRuntimeErr(e)}
		}
	}()
	if len(args) > 4 {
		// Thread.Call only has ready-made ArgSpecs for <= 4 arguments
		return realRes{v: th.PushCall(fn, nil, &core.ArgSpec{Nargs: byte(len(args))}, args...)}
	}
	return realRes{v: th.Call(fn, args...)}
}

// compileAndCall compiles src (a function) and calls it.
func compileAndCall(src string, args ...core.Value) realRes {
	c := compileConst(src)
	if c.failed() {
		return c
	}
	return callFn(c.v, args...)
}

func isCompileMsg(s string) bool {
	return strings.HasPrefix(s, "compile error") || strings.HasPrefix(s, "syntax error")
}

func clip(s string, n int) string {
	if len(s) > n {
		return s[:n] + "..."
	}
	return s
}
