package compilex

import (
	"fmt"
	"os"
	"runtime"
	"strings"
	"sync"
	"time"

	_ "github.com/apmckinlay/gsuneido/builtin"
	"github.com/apmckinlay/gsuneido/compile"
	"github.com/apmckinlay/gsuneido/core"
	"verifharness/internal/rt"
)

// errText renders whatever the compiler / interpreter panicked with.
func errText(e any) string {
	switch x := e.(type) {
	case nil:
		return ""
	case *core.SuExcept:
		return string(x.SuStr)
	case core.SuStr:
		return string(x)
	case error:
		return x.Error()
	case string:
		return x
	case core.Value:
		return x.String()
	}
	return fmt.Sprint(e)
}

// result of compiling / running something with the real implementation
type realRes struct {
	v       core.Value
	err     any  // panic value (nil if none)
	rterr   bool // the panic was a Go runtime.Error
	compile bool // the panic happened while compiling
}

func (r realRes) failed() bool { return r.err != nil }

func (r realRes) String() string {
	if r.err != nil {
		stage := "run"
		if r.compile {
			stage = "compile"
		}
		return fmt.Sprintf("%s-error(%s)", stage, errText(r.err))
	}
	if r.v == nil {
		return "nil"
	}
	return safeString(r.v)
}

func safeString(v core.Value) (s string) {
	defer func() {
		if e := recover(); e != nil {
			s = fmt.Sprintf("<String() panicked: %v>", e)
		}
	}()
	return v.String()
}

func isRuntimeErr(e any) bool {
	_, ok := e.(runtime.Error)
	return ok
}

// compileConst compiles src as a Suneido constant, catching the panic.
func compileConst(src string) (r realRes) {
	defer func() {
		if e := recover(); e != nil {
			r = realRes{err: e, rterr: isRuntimeErr(e), compile: true}
		}
	}()
	return realRes{v: compile.Constant(src)}
}

// run watchdog: the interpreter cannot be interrupted, so a run of the code
// under test that does not return is reported (with the program) and the
// process exits with a failure the driver counts as a violation. The
// reference interpreters / generators bound every program they accept, so a
// real run that takes 10 s means the implementation loops where the model
// terminated (e.g. known finding C29 break-out-of-try without its entry).
var runWD struct {
	mu      sync.Mutex
	what    string
	started time.Time
	once    sync.Once
	prop    string
}

func watchRuns() {
	for {
		time.Sleep(time.Second)
		runWD.mu.Lock()
		what, st, prop := runWD.what, runWD.started, runWD.prop
		runWD.mu.Unlock()
		if st.IsZero() || time.Since(st) < 10*time.Second {
			continue
		}
		p := rt.ReplayOut("nonterminating_program.txt")
		os.WriteFile(p, []byte(what), 0o644)
		fmt.Printf("VERIF-FAIL property=%s sub=run-does-not-terminate replay=%s\n", prop, p)
		fmt.Printf("the implementation did not finish within 10 s a program that the bounded reference run finished:\n%s\n", what)
		os.Exit(1)
	}
}

// curProp is the property whose test is running (for the watchdog's report).
var curProp = "C??"

// currentProgram is set by the checks before they run something.
func currentProgram(prop, src string) {
	runWD.once.Do(func() { go watchRuns() })
	runWD.mu.Lock()
	runWD.prop, runWD.what = prop, src
	runWD.mu.Unlock()
}

// callFn calls a compiled function on a fresh thread, catching the panic.
func callFn(fn core.Value, args ...core.Value) (r realRes) {
	runWD.mu.Lock()
	runWD.started = time.Now()
	runWD.mu.Unlock()
	defer func() {
		runWD.mu.Lock()
		runWD.started = time.Time{}
		runWD.mu.Unlock()
	}()
	th := &core.Thread{}
	defer func() {
		if e := recover(); e != nil {
			r = realRes{err: e, rterr: isRuntimeErr(e)}
		}
	}()
	if len(args) > 4 {
		// Thread.Call only has ready-made ArgSpecs for <= 4 arguments
		return realRes{v: th.PushCall(fn, nil, &core.ArgSpec{Nargs: byte(len(args))}, args...)}
	}
	return realRes{v: th.Call(fn, args...)}
}

// compileAndCall compiles src (a function) and calls it.
func compileAndCall(src string, args ...core.Value) realRes {
	currentProgram(curProp, src)
	c := compileConst(src)
	if c.failed() {
		return c
	}
	return callFn(c.v, args...)
}

func isCompileMsg(s string) bool {
	return strings.HasPrefix(s, "compile error") || strings.HasPrefix(s, "syntax error")
}

func clip(s string, n int) string {
	if len(s) > n {
		return s[:n] + "..."
	}
	return s
}
