package compilex

import (
	"fmt"
	"testing"

	"github.com/apmckinlay/gsuneido/compile"
)

func TestDbgFold(t *testing.T) {
	v := compile.Constant("10000000000000000")
	fmt.Printf("%T %v\n", v, v)
	for _, s := range []string{
		`function (a, b) { a $ b }`,
		`function (a, b) { (a) $ b $ b }`,
		`function (a, b) { 10000000000000000 $ b }`,
		`function (a, b) { (10000000000000000) $ b $ b }`,
		`function (a, b) { x = 10000000000000000; x }`,
		`function (a, b) { 10000000000000000 }`,
		`function (a, b) { 10000000000000000 $ "" }`,
		`function (a, b) { 1e16 $ "" }`,
		`function (a, b) { a + 0 }`,
	} {
		r := compileAndCall(s, v, compile.Constant(`""`))
		fmt.Printf("%s => %v  %T\n", s, r, r.v)
	}
}
