package compilex

import (
	"fmt"
	"testing"

	"pgregory.net/rapid"
)

func TestDbgC29(t *testing.T) {
	n := 0
	rapid.Check(t, func(t *rapid.T) {
		root := genProgram(t)
		want, _, d := runModel(root)
		if d == "" && (want.exc == "<cantcall>") {
			n++
			if n%25 == 0 {
				fmt.Println(renderProgram(root), "=>", want)
			}
		}
	})
}
