package compilex

import (
	"fmt"
	"testing"

	"github.com/apmckinlay/gsuneido/core"
)

func TestDbgKeys(t *testing.T) {
	for _, k := range []string{"?", "!", "_", "default", "true", "false", "is", "function", "class", "if", "a?", "a!", "_a", "__a", "_1", "A", "in", "not", "and", "or", "it", "this", "super", "return", "a_", "try", "catch"} {
		ob := &core.SuObject{}
		ob.Set(core.SuStr(k), core.IntVal(1))
		txt := ob.String()
		r := compileConst(txt)
		ok := !r.failed() && deepEqual(r.v, ob)
		fmt.Printf("%-10q %-20s ok=%v %v\n", k, txt, ok, r)
	}
}
