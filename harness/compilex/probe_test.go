package compilex

import (
	"fmt"
	"testing"

	_ "github.com/apmckinlay/gsuneido/builtin"
	"github.com/apmckinlay/gsuneido/compile"
	"github.com/apmckinlay/gsuneido/core"
)

func ev1(src string) (res string) {
	defer func() {
		if e := recover(); e != nil {
			res = fmt.Sprintf("ERR %T %v", e, e)
		}
	}()
	th := &core.Thread{}
	v := compile.EvalString(th, src)
	if v == nil {
		return "nil"
	}
	return v.String()
}

func TestProbe(t *testing.T) {
	for _, s := range []string{
		`x = 0; b = { x = 1; true }; r = b() and false; Object(x, r)`,
		`x = 0; b = { x = 1; 5 }; r = b() * 0; Object(x, r)`,
		`f = function (p) { p and false }; f(1)`,
		`f = function (p) { p * 0 }; f("abc")`,
		`f = function (p) { p and p }; f(1)`,
		`f = function (p) { false and p }; f(1)`,
		`f = function (p) { p | 0xffffffff }; f("abc")`,
		`f = function (p) { p & 0 }; f("abc")`,
		`f = function (p) { p or true }; f(3)`,
		`f = function (p) { 1 + p + 2 }; f(3)`,
		`f = function (p) { 5 < p }; f(3)`,
		`1 and false`,
		`"a" * 0`,
	} {
		fmt.Printf("%s\n   => %s\n", s, ev1(s))
	}
}
