package conc

import (
	"fmt"
	"sort"
	"strings"
	"sync"
	"testing"
	"time"

	"github.com/anishathalye/porcupine"
	"github.com/apmckinlay/gsuneido/util/queue"
	"pgregory.net/rapid"
	"verifharness/internal/ev"
	"verifharness/internal/gen"
	"verifharness/internal/rt"
)

const qCap = 8 // documented bound of the checker queue ("bounded"; bufSize)

// qel is one queued message in the harness's own list model.
type qel struct{ Pri, Tran, ID int }

// qCandidates returns the indexes of the messages that may legally be
// delivered next: among the oldest pending message of each transaction, those
// of maximal priority (ties are all legal: the statement does not order them).
// blockedHigher reports whether some message with a priority above that
// maximum was pending but not the oldest of its transaction (the case where
// per-transaction FIFO and priority disagree).
func qCandidates(m []qel) (cands []int, blockedHigher bool) {
	best := 0
	first := true
	seen := map[int]bool{}
	var oldest []int
	for i, e := range m {
		if seen[e.Tran] {
			continue
		}
		seen[e.Tran] = true
		oldest = append(oldest, i)
		if first || e.Pri > best {
			best, first = e.Pri, false
		}
	}
	for _, i := range oldest {
		if m[i].Pri == best {
			cands = append(cands, i)
		}
	}
	for _, e := range m {
		if e.Pri > best {
			blockedHigher = true
		}
	}
	return
}

func qIndex(m []qel, id int) int {
	for i, e := range m {
		if e.ID == id {
			return i
		}
	}
	return -1
}

func qRemove(m []qel, i int) []qel {
	r := make([]qel, 0, len(m)-1)
	r = append(r, m[:i]...)
	return append(r, m[i+1:]...)
}

func asID(v any) int {
	if n, ok := v.(int); ok {
		return n
	}
	return -1
}

// genPri: the checker uses 0..3; the statement says arbitrary priorities.
func genPri(t *rapid.T) int {
	switch gen.Weighted(t, "pricls", []int{70, 20, 10}) {
	case 0:
		return 1 + gen.Uniform(t, "pri", 3) // low/medium/high
	case 1:
		return gen.Uniform(t, "pri04", 5) - 1 // -1..3 (0 = stop priority)
	default:
		return rapid.Int().Draw(t, "priAny")
	}
}

// ---------------------------------------------------------------------------
// concurrent histories

// qop is one completed call in a recorded history.
// Put: Pri/Tran/ID are the arguments. Get: ID is the returned message
// (-1 if the returned value was not a message id).
type qop struct {
	C    int   `json:"c"` // client: producers 0..n-1, consumer n
	Put  bool  `json:"put"`
	Pri  int   `json:"pri,omitempty"`
	Tran int   `json:"tran,omitempty"`
	ID   int   `json:"id"`
	Call int64 `json:"call"`
	Ret  int64 `json:"ret"`
}

type qhistory struct {
	Note string `json:"note"`
	Ops  []qop  `json:"ops"`
}

type qmsg struct {
	Pri, Tran, ID, Yield int
}

type qstats struct {
	blockedPuts int // Puts that provably found the queue full when called
	emptyGets   int // Gets that provably found the queue empty when called
	tran3       int // transactions with >= 3 messages
	jumped      int // Gets that delivered a message while an older message of another transaction was pending... (priority at work)
	porcupine   string
}

type qin struct {
	put bool
	e   qel
}

func qstateKey(m []qel) string {
	var sb strings.Builder
	for _, e := range m {
		fmt.Fprintf(&sb, "%d/%d/%d,", e.Pri, e.Tran, e.ID)
	}
	return sb.String()
}

// qModel is the sequential specification for porcupine: a bounded queue
// (Put cannot take effect while 8 messages are queued) whose Get removes a
// legal candidate.
var qModel = porcupine.Model{
	Init: func() any { return []qel(nil) },
	Step: func(state, input, output any) (bool, any) {
		m := state.([]qel)
		in := input.(qin)
		if in.put {
			if len(m) >= qCap {
				return false, state
			}
			r := make([]qel, 0, len(m)+1)
			r = append(r, m...)
			return true, append(r, in.e)
		}
		id := output.(int)
		i := qIndex(m, id)
		if i < 0 {
			return false, state
		}
		cands, _ := qCandidates(m)
		for _, c := range cands {
			if c == i {
				return true, qRemove(m, i)
			}
		}
		return false, state
	},
	Equal: func(a, b any) bool { return qstateKey(a.([]qel)) == qstateKey(b.([]qel)) },
	Hash:  func(a any) uint64 { return ev.Hash(qstateKey(a.([]qel))) },
}

// checkQueueHistory is the oracle over a recorded Put/Get history.
// It returns "" if the history is consistent with the property.
func checkQueueHistory(ops []qop, linTimeout time.Duration) (string, qstats) {
	var st qstats
	puts := map[int]qop{}
	var gets []qop
	for _, o := range ops {
		if o.Put {
			if _, dup := puts[o.ID]; dup {
				return fmt.Sprintf("harness: message id %d put twice", o.ID), st
			}
			puts[o.ID] = o
		} else {
			gets = append(gets, o)
		}
	}
	sort.Slice(gets, func(i, j int) bool { return gets[i].Call < gets[j].Call })
	// exactly once
	getIdx := map[int]int{}
	for i, g := range gets {
		if _, ok := puts[g.ID]; !ok {
			return fmt.Sprintf("Get #%d returned %d which was never sent", i, g.ID), st
		}
		if j, dup := getIdx[g.ID]; dup {
			return fmt.Sprintf("message %d delivered twice (Get #%d and #%d)", g.ID, j, i), st
		}
		getIdx[g.ID] = i
		if p := puts[g.ID]; p.Call > g.Ret {
			return fmt.Sprintf("message %d delivered (ret %d) before it was sent (call %d)", g.ID, g.Ret, p.Call), st
		}
	}
	if len(gets) == len(puts) {
		for id := range puts {
			if _, ok := getIdx[id]; !ok {
				return fmt.Sprintf("message %d was sent but never delivered although %d Gets returned", id, len(gets)), st
			}
		}
	}
	// per-transaction order: a message whose Put returned before another Put
	// of the same transaction was called was sent first and must be delivered
	// first (if the later one was delivered at all).
	byTran := map[int][]qop{}
	for _, p := range puts {
		byTran[p.Tran] = append(byTran[p.Tran], p)
	}
	trans := make([]int, 0, len(byTran))
	for tr := range byTran {
		trans = append(trans, tr)
	}
	sort.Ints(trans)
	for _, tr := range trans {
		ps := byTran[tr]
		if len(ps) >= 3 {
			st.tran3++
		}
		sort.Slice(ps, func(i, j int) bool { return ps[i].Call < ps[j].Call })
		for i := range ps {
			for j := i + 1; j < len(ps); j++ {
				a, b := ps[i], ps[j]
				if a.Ret >= b.Call {
					continue // concurrent Puts: either order
				}
				gb, okb := getIdx[b.ID]
				ga, oka := getIdx[a.ID]
				if okb && (!oka || gb < ga) {
					return fmt.Sprintf("transaction %d: message %d (priority %d) sent before message %d (priority %d) but delivered after it",
						tr, a.ID, a.Pri, b.ID, b.Pri), st
				}
			}
		}
	}
	// measured: provably blocked Puts / Gets
	type evt struct {
		at   int64
		kind int // 0 put returned, 1 get called, 2 put called, 3 get returned
	}
	var evs []evt
	for _, o := range ops {
		if o.Put {
			evs = append(evs, evt{o.Ret, 0}, evt{o.Call, 2})
		} else {
			evs = append(evs, evt{o.Call, 1}, evt{o.Ret, 3})
		}
	}
	sort.Slice(evs, func(i, j int) bool { return evs[i].at < evs[j].at })
	putsRet, getsCalled, putsCalled, getsRet := 0, 0, 0, 0
	for _, e := range evs {
		switch e.kind {
		case 0:
			putsRet++
		case 1:
			// at most putsCalled-getsRet messages can be in the queue
			if putsCalled-getsRet <= 0 {
				st.emptyGets++
			}
			getsCalled++
		case 2:
			// at least putsRet-getsCalled messages are in the queue
			if putsRet-getsCalled >= qCap {
				st.blockedPuts++
			}
			putsCalled++
		case 3:
			getsRet++
		}
	}
	// linearizability against the bounded-queue model
	hist := make([]porcupine.Operation, 0, len(ops))
	for _, o := range ops {
		op := porcupine.Operation{ClientId: o.C, Call: o.Call, Return: o.Ret}
		if o.Put {
			op.Input = qin{put: true, e: qel{o.Pri, o.Tran, o.ID}}
			op.Output = 0
		} else {
			op.Input = qin{}
			op.Output = o.ID
		}
		hist = append(hist, op)
	}
	switch porcupine.CheckOperationsTimeout(qModel, hist, linTimeout) {
	case porcupine.Ok:
		st.porcupine = "ok"
	case porcupine.Unknown:
		st.porcupine = "unknown"
	default:
		st.porcupine = "illegal"
		return "history is not linearizable against the bounded queue model (capacity 8, Get = a maximal-priority message among the oldest of each transaction)", st
	}
	return "", st
}

// runQueue runs the producers' scripts and one consumer against a real
// PriorityQueue and returns the recorded history.
func runQueue(scripts [][]qmsg, consumerYields []int, startYields []int) (ops []qop, hung bool) {
	pq := queue.NewPriorityQueue()
	var clk clock
	total := 0
	for _, s := range scripts {
		total += len(s)
	}
	recs := make([][]qop, len(scripts)+1)
	var wg sync.WaitGroup
	start := make(chan struct{})
	for p, s := range scripts {
		wg.Add(1)
		go func(p int, s []qmsg) {
			defer wg.Done()
			r := make([]qop, 0, len(s))
			<-start
			yield(startYields[p])
			for _, m := range s {
				yield(m.Yield)
				c := clk.tick()
				pq.Put(m.Pri, m.Tran, m.ID)
				r = append(r, qop{C: p, Put: true, Pri: m.Pri, Tran: m.Tran, ID: m.ID, Call: c, Ret: clk.tick()})
				recs[p] = r
			}
		}(p, s)
	}
	wg.Add(1)
	go func() {
		defer wg.Done()
		c := len(scripts)
		r := make([]qop, 0, total)
		<-start
		yield(startYields[c])
		for i := 0; i < total; i++ {
			yield(consumerYields[i%len(consumerYields)])
			call := clk.tick()
			v := pq.Get()
			r = append(r, qop{C: c, ID: asID(v), Call: call, Ret: clk.tick()})
			recs[c] = r
		}
	}()
	close(start)
	done := make(chan struct{})
	go func() { wg.Wait(); close(done) }()
	select {
	case <-done:
	case <-time.After(60 * time.Second): // watchdog only: a lost wake-up would otherwise hang the run
		hung = true
	}
	if hung {
		return nil, true // the goroutines still own recs
	}
	for _, r := range recs {
		ops = append(ops, r...)
	}
	sort.Slice(ops, func(i, j int) bool { return ops[i].Call < ops[j].Call })
	return ops, false
}

func scriptsCanon(scripts [][]qmsg) string {
	var sb strings.Builder
	for _, s := range scripts {
		for _, m := range s {
			fmt.Fprintf(&sb, "%d:%d ", m.Tran, m.Pri)
		}
		sb.WriteString("| ")
	}
	return sb.String()
}

// TestC17: checker message queue preserves per-transaction order.
func TestC17(t *testing.T) {
	rec := ev.New("C17", "sequential: rapid-generated Put/Get scripts (<= 60 ops, 1-5 transactions, priorities 1..3 / -1..3 / arbitrary int, Put only while < 8 queued, Get only while non-empty, drained at the end) against an own list model; concurrent: 2-8 producers with generated (priority, transaction, yield) scripts (own transaction ids plus the shared id 0), one consumer with generated yields, real goroutines, recorded call/return history. Non-trivial: >= 2 transactions with >= 3 messages each and (sequential) a Get where a higher-priority message was pending behind an older message of its transaction / (concurrent) >= 1 Put that provably found the queue full. Distinct = by script.")
	rec.Assumptions = []string{
		"ties between equal priorities of different transactions are not ordered by the statement: any maximal-priority oldest-per-transaction message is accepted",
		"concurrent part: interleavings are whatever the Go scheduler produces with generated yields (no scheduler control); the logical clock stamps are taken just before the call and just after the return",
		"a Put whose return stamp precedes the call stamp of another Put of the same transaction counts as sent first",
	}
	defer rec.Write()

	if p := replayFile("c17_history"); p != "" {
		var h qhistory
		if err := readJSON(p, &h); err != nil {
			t.Fatalf("replay: %v", err)
		}
		msg, st := checkQueueHistory(h.Ops, 10*time.Minute)
		rec.Case(true, p)
		fmt.Printf("replay %s: %d ops, porcupine=%s blockedPuts=%d: %s\n", p, len(h.Ops), st.porcupine, st.blockedPuts, msg)
		if msg != "" {
			rt.Fail(t, rec, "concurrent", p, msg)
		}
		return
	}

	rt.Check(t, rec, "sequential", 5000, 30000, func(t *rapid.T) {
		pq := queue.NewPriorityQueue()
		var model []qel
		ntran := 1 + gen.Uniform(t, "ntran", 5)
		nops := rapid.IntRange(1, 60).Draw(t, "nops")
		putPct := gen.Pick(t, "putPct", []int{50, 65, 80})
		perTran := map[int]int{}
		nextID := 0
		var canon strings.Builder
		sawBlockedHigher, sawTie, sawFull := false, false, false
		delivered := map[int]bool{}
		get := func() {
			cands, blockedHigher := qCandidates(model)
			v := pq.Get()
			id := asID(v)
			i := qIndex(model, id)
			if i < 0 {
				if delivered[id] {
					t.Fatalf("Get returned message %d a second time; queue model %v", id, model)
				}
				t.Fatalf("Get returned %v which is not queued; queue model %v", v, model)
			}
			ok := false
			for _, c := range cands {
				ok = ok || c == i
			}
			if !ok {
				why := "is not of maximal priority among the oldest messages of each transaction"
				for j := 0; j < i; j++ {
					if model[j].Tran == model[i].Tran {
						why = fmt.Sprintf("was sent after message %d of the same transaction which is still queued", model[j].ID)
						break
					}
				}
				t.Fatalf("Get returned message %+v which %s; queue model (oldest first) %v", model[i], why, model)
			}
			sawBlockedHigher = sawBlockedHigher || blockedHigher
			sawTie = sawTie || len(cands) > 1
			delivered[id] = true
			model = qRemove(model, i)
			canon.WriteString("g ")
		}
		for i := 0; i < nops; i++ {
			doPut := len(model) == 0 || (len(model) < qCap && gen.Chance(t, "put", putPct))
			if doPut {
				e := qel{Pri: genPri(t), Tran: gen.Uniform(t, "tran", ntran), ID: nextID}
				nextID++
				pq.Put(e.Pri, e.Tran, e.ID)
				model = append(model, e)
				perTran[e.Tran]++
				sawFull = sawFull || len(model) == qCap
				fmt.Fprintf(&canon, "p%d:%d ", e.Tran, e.Pri)
			} else {
				get()
			}
		}
		for len(model) > 0 {
			get()
		}
		if len(delivered) != nextID {
			t.Fatalf("%d messages sent, %d delivered", nextID, len(delivered))
		}
		n3 := 0
		for _, n := range perTran {
			if n >= 3 {
				n3++
			}
		}
		nt := n3 >= 2 && sawBlockedHigher
		rec.Case(nt, "seq "+canon.String())
		rec.LabelIf(sawBlockedHigher, "seq_fifo_overrides_priority")
		rec.LabelIf(sawTie, "seq_priority_tie")
		rec.LabelIf(sawFull, "seq_queue_full_reached")
		rec.LabelIf(n3 >= 2, "seq_two_trans_with_3_msgs")
		if nt && rec.WantSample("sequential") {
			rec.Sample("sequential", canon.String())
		}
	})

	histN := 0
	rt.Check(t, rec, "concurrent", 300, 600, func(t *rapid.T) {
		nprod := 2 + gen.Uniform(t, "nprod", 7)
		scripts := make([][]qmsg, nprod)
		sharedPct := gen.Pick(t, "sharedPct", []int{0, 10, 30})
		maxLen := gen.Pick(t, "maxLen", []int{6, 15, 25})
		yieldPct := gen.Pick(t, "yieldPct", []int{0, 10, 40})
		for p := range scripts {
			nown := 1 + gen.Uniform(t, "nown", 3)
			n := 3 + gen.Uniform(t, "len", maxLen-2)
			for k := 0; k < n; k++ {
				m := qmsg{Pri: genPri(t), Tran: 10*(p+1) + gen.Uniform(t, "own", nown), ID: p*1000 + k}
				if gen.Chance(t, "shared", sharedPct) {
					m.Tran = 0 // like the checker's non-transaction messages
				}
				if gen.Chance(t, "yield", yieldPct) {
					m.Yield = 1 + gen.Uniform(t, "ny", 3)
				}
				scripts[p] = append(scripts[p], m)
			}
		}
		// the consumer is usually slower than the producers so the queue stays full
		cy := make([]int, 1+gen.Uniform(t, "ncy", 8))
		cmax := gen.Pick(t, "cmax", []int{1, 3, 6, 12})
		for i := range cy {
			cy[i] = gen.Uniform(t, "cy", cmax)
		}
		sy := make([]int, nprod+1)
		for i := range sy {
			sy[i] = gen.Uniform(t, "sy", 4)
		}
		ops, hung := runQueue(scripts, cy, sy)
		if hung {
			t.Fatalf("producers/consumer did not finish (lost wake-up?) scripts %s", scriptsCanon(scripts))
		}
		msg, st := checkQueueHistory(ops, 60*time.Second)
		if msg != "" {
			histN++
			p := writeJSON("c17_history.json", qhistory{Note: msg, Ops: ops})
			t.Fatalf("%s\nhistory (%d ops) written to %s", msg, len(ops), p)
		}
		nt := st.tran3 >= 2 && st.blockedPuts >= 1
		rec.Case(nt, "conc "+scriptsCanon(scripts))
		rec.LabelIf(nt, "conc_nontrivial")
		rec.LabelIf(st.blockedPuts >= 1, "conc_history_with_put_blocked_on_full_queue")
		rec.LabelN("conc_puts_blocked_on_full_queue", st.blockedPuts)
		rec.LabelIf(st.emptyGets >= 1, "conc_history_with_get_on_empty_queue")
		rec.LabelN("conc_gets_on_empty_queue", st.emptyGets)
		rec.LabelN("conc_ops", len(ops))
		rec.Label("conc_porcupine_" + st.porcupine)
		rec.Label(fmt.Sprintf("conc_producers_%d", nprod))
		if nt && rec.WantSample("concurrent") {
			rec.Sample("concurrent", map[string]any{"scripts(tran:pri)": scriptsCanon(scripts), "ops": len(ops),
				"puts_blocked_on_full": st.blockedPuts, "gets_on_empty": st.emptyGets})
		}
	})
}
