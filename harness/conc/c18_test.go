package conc

import (
	"fmt"
	"os"
	"sort"
	"strings"
	"sync"
	"sync/atomic"
	"testing"

	"github.com/apmckinlay/gsuneido/db19/stor"
	"pgregory.net/rapid"
	"verifharness/internal/ev"
	"verifharness/internal/gen"
	"verifharness/internal/rt"
)

// retryPanic is the documented loud failure of Alloc.
const retryPanic = "Stor.Alloc too many retries"

// yieldStore is a heap storage like stor.HeapStor's, except that Get (which
// extend calls while holding its lock; "potentially slow" for a mapped file)
// yields a generated number of times and counts how many other goroutines were
// inside Alloc while the storage was being extended. It satisfies the
// unexported stor.storage interface structurally.
type yieldStore struct {
	chunksize int
	yields    int
	inAlloc   *atomic.Int32
	gets      atomic.Int32 // extend calls that actually extended
	contended atomic.Int32 // ... while >= 2 goroutines were inside Alloc
}

func (ys *yieldStore) Get(int) []byte {
	ys.gets.Add(1)
	yield(ys.yields)
	if ys.inAlloc.Load() >= 2 {
		ys.contended.Add(1)
	}
	return make([]byte, ys.chunksize)
}
func (ys *yieldStore) Flush([]byte)      {}
func (ys *yieldStore) Close(int64, bool) {}

// region is one recorded allocation.
type region struct {
	G     int    `json:"g"`   // goroutine
	Seq   int    `json:"seq"` // index in the goroutine's script
	N     int    `json:"n"`   // requested size
	Off   uint64 `json:"off"`
	Len   int    `json:"len"`
	Cap   int    `json:"cap"`
	Panic string `json:"panic,omitempty"` // Alloc panicked with this
	Size  uint64 `json:"size"`            // Size() observed right after the Alloc returned
	Bad   string `json:"bad,omitempty"`   // pattern damage found at the end
}

type allocHistory struct {
	Note    string   `json:"note"`
	Chunk   uint64   `json:"chunk"`
	EndSize uint64   `json:"end_size"`
	Regions []region `json:"regions"`
}

type allocStats struct {
	ok, retryPanics int
	midGaps         int // offsets skipped inside a chunk (not at its end): a wasted increment
	crossings       int // chunks used
}

func pat(g, seq, i int) byte { return byte(g*131 + seq*31 + i*7 + 1) }

// checkAllocHistory is the oracle over the recorded regions.
func checkAllocHistory(h allocHistory) (string, allocStats) {
	var st allocStats
	type span struct { // compact copy for sorting
		off uint64
		n   int32
		idx int32
	}
	rs := make([]span, 0, len(h.Regions))
	for i := range h.Regions {
		r := &h.Regions[i]
		if r.Panic != "" {
			if r.Panic != retryPanic {
				return fmt.Sprintf("goroutine %d alloc #%d (n=%d) failed with %q: neither a valid range nor the documented loud failure", r.G, r.Seq, r.N, r.Panic), st
			}
			st.retryPanics++
			continue
		}
		st.ok++
		if r.Len != r.N || r.Cap != r.N {
			return fmt.Sprintf("goroutine %d alloc #%d: Alloc(%d) returned a slice with len %d cap %d", r.G, r.Seq, r.N, r.Len, r.Cap), st
		}
		if r.Off/h.Chunk != (r.Off+uint64(r.N)-1)/h.Chunk {
			return fmt.Sprintf("goroutine %d alloc #%d: region [%d,%d) straddles a chunk boundary (chunk size %d)", r.G, r.Seq, r.Off, r.Off+uint64(r.N), h.Chunk), st
		}
		if r.Off+uint64(r.N) > r.Size {
			return fmt.Sprintf("goroutine %d alloc #%d: region [%d,%d) lies beyond Size() = %d observed after the Alloc", r.G, r.Seq, r.Off, r.Off+uint64(r.N), r.Size), st
		}
		if r.Off+uint64(r.N) > h.EndSize {
			return fmt.Sprintf("goroutine %d alloc #%d: region [%d,%d) lies beyond the final Size() = %d", r.G, r.Seq, r.Off, r.Off+uint64(r.N), h.EndSize), st
		}
		rs = append(rs, span{r.Off, int32(r.N), int32(i)})
	}
	sort.Slice(rs, func(i, j int) bool {
		if rs[i].off != rs[j].off {
			return rs[i].off < rs[j].off
		}
		return rs[i].idx < rs[j].idx
	})
	for i := 1; i < len(rs); i++ {
		if rs[i-1].off+uint64(rs[i-1].n) > rs[i].off {
			a, b := h.Regions[rs[i-1].idx], h.Regions[rs[i].idx]
			return fmt.Sprintf("regions overlap: goroutine %d alloc #%d [%d,%d) and goroutine %d alloc #%d [%d,%d)",
				a.G, a.Seq, a.Off, a.Off+uint64(a.N), b.G, b.Seq, b.Off, b.Off+uint64(b.N)), st
		}
	}
	for i := range h.Regions {
		if r := &h.Regions[i]; r.Panic == "" && r.Bad != "" {
			return fmt.Sprintf("goroutine %d alloc #%d [%d,%d): private pattern damaged: %s", r.G, r.Seq, r.Off, r.Off+uint64(r.N), r.Bad), st
		}
	}
	// measured: gaps inside chunks
	nchunks := 0
	for i, r := range rs {
		c := r.off / h.Chunk
		if i == 0 || rs[i-1].off/h.Chunk != c {
			nchunks++
			if r.off != c*h.Chunk {
				st.midGaps++ // gap at the start of a chunk
			}
		} else if rs[i-1].off+uint64(rs[i-1].n) != r.off {
			st.midGaps++
		}
	}
	chunks := make([]struct{}, nchunks)
	st.crossings = len(chunks)
	return "", st
}

// genSize draws an allocation size in 1..chunk.
func genSize(t *rapid.T, chunk int) int {
	switch gen.Weighted(t, "szcls", []int{40, 25, 15, 10, 10}) {
	case 0:
		return 1 + gen.Uniform(t, "small", max(1, chunk/8))
	case 1:
		return 1 + gen.Uniform(t, "any", chunk)
	case 2:
		return chunk - gen.Uniform(t, "near", min(4, chunk))
	case 3:
		return chunk
	default:
		return chunk/2 + gen.Uniform(t, "half", 3) - 1
	}
}

type allocStep struct{ N, Yield int }

// runAllocs runs the scripts concurrently (one goroutine each) and returns the
// recorded regions after re-reading every region's pattern.
// full=false writes/checks the pattern only at the ends of large regions.
func runAllocs(s *stor.Stor, chunk int, scripts [][]allocStep, inAlloc *atomic.Int32, startYield []int) allocHistory {
	recs := make([][]region, len(scripts))
	bufs := make([][][]byte, len(scripts))
	var wg sync.WaitGroup
	start := make(chan struct{})
	for g, sc := range scripts {
		wg.Add(1)
		go func(g int, sc []allocStep) {
			defer wg.Done()
			<-start
			yield(startYield[g])
			for seq, a := range sc {
				yield(a.Yield)
				r := region{G: g, Seq: seq, N: a.N}
				var buf []byte
				func() {
					defer func() {
						if e := recover(); e != nil {
							r.Panic = fmt.Sprint(e)
						}
						inAlloc.Add(-1)
					}()
					inAlloc.Add(1)
					r.Off, buf = s.Alloc(a.N)
				}()
				if r.Panic == "" {
					r.Len, r.Cap = len(buf), cap(buf)
					r.Size = s.Size()
					fillPattern(buf, g, seq)
				}
				recs[g] = append(recs[g], r)
				bufs[g] = append(bufs[g], buf)
			}
		}(g, sc)
	}
	close(start)
	wg.Wait()
	h := allocHistory{Chunk: uint64(chunk), EndSize: s.Size()}
	for g := range recs {
		for i := range recs[g] {
			r := &recs[g][i]
			if r.Panic == "" {
				// through the retained slice and through a fresh Data() of the offset
				if bad := checkPattern(bufs[g][i], g, r.Seq); bad != "" {
					r.Bad = "retained slice: " + bad
				} else if int(r.Off/uint64(chunk)) == int((r.Off+uint64(r.N)-1)/uint64(chunk)) {
					d := safeData(s, r.Off)
					if len(d) < r.N {
						r.Bad = fmt.Sprintf("Data(%d) has only %d bytes", r.Off, len(d))
					} else if bad := checkPattern(d[:r.N], g, r.Seq); bad != "" {
						r.Bad = "Data(offset): " + bad
					}
				}
			}
			h.Regions = append(h.Regions, *r)
		}
	}
	return h
}

// runDense is the lean runner for the "dense" sub-check: many allocations per
// goroutine, nothing between two Alloc calls but recording the result, so that
// several goroutines are inside Alloc at a chunk boundary most of the time.
// Goroutine g allocates rounds times, size sizes[g][(k*stride[g]) % len].
// The first and last byte of each region carry a private tag, checked at the end.
func runDense(s *stor.Stor, chunk int, sizes [][]int, stride []int, rounds int) allocHistory {
	type rec struct {
		off uint64
		buf []byte
		pan string
	}
	recs := make([][]rec, len(sizes))
	var wg sync.WaitGroup
	start := make(chan struct{})
	for g := range sizes {
		wg.Add(1)
		go func(g int) {
			defer wg.Done()
			p, st := sizes[g], stride[g]
			rs := make([]rec, rounds)
			// loop allocates from k on until done or until Alloc panics
			// (one deferred recover per panic, not per allocation)
			loop := func(k int) (next int) {
				next = k + 1
				defer func() {
					if e := recover(); e != nil {
						rs[next-1].pan = fmt.Sprint(e)
					}
				}()
				for ; k < rounds; k++ {
					next = k + 1
					off, buf := s.Alloc(p[(k*st)%len(p)])
					rs[k].off, rs[k].buf = off, buf
					buf[0] = byte(g*37 + k)
					buf[len(buf)-1] = byte(g*37 + k)
				}
				return rounds
			}
			<-start
			for k := 0; k < rounds; {
				k = loop(k)
			}
			recs[g] = rs
		}(g)
	}
	close(start)
	wg.Wait()
	h := allocHistory{Chunk: uint64(chunk), EndSize: s.Size(), Regions: make([]region, 0, len(sizes)*rounds)}
	for g := range recs {
		for k := range recs[g] {
			x := &recs[g][k]
			r := region{G: g, Seq: k, N: sizes[g][(k*stride[g])%len(sizes[g])], Off: x.off, Len: len(x.buf), Cap: cap(x.buf),
				Panic: x.pan, Size: ^uint64(0) >> 1}
			if b := x.buf; x.pan == "" && len(b) > 0 && (b[0] != byte(g*37+k) || b[len(b)-1] != byte(g*37+k)) {
				r.Bad = fmt.Sprintf("tag bytes are %#x/%#x, written %#x", b[0], b[len(b)-1], byte(g*37+k))
			}
			h.Regions = append(h.Regions, r)
		}
	}
	return h
}

func safeData(s *stor.Stor, off uint64) (d []byte) {
	defer func() {
		if e := recover(); e != nil {
			d = nil
		}
	}()
	return s.Data(off)
}

const patEdge = 64     // large (mmap) regions carry the pattern only in their first/last bytes
const patFull = 8192 // regions up to this size carry it in every byte

func fillPattern(buf []byte, g, seq int) {
	if len(buf) <= patFull {
		for i := range buf {
			buf[i] = pat(g, seq, i)
		}
		return
	}
	for i := 0; i < patEdge; i++ {
		buf[i] = pat(g, seq, i)
		j := len(buf) - 1 - i
		buf[j] = pat(g, seq, j)
	}
}

func checkPattern(buf []byte, g, seq int) string {
	chk := func(i int) string {
		if buf[i] != pat(g, seq, i) {
			return fmt.Sprintf("byte %d is %#x, written %#x", i, buf[i], pat(g, seq, i))
		}
		return ""
	}
	if len(buf) <= patFull {
		for i := range buf {
			if s := chk(i); s != "" {
				return s
			}
		}
		return ""
	}
	for i := 0; i < patEdge; i++ {
		if s := chk(i); s != "" {
			return s
		}
		if s := chk(len(buf) - 1 - i); s != "" {
			return s
		}
	}
	return ""
}

func allocCanon(chunk int, scripts [][]allocStep) string {
	var sb strings.Builder
	fmt.Fprintf(&sb, "chunk %d:", chunk)
	for _, sc := range scripts {
		for _, a := range sc {
			fmt.Fprintf(&sb, " %d", a.N)
		}
		sb.WriteString(" |")
	}
	return sb.String()
}

// TestC18: concurrent storage allocations never overlap.
func TestC18(t *testing.T) {
	rec := ev.New("C18", "sequential: one goroutine, generated sizes (1..chunk, weighted to small / near-chunk / exactly chunk) on HeapStor with chunk 64..4096, offsets compared with an exact next-fit model; concurrent: 2-16 goroutines with generated (size, yield) scripts (<= 60 allocations each) on a Stor with chunk 64..4096 (real HeapStor, or the same Stor over a heap storage whose chunk Get yields while extend holds its lock), private pattern per region, all regions re-read at the end. Non-trivial (concurrent): >= 2 goroutines, >= 3 chunks used and a measured collision with extend (an extend that ran while another goroutine was inside Alloc, an offset skipped inside a chunk, or retry exhaustion). dense: 200 runs on the real HeapStor with chunk 32/64/128, 6-16 goroutines each allocating 1000/2000/4000 times back to back (sizes cycled from a generated pattern of 5-32 sizes, 80 % uniform 1..chunk), nothing between two Alloc calls but recording the result, so that chunk crossings and concurrent extends dominate; same oracle on the recorded ranges plus a tag byte at both ends of each region; non-trivial: >= 100 chunks used and an offset skipped inside a chunk or retry exhaustion. Distinct = by script.")
	rec.Assumptions = []string{
		"the panic \"" + retryPanic + "\" is the documented loud failure; any other panic of Alloc is a violation",
		"interleavings are whatever the Go scheduler produces with generated yields (no scheduler control)",
		"thorough tier: memory-mapped file, regions of 64 KB..8 MB, pattern written at both ends of each region only",
	}
	defer rec.Write()

	if p := replayFile("c18_history"); p != "" {
		var h allocHistory
		if err := readJSON(p, &h); err != nil {
			t.Fatalf("replay: %v", err)
		}
		msg, st := checkAllocHistory(h)
		rec.Case(true, p)
		fmt.Printf("replay %s: %d regions ok=%d retryPanics=%d: %s\n", p, len(h.Regions), st.ok, st.retryPanics, msg)
		if msg != "" {
			rt.Fail(t, rec, "concurrent", p, msg)
		}
		return
	}

	chunkSizes := []int{64, 128, 256, 512, 1024, 4096}

	rt.Check(t, rec, "sequential", 3000, 20000, func(t *rapid.T) {
		chunk := gen.Pick(t, "chunk", chunkSizes)
		s := stor.HeapStor(chunk)
		n := rapid.IntRange(1, 80).Draw(t, "n")
		var size uint64 // model
		cross := 0
		var canon strings.Builder
		fmt.Fprintf(&canon, "seq chunk %d:", chunk)
		for i := 0; i < n; i++ {
			sz := genSize(t, chunk)
			fmt.Fprintf(&canon, " %d", sz)
			want := size
			if size/uint64(chunk) != (size+uint64(sz)-1)/uint64(chunk) {
				want = (size/uint64(chunk) + 1) * uint64(chunk) // advance to the next chunk
				cross++
			}
			var off uint64
			var buf []byte
			func() {
				defer func() {
					if e := recover(); e != nil {
						t.Fatalf("alloc #%d: Alloc(%d) with no concurrency panicked: %v (chunk %d, size before %d)", i, sz, e, chunk, size)
					}
				}()
				off, buf = s.Alloc(sz)
			}()
			if off != want {
				t.Fatalf("alloc #%d: Alloc(%d) = offset %d, model %d (chunk %d, size before %d)", i, sz, off, want, chunk, size)
			}
			if len(buf) != sz || cap(buf) != sz {
				t.Fatalf("alloc #%d: Alloc(%d) slice len %d cap %d", i, sz, len(buf), cap(buf))
			}
			size = want + uint64(sz)
			if got := s.Size(); got != size {
				t.Fatalf("alloc #%d: Size() = %d after Alloc(%d) at %d, model %d", i, got, sz, off, size)
			}
			fillPattern(buf, 0, i)
		}
		rec.Case(cross >= 2, canon.String())
		rec.LabelN("seq_chunk_crossings", cross)
	})

	rt.Check(t, rec, "concurrent", 300, 2000, func(t *rapid.T) {
		chunk := gen.Pick(t, "chunk", chunkSizes)
		ng := 2 + gen.Uniform(t, "ng", 15)
		maxLen := gen.Pick(t, "maxLen", []int{8, 25, 60})
		yieldPct := gen.Pick(t, "yieldPct", []int{0, 10, 40})
		scripts := make([][]allocStep, ng)
		for g := range scripts {
			n := 1 + gen.Uniform(t, "len", maxLen)
			for k := 0; k < n; k++ {
				a := allocStep{N: genSize(t, chunk)}
				if gen.Chance(t, "yield", yieldPct) {
					a.Yield = 1 + gen.Uniform(t, "ny", 3)
				}
				scripts[g] = append(scripts[g], a)
			}
		}
		sy := make([]int, ng)
		for i := range sy {
			sy[i] = gen.Uniform(t, "sy", 4)
		}
		var inAlloc atomic.Int32
		var s *stor.Stor
		var ys *yieldStore
		if gen.Chance(t, "realHeapStor", 40) {
			s = stor.HeapStor(chunk)
		} else {
			ys = &yieldStore{chunksize: chunk, yields: gen.Uniform(t, "getYields", 6), inAlloc: &inAlloc}
			s = stor.NewStor(ys, uint64(chunk), 0, nil)
		}
		h := runAllocs(s, chunk, scripts, &inAlloc, sy)
		msg, st := checkAllocHistory(h)
		if msg != "" {
			h.Note = msg
			p := writeJSON("c18_history.json", h)
			t.Fatalf("%s\n%s\nhistory (%d allocations) written to %s", msg, allocCanon(chunk, scripts), len(h.Regions), p)
		}
		contended := 0
		if ys != nil {
			contended = int(ys.contended.Load())
		}
		nt := st.crossings >= 3 && (contended > 0 || st.midGaps > 0 || st.retryPanics > 0)
		rec.Case(nt, allocCanon(chunk, scripts))
		rec.LabelIf(nt, "conc_nontrivial")
		rec.LabelN("conc_allocs_ok", st.ok)
		rec.LabelN("conc_allocs_retry_exhausted_panic", st.retryPanics)
		rec.LabelIf(st.retryPanics > 0, "conc_run_with_retry_exhausted_panic")
		rec.LabelN("conc_offsets_skipped_inside_chunk", st.midGaps)
		rec.LabelIf(st.midGaps > 0, "conc_run_with_offsets_skipped_inside_chunk")
		rec.LabelN("conc_extend_while_others_in_alloc", contended)
		rec.LabelIf(contended > 0, "conc_run_with_extend_while_others_in_alloc")
		rec.LabelN("conc_chunks_used", st.crossings)
		rec.Label(fmt.Sprintf("conc_chunk_%d", chunk))
		rec.LabelIf(ys == nil, "conc_real_heapstor")
		if nt && rec.WantSample("concurrent") {
			rec.Sample("concurrent", map[string]any{"script": allocCanon(chunk, scripts), "chunks_used": st.crossings,
				"retry_exhausted": st.retryPanics, "offsets_skipped_inside_chunk": st.midGaps, "extend_while_others_in_alloc": contended})
		}
	})

	// dense: tiny chunks, sizes up to the chunk size, 6-12 goroutines allocating
	// back to back so that chunk crossings and concurrent extends dominate.
	rt.Check(t, rec, "dense", 200, 150, func(t *rapid.T) {
		chunk := gen.Pick(t, "chunk", []int{32, 64, 64, 64, 128})
		ng := 6 + gen.Uniform(t, "ng", 11)
		rounds := gen.Pick(t, "rounds", []int{1000, 2000, 4000})
		sizes := make([][]int, ng)
		stride := make([]int, ng)
		for g := range sizes {
			n := 5 + gen.Uniform(t, "plen", 28)
			for k := 0; k < n; k++ {
				if gen.Chance(t, "uniform", 80) {
					sizes[g] = append(sizes[g], 1+gen.Uniform(t, "sz", chunk))
				} else {
					sizes[g] = append(sizes[g], genSize(t, chunk))
				}
			}
			stride[g] = 1 + gen.Uniform(t, "stride", 7)
		}
		s := stor.HeapStor(chunk)
		h := runDense(s, chunk, sizes, stride, rounds)
		msg, st := checkAllocHistory(h)
		if msg != "" {
			h.Note = msg
			p := writeJSON("c18_history.json", h)
			t.Fatalf("dense: %s\nchunk %d, %d goroutines x %d allocations\nhistory written to %s", msg, chunk, ng, rounds, p)
		}
		var canon strings.Builder
		fmt.Fprintf(&canon, "dense chunk %d x%d:", chunk, rounds)
		for g := range sizes {
			fmt.Fprintf(&canon, " %v/%d", sizes[g], stride[g])
		}
		nt := st.crossings >= 100 && (st.midGaps > 0 || st.retryPanics > 0)
		rec.Case(nt, canon.String())
		rec.LabelIf(nt, "dense_nontrivial")
		rec.LabelN("dense_allocs_ok", st.ok)
		rec.LabelN("dense_allocs_retry_exhausted_panic", st.retryPanics)
		rec.LabelN("dense_offsets_skipped_inside_chunk", st.midGaps)
		rec.LabelN("dense_chunks_used", st.crossings)
		rec.Label(fmt.Sprintf("dense_chunk_%d", chunk))
		if nt && rec.WantSample("dense") {
			rec.Sample("dense", map[string]any{"chunk": chunk, "goroutines": ng, "allocations_each": rounds, "chunks_used": st.crossings,
				"retry_exhausted": st.retryPanics, "offsets_skipped_inside_chunk": st.midGaps})
		}
	})

	if ev.Thorough() {
		c18Mmap(t, rec)
	}
}

// c18Mmap: the same oracle on a real memory-mapped file across the 64 MB
// chunk boundary (thorough tier only; every run leaks its mappings because
// the storage never unmaps, so the number of runs per process is small).
func c18Mmap(t *testing.T, rec *ev.Rec) {
	const mchunk = 64 * 1024 * 1024
	run := 0
	rt.Check(t, rec, "mmap", 2, 6, func(t *rapid.T) {
		run++
		file := fmt.Sprintf("%s/c18_%d_%d.tmp", os.TempDir(), os.Getpid(), run)
		s, err := stor.MmapStor(file, stor.Create)
		if err != nil {
			t.Fatalf("MmapStor: %v", err)
		}
		defer os.Remove(file)
		defer s.Close(true)
		ng := 2 + gen.Uniform(t, "ng", 15)
		scripts := make([][]allocStep, ng)
		// total ~ 1.5 .. 2.5 chunks so that the boundary is crossed once or twice
		budget := mchunk + mchunk/2 + gen.Uniform(t, "extra", mchunk)
		per := budget / ng
		for g := range scripts {
			left := per
			for left > 0 {
				n := 64*1024 + gen.Uniform(t, "n", 8*1024*1024-64*1024)
				if gen.Chance(t, "tiny", 20) {
					n = 1 + gen.Uniform(t, "tn", 4096)
				}
				scripts[g] = append(scripts[g], allocStep{N: n, Yield: gen.Uniform(t, "y", 3)})
				left -= n
			}
		}
		sy := make([]int, ng)
		var inAlloc atomic.Int32
		h := runAllocs(s, mchunk, scripts, &inAlloc, sy)
		msg, st := checkAllocHistory(h)
		if msg != "" {
			h.Note = msg
			p := writeJSON("c18_history.json", h)
			t.Fatalf("mmap: %s\nhistory written to %s", msg, p)
		}
		rec.Case(st.crossings >= 2, "mmap "+allocCanon(mchunk, scripts))
		rec.LabelN("mmap_chunks_used", st.crossings)
		rec.LabelN("mmap_allocs_ok", st.ok)
		rec.LabelN("mmap_offsets_skipped_inside_chunk", st.midGaps)
		rec.LabelN("mmap_retry_exhausted_panic", st.retryPanics)
	})
}
