package conc

import (
	"fmt"
	"strings"
	"testing"
	"testing/synctest"
	"time"

	"github.com/apmckinlay/gsuneido/core"
	"github.com/apmckinlay/gsuneido/db19"
	"github.com/apmckinlay/gsuneido/dbms"
	"pgregory.net/rapid"
	"verifharness/internal/ev"
	"verifharness/internal/gen"
	"verifharness/internal/rt"
)

// C34 runs on a fake clock: every generated case is executed in its own
// testing/synctest bubble, so the real server ticker (db19.StartTimestamps)
// and the real client expiry goroutines (core tsExpire, one per client) run on
// a clock the harness owns. rapid itself stays outside the bubble: the whole
// schedule is drawn first, then executed inside the bubble, and the result is
// handed back over a channel that does not belong to the bubble.
//
// The ticker and expiry goroutines never end, so a bubble can never finish.
// After the case the bubble's root goroutine blocks on a channel from outside
// the bubble, which is not "durably blocked": the bubble's clock stops and its
// goroutines stay parked in time.Sleep for the rest of the process (a few
// goroutines per case, measured ~26 KB per case).

var tsNever = make(chan struct{}) // never written, not in any bubble

type tsOp struct {
	Kind string `json:"k"` // "srv": N server calls; "cli": N calls of client I; "adv": clock += N ms; "atk": clock to the next server tick + N ms
	I    int    `json:"i,omitempty"`
	N    int    `json:"n"`
}

type tsCase struct {
	StartMs  int    `json:"start_ms"` // offset within the second at which the server starts
	NClients int    `json:"clients"`
	Ops      []tsOp `json:"ops"`
}

func (c tsCase) String() string {
	var sb strings.Builder
	fmt.Fprintf(&sb, "start+%dms clients=%d:", c.StartMs, c.NClients)
	for _, o := range c.Ops {
		switch o.Kind {
		case "srv":
			fmt.Fprintf(&sb, " S*%d", o.N)
		case "cli":
			fmt.Fprintf(&sb, " c%d*%d", o.I, o.N)
		case "atk":
			fmt.Fprintf(&sb, " tick+%dms", o.N)
		default:
			fmt.Fprintf(&sb, " +%dms", o.N)
		}
	}
	return sb.String()
}

type tsResult struct {
	Err           string
	Values        int
	AcrossTick    int // clients that used a batch value after a server tick that followed the batch's fetch
	AcrossTickUse int
	Expired       int // client expiry events delivered
	Ticks         int // server ticks passed
	ExtraVals     int // SuTimestamp values (extra byte) handed out
	BatchVals     int // client-side +1ms batch values handed out
	FakeMs        int64
	Tail          []string
}

type tsWorld struct {
	th       *core.Thread
	origin   time.Time
	srvStart time.Time
	state    []core.VerifTsState
	started  []bool
	nextFire []time.Time // next wake-up of client i's tsExpire goroutine
	fetched  []time.Time // time of client i's last fetch from the server
	across   []int
	seen     map[string]tsGiven
	last     []core.PackableValue // per caller: 0 = server, i+1 = client i
	res      *tsResult
	log      []tsGiven // ring of the last values
}

type tsGiven struct {
	who int // 0 = server, i+1 = client i
	at  int64
	v   core.PackableValue
}

func whoStr(who int) string {
	if who == 0 {
		return "server"
	}
	return fmt.Sprintf("client %d", who-1)
}

func (g tsGiven) String() string { return fmt.Sprintf("t=%dms %s -> %v", g.at, whoStr(g.who), g.v) }

func (w *tsWorld) ms(t time.Time) int64 { return t.Sub(w.origin).Milliseconds() }

func (w *tsWorld) record(who int, v core.PackableValue) bool {
	w.res.Values++
	g := tsGiven{who, w.ms(time.Now()), v}
	if len(w.log) >= 40 {
		copy(w.log, w.log[1:])
		w.log = w.log[:39]
	}
	w.log = append(w.log, g)
	key := core.Pack(v)
	if prev, dup := w.seen[key]; dup {
		w.res.Err = fmt.Sprintf("timestamp %v handed out twice: to %s at t=%dms and to %s at t=%dms", v, whoStr(prev.who), prev.at, whoStr(who), g.at)
		return false
	}
	w.seen[key] = g
	if p := w.last[who]; p != nil && p.Compare(v) >= 0 {
		w.res.Err = fmt.Sprintf("%s received %v after %v: not increasing", whoStr(who), v, p)
		return false
	}
	w.last[who] = v
	if _, ok := v.(core.SuTimestamp); ok {
		w.res.ExtraVals++
	}
	return true
}

// advance moves the fake clock forward by d, delivering every client's expiry
// wake-up to that client's own state.
func (w *tsWorld) advance(d time.Duration) {
	target := time.Now().Add(d)
	for {
		best := -1
		for i := range w.state {
			if w.started[i] && !w.nextFire[i].After(target) && (best < 0 || w.nextFire[i].Before(w.nextFire[best])) {
				best = i
			}
		}
		if best < 0 {
			time.Sleep(time.Until(target))
			synctest.Wait()
			return
		}
		idle := core.VerifSwapTsState(w.state[best])
		time.Sleep(time.Until(w.nextFire[best]))
		synctest.Wait() // the expiry goroutine has run and sleeps again
		w.state[best] = core.VerifSwapTsState(idle)
		if s := w.state[best]; s.Count != s.Limit+1 {
			panic(fmt.Sprintf("harness: expiry of client %d not delivered (state %+v)", best, s))
		}
		w.res.Expired++
		w.nextFire[best] = w.nextFire[best].Add(time.Second)
	}
}

func (w *tsWorld) ticksBetween(a, b time.Time) int {
	// server ticks happen at srvStart + k s, k >= 1
	ka := a.Sub(w.srvStart) / time.Second
	kb := b.Sub(w.srvStart) / time.Second
	return int(kb - ka)
}

func (w *tsWorld) clientCall(i int) bool {
	if !w.started[i] {
		// the first call starts this client's expiry goroutine with the
		// current phase; keep the phases of different clients distinct so that
		// each wake-up can be delivered to its own client's state
		for {
			clash := false
			for j := range w.state {
				if w.started[j] && w.nextFire[j].Sub(time.Now())%time.Second == 0 {
					clash = true
				}
			}
			if !clash {
				break
			}
			w.advance(time.Millisecond)
		}
	}
	idle := core.VerifSwapTsState(w.state[i])
	v := w.th.Timestamp()
	if !w.started[i] {
		synctest.Wait() // the new expiry goroutine is asleep now
		w.started[i] = true
		w.nextFire[i] = time.Now().Add(time.Second)
	}
	w.state[i] = core.VerifSwapTsState(idle)
	now := time.Now()
	if w.state[i].Count == 0 {
		w.fetched[i] = now
	} else {
		if _, ok := v.(core.SuDate); ok {
			w.res.BatchVals++
		}
		if w.ticksBetween(w.fetched[i], now) > 0 {
			w.across[i]++
			w.res.AcrossTickUse++
		}
	}
	return w.record(i+1, v)
}

// runTs executes a case; it must be called inside a bubble.
func runTs(c tsCase) (res tsResult) {
	w := &tsWorld{res: &res, origin: time.Now(),
		state: make([]core.VerifTsState, c.NClients), started: make([]bool, c.NClients),
		nextFire: make([]time.Time, c.NClients), fetched: make([]time.Time, c.NClients),
		across: make([]int, c.NClients),
		seen:   map[string]tsGiven{}, last: make([]core.PackableValue, c.NClients+1)}
	defer func() {
		if e := recover(); e != nil {
			res.Err = fmt.Sprintf("panic: %v", e)
		}
		for _, g := range w.log {
			res.Tail = append(res.Tail, g.String())
		}
		res.FakeMs = w.ms(time.Now())
		for _, n := range w.across {
			if n > 0 {
				res.AcrossTick++
			}
		}
	}()
	time.Sleep(time.Duration(c.StartMs) * time.Millisecond)
	w.srvStart = time.Now()
	db19.StartTimestamps()
	synctest.Wait()
	w.th = &core.Thread{}
	w.th.SetDbms(dbms.NewDbmsLocal(nil)) // DbmsLocal.Timestamp is the server side
	for _, o := range c.Ops {
		switch o.Kind {
		case "srv":
			for k := 0; k < o.N; k++ {
				if !w.record(0, w.th.Dbms().Timestamp()) {
					return
				}
			}
		case "cli":
			for k := 0; k < o.N; k++ {
				if !w.clientCall(o.I) {
					return
				}
			}
		case "adv", "atk":
			before := time.Now()
			d := time.Duration(o.N) * time.Millisecond
			if o.Kind == "atk" { // to the next server tick, plus N ms
				d += time.Second - before.Sub(w.srvStart)%time.Second
			}
			w.advance(d)
			res.Ticks += w.ticksBetween(before, time.Now())
		}
	}
	return
}

// inBubble runs the case in a fresh bubble and returns its result.
func inBubble(t *testing.T, c tsCase) tsResult {
	done := make(chan tsResult, 1) // created outside the bubble
	go synctest.Test(t, func(*testing.T) {
		done <- runTs(c)
		<-tsNever // freeze the bubble (see the comment at the top)
	})
	return <-done
}

func genCount(t *rapid.T) int {
	switch gen.Weighted(t, "ncls", []int{58, 30, 5, 4, 3}) {
	case 0:
		return 1 + gen.Uniform(t, "n1", 3)
	case 1:
		return 4 + gen.Uniform(t, "n5", 4) // around the batch size 5
	case 2:
		return 90 + gen.Uniform(t, "n100", 25) // 100 batches of 5 reach the threshold
	case 3:
		return 250 + gen.Uniform(t, "n256", 12) // around the 256 extra values
	default:
		return 480 + gen.Uniform(t, "n500", 60) // the rest of a second, 1 ms at a time
	}
}

func genTsCase(t *rapid.T) tsCase {
	c := tsCase{NClients: 1 + gen.Uniform(t, "clients", 6)}
	switch gen.Uniform(t, "startcls", 3) {
	case 0:
		c.StartMs = gen.Uniform(t, "start", 1000)
	case 1:
		c.StartMs = gen.Pick(t, "startEdge", []int{0, 1, 9, 10, 11, 499, 500, 501, 989, 990, 991, 999})
	default:
		c.StartMs = 0
	}
	nops := 2 + gen.Uniform(t, "nops", 38)
	wAdv := gen.Pick(t, "wAdv", []int{10, 25, 45})
	for k := 0; k < nops; k++ {
		if c.NClients >= 2 && gen.Chance(t, "hold", 8) {
			// several clients fetch a batch, a server tick passes, they go on using it
			n := 2 + gen.Uniform(t, "holders", min(3, c.NClients)-1)
			first := gen.Uniform(t, "firstHolder", c.NClients)
			for j := 0; j < n; j++ {
				c.Ops = append(c.Ops, tsOp{Kind: "cli", I: (first + j) % c.NClients, N: 1 + gen.Uniform(t, "hn", 2)})
			}
			c.Ops = append(c.Ops, tsOp{Kind: "atk", N: gen.Pick(t, "holdAfter", []int{0, 1, 5, 50, 300})})
			for j := 0; j < n; j++ {
				c.Ops = append(c.Ops, tsOp{Kind: "cli", I: (first + j) % c.NClients, N: 1 + gen.Uniform(t, "hm", 4)})
			}
			continue
		}
		switch gen.Weighted(t, "op", []int{20, 80 - wAdv, wAdv}) {
		case 0:
			c.Ops = append(c.Ops, tsOp{Kind: "srv", N: genCount(t)})
		case 1:
			c.Ops = append(c.Ops, tsOp{Kind: "cli", I: gen.Uniform(t, "i", c.NClients), N: genCount(t)})
		default:
			var d int
			if gen.Chance(t, "toTick", 35) {
				c.Ops = append(c.Ops, tsOp{Kind: "atk", N: gen.Pick(t, "after", []int{0, 0, 1, 3, 10, 40, 200, 600})})
				continue
			}
			switch gen.Weighted(t, "advcls", []int{30, 30, 10, 20, 10}) {
			case 0:
				d = gen.Uniform(t, "d20", 21)
			case 1:
				d = gen.Uniform(t, "d1000", 1000)
			case 2:
				d = 999 + gen.Uniform(t, "d1s", 3)
			case 3:
				d = 1000 + gen.Uniform(t, "d3000", 2001)
			default:
				d = gen.Pick(t, "dEdge", []int{1, 5, 10, 490, 499, 500, 501, 510, 2000, 3000})
			}
			c.Ops = append(c.Ops, tsOp{Kind: "adv", N: d})
		}
	}
	return c
}

// TestC34: timestamps are unique and increasing.
func TestC34(t *testing.T) {
	rec := ev.New("C34", "rapid-generated schedules executed on a fake clock (one synctest bubble per case): server start at a generated offset within the second (0..999 ms, edges weighted), 1-6 clients, 2-40 steps of {n server Timestamp() calls, n Thread.Timestamp() calls of client i, advance the clock 0..3000 ms, advance to the next server tick + 0..600 ms}, n in 1..3 / 4..7 / 90..114 / 250..261 / 480..539; the real ticker and one real expiry goroutine per client run on the fake clock. Non-trivial: >= 2 clients used a value of a batch that was fetched before a server tick after that tick. Distinct = by schedule.")
	rec.Assumptions = []string{
		"one process plays the server and all clients: the process-global client batch state is swapped per client with core.VerifSwapTsState, and each client's expiry wake-up is delivered to that client's state (distinct wake-up phases are enforced by delaying a client's first call by up to a few ms)",
		"callers are: the server-side caller and each client; values are compared as packed bytes (SuDate vs SuTimestamp with extra byte are distinct)",
		"the clock only moves forward; a server restart (new lifetime) is not part of a case",
	}
	defer rec.Write()

	rt.Check(t, rec, "schedule", 3000, 5000, func(rt *rapid.T) {
		c := genTsCase(rt)
		res := inBubble(t, c)
		if res.Err != "" {
			rt.Fatalf("%s\ncase: %s\nlast values:\n  %s", res.Err, c, strings.Join(res.Tail, "\n  "))
		}
		nt := res.AcrossTick >= 2
		rec.Case(nt, c.String())
		rec.LabelN("values_handed_out", res.Values)
		rec.LabelN("values_with_extra_byte", res.ExtraVals)
		rec.LabelN("values_from_client_ms_batch", res.BatchVals)
		rec.LabelN("client_expiries_delivered", res.Expired)
		rec.LabelN("server_ticks", res.Ticks)
		rec.LabelN("batch_values_used_after_a_tick", res.AcrossTickUse)
		rec.LabelN("fake_seconds", int(res.FakeMs/1000))
		rec.Label(fmt.Sprintf("clients_holding_batch_across_tick_%d", min(res.AcrossTick, 3)))
		rec.Label(fmt.Sprintf("clients_%d", c.NClients))
		switch {
		case c.StartMs == 0:
			rec.Label("start_ms_0")
		case c.StartMs < 500:
			rec.Label("start_ms_1_499")
		default:
			rec.Label("start_ms_500_999")
		}
		if nt && rec.WantSample("schedule") {
			rec.Sample("schedule", map[string]any{"case": c.String(), "values": res.Values,
				"clients_holding_batch_across_tick": res.AcrossTick, "expiries": res.Expired, "tail": res.Tail[max(0, len(res.Tail)-6):]})
		}
	})
}
