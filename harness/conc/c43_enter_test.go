package conc

import (
	"fmt"
	"os"
	"strings"
	"sync"
	"testing"
	"time"

	"github.com/apmckinlay/gsuneido/compile"
	"github.com/apmckinlay/gsuneido/core"
	"pgregory.net/rapid"
	"verifharness/internal/ev"
	"verifharness/internal/gen"
	"verifharness/internal/kf"
	"verifharness/internal/rt"
)

// C43 "enter": every way a value can enter a container that is ALREADY
// shared between threads, with a value that is a mutable container /
// instance / closure and not yet concurrent.
//   (a) deterministic, on the main thread: the value as reached through the
//       shared container, and its children, must report Concurrent? = true;
//   (b) several goroutines (own core.Thread each) mutate the inner value,
//       reaching it through the shared container every time; the final
//       content must equal the model (no lost update), -race must stay silent.
// The world is the one of the scripts sub-property (c43Setup), made
// concurrent with SetConcurrent() before the value is created.

// enterPoint: Enter = body of function (s, v); Get = body of function (s)
// returning the value as reached through the shared container.
type enterPoint struct {
	Name, Enter, Get string
	Kinds           string // "" = all kinds, else space separated kind names
}

var enterPoints = []enterPoint{
	// object.Add and friends (the initial list of s.ob is i0 i1 i2)
	{Name: "ob.Add", Enter: `s.ob.Add(v)`, Get: `return s.ob[3]`},
	{Name: "ob.Add several", Enter: `s.ob.Add('i_x', v, 'i_y')`, Get: `return s.ob[4]`},
	{Name: "ob.Add at:0", Enter: `s.ob.Add(v, at: 0)`, Get: `return s.ob[0]`},
	{Name: "ob.Add at:inside", Enter: `s.ob.Add(v, at: 2)`, Get: `return s.ob[2]`},
	{Name: "ob.Add at:end", Enter: `s.ob.Add(v, at: 3)`, Get: `return s.ob[3]`},
	{Name: "ob.Add at:beyond", Enter: `s.ob.Add(v, at: 10)`, Get: `return s.ob[10]`},
	{Name: "ob.Add several at:inside", Enter: `s.ob.Add('i_x', v, at: 1)`, Get: `return s.ob[2]`},
	{Name: "ob.Add several at:beyond", Enter: `s.ob.Add('i_x', v, at: 10)`, Get: `return s.ob[11]`},
	{Name: "ob.Add at:name", Enter: `s.ob.Add(v, at: #c)`, Get: `return s.ob.c`},
	{Name: "ob[i]= inside", Enter: `s.ob[1] = v`, Get: `return s.ob[1]`},
	{Name: "ob[i]= next", Enter: `s.ob[3] = v`, Get: `return s.ob[3]`},
	{Name: "ob[i]= beyond", Enter: `s.ob[7] = v`, Get: `return s.ob[7]`},
	{Name: "ob.name=", Enter: `s.ob.c = v`, Get: `return s.ob.c`},
	{Name: "ob.name= replace", Enter: `s.ob.a = v`, Get: `return s.ob.a`},
	{Name: "ob.CompareAndSet", Enter: `if not s.ob.CompareAndSet(#a, v, 'i_a') { throw "harness: CompareAndSet failed" }`, Get: `return s.ob.a`},
	{Name: "ob Delete+Add at:0", Enter: `s.ob.Delete(0); s.ob.Add(v, at: 0)`, Get: `return s.ob[0]`},
	{Name: "ob PopFirst+Add", Enter: `s.ob.PopFirst(); s.ob.Add(v)`, Get: `return s.ob[2]`},
	{Name: "ob Erase+Add at:", Enter: `s.ob.Erase(1); s.ob.Add(v, at: 1)`, Get: `return s.ob[1]`},
	{Name: "ob.sub.Add at:0", Enter: `s.ob.sub.Add(v, at: 0)`, Get: `return s.ob.sub[0]`},
	{Name: "ob.Set_default", Enter: `s.ob.Set_default(v)`, Get: `return s.ob.zz`},
	{Name: "Bind in ob", Enter: `s.ob.c = Bind(function (x) { return x }, v)`, Get: `return (s.ob.c)()`},
	// record
	{Name: "rec.Add", Enter: `s.rec.Add(v)`, Get: `return s.rec[0]`},
	{Name: "rec.Add at:0", Enter: `s.rec.Add('i_x'); s.rec.Add(v, at: 0)`, Get: `return s.rec[0]`},
	{Name: "rec.Add at:end", Enter: `s.rec.Add('i_x'); s.rec.Add(v, at: 1)`, Get: `return s.rec[1]`},
	{Name: "rec.name=", Enter: `s.rec.d = v`, Get: `return s.rec.d`},
	{Name: "rec rule result", Enter: `s.rec.AttachRule(#q, { v })`, Get: `return s.rec.q`},
	// instance member
	{Name: "inst.M=", Enter: `s.inst.M = v`, Get: `return s.inst.M`},
	{Name: "inst.New=", Enter: `s.inst.Q = v`, Get: `return s.inst.Q`},
	// closures with shared slots
	{Name: "closure object Add", Enter: `(s.addacc)(v)`, Get: `return (s.getacc)()[0]`},
	{Name: "closure object Add at:0", Enter: `(s.addacc)('i_x'); (s.getacc)().Add(v, at: 0)`, Get: `return (s.getacc)()[0]`},
	// a variable shared by closures is assigned after the closures have become concurrent
	{Name: "closure variable=", Enter: `(s.setv)(v)`, Get: `return (s.getv)()`},
}

// valueKind: Make = body of function (s) returning a fresh non-concurrent
// mutable value with one mutable child; Mutate = body of function (x, i);
// Final = body of function (x) returning Object(a, b), both must equal the
// number of Mutate calls; Children = body of function (x) returning an object
// of the children that must be concurrent too.
type valueKind struct{ Name, Make, Mutate, Final, Children string }

var valueKinds = []valueKind{
	{Name: "object", Make: `return Object(Object())`, Mutate: `x.Add(i); x[0].Add(i)`,
		Final: `return Object(x.Size() - 1, x[0].Size())`, Children: `return Object(x[0])`},
	{Name: "record", Make: `return Record(n: 0, c: Object())`, Mutate: `++x.n; x.c.Add(i)`,
		Final: `return Object(x.n, x.c.Size())`, Children: `return Object(x.c)`},
	{Name: "instance", Make: `i = new s.cls; i.N = 0; i.C = Object(); return i`, Mutate: `++x.N; x.C.Add(i)`,
		Final: `return Object(x.N, x.C.Size())`, Children: `return Object(x.C)`},
	// a record that comes from the database (row backed, lazily unpacked; made in Go, see runEnter);
	// reads of not yet cached and of missing field names through it and through private copies
	{Name: "dbrecord", Make: `x = s.dbnew; x.c = Object(); return x`,
		Mutate: `++x.n; x.c.Add(i); if x['m' $ i] isnt '' or x.s isnt 'i_d' { throw 'wrong value read from the record' }; c = x.Copy(); if c['q' $ i] isnt '' or c.s isnt 'i_d' or c.t isnt 'i_t' { throw 'wrong value read from the private copy' }`,
		Final: `return Object(x.n, x.c.Size())`, Children: `return Object(x.c)`},
	{Name: "closure", Make: `n = 0; c = Object(); return {|q| if q is 1 { n++; c.Add(1) }; q is 2 ? c : Object(n, c.Size()) }`,
		Mutate: `x(1)`, Final: `return x(0)`, Children: `return Object(x(2))`},
}

type enterCase struct {
	Entry   string `json:"entry"`
	Kind    string `json:"kind"`
	Threads int    `json:"threads"`
	N       int    `json:"n"` // mutations per thread
	Yields  []int  `json:"yields"`
	Note    string `json:"note,omitempty"`
}

func (c enterCase) String() string {
	return fmt.Sprintf("%s <- %s, %d threads x %d", c.Entry, c.Kind, c.Threads, c.N)
}

var (
	enterFnMu sync.Mutex
	enterFns  = map[string]core.Value{}
)

func suFn(params, body string) core.Value {
	src := "function (" + params + ") { " + body + " }"
	enterFnMu.Lock()
	defer enterFnMu.Unlock()
	if f, ok := enterFns[src]; ok {
		return f
	}
	f := compile.Constant(src)
	enterFns[src] = f
	return f
}

func findEnter(name string) *enterPoint {
	for i := range enterPoints {
		if enterPoints[i].Name == name {
			return &enterPoints[i]
		}
	}
	return nil
}

func findKind(name string) *valueKind {
	for i := range valueKinds {
		if valueKinds[i].Name == name {
			return &valueKinds[i]
		}
	}
	return nil
}

// enterKnown: the known-finding key for an entry point ("" if none applies).
func enterKnown(entry string) string {
	key := "enter:" + entry
	if _, ok := kf.Known("C43", key); ok {
		return key
	}
	return ""
}

// runEnter executes one case. It returns the violation ("" if none) and
// whether the deterministic part already failed (then no threads were run).
func runEnter(c enterCase) (msg string) {
	ep, vk := findEnter(c.Entry), findKind(c.Kind)
	if ep == nil || vk == nil {
		return "harness: unknown entry point or kind in " + c.String()
	}
	main := core.NewThread(nil)
	var world, g core.Value
	var kids *core.SuObject
	if m := catchGo(func() {
		world = main.Call(compile.Constant(c43Setup(c43Case{NInit: 3})))
		world.SetConcurrent() // the container is shared from here on
		if vk.Name == "dbrecord" {
			// thread-private carrier for the fresh row-backed record (n: 0, s: 'i_d', t: 'i_t')
			b := core.RecordBuilder{}
			b.Add(core.SuInt(0))
			b.Add(core.SuStr("i_d"))
			b.Add(core.SuStr("i_t"))
			flds := []string{"n", "s", "t"}
			fresh := core.SuRecordFromRow(core.Row{core.DbRec{Record: b.Build()}}, core.NewHeader([][]string{flds}, flds), "", nil)
			carrier := &core.SuObject{}
			carrier.Set(core.SuStr("dbnew"), fresh)
			carrier.Set(core.SuStr("cls"), world.(*core.SuObject).Get(main, core.SuStr("cls")))
			v := main.Call(suFn("s", vk.Make), carrier)
			if core.IsConcurrent(v) == core.True {
				panic("harness: fresh value is already concurrent")
			}
			main.Call(suFn("s, v", ep.Enter), world, v)
			g = main.Call(suFn("s", ep.Get), world)
			kids = main.Call(suFn("x", vk.Children), g).(*core.SuObject)
			return
		}
		v := main.Call(suFn("s", vk.Make), world)
		if core.IsConcurrent(v) == core.True {
			panic("harness: fresh value is already concurrent")
		}
		main.Call(suFn("s, v", ep.Enter), world, v)
		g = main.Call(suFn("s", ep.Get), world)
		kids = main.Call(suFn("x", vk.Children), g).(*core.SuObject)
	}); m != "" {
		return "setup/enter failed: " + m
	}
	// (a) deterministic
	if ic := core.IsConcurrent(g); ic != core.True {
		return fmt.Sprintf("(a) a fresh %s entered the shared container by `%s`; reached through it, Concurrent? is %v (must be true)", vk.Name, ep.Enter, ic)
	}
	for i := 0; i < kids.ListSize(); i++ {
		if ic := core.IsConcurrent(kids.ListGet(i)); ic != core.True {
			return fmt.Sprintf("(a) a fresh %s entered the shared container by `%s`; Concurrent? of its child #%d is %v (must be true)", vk.Name, ep.Enter, i, ic)
		}
	}
	// (b) threads mutate the inner value through the shared container
	worker := suFn("s, get, mutate, n", `for (i = 0; i < n; ++i) mutate(get(s), i)`) // Thread.Call takes at most 4 arguments
	get, mutate := suFn("s", ep.Get), suFn("x, i", vk.Mutate)
	errs := make([]string, c.Threads)
	var wg sync.WaitGroup
	start := make(chan struct{})
	for t := 0; t < c.Threads; t++ {
		wg.Add(1)
		th := core.NewThread(main)
		go func(t int) {
			defer wg.Done()
			<-start
			yield(c.Yields[t%len(c.Yields)])
			errs[t] = catchGo(func() {
				th.Call(worker, world, get, mutate, core.IntVal(c.N))
			})
		}(t)
	}
	close(start)
	done := make(chan struct{})
	go func() { wg.Wait(); close(done) }()
	select {
	case <-done:
	case <-time.After(120 * time.Second): // watchdog only
		return "(b) threads did not finish within 120 s (deadlock?)"
	}
	for t, e := range errs {
		if e != "" {
			return fmt.Sprintf("(b) thread %d failed: %s", t, e)
		}
	}
	var fin *core.SuObject
	if m := catchGo(func() {
		fin = main.Call(suFn("x", vk.Final), main.Call(get, world)).(*core.SuObject)
	}); m != "" {
		return "(b) reading the final state failed: " + m
	}
	want := c.Threads * c.N
	a, b := core.ToInt(fin.ListGet(0)), core.ToInt(fin.ListGet(1))
	if a != want || b != want {
		return fmt.Sprintf("(b) %d threads x %d mutations of the %s (and of its child) through the shared container: final counts %d and %d, model %d (lost updates)", c.Threads, c.N, vk.Name, a, b, want)
	}
	return ""
}

// c43Enter is the "enter" sub-property of TestC43.
func c43Enter(t *testing.T, rec *ev.Rec) {
	journal := rt.ReplayOut("c43_enter_running.json")
	rt.Check(t, rec, "enter", 600, 3000, func(t *rapid.T) {
		ep := enterPoints[gen.Uniform(t, "entry", len(enterPoints))]
		vk := valueKinds[gen.Uniform(t, "kind", len(valueKinds))]
		c := enterCase{Entry: ep.Name, Kind: vk.Name, Threads: 2 + gen.Uniform(t, "threads", 5),
			N: gen.Pick(t, "n", []int{5, 40, 150, 400})}
		for i := 0; i < c.Threads; i++ {
			c.Yields = append(c.Yields, gen.Uniform(t, "y", 4))
		}
		if key := enterKnown(ep.Name); key != "" {
			e, _ := kf.Known("C43", key)
			rec.Excluded(key)
			rec.Known(e.What)
			return
		}
		writeJSON("c43_enter_running.json", c) // journal: replay file if the race detector halts the process
		if msg := runEnter(c); msg != "" {
			c.Note = msg
			p := writeJSON("c43_enter_case.json", c)
			t.Fatalf("%s\ncase: %s\nwritten to %s", msg, c, p)
		}
		os.Remove(journal)
		rec.Case(c.Threads >= 2 && c.N >= 40, "enter "+c.String())
		rec.Label("enter: " + ep.Name)
		rec.Label("enter kind: " + vk.Name)
		if rec.WantSample("enter") {
			rec.Sample("enter", c.String())
		}
	})
}

func replayEnter(t *testing.T, rec *ev.Rec, p string) {
	var c enterCase
	if err := readJSON(p, &c); err != nil {
		t.Fatalf("replay: %v", err)
	}
	reps := rt.N(100, 1000)
	for i := 0; i < reps; i++ {
		rec.Case(true, fmt.Sprint(i))
		if msg := runEnter(c); msg != "" {
			rt.Fail(t, rec, "enter", p, fmt.Sprintf("repetition %d: %s\ncase: %s", i, msg, c))
			return
		}
	}
	fmt.Printf("replay %s: %d repetitions without a violation\n", p, reps)
}

var _ = strings.Contains
