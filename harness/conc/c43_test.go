package conc

import (
	"fmt"
	"os"
	"regexp"
	"sort"
	"strings"
	"sync"
	"testing"
	"time"

	_ "github.com/apmckinlay/gsuneido/builtin" // object/record/instance methods
	"github.com/apmckinlay/gsuneido/compile"
	"github.com/apmckinlay/gsuneido/core"
	"pgregory.net/rapid"
	"verifharness/internal/ev"
	"verifharness/internal/gen"
	"verifharness/internal/kf"
	"verifharness/internal/rt"
)

// C43: values shared between threads. The shared world is built by a
// Suneido setup function on a main thread, put into one container and made
// concurrent with SetConcurrent() exactly as the Thread builtin does with its
// argument object; then 2-8 goroutines, each with its own core.Thread (child of
// the main thread), run generated scripts of small Suneido operations against
// it. Every operation is its own compiled Suneido function
//     function (s, log, v) { try { <body> } catch (e) { log.Add('e', e) } }
// so that generated yields can be inserted between operations. log is private
// to the goroutine; it receives (tag, value) pairs that the oracle judges after
// all goroutines have finished.

// opT is an operation template. Effects on the shared object s.ob are declared
// for the feasible-size oracle and the non-triviality rule.
type opT struct {
	Name string
	Body string // Suneido statements; s = shared world, log = private log, v = this op's unique value
	// effects on s.ob
	ObWrite, ObIter    bool
	ObAdd              bool // adds exactly one member when it completes
	ObMayAdd, ObMayDel bool // may add / remove one member
	AccAdd             bool // adds exactly one element to the closure's shared object
	Inc                int  // increments the shared closure counter this many times
	RecWrite           int  // number of record writes (each may call the record's observer, which increments the counter)
	Group              string
}

var opTemplates = []opT{
	// shared object: writers
	{Name: "ob.Add", Body: `s.ob.Add(v)`, ObWrite: true, ObAdd: true, Group: "ob"},
	{Name: "ob[1]=", Body: `s.ob[1] = v`, ObWrite: true, ObMayAdd: true, Group: "ob"},
	{Name: "ob[0]=", Body: `s.ob[0] = v`, ObWrite: true, ObMayAdd: true, Group: "ob"},
	{Name: "ob.a=", Body: `s.ob.a = v`, ObWrite: true, ObMayAdd: true, Group: "ob"},
	{Name: "ob.c=", Body: `s.ob.c = v`, ObWrite: true, ObMayAdd: true, Group: "ob"},
	{Name: "ob[7]=", Body: `s.ob[7] = v`, ObWrite: true, ObMayAdd: true, Group: "ob"},
	{Name: "ob.Delete0", Body: `s.ob.Delete(0)`, ObWrite: true, ObMayDel: true, Group: "ob"},
	{Name: "ob.Delete_c", Body: `s.ob.Delete(#c)`, ObWrite: true, ObMayDel: true, Group: "ob"},
	{Name: "ob.Erase1", Body: `s.ob.Erase(1)`, ObWrite: true, ObMayDel: true, Group: "ob"},
	{Name: "ob.PopFirst", Body: `x = s.ob.PopFirst(); if x isnt s.ob { log.Add('v', x) }`, ObWrite: true, ObMayDel: true, Group: "ob"},
	{Name: "ob.PopLast", Body: `x = s.ob.PopLast(); if x isnt s.ob { log.Add('v', x) }`, ObWrite: true, ObMayDel: true, Group: "ob"},
	{Name: "ob.Sort!", Body: `s.ob.Sort!()`, ObWrite: true, Group: "ob"},
	{Name: "ob.Sort!(lt)", Body: `s.ob.Sort!({|x,y| Display(x) > Display(y) })`, ObWrite: true, Group: "ob"},
	{Name: "ob.Reverse!", Body: `s.ob.Reverse!()`, ObWrite: true, Group: "ob"},
	{Name: "ob.Unique!", Body: `s.ob.Unique!()`, ObWrite: true, Group: "ob"},
	{Name: "ob.CompareAndSet", Body: `log.Add('b', s.ob.CompareAndSet(#a, v, 'i_a'))`, ObWrite: true, Group: "ob"},
	{Name: "ob.sub=", Body: `s.ob.sub = Object(v)`, ObWrite: true, ObMayAdd: true, Group: "ob"},
	{Name: "ob.sub.Add", Body: `s.ob.sub.Add(v)`, Group: "ob"},
	{Name: "ob.Sort!(lt)*4", Body: `for (i = 0; i < 4; ++i) { s.ob.Sort!({|x,y| Display(x) > Display(y) }); s.ob.Sort!({|x,y| Display(x) < Display(y) }) }`, ObWrite: true, Group: "ob"},
	{Name: "ob.Sort!*4", Body: `for (i = 0; i < 4; ++i) { s.ob.Sort!(); s.ob.Reverse!() }`, ObWrite: true, Group: "ob"},
	{Name: "ob[1]=*20", Body: `for (i = 0; i < 20; ++i) s.ob[1] = v`, ObWrite: true, ObMayAdd: true, Group: "ob"},
	{Name: "ob.c=*20", Body: `for (i = 0; i < 20; ++i) s.ob.c = v`, ObWrite: true, ObMayAdd: true, Group: "ob"},
	// shared object: readers
	{Name: "ob[0]*30", Body: `for (i = 0; i < 30; ++i) x = s.ob[0]; log.Add('v', x)`, Group: "ob"},
	{Name: "ob.c*30", Body: `for (i = 0; i < 30; ++i) x = s.ob.c; log.Add('v', x)`, Group: "ob"},
	{Name: "iter ob*8", Body: `for (i = 0; i < 8; ++i) for x in s.ob { y = x }; log.Add('v', y)`, ObIter: true, Group: "ob"},
	{Name: "ob.Has?*10", Body: `for (i = 0; i < 10; ++i) x = s.ob.Has?(v); log.Add('b', x)`, Group: "ob"},
	{Name: "ob.Copy*8", Body: `for (i = 0; i < 8; ++i) { c = s.ob.Copy(); c.Add(v) }; log.Add('v', c)`, Group: "ob"},
	{Name: "ob[0]", Body: `log.Add('v', s.ob[0])`, Group: "ob"},
	{Name: "ob.a", Body: `log.Add('v', s.ob.a)`, Group: "ob"},
	{Name: "ob.c", Body: `log.Add('v', s.ob.c)`, Group: "ob"},
	{Name: "ob.GetDefault", Body: `log.Add('v', s.ob.GetDefault(#c, v))`, Group: "ob"},
	{Name: "ob.Member?", Body: `log.Add('b', s.ob.Member?(#c))`, Group: "ob"},
	{Name: "ob.Has?", Body: `log.Add('b', s.ob.Has?('i0'))`, Group: "ob"},
	{Name: "ob.Find", Body: `log.Add('k', s.ob.Find('i1'))`, Group: "ob"},
	{Name: "ob.Size", Body: `log.Add('s', s.ob.Size())`, Group: "ob"},
	{Name: "for x in ob", Body: `for x in s.ob { log.Add('v', x) }`, ObIter: true, Group: "ob"},
	{Name: "for m,x in ob", Body: `for m, x in s.ob { log.Add('k', m); log.Add('v', x) }`, ObIter: true, Group: "ob"},
	{Name: "ob.Values", Body: `for x in s.ob.Values() { log.Add('v', x) }`, ObIter: true, Group: "ob"},
	{Name: "ob.Members", Body: `for x in s.ob.Members() { log.Add('k', x) }`, ObIter: true, Group: "ob"},
	{Name: "ob.Assocs", Body: `for x in s.ob.Assocs() { log.Add('k', x[0]); log.Add('v', x[1]) }`, ObIter: true, Group: "ob"},
	{Name: "ob.Copy+Add", Body: `c = s.ob.Copy(); c.Add(v); log.Add('v', c)`, Group: "ob"},
	{Name: "ob.Copy+read", Body: `c = s.ob.Copy(); for x in c { log.Add('v', x) }`, Group: "ob"},
	{Name: "Pack(ob)", Body: `log.Add('v', Unpack(Pack(s.ob)))`, ObIter: true, Group: "ob"},
	{Name: "Display(ob)", Body: `log.Add('d', Display(s.ob))`, ObIter: true, Group: "ob"},
	{Name: "ob.Join", Body: `log.Add('d', s.ob.Join(','))`, ObIter: true, Group: "ob"},
	{Name: "ob.Max", Body: `if s.ob.Size(list:) > 0 { log.Add('v', s.ob.Max()) }`, Group: "ob"},
	{Name: "ob.BinarySearch", Body: `log.Add('s', s.ob.BinarySearch(v))`, Group: "ob"},
	{Name: "ob.BinarySearch(lt)", Body: `log.Add('s', s.ob.BinarySearch(v, {|x,y| Display(x) < Display(y) }))`, Group: "ob"},
	{Name: "ob.sub", Body: `log.Add('v', s.ob.sub.Copy())`, Group: "ob"},
	// shared record with rule and observer
	{Name: "rec.a=", Body: `s.rec.a = v`, RecWrite: 1, Group: "rec"},
	{Name: "rec.b=", Body: `s.rec.b = v`, RecWrite: 1, Group: "rec"},
	{Name: "rec.d=", Body: `s.rec.d = v`, RecWrite: 1, Group: "rec"},
	{Name: "rec.a", Body: `log.Add('v', s.rec.a)`, Group: "rec"},
	{Name: "rec.a*30", Body: `for (i = 0; i < 30; ++i) x = s.rec.a; log.Add('v', x)`, Group: "rec"},
	{Name: "rec.r*10", Body: `for (i = 0; i < 10; ++i) x = s.rec.r; log.Add('v', x)`, Group: "rec"},
	{Name: "rec.a=*10", Body: `for (i = 0; i < 10; ++i) s.rec.a = (i % 2 is 0 ? v : v $ 'x')`, RecWrite: 10, Group: "rec"},
	{Name: "rec.r", Body: `log.Add('v', s.rec.r)`, Group: "rec"},
	{Name: "rec.zz", Body: `log.Add('v', s.rec.zz)`, Group: "rec"},
	{Name: "rec.Invalidate", Body: `s.rec.Invalidate(#r)`, RecWrite: 1, Group: "rec"},
	{Name: "rec.Copy", Body: `log.Add('v', s.rec.Copy())`, Group: "rec"},
	{Name: "for x in rec", Body: `for x in s.rec { log.Add('v', x) }`, Group: "rec"},
	{Name: "rec.Delete_d", Body: `s.rec.Delete(#d)`, RecWrite: 1, Group: "rec"},
	{Name: "Pack(rec)", Body: `log.Add('v', Unpack(Pack(s.rec)))`, Group: "rec"},
	{Name: "rec.Members", Body: `for x in s.rec.Members() { log.Add('k', x) }`, Group: "rec"},
	// shared record that comes from the database: row backed, lazily unpacked; its Header
	// caches field lookups (also of missing names), so plain reads write to the Header
	{Name: "dbrec.f2", Body: `log.Add('v', s.dbrec.f2)`, Group: "dbrec"},
	{Name: "dbrec fields", Body: `for f in #(f0, f1, f2, f3, f4, f5) { x = s.dbrec[f] }; log.Add('v', x)`, Group: "dbrec"},
	{Name: "dbrec[missing]*20", Body: `for (i = 0; i < 20; ++i) x = s.dbrec[v $ '_' $ i]; log.Add('v', x)`, Group: "dbrec"},
	{Name: "dbrec.Copy missing*20", Body: `c = s.dbrec.Copy(); for (i = 0; i < 20; ++i) x = c[v $ '_' $ i]; log.Add('v', x); log.Add('v', c.f3)`, Group: "dbrec"},
	{Name: "dbrec.Copy fields", Body: `c = s.dbrec.Copy(); for f in #(f5, f4, f3, f2, f1, f0) { x = c[f] }; log.Add('v', x); c.f0 = v; log.Add('v', c.f0)`, Group: "dbrec"},
	{Name: "dbrec.Copy*8", Body: `for (i = 0; i < 8; ++i) { c = s.dbrec.Copy(); x = c[v $ i] }; log.Add('v', c.f4)`, Group: "dbrec"},
	{Name: "dbrec.f1=", Body: `s.dbrec.f1 = v`, Group: "dbrec"},
	{Name: "dbrec.new=", Body: `s.dbrec.d = v`, Group: "dbrec"},
	{Name: "for x in dbrec", Body: `for x in s.dbrec { log.Add('v', x) }`, Group: "dbrec"},
	{Name: "dbrec.Members", Body: `for x in s.dbrec.Members() { log.Add('k', x) }`, Group: "dbrec"},
	{Name: "Pack(dbrec)", Body: `log.Add('v', Unpack(Pack(s.dbrec)))`, Group: "dbrec"},
	// closures with shared slots
	{Name: "inc()", Body: `(s.inc)()`, Inc: 1, Group: "closure"},
	{Name: "inc()*20", Body: `for (i = 0; i < 20; ++i) (s.inc)()`, Inc: 20, Group: "closure"},
	{Name: "getn()*20", Body: `for (i = 0; i < 20; ++i) x = (s.getn)(); log.Add('n', x)`, Group: "closure"},
	{Name: "setv()*20", Body: `for (i = 0; i < 20; ++i) (s.setv)(v)`, Group: "closure"},
	{Name: "getv()*20", Body: `for (i = 0; i < 20; ++i) x = (s.getv)(); log.Add('v', x)`, Group: "closure"},
	{Name: "getn()", Body: `log.Add('n', (s.getn)())`, Group: "closure"},
	{Name: "setv()", Body: `(s.setv)(v)`, Group: "closure"},
	{Name: "getv()", Body: `log.Add('v', (s.getv)())`, Group: "closure"},
	{Name: "addacc()", Body: `(s.addacc)(v)`, AccAdd: true, Group: "closure"},
	{Name: "getacc()", Body: `log.Add('v', (s.getacc)().Copy())`, Group: "closure"},
	{Name: "setob()", Body: `(s.setv)(Object(v))`, Group: "closure"},
	// a block parameter captured by a nested block lives in the shared slots of the enclosing function
	{Name: "echo()", Body: `log.Add('v', (s.echo)(v))`, Group: "closure"},
	{Name: "echo()*20", Body: `for (i = 0; i < 20; ++i) x = (s.echo)(v); log.Add('v', x)`, Group: "closure"},
	// class and instance
	{Name: "cls.X", Body: `log.Add('v', s.cls.X)`, Group: "class"},
	{Name: "cls.L[1]", Body: `log.Add('v', s.cls.L[1])`, Group: "class"},
	{Name: "for x in cls.L", Body: `for x in s.cls.L { log.Add('v', x) }`, Group: "class"},
	{Name: "cls.R.a", Body: `log.Add('v', s.cls.R.a)`, Group: "class"},
	{Name: "cls.R.zz", Body: `log.Add('v', s.cls.R.zz)`, Group: "class"},
	{Name: "cls.F()", Body: `log.Add('v', s.cls.F())`, Group: "class"},
	{Name: "new cls", Body: `i2 = new s.cls; i2.M = v; log.Add('v', i2.G())`, Group: "class"},
	{Name: "inst.M=", Body: `s.inst.M = v`, Group: "class"},
	{Name: "inst.M", Body: `log.Add('v', s.inst.M)`, Group: "class"},
	{Name: "inst.M*30", Body: `for (i = 0; i < 30; ++i) x = s.inst.M; log.Add('v', x)`, Group: "class"},
	{Name: "inst.M=*20", Body: `for (i = 0; i < 20; ++i) s.inst.M = v`, Group: "class"},
	{Name: "cls.L*20", Body: `for (i = 0; i < 20; ++i) for x in s.cls.L { y = x }; log.Add('v', y)`, Group: "class"},
	{Name: "inst.G()", Body: `log.Add('v', s.inst.G())`, Group: "class"},
	{Name: "inst.Copy", Body: `c = s.inst.Copy(); log.Add('v', c.M)`, Group: "class"},
}

var opByName = func() map[string]*opT {
	m := map[string]*opT{}
	for i := range opTemplates {
		m[opTemplates[i].Name] = &opTemplates[i]
	}
	return m
}()

var (
	opFnMu sync.Mutex
	opFns  = map[string]core.Value{}
)

func opFn(name string) core.Value {
	opFnMu.Lock()
	defer opFnMu.Unlock()
	if f, ok := opFns[name]; ok {
		return f
	}
	f := compile.Constant("function (s, log, v) { try { " + opByName[name].Body + " } catch (e) { log.Add('e', e) } }")
	opFns[name] = f
	return f
}

type c43Step struct {
	Op    string `json:"op"`
	V     string `json:"v"`
	Yield int    `json:"yield,omitempty"`
}

type c43Case struct {
	NInit    int         `json:"n_init"`   // initial list members of s.ob
	Default  bool        `json:"default"`  // s.ob.Set_default('i_def')
	Observer bool        `json:"observer"` // the record has an observer
	Scripts  [][]c43Step `json:"scripts"`
	Note     string      `json:"note,omitempty"`
}

func (c c43Case) canon() string {
	var sb strings.Builder
	fmt.Fprintf(&sb, "init %d def %v obs %v:", c.NInit, c.Default, c.Observer)
	for _, s := range c.Scripts {
		for _, st := range s {
			sb.WriteString(" " + st.Op)
			if st.Yield > 0 {
				fmt.Fprintf(&sb, "~%d", st.Yield)
			}
		}
		sb.WriteString(" |")
	}
	return sb.String()
}

func c43Setup(c c43Case) string {
	var sb strings.Builder
	sb.WriteString("function () {\n ob = Object(")
	for i := 0; i < c.NInit; i++ {
		fmt.Fprintf(&sb, "'i%d', ", i)
	}
	sb.WriteString("a: 'i_a', b: 'i_b')\n ob.sub = Object('i_s')\n")
	if c.Default {
		sb.WriteString(" ob.Set_default('i_def')\n")
	}
	sb.WriteString(` rec = Record(a: 'i_ra', b: 'i_rb')
 rec.AttachRule('r', function () { return 'R(' $ .a $ ',' $ .b $ ')' })
 n = 0
 v = 'i_v'
 acc = Object()
`)
	if c.Observer {
		sb.WriteString(" rec.Observer({|member| n++ })\n")
	}
	sb.WriteString(` inc = { n++ }
 getn = { n }
 setv = {|x| v = x }
 getv = { v }
 addacc = {|x| acc.Add(x) }
 getacc = { acc }
 echo = {|x| inner = { x }; inner() }
 cls = class { X: 'i_cx'; L: #('i_l0', 'i_l1'); R: #{a: 'i_cr'}; F() { return .X }; G() { return .M } }
 inst = new cls
 inst.M = 'i_m'
 return Object(:ob, :rec, :inc, :getn, :setv, :getv, :addacc, :getacc, :echo, :cls, :inst)
}`)
	return sb.String()
}

type c43Stats struct {
	obWriters, obIters         int
	modDuringIter, duringSort  int
	otherErr                   int
	reads                      int
	finalOb, finalAcc, finalN  int
	errSamples                 map[string]int
	knownPackGrow              int
}

var reRule = regexp.MustCompile(`^R\(([^,()]*),([^,()]*)\)$`)

// runC43 executes the case once and judges it. It returns "" or the violation.
func runC43(c c43Case) (string, c43Stats) {
	st := c43Stats{errSamples: map[string]int{}}
	main := core.NewThread(nil)
	var world core.Value
	if msg := catchGo(func() { world = main.Call(compile.Constant(c43Setup(c))) }); msg != "" {
		return "harness: setup failed: " + msg, st
	}
	world.(*core.SuObject).Set(core.SuStr("dbrec"), newDbRec())
	// as builtin Thread does with its argument object
	world.SetConcurrent()

	domain := map[string]bool{"": true, "i_a": true, "i_b": true, "i_s": true, "i_def": true, "i_ra": true, "i_rb": true,
		"i_v": true, "i_cx": true, "i_l0": true, "i_l1": true, "i_cr": true, "i_m": true}
	for i := 0; i < c.NInit; i++ {
		domain[fmt.Sprintf("i%d", i)] = true
	}
	for i := range dbRecFields {
		domain[fmt.Sprintf("i_d%d", i)] = true
	}
	attemptAdd, attemptMayAdd, attemptDel, incs, recWrites, accAdds := 0, 0, 0, 0, 0, 0
	uniqueUsed := false
	for _, s := range c.Scripts {
		w, it := false, false
		for _, step := range s {
			domain[step.V] = true
			domain[step.V+"x"] = true
			o := opByName[step.Op]
			w = w || o.ObWrite
			it = it || o.ObIter
			if o.ObAdd {
				attemptAdd++
			}
			if o.ObMayAdd {
				attemptMayAdd++
			}
			if o.ObMayDel {
				attemptDel++
			}
			if step.Op == "ob.Unique!" {
				// Unique! removes adjacent duplicates, which other scripts can
				// legitimately create (ob[1]=v; PopFirst; ob[1]=v): any number of
				// members may disappear, so there is no lower bound on the size
				uniqueUsed = true
			}
			incs += o.Inc
			recWrites += o.RecWrite
			if o.AccAdd {
				accAdds++
			}
		}
		if w {
			st.obWriters++
		}
		if it {
			st.obIters++
		}
	}

	logs := make([]*core.SuObject, len(c.Scripts))
	marks := make([][]int, len(c.Scripts)) // marks[g][i] = log length after op i
	crashes := make([]string, len(c.Scripts))
	var wg sync.WaitGroup
	start := make(chan struct{})
	for g, s := range c.Scripts {
		wg.Add(1)
		th := core.NewThread(main)
		logs[g] = &core.SuObject{}
		fns := make([]core.Value, len(s))
		for i, step := range s {
			fns[i] = opFn(step.Op)
		}
		go func(g int, s []c43Step) {
			defer wg.Done()
			<-start
			for i, step := range s {
				yield(step.Yield)
				if msg := catchGo(func() { th.Call(fns[i], world, logs[g], core.SuStr(step.V)) }); msg != "" {
					// A Suneido-level exception raised inside the catch block (seen:
					// "return value not checked" from Thread.ReturnThrow left set by a
					// CompareAndSet that raised; not a concurrency matter) is logged
					// like any other exception; Go runtime errors are failures.
					if !strings.HasPrefix(msg, "SuExcept: ") && !strings.HasPrefix(msg, "string: ") {
						crashes[g] = fmt.Sprintf("op #%d %s: %s", i, step.Op, msg)
						return
					}
					logs[g].Add(core.SuStr("e"))
					logs[g].Add(core.SuStr(msg))
				}
				th.ReturnThrow = false
				marks[g] = append(marks[g], logs[g].ListSize())
			}
		}(g, s)
	}
	close(start)
	done := make(chan struct{})
	go func() { wg.Wait(); close(done) }()
	select {
	case <-done:
	case <-time.After(120 * time.Second): // watchdog only
		return "scripts did not finish within 120 s (deadlock?)", st
	}
	for g, cr := range crashes {
		if cr != "" {
			return fmt.Sprintf("goroutine %d: uncaught failure escaped the Suneido try/catch: %s", g, cr), st
		}
	}

	var bad string
	var checkVal func(v core.Value, depth int) string
	checkVal = func(v core.Value, depth int) string {
		if depth > 6 {
			return "nesting deeper than anything a script builds"
		}
		switch x := v.(type) {
		case *core.SuObject:
			return checkContainer(x, depth, checkVal)
		case *core.SuRecord:
			return checkContainer(x.ToObject(), depth, checkVal)
		}
		if s, ok := v.ToStr(); ok {
			if domain[s] {
				return ""
			}
			if m := reRule.FindStringSubmatch(s); m != nil && domain[m[1]] && domain[m[2]] {
				return ""
			}
			return fmt.Sprintf("string %q that no script wrote", s)
		}
		if v == core.True || v == core.False {
			return ""
		}
		if _, ok := v.IfInt(); ok {
			return "" // keys in Assocs, positions
		}
		return fmt.Sprintf("value %s of type %s that no script wrote", safeStr(v), v.Type())
	}
	maxN := incs + 3*recWrites*boolInt(c.Observer)
	for g, lg := range logs {
		n := lg.ListSize()
		if n%2 != 0 {
			return fmt.Sprintf("goroutine %d: private log has odd length %d", g, n), st
		}
		opi := 0
		for i := 0; i+1 < n; i += 2 {
			for opi < len(marks[g])-1 && marks[g][opi] <= i {
				opi++
			}
			opName := c.Scripts[g][opi].Op
			tag, _ := lg.ListGet(i).ToStr()
			v := lg.ListGet(i + 1)
			st.reads++
			switch tag {
			case "e":
				msg := core.ToStr(v)
				if strings.HasPrefix(opName, "Pack(") && (strings.Contains(msg, "runtime error: slice bounds out of range") ||
					strings.Contains(msg, "runtime error: index out of range")) {
					if _, ok := kf.Known("C43", "exc:pack-grow"); ok {
						st.knownPackGrow++
						continue
					}
				}
				switch {
				case strings.Contains(msg, "modified during iteration"):
					st.modDuringIter++
				case strings.Contains(msg, "during sort"), strings.Contains(msg, "during BinarySearch"):
					st.duringSort++
				default:
					st.otherErr++
				}
				st.errSamples[msg]++
				if strings.Contains(msg, "runtime error") || strings.Contains(msg, "ASSERT") ||
					strings.Contains(msg, "nil pointer") || strings.Contains(msg, "interface conversion") {
					bad = fmt.Sprintf("goroutine %d op %s: internal error surfaced as exception: %s", g, opName, msg)
				}
			case "v":
				if why := checkVal(v, 0); why != "" {
					bad = fmt.Sprintf("goroutine %d read %s (log entry %d: %s)", g, why, i/2, safeStr(v))
				}
			case "n":
				k, ok := v.IfInt()
				if !ok || k < 0 || k > maxN {
					bad = fmt.Sprintf("goroutine %d read counter %v, feasible 0..%d", g, v, maxN)
				}
			case "s":
				if k, ok := v.IfInt(); !ok || k < 0 || k > c.NInit+3+attemptAdd+attemptMayAdd {
					bad = fmt.Sprintf("goroutine %d read size/position %v, feasible 0..%d", g, v, c.NInit+3+attemptAdd+attemptMayAdd)
				}
			case "b":
				if v != core.True && v != core.False {
					bad = fmt.Sprintf("goroutine %d: boolean result is %v", g, v)
				}
			case "k":
				if why := checkKey(v); why != "" {
					bad = fmt.Sprintf("goroutine %d read member name %v: %s", g, v, why)
				}
			case "d":
				if _, ok := v.ToStr(); !ok {
					bad = fmt.Sprintf("goroutine %d: display result is %v", g, v)
				}
			default:
				bad = fmt.Sprintf("goroutine %d: harness: unknown log tag %q", g, tag)
			}
			if bad != "" {
				return bad, st
			}
		}
	}
	// final state
	w := world.(*core.SuObject)
	get := func(name string) core.Value { return w.Get(main, core.SuStr(name)) }
	ob := get("ob").(*core.SuObject)
	st.finalOb = ob.Size()
	if why := checkContainer(ob, 0, checkVal); why != "" {
		return "final shared object contains " + why, st
	}
	lo := max(0, c.NInit+3-attemptDel) // no exception can undo a completed Add, but an Add may have failed
	hi := c.NInit + 3 + attemptAdd + attemptMayAdd
	if st.otherErr+st.duringSort == 0 {
		lo = max(0, c.NInit+3+attemptAdd-attemptDel) // every Add completed
	}
	if uniqueUsed {
		lo = 0
	}
	if st.finalOb < lo || st.finalOb > hi {
		return fmt.Sprintf("final size of the shared object is %d, feasible %d..%d (%d initial, %d Add, %d may-add, %d may-delete operations)",
			st.finalOb, lo, hi, c.NInit+3, attemptAdd, attemptMayAdd, attemptDel), st
	}
	var acc *core.SuObject
	var nfinal int
	if msg := catchGo(func() {
		acc = main.Call(get("getacc")).(*core.SuObject)
		nfinal = core.ToInt(main.Call(get("getn")))
	}); msg != "" {
		return "reading the closure's shared slots failed: " + msg, st
	}
	st.finalAcc, st.finalN = acc.Size(), nfinal
	if st.finalAcc > accAdds || (st.finalAcc < accAdds && st.otherErr+st.duringSort == 0) {
		return fmt.Sprintf("the closure's shared object has %d elements after %d Add calls (exceptions raised: %d)", st.finalAcc, accAdds, st.otherErr+st.duringSort), st
	}
	if why := checkContainer(acc, 0, checkVal); why != "" {
		return "closure's shared object contains " + why, st
	}
	if nfinal < incs || nfinal > maxN {
		return fmt.Sprintf("shared closure counter is %d after %d increments by scripts and at most %d by the observer (lost or invented update)", nfinal, incs, maxN-incs), st
	}
	rec := get("rec").(*core.SuRecord)
	if why := checkContainer(rec.ToObject(), 0, checkVal); why != "" {
		return "final shared record contains " + why, st
	}
	return "", st
}

func safeStr(v core.Value) (s string) {
	if msg := catchGo(func() { s = v.String() }); msg != "" {
		return "<" + msg + ">"
	}
	return s
}

var dbRecFields = []string{"f0", "f1", "f2", "f3", "f4", "f5"}

// newDbRec returns a record as a query returns it: backed by a database row,
// not yet unpacked (values f0..f5 = "i_d0".."i_d5").
func newDbRec() *core.SuRecord {
	b := core.RecordBuilder{}
	for i := range dbRecFields {
		b.Add(core.SuStr(fmt.Sprintf("i_d%d", i)))
	}
	row := core.Row{core.DbRec{Record: b.Build()}}
	hdr := core.NewHeader([][]string{dbRecFields}, dbRecFields)
	return core.SuRecordFromRow(row, hdr, "", nil)
}

func boolInt(b bool) int {
	if b {
		return 1
	}
	return 0
}

var c43Keys = map[string]bool{"a": true, "b": true, "c": true, "d": true, "r": true, "sub": true,
	"f0": true, "f1": true, "f2": true, "f3": true, "f4": true, "f5": true}

func checkKey(k core.Value) string {
	if i, ok := k.IfInt(); ok {
		if i < 0 || i > 100000 {
			return "integer key out of range"
		}
		return ""
	}
	if k == core.False {
		return "" // Find: not found
	}
	if s, ok := k.ToStr(); ok && c43Keys[s] {
		return ""
	}
	return "not a member name any script uses"
}

func checkContainer(ob *core.SuObject, depth int, checkVal func(core.Value, int) string) string {
	var why string
	msg := catchGo(func() {
		it := ob.Iter2(true, true)
		for k, v := it(); k != nil; k, v = it() {
			if v == nil {
				why = fmt.Sprintf("a nil value under key %v", k)
				return
			}
			if w := checkKey(k); w != "" {
				why = fmt.Sprintf("key %v: %s", k, w)
				return
			}
			if w := checkVal(v, depth+1); w != "" {
				why = w
				return
			}
		}
	})
	if msg != "" {
		return "a container that cannot be iterated after all scripts finished: " + msg
	}
	return why
}

// catchGo runs f and returns a description of a panic ("" if none).
func catchGo(f func()) (msg string) {
	defer func() {
		if e := recover(); e != nil {
			msg = fmt.Sprintf("%T: %v", e, e)
			if se, ok := e.(*core.SuExcept); ok {
				msg = "SuExcept: " + string(se.SuStr)
			}
		}
	}()
	f()
	return ""
}

func genC43(t *rapid.T, excluded map[string]bool) c43Case {
	c := c43Case{NInit: gen.Uniform(t, "ninit", 6), Default: gen.Chance(t, "default", 30), Observer: gen.Chance(t, "observer", 60)}
	ng := 2 + gen.Uniform(t, "ng", 7)
	// focus: most cases concentrate on one or two groups so that several goroutines hit the same value
	var weights []int
	focus := gen.Pick(t, "focus", []string{"ob", "ob", "ob", "rec", "dbrec", "closure", "class", "all"})
	var pool []*opT
	for i := range opTemplates {
		o := &opTemplates[i]
		if excluded[o.Name] {
			continue
		}
		w := 1
		if focus == "all" || o.Group == focus {
			w = 8
		}
		pool = append(pool, o)
		weights = append(weights, w)
	}
	maxLen := gen.Pick(t, "maxLen", []int{5, 12, 25})
	yieldPct := gen.Pick(t, "yieldPct", []int{0, 15, 40})
	for g := 0; g < ng; g++ {
		n := 2 + gen.Uniform(t, "len", maxLen-1)
		var s []c43Step
		for k := 0; k < n; k++ {
			st := c43Step{Op: pool[gen.Weighted(t, "op", weights)].Name, V: fmt.Sprintf("v%d_%d", g, k)}
			if gen.Chance(t, "yield", yieldPct) {
				st.Yield = 1 + gen.Uniform(t, "ny", 3)
			}
			s = append(s, st)
		}
		c.Scripts = append(c.Scripts, s)
	}
	return c
}

// TestC43: shared values are safe under concurrent use (built with -race).
func TestC43(t *testing.T) {
	rec := ev.New("C43", "rapid-generated cases: a shared world (object with list, named members, a nested object, optional default value; record with attached rule and optional observer; closures sharing a counter, a variable and an object; class with constant members and a shared instance; a row-backed, lazily unpacked database record whose field lookups, also of missing names, go through its Header cache, read and copied while shared) made concurrent as builtin Thread does, then 2-8 goroutines with own core.Thread run generated scripts (2-26 operations from 100 Suneido operation templates, focus on one value group per case, generated yields). Non-trivial: >= 2 goroutines writing the shared object and >= 1 iterating it. Distinct = by scripts. Sub-property enter: one of 31 ways a value enters an already shared container (Add with/without at: inside/at the end/beyond the list, several values, ob[i]=, named put, CompareAndSet, Delete/PopFirst/Erase + re-Add, Set_default, Bind, record Add/put/rule result, instance member, closure shared object and variable) x a fresh non-concurrent object/record/instance/closure with a mutable child; (a) Concurrent? of the value reached through the container and of its child must be true, (b) 2-6 goroutines x 5-400 mutations through the container must all be present at the end; non-trivial: >= 40 mutations per thread.")
	rec.Assumptions = []string{
		"built and run with the Go race detector (driver: race=true, GORACE=halt_on_error=1): a DATA RACE report ends the process and the journalled case is the replay artefact",
		"interleavings are whatever the Go scheduler produces with generated yields; a race must actually occur in a run to be reported",
		"Suneido-level exceptions (object modified during iteration, member not found, can't modify during sort, ...) are legitimate outcomes; Go runtime errors and failed assertions are not",
	}
	defer rec.Write()
	rec.Set("race_detector_enabled", raceEnabled)

	excluded := map[string]bool{}
	for _, e := range kf.All("C43") {
		// key = "op:<template name>": the operation template is not generated
		if name, ok := strings.CutPrefix(e.Key, "op:"); ok && opByName[name] != nil {
			for i := range opTemplates {
				if n := opTemplates[i].Name; n == name || strings.HasPrefix(n, name+"*") {
					excluded[n] = true // the template and its burst variants
				}
			}
			rec.Known(e.What)
		}
	}

	journal := rt.ReplayOut("c43_running.json")
	if p := replayFile("c43_enter"); p != "" {
		replayEnter(t, rec, p)
		return
	}
	if p := replayFile("c43_"); p != "" {
		var c c43Case
		if err := readJSON(p, &c); err != nil {
			t.Fatalf("replay: %v", err)
		}
		reps := rt.N(300, 3000)
		for i := 0; i < reps; i++ {
			msg, _ := runC43(c)
			rec.Case(true, fmt.Sprint(i))
			if msg != "" {
				rt.Fail(t, rec, "scripts", p, fmt.Sprintf("repetition %d: %s", i, msg))
				return
			}
		}
		fmt.Printf("replay %s: %d repetitions without a violation (a schedule cannot be forced)\n", p, reps)
		return
	}

	rt.Check(t, rec, "scripts", 800, 2000, func(t *rapid.T) {
		c := genC43(t, excluded)
		writeJSON("c43_running.json", c) // journal before running: it is the replay file if the process dies
		msg, st := runC43(c)
		if msg != "" {
			c.Note = msg
			p := writeJSON("c43_case.json", c)
			t.Fatalf("%s\ncase: %s\nwritten to %s", msg, c.canon(), p)
		}
		os.Remove(journal)
		nt := st.obWriters >= 2 && st.obIters >= 1
		rec.Case(nt, c.canon())
		if len(excluded) > 0 {
			rec.Excluded("operation templates of known findings not generated")
		}
		for i := 0; i < st.knownPackGrow; i++ {
			rec.Excluded("exc:pack-grow")
		}
		if st.knownPackGrow > 0 {
			if e, ok := kf.Known("C43", "exc:pack-grow"); ok {
				rec.Known(e.What)
			}
		}
		rec.LabelN("operations", func() int {
			n := 0
			for _, s := range c.Scripts {
				n += len(s)
			}
			return n
		}())
		rec.LabelN("log_entries_judged", st.reads)
		rec.LabelN("exc_object_modified_during_iteration", st.modDuringIter)
		rec.LabelIf(st.modDuringIter > 0, "case_with_modification_during_iteration")
		rec.LabelN("exc_during_sort_or_binarysearch", st.duringSort)
		rec.LabelIf(st.duringSort > 0, "case_with_modification_during_sort")
		rec.LabelN("exc_other", st.otherErr)
		rec.Label(fmt.Sprintf("goroutines_%d", len(c.Scripts)))
		rec.LabelIf(st.obWriters >= 2, "ob_two_or_more_writers")
		rec.LabelIf(st.obIters >= 1, "ob_iterated")
		origReaders, copyReaders := 0, 0
		for _, sc := range c.Scripts {
			o, cp := false, false
			for _, step := range sc {
				if strings.HasPrefix(step.Op, "dbrec.Copy") {
					cp = true
				} else if strings.Contains(step.Op, "dbrec") {
					o = true
				}
			}
			origReaders += boolInt(o)
			copyReaders += boolInt(cp)
		}
		rec.LabelIf(origReaders >= 1 && copyReaders >= 1, "dbrec_used_through_original_and_private_copies")
		rec.LabelIf(origReaders+copyReaders >= 1, "dbrec_used")
		keys := make([]string, 0, len(st.errSamples))
		for k := range st.errSamples {
			keys = append(keys, k)
		}
		sort.Strings(keys)
		for _, k := range keys {
			cls := k
			if i := strings.IndexByte(cls, ':'); i > 0 {
				cls = cls[:i]
			}
			rec.LabelN("exc: "+cls, st.errSamples[k])
			if rec.WantSample("exception " + cls) {
				rec.Sample("exception "+cls, k)
			}
		}
		if nt && rec.WantSample("scripts") {
			rec.Sample("scripts", map[string]any{"case": c.canon(), "final_ob_size": st.finalOb, "final_counter": st.finalN,
				"modified_during_iteration": st.modDuringIter})
		}
	})

	c43Enter(t, rec)
}
