// Package conc holds the checks of the concurrency primitives:
// C17 (checker queue), C18 (storage allocation), C34 (timestamps),
// C43 (shared values under concurrent use).
//
// C17, C18 and C43 are schedule properties without a deterministic
// scheduler: the generated scripts are small and numerous, contain generated
// yields, and keep the shared resource contended (queue full, chunks tiny)
// so that the interesting interleavings are frequent; how often they really
// happened is measured with labels. The recorded history is the replay
// artefact of a concurrent run: it is written to rt.ReplayOut and
// VERIF_REPLAY=<file> re-runs the oracle on it.
package conc

import (
	"encoding/json"
	"os"
	"runtime"
	"strings"
	"sync/atomic"

	"verifharness/internal/rt"
)

// yield gives other goroutines a chance to run, n times.
func yield(n int) {
	for ; n > 0; n-- {
		runtime.Gosched()
	}
}

// clock is a harness-owned logical clock for call/return stamps of
// concurrent histories (no wall clock inside a property).
type clock struct{ n atomic.Int64 }

func (c *clock) tick() int64 { return c.n.Add(1) }

func writeJSON(name string, v any) string {
	p := rt.ReplayOut(name)
	b, err := json.MarshalIndent(v, "", " ")
	if err != nil {
		return ""
	}
	if os.WriteFile(p, b, 0o644) != nil {
		return ""
	}
	return p
}

// replayFile returns the VERIF_REPLAY file if it belongs to the given
// property part (file names are <ID>__<prefix>...json after the driver copied
// them, or <prefix>...json when taken from the scratch dir).
func replayFile(prefix string) string {
	p := os.Getenv("VERIF_REPLAY")
	if p == "" || !strings.HasSuffix(p, ".json") {
		return ""
	}
	base := p[strings.LastIndexByte(p, '/')+1:]
	if i := strings.Index(base, "__"); i >= 0 {
		base = base[i+2:]
	}
	if strings.HasPrefix(base, prefix) {
		return p
	}
	return ""
}

func readJSON(path string, v any) error {
	b, err := os.ReadFile(path)
	if err != nil {
		return err
	}
	return json.Unmarshal(b, v)
}
