//go:build !race

package conc

const raceEnabled = false
