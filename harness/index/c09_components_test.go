package index

import (
	"fmt"
	"strings"

	"github.com/apmckinlay/gsuneido/db19/index/btree"
	"github.com/apmckinlay/gsuneido/db19/index/iface"
	"github.com/apmckinlay/gsuneido/db19/index/ixbuf"
	"github.com/apmckinlay/gsuneido/db19/stor"
	"pgregory.net/rapid"
	"verifharness/internal/ev"
	"verifharness/internal/gen"
)

// seek: the interface comment of iface.Iter.Seek / btree.Iterator.SeekAll:
// first key >= key, the largest key if there is none, eof if there are no
// keys; Seek (not SeekAll) then turns a position outside the range into eof.
// In skip-scan mode: first visible key >= key, else the last visible key.
func (mi *miter) seek(u *universe, m *omap, key string, applyRange bool) {
	if mi.skip {
		first, last := -1, -1
		for i, k := range m.keys {
			if u.visible(mi, k) {
				last = i
				if first < 0 && k >= key {
					first = i
				}
			}
		}
		switch {
		case first >= 0:
			mi.state, mi.key = stWithin, m.keys[first]
		case last >= 0:
			mi.state, mi.key = stWithin, m.keys[last]
		default:
			mi.state, mi.key = stEof, ""
		}
		return
	}
	if m.len() == 0 {
		mi.state, mi.key = stEof, ""
		return
	}
	i := min(m.ceil(key), m.len()-1)
	k := m.keys[i]
	if applyRange && !(mi.rng.Org <= k && k < mi.rng.End) {
		mi.state, mi.key = stEof, ""
		return
	}
	mi.state, mi.key = stWithin, k
}

// componentScript runs one script over a btree.Iterator or an ixbuf.Iterator.
func componentScript(t *rapid.T, rec *ev.Rec) {
	u := genUniverse(t)
	impl := gen.Pick(t, "impl", []string{"btree", "ixbuf", "ixbuf"})
	var it iface.Iter
	var ib *ixbuf.T
	raw := mbuf{}      // ixbuf: key -> pending change (what the iterator must show, flags included)
	model := newOmap() // key -> offset as the iterator reports it
	var nextOff uint64
	pct := gen.Pick(t, "fillpct", []int{0, 20, 50, 80, 100})
	if impl == "btree" {
		st := stor.HeapStor(64 * 1024)
		st.Alloc(8)
		b := btree.NewBuilder(st)
		for _, k := range u.keys {
			if gen.Chance(t, "in", pct) {
				nextOff++
				b.Add(k, nextOff)
				model.put(k, nextOff)
			}
		}
		it = b.Finish().Iterator()
	} else {
		ib = &ixbuf.T{}
		for _, k := range u.keys {
			if gen.Chance(t, "in", pct) {
				nextOff++
				e := mentry{gen.Pick(t, "flag", []opKind{opAdd, opAdd, opUpdate, opDelete}), nextOff}
				ib.Insert(k, e.off|flagOf(e.op))
				raw.apply(k, e)
				model.put(k, e.off|flagOf(e.op))
			}
		}
		it = ib.Iterator()
	}
	mi := miter{rng: iface.All}
	stale := false     // ixbuf changed since the iterator was positioned: must re-seek before stepping
	needRepos := false // SeekAll landed outside the range: only repositioning is defined
	var hist []string
	steps, mods, seeks := 0, 0, 0

	fail := func(format string, a ...any) {
		var sb strings.Builder
		for _, k := range model.keys {
			fmt.Fprintf(&sb, "%s ", q(k))
		}
		t.Fatalf("%s %s: %s\n  keys: %s\n  script: %s", impl, mi.String(), fmt.Sprintf(format, a...), sb.String(), strings.Join(lastN(hist, 30), "; "))
	}
	compare := func(what string) {
		if it.Eof() != (mi.state == stEof) {
			fail("%s: Eof() = %v, model %s", what, it.Eof(), posOf(&mi))
		}
		if it.HasCur() != (mi.state == stWithin) {
			fail("%s: HasCur() = %v, model %s", what, it.HasCur(), posOf(&mi))
		}
		switch mi.state {
		case stEof:
			if it.Key() != keyMax {
				fail("%s: Key() at eof = %q, the merge relies on ixkey.Max", what, it.Key())
			}
		case stWithin:
			k, o := it.Cur()
			if k != mi.key || o != model.get(k) {
				fail("%s: at %q:%s, model at %q:%s", what, k, ixbuf.OffString(o), mi.key, ixbuf.OffString(model.get(mi.key)))
			}
			if it.Key() != k || it.Offset() != o {
				fail("%s: Key()/Offset() = %q/%d differ from Cur() %q/%d", what, it.Key(), it.Offset(), k, o)
			}
		}
	}
	doSeek := func(key string) {
		if mi.skip && !(u.tup[key] != nil && u.visible(&mi, key)) {
			// no key of the universe lies inside the skip-scan ranges: reposition by rewinding
			it.Rewind()
			mi.state, mi.key = stRewound, ""
			stale, needRepos = false, false
			hist = append(hist, "Rewind(no seekable key)")
			return
		}
		if e := catch(func() { it.Seek(key) }); e != nil {
			rethrowRapid(e)
			fail("Seek(%q) panicked: %v", key, e)
		}
		mi.seek(u, model, key, true)
		hist = append(hist, fmt.Sprintf("Seek(%s)->%s", q(key), posOf(&mi)))
		stale, needRepos = false, false
		seeks++
		compare(fmt.Sprintf("Seek(%q)", key))
	}
	seekKey := func() string {
		k := u.pick(t, "seekkey")
		if mi.skip {
			// in skip-scan mode the only caller (OverIter after a change) passes
			// its current key: a real composite key inside the prefix/suffix
			// ranges, present or not. Take the nearest such key of the universe.
			i0 := u.indexNear(k, 0)
			for d := range len(u.keys) {
				for _, i := range []int{i0 + d, i0 - d} {
					if i >= 0 && i < len(u.keys) && u.visible(&mi, u.keys[i]) {
						return u.keys[i]
					}
				}
			}
			return ""
		}
		switch gen.Uniform(t, "seekcls", 6) {
		case 0:
			return k + "\x00"
		case 1:
			return k[:len(k)/2]
		case 2:
			return gen.Pick(t, "seekfixed", []string{"", "\xfe\xfe\xfe\xfe\xfe", "\x00"})
		}
		return k
	}

	t.Repeat(map[string]func(*rapid.T){
		"": func(*rapid.T) {},
		"op": func(t *rapid.T) {
			names := []string{"next", "prev", "rewind", "range", "skipscan", "seek", "seekall", "modify"}
			weights := []int{26, 18, 5, 6, 7, 14, 5, 12}
			op := names[gen.Weighted(t, "op", weights)]
			if op == "modify" && impl != "ixbuf" {
				op = "next"
			}
			if op == "skipscan" && !u.comp {
				op = "prev"
			}
			if op == "seekall" && mi.skip {
				op = "seek" // SeekAll in skip-scan mode differs between the implementations and has no caller
			}
			if (op == "next" || op == "prev") && mi.state == stEof && gen.Chance(t, "leaveeof", 80) {
				it.Rewind()
				mi.state, mi.key = stRewound, ""
				needRepos = false
				hist = append(hist, "Rewind")
			}
			if (op == "next" || op == "prev") && (stale || needRepos) && mi.state != stRewound {
				// what OverIter does after a change: re-seek the current key first
				key := mi.key
				if mi.state != stWithin {
					key = seekKey()
				}
				doSeek(key)
			}
			switch op {
			case "next", "prev":
				before := mi
				if e := catch(func() {
					if op == "next" {
						it.Next()
					} else {
						it.Prev()
					}
				}); e != nil {
					rethrowRapid(e)
					fail("%s from %s panicked: %v", op, posOf(&before), e)
				}
				if op == "next" {
					mi.next(u, model)
				} else {
					mi.prev(u, model)
				}
				if before.state == stRewound {
					stale = false // positioning from rewound looks the keys up afresh
				}
				hist = append(hist, fmt.Sprintf("%s:%s->%s", op, posOf(&before), posOf(&mi)))
				compare(op + " from " + posOf(&before))
				steps++
				rec.Label("component_step_" + impl)
				rec.LabelIf(mi.skip, "component_step_skipscan_"+impl)
			case "rewind":
				it.Rewind()
				mi.state, mi.key = stRewound, ""
				needRepos = false
				hist = append(hist, "Rewind")
				compare("Rewind")
			case "range":
				r := u.genRange(t, "range")
				it.Range(r)
				mi = miter{rng: r}
				needRepos = false
				hist = append(hist, "Range "+mi.String())
				compare("Range")
			case "skipscan":
				p, s, n := u.genSkip(t)
				it.SkipScan(p, s, n)
				mi = miter{skip: true, rng: p, srng: s, n: n}
				needRepos = false
				hist = append(hist, "SkipScan "+mi.String())
				compare("SkipScan")
			case "seek":
				doSeek(seekKey())
			case "seekall":
				key := seekKey()
				if e := catch(func() { it.SeekAll(key) }); e != nil {
					rethrowRapid(e)
					fail("SeekAll(%q) panicked: %v", key, e)
				}
				mi.seek(u, model, key, false)
				hist = append(hist, fmt.Sprintf("SeekAll(%s)->%s", q(key), posOf(&mi)))
				stale = false
				compare(fmt.Sprintf("SeekAll(%q)", key))
				needRepos = mi.state == stWithin && !(mi.rng.Org <= mi.key && mi.key < mi.rng.End)
				rec.Label("component_seekall")
			case "modify":
				n := 1 + gen.Uniform(t, "nmod", 3)
				for range n {
					k := u.pick(t, "modkey")
					if mi.state == stWithin && gen.Chance(t, "nearcursor", 50) {
						k = u.keys[u.indexNear(mi.key, gen.Uniform(t, "near", 5)-2)]
					}
					prev, have := raw[k]
					var e mentry
					nextOff++
					switch {
					case !have:
						e = mentry{gen.Pick(t, "flag", []opKind{opAdd, opAdd, opUpdate, opDelete}), nextOff}
					case prev.op == opDelete:
						e = mentry{opAdd, nextOff}
					default:
						e = mentry{gen.Pick(t, "flag2", []opKind{opUpdate, opDelete}), nextOff}
					}
					ib.Insert(k, e.off|flagOf(e.op))
					raw.apply(k, e)
					if r, ok := raw[k]; ok {
						model.put(k, r.off|flagOf(r.op))
					} else {
						model.del(k)
					}
					hist = append(hist, fmt.Sprintf("Insert(%s,%s)", q(k), e.op))
				}
				if !it.Modified() {
					fail("Modified() is false after Insert")
				}
				if mi.state != stRewound {
					stale = true
				}
				mods++
				rec.Label("component_modify")
			}
		},
	})
	// the ixbuf still is what its history says
	if ib != nil {
		if i, ok := slotsEq(contents(ib), raw.contents()); !ok {
			fail("ixbuf contents differ from its history at %d", i)
		}
	}
	nt := steps >= 5 && (seeks >= 1 || mods >= 1) && model.len() >= 3
	rec.Case(nt, "c:"+impl+strings.Join(hist, ";"))
	rec.Label("component_" + impl)
	rec.LabelIf(seeks > 0, "component_script_with_seek")
	rec.LabelIf(mods > 0, "component_script_with_modification")
	if nt && rec.WantSample("component_"+impl) {
		rec.Sample("component_"+impl, map[string]any{"keys": model.len(), "script": lastN(hist, 25)})
	}
}
