package index

import (
	"fmt"
	"sort"
	"strings"
	"testing"

	"github.com/apmckinlay/gsuneido/db19/index"
	"github.com/apmckinlay/gsuneido/db19/index/btree"
	"github.com/apmckinlay/gsuneido/db19/index/iface"
	"github.com/apmckinlay/gsuneido/db19/index/ixbuf"
	"github.com/apmckinlay/gsuneido/db19/stor"
	"pgregory.net/rapid"
	"verifharness/internal/ev"
	"verifharness/internal/gen"
	"verifharness/internal/rt"
)

// ------------------------------------------------------------ key universe

// universe: the candidate keys of one case. Composite universes keep the
// field tuple of every key so that skip-scan is judged at tuple level.
type universe struct {
	comp bool
	nf   int
	keys []string            // sorted, distinct
	tup  map[string][]string // composite only
}

var flatAlphabet = []byte{0, 0, 1, 'a', 'a', 'b', 0xfe}

var fieldPool = []string{"", "", "\x00", "\x01", "\x04a", "\x04a\x00", "\x04a\x00\x00", "\x04b", "\x03\x81"}

func genUniverse(t *rapid.T) *universe {
	u := &universe{tup: map[string][]string{}}
	u.comp = gen.Chance(t, "composite", 65)
	n := 6 + gen.Uniform(t, "nuniverse", 39)
	seen := map[string]bool{}
	if !u.comp {
		for range n {
			b := make([]byte, gen.Uniform(t, "keylen", 5))
			for i := range b {
				b[i] = gen.Pick(t, "keybyte", flatAlphabet)
			}
			seen[string(b)] = true
		}
	} else {
		u.nf = 2 + gen.Uniform(t, "nfields", 3)
		npool := 3 + gen.Uniform(t, "npool", len(fieldPool)-2)
		pool := fieldPool[:npool]
		for range n {
			tu := make([]string, u.nf)
			for i := range tu {
				tu[i] = gen.Pick(t, "field", pool)
			}
			k := encTuple(tu)
			seen[k] = true
			u.tup[k] = tu
		}
	}
	for k := range seen {
		u.keys = append(u.keys, k)
	}
	sort.Strings(u.keys)
	return u
}

func (u *universe) pick(t *rapid.T, label string) string {
	return u.keys[gen.Uniform(t, label, len(u.keys))]
}

// ------------------------------------------------------------------ world

// view is what one transaction sees: an overlay and the model of it.
type view struct {
	ov     *index.Overlay
	model  *omap
	layers []mbuf // model of the immutable layers under this view (for labels)
	btLen  int
	mut    mbuf // nil: read-only view
}

type pendingOp struct {
	kind   string // "merge" | "save"
	nmerge int
	mr     index.MergeResult
	mrMod  mbuf
	bt     *btree.T
	btMod  *omap
}

type world struct {
	t       *rapid.T
	u       *universe
	st      *stor.Stor
	nextOff uint64
	// committed state
	base       *index.Overlay
	baseModel  *omap
	baseLayers []mbuf
	btModel    *omap
	pending    *pendingOp
	// the transaction the iterator runs in
	cur *view
	log []string
}

func (w *world) off() uint64 { w.nextOff++; return w.nextOff }

func (w *world) logf(format string, a ...any) { w.log = append(w.log, fmt.Sprintf(format, a...)) }

func (w *world) roView() *view {
	return &view{ov: w.base, model: w.baseModel, layers: w.baseLayers, btLen: w.btModel.len()}
}

// beginWrite: the first write of a transaction makes the table's overlays
// mutable (meta.GetRwInfo): a new overlay object with an empty top layer.
func (w *world) beginWrite() {
	if w.cur.mut != nil {
		return
	}
	w.cur = &view{ov: w.cur.ov.Mutable(), model: w.cur.model.clone(), layers: w.cur.layers, btLen: w.cur.btLen, mut: mbuf{}}
}

// write performs one valid change of key through the overlay of v.
func (w *world) write(v *view, key string, preferDelete bool) string {
	if !v.model.has(key) {
		o := w.off()
		v.ov.Insert(key, o)
		v.mut.apply(key, mentry{opAdd, o})
		v.model.put(key, o)
		return "+" + q(key)
	}
	if preferDelete {
		o := v.model.get(key)
		v.ov.Delete(key, o)
		v.mut.apply(key, mentry{opDelete, o})
		v.model.del(key)
		return "-" + q(key)
	}
	o := w.off()
	v.ov.Update(key, o)
	v.mut.apply(key, mentry{opUpdate, o})
	v.model.put(key, o)
	return "=" + q(key)
}

// commit layers the view's changes onto the latest committed state
// (Meta.LayeredOnto -> Overlay.UpdateWith); the overlay object is reused.
func (w *world) commit(v *view) {
	v.ov.UpdateWith(w.base)
	w.base = v.ov
	w.baseLayers = append(append([]mbuf(nil), w.baseLayers...), v.mut)
	w.baseModel = v.model
	v.layers = w.baseLayers
	v.btLen = w.btModel.len()
	v.mut = nil
}

// foreignCommit: another transaction writes and commits.
func (w *world) foreignCommit(nops int) string {
	t := w.t
	v := &view{ov: w.base.Mutable(), model: w.baseModel.clone(), layers: w.baseLayers, mut: mbuf{}}
	var sb strings.Builder
	for range nops {
		sb.WriteString(w.write(v, w.u.pick(t, "fkey"), gen.Chance(t, "fdel", 50)))
	}
	w.commit(v)
	return sb.String()
}

func foldLayers(layers []mbuf) mbuf {
	r := mbuf{}
	for _, l := range layers {
		for _, k := range l.sortedKeys() {
			r.apply(k, l[k])
		}
	}
	return r
}

func applyTo(m *omap, l mbuf) *omap {
	r := m.clone()
	for _, k := range l.sortedKeys() {
		switch e := l[k]; e.op {
		case opAdd, opUpdate:
			r.put(k, e.off)
		case opDelete:
			r.del(k)
		}
	}
	return r
}

func (w *world) computeMerge(nmerge int) {
	w.pending = &pendingOp{kind: "merge", nmerge: nmerge, mr: w.base.Merge(nmerge), mrMod: foldLayers(w.baseLayers[:nmerge+1])}
}

func (w *world) computeSave() {
	w.pending = &pendingOp{kind: "save", bt: w.base.Save(), btMod: applyTo(w.btModel, w.baseLayers[0])}
}

// applyPending installs a computed merge/save into the latest state
// (meta.Apply): a new overlay object with other layering, same contents.
func (w *world) applyPending() {
	p := w.pending
	w.pending = nil
	wasCur := w.cur.ov == w.base && w.cur.mut == nil
	switch p.kind {
	case "merge":
		w.base = w.base.WithMerged(p.mr, p.nmerge)
		w.baseLayers = append([]mbuf{p.mrMod}, w.baseLayers[p.nmerge+1:]...)
	case "save":
		w.base = w.base.WithSaved(p.bt)
		w.baseLayers = append([]mbuf{{}}, w.baseLayers[1:]...)
		w.btModel = p.btMod
	}
	if wasCur { // a read-only cursor continues in the next transaction on the new state
		w.cur = w.roView()
	}
}

// selfCheck: the harness's layer models add up to the committed model.
func (w *world) selfCheck() {
	got := applyTo(w.btModel, foldLayers(w.baseLayers))
	if !got.equal(w.baseModel) {
		w.t.Fatalf("harness: layer models do not add up to the committed model")
	}
	if w.base.Nlayers() != len(w.baseLayers) {
		w.t.Fatalf("harness: %d layers, model has %d", w.base.Nlayers(), len(w.baseLayers))
	}
}

func (v *view) tombstones() map[string]bool {
	r := map[string]bool{}
	for _, l := range v.layers {
		for k, e := range l {
			if e.op == opDelete {
				r[k] = true
			}
		}
	}
	for k, e := range v.mut {
		if e.op == opDelete {
			r[k] = true
		}
	}
	return r
}

func (v *view) nonEmptyIters() int {
	n := 0
	if v.btLen > 0 {
		n++
	}
	for _, l := range v.layers {
		if len(l) > 0 {
			n++
		}
	}
	if len(v.mut) > 0 {
		n++
	}
	return n
}

// ----------------------------------------------------------- model iterator

const (
	stRewound = iota
	stWithin
	stEof
)

type miter struct {
	skip  bool
	rng   iface.Range // range, or prefix range in skip-scan mode
	srng  iface.Range
	n     int
	state int
	key   string
}

func (mi *miter) String() string {
	if mi.skip {
		return fmt.Sprintf("skip(%d) prefix[%s,%s) suffix[%s,%s)", mi.n, q(mi.rng.Org), q(mi.rng.End), q(mi.srng.Org), q(mi.srng.End))
	}
	return fmt.Sprintf("range[%s,%s)", q(mi.rng.Org), q(mi.rng.End))
}

func (u *universe) visible(mi *miter, k string) bool {
	if !mi.skip {
		return mi.rng.Org <= k && k < mi.rng.End
	}
	p, s := splitModel(u.tup[k], mi.n)
	return mi.rng.Org <= p && p < mi.rng.End && mi.srng.Org <= s && s < mi.srng.End
}

// next: the least visible key above the current one (the first one after a
// rewind); eof sticks.
func (mi *miter) next(u *universe, m *omap) {
	if mi.state == stEof {
		return
	}
	i := 0
	if mi.state == stWithin {
		i = m.ceil(mi.key)
		if i < m.len() && m.keys[i] == mi.key {
			i++
		}
	}
	for ; i < m.len(); i++ {
		if u.visible(mi, m.keys[i]) {
			mi.state, mi.key = stWithin, m.keys[i]
			return
		}
	}
	mi.state, mi.key = stEof, ""
}

func (mi *miter) prev(u *universe, m *omap) {
	if mi.state == stEof {
		return
	}
	i := m.len() - 1
	if mi.state == stWithin {
		i = m.ceil(mi.key) - 1
	}
	for ; i >= 0; i-- {
		if u.visible(mi, m.keys[i]) {
			mi.state, mi.key = stWithin, m.keys[i]
			return
		}
	}
	mi.state, mi.key = stEof, ""
}

// ------------------------------------------------------------ ranges

func (u *universe) genRange(t *rapid.T, label string) iface.Range {
	bound := func(l string) string {
		k := u.pick(t, l)
		switch gen.Uniform(t, l+"cls", 8) {
		case 0:
			return ""
		case 1:
			return keyMax
		case 2:
			return k + "\x00"
		case 3:
			if u.comp { // the query layer's end: leading fields + Max
				tu := trimTuple(u.tup[k])
				if len(tu) > 0 {
					j := 1 + gen.Uniform(t, l+"lead", len(tu))
					return encNoTrim(append(append([]string(nil), tu[:j]...), keyMax))
				}
			}
			return k + "\xff"
		case 4:
			if u.comp { // leading fields only
				tu := trimTuple(u.tup[k])
				if len(tu) > 0 {
					return encTuple(tu[:1+gen.Uniform(t, l+"lead", len(tu))])
				}
			}
			return k[:len(k)/2]
		default:
			return k
		}
	}
	switch gen.Uniform(t, label, 7) {
	case 0, 6:
		return iface.All
	case 1: // the query layer's range for leading field values: [enc(vals), enc(vals,Max))
		if u.comp {
			tu := trimTuple(u.tup[u.pick(t, label+"k")])
			if len(tu) > 0 {
				lead := tu[:1+gen.Uniform(t, label+"lead", len(tu))]
				return iface.Range{Org: encTuple(lead), End: encNoTrim(append(append([]string(nil), lead...), keyMax))}
			}
		}
		k := u.pick(t, label+"k")
		return iface.Range{Org: k, End: k + "\x00"}
	default:
		a, b := bound(label+"org"), bound(label+"end")
		if a > b && gen.Chance(t, label+"swap", 85) {
			a, b = b, a
		}
		return iface.Range{Org: a, End: b}
	}
}

// genSkip draws skip-scan parameters: number of prefix fields, prefix range
// (mostly unrestricted or a leading-fields range), suffix range over the
// remaining fields.
func (u *universe) genSkip(t *rapid.T) (prefixRng, suffixRng iface.Range, n int) {
	n = 1 + gen.Uniform(t, "skipstart", u.nf-1)
	prefixRng = iface.All
	if gen.Chance(t, "prefixrestricted", 40) {
		tu := u.tup[u.pick(t, "pk")]
		lead := append([]string(nil), tu[:1+gen.Uniform(t, "plead", n)]...)
		switch gen.Uniform(t, "pshape", 3) {
		case 0: // all groups with these leading fields
			prefixRng = iface.Range{Org: encTuple(lead), End: encNoTrim(append(append([]string(nil), lead...), keyMax))}
		case 1: // from this group on
			prefixRng = iface.Range{Org: encTuple(lead), End: keyMax}
		default: // up to this group
			prefixRng = iface.Range{Org: "", End: encTuple(lead)}
		}
	}
	// suffix of an existing key, cut to some fields
	tu := u.tup[u.pick(t, "sk")]
	sf := append([]string(nil), tu[n:]...)
	sf = sf[:1+gen.Uniform(t, "slead", len(sf))]
	s := encNoTrim(sf)
	switch gen.Uniform(t, "sshape", 6) {
	case 0: // point converted to a range the way the query layer does
		suffixRng = iface.Range{Org: s, End: s + sep + keyMax}
	case 1:
		suffixRng = iface.Range{Org: s, End: s + "\x00"}
	case 2:
		suffixRng = iface.Range{Org: s, End: keyMax}
	case 3:
		suffixRng = iface.Range{Org: "", End: s}
	case 4:
		tu2 := u.tup[u.pick(t, "sk2")]
		s2 := encNoTrim(tu2[n:])
		if s2 < s {
			s, s2 = s2, s
		}
		suffixRng = iface.Range{Org: s, End: s2}
	default:
		suffixRng = iface.Range{Org: "", End: "\x00"} // empty suffix fields only
	}
	// the query layer does not select empty ranges (org >= end)
	if prefixRng.Org >= prefixRng.End {
		prefixRng = iface.All
	}
	if suffixRng.Org >= suffixRng.End {
		suffixRng = iface.Range{Org: "", End: "\x00"}
	}
	return
}

// ------------------------------------------------------------ transaction

type c9tran struct {
	w     *world
	reads [][2]string
}

func (tr *c9tran) GetIndexI(string, int) *index.Overlay { return tr.w.cur.ov }
func (tr *c9tran) Read(_ string, _ int, from, to string) {
	tr.reads = append(tr.reads, [2]string{from, to})
}
func (tr *c9tran) Num() int { return 7 }

// ------------------------------------------------------------------ setup

func newWorld(t *rapid.T, u *universe) *world {
	w := &world{t: t, u: u, st: stor.HeapStor(64 * 1024)}
	w.st.Alloc(8) // a database file starts with a header, no node lives at offset 0
	// stored tree
	w.btModel = newOmap()
	pct := gen.Pick(t, "inbtreepct", []int{0, 30, 60, 60, 90, 100})
	b := btree.NewBuilder(w.st)
	for _, k := range u.keys {
		if gen.Chance(t, "inbtree", pct) {
			o := w.off()
			if !b.Add(k, o) {
				t.Fatalf("Builder.Add refused %q", k)
			}
			w.btModel.put(k, o)
		}
	}
	w.base = index.OverlayFor(b.Finish())
	w.baseModel = w.btModel.clone()
	w.baseLayers = []mbuf{{}}
	w.cur = w.roView()
	// committed transactions, merges and saves
	nsteps := gen.Uniform(t, "nsetup", 9)
	for range nsteps {
		switch gen.Pick(t, "setup", []string{"tran", "tran", "tran", "emptytran", "merge", "save"}) {
		case "tran":
			w.logf("setup tran %s", w.foreignCommit(1+gen.Uniform(t, "nops", 8)))
		case "emptytran":
			w.foreignCommit(0)
			w.logf("setup empty tran")
		case "merge":
			if w.base.Nlayers() >= 2 {
				n := 1 + gen.Uniform(t, "nmerge", w.base.Nlayers()-1)
				w.computeMerge(n)
				w.applyPending()
				w.logf("setup merge %d", n)
			}
		case "save":
			w.computeSave()
			w.applyPending()
			w.logf("setup save")
		}
	}
	w.cur = w.roView()
	w.selfCheck()
	return w
}

// ------------------------------------------------------------- the machine

type c9machine struct {
	w    *world
	rec  *ev.Rec
	it   *index.OverIter
	tr   *c9tran
	mi   miter
	kind string // "OverIter"
	// evidence
	sawLayers, sawTomb, sawModBetween bool
	changedSinceStep                  bool
	steps                             int
}

func (m *c9machine) fail(format string, a ...any) {
	m.w.t.Fatalf("%s\n  iterator: %s\n  model keys: %s\n  history:\n    %s", fmt.Sprintf(format, a...), m.mi.String(), showKeys(m.w.cur.model), strings.Join(lastN(m.w.log, 25), "\n    "))
}

func lastN(s []string, n int) []string {
	if len(s) > n {
		return s[len(s)-n:]
	}
	return s
}

func showKeys(m *omap) string {
	var sb strings.Builder
	for _, k := range m.keys {
		fmt.Fprintf(&sb, "%s:%d ", q(k), m.off[k])
	}
	return sb.String()
}

func (m *c9machine) posString() string {
	switch m.mi.state {
	case stRewound:
		return "rewound"
	case stEof:
		return "eof"
	}
	return q(m.mi.key)
}

// step performs Next or Prev on the real iterator and on the model and
// compares position, offset and the read range reported to the transaction.
func (m *c9machine) step(forward bool) {
	w := m.w
	before := m.mi
	wasEof := before.state == stEof
	m.tr.reads = m.tr.reads[:0]
	name := "Prev"
	if forward {
		name = "Next"
	}
	if e := catch(func() {
		if forward {
			m.it.Next(m.tr)
		} else {
			m.it.Prev(m.tr)
		}
	}); e != nil {
		rethrowRapid(e)
		m.fail("%s from %s panicked: %v", name, m.posString(), e)
	}
	if forward {
		m.mi.next(w.u, w.cur.model)
	} else {
		m.mi.prev(w.u, w.cur.model)
	}
	w.logf("%s: %s -> %s", name, posOf(&before), m.posString())
	m.compare(name + " from " + posOf(&before))
	// read range
	if !wasEof {
		var lo, hi string
		if forward {
			lo, hi = before.rng.Org, m.mi.rng.End
			if before.state == stWithin {
				lo = before.key
			}
			if m.mi.state == stWithin {
				hi = m.mi.key
			}
		} else {
			lo, hi = m.mi.rng.Org, before.rng.End
			if before.state == stWithin {
				hi = before.key
			}
			if m.mi.state == stWithin {
				lo = m.mi.key
			}
		}
		covered := false
		for _, r := range m.tr.reads {
			if r[0] <= lo && hi <= r[1] {
				covered = true
			}
		}
		if !covered && lo <= hi {
			m.fail("%s from %s to %s: reads reported to the transaction %q do not cover [%q,%q]", name, posOf(&before), m.posString(), m.tr.reads, lo, hi)
		}
	} else if len(m.tr.reads) > 0 {
		m.rec.Label("read_reported_at_sticky_eof")
	}
	// evidence
	m.steps++
	v := w.cur
	if v.nonEmptyIters() >= 3 {
		m.sawLayers = true
	}
	if !wasEof {
		lo, hi := before.rng.Org, before.rng.End
		if forward {
			if before.state == stWithin {
				lo = before.key
			}
			if m.mi.state == stWithin {
				hi = m.mi.key
			}
		} else {
			if before.state == stWithin {
				hi = before.key
			}
			if m.mi.state == stWithin {
				lo = m.mi.key
			}
		}
		for k := range v.tombstones() {
			if lo <= k && k <= hi && (m.mi.skip || w.u.visible(&m.mi, k) || true) {
				m.sawTomb = true
				m.rec.Label("step_over_tombstone")
				break
			}
		}
	}
	if m.changedSinceStep && before.state == stWithin {
		m.sawModBetween = true
		m.rec.Label("step_after_change_while_positioned")
	}
	m.changedSinceStep = false
	m.rec.LabelIf(m.mi.skip, "step_skipscan")
	m.rec.LabelIf(before.state == stWithin && m.mi.state == stWithin, "step_within_to_within")
	m.rec.LabelIf(m.mi.state == stEof && !wasEof, "step_reaches_eof")
	m.rec.Label("step")
}

func posOf(mi *miter) string {
	switch mi.state {
	case stRewound:
		return "rewound"
	case stEof:
		return "eof"
	}
	return q(mi.key)
}

func (m *c9machine) compare(what string) {
	w := m.w
	it := m.it
	if it.Eof() != (m.mi.state == stEof) {
		m.fail("%s: Eof() = %v, model %s", what, it.Eof(), m.posString())
	}
	if it.HasCur() != (m.mi.state == stWithin) {
		m.fail("%s: HasCur() = %v, model %s", what, it.HasCur(), m.posString())
	}
	if m.mi.state != stWithin {
		return
	}
	var k string
	var o uint64
	if e := catch(func() { k, o = it.Cur() }); e != nil {
		m.fail("%s: Cur() panicked: %v (model at %s)", what, e, m.posString())
	}
	if k != m.mi.key {
		m.fail("%s: at key %q, model at %q", what, k, m.mi.key)
	}
	if want := w.cur.model.get(k); o != want {
		m.fail("%s: key %q offset %s, live offset %d", what, k, ixbuf.OffString(o), want)
	}
	if o2 := it.CurOff(); o2 != o {
		m.fail("%s: CurOff %d != Cur offset %d", what, o2, o)
	}
}

func (m *c9machine) changed(what string) {
	m.changedSinceStep = true
	m.w.log = append(m.w.log, what)
}

// op performs one weighted-random action of the script.
func (m *c9machine) op(t *rapid.T) {
	w := m.w
	names := []string{"next", "prev", "rewind", "range", "skipscan", "write", "commit", "abort", "foreign", "merge", "save", "simple"}
	weights := []int{26, 18, 4, 5, 6, 16, 5, 3, 5, 5, 4, 3}
	op := names[gen.Weighted(t, "op", weights)]
	if (op == "next" || op == "prev") && m.mi.state == stEof && gen.Chance(t, "leaveeof", 80) {
		// eof sticks: leave it most of the time, else the rest of the script is idle
		m.it.Rewind()
		m.mi.state, m.mi.key = stRewound, ""
		w.logf("Rewind")
	}
	switch op {
	case "next":
		m.step(true)
	case "prev":
		m.step(false)
	case "rewind":
		m.it.Rewind()
		m.mi.state, m.mi.key = stRewound, ""
		w.logf("Rewind")
	case "range":
		r := w.u.genRange(t, "range")
		m.it.Range(r)
		m.mi = miter{rng: r}
		w.logf("Range %s", m.mi.String())
		m.rec.Label("act_range")
	case "skipscan":
		if !w.u.comp {
			m.step(true)
			return
		}
		p, s, n := w.u.genSkip(t)
		m.it.SkipScan(p, s, n)
		m.mi = miter{skip: true, rng: p, srng: s, n: n}
		w.logf("SkipScan %s", m.mi.String())
		m.rec.Label("act_skipscan")
	case "write":
		w.beginWrite()
		n := 1 + gen.Uniform(t, "nwrites", 3)
		var sb strings.Builder
		for range n {
			key := w.u.pick(t, "wkey")
			if m.mi.state == stWithin && gen.Chance(t, "nearcursor", 50) {
				// at or next to the iterator's position
				key = w.u.keys[w.u.indexNear(m.mi.key, gen.Uniform(t, "near", 5)-2)]
			}
			sb.WriteString(w.write(w.cur, key, gen.Chance(t, "del", 50)) + " ")
		}
		m.changed("write " + sb.String())
		m.rec.Label("act_write")
	case "commit":
		if w.cur.mut == nil {
			m.step(false)
			return
		}
		w.commit(w.cur)
		m.changed("commit (same overlay object, top layer frozen)")
		m.rec.Label("act_commit")
	case "abort":
		if w.cur.mut == nil {
			m.step(true)
			return
		}
		w.cur = w.roView()
		m.changed("abort (back to the committed state)")
		m.rec.Label("act_abort")
	case "foreign":
		if w.cur.mut != nil {
			m.step(true)
			return
		}
		s := w.foreignCommit(1 + gen.Uniform(t, "nops", 4))
		w.cur = w.roView()
		m.changed("foreign commit " + s)
		m.rec.Label("act_foreign_commit")
	case "merge":
		if w.pending != nil {
			kind := w.pending.kind
			w.applyPending()
			m.changed("apply pending " + kind)
			m.rec.Label("act_apply_pending")
			return
		}
		if w.base.Nlayers() < 2 {
			m.step(true)
			return
		}
		n := 1 + gen.Uniform(t, "nmerge", w.base.Nlayers()-1)
		w.computeMerge(n)
		if gen.Chance(t, "applynow", 60) {
			w.applyPending()
		}
		m.changed(fmt.Sprintf("merge %d layers into the base layer", n))
		m.rec.Label("act_merge")
	case "save":
		if w.pending != nil {
			kind := w.pending.kind
			w.applyPending()
			m.changed("apply pending " + kind)
			m.rec.Label("act_apply_pending")
			return
		}
		w.computeSave()
		if gen.Chance(t, "applynow", 60) {
			w.applyPending()
		}
		m.changed("save base layer into the btree")
		m.rec.Label("act_save")
	case "simple":
		m.simpleIter(t)
	}
}

func (m *c9machine) invariant(*rapid.T) {
	w := m.w
	w.selfCheck()
	// point reads of the view
	if len(w.u.keys) > 0 {
		k := w.u.keys[(m.steps*7+len(w.log))%len(w.u.keys)]
		if o := w.cur.ov.Lookup(k); o != w.cur.model.get(k) {
			m.fail("Overlay.Lookup(%q) = %d, model %d", k, o, w.cur.model.get(k))
		}
	}
}

func (u *universe) indexNear(key string, d int) int {
	i := sort.SearchStrings(u.keys, key) + d
	return max(0, min(len(u.keys)-1, i))
}

// simpleIter: when the view has no layer contents the database hands out a
// SimpleIter; run a short script over it against the model.
func (m *c9machine) simpleIter(t *rapid.T) {
	w := m.w
	if w.cur.mut != nil {
		t.Skip("update open")
	}
	// NewSimpleIter returns nil when the view needs an OverIter (layers with
	// contents; also a stack of several empty layers)
	si := index.NewSimpleIter(m.tr, w.cur.ov)
	if si == nil {
		// make the next attempt eligible: merge everything and save
		if w.pending == nil {
			if w.base.Nlayers() >= 2 {
				w.computeMerge(w.base.Nlayers() - 1)
				w.applyPending()
			}
			w.computeSave()
			w.applyPending()
			m.changed("merge all + save")
		}
		return
	}
	mi := miter{rng: iface.All}
	n := 3 + gen.Uniform(t, "nsimple", 18)
	var hist []string
	for range n {
		act := gen.Pick(t, "sact", []string{"next", "next", "next", "prev", "prev", "rewind", "range", "skipscan"})
		switch act {
		case "next":
			si.Next(m.tr)
			mi.next(w.u, w.cur.model)
		case "prev":
			si.Prev(m.tr)
			mi.prev(w.u, w.cur.model)
		case "rewind":
			si.Rewind()
			mi.state, mi.key = stRewound, ""
		case "range":
			r := w.u.genRange(t, "srange")
			si.Range(r)
			mi = miter{rng: r}
		case "skipscan":
			if !w.u.comp {
				continue
			}
			p, s, k := w.u.genSkip(t)
			si.SkipScan(p, s, k)
			mi = miter{skip: true, rng: p, srng: s, n: k}
		}
		hist = append(hist, act+"->"+posOf(&mi))
		bad := ""
		switch {
		case si.Eof() != (mi.state == stEof):
			bad = fmt.Sprintf("Eof() = %v", si.Eof())
		case si.HasCur() != (mi.state == stWithin):
			bad = fmt.Sprintf("HasCur() = %v", si.HasCur())
		case mi.state == stWithin:
			k, o := si.Cur()
			if k != mi.key || o != w.cur.model.get(k) || si.CurOff() != o {
				bad = fmt.Sprintf("at %q:%d", k, o)
			}
		}
		if bad != "" {
			m.fail("SimpleIter %s: %s, model %s; script %v", mi.String(), bad, posOf(&mi), hist)
		}
		m.rec.Label("simpleiter_step")
	}
}

// TestC09: index iteration returns exactly the live keys in order.
func TestC09(t *testing.T) {
	rec := ev.New("C09", "rapid state machines. overiter: a key universe (flat byte strings incl. \"\" / composite keys of 2-4 packed-like fields incl. empty and zero-byte fields), an overlay built like the database does (Builder -> OverlayFor -> committed transactions through Mutable/Insert/Update/Delete/UpdateWith, Merge/WithMerged, Save/WithSaved), then a script of Next/Prev/Rewind/Range/SkipScan on one OverIter interleaved with writes to the mutable layer (at/next to the cursor), first-write overlay switch, commit, abort, foreign commits, merges and saves computed and applied separately (layer swaps), and SimpleIter scripts when the layers are empty. components: scripts of Next/Prev/Rewind/Range/SkipScan/Seek/SeekAll over btree.Iterator and ixbuf.Iterator (with modification + re-seek). Oracle: sorted map; skip-scan judged on the field tuples. Non-trivial (overiter): a script with a step over >= 3 non-empty layers, a step across a key that has a tombstone in some layer, and a step taken after a change while positioned on a key; distinct = by script log.")
	rec.Assumptions = []string{
		"keys are below ixkey.Max and offsets below 2^40; every transaction's changes are valid against the state it layers onto (checker's guarantee); a foreign commit happens only while the cursor's own transaction has no writes",
		"skip-scan uses composite keys whose fields are empty or start with a pack tag (0..7); prefix/suffix ranges are built like the query layer builds them (leading values [+ Max], points as value+Sep+Max) plus arbitrary keys of the universe",
		"the composite key format used by the model is the harness's own (checked against ixkey by C12)",
		"component Seek/SeekAll are judged against their interface comments: first key >= the argument, the largest key if there is none, eof outside the range (Seek only)"}
	defer rec.Write()
	setSteps(45)

	rt.Check(t, rec, "overiter", 4000, 50000, func(t *rapid.T) {
		defer btree.SetSplit(btree.SetSplit(gen.Pick(t, "split", []int{3, 4, 8, 100})))
		u := genUniverse(t)
		w := newWorld(t, u)
		m := &c9machine{w: w, rec: rec, it: index.NewOverIter("tbl", 0), mi: miter{rng: iface.All}}
		m.tr = &c9tran{w: w}
		t.Repeat(map[string]func(*rapid.T){"op": m.op, "": m.invariant})
		nt := m.sawLayers && m.sawTomb && m.sawModBetween
		rec.Case(nt, strings.Join(w.log, ";"))
		rec.LabelIf(m.sawLayers, "script_3_nonempty_layers")
		rec.LabelIf(m.sawTomb, "script_tombstone_under_cursor_path")
		rec.LabelIf(m.sawModBetween, "script_change_between_steps")
		rec.LabelIf(u.comp, "universe_composite")
		rec.Label("script_steps_" + bucket(m.steps, 5, 15, 30, 60))
		if nt && rec.WantSample("overiter_script") {
			rec.Sample("overiter_script", map[string]any{"composite": u.comp, "universe_keys": len(u.keys), "log": lastN(w.log, 40)})
		}
	})

	setSteps(40)
	rt.Check(t, rec, "components", 2500, 40000, func(t *rapid.T) {
		defer btree.SetSplit(btree.SetSplit(gen.Pick(t, "split", []int{3, 4, 8, 100})))
		componentScript(t, rec)
	})
}
