package index

import (
	"fmt"
	"math"
	"sort"
	"strings"
	"testing"

	"github.com/apmckinlay/gsuneido/db19/index/btree"
	"github.com/apmckinlay/gsuneido/db19/index/iface"
	"github.com/apmckinlay/gsuneido/db19/index/ixbuf"
	"github.com/apmckinlay/gsuneido/db19/stor"
	"pgregory.net/rapid"
	"verifharness/internal/ev"
	"verifharness/internal/gen"
	"verifharness/internal/kf"
	"verifharness/internal/rt"
)

// ------------------------------------------------------------- key styles

type keyStyle struct {
	kind   int
	prefix string
	groups []string // kind 4: the long prefixes of the key groups
}

var alpha3 = []string{"\x00", "a", "\xfe"}

func (ks keyStyle) key(n int) string {
	switch ks.kind {
	case 0: // dense integers
		return fmt.Sprintf("%07d", n)
	case 1, 3: // long shared prefix / big keys
		return ks.prefix + fmt.Sprintf("%05d", n)
	case 4: // groups of keys, each group with its own long prefix
		return ks.groups[n%len(ks.groups)] + fmt.Sprintf("%04d", n/len(ks.groups))
	default: // all strings over a 3 letter alphabet by length: "", prefixes, extensions
		s := ""
		for n > 0 {
			n--
			s = alpha3[n%3] + s
			n /= 3
		}
		return s
	}
}

func genStyle(t *rapid.T) keyStyle {
	kind := gen.Pick(t, "keystyle", []int{0, 0, 0, 0, 1, 1, 1, 2, 2, 2, 2, 3, 4, 4})
	ks := keyStyle{kind: kind}
	switch kind {
	case 1:
		n := gen.Pick(t, "prefixlen", []int{10, 100, 254, 255, 256, 300, 1000})
		ks.prefix = strings.Repeat("p", n)
	case 3:
		n := gen.Pick(t, "biglen", []int{1000, 2040, 2730, 4000, 4087})
		ks.prefix = strings.Repeat("k", n)
	}
	return ks
}

// ---------------------------------------------------------------- verify

type c10ctx struct {
	t       *rapid.T
	rec     *ev.Rec
	rfWhat  string // text of the known finding about RangeFrac > 1
	maxFrac float64
	// known finding: a half of a split leaf exceeds the node size
	halfKnown bool
	halfWhat  string
	bulk      bool // the tree being verified came from Builder alone
}

func (c *c10ctx) must(what string, f func()) {
	if e := catch(f); e != nil {
		rethrowRapid(e)
		c.t.Fatalf("%s: panic: %v", what, e)
	}
}

// treeContents reads the whole tree through its iterator.
func iterAll(it iface.Iter, forward bool) []slotv {
	var r []slotv
	if forward {
		for it.Next(); !it.Eof(); it.Next() {
			k, o := it.Cur()
			r = append(r, slotv{k, o})
		}
	} else {
		for it.Prev(); !it.Eof(); it.Prev() {
			k, o := it.Cur()
			r = append(r, slotv{k, o})
		}
	}
	return r
}

func modelRange(m *omap, org, end string, forward bool) []slotv {
	var r []slotv
	lo, hi := m.ceil(org), m.ceil(end)
	for i := lo; i < hi; i++ {
		r = append(r, slotv{m.keys[i], m.off[m.keys[i]]})
	}
	if !forward {
		for i, j := 0, len(r)-1; i < j; i, j = i+1, j-1 {
			r[i], r[j] = r[j], r[i]
		}
	}
	return r
}

// verifyTree compares bt with the sorted map m. touched: keys of the last
// batch (present or not). full: look up every key.
func (c *c10ctx) verifyTree(what string, bt *btree.T, m *omap, touched []string, full bool, rfKnown bool) {
	t := c.t
	all := modelRange(m, "", "\xff\xff\xff\xff\xff\xff\xff\xff\xff", true)
	// the repo's own structural check (ordering, node invariants, count) + contents through it
	var viaCheck []slotv
	var count int
	c.must(what+": bt.Check", func() {
		count, _, _ = bt.Check(func(k string, o uint64) { viaCheck = append(viaCheck, slotv{strings.Clone(k), o}) })
	})
	if count != m.len() {
		t.Fatalf("%s: Check count %d != %d keys", what, count, m.len())
	}
	if i, ok := slotsEq(viaCheck, all); !ok {
		t.Fatalf("%s: leaf contents differ from the model at %d: tree%s model%s", what, i, showAround(viaCheck, i), showAround(all, i))
	}
	// size invariants of every node, judged by walking the tree (not by Check):
	// no node larger than the node size limit, none with more entries than the
	// split count, all leaves on the last level, no empty node except an empty root
	c.must(what+": node walk", func() {
		limit, split := btree.VerifMaxNodeSize, btree.VerifSplitCount()
		nodes, nearFull := 0, 0
		bt.VerifWalk(func(level int, leaf bool, size, nkeys, noffs, prefixLen int) {
			nodes++
			kind := "tree node"
			if leaf {
				kind = "leaf"
			}
			if size > limit && c.halfKnown && !c.bulk {
				// MergeAndSave writes leaves through write (checked) and splitTo
				// (unchecked): an oversize leaf of a merged tree is a split half
				c.rec.Excluded("split-half-over-node-size")
				c.rec.Known(c.halfWhat)
				c.rec.Label("oversize_split_half_" + strings.ReplaceAll(kind, " ", "_") + "_keys_" + bucket(nkeys, 3, 10, 50))
			} else if size > limit {
				t.Fatalf("%s: %s on level %d has %d bytes, the node size limit is %d (%d keys, stored prefix %d bytes)", what, kind, level, size, limit, nkeys, prefixLen)
			}
			if noffs > split {
				t.Fatalf("%s: %s on level %d has %d entries, the split count is %d", what, kind, level, noffs, split)
			}
			if leaf != (level == bt.TreeLevels()) {
				t.Fatalf("%s: %s on level %d of a tree with %d tree levels", what, kind, level, bt.TreeLevels())
			}
			if noffs == 0 && !(level == 0 && m.len() == 0) {
				t.Fatalf("%s: empty %s on level %d", what, kind, level)
			}
			if prefixLen > 255 {
				t.Fatalf("%s: leaf with a stored prefix of %d bytes", what, prefixLen)
			}
			if leaf && size*10 >= limit*9 {
				nearFull++
			}
		})
		c.rec.LabelN("node_walked", nodes)
		c.rec.LabelN("leaf_within_10pct_of_size_limit", nearFull)
	})
	// iteration, both directions
	var fwd, bwd []slotv
	c.must(what+": iterate", func() {
		fwd = iterAll(bt.Iterator(), true)
		bwd = iterAll(bt.Iterator(), false)
	})
	if i, ok := slotsEq(fwd, all); !ok {
		t.Fatalf("%s: forward iteration differs from the model at %d: tree%s model%s", what, i, showAround(fwd, i), showAround(all, i))
	}
	if i, ok := slotsEq(bwd, modelRange(m, "", "\xff\xff\xff\xff\xff\xff\xff\xff\xff", false)); !ok {
		t.Fatalf("%s: backward iteration differs from the model at %d: tree%s", what, i, showAround(bwd, i))
	}
	// lookups: present keys
	step := 1
	if !full && m.len() > 60 {
		step = m.len() / 60
	}
	c.must(what+": Lookup", func() {
		for i := 0; i < m.len(); i += step {
			k := m.keys[i]
			if o := bt.Lookup(k); o != m.off[k] {
				t.Fatalf("%s: Lookup(%s) = %d, model %d (%d keys, %d tree levels)", what, q(short(k)), o, m.off[k], m.len(), bt.TreeLevels())
			}
			// absent neighbours: extension, prefix, successor
			for _, a := range []string{k + "\x00", k + "~", k[:max(0, len(k)-1)], k + "\xff"} {
				if o := bt.Lookup(a); o != m.off[a] { // model gives 0 for absent
					t.Fatalf("%s: Lookup(%s) = %d, model %d", what, q(short(a)), o, m.off[a])
				}
			}
		}
		for _, k := range touched {
			if o := bt.Lookup(k); o != m.off[k] {
				t.Fatalf("%s: Lookup(%s) (touched by the batch) = %d, model %d", what, q(short(k)), o, m.off[k])
			}
		}
	})
	// ranged iteration and range fraction
	nr := 3
	for range nr {
		org, end := c.genBound(m, "org"), c.genBound(m, "end")
		if gen.Uniform(t, "swap", 6) == 0 {
			org, end = end, org
		}
		var f, b []slotv
		c.must(what+": ranged iteration", func() {
			it := bt.Iterator()
			it.Range(iface.Range{Org: org, End: end})
			f = iterAll(it, true)
			it.Rewind()
			b = iterAll(it, false)
		})
		if i, ok := slotsEq(f, modelRange(m, org, end, true)); !ok {
			t.Fatalf("%s: iteration of [%s,%s) differs at %d: tree%s model%s", what, q(short(org)), q(short(end)), i, showAround(f, i), showAround(modelRange(m, org, end, true), i))
		}
		if i, ok := slotsEq(b, modelRange(m, org, end, false)); !ok {
			t.Fatalf("%s: backward iteration of [%s,%s) differs at %d: tree%s", what, q(short(org)), q(short(end)), i, showAround(b, i))
		}
		var frac float64
		c.must(what+": RangeFrac", func() { frac = bt.RangeFrac(org, end) })
		inRange := len(f)
		switch {
		case org >= end:
			if frac != 0 {
				t.Fatalf("%s: RangeFrac of the empty range [%s,%s) = %v", what, q(short(org)), q(short(end)), frac)
			}
		case math.IsNaN(frac) || frac < 0:
			t.Fatalf("%s: RangeFrac(%s,%s) = %v (%d of %d keys in range)", what, q(short(org)), q(short(end)), frac, inRange, m.len())
		case frac > 1:
			if nl := bt.Stats().Nleaf; rfKnown && nl >= 5 {
				c.rec.Excluded("rangefrac-above-one")
				c.rec.Known(c.rfWhat)
				if frac > c.maxFrac {
					c.maxFrac = frac
				}
			} else {
				t.Fatalf("%s: RangeFrac(%s,%s) = %v > 1 (%d of %d keys in range, %d tree levels)", what, q(short(org)), q(short(end)), frac, inRange, m.len(), bt.TreeLevels())
			}
		}
		c.rec.LabelIf(org < end && inRange == 0, "range_without_keys")
		c.rec.LabelIf(inRange > 0 && inRange < m.len(), "range_partial")
	}
	var fa float64
	c.must(what+": RangeFrac(all)", func() { fa = bt.RangeFrac(iface.All.Org, iface.All.End) })
	if fa != 1 {
		t.Fatalf("%s: RangeFrac(all) = %v", what, fa)
	}
}

func short(s string) string {
	if len(s) > 40 {
		return s[:16] + fmt.Sprintf("...(%d)...", len(s)) + s[len(s)-12:]
	}
	return s
}

func (c *c10ctx) genBound(m *omap, label string) string {
	t := c.t
	if m.len() == 0 {
		return gen.Pick(t, label, []string{"", "a", "\xff", keyMax})
	}
	k := m.keys[gen.Uniform(t, label+"i", (m.len()-1)+1)]
	switch gen.Uniform(t, label+"cls", 8) {
	case 0:
		return ""
	case 1:
		return keyMax
	case 2:
		return k + "\x00"
	case 3:
		return k[:max(0, len(k)-1)]
	case 4:
		return k + "\xff"
	default:
		return k
	}
}

// ----------------------------------------------------------------- batches

type batch struct {
	ib      *ixbuf.T
	touched map[string]bool
}

type c10gen struct {
	t       *rapid.T
	ks      keyStyle
	cur     *omap // running model (state after the operations so far)
	nextOff uint64
	b       *batch
	uni     int // universe size
}

func (g *c10gen) off() uint64 { g.nextOff++; return g.nextOff }

func (g *c10gen) add(k string) {
	if g.cur.has(k) || len(k) > 4096 {
		return
	}
	o := g.off()
	g.b.ib.Insert(k, o)
	g.cur.put(k, o)
	g.b.touched[k] = true
}

func (g *c10gen) update(k string) {
	if !g.cur.has(k) {
		return
	}
	o := g.off()
	g.b.ib.Update(k, o)
	g.cur.put(k, o)
	g.b.touched[k] = true
}

func (g *c10gen) del(k string) {
	if !g.cur.has(k) {
		return
	}
	g.b.ib.Delete(k, g.cur.get(k))
	g.cur.del(k)
	g.b.touched[k] = true
}

// genBatch fills g.b with 1..3 groups of operations.
func (g *c10gen) genBatch(split int) {
	t := g.t
	ngroups := (1 + gen.Uniform(t, "ngroups", 3))
	for range ngroups {
		cls := gen.Pick(t, "group", []string{"mix", "mix", "delrun", "delrun", "cluster", "cluster", "append", "prepend", "updrun", "delall", "refill", "both"})
		n := g.cur.len()
		switch cls {
		case "mix":
			cnt := (1 + gen.Uniform(t, "nmix", 40))
			pat := uniBytes(t, "mixpat", 1, 6)
			for i := range cnt {
				k := g.ks.key(gen.Uniform(t, "mixkey", g.uni+1))
				switch {
				case !g.cur.has(k):
					g.add(k)
				case pat[i%len(pat)]&1 == 0:
					g.update(k)
				default:
					g.del(k)
				}
			}
		case "delrun", "updrun":
			if n == 0 {
				continue
			}
			lo := gen.Uniform(t, "runlo", (n-1)+1)
			l := gen.Pick(t, "runlen", []int{1, split, 2 * split, 2*split + 1, 3 * split, 5 * split, n})
			l += ((-1) + gen.Uniform(t, "runjit", 3))
			hi := min(n, lo+max(1, l))
			keys := append([]string(nil), g.cur.keys[lo:hi]...)
			hole := gen.Uniform(t, "hole", 10) == 0 // leave one key in the middle
			for i, k := range keys {
				if cls == "updrun" {
					g.update(k)
				} else if !(hole && i == len(keys)/2) {
					g.del(k)
				}
			}
		case "cluster":
			cnt := gen.Pick(t, "nclus", []int{2, split, split + 1, 2*split + 1, 3*split + 2})
			cnt = min(cnt, 320)
			base := ""
			if n > 0 {
				base = g.cur.keys[gen.Uniform(t, "clusat", (n-1)+1)]
			} else {
				base = g.ks.key(gen.Uniform(t, "clusat", g.uni+1))
			}
			if len(base)+4 > 4096 {
				base = base[:4092]
			}
			for j := range cnt {
				g.add(base + fmt.Sprintf("~%03d", j))
			}
		case "append", "prepend":
			cnt := gen.Pick(t, "napp", []int{1, split, 2*split + 1})
			cnt = min(cnt, 250)
			for j := range cnt {
				if cls == "append" {
					g.uni++
					g.add(g.ks.key(g.uni))
				} else if n > 0 && len(g.cur.keys[0]) > 0 {
					// keys below the current minimum (a proper prefix + a low byte)
					k := g.cur.keys[0]
					g.add(k[:len(k)-1] + fmt.Sprintf("!%03d", j))
				}
			}
		case "both": // empty whole leaves here, overfill a leaf there
			if n < 2*split+2 {
				continue
			}
			l := min(n-1, 2*split+gen.Uniform(t, "bothrun", split+1))
			lo := gen.Uniform(t, "bothlo", (n-l)+1)
			keys := append([]string(nil), g.cur.keys[lo:lo+l]...)
			at := g.cur.keys[gen.Uniform(t, "bothat", (n-1)+1)]
			if len(at)+4 > 4096 {
				at = at[:4092]
			}
			cnt := min(320, 2*split+1+gen.Uniform(t, "bothclus", split+1))
			if gen.Chance(t, "bothorder", 50) {
				for _, k := range keys {
					g.del(k)
				}
			}
			for j := range cnt {
				g.add(at + fmt.Sprintf("~%03d", j))
			}
			for _, k := range keys {
				g.del(k)
			}
		case "delall":
			for _, k := range append([]string(nil), g.cur.keys...) {
				g.del(k)
			}
		case "refill":
			cnt := (1 + gen.Uniform(t, "nrefill", 3*split+2))
			cnt = min(cnt, 320)
			lo := gen.Uniform(t, "refillat", g.uni+1)
			for j := range cnt {
				g.add(g.ks.key(lo + j))
			}
		}
	}
}

// batchShape: longest run of consecutive (pre-batch) keys the batch deletes,
// and the largest number of keys it adds into one gap between pre-batch keys.
func batchShape(before *omap, ib *ixbuf.T) (delRun, addCluster, adds, dels, upds int) {
	ents := contents(ib)
	deleted := map[string]bool{}
	gap := map[int]int{}
	for _, e := range ents {
		switch {
		case e.off&ixbuf.Delete != 0:
			deleted[e.key] = true
			dels++
		case e.off&ixbuf.Update != 0:
			upds++
		default:
			adds++
			gap[before.ceil(e.key)]++
		}
	}
	run := 0
	for _, k := range before.keys {
		if deleted[k] {
			run++
			delRun = max(delRun, run)
		} else {
			run = 0
		}
	}
	gi := make([]int, 0, len(gap))
	for i := range gap {
		gi = append(gi, i)
	}
	sort.Ints(gi)
	for _, i := range gi {
		addCluster = max(addCluster, gap[i])
	}
	return
}

// TestC10: stored btrees behave as ordered maps.
func TestC10(t *testing.T) {
	rec := ev.New("C10", "rapid-generated trees: a sorted key set (dense integers; 10-1000 byte shared prefixes incl. 254/255/256; all strings over a 3 letter alphabet incl. \"\", prefixes and extensions; 1-4 KB keys) bulk-loaded with Builder at split factor 3..100, then 1-30 batches built in an ixbuf (random mixes, deletion/update of runs sized around 1-5 leaves or of everything, clusters of up to 3 leaves of new keys in one gap, appends/prepends, refills) applied with MergeAndSave; after the build and after every batch the tree is compared with a sorted map (Check contents, forward/backward/ranged iteration, Lookup of present keys and absent neighbours, RangeFrac bounds); an older version is re-checked after later batches. Non-trivial: a batch that changes the tree height, or that provably forces both a leaf split (> 2*split adds in one gap) and an empty-leaf removal (>= 2*split consecutive keys deleted); distinct = by tree/batch shape and key hash.")
	rec.Assumptions = []string{
		"split factors below 100 are reached through the test switch SetSplit; 100 is the production value",
		"RangeFrac is judged only for 0 <= f <= 1, f = 1 for the whole key space and f = 0 for org >= end",
		"keys are at most 4096 bytes (ixkey limit), HeapStor with 64 KB chunks; 8 bytes are allocated first because no node of a database file lives at offset 0 (MergeAndSave uses offset 0 as 'no leaf')"}
	defer rec.Write()

	e, rfKnown := kf.Known("C10", "rangefrac-above-one")
	e8, lv8Known := kf.Known("C10", "btree-more-than-8-levels")
	eh, halfKnown := kf.Known("C10", "split-half-over-node-size")

	rt.Check(t, rec, "batches", 800, 10000, func(t *rapid.T) {
		c := &c10ctx{t: t, rec: rec, rfWhat: e.What, halfKnown: halfKnown, halfWhat: eh.What}
		split := gen.Pick(t, "split", []int{3, 4, 5, 5, 7, 8, 12, 20, 50, 100, 100})
		ks := genStyle(t)
		if ks.kind == 4 { // long prefixes only fill a leaf with key data at large split factors
			split = gen.Pick(t, "gsplit", []int{100, 100, 100, 100, 50, 20, 8})
		}
		defer btree.SetSplit(btree.SetSplit(split))
		maxKeys := 400
		if ks.kind == 3 {
			maxKeys = 40
		}
		n0 := gen.Pick(t, "n0", []int{0, 1, 2, split, split + 1, 2 * split, 10 * split, split*split + 1, 37, 150, 400})
		n0 = min(n0, maxKeys)
		g := &c10gen{t: t, ks: ks, cur: newOmap(), uni: 2*n0 + 20}
		inclPct := gen.Pick(t, "includepct", []int{30, 50, 80, 100})
		var keys []string
		for i := 0; ks.kind != 4 && len(keys) < n0 && i <= g.uni; i++ {
			if g.uni-i <= n0-len(keys) || gen.Chance(t, "include", inclPct) {
				keys = append(keys, ks.key(i))
			}
		}
		if ks.kind == 4 {
			var crit int
			keys, crit = genGrouped(t, &ks, split)
			g.ks, g.uni = ks, 2*len(keys)+20
			rec.LabelN("bulk_prefix_shortening_key_on_full_leaf", crit)
			rec.LabelIf(crit > 0, "bulk_load_with_prefix_shortening_key_on_full_leaf")
		}
		sort.Strings(keys)
		st := stor.HeapStor(64 * 1024)
		st.Alloc(8) // a database file starts with a header: no node lives at offset 0
		var bt *btree.T
		c.must("Builder", func() {
			b := btree.NewBuilder(st)
			for _, k := range keys {
				if g.cur.has(k) {
					continue
				}
				o := g.off()
				if !b.Add(k, o) {
					t.Fatalf("Builder.Add(%s) refused a new key", q(short(k)))
				}
				g.cur.put(k, o)
			}
			bt = b.Finish()
		})
		c.bulk = true
		c.verifyTree("after Builder", bt, g.cur, nil, true, rfKnown)
		c.bulk = false
		builtLevels := bt.TreeLevels()
		rec.Label(fmt.Sprintf("built_levels_%d", builtLevels))

		type version struct {
			bt *btree.T
			m  *omap
		}
		old := version{bt, g.cur.clone()}
		nb := (1 + gen.Uniform(t, "nbatches", 30))
		if gen.Uniform(t, "few", 4) > 0 || ks.kind >= 3 {
			nb = min(nb, 6)
		}
		if ks.kind == 4 {
			nb = min(nb, 3)
		}
		nt := false
		var shape strings.Builder
		fmt.Fprintf(&shape, "s%d k%d p%d n%d", split, ks.kind, len(ks.prefix), g.cur.len())
		for bi := range nb {
			before := g.cur.clone()
			g.b = &batch{ib: &ixbuf.T{}, touched: map[string]bool{}}
			g.genBatch(split)
			delRun, addCluster, adds, dels, upds := batchShape(before, g.b.ib)
			lv := bt.TreeLevels()
			var bt2 *btree.T
			if e := catch(func() { bt2 = bt.MergeAndSave(g.b.ib.Iter()) }); e != nil {
				if e == "btree treeNode too large (write)" && halfKnown {
					// known finding: an oversize half of an earlier tree node split is rewritten; the case ends here
					rec.Excluded("split-half-over-node-size")
					rec.Known(eh.What)
					rec.Label("mergeandsave_panics_on_oversize_tree_node")
					fmt.Fprintf(&shape, "|treenode-too-large")
					break
				}
				t.Fatalf("batch %d MergeAndSave (+%d =%d -%d, split %d): panic: %v", bi, adds, upds, dels, split, e)
			}
			if bt2.TreeLevels() > 8 && lv8Known {
				// known finding: the iterator cannot walk such a tree; the case ends here
				rec.Excluded("btree-more-than-8-levels")
				rec.Known(e8.What)
				fmt.Fprintf(&shape, "|levels>8")
				break
			}
			touched := make([]string, 0, len(g.b.touched))
			for k := range g.b.touched {
				touched = append(touched, k)
			}
			sort.Strings(touched)
			c.verifyTree(fmt.Sprintf("after batch %d (+%d =%d -%d, split %d)", bi, adds, upds, dels, split), bt2, g.cur, touched, g.cur.len() <= 150, rfKnown)
			// the previous version is untouched (path copying)
			if bi == nb-1 || bi%4 == 1 {
				c.bulk = bi == 0
				c.verifyTree(fmt.Sprintf("version before batch %d re-read", bi), bt, before, nil, false, rfKnown)
				c.bulk = false
			}
			heightChange := bt2.TreeLevels() != lv
			both := addCluster > 2*split && delRun >= 2*split
			nt = nt || heightChange || both
			rec.LabelIf(heightChange && bt2.TreeLevels() > lv, "batch_tree_grows")
			rec.LabelIf(heightChange && bt2.TreeLevels() < lv, "batch_tree_shrinks")
			rec.LabelIf(both, "batch_split_and_leaf_removal")
			rec.LabelIf(addCluster > 2*split, "batch_forces_split")
			rec.LabelIf(delRun >= 2*split, "batch_empties_leaf")
			rec.LabelIf(before.len() > 0 && g.cur.len() == 0, "batch_empties_tree")
			rec.LabelIf(before.len() == 0 && g.cur.len() > 0, "batch_fills_empty_tree")
			rec.LabelIf(adds+dels+upds == 0, "batch_empty")
			rec.Label("batch")
			fmt.Fprintf(&shape, "|+%d=%d-%d r%d c%d l%d", adds, upds, dels, delRun, addCluster, bt2.TreeLevels())
			bt = bt2
		}
		c.bulk = true
		c.verifyTree("first version re-read at the end", old.bt, old.m, nil, false, rfKnown)
		c.bulk = false
		fmt.Fprintf(&shape, "|%x", hashKeys(g.cur.keys))
		rec.Case(nt, shape.String())
		rec.Label(fmt.Sprintf("split_%s", bucket(split, 5, 20, 50, 100)))
		rec.Label(fmt.Sprintf("keystyle_%d", ks.kind))
		rec.Label("final_levels_" + fmt.Sprint(bt.TreeLevels()))
		if nt && rec.WantSample(fmt.Sprintf("tree_style%d", ks.kind)) {
			rec.Sample(fmt.Sprintf("tree_style%d", ks.kind), map[string]any{"shape": short300(shape.String()), "final_keys": g.cur.len(), "stats": bt.Stats().String()})
		}
	})
}

func hashKeys(keys []string) uint64 {
	return ev.Hash(strings.Join(keys, "\x00|"))
}

func short300(s string) string {
	if len(s) > 300 {
		return s[:300] + "..."
	}
	return s
}

// ------------------------------------------------- grouped bulk loads

// leafSim is the harness's own picture of how a bulk load fills leaves
// (a leaf takes keys while it has at most split entries and at most
// nodeLimit bytes with the shared prefix, up to 255 bytes, stored once).
// It only steers the generator (where group boundaries fall); the judgement
// is the node walk.
type leafSim struct {
	split int
	n     int
	cpl   int // common prefix length of the keys in the leaf
	raw   int // sum of key lengths
	first string
}

const nodeLimit = 8192

func commonLen(a, b string) int {
	n := 0
	for n < len(a) && n < len(b) && a[n] == b[n] {
		n++
	}
	return n
}

func (s *leafSim) sizeWith(k string) (size, cpl int) {
	cpl = len(k)
	if s.n > 0 {
		cpl = min(s.cpl, commonLen(s.first, k))
	}
	pre := min(255, cpl)
	n := s.n + 1
	return 4 + 7*n + pre + s.raw + len(k) - n*pre, cpl
}

// add returns whether k went into the current leaf, whether it shortened
// the leaf's shared prefix, and whether the leaf already held more key data
// than fits a node uncompressed.
func (s *leafSim) add(k string) (same, shortened, dataFull bool) {
	size, cpl := s.sizeWith(k)
	if s.n+1 > s.split || size > nodeLimit {
		*s = leafSim{split: s.split, n: 1, cpl: len(k), raw: len(k), first: k}
		return false, false, false
	}
	shortened = s.n > 0 && cpl < min(255, s.cpl)
	dataFull = s.raw+len(k) > nodeLimit-7*100
	s.n++
	s.cpl = cpl
	s.raw += len(k)
	if s.n == 1 {
		s.first = k
	}
	return true, shortened, dataFull
}

func (s *leafSim) fill() int { sz, _ := s.sizeWith(""); return sz }

// genGrouped generates a sorted bulk load made of 2-5 groups of keys; the
// keys of a group share a prefix of 100-4000 bytes, the groups share 0..p-1
// leading bytes. A group ends at a generated position: after a uniform number
// of keys, or 0-2 keys after the simulated leaf is full / within 10 % of the
// size limit / holds more key data than an uncompressed node could.
// crit counts the keys that shorten the shared prefix of a leaf which already
// holds more key data than fits a node without prefix compression.
func genGrouped(t *rapid.T, ks *keyStyle, split int) (keys []string, crit int) {
	ng := 2 + gen.Uniform(t, "ngroups", 4)
	plen := make([]int, ng)
	div := make([]int, ng)
	for i := range ng {
		plen[i] = gen.Pick(t, "grouplen", []int{100, 120, 120, 200, 254, 255, 256, 400, 1000, 2000, 4000})
		div[i] = gen.Pick(t, "groupdiv", []int{0, 5, 50, plen[i] / 2, plen[i] - 2, plen[i] - 1})
	}
	sort.Sort(sort.Reverse(sort.IntSlice(div)))
	sim := leafSim{split: split}
	for i := range ng {
		d := min(div[i], plen[i]-1)
		if i > 0 {
			d = min(d, div[i-1])
		}
		div[i] = d
		// groups ascend: the byte at the divergence position is above the shared filler
		prefix := strings.Repeat("c", d) + string(rune('d'+i)) + strings.Repeat(string(rune('m'+i)), plen[i]-d-1)
		ks.groups = append(ks.groups, prefix)
		maxn := max(3, min(200, 40000/plen[i]))
		mode := gen.Pick(t, "groupend", []string{"uniform", "uniform", "full", "nearfull", "datafull", "datafull"})
		want := 1 + gen.Uniform(t, "groupsize", maxn)
		extra := gen.Uniform(t, "groupextra", 3)
		for j := 0; j < maxn; j++ {
			k := prefix + fmt.Sprintf("%04d", 2*j) // even numbers: room for later inserts
			if mode == "uniform" && j >= want {
				break
			}
			if mode != "uniform" && j > 0 {
				size, _ := sim.sizeWith(k)
				full := sim.n+1 > sim.split || size > nodeLimit
				switch mode {
				case "nearfull":
					full = full || size*10 >= nodeLimit*9
				case "datafull": // more key data than an uncompressed node could hold
					full = full || sim.raw+len(k) > nodeLimit-7*100
				}
				if full {
					if extra == 0 {
						break
					}
					extra--
				}
			}
			same, shortened, dataFull := sim.add(k)
			if same && shortened && dataFull {
				crit++
			}
			keys = append(keys, k)
		}
	}
	if !sort.StringsAreSorted(keys) {
		t.Fatalf("harness: grouped bulk load is not sorted")
	}
	return keys, crit
}
