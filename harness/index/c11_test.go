package index

import (
	"fmt"
	"sort"
	"strings"
	"testing"

	"github.com/apmckinlay/gsuneido/db19/index/ixbuf"
	"pgregory.net/rapid"
	"verifharness/internal/ev"
	"verifharness/internal/gen"
	"verifharness/internal/rt"
)

// ----------------------------------------------------- model of one buffer

type opKind byte

const (
	opAdd opKind = iota + 1
	opUpdate
	opDelete
)

func (o opKind) String() string { return [...]string{"?", "+", "=", "-"}[o] }

type mentry struct {
	op  opKind
	off uint64
}

// resolve is the harness's own resolution table for two successive changes
// of one key (prev may be absent): add.update = add, add.delete = nothing,
// update.update = update, update.delete = delete, delete.add = update.
// ok=false: the sequence is not a valid history of one key.
func resolve(prev mentry, have bool, next mentry) (res mentry, keep bool, ok bool) {
	if !have {
		return next, true, true
	}
	switch {
	case prev.op == opAdd && next.op == opUpdate:
		return mentry{opAdd, next.off}, true, true
	case prev.op == opAdd && next.op == opDelete:
		return mentry{}, false, true
	case prev.op == opUpdate && next.op == opUpdate:
		return mentry{opUpdate, next.off}, true, true
	case prev.op == opUpdate && next.op == opDelete:
		return mentry{opDelete, next.off}, true, true
	case prev.op == opDelete && next.op == opAdd:
		return mentry{opUpdate, next.off}, true, true
	}
	return mentry{}, false, false
}

// mbuf is the model of an index buffer: key -> pending change.
type mbuf map[string]mentry

func (m mbuf) apply(key string, e mentry) {
	prev, have := m[key]
	res, keep, ok := resolve(prev, have, e)
	if !ok {
		panic(fmt.Sprintf("harness generated an invalid sequence for %q: %v%d then %v%d", key, prev.op, prev.off, e.op, e.off))
	}
	if keep {
		m[key] = res
	} else {
		delete(m, key)
	}
}

func (m mbuf) sortedKeys() []string {
	ks := make([]string, 0, len(m))
	for k := range m {
		ks = append(ks, k)
	}
	sort.Strings(ks)
	return ks
}

func flagOf(op opKind) uint64 {
	switch op {
	case opUpdate:
		return ixbuf.Update
	case opDelete:
		return ixbuf.Delete
	}
	return 0
}

type slotv struct {
	key string
	off uint64
}

// contents reads a real buffer through Iter().
func contents(ib *ixbuf.T) []slotv {
	var r []slotv
	it := ib.Iter()
	for {
		k, o, ok := it()
		if !ok {
			return r
		}
		r = append(r, slotv{k, o})
	}
}

func (m mbuf) contents() []slotv {
	ks := m.sortedKeys()
	r := make([]slotv, len(ks))
	for i, k := range ks {
		r[i] = slotv{k, m[k].off | flagOf(m[k].op)}
	}
	return r
}

func slotsEq(a, b []slotv) (int, bool) {
	n := min(len(a), len(b))
	for i := range n {
		if a[i] != b[i] {
			return i, false
		}
	}
	if len(a) != len(b) {
		return n, false
	}
	return 0, true
}

func showSlot(s slotv) string {
	return q(s.key) + ixbuf.OffString(s.off)
}

func showAround(s []slotv, i int) string {
	var sb strings.Builder
	for j := max(0, i-2); j < min(len(s), i+3); j++ {
		sb.WriteString(" " + showSlot(s[j]))
	}
	return sb.String()
}

// ordered: own ordering check (strictly increasing keys), instead of
// ixbuf.Check which rejects a buffer whose first key is "".
func ordered(s []slotv) (int, bool) {
	for i := 1; i < len(s); i++ {
		if !(s[i-1].key < s[i].key) {
			return i, false
		}
	}
	return 0, true
}

// ------------------------------------------------------------ generation

func c11key(n int) string {
	if n <= 0 {
		return "" // the empty key is a legal key
	}
	return fmt.Sprintf("%05d", n)
}

// bufGen builds one real buffer and its model as a valid continuation of
// the running key set.
type bufGen struct {
	exists  map[string]uint64 // running state: key -> current offset
	nextOff *uint64
	real    *ixbuf.T
	model   mbuf
	multi   int // keys with more than one operation inside this buffer
}

func (g *bufGen) off() uint64 { *g.nextOff++; return *g.nextOff }

func (g *bufGen) do(key string, op opKind) {
	switch op {
	case opAdd:
		o := g.off()
		g.real.Insert(key, o)
		g.model.apply(key, mentry{opAdd, o})
		g.exists[key] = o
	case opUpdate:
		o := g.off()
		g.real.Update(key, o)
		g.model.apply(key, mentry{opUpdate, o})
		g.exists[key] = o
	case opDelete:
		o := g.exists[key]
		g.real.Delete(key, o)
		g.model.apply(key, mentry{opDelete, o})
		delete(g.exists, key)
	}
}

// touch performs 1..3 valid operations on key, steered by two pattern bytes.
func (g *bufGen) touch(key string, p, extra byte) {
	nops := 1
	switch extra % 8 {
	case 0:
		nops = 2
	case 1:
		nops = 3
	}
	for i := range nops {
		_, present := g.exists[key]
		var op opKind
		switch {
		case !present:
			op = opAdd
		case (p>>uint(i))&1 == 0:
			op = opUpdate
		default:
			op = opDelete
		}
		g.do(key, op)
	}
	if nops > 1 {
		g.multi++
	}
}

// TestC11: merging index buffers == applying their changes in order.
func TestC11(t *testing.T) {
	rec := ev.New("C11", "rapid-generated base key set and 2-8 ixbuf buffers built through Insert/Update/Delete as valid continuations (add only absent, update/delete only present, 1-3 operations per touched key inside a buffer, keys revisited across buffers); layouts: disjoint runs of 30-400 keys per buffer, runs meeting in an equal boundary key, interleaved strides, scattered keys, mixes; merged in one call and in two chained calls. Non-trivial: the merge passed >= 1 whole input chunk through (measured by VerifSharedChunks) and >= 1 key has entries in >= 2 buffers; distinct = by hash of all buffer contents.")
	rec.Assumptions = []string{
		"the resolution table (add.update=add, add.delete=nothing, update.update=update, update.delete=delete, delete.add=update) is the harness's own, applied buffer after buffer",
		"buffers are valid continuations, as the transaction layer guarantees; invalid sequences (add of a present key, delete of an absent key) are not generated",
		"ordering of the result is judged by the harness (strictly increasing keys), not by ixbuf.Check"}
	defer rec.Write()

	rt.Check(t, rec, "merge", 2500, 30000, func(t *rapid.T) {
		var nextOff uint64
		exists := map[string]uint64{}
		// base key set (what the stored tree holds)
		layout := gen.Uniform(t, "layout", 6)
		span := gen.Pick(t, "span", []int{40, 120, 400, 1200, 3000})
		if layout <= 2 && span < 400 {
			span = 400
		}
		baseStride := (1 + gen.Uniform(t, "basestride", 4))
		baseOrg := gen.Uniform(t, "baseorg", 4)
		for n := baseOrg; n < span; n += baseStride {
			nextOff++
			exists[c11key(n)] = nextOff
		}
		base := make(map[string]uint64, len(exists))
		for k, v := range exists {
			base[k] = v
		}

		k := (2 + gen.Uniform(t, "nbufs", 7))
		bufs := make([]*ixbuf.T, k)
		models := make([]mbuf, k)
		multi := 0
		budget := gen.Pick(t, "budget", []int{150, 500, 1000, 1500})
		runLo := gen.Pick(t, "runorg", []int{0, 0, 1, 7, 150})
		for b := range k {
			g := &bufGen{exists: exists, nextOff: &nextOff, real: &ixbuf.T{}, model: mbuf{}}
			pat := uniBytes(t, "pattern", 1, 7)
			ext := uniBytes(t, "extra", 1, 5)
			blayout := layout
			if layout == 5 {
				blayout = gen.Uniform(t, "blayout", 5)
			}
			var keys []int
			switch blayout {
			case 0: // disjoint runs, buffer after buffer
				n := (30 + gen.Uniform(t, "runlen", 371))
				n = min(n, max(1, budget))
				gap := (1 + gen.Uniform(t, "gap", 5))
				for i := range n {
					keys = append(keys, runLo+i)
				}
				runLo += n - 1 + gap
			case 1: // runs whose boundary key is equal
				n := (30 + gen.Uniform(t, "runlen", 371))
				n = min(n, max(2, budget))
				for i := range n {
					keys = append(keys, runLo+i)
				}
				runLo += n - 1 // next buffer starts at this buffer's last key
			case 2: // several shorter runs spread over the span (chunk sized)
				nr := (1 + gen.Uniform(t, "nruns", 4))
				for range nr {
					lo := gen.Uniform(t, "lo", span+1)
					n := (10 + gen.Uniform(t, "runlen", 111))
					for i := range n {
						keys = append(keys, lo+i)
					}
				}
			case 3: // interleaved: stride k, offset b
				n := (5 + gen.Uniform(t, "n", 196))
				lo := gen.Uniform(t, "lo", (span/2)+1)
				for i := range n {
					keys = append(keys, lo+b+i*k)
				}
			default: // scattered
				for range gen.Uniform(t, "nscattered", 61) {
					keys = append(keys, gen.Uniform(t, "scattered", span+1))
				}
			}
			for i, n := range keys {
				if budget <= 0 {
					break
				}
				budget--
				g.touch(c11key(n), pat[i%len(pat)], ext[i%len(ext)])
			}
			bufs[b], models[b] = g.real, g.model
			multi += g.multi
		}

		// each buffer is what its own history says (Insert's combining)
		before := make([][]slotv, k)
		total := 0
		for b := range k {
			before[b] = contents(bufs[b])
			if i, ok := slotsEq(before[b], models[b].contents()); !ok {
				t.Fatalf("buffer %d differs from its history at %d: real%s model%s", b, i, showAround(before[b], i), showAround(models[b].contents(), i))
			}
			if bufs[b].Len() != len(before[b]) {
				t.Fatalf("buffer %d Len %d != %d entries", b, bufs[b].Len(), len(before[b]))
			}
			total += len(before[b])
		}

		// own fold, buffer after buffer
		want := mbuf{}
		inBufs := map[string]int{}
		for b := range k {
			for _, key := range models[b].sortedKeys() {
				want.apply(key, models[b][key])
				inBufs[key]++
			}
		}
		wantC := want.contents()
		// harness self check: the fold applied to the base gives the final key set
		final := map[string]uint64{}
		for kk, v := range base {
			final[kk] = v
		}
		for key, e := range want {
			switch e.op {
			case opAdd, opUpdate:
				final[key] = e.off
			case opDelete:
				delete(final, key)
			}
		}
		if len(final) != len(exists) {
			t.Fatalf("harness: folded changes give %d keys, sequential application %d", len(final), len(exists))
		}
		for kk, v := range exists {
			if final[kk] != v {
				t.Fatalf("harness: folded changes disagree with sequential application for %q", kk)
			}
		}

		check := func(how string, got *ixbuf.T) {
			gotC := contents(got)
			if i, ok := ordered(gotC); !ok {
				t.Fatalf("%s: result not strictly increasing at %d:%s", how, i, showAround(gotC, i))
			}
			if i, ok := slotsEq(gotC, wantC); !ok {
				t.Fatalf("%s: merged result differs from applying the buffers in order at entry %d: real%s model%s (%d buffers)", how, i, showAround(gotC, i), showAround(wantC, i), k)
			}
			if got.Len() != len(wantC) {
				t.Fatalf("%s: Len %d != %d entries", how, got.Len(), len(wantC))
			}
			// point reads of the result
			for i := 0; i < len(wantC); i += 1 + len(wantC)/16 {
				if o := got.Lookup(wantC[i].key); o != wantC[i].off {
					t.Fatalf("%s: Lookup(%q) = %s want %s", how, wantC[i].key, ixbuf.OffString(o), ixbuf.OffString(wantC[i].off))
				}
			}
		}
		merged := ixbuf.Merge(bufs...)
		check("Merge(all)", merged)
		shared := merged.VerifSharedChunks(bufs...)
		// chained, the way the base layer accumulates: Merge(Merge(b0..bj), bj+1..)
		chainShared := 0
		if k >= 3 {
			j := (2 + gen.Uniform(t, "chain", (k-1)-(2)+1))
			m1 := ixbuf.Merge(bufs[:j]...)
			m1before := contents(m1)
			rest := append([]*ixbuf.T{m1}, bufs[j:]...)
			m2 := ixbuf.Merge(rest...)
			check("Merge(Merge(first),rest)", m2)
			chainShared = m2.VerifSharedChunks(rest...)
			if i, ok := slotsEq(contents(m1), m1before); !ok {
				t.Fatalf("intermediate merge result changed by the second merge at %d", i)
			}
		}
		// inputs unchanged
		for b := range k {
			if i, ok := slotsEq(contents(bufs[b]), before[b]); !ok {
				t.Fatalf("input buffer %d changed by Merge at entry %d: now%s was%s", b, i, showAround(contents(bufs[b]), i), showAround(before[b], i))
			}
		}

		nmulti := 0
		for _, n := range inBufs {
			if n >= 2 {
				nmulti++
			}
		}
		cancelled := 0
		for key, n := range inBufs {
			if _, ok := want[key]; !ok && n >= 2 {
				cancelled++
			}
		}
		nt := (shared >= 1 || chainShared >= 1) && nmulti >= 1
		var sb strings.Builder
		for b := range k {
			fmt.Fprintf(&sb, "|%d:%x", len(before[b]), hashSlots(before[b]))
		}
		rec.Case(nt, sb.String())
		rec.Label(fmt.Sprintf("layout_%d", layout))
		rec.Label("nbufs_" + bucket(k, 2, 4, 8))
		rec.Label("entries_" + bucket(total, 50, 300, 800, 1500))
		rec.LabelIf(shared >= 1, "passthru_whole_chunk")
		rec.LabelIf(shared >= 3, "passthru_whole_chunk>=3")
		rec.LabelIf(chainShared >= 1, "passthru_in_chained_merge")
		rec.LabelIf(nmulti >= 1, "key_in>=2_buffers")
		rec.LabelIf(cancelled >= 1, "add_delete_cancelled_across_buffers")
		rec.LabelIf(multi >= 1, "several_ops_on_a_key_inside_a_buffer")
		rec.LabelIf(len(wantC) > 0 && wantC[0].key == "", "empty_key_in_result")
		nchunks := len(merged.VerifChunkSizes())
		rec.Label("result_chunks_" + bucket(nchunks, 1, 4, 16))
		if nt && rec.WantSample("merge") {
			sizes := make([]int, k)
			for b := range k {
				sizes[b] = len(before[b])
			}
			first := ""
			if len(wantC) > 0 {
				first = showAround(wantC, 1)
			}
			rec.Sample("merge", map[string]any{"layout": layout, "buffer_sizes": sizes, "result_entries": len(wantC), "result_chunks": merged.VerifChunkSizes(), "chunks_passed_through": shared, "keys_in_2_or_more_buffers": nmulti, "result_head": first})
		}
	})
}

func hashSlots(s []slotv) uint64 {
	var sb strings.Builder
	for _, x := range s {
		sb.WriteString(x.key)
		sb.WriteByte(0)
		fmt.Fprintf(&sb, "%x;", x.off)
	}
	return ev.Hash(sb.String())
}
