package index

import (
	"fmt"
	"strings"
	"testing"

	"github.com/apmckinlay/gsuneido/core"
	"github.com/apmckinlay/gsuneido/db19"
	"github.com/apmckinlay/gsuneido/db19/index/ixkey"
	"pgregory.net/rapid"
	"verifharness/internal/ev"
	"verifharness/internal/gen"
	"verifharness/internal/kf"
	"verifharness/internal/rt"
)

// ------------------------------------------------------------ spec model

// mspec is the harness's description of an index spec over record fields.
type mspec struct {
	fields  []int  // record field numbers
	lower   []bool // _lower! per field
	fields2 []int
}

func (s mspec) real() *ixkey.Spec {
	f := make([]int, len(s.fields))
	for i, x := range s.fields {
		if s.lower[i] {
			f[i] = -x - 2
		} else {
			f[i] = x
		}
	}
	sp := &ixkey.Spec{Fields: f}
	if len(s.fields2) > 0 {
		sp.Fields2 = append([]int(nil), s.fields2...)
	}
	return sp
}

func (s mspec) encodes() bool { return len(s.fields) > 1 || len(s.fields2) > 0 }

func (s mspec) String() string {
	return fmt.Sprint(s.fields, s.lower, s.fields2)
}

// lowerModel: _lower! lower-cases ASCII letters of packed strings (tag 4).
func lowerModel(f string) string {
	if f == "" || f[0] != 4 {
		return f
	}
	b := []byte(f)
	for i, c := range b {
		if 'A' <= c && c <= 'Z' {
			b[i] = c + 32
		}
	}
	return string(b)
}

func fieldOf(rec []string, i int) string {
	if i < len(rec) {
		return rec[i]
	}
	return ""
}

// vals returns the indexed values (after _lower!) of rec for the main fields.
func (s mspec) vals(rec []string) []string {
	v := make([]string, len(s.fields))
	for i, f := range s.fields {
		v[i] = fieldOf(rec, f)
		if s.lower[i] {
			v[i] = lowerModel(v[i])
		}
	}
	return v
}

func (s mspec) vals2(rec []string) []string {
	v := make([]string, len(s.fields2))
	for i, f := range s.fields2 {
		v[i] = fieldOf(rec, f)
	}
	return v
}

func allEmpty(v []string) bool {
	for _, f := range v {
		if f != "" {
			return false
		}
	}
	return true
}

// keyTuple is the tuple the key of rec stands for, and whether trailing
// empty fields are dropped (they are kept when the secondary fields of a
// unique index are used).
func (s mspec) keyTuple(rec []string) (tuple []string, trimmed bool) {
	v := s.vals(rec)
	if allEmpty(v) && len(s.fields2) > 0 {
		return append(v, s.vals2(rec)...), false
	}
	return trimTuple(v), true
}

// keyModel is the documented key: a single field index is not encoded,
// otherwise fields are escaped and separated.
func (s mspec) keyModel(rec []string) string {
	if !s.encodes() {
		return s.vals(rec)[0]
	}
	tup, trimmed := s.keyTuple(rec)
	if trimmed {
		return encTuple(tup)
	}
	return encNoTrim(tup)
}

// cmpModel compares the indexed fields in order (then the secondary fields
// when all main fields are empty on both sides).
func (s mspec) cmpModel(r1, r2 []string) int {
	v1, v2 := s.vals(r1), s.vals(r2)
	for i := range v1 {
		if c := strings.Compare(v1[i], v2[i]); c != 0 {
			return c
		}
	}
	if allEmpty(v1) {
		w1, w2 := s.vals2(r1), s.vals2(r2)
		for i := range w1 {
			if c := strings.Compare(w1[i], w2[i]); c != 0 {
				return c
			}
		}
	}
	return 0
}

func genSpec(t *rapid.T, nf int) mspec {
	perm := rapid.Permutation(seqInts(nf)).Draw(t, "perm")
	n := (1 + gen.Uniform(t, "nfields", nf))
	s := mspec{fields: perm[:n], lower: make([]bool, n)}
	for i := range s.lower {
		s.lower[i] = gen.Uniform(t, "lower", 5) == 0
	}
	switch gen.Uniform(t, "f2cls", 4) {
	case 0: // unique index: secondary fields = the other fields
		if n < nf {
			m := (1 + gen.Uniform(t, "nfields2", nf-n))
			s.fields2 = perm[n : n+m]
		}
	case 1: // secondary fields drawn from all fields
		m := (1 + gen.Uniform(t, "nfields2", 2))
		for range m {
			s.fields2 = append(s.fields2, gen.Uniform(t, "f2", (nf-1)+1))
		}
	}
	return s
}

func seqInts(n int) []int {
	s := make([]int, n)
	for i := range s {
		s[i] = i
	}
	return s
}

func buildRec(fields []string) core.Record {
	var b core.RecordBuilder
	for _, f := range fields {
		b.AddRaw(f)
	}
	return b.Build()
}

func genTuple(t *rapid.T, n int, g *rapid.Generator[string], label string) []string {
	tup := make([]string, n)
	for i := range tup {
		tup[i] = g.Draw(t, label)
	}
	return tup
}

// mutateTuple derives a near neighbour of tup: the pairs that stress the
// escaping are those that differ by a zero byte, a separator look-alike or a
// trailing empty field.
func mutateTuple(t *rapid.T, tup []string, g *rapid.Generator[string]) []string {
	r := append([]string(nil), tup...)
	nmut := (1 + gen.Uniform(t, "nmut", 2))
	for range nmut {
		i := gen.Uniform(t, "mi", (len(r)-1)+1)
		switch gen.Uniform(t, "mcls", 10) {
		case 0:
			r[i] += "\x00"
		case 1:
			r[i] += "\x01"
		case 2:
			r[i] += "\x00\x01"
		case 3:
			if len(r[i]) > 0 {
				r[i] = r[i][:len(r[i])-1]
			}
		case 4:
			r[i] = ""
		case 5: // move the boundary: a,b -> a+"\0\0"+b style look-alikes
			if i+1 < len(r) {
				r[i], r[i+1] = r[i]+"\x00", "\x00"+r[i+1]
			}
		case 6: // join two fields with something that looks like a separator
			if i+1 < len(r) {
				r[i], r[i+1] = r[i]+"\x00\x00"+r[i+1], ""
			}
		case 7: // case change (for _lower!)
			b := []byte(r[i])
			for j, c := range b {
				if 'a' <= c && c <= 'z' {
					b[j] = c - 32
				} else if 'A' <= c && c <= 'Z' {
					b[j] = c + 32
				}
			}
			r[i] = string(b)
		case 8:
			r[i] = g.Draw(t, "mf")
		default:
			if len(r[i]) > 0 {
				j := gen.Uniform(t, "mj", (len(r[i])-1)+1)
				b := []byte(r[i])
				b[j] = zeroHeavyByte().Draw(t, "mb")
				r[i] = string(b)
			}
		}
	}
	return r
}

func hasZero(t []string) bool {
	for _, f := range t {
		if strings.Contains(f, "\x00") {
			return true
		}
	}
	return false
}

func commonFields(a, b []string) int {
	n := 0
	for n < len(a) && n < len(b) && a[n] == b[n] {
		n++
	}
	return n
}

// catch runs f and returns the panic value (nil if none).
func catch(f func()) (e any) {
	defer func() { e = recover() }()
	f()
	return nil
}

// rethrowRapid passes on rapid's own control-flow panics (t.Fatalf inside a
// guarded call).
func rethrowRapid(e any) {
	if strings.Contains(fmt.Sprintf("%T", e), "rapid.") {
		panic(e)
	}
}

// TestC12: composite index keys preserve value order and are unambiguous.
func TestC12(t *testing.T) {
	rec := ev.New("C12", "rapid-generated record pairs (1-5 fields of arbitrary bytes, weight on 0x00, 0x00 0x00, 0x00 0x01, 0x01, trailing zeros and empty fields; second record a near neighbour of the first in 3 of 4 cases) with index specs (field permutations, _lower! fields, secondary fields of unique indexes); Encoder scripts (Add of generated fields, 35 % empty, Dup at generated points incl. right after 0-3 leading empty fields, continued on original and copy, String) against the tuple model; tuple-level checks of Decode/Decode1/HasPrefix/SplitPrefixSuffix/JoinPrefixSuffix/TruncFunc and of rangeEnd over packed-like fields. Non-trivial: a pair whose indexed tuples share a leading field or a byte prefix of the first differing field and contain a zero byte; distinct = by rendered pair + spec.")
	rec.Assumptions = []string{
		"the order and the key format are the harness's own tuple-level model of the documented format (0,0 separator, 0 -> 0,1, trailing empty fields dropped, single-field keys not encoded, secondary fields only when all main fields are empty)",
		"checks involving ixkey.Max (rangeEnd) use fields that are empty or start with a pack tag 0..7, as every real caller does",
		"TruncFunc is judged for the shape its only caller uses: spec2.Fields is a leading part of spec1.Fields, spec2 has no secondary fields",
		"keys stay far below the 4096 byte limit (the size refusal is not judged)"}
	defer rec.Write()

	e1, truncInnerKnown := kf.Known("C12", "truncfunc-inner-trailing-empty")
	e2, truncF2Known := kf.Known("C12", "truncfunc-fields2-all-empty")
	truncInnerWhat, truncF2What := e1.What, e2.What

	rt.Check(t, rec, "order", 30000, 500000, func(t *rapid.T) {
		nf := (1 + gen.Uniform(t, "nf", 5))
		sp := genSpec(t, nf)
		r1 := genTuple(t, nf, rawField(), "f")
		if len(sp.fields2) > 0 && gen.Chance(t, "mainempty", 25) {
			for _, f := range sp.fields { // the unique-index rule applies only when all main fields are empty
				r1[f] = ""
			}
		}
		var r2 []string
		cls := gen.Uniform(t, "paircls", 4)
		if cls == 0 {
			r2 = genTuple(t, nf, rawField(), "g")
		} else {
			r2 = mutateTuple(t, r1, rawField())
		}
		spec := sp.real()
		rec1, rec2 := buildRec(r1), buildRec(r2)
		k1, k2 := spec.Key(rec1), spec.Key(rec2)

		// the key is the documented encoding of the indexed tuple
		if m := sp.keyModel(r1); k1 != m {
			t.Fatalf("Key(%s) spec %v = %q, model %q", qs(r1), sp, k1, m)
		}
		if m := sp.keyModel(r2); k2 != m {
			t.Fatalf("Key(%s) spec %v = %q, model %q", qs(r2), sp, k2, m)
		}
		want := sp.cmpModel(r1, r2)
		if got := sgn(strings.Compare(k1, k2)); got != want {
			t.Fatalf("key order %d != field order %d: %s -> %q, %s -> %q, spec %v", got, want, qs(r1), k1, qs(r2), k2, sp)
		}
		if got := sgn(spec.Compare(rec1, rec2)); got != want {
			t.Fatalf("Spec.Compare %d != field order %d: %s vs %s, spec %v", got, want, qs(r1), qs(r2), sp)
		}
		if got := sgn(spec.Compare(rec2, rec1)); got != -want {
			t.Fatalf("Spec.Compare not antisymmetric: %s vs %s, spec %v", qs(r1), qs(r2), sp)
		}
		// distinct tuples <=> distinct keys (stated separately from the order)
		if (want == 0) != (k1 == k2) {
			t.Fatalf("tuples distinct=%v but keys equal=%v: %s, %s -> %q, %q spec %v", want != 0, k1 == k2, qs(r1), qs(r2), k1, k2, sp)
		}
		// decoding recovers the tuple
		if sp.encodes() {
			for i, r := range [][]string{r1, r2} {
				k := []string{k1, k2}[i]
				tup, _ := sp.keyTuple(r)
				got := ixkey.Decode(k)
				if !tupleEq(got, tup) {
					t.Fatalf("Decode(Key(%s)) = %s, want %s (key %q spec %v)", qs(r), qs(got), qs(tup), k, sp)
				}
				for j := 0; j <= len(tup); j++ {
					w := ""
					if j < len(tup) {
						w = tup[j]
					}
					if g := ixkey.Decode1(k, j); g != w {
						t.Fatalf("Decode1(%q,%d) = %q, want %q", k, j, g, w)
					}
				}
			}
		}
		v1, v2 := sp.vals(r1), sp.vals(r2)
		shared := commonFields(v1, v2)
		bytePrefix := false
		if shared < len(v1) {
			a, b := v1[shared], v2[shared]
			bytePrefix = len(a) > 0 && len(b) > 0 && a[0] == b[0]
		}
		nt := want != 0 && (shared >= 1 || bytePrefix) && (hasZero(v1) || hasZero(v2)) && sp.encodes()
		rec.Case(nt, qs(r1)+qs(r2)+sp.String())
		rec.LabelIf(want == 0, "order_equal_tuples")
		rec.LabelIf(want == 0 && !tupleEq(r1, r2), "order_equal_keys_from_different_records")
		rec.LabelIf(!sp.encodes(), "order_single_field_not_encoded")
		rec.LabelIf(len(sp.fields2) > 0, "order_spec_with_fields2")
		rec.LabelIf(len(sp.fields2) > 0 && (allEmpty(v1) || allEmpty(v2)), "order_fields2_used")
		rec.LabelIf(len(sp.fields2) > 0 && allEmpty(v1) != allEmpty(v2), "order_fields2_vs_main")
		lowerMatters := false
		for i, l := range sp.lower {
			if l && (fieldOf(r1, sp.fields[i]) != v1[i] || fieldOf(r2, sp.fields[i]) != v2[i]) {
				lowerMatters = true
			}
		}
		rec.LabelIf(lowerMatters, "order_lower_changes_a_value")
		rec.LabelIf(hasZero(v1) || hasZero(v2), "order_zero_byte")
		rec.LabelIf(len(trimTuple(v1)) != len(v1) || len(trimTuple(v2)) != len(v2), "order_trailing_empty_trimmed")
		rec.LabelIf(shared >= 1 && want != 0, "order_shared_leading_field")
		if nt && rec.WantSample("order_pair") {
			rec.Sample("order_pair", map[string]string{"r1": qs(r1), "r2": qs(r2), "spec": sp.String(), "k1": q(k1), "k2": q(k2), "cmp": fmt.Sprint(want)})
		}
	})

	rt.Check(t, rec, "helpers", 25000, 400000, func(t *rapid.T) {
		n := (1 + gen.Uniform(t, "n", 5))
		tup := genTuple(t, n, rawField(), "f")
		tr := trimTuple(tup)
		key := encTuple(tup)

		// Encoder / CompKey build the documented key
		var enc ixkey.Encoder
		for i, f := range tup {
			if i == len(tup)/2 { // Dup must not share state
				d := enc.Dup()
				d.Add("zzz")
				_ = d.String()
			}
			enc.Add(f)
		}
		if got := enc.String(); got != key {
			t.Fatalf("Encoder%s = %q, model %q", qs(tup), got, key)
		}
		if got := ixkey.CompKey(tup...); got != key {
			t.Fatalf("CompKey%s = %q, model %q", qs(tup), got, key)
		}
		if got := ixkey.Encode(tup[0]); got != encField(tup[0]) {
			t.Fatalf("Encode(%q) = %q", tup[0], got)
		}
		if got := ixkey.Decode(key); !tupleEq(got, tr) {
			t.Fatalf("Decode(%q) = %s, want %s", key, qs(got), qs(tr))
		}

		// HasPrefix: by field
		var p []string
		pcls := gen.Uniform(t, "pcls", 4)
		switch pcls {
		case 0: // a real field prefix
			p = append([]string(nil), tup[:(1+gen.Uniform(t, "plen", n))]...)
		case 1: // field prefix with the last field cut or extended
			p = append([]string(nil), tup[:(1+gen.Uniform(t, "plen", n))]...)
			p = mutateTuple(t, p, rawField())
		case 2: // byte prefix of the last field
			p = append([]string(nil), tup[:(1+gen.Uniform(t, "plen", n))]...)
			l := p[len(p)-1]
			if len(l) > 0 {
				p[len(p)-1] = l[:gen.Uniform(t, "cut", (len(l)-1)+1)]
			}
		default:
			p = genTuple(t, (1 + gen.Uniform(t, "plen", n)), rawField(), "p")
		}
		ptr := trimTuple(p)
		if len(ptr) > 0 { // the empty prefix is not a field prefix in the implementation's sense; no caller passes it
			pkey := encTuple(p)
			want := len(ptr) <= len(tr) && tupleEq(ptr, tr[:len(ptr)])
			if got := ixkey.HasPrefix(key, pkey); got != want {
				t.Fatalf("HasPrefix(%q,%q) = %v, tuples %s %s", key, pkey, got, qs(tr), qs(ptr))
			}
			rec.LabelIf(want, "helpers_hasprefix_true")
			rec.LabelIf(!want && strings.HasPrefix(key, pkey), "helpers_hasprefix_false_but_byte_prefix")
		}

		// SplitPrefixSuffix / JoinPrefixSuffix
		ns := (1 + gen.Uniform(t, "nsplit", n+1))
		wp, ws := splitModel(tup, ns)
		gp, gs := ixkey.SplitPrefixSuffix(key, ns)
		if gp != wp || gs != ws {
			t.Fatalf("SplitPrefixSuffix(%q,%d) = %q,%q want %q,%q (tuple %s)", key, ns, gp, gs, wp, ws, qs(tup))
		}
		joined := ixkey.JoinPrefixSuffix(gp, ns, gs)
		if len(tr) > ns {
			if joined != key {
				t.Fatalf("Join(Split(%q,%d)) = %q", key, ns, joined)
			}
			rec.Label("helpers_split_with_suffix")
		} else {
			// short key: the join is the seek target "prefix + missing separators"
			pad := append(append([]string(nil), tr...), make([]string, ns+1-len(tr))...)
			if joined != encNoTrim(pad) {
				t.Fatalf("Join(Split(%q,%d)) = %q want %q", key, ns, joined, encNoTrim(pad))
			}
			rec.Label("helpers_split_short_key")
		}
		// joining a group prefix with another suffix gives the key of that tuple
		if len(tr) >= 1 {
			sfx := genTuple(t, (1 + gen.Uniform(t, "nsfx", 2)), rawField(), "s")
			if len(trimTuple(sfx)) == len(sfx) {
				pre := append([]string(nil), tup...)
				for len(pre) < ns {
					pre = append(pre, "")
				}
				pre = pre[:ns]
				full := append(append([]string(nil), pre...), sfx...)
				pk, _ := splitModel(full, ns)
				if got := ixkey.JoinPrefixSuffix(pk, ns, encNoTrim(sfx)); got != encTuple(full) {
					t.Fatalf("JoinPrefixSuffix(%q,%d,%q) = %q want %q", pk, ns, encNoTrim(sfx), got, encTuple(full))
				}
			}
		}

		// TruncFunc: key of the source index -> key of the target index
		// (the foreign key check of db.Check: spec2.Fields leads spec1.Fields)
		nf := n
		n2 := (1 + gen.Uniform(t, "n2", nf))
		s1 := mspec{fields: seqInts(nf), lower: make([]bool, nf)}
		s2 := mspec{fields: seqInts(n2), lower: make([]bool, n2)}
		if n2 == nf && gen.Chance(t, "unique", 50) {
			s1.fields2 = []int{nf} // a further record field
		}
		recFields := append(append([]string(nil), tup...), rawField().Draw(t, "extra"))
		k1 := s1.real().Key(buildRec(recFields))
		wantK2 := s2.real().Key(buildRec(recFields))
		// the two input classes of the known findings (see known_findings.json)
		innerEmpty := n2 >= 2 && nf > n2 && len(trimTuple(tup[:n2])) < n2 && len(tr) > n2
		f2AllEmpty := len(s1.fields2) > 0 && allEmpty(tup) && nf >= 2
		switch {
		case innerEmpty && truncInnerKnown:
			rec.Excluded("truncfunc-inner-trailing-empty")
			rec.Known(truncInnerWhat)
		case f2AllEmpty && truncF2Known:
			rec.Excluded("truncfunc-fields2-all-empty")
			rec.Known(truncF2What)
		default:
			got := ixkey.TruncFunc(*s1.real(), *s2.real())(k1)
			if got != wantK2 {
				t.Fatalf("TruncFunc(%v -> %v)(%q) = %q, but the target key of %s is %q", s1, s2, k1, got, qs(recFields), wantK2)
			}
			rec.LabelIf(n2 < nf, "helpers_truncfunc_fewer_fields")
			rec.LabelIf(len(s1.fields2) > 0, "helpers_truncfunc_unique_source")
		}

		nt := hasZero(tup) && len(tr) >= 2
		rec.Case(nt, "h"+qs(tup)+qs(p)+fmt.Sprint(ns, n2))
		rec.LabelIf(hasZero(tup), "helpers_zero_byte")
		rec.LabelIf(len(tr) < len(tup), "helpers_trailing_empty")
		if nt && rec.WantSample("helpers") {
			rec.Sample("helpers", map[string]string{"tuple": qs(tup), "key": q(key), "prefix": qs(p), "split": fmt.Sprint(ns), "split_prefix": q(gp), "split_suffix": q(gs)})
		}
	})

	// Encoder as a state machine: several live encoders, Add / Dup / String
	// in generated order; every encoder has the tuple added so far as model.
	rt.Check(t, rec, "encoder", 15000, 300000, func(t *rapid.T) {
		type live struct {
			enc   *ixkey.Encoder
			model []string
			name  string
		}
		encs := []*live{{enc: &ixkey.Encoder{}, name: "e0"}}
		var hist []string
		fail := func(format string, a ...any) {
			t.Fatalf("%s\n  script: %s", fmt.Sprintf(format, a...), strings.Join(hist, "; "))
		}
		field := func() string {
			if gen.Chance(t, "emptyfield", 35) {
				return ""
			}
			return rawField().Draw(t, "f")
		}
		add := func(l *live, f string) {
			l.enc.Add(f)
			l.model = append(append([]string(nil), l.model...), f)
			hist = append(hist, fmt.Sprintf("%s.Add(%s)", l.name, q(f)))
		}
		dups, dupsAfterLeadingEmpty := 0, 0
		dup := func(l *live) {
			// the copy must equal the original at this moment: a second copy is
			// rendered at once, the first one lives on
			probe := l.enc.Dup()
			c := &live{enc: l.enc.Dup(), model: append([]string(nil), l.model...), name: fmt.Sprintf("e%d", len(encs))}
			hist = append(hist, fmt.Sprintf("%s=%s.Dup()", c.name, l.name))
			if got, want := probe.String(), encTuple(l.model); got != want {
				fail("Dup of an Encoder holding %s renders %q, the key of these fields is %q", qs(l.model), got, want)
			}
			// continuing on a copy must give the key of fields+more (the leading fields must not be forgotten)
			more := field()
			probe2 := l.enc.Dup()
			probe2.Add(more)
			ext := append(append([]string(nil), l.model...), more)
			if got, want := probe2.String(), encTuple(ext); got != want {
				fail("Dup of an Encoder holding %s, then Add(%q), renders %q; the key of %s is %q", qs(l.model), more, got, qs(ext), want)
			}
			encs = append(encs, c)
			dups++
			lead := 0
			for lead < len(l.model) && l.model[lead] == "" {
				lead++
			}
			switch {
			case len(l.model) == 0:
				rec.Label("encoder_dup_of_fresh_encoder")
			case lead == len(l.model):
				dupsAfterLeadingEmpty++
				rec.Label(fmt.Sprintf("encoder_dup_after_only_%s_empty_fields", bucket(lead, 1, 2)))
			case lead > 0:
				rec.Label("encoder_dup_after_leading_empty_then_data")
			default:
				rec.Label("encoder_dup_after_data")
			}
		}
		render := func(l *live) {
			got, want := l.enc.String(), encTuple(l.model)
			hist = append(hist, fmt.Sprintf("%s.String()", l.name))
			if got != want {
				fail("Encoder %s with fields %s renders %q, model %q", l.name, qs(l.model), got, want)
			}
			if got2 := ixkey.Decode(got); !tupleEq(got2, trimTuple(l.model)) {
				fail("Decode(%q) = %s, fields were %s", got, qs(got2), qs(l.model))
			}
			l.model = nil // String resets the Encoder
		}
		// opening: 0-3 empty fields, possibly followed directly by a Dup
		if gen.Chance(t, "opening", 50) {
			for range gen.Uniform(t, "leadingempty", 4) {
				add(encs[0], "")
			}
			if gen.Chance(t, "dupnow", 70) {
				dup(encs[0])
			}
		}
		steps := 3 + gen.Uniform(t, "steps", 12)
		for range steps {
			l := encs[gen.Uniform(t, "which", len(encs))]
			switch gen.Weighted(t, "act", []int{55, 25, 20}) {
			case 0:
				add(l, field())
			case 1:
				if len(encs) < 6 {
					dup(l)
				} else {
					add(l, field())
				}
			default:
				render(l)
			}
		}
		// at the end every encoder still is what its own history says (independence)
		for _, l := range encs {
			render(l)
		}
		rec.Case(dups > 0 && len(hist) > 4, "e"+strings.Join(hist, ";"))
		rec.LabelIf(dups > 0, "encoder_script_with_dup")
		rec.LabelIf(dupsAfterLeadingEmpty > 0, "encoder_script_dup_after_only_empty_fields")
		if dupsAfterLeadingEmpty > 0 && rec.WantSample("encoder") {
			rec.Sample("encoder", map[string]any{"script": hist})
		}
	})

	rt.Check(t, rec, "rangeend", 25000, 400000, func(t *rapid.T) {
		n := (1 + gen.Uniform(t, "n", 4))
		tgt := genTuple(t, n, packedField(), "f") // the target key's fields (n = number of key columns)
		if allEmpty(tgt) {
			tgt[gen.Uniform(t, "ne", (n-1)+1)] = "\x04k" // callers skip the empty key
		}
		key := encTuple(tgt)
		end := db19.VerifRangeEnd(key, n)
		if !(key < end) {
			t.Fatalf("rangeEnd(%q,%d) = %q is not above the key", key, n, end)
		}
		// a source key: >= n fields, near the target
		m := (n + gen.Uniform(t, "m", (n+2)-(n)+1))
		src := make([]string, m)
		switch gen.Uniform(t, "scls", 4) {
		case 0:
			copy(src, tgt)
			for i := n; i < m; i++ {
				src[i] = packedField().Draw(t, "x")
			}
		case 1, 2:
			copy(src, mutatePacked(t, tgt))
			for i := n; i < m; i++ {
				src[i] = packedField().Draw(t, "x")
			}
		default:
			src = genTuple(t, m, packedField(), "s")
		}
		k := encTuple(src)
		want := tupleEq(src[:n], tgt)
		got := key <= k && k < end
		if got != want {
			t.Fatalf("rangeEnd: key %q n=%d end %q; source %s key %q in range=%v, leading fields equal=%v (target %s)", key, n, end, qs(src), k, got, want, qs(tgt))
		}
		nt := hasZero(tgt) || len(trimTuple(tgt)) < n
		rec.Case(nt && commonFields(src, tgt) >= 1, "r"+qs(tgt)+qs(src))
		rec.LabelIf(want, "rangeend_in_range")
		rec.LabelIf(!want && commonFields(src, tgt) == n-1, "rangeend_last_field_differs")
		rec.LabelIf(len(trimTuple(tgt)) < n, "rangeend_target_trailing_empty")
		rec.LabelIf(want && len(trimTuple(src)) == len(trimTuple(tgt)), "rangeend_source_equals_target_key")
		if nt && rec.WantSample("rangeend") {
			rec.Sample("rangeend", map[string]string{"target": qs(tgt), "n": fmt.Sprint(n), "end": q(end), "source": qs(src), "in": fmt.Sprint(got)})
		}
	})
}

// mutatePacked changes one field of a packed-like tuple keeping it packed-like.
func mutatePacked(t *rapid.T, tup []string) []string {
	r := append([]string(nil), tup...)
	i := gen.Uniform(t, "mi", (len(r)-1)+1)
	switch gen.Uniform(t, "mcls", 6) {
	case 0:
		if r[i] != "" {
			r[i] += "\x00"
		}
	case 1:
		if r[i] != "" {
			r[i] += "\x01"
		}
	case 2:
		if len(r[i]) > 1 {
			r[i] = r[i][:len(r[i])-1]
		}
	case 3:
		r[i] = ""
	case 4:
		if r[i] != "" {
			r[i] += "\xff"
		}
	default:
		r[i] = packedField().Draw(t, "mf")
	}
	return r
}
