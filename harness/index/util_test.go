// Package index holds the checks for the index structures of gSuneido:
// C09 (iteration), C10 (btree as ordered map), C11 (ixbuf merge),
// C12 (composite index keys).
//
// Every oracle here is an own model (sorted map, tuple-level definitions of
// the key encoding); the package's Check helpers are only ever used in
// addition to it.
package index

import (
	"flag"
	"fmt"
	"sort"
	"strconv"
	"strings"

	"pgregory.net/rapid"
	"verifharness/internal/gen"
)

// ---------------------------------------------------------------- sorted map

// omap is the oracle: a sorted map key -> live offset.
type omap struct {
	keys []string // sorted
	off  map[string]uint64
}

func newOmap() *omap { return &omap{off: map[string]uint64{}} }

func (m *omap) clone() *omap {
	c := &omap{keys: append([]string(nil), m.keys...), off: make(map[string]uint64, len(m.off))}
	for _, k := range m.keys {
		c.off[k] = m.off[k]
	}
	return c
}

func (m *omap) len() int { return len(m.keys) }

func (m *omap) has(k string) bool { _, ok := m.off[k]; return ok }

func (m *omap) get(k string) uint64 { return m.off[k] }

// ceil returns the index of the first key >= k (len if none).
func (m *omap) ceil(k string) int { return sort.SearchStrings(m.keys, k) }

func (m *omap) put(k string, off uint64) {
	if _, ok := m.off[k]; !ok {
		i := m.ceil(k)
		m.keys = append(m.keys, "")
		copy(m.keys[i+1:], m.keys[i:])
		m.keys[i] = k
	}
	m.off[k] = off
}

func (m *omap) del(k string) {
	if _, ok := m.off[k]; !ok {
		return
	}
	i := m.ceil(k)
	m.keys = append(m.keys[:i], m.keys[i+1:]...)
	delete(m.off, k)
}

func (m *omap) equal(o *omap) bool {
	if len(m.keys) != len(o.keys) {
		return false
	}
	for i, k := range m.keys {
		if o.keys[i] != k || o.off[k] != m.off[k] {
			return false
		}
	}
	return true
}

// ------------------------------------------------- model of the key encoding

const sep = "\x00\x00"

// keyMax is the documented conventional maximum (ixkey.Max); the model has
// its own copy so that a change of the constant is noticed.
const keyMax = "\xff\xff\xff\xff\xff\xff\xff\xff"

// encField: a zero byte is written as 0,1 (documented in package ixkey).
func encField(f string) string { return strings.ReplaceAll(f, "\x00", "\x00\x01") }

// trimTuple drops trailing empty fields.
func trimTuple(t []string) []string {
	n := len(t)
	for n > 0 && t[n-1] == "" {
		n--
	}
	return t[:n]
}

// encTuple is the tuple-level definition of a composite key: fields escaped,
// joined by 0,0, trailing empty fields dropped.
func encTuple(t []string) string {
	t = trimTuple(t)
	parts := make([]string, len(t))
	for i, f := range t {
		parts[i] = encField(f)
	}
	return strings.Join(parts, sep)
}

// encNoTrim joins without trimming.
func encNoTrim(t []string) string {
	parts := make([]string, len(t))
	for i, f := range t {
		parts[i] = encField(f)
	}
	return strings.Join(parts, sep)
}

// splitModel is the tuple-level definition of ixkey.SplitPrefixSuffix for a
// key made from tuple t: prefix = key of the first n fields (trimmed),
// suffix = the remaining fields of the trimmed tuple, encoded and joined.
func splitModel(t []string, n int) (prefix, suffix string) {
	t = trimTuple(t)
	if len(t) <= n {
		return encTuple(t), ""
	}
	return encTuple(t[:n]), encNoTrim(t[n:])
}

func tupleEq(a, b []string) bool {
	if len(a) != len(b) {
		return false
	}
	for i := range a {
		if a[i] != b[i] {
			return false
		}
	}
	return true
}

func sgn(x int) int {
	switch {
	case x < 0:
		return -1
	case x > 0:
		return 1
	}
	return 0
}

func q(s string) string { return strconv.Quote(s) }

func qs(t []string) string {
	var sb strings.Builder
	sb.WriteByte('(')
	for i, f := range t {
		if i > 0 {
			sb.WriteByte(',')
		}
		sb.WriteString(strconv.Quote(f))
	}
	sb.WriteByte(')')
	return sb.String()
}

// ------------------------------------------------------------- generators

// zeroHeavy: arbitrary bytes with weight on 0, 1, 0xff and letters.
func zeroHeavyByte() *rapid.Generator[byte] {
	return rapid.Custom(func(t *rapid.T) byte {
		switch gen.Uniform(t, "bcls", 10) {
		case 0, 1, 2:
			return 0
		case 3, 4:
			return 1
		case 5:
			return 0xff
		case 6:
			return byte(gen.Uniform(t, "any", 256))
		case 7:
			return byte(('A' + gen.Uniform(t, "up", ('C')-('A')+1)))
		default:
			return byte(('a' + gen.Uniform(t, "lo", ('c')-('a')+1)))
		}
	})
}

var fixedFields = []string{"", "", "\x00", "\x00\x00", "\x00\x01", "\x01", "a", "a\x00", "a\x00\x00", "\x00a", "a\x00b", "a\x01", "\x04a", "\x04A\x00", "\x04a\x00b"}

// rawField: a field of arbitrary bytes (C12), weight on the zero patterns.
func rawField() *rapid.Generator[string] {
	return rapid.Custom(func(t *rapid.T) string {
		switch gen.Uniform(t, "fcls", 6) {
		case 0, 1:
			return gen.Pick(t, "fixed", fixedFields)
		case 2: // trailing zeros
			b := zeroHeavyBytes(t, 0, 4)
			n := (1 + gen.Uniform(t, "nz", 3))
			return string(b) + strings.Repeat("\x00", n)
		case 3: // packed-string like (for _lower!)
			b := make([]byte, gen.Uniform(t, "slen", 6))
			for i := range b { // letters in both cases, some zero bytes
				switch gen.Uniform(t, "scls", 5) {
				case 0, 1:
					b[i] = byte('A' + gen.Uniform(t, "up", 3))
				case 2, 3:
					b[i] = byte('a' + gen.Uniform(t, "lo", 3))
				default:
					b[i] = zeroHeavyByte().Draw(t, "sb")
				}
			}
			return "\x04" + string(b)
		default:
			return string(zeroHeavyBytes(t, 0, 6))
		}
	})
}

// packedField: empty or starting with a pack tag 0..7 (what every real
// caller stores in an index), body arbitrary with weight on zero bytes.
func packedField() *rapid.Generator[string] {
	return rapid.Custom(func(t *rapid.T) string {
		switch gen.Uniform(t, "pcls", 7) {
		case 0:
			return ""
		case 1:
			return gen.Pick(t, "fixed", []string{"\x00", "\x01", "\x04", "\x04a", "\x04a\x00", "\x04a\x00\x00", "\x04b", "\x03\x81\x01", "\x07\xff"})
		default:
			tag := byte(gen.Uniform(t, "tag", 8))
			b := zeroHeavyBytes(t, 0, 4)
			return string(tag) + string(b)
		}
	})
}

// zeroHeavyBytes: lo..hi bytes (length uniform) from zeroHeavyByte.
func zeroHeavyBytes(t *rapid.T, lo, hi int) []byte {
	b := make([]byte, lo+gen.Uniform(t, "blen", hi-lo+1))
	g := zeroHeavyByte()
	for i := range b {
		b[i] = g.Draw(t, "b")
	}
	return b
}

// uniBytes: lo..hi uniformly random bytes (operation patterns).
func uniBytes(t *rapid.T, label string, lo, hi int) []byte {
	b := make([]byte, lo+gen.Uniform(t, label+"len", hi-lo+1))
	for i := range b {
		b[i] = byte(gen.Uniform(t, label, 256))
	}
	return b
}

// setSteps sets the average number of actions of t.Repeat.
func setSteps(n int) { flag.Set("rapid.steps", strconv.Itoa(n)) }

func bucket(n int, bounds ...int) string {
	for _, b := range bounds {
		if n <= b {
			return "<=" + strconv.Itoa(b)
		}
	}
	return ">" + strconv.Itoa(bounds[len(bounds)-1])
}

var _ = fmt.Sprint
