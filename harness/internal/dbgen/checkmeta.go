package dbgen

import (
	"fmt"
	"slices"
	"sort"
	"strings"

	"github.com/apmckinlay/gsuneido/db19"
	"github.com/apmckinlay/gsuneido/db19/meta/schema"
	"github.com/apmckinlay/gsuneido/dbms/query"
)

// CheckMeta checks the model-free metadata invariants of property C21 on
// what rt sees and returns the list of violations (empty = consistent):
//
//   - every table has at least one key and an Info with one overlay per index
//   - every index column is a live column (or x_lower! of one)
//   - every Fk: the target table exists, Fk.IIndex addresses a key of the
//     target whose columns are Fk.Columns, and that key lists exactly one
//     FkToHere entry for (this table, these index columns) with this index
//     number and mode
//   - every FkToHere entry: the source table exists, its index number
//     addresses an index with the entry's columns whose Fk points back to
//     exactly this key (table, columns, number, mode); no duplicate entries
//   - Schema.String() re-parsed with the admin parser gives the same
//     table, columns, derived columns, index modes/columns and foreign keys
//   - the derived flags agree with the index list: some key is Primary,
//     a key that is not Primary contains the columns of another key, a
//     unique index marked ContainsKey contains the columns of a key (these
//     flags decide which indexes get duplicate checks)
//   - every index returns the same records as the first one, keys strictly
//     increasing, rows ordered by the index columns
func CheckMeta(rt *db19.ReadTran) (problems []string) {
	bad := func(format string, args ...any) {
		problems = append(problems, fmt.Sprintf(format, args...))
	}
	defer func() {
		if e := recover(); e != nil {
			bad("panic while checking metadata: %v", e)
		}
	}()
	schemas := rt.GetAllSchema()
	sort.Slice(schemas, func(i, j int) bool { return schemas[i].Table < schemas[j].Table })
	byName := map[string]*schema.Schema{}
	for _, ts := range schemas {
		byName[ts.Table] = &ts.Schema
	}
	for _, ms := range schemas {
		ts := &ms.Schema
		nkeys := 0
		for i := range ts.Indexes {
			ix := &ts.Indexes[i]
			if ix.Mode == 'k' {
				nkeys++
			}
			for _, c := range ix.Columns {
				base := strings.TrimSuffix(c, "_lower!")
				if c == "-" || base == "-" || !slices.Contains(ts.Columns, base) {
					bad("%s %s: index column %s is not a column of (%s)", ts.Table, ixHead(ix), c, strings.Join(ts.Columns, ","))
				}
			}
			if ix.Fk.Table != "" {
				checkFk(bad, byName, ts, i)
			}
			seen := map[string]bool{}
			for _, e := range ix.FkToHere {
				k := e.Table + "(" + strings.Join(e.Columns, ",") + ")"
				if seen[k] {
					bad("%s %s: duplicate FkToHere entry %s", ts.Table, ixHead(ix), k)
				}
				seen[k] = true
				checkFkToHere(bad, byName, ts, i, &e)
			}
		}
		if nkeys == 0 {
			bad("%s has no key", ts.Table)
		}
		checkFlags(bad, ts)
		ti := rt.GetInfo(ts.Table)
		if ti == nil {
			bad("%s has no Info", ts.Table)
		} else if len(ti.Indexes) != len(ts.Indexes) {
			bad("%s: %d indexes in schema, %d in Info", ts.Table, len(ts.Indexes), len(ti.Indexes))
		} else {
			var base []string
			for i := range ts.Indexes {
				recs, problem := rawIndex(rt, ts, i)
				if i == 0 {
					base = recs
					if len(recs) != ti.Nrows {
						bad("%s: Info.Nrows %d but %d records", ts.Table, ti.Nrows, len(recs))
					}
				} else if !slices.Equal(recs, base) {
					bad("%s %s returns %d records, the first index %d (or different ones)", ts.Table, ixHead(&ts.Indexes[i]), len(recs), len(base))
				}
				if problem != "" {
					bad("%s %s: %s", ts.Table, ixHead(&ts.Indexes[i]), problem)
				}
			}
		}
		checkReparse(bad, ts)
	}
	return problems
}

func checkFk(bad func(string, ...any), byName map[string]*schema.Schema, ts *schema.Schema, i int) {
	ix := &ts.Indexes[i]
	fk := &ix.Fk
	where := fmt.Sprintf("%s %s in %s(%s)", ts.Table, ixHead(ix), fk.Table, strings.Join(fk.Columns, ","))
	target := byName[fk.Table]
	if target == nil {
		bad("%s: target table does not exist", where)
		return
	}
	if fk.IIndex < 0 || fk.IIndex >= len(target.Indexes) {
		bad("%s: IIndex %d out of range (%d indexes)", where, fk.IIndex, len(target.Indexes))
		return
	}
	tix := &target.Indexes[fk.IIndex]
	if tix.Mode != 'k' {
		bad("%s: IIndex %d is %s, not a key", where, fk.IIndex, ixHead(tix))
	}
	if !slices.Equal(tix.Columns, fk.Columns) {
		bad("%s: IIndex %d is %s", where, fk.IIndex, ixHead(tix))
	}
	n := 0
	for _, e := range tix.FkToHere {
		if e.Table == ts.Table && slices.Equal(e.Columns, ix.Columns) {
			n++
			if e.IIndex != i {
				bad("%s: back link has IIndex %d, index is number %d", where, e.IIndex, i)
			}
			if e.Mode != fk.Mode {
				bad("%s: back link has mode %d, foreign key %d", where, e.Mode, fk.Mode)
			}
		}
	}
	if n != 1 {
		bad("%s: %d back links in %s %s (want exactly 1): %v", where, n, target.Table, ixHead(tix), tix.FkToHere)
	}
}

func checkFkToHere(bad func(string, ...any), byName map[string]*schema.Schema, ts *schema.Schema, i int, e *schema.Fkey) {
	ix := &ts.Indexes[i]
	where := fmt.Sprintf("%s %s from %s(%s)", ts.Table, ixHead(ix), e.Table, strings.Join(e.Columns, ","))
	if ix.Mode != 'k' {
		bad("%s: back link on a non-key", where)
	}
	src := byName[e.Table]
	if src == nil {
		bad("%s: source table does not exist (dangling back link)", where)
		return
	}
	if e.IIndex < 0 || e.IIndex >= len(src.Indexes) {
		bad("%s: IIndex %d out of range (%d indexes)", where, e.IIndex, len(src.Indexes))
		return
	}
	six := &src.Indexes[e.IIndex]
	if !slices.Equal(six.Columns, e.Columns) {
		bad("%s: IIndex %d is %s", where, e.IIndex, ixHead(six))
		return
	}
	if six.Fk.Table != ts.Table || !slices.Equal(six.Fk.Columns, ix.Columns) {
		bad("%s: source index has foreign key to %q(%s) (dangling back link)", where, six.Fk.Table, strings.Join(six.Fk.Columns, ","))
		return
	}
	if six.Fk.IIndex != i {
		bad("%s: source Fk.IIndex %d, this key is number %d", where, six.Fk.IIndex, i)
	}
	if six.Fk.Mode != e.Mode {
		bad("%s: source Fk.Mode %d, back link mode %d", where, six.Fk.Mode, e.Mode)
	}
}

func nonEmpty(s []string) []string {
	if len(s) == 0 {
		return nil
	}
	return s
}

func checkReparse(bad func(string, ...any), ts *schema.Schema) {
	text := ts.String()
	var parsed schema.Schema
	var perr any
	func() {
		defer func() { perr = recover() }()
		parsed = query.NewAdminParser(text).Schema()
	}()
	if perr != nil {
		bad("%s: schema text %q does not parse: %v", ts.Table, text, perr)
		return
	}
	if parsed.Table != ts.Table || !slices.Equal(nonEmpty(parsed.Columns), nonEmpty(ts.Columns)) ||
		!slices.Equal(nonEmpty(parsed.Derived), nonEmpty(ts.Derived)) || len(parsed.Indexes) != len(ts.Indexes) {
		bad("%s: schema text %q re-parses to %q", ts.Table, text, parsed.String())
		return
	}
	for i := range ts.Indexes {
		a, b := &ts.Indexes[i], &parsed.Indexes[i]
		if a.Mode != b.Mode || !slices.Equal(a.Columns, b.Columns) || a.Fk.Table != b.Fk.Table ||
			a.Fk.Mode != b.Fk.Mode || !slices.Equal(nonEmpty(a.Fk.Columns), nonEmpty(b.Fk.Columns)) {
			bad("%s: index %d of schema text %q re-parses differently: %s vs %s", ts.Table, i, text, a.String(), b.String())
		}
	}
}

// rawIndex returns the stored records (raw bytes, sorted) read through index
// i and an ordering problem.
func rawIndex(rt *db19.ReadTran, ts *schema.Schema, i int) ([]string, string) {
	_, raw, _, problem := readIndexRaw(rt, ts, i, true)
	return raw, problem
}

// TableRecords returns, per table, the sorted multiset of stored records
// (raw bytes) read through the first index.
func TableRecords(rt *db19.ReadTran) map[string][]string {
	res := map[string][]string{}
	for _, ms := range rt.GetAllSchema() {
		recs, _ := func() (r []string, p string) {
			defer func() {
				if e := recover(); e != nil {
					r = []string{fmt.Sprintf("PANIC %v", e)}
				}
			}()
			return rawIndex(rt, &ms.Schema, 0)
		}()
		res[ms.Table] = recs
	}
	return res
}

// containsCols: every column of key occurs in cols (x covers x_lower! keys
// the way the database defines it: x_lower! is covered by x_lower! or x).
func containsCols(cols, key []string) bool {
	for _, k := range key {
		base := strings.TrimSuffix(k, "_lower!")
		if !slices.Contains(cols, k) && !slices.Contains(cols, base) {
			return false
		}
	}
	return true
}

func checkFlags(bad func(string, ...any), ts *schema.Schema) {
	nprimary := 0
	for i := range ts.Indexes {
		ix := &ts.Indexes[i]
		switch ix.Mode {
		case 'k':
			if ix.Primary {
				nprimary++
				continue
			}
			covered := false
			for j := range ts.Indexes {
				o := &ts.Indexes[j]
				if j != i && o.Mode == 'k' && containsCols(ix.Columns, o.Columns) {
					covered = true
				}
			}
			if !covered {
				bad("%s %s is not marked Primary although it contains no other key (no duplicate check)", ts.Table, ixHead(ix))
			}
		case 'u':
			if !ix.ContainsKey {
				continue
			}
			covered := false
			for j := range ts.Indexes {
				o := &ts.Indexes[j]
				if o.Mode == 'k' && containsCols(ix.Columns, o.Columns) {
					covered = true
				}
			}
			if !covered {
				bad("%s %s is marked ContainsKey although it contains no key (no duplicate check)", ts.Table, ixHead(ix))
			}
		}
	}
	if nprimary == 0 && len(ts.Indexes) > 0 {
		bad("%s has no Primary key", ts.Table)
	}
}
