package dbgen

import (
	"reflect"
	"slices"
	"strings"
)

// Action is one insert / update / delete request; Text() is what is sent to
// query.DoAction.
//
//	insert: Fields/Vals are the members of the record literal
//	update: rows where WCol is WVal (all rows when WCol == ""); SCol = SVal
//	delete: rows where WCol is WVal (all rows when WCol == "")
type Action struct {
	Op     string   `json:"op"`
	Table  string   `json:"table"`
	Fields []string `json:"fields,omitempty"`
	Vals   []Val    `json:"vals,omitempty"`
	WCol   string   `json:"wcol,omitempty"`
	WVal   Val      `json:"wval,omitempty"`
	SCol   string   `json:"scol,omitempty"`
	SVal   Val      `json:"sval,omitempty"`
}

func (a *Action) Text() string {
	where := ""
	if a.WCol != "" {
		where = " where " + a.WCol + " is " + a.WVal.Lit()
	}
	switch a.Op {
	case "insert":
		parts := make([]string, len(a.Fields))
		for i, f := range a.Fields {
			parts[i] = f + ": " + a.Vals[i].Lit()
		}
		return "insert { " + strings.Join(parts, ", ") + " } into " + a.Table
	case "update":
		return "update " + a.Table + where + " set " + a.SCol + " = " + a.SVal.Lit()
	case "delete":
		return "delete " + a.Table + where
	}
	panic("dbgen: bad action op " + a.Op)
}

// Verdict of the model for a data action.
type Verdict int

const (
	Accept Verdict = iota // the database must execute it
	Refuse                // the database must refuse it (documented constraint)
	Avoid                 // outside what the model commits itself to: do not issue
)

func (v Verdict) String() string { return [...]string{"accept", "refuse", "avoid"}[v] }

// ApplyAction applies a to the model (in place) and returns the verdict and
// the number of rows the request addresses. When the verdict is not Accept
// the model may be partially modified: callers work on a Clone.
func (w *World) ApplyAction(a *Action) (Verdict, int, string) {
	t := w.Tables[a.Table]
	if t == nil {
		return Refuse, 0, "nonexistent table"
	}
	if a.Op != "delete" {
		for _, ix := range t.Idx {
			if ix.Mode == 'u' && slices.ContainsFunc(ix.Cols, func(c string) bool { return strings.HasSuffix(c, "_lower!") }) {
				// db19 does not enforce uniqueness of `index unique(x_lower!)`
				// (uniqueIndexEmpty reads field -n); C07's business
				return Avoid, 0, "table with a unique index on x_lower!"
			}
		}
	}
	switch a.Op {
	case "insert":
		r := Row{}
		for i, f := range a.Fields {
			if !slices.Contains(t.Cols, f) || f == "-" {
				return Avoid, 0, "field is not a column"
			}
			if !a.Vals[i].IsEmpty() {
				r[f] = a.Vals[i]
			}
		}
		if why := w.checkUnique(t, r, nil); why != "" {
			return Refuse, 1, why
		}
		if why := w.checkFkOut(t, r, nil); why != "" {
			return Refuse, 1, why
		}
		w.seq++
		r[idKey] = IntVal(w.seq)
		t.Rows = append(t.Rows, r)
		return Accept, 1, ""
	case "update":
		if !slices.Contains(t.Cols, a.SCol) || a.SCol == "-" {
			return Avoid, 0, "set column is not a column"
		}
		sel, why := w.selectRows(t, a)
		if why != "" {
			return Avoid, 0, why
		}
		for _, r := range sel {
			if getv(r, a.SCol) == a.SVal {
				continue // unchanged record: nothing happens
			}
			// which indexes change their key?
			var changed []int
			for i, ix := range t.Idx {
				if indexUsesCol(ix, a.SCol) {
					changed = append(changed, i)
				}
			}
			for _, i := range changed {
				if len(w.incoming(t.Name, t.Idx[i].Cols)) > 0 {
					return Avoid, len(sel), "update of a column of an index that is a foreign key target"
				}
			}
			nr := r.clone()
			if a.SVal.IsEmpty() {
				delete(nr, a.SCol)
			} else {
				nr[a.SCol] = a.SVal
			}
			if why := w.checkUnique(t, nr, r); why != "" {
				return Refuse, len(sel), why
			}
			if why := w.checkFkOut(t, nr, changed); why != "" {
				return Refuse, len(sel), why
			}
			for k := range r {
				delete(r, k)
			}
			for k, v := range nr {
				r[k] = v
			}
			w.seq++
			r[idKey] = IntVal(w.seq)
		}
		return Accept, len(sel), ""
	case "delete":
		sel, why := w.selectRows(t, a)
		if why != "" {
			return Avoid, 0, why
		}
		if len(sel) > 1 && w.anyIncoming(t.Name) {
			return Avoid, len(sel), "multi-row delete from a foreign key target (order dependent)"
		}
		for _, r := range sel {
			v, why := w.deleteRow(t, r, 0)
			if v != Accept {
				return v, len(sel), why
			}
		}
		return Accept, len(sel), ""
	}
	return Avoid, 0, "unknown op"
}

func indexUsesCol(ix Index, col string) bool {
	for _, c := range ix.Cols {
		if c == col || c == col+"_lower!" {
			return true
		}
	}
	return false
}

func (w *World) anyIncoming(table string) bool {
	for _, t := range w.Tables {
		for _, ix := range t.Idx {
			if ix.Fk != nil && ix.Fk.Table == table {
				return true
			}
		}
	}
	return false
}

// selectRows: the rows addressed by the where clause.
func (w *World) selectRows(t *Table, a *Action) ([]Row, string) {
	if a.WCol == "" {
		return slices.Clone(t.Rows), ""
	}
	if !slices.Contains(t.Cols, a.WCol) || a.WCol == "-" {
		return nil, "where column is not a column"
	}
	if a.WVal.IsEmpty() || (a.WVal.Str && strings.Contains(a.WVal.S, "\x00")) {
		// (second class: a value with zero bytes looked up in a single-field
		// non-key index, which db19 stores un-encoded: also reported)
		for _, ix := range t.Idx {
			if len(ix.Cols) > 0 && (ix.Cols[0] == a.WCol || ix.Cols[0] == a.WCol+"_lower!") {
				// query defect candidate (C22/C24, reported to the query engine):
				// `where a is ""` misses rows with empty a when the query uses
				// a unique index on a or a multi-field (encoded) index led by a
				return nil, "where on the empty value of an indexed column"
			}
		}
	}
	var sel []Row
	for _, r := range t.Rows {
		if getv(r, a.WCol) == a.WVal {
			sel = append(sel, r)
		}
	}
	return sel, ""
}

// checkUnique: keys are unique; unique indexes are unique except when all
// their columns are empty. self is the row being replaced (update).
func (w *World) checkUnique(t *Table, r Row, self Row) string {
	for _, ix := range t.Idx {
		if ix.Mode != 'k' && ix.Mode != 'u' {
			continue
		}
		tu := tuple(r, ix.Cols)
		if ix.Mode == 'u' && allEmpty(tu) {
			continue
		}
		for _, o := range t.Rows {
			if sameRow(o, self) {
				continue
			}
			if eqTuple(tuple(o, ix.Cols), tu) {
				return "duplicate " + ix.Head()
			}
		}
	}
	return ""
}

func sameRow(a, b Row) bool {
	if a == nil || b == nil {
		return false
	}
	// identity of the map objects
	return reflect.ValueOf(a).Pointer() == reflect.ValueOf(b).Pointer()
}

// checkFkOut: every foreign key of the row (restricted to the index
// positions in only, when given) either is all empty or has its target row.
func (w *World) checkFkOut(t *Table, r Row, only []int) string {
	for i, ix := range t.Idx {
		if ix.Fk == nil || (only != nil && !slices.Contains(only, i)) {
			continue
		}
		n := len(ix.Fk.Cols)
		if n > len(ix.Cols) {
			n = len(ix.Cols)
		}
		tu := tuple(r, ix.Cols[:n])
		if allEmpty(tu) {
			continue
		}
		tt := w.Tables[ix.Fk.Table]
		if tt == nil || !tt.hasKey(ix.Fk.Cols[:n], tu) {
			return "blocked by foreign key " + ix.Text()
		}
	}
	return ""
}

// deleteRow removes r from t honouring foreign keys that reference t:
// block => refuse when a referencing row exists; cascade => delete the
// referencing rows (one level only, deeper cascades are avoided); cascade
// update (no delete bit) with referencing rows => avoided (DESIGN §6 F1,
// property C08).
func (w *World) deleteRow(t *Table, r Row, depth int) (Verdict, string) {
	type victim struct {
		t *Table
		r Row
	}
	var victims []victim
	for _, ix := range t.Idx {
		refs := w.incoming(t.Name, ix.Cols)
		if len(refs) == 0 {
			continue
		}
		tu := tuple(r, ix.Cols)
		if allEmpty(tu) {
			continue
		}
		for _, ref := range refs {
			six := ref.src.Idx[ref.ii]
			n := len(ix.Cols)
			if n > len(six.Cols) {
				return Avoid, "foreign key with fewer source columns"
			}
			for _, sr := range ref.src.Rows {
				if !eqTuple(tuple(sr, six.Cols[:n]), tu) {
					continue
				}
				switch six.Fk.Mode {
				case FkBlock:
					return Refuse, "delete blocked by foreign key from " + ref.src.Name
				case FkCascadeUpdate:
					return Avoid, "delete of a cascade-update target with referencing rows (F1/C08)"
				default:
					if ref.src == t || depth > 0 {
						return Avoid, "self or nested cascade"
					}
					victims = append(victims, victim{ref.src, sr})
				}
			}
		}
	}
	for _, v := range victims {
		if !containsRow(v.t.Rows, v.r) {
			continue // referenced through two keys
		}
		if vd, why := w.deleteRow(v.t, v.r, depth+1); vd != Accept {
			if vd == Refuse {
				return Avoid, "cascade meets block: " + why
			}
			return vd, why
		}
	}
	removeRow(t, r)
	return Accept, ""
}

func containsRow(rows []Row, r Row) bool {
	for _, o := range rows {
		if sameRow(o, r) {
			return true
		}
	}
	return false
}

func removeRow(t *Table, r Row) {
	for i, o := range t.Rows {
		if sameRow(o, r) {
			t.Rows = slices.Delete(t.Rows, i, i+1)
			return
		}
	}
}
