// Package dbgen is the shared "lifecycle history" machinery of the persist
// and recover engines (DESIGN.md §4 "Engine persist", shared G).
//
// It contains
//
//   - World: an independent model of the logical database (plain Go maps and
//     slices written from the documentation of the admin requests and of
//     insert/update/delete, not from the code): tables with physical column
//     list (dropped columns are "-"), derived columns, indexes with foreign
//     keys, rows as column->value maps, and views. World.Dump() renders the
//     canonical logical dump that the real database must show.
//
//   - Step / GenStep: a generator of lifecycle steps over a small name
//     universe (4 tables, 6 columns, 2 views): admin requests as text (create /
//     ensure / alter create|drop|rename / rename / view / drop, valid and
//     invalid, with foreign keys including self references), update
//     transactions made of DoAction texts (insert / update / delete; committed,
//     aborted, or left open until the next close), explicit persist, clean
//     close + reopen, and clock gaps (used by the as-of check).
//
//   - Session: executes steps against a real *db19.Database through
//     query.DoAdmin / query.DoAction / db.Persist / Close + reopen and keeps
//     the World in step. For admin requests the World computes the *effect*
//     of an accepted request itself and follows the database only in the
//     accept/refuse verdict, except where the documentation is unambiguous
//     (Expect = MustAccept / MustRefuse). For data actions the World predicts
//     verdict, row count and effect.
//
//   - Dump / DumpTran / DumpLogical: the canonical dump of a real database
//     read through exported API only: per table columns, derived columns,
//     index list with foreign keys in both directions (resolved through
//     IIndex), Info.Nrows / Info.Size (and Size == sum of stored record
//     lengths), rows read through every index (same multiset, key order
//     checked with the model's value order), views, and Info entries that
//     have no table ("orphaninfo").
//
//   - CheckMeta: model-free metadata invariants (property C21).
//
// API stability: identifiers documented here are used by
// /verif/harness/persist and /verif/harness/recover; extend additively.
//
// Typical use:
//
//	s := dbgen.NewSession(dbgen.HeapOpener(8192))   // creates + StartConcur
//	defer s.Close()
//	for i := 0; i < n; i++ {
//	    st := dbgen.GenStep(t, s.W, opts)            // rapid draws
//	    res := s.Apply(st)                           // runs it, updates s.W
//	    if res.Err != "" { t.Fatalf(...) }           // model/database disagree
//	}
//	if d := dbgen.DumpLogical(s.DB); d != s.W.Dump() { ... }
package dbgen
