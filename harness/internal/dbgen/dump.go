package dbgen

import (
	"fmt"
	"slices"
	"sort"
	"strings"

	"github.com/apmckinlay/gsuneido/core"
	"github.com/apmckinlay/gsuneido/db19"
	"github.com/apmckinlay/gsuneido/db19/meta/schema"
)

// Dump is the canonical dump of the current state of db including
// Info.Size (for before/after comparisons of one database).
func Dump(db *db19.Database) string { return DumpTran(db.NewReadTran(), true) }

// DumpLogical is Dump without the Size numbers: equal to World.Dump() of a
// model that agrees with the database.
func DumpLogical(db *db19.Database) string { return DumpTran(db.NewReadTran(), false) }

// DumpTran dumps what the read transaction rt sees (rt may have been moved
// with Asof). Any panic while reading is rendered into the dump
// ("PANIC ..." line) so that a dump never aborts the caller.
func DumpTran(rt *db19.ReadTran, sizes bool) (result string) {
	var sb strings.Builder
	defer func() {
		if e := recover(); e != nil {
			result = sb.String() + fmt.Sprintf("PANIC while dumping: %v\n", e)
		}
	}()
	schemas := rt.GetAllSchema()
	sort.Slice(schemas, func(i, j int) bool { return schemas[i].Table < schemas[j].Table })
	names := map[string]bool{}
	for _, ts := range schemas {
		names[ts.Table] = true
		dumpTable(&sb, rt, &ts.Schema, sizes)
	}
	views := rt.GetAllViews()
	type vd struct{ name, def string }
	var vs []vd
	for i := 0; i+1 < len(views); i += 2 {
		vs = append(vs, vd{views[i], views[i+1]})
	}
	sort.Slice(vs, func(i, j int) bool { return vs[i].name < vs[j].name })
	for _, v := range vs {
		fmt.Fprintf(&sb, "view %s = %s\n", v.name, v.def)
	}
	var orphans []string
	for _, ti := range rt.GetAllInfo() {
		if !names[ti.Table] {
			orphans = append(orphans, fmt.Sprintf("orphaninfo %s nrows=%d indexes=%d\n", ti.Table, ti.Nrows, len(ti.Indexes)))
		}
	}
	sort.Strings(orphans)
	for _, o := range orphans {
		sb.WriteString(o)
	}
	return sb.String()
}

func modeStr(m byte) string {
	switch m {
	case 'k':
		return "key"
	case 'i':
		return "index"
	case 'u':
		return "index unique"
	}
	return fmt.Sprintf("?%d", m)
}

func ixHead(ix *schema.Index) string {
	return modeStr(ix.Mode) + "(" + strings.Join(ix.Columns, ",") + ")"
}

func dumpTable(sb *strings.Builder, rt *db19.ReadTran, ts *schema.Schema, sizes bool) {
	fmt.Fprintf(sb, "table %s\n", ts.Table)
	fmt.Fprintf(sb, " columns: %s\n", strings.Join(ts.Columns, ","))
	fmt.Fprintf(sb, " derived: %s\n", strings.Join(ts.Derived, ","))
	for i := range ts.Indexes {
		ix := &ts.Indexes[i]
		fmt.Fprintf(sb, " index: %s", ixHead(ix))
		if ix.Fk.Table != "" {
			fmt.Fprintf(sb, " in %s(%s)%s -> %s", ix.Fk.Table, strings.Join(ix.Fk.Columns, ","),
				fkModeStr(int(ix.Fk.Mode)), resolve(rt, ix.Fk.Table, ix.Fk.IIndex))
		}
		sb.WriteByte('\n')
	}
	var toHere []string
	for i := range ts.Indexes {
		ix := &ts.Indexes[i]
		for _, fk := range ix.FkToHere {
			toHere = append(toHere, fmt.Sprintf(" tohere: %s <- %s(%s)%s via %s\n", ixHead(ix),
				fk.Table, strings.Join(fk.Columns, ","), fkModeStr(int(fk.Mode)), resolve(rt, fk.Table, fk.IIndex)))
		}
	}
	sort.Strings(toHere)
	for _, s := range toHere {
		sb.WriteString(s)
	}
	ti := rt.GetInfo(ts.Table)
	if ti == nil {
		fmt.Fprintf(sb, " NO INFO\n")
		return
	}
	fmt.Fprintf(sb, " nrows: %d\n", ti.Nrows)
	if len(ti.Indexes) != len(ts.Indexes) {
		fmt.Fprintf(sb, " INDEX COUNT MISMATCH schema=%d info=%d\n", len(ts.Indexes), len(ti.Indexes))
		return
	}
	var base []string
	for i := range ts.Indexes {
		rows, total, problem := readIndex(rt, ts, i)
		if i == 0 {
			base = rows
			if sizes {
				fmt.Fprintf(sb, " size: %d\n", ti.Size)
			}
			if total != ti.Size {
				fmt.Fprintf(sb, " SIZE MISMATCH info=%d sum of records=%d\n", ti.Size, total)
			}
			if len(rows) != ti.Nrows {
				fmt.Fprintf(sb, " NROWS MISMATCH info=%d read=%d\n", ti.Nrows, len(rows))
			}
			for _, r := range rows {
				fmt.Fprintf(sb, " row: %s\n", r)
			}
		}
		if problem == "" && !slices.Equal(rows, base) {
			problem = fmt.Sprintf("DIFFERENT ROWS (%d vs %d through the first index): %v", len(rows), len(base), rows)
		}
		if problem == "" {
			problem = "ok"
		}
		fmt.Fprintf(sb, " via %s: %s\n", ixHead(&ts.Indexes[i]), problem)
	}
}

// resolve renders index number ii of table (how a foreign key link is
// followed by the database).
func resolve(rt *db19.ReadTran, table string, ii int) (s string) {
	defer func() {
		if e := recover(); e != nil {
			s = fmt.Sprintf("UNRESOLVED(%s#%d: %v)", table, ii, e)
		}
	}()
	ts := rt.GetSchema(table)
	if ii < 0 || ii >= len(ts.Indexes) {
		return fmt.Sprintf("UNRESOLVED(%s#%d of %d)", table, ii, len(ts.Indexes))
	}
	return ixHead(&ts.Indexes[ii])
}

// DecodeVal converts a stored field to a model value.
func DecodeVal(raw string) Val {
	if raw == "" {
		return Empty
	}
	v := core.Unpack(raw)
	if s, ok := v.ToStr(); ok {
		return StrVal(s)
	}
	if n, ok := v.ToInt(); ok {
		return IntVal(int64(n))
	}
	return StrVal("?" + v.String())
}

// readIndex reads all rows of table ts through index i. It returns the
// canonical row texts (sorted), the sum of the record lengths, and a
// description of an ordering problem ("" if none): keys must be strictly
// increasing and the rows must be non-decreasing in the index columns by the
// documented value order.
func readIndex(rt *db19.ReadTran, ts *schema.Schema, i int) (rows []string, total int64, problem string) {
	rows, _, total, problem = readIndexRaw(rt, ts, i, false)
	return
}

// readIndexRaw is readIndex that can also return the raw stored records
// (sorted).
func readIndexRaw(rt *db19.ReadTran, ts *schema.Schema, i int, wantRaw bool) (rows, raw []string, total int64, problem string) {
	ix := &ts.Indexes[i]
	it := rt.IndexIter(ts.Table, i)
	prevKey, first := "", true
	var prevTuple []Val
	seen := map[uint64]bool{}
	for it.Next(rt); !it.Eof(); it.Next(rt) {
		key, off := it.Cur()
		if !first && key <= prevKey && problem == "" {
			problem = fmt.Sprintf("KEYS NOT INCREASING at %q", key)
		}
		if seen[off] && problem == "" {
			problem = fmt.Sprintf("RECORD %d RETURNED TWICE", off)
		}
		seen[off] = true
		rec := rt.GetRecord(off)
		total += int64(rec.Len())
		if wantRaw {
			raw = append(raw, string(rec))
		}
		get := func(col string) Val {
			j := slices.Index(ts.Columns, col)
			if j < 0 {
				return StrVal("?nocolumn")
			}
			return DecodeVal(rec.GetRaw(j))
		}
		rows = append(rows, RowText(ts.Columns, get))
		tu := make([]Val, len(ix.Columns))
		for k, c := range ix.Columns {
			if base, ok := strings.CutSuffix(c, "_lower!"); ok {
				v := get(base)
				if v.Str {
					v.S = lowerASCII(v.S)
				}
				tu[k] = v
			} else {
				tu[k] = get(c)
			}
		}
		if !first && problem == "" {
			if c := cmpTuple(prevTuple, tu); c > 0 || (c == 0 && ix.Mode == 'k') {
				problem = fmt.Sprintf("ROWS OUT OF ORDER (or duplicate key) at %v after %v", tu, prevTuple)
			}
		}
		prevKey, prevTuple, first = key, tu, false
		if len(rows) > 100000 {
			problem = "RUNAWAY ITERATION"
			break
		}
	}
	sort.Strings(rows)
	sort.Strings(raw)
	return rows, raw, total, problem
}

func cmpTuple(a, b []Val) int {
	for i := range a {
		if c := CmpVal(a[i], b[i]); c != 0 {
			return c
		}
	}
	return 0
}
