package dbgen

import (
	"slices"
	"strings"

	"pgregory.net/rapid"
	"verifharness/internal/gen"
)

// Step kinds.
const (
	KAdmin   = "admin"
	KTran    = "tran"
	KPersist = "persist"
	KReopen  = "reopen"
	KSleep   = "sleep"
)

// Step is one step of a lifecycle history (JSON-able: journals, samples).
type Step struct {
	Kind  string   `json:"kind"`
	Admin *Admin   `json:"admin,omitempty"`
	Text  string   `json:"text,omitempty"`  // admin text / action texts, for readers
	Acts  []Action `json:"acts,omitempty"`  // tran: the actions; reopen: actions of the transaction left open
	End   string   `json:"end,omitempty"`   // tran: commit | abort
	GapMs int      `json:"gapms,omitempty"` // sleep
	// Pad (reopen, heap storage): when > 0, before Close the session persists
	// and pads the storage so that the final state record ends Pad-1 bytes
	// before the end of its chunk (see Session.padBeforeClose).
	Pad int `json:"pad,omitempty"`
}

// Opts are the relative weights of the step kinds and the value classes.
// The zero value of a weight means "never"; use DefaultOpts as a base.
type Opts struct {
	Admin   int // admin requests
	Tran    int // data transactions
	Persist int // explicit persist
	Reopen  int // clean close + reopen
	Sleep   int // clock gap (as-of histories)

	Invalid int // percent of admin requests generated without regard to the current state
	Abort   int // percent of transactions that are aborted instead of committed
	OpenTx  int // percent of reopen steps that leave a transaction with writes open
	// PadClose: percent of reopen steps that pad the storage so that the final
	// state record ends 0..16 bytes before a chunk boundary (1..7: the
	// shutdown marker starts the next chunk)
	PadClose int

	// FkStress: percent of admin requests that are aimed at the foreign key /
	// derived column neighbourhood: x_lower! columns and indexes on foreign
	// key columns, renames and drops of columns that a foreign key index and
	// a derived column use at once, requests with a valid foreign key part
	// followed by a part that fails late (final validation / index build),
	// renames of tables on either side of a foreign key.
	FkStress int

	Fkeys    bool // foreign keys in create / alter create / ensure
	Views    bool
	Derived  bool   // rule columns and x_lower! columns / indexes
	Long     bool   // long strings (hundreds of bytes)
	Magic    string // when not "", a byte string that some generated strings contain (state marker)
	MaxGapMs int    // sleep steps: 1..MaxGapMs
}

// DefaultOpts is the mix used by the close/reopen check.
func DefaultOpts() Opts {
	return Opts{Admin: 30, Tran: 40, Persist: 22, Reopen: 4, Sleep: 0,
		Invalid: 12, Abort: 10, OpenTx: 40, FkStress: 15, Fkeys: true, Views: true, Derived: true, Long: true, MaxGapMs: 50}
}

// name universe
var (
	TableUniverse = []string{"ta", "tb", "tc", "td"}
	ColUniverse   = []string{"a", "b", "c", "d", "e", "f"}
	ViewUniverse  = []string{"va", "vb"}
	RuleUniverse  = []string{"Ra", "Rb"}
	viewDefs      = []string{"ta", "tb where a is 1", "tc join td", "ta project a,b"}
)

// pick / pct / uniform use the unbiased helpers of internal/gen (rapid's own
// IntRange is biased towards small values: fine for values, wrong for
// probabilities and operation mixes).
func pick[T any](t *rapid.T, label string, xs []T) T {
	return gen.Pick(t, label, xs)
}

func pct(t *rapid.T, label string, p int) bool {
	if p <= 0 {
		return false
	}
	return gen.Chance(t, label, p)
}

// uniform draws from [lo, hi] without bias.
func uniform(t *rapid.T, label string, lo, hi int) int {
	return lo + gen.Uniform(t, label, hi-lo+1)
}

// GenStep draws the next step for the model's current state.
func GenStep(t *rapid.T, w *World, o Opts) *Step {
	total := o.Admin + o.Tran + o.Persist + o.Reopen + o.Sleep
	if total <= 0 {
		panic("dbgen: all step weights are zero")
	}
	r := gen.Uniform(t, "stepkind", total)
	switch {
	case r < o.Admin:
		a := GenAdmin(t, w, o)
		return &Step{Kind: KAdmin, Admin: a, Text: a.Text()}
	case r < o.Admin+o.Tran:
		if len(w.Tables) == 0 {
			a := GenAdmin(t, w, o)
			return &Step{Kind: KAdmin, Admin: a, Text: a.Text()}
		}
		acts := GenActions(t, w, o, uniform(t, "nacts", 1, 5))
		end := "commit"
		if pct(t, "abort", o.Abort) {
			end = "abort"
		}
		return &Step{Kind: KTran, Acts: acts, End: end, Text: actsText(acts)}
	case r < o.Admin+o.Tran+o.Persist:
		if w.Stats.LastWasPersist && len(w.Tables) > 0 {
			// a persist right after a persist writes nothing: change something
			acts := GenActions(t, w, o, uniform(t, "nacts", 1, 3))
			return &Step{Kind: KTran, Acts: acts, End: "commit", Text: actsText(acts)}
		}
		return &Step{Kind: KPersist}
	case r < o.Admin+o.Tran+o.Persist+o.Reopen:
		st := &Step{Kind: KReopen}
		if pct(t, "padclose", o.PadClose) {
			st.Pad = 1 + gen.Uniform(t, "padd", 17)
		}
		if len(w.Tables) > 0 && pct(t, "opentx", o.OpenTx) {
			st.Acts = GenActions(t, w, o, uniform(t, "nopen", 1, 3))
			st.Text = actsText(st.Acts)
		}
		return st
	default:
		mg := o.MaxGapMs
		if mg < 1 {
			mg = 1
		}
		return &Step{Kind: KSleep, GapMs: rapid.IntRange(1, mg).Draw(t, "gapms")}
	}
}

func actsText(acts []Action) string {
	parts := make([]string, len(acts))
	for i := range acts {
		parts[i] = acts[i].Text()
	}
	return strings.Join(parts, " ; ")
}

// ---------------------------------------------------------------- values

// GenVal draws a value: small ints and short strings (so that keys collide
// and foreign keys match), sometimes empty, sometimes long or containing the
// marker bytes.
func GenVal(t *rapid.T, o Opts, label string) Val {
	switch c := gen.Uniform(t, label+"cls", 20); {
	case c < 8:
		return IntVal(int64(rapid.IntRange(0, 6).Draw(t, label)))
	case c < 10:
		return IntVal(int64(rapid.IntRange(-3, 100000).Draw(t, label)))
	case c < 15:
		return StrVal(pick(t, label, []string{"x", "y", "z", "X", "Y", "abc", "Abc", "ABC"}))
	case c < 16:
		return Empty
	case c < 17:
		if o.Magic != "" {
			pre := pick(t, label+"pre", []string{"", "m", "mm"})
			return StrVal(pre + o.Magic + pick(t, label+"suf", []string{"", "q", string([]byte{0, 1, 2, 3})}))
		}
		return StrVal(string([]byte{0, 1, 0, 0, 0xff, 'a'}))
	case c < 18:
		if o.Long {
			n := rapid.IntRange(40, 600).Draw(t, label+"len")
			return StrVal(strings.Repeat(pick(t, label+"ch", []string{"l", "L", "\x00", "é"}), n)[:n])
		}
		return StrVal("long")
	default:
		return StrVal(string(rapid.SliceOfN(rapid.Byte(), 0, 6).Draw(t, label)))
	}
}

// ---------------------------------------------------------------- actions

// GenActions draws up to n actions that the model accepts or refuses
// (never ones it avoids), simulating them on a scratch copy so that later
// actions see the effects of earlier ones. Generation stops after the first
// refused action (the transaction is aborted there).
func GenActions(t *rapid.T, w *World, o Opts, n int) []Action {
	scratch := w.Clone()
	var acts []Action
	for tries := 0; len(acts) < n && tries < 4*n; tries++ {
		a := genAction(t, scratch, o)
		probe := scratch.Clone()
		v, _, _ := probe.ApplyAction(&a)
		if v == Avoid {
			continue
		}
		acts = append(acts, a)
		if v == Refuse {
			break
		}
		scratch = probe
	}
	if len(acts) == 0 {
		// always possible: an insert into a nonexistent table (refused)
		acts = append(acts, Action{Op: "insert", Table: "nosuch", Fields: []string{"a"}, Vals: []Val{IntVal(1)}})
	}
	return acts
}

func genAction(t *rapid.T, w *World, o Opts) Action {
	names := w.TableNames()
	if len(names) == 0 || pct(t, "badtable", 2) {
		return Action{Op: "insert", Table: "nosuch", Fields: []string{"a"}, Vals: []Val{IntVal(1)}}
	}
	tb := w.Tables[pick(t, "table", names)]
	live := tb.LiveCols()
	if len(live) == 0 {
		return Action{Op: "insert", Table: "nosuch", Fields: []string{"a"}, Vals: []Val{IntVal(1)}}
	}
	op := gen.Uniform(t, "op", 10)
	if len(tb.Rows) == 0 {
		op = 0
	}
	existing := func(col, label string) Val {
		// mostly a value that occurs, so that where clauses select rows
		if len(tb.Rows) > 0 && !pct(t, label+"miss", 15) {
			return getv(tb.Rows[gen.Uniform(t, label+"row", len(tb.Rows))], col)
		}
		return GenVal(t, o, label)
	}
	switch {
	case op < 5: // insert
		a := Action{Op: "insert", Table: tb.Name}
		for _, c := range live {
			if pct(t, "omit", 15) {
				continue
			}
			a.Fields = append(a.Fields, c)
			a.Vals = append(a.Vals, genFieldVal(t, w, tb, c, o))
		}
		if len(a.Fields) == 0 {
			a.Fields = []string{live[0]}
			a.Vals = []Val{genFieldVal(t, w, tb, live[0], o)}
		}
		return a
	case op < 8: // update
		a := Action{Op: "update", Table: tb.Name}
		if !pct(t, "all", 10) {
			a.WCol = whereCol(t, tb, live)
			a.WVal = existing(a.WCol, "wval")
		}
		a.SCol = pick(t, "scol", live)
		a.SVal = genFieldVal(t, w, tb, a.SCol, o)
		return a
	default: // delete
		a := Action{Op: "delete", Table: tb.Name}
		if !pct(t, "all", 8) {
			a.WCol = whereCol(t, tb, live)
			a.WVal = existing(a.WCol, "wval")
		}
		return a
	}
}

// whereCol prefers a key column.
func whereCol(t *rapid.T, tb *Table, live []string) string {
	if pct(t, "wkey", 70) {
		for _, ix := range tb.Idx {
			if ix.Mode == 'k' && len(ix.Cols) > 0 && slices.Contains(live, ix.Cols[0]) {
				return ix.Cols[0]
			}
		}
	}
	return pick(t, "wcol", live)
}

// genFieldVal draws a value for column c of tb; when c is a foreign key
// column it mostly draws a value that exists in the target.
func genFieldVal(t *rapid.T, w *World, tb *Table, c string, o Opts) Val {
	for _, ix := range tb.Idx {
		if ix.Fk == nil {
			continue
		}
		k := slices.Index(ix.Cols, c)
		if k < 0 || k >= len(ix.Fk.Cols) {
			continue
		}
		tt := w.Tables[ix.Fk.Table]
		if tt != nil && len(tt.Rows) > 0 && pct(t, "fkhit", 80) {
			return getv(tt.Rows[gen.Uniform(t, "fkrow", len(tt.Rows))], ix.Fk.Cols[k])
		}
		if pct(t, "fkempty", 50) {
			return Empty
		}
	}
	return GenVal(t, o, "val")
}

// ---------------------------------------------------------------- admin requests

// GenAdmin draws an admin request. Most requests fit the current state
// (create a missing table, alter an existing one, ...); o.Invalid percent
// are drawn over the whole name universe without looking at the state.
func GenAdmin(t *rapid.T, w *World, o Opts) *Admin {
	wild := pct(t, "wild", o.Invalid)
	names := w.TableNames()
	var missing []string
	for _, n := range TableUniverse {
		if w.Tables[n] == nil {
			missing = append(missing, n)
		}
	}
	anyTable := func(label string) string {
		if pct(t, label+"sys", 1) {
			return "views"
		}
		return pick(t, label, TableUniverse)
	}
	existingTable := func(label string) string {
		if wild || len(names) == 0 {
			return anyTable(label)
		}
		return pick(t, label, names)
	}
	missingTable := func(label string) string {
		if wild || len(missing) == 0 {
			return anyTable(label)
		}
		return pick(t, label, missing)
	}
	kind := gen.Uniform(t, "adminkind", 100)
	if len(names) == 0 && !wild {
		kind = 0
	}
	if len(names) < 2 && kind >= 20 && kind < 30 && !wild {
		kind = 0 // build up tables first
	}
	switch {
	case kind < 22: // create
		name := missingTable("ctable")
		cols := genNewCols(t, o, nil)
		a := &Admin{Kind: "create", Table: name, Cols: cols, Idx: genIndexes(t, w, o, name, cols, nil, true, wild)}
		stressCreate(t, w, o, a, nil)
		return a
	case kind < 32: // ensure
		name := pick(t, "etable", TableUniverse)
		tb := w.Tables[name]
		var have []string
		if tb != nil {
			have = tb.LiveCols()
		}
		cols := genEnsureCols(t, o, have)
		all := union(have, cols)
		a := &Admin{Kind: "ensure", Table: name, Cols: cols, Idx: genIndexes(t, w, o, name, all, tb, tb == nil, wild)}
		stressCreate(t, w, o, a, tb)
		return a
	case kind < 47: // alter create
		name := existingTable("actable")
		tb := w.Tables[name]
		var have []string
		if tb != nil {
			have = tb.LiveCols()
		}
		var cols []string
		if pct(t, "accols", 55) {
			cols = genNewCols(t, o, have)
		}
		var idx []Index
		if len(cols) == 0 || pct(t, "acidx", 60) {
			idx = genIndexes(t, w, o, name, union(have, cols), tb, false, wild)
		}
		a := &Admin{Kind: "altercreate", Table: name, Cols: cols, Idx: idx}
		stressCreate(t, w, o, a, tb)
		return a
	case kind < 60: // alter drop
		name := existingTable("adtable")
		if fkt := w.fkTables(); len(fkt) > 0 && !wild && pct(t, "adstress", o.FkStress) {
			name = pick(t, "adfktable", fkt)
		}
		tb := w.Tables[name]
		a := &Admin{Kind: "alterdrop", Table: name}
		if tb == nil {
			a.Cols = []string{pick(t, "adcol", ColUniverse)}
			return a
		}
		if hot := w.hotCols(tb); len(hot) > 0 && !wild && pct(t, "adhot", 2*o.FkStress) {
			// drop a column that foreign key indexes / derived columns use,
			// together with the indexes that use it (so that the request gets
			// past the early "column used by index" test); its x_lower!
			// companion is dropped too only half of the time, otherwise the
			// final validation refuses the request after the links were fixed up
			c := pick(t, "adhotcol", hot)
			a.Cols = []string{c}
			for _, ix := range tb.Idx {
				if slices.Contains(ix.Cols, c) {
					a.Idx = append(a.Idx, Index{Mode: ix.Mode, Cols: slices.Clone(ix.Cols)})
				}
			}
			if slices.Contains(tb.Derived, c+"_lower!") && pct(t, "adhotlower", 50) {
				a.Cols = append(a.Cols, c+"_lower!")
				for _, ix := range tb.Idx {
					if slices.Contains(ix.Cols, c+"_lower!") && a.findIdx(ix.Cols) < 0 {
						a.Idx = append(a.Idx, Index{Mode: ix.Mode, Cols: slices.Clone(ix.Cols)})
					}
				}
			}
			return a
		}
		what := gen.Uniform(t, "adwhat", 10)
		if what < 5 && len(tb.Idx) > 0 { // drop an index
			ix := pick(t, "adidx", tb.Idx)
			a.Idx = []Index{{Mode: ix.Mode, Cols: slices.Clone(ix.Cols)}}
			if pct(t, "adidxcol", 35) { // and the columns only it uses
				for _, c := range ix.Cols {
					if usedBy(tb, c) == 1 && !strings.HasSuffix(c, "_lower!") && !slices.Contains(a.Cols, c) {
						a.Cols = append(a.Cols, c)
					}
				}
			}
		} else { // drop a column (prefer one that no index uses)
			cands := append(tb.LiveCols(), tb.Derived...)
			var free []string
			for _, c := range cands {
				if usedBy(tb, c) == 0 {
					free = append(free, c)
				}
			}
			if len(free) > 0 && !wild && !pct(t, "adused", 15) {
				cands = free
			}
			if len(cands) == 0 {
				cands = ColUniverse
			}
			a.Cols = []string{pick(t, "adcol", cands)}
		}
		return a
	case kind < 72: // alter rename
		name := existingTable("artable")
		if fkt := w.fkTables(); len(fkt) > 0 && !wild && pct(t, "arstress", o.FkStress) {
			name = pick(t, "arfktable", fkt)
		}
		tb := w.Tables[name]
		a := &Admin{Kind: "alterrename", Table: name}
		var hot []string
		if tb != nil && !wild && pct(t, "arhot", 2*o.FkStress) {
			hot = w.hotCols(tb)
		}
		n := 1
		if pct(t, "ar2", 25) {
			n = 2
		}
		var cols []string
		if tb != nil {
			cols = slices.Clone(tb.LiveCols())
		}
		for i := 0; i < n; i++ {
			var from, to string
			if len(cols) == 0 || wild {
				from, to = pick(t, "arfrom", ColUniverse), pick(t, "arto", ColUniverse)
			} else {
				j := gen.Uniform(t, "arfromi", len(cols))
				if i == 0 && len(hot) > 0 {
					// a column used by a foreign key index and/or a derived column
					if k := slices.Index(cols, pick(t, "arhotcol", hot)); k >= 0 {
						j = k
					}
				}
				from = cols[j]
				var free []string
				for _, c := range ColUniverse {
					if !slices.Contains(cols, c) {
						free = append(free, c)
					}
				}
				if len(free) == 0 || pct(t, "arclash", 8) {
					to = pick(t, "arto", ColUniverse)
				} else {
					to = pick(t, "arto", free)
				}
				cols[j] = to
			}
			a.From = append(a.From, from)
			a.To = append(a.To, to)
		}
		return a
	case kind < 80: // rename table
		from := existingTable("rtable")
		if fkt := w.fkTables(); len(fkt) > 0 && !wild && pct(t, "rstress", 2*o.FkStress) {
			from = pick(t, "rfktable", fkt) // refused late when it is a target
		}
		return &Admin{Kind: "rename", Table: from, To: []string{missingTable("rto")}}
	case kind < 88: // view
		if !o.Views {
			return &Admin{Kind: "drop", Table: existingTable("dtable")}
		}
		return &Admin{Kind: "view", Table: pick(t, "vname", ViewUniverse), Def: pick(t, "vdef", viewDefs)}
	default: // drop
		if o.Views && len(w.Views) > 0 && pct(t, "dview", 35) {
			return &Admin{Kind: "drop", Table: pick(t, "dvname", w.ViewNames())}
		}
		// prefer a table that nothing references (otherwise mostly refused)
		var free []string
		for _, n := range names {
			if !w.hasIncomingFromOthers(n) {
				free = append(free, n)
			}
		}
		if len(free) > 0 && !wild && !pct(t, "dref", 20) {
			return &Admin{Kind: "drop", Table: pick(t, "dtable", free)}
		}
		return &Admin{Kind: "drop", Table: existingTable("dtable")}
	}
}

func union(a, b []string) []string {
	r := slices.Clone(a)
	for _, c := range b {
		if !slices.Contains(r, c) {
			r = append(r, c)
		}
	}
	return r
}

// usedBy counts the indexes of tb that use column c (directly or as
// c_lower!).
func usedBy(tb *Table, c string) int {
	n := 0
	for _, ix := range tb.Idx {
		if indexUsesCol(ix, c) || slices.Contains(ix.Cols, c) {
			n++
		}
	}
	return n
}

// genNewCols draws 1..4 columns not in have (physical ones, sometimes a rule
// or an x_lower! column).
func genNewCols(t *rapid.T, o Opts, have []string) []string {
	var free []string
	for _, c := range ColUniverse {
		if !slices.Contains(have, c) {
			free = append(free, c)
		}
	}
	if len(free) == 0 || pct(t, "colclash", 4) {
		free = ColUniverse
	}
	max := 4
	if have != nil {
		max = 2
	}
	n := uniform(t, "ncols", 1, max)
	var cols []string
	for i := 0; i < n; i++ {
		c := pick(t, "col", free)
		if !slices.Contains(cols, c) {
			cols = append(cols, c)
		}
	}
	if have == nil && len(cols) < 2 && !pct(t, "onecol", 20) {
		for _, c := range free {
			if !slices.Contains(cols, c) {
				cols = append(cols, c)
				break
			}
		}
	}
	if o.Derived && pct(t, "derived", 12) {
		if pct(t, "rule", 50) {
			cols = append(cols, pick(t, "rulename", RuleUniverse))
		} else {
			cols = append(cols, pick(t, "lowerbase", union(have, cols))+"_lower!")
		}
	}
	return cols
}

// genEnsureCols: a mix of existing and new columns.
func genEnsureCols(t *rapid.T, o Opts, have []string) []string {
	var cols []string
	for _, c := range have {
		if pct(t, "ehave", 50) {
			cols = append(cols, c)
		}
	}
	if len(cols) == 0 || pct(t, "enew", 50) {
		cols = union(cols, genNewCols(t, o, have))
	}
	return cols
}

// genIndexes draws the index list of a request over the available columns.
// tb is the existing table (nil for a new one); needKey adds a key first.
func genIndexes(t *rapid.T, w *World, o Opts, table string, cols []string, tb *Table, needKey, wild bool) []Index {
	var phys []string
	for _, c := range cols {
		if !isDerivedName(c) || strings.HasSuffix(c, "_lower!") {
			phys = append(phys, c)
		}
	}
	if len(phys) == 0 || wild {
		phys = union(phys, ColUniverse[:3])
	}
	var idx []Index
	taken := func(cs []string) bool {
		for _, ix := range idx {
			if slices.Equal(ix.Cols, cs) {
				return true
			}
		}
		return tb != nil && tb.findIndex(cs) >= 0 && !wild && !pct(t, "dupidx", 10)
	}
	drawCols := func(label string) []string {
		n := 1
		if len(phys) > 1 && pct(t, label+"two", 30) {
			n = 2
		}
		var cs []string
		for len(cs) < n {
			c := pick(t, label, phys)
			if slices.Contains(cs, c) {
				break
			}
			cs = append(cs, c)
		}
		return cs
	}
	n := gen.Uniform(t, "nidx", 3)
	if needKey {
		var cs []string
		if pct(t, "emptykey", 2) {
			cs = []string{}
		} else {
			cs = drawCols("keycol")
		}
		idx = append(idx, Index{Mode: 'k', Cols: cs})
	} else if n == 0 {
		n = 1
	}
	for i := 0; i < n; i++ {
		mode := pick(t, "ixmode", []byte{'i', 'i', 'i', 'u', 'k'})
		cs := drawCols("ixcol")
		if taken(cs) {
			continue
		}
		if mode == 'u' && slices.ContainsFunc(cs, func(c string) bool { return strings.HasSuffix(c, "_lower!") }) && !wild {
			mode = 'i'
		}
		ix := Index{Mode: mode, Cols: cs}
		if o.Fkeys && pct(t, "fk", 45) {
			ix.Fk = genFk(t, w, table, cs, idx, tb, wild)
		}
		idx = append(idx, ix)
	}
	return idx
}

// genFk draws a foreign key for an index over cs: a key of an existing table
// (or of the table being defined: self reference) with the same number of
// columns; nil when there is none.
func genFk(t *rapid.T, w *World, table string, cs []string, own []Index, tb *Table, wild bool) *Fk {
	type cand struct {
		table string
		cols  []string
	}
	var cands []cand
	for _, n := range w.TableNames() {
		for _, ix := range w.Tables[n].Idx {
			if ix.Mode == 'k' && len(ix.Cols) == len(cs) && len(cs) > 0 {
				cands = append(cands, cand{n, ix.Cols})
			}
		}
	}
	for _, ix := range own { // self reference to a key defined in the same request
		if ix.Mode == 'k' && len(ix.Cols) == len(cs) && len(cs) > 0 && (tb == nil) {
			cands = append(cands, cand{table, ix.Cols})
		}
	}
	if wild && pct(t, "fkwild", 50) {
		return &Fk{Table: pick(t, "fktablew", TableUniverse), Cols: []string{pick(t, "fkcolw", ColUniverse)}, Mode: pick(t, "fkmodew", []int{FkBlock, FkCascade})}
	}
	if len(cands) == 0 {
		return nil
	}
	c := pick(t, "fktarget", cands)
	return &Fk{Table: c.table, Cols: slices.Clone(c.cols), Mode: pick(t, "fkmode", []int{FkBlock, FkBlock, FkCascade, FkCascadeUpdate})}
}

// ---------------------------------------------------------------- foreign key neighbourhood

func (a *Admin) findIdx(cols []string) int {
	for i := range a.Idx {
		if slices.Equal(a.Idx[i].Cols, cols) {
			return i
		}
	}
	return -1
}

// FkSide reports whether the table is the source or the target of a
// foreign key.
func (w *World) FkSide(name string) bool { return w.fkSide(name) }

// fkTables: the tables on either side of a foreign key, sorted.
func (w *World) fkTables() []string {
	var r []string
	for _, n := range w.TableNames() {
		if w.fkSide(n) {
			r = append(r, n)
		}
	}
	return r
}

// hotCols: live columns of tb that a foreign key uses (columns of an index
// with a foreign key, columns of a key that other tables reference) or that
// are the base of an x_lower! derived / index column; columns that are both
// come twice (so they are picked more often).
func (w *World) hotCols(tb *Table) []string {
	var hot []string
	live := tb.LiveCols()
	add := func(c string) {
		c = strings.TrimSuffix(c, "_lower!")
		if slices.Contains(live, c) {
			hot = append(hot, c)
		}
	}
	for _, ix := range tb.Idx {
		if ix.Fk != nil || len(w.incoming(tb.Name, ix.Cols)) > 0 {
			for _, c := range ix.Cols {
				add(c)
			}
		}
	}
	nfk := len(hot)
	lower := func(c string) {
		if base, ok := strings.CutSuffix(c, "_lower!"); ok && slices.Contains(live, base) {
			hot = append(hot, base)
			if slices.Contains(hot[:nfk], base) {
				hot = append(hot, base, base) // both at once: the interesting ones
			}
		}
	}
	for _, c := range tb.Derived {
		lower(c)
	}
	for _, ix := range tb.Idx {
		for _, c := range ix.Cols {
			if !slices.Contains(tb.Derived, c) {
				lower(c)
			}
		}
	}
	return hot
}

// stressCreate decorates a create / ensure / alter create request (o.FkStress
// percent of them) when foreign keys are around:
//
//   - an x_lower! derived column (and sometimes an index on it) for a column
//     x of a foreign key index of the request or of the existing table
//   - a part that fails late, after the foreign key part of the request has
//     been processed: an x_lower! of a column that does not exist (refused by
//     the final validation), or a further index with a foreign key to a key
//     that does not exist
func stressCreate(t *rapid.T, w *World, o Opts, a *Admin, tb *Table) {
	if !o.Derived || o.FkStress <= 0 {
		return
	}
	phys, _ := splitCols(a.Cols)
	var have []string
	if tb != nil {
		have = tb.LiveCols()
	}
	all := union(have, phys)
	// columns of foreign key indexes (request first, then the existing table)
	var fkcols []string
	for _, ix := range a.Idx {
		if ix.Fk != nil {
			fkcols = union(fkcols, ix.Cols)
		}
	}
	hasFkPart := len(fkcols) > 0
	if tb != nil {
		for _, c := range w.hotCols(tb) {
			fkcols = union(fkcols, []string{c})
		}
	}
	var cands []string
	for _, c := range fkcols {
		if !strings.HasSuffix(c, "_lower!") && slices.Contains(all, c) {
			cands = append(cands, c)
		}
	}
	if len(cands) > 0 && pct(t, "stresslower", 2*o.FkStress) {
		c := pick(t, "stresslowercol", cands) + "_lower!"
		exists := slices.Contains(a.Cols, c) || (tb != nil && slices.Contains(tb.Derived, c))
		if !exists {
			a.Cols = append(a.Cols, c)
		}
		if pct(t, "stresslowerix", 50) && a.findIdx([]string{c}) < 0 && (tb == nil || tb.findIndex([]string{c}) < 0) {
			a.Idx = append(a.Idx, Index{Mode: 'i', Cols: []string{c}})
		}
	}
	if (hasFkPart || (tb != nil && w.fkSide(tb.Name))) && pct(t, "stresslate", o.FkStress) {
		switch gen.Uniform(t, "stresslatekind", 3) {
		case 0: // x_lower! of a column that does not exist
			for _, c := range ColUniverse {
				if !slices.Contains(all, c) {
					a.Cols = append(a.Cols, c+"_lower!")
					break
				}
			}
		case 1: // a further foreign key to a key that does not exist
			if len(all) > 0 {
				c := pick(t, "stresslatecol", all)
				if a.findIdx([]string{c}) < 0 && (tb == nil || tb.findIndex([]string{c}) < 0) {
					target := pick(t, "stresslatetable", TableUniverse)
					a.Idx = append(a.Idx, Index{Mode: 'i', Cols: []string{c},
						Fk: &Fk{Table: target, Cols: []string{"nokey"}, Mode: FkBlock}})
				}
			}
		default: // an index on x_lower! of a column that does not exist
			for _, x := range ColUniverse {
				if slices.Contains(all, x) {
					continue
				}
				c := x + "_lower!"
				if a.findIdx([]string{c}) < 0 {
					a.Idx = append(a.Idx, Index{Mode: 'i', Cols: []string{c}})
				}
				break
			}
		}
	}
}
