package dbgen

import (
	"fmt"
	"math/bits"
	"slices"
	"strings"

	"github.com/apmckinlay/gsuneido/db19"
)

// Predicates that identify the exact input classes of known findings
// (they read the chain shape through the db19/meta verif hook). Checks use
// them to exclude those classes when the finding is listed in
// /verif/known_findings.json.

// chainFlattens replicates util/hamt.nmerge: the next write of a chain with
// no chunks at clock merges all chunks (and therefore drops tombstones).
func chainFlattens(no, clock int) bool {
	if no >= 7 {
		return true
	}
	return bits.TrailingZeros(^uint(clock)) >= no
}

// FlattenToEmpty reports whether the next state write of db (explicit
// persist or the final persist of Close) hits finding
// C04/flatten-to-empty: a metadata chain that has persisted chunks, whose
// items are now all tombstones (every table, or every table and view, was
// dropped or renamed away), is due for complete flattening. hamt.Write then
// returns 0 ("nothing to write") and WriteChain keeps the old chain, so the
// drops are lost when the database is reopened.
func FlattenToEmpty(db *db19.Database) (bool, string) {
	sc, ic := db.GetState().Meta.VerifChains()
	if sc.Chunks > 0 && sc.Live == 0 && chainFlattens(sc.Chunks, sc.Clock) {
		return true, fmt.Sprintf("schema chain: %d chunks, clock %d, 0 live items, %d tombstones", sc.Chunks, sc.Clock, sc.Tombs)
	}
	if ic.Chunks > 0 && ic.Live == 0 && chainFlattens(ic.Chunks, ic.Clock) {
		return true, fmt.Sprintf("info chain: %d chunks, clock %d, 0 live items, %d tombstones", ic.Chunks, ic.Clock, ic.Tombs)
	}
	return false, ""
}

// DropsSelfFkIndex reports whether the request is an "alter T drop" of an
// index of T that carries a foreign key to T itself (finding
// C21/selffk-index-drop: Meta.dropFkeys skips self references, so the
// FkToHere entry on T's own key is left dangling with a stale index number
// until the database is reopened).
func DropsSelfFkIndex(w *World, a *Admin) bool {
	if a == nil || a.Kind != "alterdrop" {
		return false
	}
	t := w.Tables[a.Table]
	if t == nil {
		return false
	}
	for _, dx := range a.Idx {
		if i := t.findIndex(dx.Cols); i >= 0 && t.Idx[i].Fk != nil && t.Idx[i].Fk.Table == t.Name {
			return true
		}
	}
	return false
}

// AlterDropWithTwoFksToSameKey reports whether the request is an "alter T
// drop ..." on a table that (after the requested index drops) has two or
// more foreign keys to the same target key (finding
// C21/alter-drop-two-fks-same-key: meta.updateOtherFkToHere identifies the
// back link by source table and target columns only, so every back link from
// T on that key gets the index number of the last one).
func AlterDropWithTwoFksToSameKey(w *World, a *Admin) bool {
	if a == nil || a.Kind != "alterdrop" {
		return false
	}
	t := w.Tables[a.Table]
	if t == nil {
		return false
	}
	seen := map[string]bool{}
	for _, ix := range t.Idx {
		if ix.Fk == nil {
			continue
		}
		dropped := false
		for _, dx := range a.Idx {
			if slices.Equal(dx.Cols, ix.Cols) {
				dropped = true
			}
		}
		if dropped {
			continue
		}
		k := ix.Fk.Table + "(" + strings.Join(ix.Fk.Cols, ",") + ")"
		if seen[k] {
			return true
		}
		seen[k] = true
	}
	return false
}

// RenamesLowerBase reports whether the request is an "alter T rename" that
// renames a column x away while T has x_lower! (as a derived column or index
// column) AND gives another column the name x in the same request, e.g.
// "rename d to f, e to d". Only that form is accepted (finding
// C21/rename-lower-base: the name x_lower! then denotes the new column x,
// but the index keeps its field numbers, i.e. stays built on the old column;
// after reopen the field numbers are recomputed from the names and no longer
// match the stored index). A rename of x alone is refused by the final
// validation ("_lower! nonexistent column") and is NOT in this class: such
// late refusals must be issued, they are what the "refused request changes
// nothing" oracle is for.
func RenamesLowerBase(w *World, a *Admin) bool {
	if a == nil || a.Kind != "alterrename" {
		return false
	}
	t := w.Tables[a.Table]
	if t == nil {
		return false
	}
	has := func(name string) bool {
		if slices.Contains(t.Derived, name) {
			return true
		}
		for _, ix := range t.Idx {
			if slices.Contains(ix.Cols, name) {
				return true
			}
		}
		return false
	}
	// simulate the renames on the column list (in request order)
	cols := slices.Clone(t.Cols)
	for i, f := range a.From {
		j := slices.Index(cols, f)
		if j < 0 || f == "-" || slices.Contains(cols, a.To[i]) {
			return false // refused before anything is renamed
		}
		cols[j] = a.To[i]
	}
	for i, f := range a.From {
		if !has(f + "_lower!") {
			continue
		}
		// x was renamed away; is there a column named x again, in another position?
		j := slices.Index(cols, f)
		if j >= 0 && j != slices.Index(t.Cols, f) {
			return true
		}
		_ = i
	}
	return false
}

// StaleNewIndex reports whether the next state write (explicit persist or
// close) hits finding C04/new-index-not-saved: since the last state write an
// index was built (ensure / alter create) over existing rows of a table, and
// now the table's row versions are exactly those of the last state write
// again (everything inserted since then was deleted, partly after the build).
// meta.Persist decides whether to save a table's indexes by looking at the
// first index only (Indexes[0].Modified()); its changes cancel out, so the
// deletes pending in the new index (whose btree was built with those rows)
// are never written: after reopen the new index returns deleted rows and
// db.Check reports corruption.
func StaleNewIndex(w *World) (bool, string) {
	for _, n := range w.TableNames() {
		t := w.Tables[n]
		if !t.built {
			continue
		}
		now := t.ids()
		if slices.Equal(now, t.base) && !slices.Equal(now, t.atBuild) {
			return true, n
		}
	}
	return false, ""
}

// IntroducesStaleIndexName reports whether the request gives a column of T a
// name that T's indexes used when they were set up and that was renamed away
// since the database was opened (alter rename ... to x, alter create (x),
// ensure (x)). Finding C21/rename-stale-index-fields: Meta.AlterRename
// renames Index.Columns and BestKey but not Index.Fields, which is what the
// query layer uses (query.Table.Indexes); the stale name then denotes the
// wrong column and queries on x return wrong rows until reopen.
func IntroducesStaleIndexName(w *World, a *Admin) bool {
	if a == nil {
		return false
	}
	t := w.Tables[a.Table]
	if t == nil {
		return false
	}
	var names []string
	switch a.Kind {
	case "alterrename":
		names = a.To
	case "altercreate", "ensure":
		names, _ = splitCols(a.Cols)
	default:
		return false
	}
	for _, n := range names {
		if !slices.Contains(t.stale, n) {
			continue
		}
		// still the name of the same index column: not stale
		current := false
		for _, ix := range t.Idx {
			if slices.Contains(ix.Cols, n) {
				current = true
			}
		}
		if !current || a.Kind == "alterrename" {
			return true
		}
	}
	return false
}

// DropLosesInfoTombstone reports whether the request is a "drop T" of a
// table for which Meta.Drop takes the wrong branch for the Info item
// (finding C04/drop-info-created-mixup): Drop reads the `created` clock of
// the *schema* item (`ti := m.schema.MustGet(...)`) and compares it with the
// *info* chain's clock; when they happen to be equal although the Info item
// has been persisted, the Info item is removed without a tombstone, the
// persisted copy comes back when the chain is read, and the reopened
// database fails with "metadata checksum mismatch" (or shows an Info
// without a table).
func DropLosesInfoTombstone(db *db19.Database, a *Admin) bool {
	if a == nil || a.Kind != "drop" {
		return false
	}
	m := db.GetState().Meta
	if m.GetView(a.Table) != "" {
		return false
	}
	sc, ic, ok := m.VerifCreated(a.Table)
	if !ok {
		return false
	}
	_, info := m.VerifChains()
	buggy := sc != 0 && sc == info.Clock
	correct := ic != 0 && ic == info.Clock
	return buggy && !correct
}

// RefusedBuildLeaksFlags reports whether the request is an ensure / alter
// create that adds a key to a table with rows and that must be refused
// because the existing rows violate a new index (duplicate value / foreign
// key). Finding C21/refused-build-leaks-primary: Database.buildIndexes
// appends the new indexes to a shallow copy of the live schema
// (`ts.Indexes = append(ts.Indexes, newIdxs...)`, spare capacity from the
// parser's make(.., 0, 4)) and SetupNewIndexes -> setPrimary /
// setContainsKey then rewrite the Primary / ContainsKey flags of the *live*
// index entries before the build fails: e.g. after the refused `ensure tb
// (c) key(c) in ta(a)` on tb key(a,c), key(a,c) is no longer Primary and
// duplicate (a,c) rows are accepted.
func RefusedBuildLeaksFlags(w *World, a *Admin) bool {
	if a == nil || (a.Kind != "ensure" && a.Kind != "altercreate") {
		return false
	}
	t := w.Tables[a.Table]
	if t == nil || len(t.Rows) == 0 {
		return false
	}
	newKey, badTarget := false, false
	for _, ix := range a.Idx {
		if t.findIndex(ix.Cols) >= 0 {
			continue
		}
		if ix.Mode == 'k' {
			newKey = true
		}
		if ix.Fk != nil { // the build also fails late when the target is missing
			tt := w.Tables[ix.Fk.Table]
			if tt == nil || tt.findIndex(ix.Fk.Cols) < 0 {
				badTarget = true
			}
		}
	}
	return newKey && (badTarget || w.newIndexViolated(t, a, a.Kind == "ensure"))
}

// AlterDropKeyInsideUnique reports whether the request is an "alter T drop
// key(K)" where some remaining unique index of T contains K's columns and no
// remaining key is contained in it (finding
// C21/alter-drop-key-stale-containskey: meta.setContainsKey only ever sets
// the ContainsKey flag, so after the drop the unique index is still marked
// as containing a key and gets no duplicate check until reopen).
func AlterDropKeyInsideUnique(w *World, a *Admin) bool {
	if a == nil || a.Kind != "alterdrop" {
		return false
	}
	t := w.Tables[a.Table]
	if t == nil {
		return false
	}
	dropped := func(ix Index) bool {
		for _, dx := range a.Idx {
			if slices.Equal(dx.Cols, ix.Cols) {
				return true
			}
		}
		return false
	}
	covers := func(cols, key []string) bool {
		for _, k := range key {
			if !slices.Contains(cols, k) && !slices.Contains(cols, strings.TrimSuffix(k, "_lower!")) {
				return false
			}
		}
		return true
	}
	for _, dk := range t.Idx {
		if dk.Mode != 'k' || !dropped(dk) {
			continue
		}
		for _, u := range t.Idx {
			if u.Mode != 'u' || dropped(u) || !covers(u.Cols, dk.Cols) {
				continue
			}
			still := false
			for _, k := range t.Idx {
				if k.Mode == 'k' && !dropped(k) && covers(u.Cols, k.Cols) {
					still = true
				}
			}
			if !still {
				return true
			}
		}
	}
	return false
}
