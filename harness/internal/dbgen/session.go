package dbgen

import (
	"fmt"
	"runtime"
	"time"

	"github.com/apmckinlay/gsuneido/core"
	"github.com/apmckinlay/gsuneido/db19"
	"github.com/apmckinlay/gsuneido/db19/stor"
	_ "github.com/apmckinlay/gsuneido/dbms" // sets db19.MakeSuTran and query.MakeSuTran
	"github.com/apmckinlay/gsuneido/dbms/query"
)

// PersistInterval is the interval given to StartConcur: long enough that
// the timer never fires, so that states are written only by explicit
// Persist and Close.
const PersistInterval = 10000 * time.Hour

// Opener abstracts the storage under a Session (heap or file).
type Opener interface {
	// Create makes a new empty database (no checker started).
	Create() (*db19.Database, error)
	// Reopen opens the storage that db was closed on (no checker started).
	Reopen(closed *db19.Database) (*db19.Database, error)
}

type heapOpener struct{ chunk int }

// HeapOpener: databases on a stor.HeapStor with the given chunk size (a
// power of two); reopen reads the same heap with OpenDbStor(check=true).
func HeapOpener(chunk int) Opener { return heapOpener{chunk} }

func (h heapOpener) Create() (*db19.Database, error) {
	return db19.CreateDb(stor.HeapStor(h.chunk)), nil
}

func (h heapOpener) Reopen(closed *db19.Database) (*db19.Database, error) {
	return db19.OpenDbStor(closed.Store, stor.Update, true)
}

type fileOpener struct{ path string }

// FileOpener: a real database file (mmap) at path.
func FileOpener(path string) Opener { return fileOpener{path} }

func (f fileOpener) Create() (*db19.Database, error) { return db19.CreateDatabase(f.path) }
func (f fileOpener) Reopen(*db19.Database) (*db19.Database, error) {
	return db19.OpenDb(f.path, stor.Update, true)
}

// Session runs steps against a real database and keeps the model in step.
type Session struct {
	DB     *db19.Database
	W      *World
	Th     *core.Thread
	Opener Opener
	// Sleep is called for "sleep" steps (default: nothing). The as-of check
	// sets it to time.Sleep inside a synctest bubble.
	Sleep func(ms int)
	// OnState is called after every step that may have written a state
	// record: after an explicit persist (closing=false) and after close +
	// reopen (closing=true) with the offset of the latest state record.
	OnState func(off uint64, closing bool)
	// BeforeClose is called right before the database is closed by a
	// reopen step (the old database is still open and complete).
	BeforeClose func()
	// LastOff is the offset of the most recent state record known.
	LastOff uint64
	// FreeRunning turns off the merger round trip that Apply makes before
	// every admin request. By default the session waits until the merges of
	// all committed transactions have been applied before it sends an admin
	// request: Database.AlterCreate snapshots the number of index layers
	// before it synchronises with the merger, so without the round trip the
	// outcome depends on goroutine timing (a new index can end up with more
	// layers than the table's other indexes, and changes in its extra layer
	// are then never merged or persisted).
	FreeRunning bool
}

// Quiesce returns after the merger has applied the merges of everything
// committed so far (a no-op function is run exclusively on a table name that
// does not exist; it travels checker -> merger behind the pending merges).
func (s *Session) Quiesce() {
	call(func() { s.DB.RunExclusive("verif_quiesce", func() {}) })
}

// NewSession creates an empty database with the opener, starts the real
// checker/merger pipeline and returns the session with an empty model.
func NewSession(o Opener) (*Session, error) {
	db, err := o.Create()
	if err != nil {
		return nil, err
	}
	db19.StartConcur(db, PersistInterval)
	return &Session{DB: db, W: NewWorld(), Th: core.NewThread(nil), Opener: o}, nil
}

// Close closes the database (clean shutdown).
func (s *Session) Close() {
	if s.DB != nil {
		s.DB.Close()
	}
}

// Result of applying one step.
type Result struct {
	// Err != "" means the database and the model disagree (verdict, row
	// count, or a must-accept / must-refuse expectation). The caller decides
	// which property that violates.
	Err string
	// Accepted: the admin request was accepted / the transaction committed.
	Accepted bool
	// Refusal is the error text of a refused request.
	Refusal string
	// RuntimeError is set when the refusal was a Go runtime error (nil
	// dereference, index out of range) rather than a Suneido error.
	RuntimeError bool
	// NewState: a persist step wrote a new state record at Off.
	NewState bool
	Off      uint64
	// TailAtChunkStart: (heap storage, reopen steps) after Close the
	// shutdown marker is the first thing in a storage chunk, i.e. the final
	// state record ended less than 8 bytes before a chunk boundary (finding
	// C04/tail-at-chunk-start: such a database does not open, "bad state").
	TailAtChunkStart bool
	// CloseGap (reopen steps on heap storage, else -1): number of bytes
	// between the end of the final state record and the end of its storage
	// chunk (0 = the state ends the chunk; 1..7 = the shutdown marker could
	// not follow it in the same chunk). Padded: the step padded the storage
	// before Close to aim at a requested gap (Step.Pad).
	CloseGap int
	Padded   bool
}

// call runs fn and converts a panic into (message, isRuntimeError).
func call(fn func()) (msg string, rte bool, panicked bool) {
	defer func() {
		if e := recover(); e != nil {
			panicked = true
			msg = fmt.Sprint(e)
			if _, ok := e.(runtime.Error); ok {
				rte = true
			}
			if msg == "" {
				msg = "(empty panic message)"
			}
		}
	}()
	fn()
	return
}

// Apply executes one step against the database and the model.
func (s *Session) Apply(st *Step) Result {
	defer func() { s.W.Stats.LastWasPersist = st.Kind == KPersist }()
	switch st.Kind {
	case KAdmin:
		return s.applyAdmin(st.Admin)
	case KTran:
		return s.applyTran(st.Acts, st.End)
	case KPersist:
		return s.applyPersist()
	case KReopen:
		return s.applyReopen(st.Acts, st.Pad)
	case KSleep:
		if s.Sleep != nil {
			s.Sleep(st.GapMs)
		}
		return Result{Accepted: true}
	}
	return Result{Err: "dbgen: unknown step kind " + st.Kind}
}

func (s *Session) applyAdmin(a *Admin) Result {
	exp := s.W.ExpectAdmin(a)
	text := a.Text()
	if !s.FreeRunning {
		s.Quiesce()
	}
	msg, rte, refused := call(func() { query.DoAdmin(s.DB, text, nil) })
	res := Result{Accepted: !refused, Refusal: msg, RuntimeError: rte}
	switch {
	case refused && exp == MustAccept:
		res.Err = fmt.Sprintf("request %q refused (%s) but the model says it must be accepted", text, msg)
	case !refused && exp == MustRefuse:
		res.Err = fmt.Sprintf("request %q accepted but the model says it must be refused", text)
	}
	if refused {
		s.W.Stats.AdminRefused++
	} else {
		s.W.ApplyAdmin(a)
	}
	return res
}

// applyTran runs the actions in one update transaction. end is "commit",
// "abort" or "open" (left open: the caller closes the database next).
func (s *Session) applyTran(acts []Action, end string) Result {
	ut := s.DB.NewUpdateTran()
	if ut == nil {
		return Result{Err: "NewUpdateTran returned nil"}
	}
	scratch := s.W.Clone()
	for i := range acts {
		a := &acts[i]
		verdict, n, why := scratch.ApplyAction(a)
		if verdict == Avoid {
			ut.Abort()
			return Result{Err: fmt.Sprintf("dbgen: generator produced an action the model avoids (%s): %s", why, a.Text())}
		}
		text := a.Text()
		var got int
		msg, rte, refused := call(func() { got = query.DoAction(s.Th, ut, text) })
		if refused != (verdict == Refuse) {
			ut.Abort()
			if refused {
				return Result{Err: fmt.Sprintf("action %q refused (%s) but the model accepts it", text, msg), Refusal: msg, RuntimeError: rte}
			}
			return Result{Err: fmt.Sprintf("action %q accepted but the model refuses it (%s)", text, why)}
		}
		if refused {
			ut.Abort()
			s.W.Stats.TransRefused++
			return Result{Refusal: msg, RuntimeError: rte}
		}
		// the count of an update may include rows visited again after their
		// key moved (that is C24's business), so only insert/delete compare
		if got != n && a.Op != "update" {
			ut.Abort()
			return Result{Err: fmt.Sprintf("action %q processed %d rows, model %d", text, got, n)}
		}
	}
	switch end {
	case "commit":
		if e := ut.Complete(); e != "" {
			return Result{Err: "commit of a sequential transaction failed: " + e}
		}
		st := s.W.Stats
		s.W.AdoptData(scratch)
		s.W.Stats = st
		s.W.Stats.TransCommit++
		s.W.Stats.RowsWritten += len(acts)
		return Result{Accepted: true}
	case "abort":
		ut.Abort()
		s.W.Stats.TransAbort++
	case "open":
		s.W.Stats.TransOpen++
	}
	return Result{}
}

func (s *Session) applyPersist() Result {
	var off uint64
	msg, _, failed := call(func() {
		state := s.DB.Persist()
		off = state.Off
	})
	if failed {
		return Result{Err: "persist failed: " + msg}
	}
	res := Result{Accepted: true, Off: off, NewState: off != s.LastOff}
	if res.NewState {
		s.W.Stats.Persists++
		s.W.Stats.PersistsSinceOpen++
		s.W.MarkStateWritten()
	} else {
		s.W.Stats.PersistsNoop++
	}
	s.LastOff = off
	if s.OnState != nil {
		s.OnState(off, false)
	}
	return res
}

// applyReopen optionally leaves a transaction with uncommitted writes open,
// closes the database cleanly and opens it again (check=true) with a new
// checker/merger pipeline.
func (s *Session) applyReopen(open []Action, pad int) Result {
	if len(open) > 0 {
		if r := s.applyTran(open, "open"); r.Err != "" {
			return r
		}
	}
	padded := false
	if h, ok := s.Opener.(heapOpener); ok && pad > 0 {
		padded = s.padBeforeClose(h.chunk, pad-1)
	}
	if s.BeforeClose != nil {
		s.BeforeClose()
	}
	old := s.DB
	msg, _, failed := call(func() { old.Close() })
	if failed {
		return Result{Err: "close failed: " + msg}
	}
	var db *db19.Database
	var err error
	msg, _, failed = call(func() { db, err = s.Opener.Reopen(old) })
	if failed {
		return Result{Err: "reopen panicked: " + msg}
	}
	if err != nil {
		r := Result{Err: "reopen after clean close failed: " + err.Error()}
		if h, ok := s.Opener.(heapOpener); ok {
			r.TailAtChunkStart = old.Store.Size()%uint64(h.chunk) == 8
		}
		s.DB = nil
		return r
	}
	db19.StartConcur(db, PersistInterval)
	s.DB = db
	s.W.Stats.Reopens++
	s.W.MarkReopened()
	s.W.Stats.DropSinceOpen = 0
	s.W.Stats.PersistsSinceOpen = 0
	off := db.GetState().Off
	res := Result{Accepted: true, Off: off, NewState: off != s.LastOff, CloseGap: -1, Padded: padded}
	if h, ok := s.Opener.(heapOpener); ok {
		end := off + uint64(db19.VerifStateLen)
		res.CloseGap = int((uint64(h.chunk) - end%uint64(h.chunk)) % uint64(h.chunk))
	}
	s.LastOff = off
	if s.OnState != nil {
		s.OnState(off, true)
	}
	return res
}

// padBeforeClose prepares the class of finding C04/tail-at-chunk-start: it
// persists what is pending (so that the closing persist has nothing but the
// state record to write, unless a metadata chain is due for merging) and then
// allocates filler so that a state record written next ends d bytes before
// the end of its storage chunk. With d in 1..7 the shutdown marker does not
// fit behind the state and starts the next chunk. The distance actually
// achieved is reported by the reopen step (Result.CloseGap).
func (s *Session) padBeforeClose(chunk, d int) bool {
	ok := false
	call(func() {
		state := s.DB.Persist()
		if state.Off != s.LastOff {
			s.LastOff = state.Off
			s.W.Stats.Persists++
			s.W.Stats.PersistsSinceOpen++
			s.W.MarkStateWritten()
			if s.OnState != nil {
				s.OnState(state.Off, false)
			}
		}
		want := chunk - int(db19.VerifStateLen) - d // position in the chunk where the state must start
		if want <= 0 {
			return
		}
		pos := int(s.DB.Store.Size() % uint64(chunk))
		if pos > want { // fill the rest of this chunk
			s.DB.Store.Alloc(chunk - pos)
			pos = 0
		}
		if want > pos {
			s.DB.Store.Alloc(want - pos)
		}
		ok = true
	})
	return ok
}
