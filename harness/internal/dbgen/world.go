package dbgen

import (
	"encoding/hex"
	"encoding/json"
	"fmt"
	"slices"
	"sort"
	"strconv"
	"strings"
)

// ---------------------------------------------------------------- values

// Val is a model value: an integer or a byte string ("" is the empty value
// that missing fields read as).
type Val struct {
	Str bool
	N   int64
	S   string
}

// JSON form: {"n":5} or {"x":"<hex of the bytes>"} (strings are arbitrary
// bytes, which encoding/json would otherwise replace by U+FFFD).
type valJSON struct {
	N *int64  `json:"n,omitempty"`
	X *string `json:"x,omitempty"`
}

func (v Val) MarshalJSON() ([]byte, error) {
	if v.Str {
		x := hex.EncodeToString([]byte(v.S))
		return json.Marshal(valJSON{X: &x})
	}
	return json.Marshal(valJSON{N: &v.N})
}

func (v *Val) UnmarshalJSON(b []byte) error {
	var j valJSON
	if err := json.Unmarshal(b, &j); err != nil {
		return err
	}
	if j.X != nil {
		bs, err := hex.DecodeString(*j.X)
		if err != nil {
			return err
		}
		*v = Val{Str: true, S: string(bs)}
		return nil
	}
	*v = Val{}
	if j.N != nil {
		v.N = *j.N
	}
	return nil
}

// Empty is the value of a missing field.
var Empty = Val{Str: true}

func IntVal(n int64) Val  { return Val{N: n} }
func StrVal(s string) Val { return Val{Str: true, S: s} }

func (v Val) IsEmpty() bool { return v.Str && v.S == "" }

// Show is the canonical rendering used in dumps.
func (v Val) Show() string {
	if !v.Str {
		return strconv.FormatInt(v.N, 10)
	}
	return quote(v.S)
}

// Lit is the value as a Suneido literal (for action texts).
func (v Val) Lit() string { return v.Show() }

// quote renders s as a double quoted Suneido string literal: printable
// ASCII except `"` and `\` literally, everything else as \xhh.
func quote(s string) string {
	const hexdigits = "0123456789abcdef"
	b := make([]byte, 0, len(s)+2)
	b = append(b, '"')
	for i := 0; i < len(s); i++ {
		c := s[i]
		if c >= 0x20 && c < 0x7f && c != '"' && c != '\\' {
			b = append(b, c)
		} else {
			b = append(b, '\\', 'x', hexdigits[c>>4], hexdigits[c&15])
		}
	}
	b = append(b, '"')
	return string(b)
}

func lowerASCII(s string) string {
	b := []byte(s)
	for i, c := range b {
		if 'A' <= c && c <= 'Z' {
			b[i] = c + 32
		}
	}
	return string(b)
}

// CmpVal is the documented value order restricted to the generated kinds:
// "" < numbers < non-empty strings (bytewise).
func CmpVal(a, b Val) int {
	rank := func(v Val) int {
		switch {
		case v.IsEmpty():
			return 0
		case !v.Str:
			return 1
		}
		return 2
	}
	if ra, rb := rank(a), rank(b); ra != rb {
		return ra - rb
	}
	if !a.Str {
		switch {
		case a.N < b.N:
			return -1
		case a.N > b.N:
			return 1
		}
		return 0
	}
	return strings.Compare(a.S, b.S)
}

// ---------------------------------------------------------------- schema model

// Foreign key modes (documented: block, cascade update, cascade).
const (
	FkBlock         = 0
	FkCascadeUpdate = 1
	FkCascade       = 3
)

type Fk struct {
	Table string   `json:"table"`
	Cols  []string `json:"cols"` // columns of the target key
	Mode  int      `json:"mode"`
}

// Index: Mode 'k' key, 'i' index, 'u' unique index.
type Index struct {
	Mode byte     `json:"mode"`
	Cols []string `json:"cols"`
	Fk   *Fk      `json:"fk,omitempty"`
}

func (ix Index) modeStr() string {
	switch ix.Mode {
	case 'k':
		return "key"
	case 'i':
		return "index"
	case 'u':
		return "index unique"
	}
	return "?" + string(ix.Mode)
}

// Head is "key(a,b)" — the identity of an index within its table.
func (ix Index) Head() string {
	return ix.modeStr() + "(" + strings.Join(ix.Cols, ",") + ")"
}

func fkModeStr(m int) string {
	switch m {
	case FkBlock:
		return ""
	case FkCascadeUpdate:
		return " cascade update"
	case FkCascade:
		return " cascade"
	}
	return " mode" + strconv.Itoa(m)
}

// Text is the index as written in an admin request.
func (ix Index) Text() string {
	s := ix.Head()
	if ix.Fk != nil {
		s += " in " + ix.Fk.Table
		if !slices.Equal(ix.Fk.Cols, ix.Cols) {
			s += "(" + strings.Join(ix.Fk.Cols, ",") + ")"
		}
		s += fkModeStr(ix.Fk.Mode)
	}
	return s
}

type Row map[string]Val

func (r Row) clone() Row {
	c := make(Row, len(r))
	for k, v := range r {
		c[k] = v
	}
	return c
}

// Table is the model of one table. Cols is the physical column list
// (dropped columns stay as "-"), Derived the rule / _lower! columns.
type Table struct {
	Name    string
	Cols    []string
	Derived []string
	Idx     []Index
	Rows    []Row

	// bookkeeping for the predicate of finding C04/new-index-not-saved
	// (see StaleNewIndex): ids of the rows at the last state write, and at
	// the last build of an index over existing rows since then.
	base    []int64
	atBuild []int64
	built   bool
	// stale: column names recorded in Index.Fields when the indexes were set
	// up (or the database was opened); the database does not rename them
	// (finding C21/rename-stale-index-fields, see IntroducesStaleIndexName)
	stale []string
}

// noteIndexNames adds the current index column names to the stale set.
func (t *Table) noteIndexNames() {
	for _, ix := range t.Idx {
		for _, c := range ix.Cols {
			if !slices.Contains(t.stale, c) {
				t.stale = append(t.stale, c)
			}
		}
	}
}

// idKey is the hidden member of a Row that holds its identity (a new one
// for every stored record version, like the record offset in the database).
const idKey = "\x00id"

func (t *Table) ids() []int64 {
	ids := make([]int64, len(t.Rows))
	for i, r := range t.Rows {
		ids[i] = r[idKey].N
	}
	slices.Sort(ids)
	return ids
}

func (t *Table) clone() *Table {
	c := &Table{Name: t.Name, Cols: slices.Clone(t.Cols), Derived: slices.Clone(t.Derived),
		base: t.base, atBuild: t.atBuild, built: t.built, stale: slices.Clone(t.stale)}
	for _, ix := range t.Idx {
		c.Idx = append(c.Idx, cloneIndex(ix))
	}
	for _, r := range t.Rows {
		c.Rows = append(c.Rows, r.clone())
	}
	return c
}

func cloneIndex(ix Index) Index {
	c := Index{Mode: ix.Mode, Cols: slices.Clone(ix.Cols)}
	if ix.Fk != nil {
		c.Fk = &Fk{Table: ix.Fk.Table, Cols: slices.Clone(ix.Fk.Cols), Mode: ix.Fk.Mode}
	}
	return c
}

// LiveCols are the physical columns that are not dropped.
func (t *Table) LiveCols() []string {
	var r []string
	for _, c := range t.Cols {
		if c != "-" {
			r = append(r, c)
		}
	}
	return r
}

func (t *Table) findIndex(cols []string) int {
	for i := range t.Idx {
		if slices.Equal(t.Idx[i].Cols, cols) {
			return i
		}
	}
	return -1
}

// colVal is the value of an index column of a row (handles x_lower!).
func colVal(r Row, col string) Val {
	if base, ok := strings.CutSuffix(col, "_lower!"); ok {
		v := getv(r, base)
		if v.Str {
			v.S = lowerASCII(v.S)
		}
		return v
	}
	return getv(r, col)
}

func getv(r Row, col string) Val {
	if v, ok := r[col]; ok {
		return v
	}
	return Empty
}

func tuple(r Row, cols []string) []Val {
	vs := make([]Val, len(cols))
	for i, c := range cols {
		vs[i] = colVal(r, c)
	}
	return vs
}

func allEmpty(vs []Val) bool {
	for _, v := range vs {
		if !v.IsEmpty() {
			return false
		}
	}
	return true
}

func eqTuple(a, b []Val) bool {
	if len(a) != len(b) {
		return false
	}
	for i := range a {
		if a[i] != b[i] {
			return false
		}
	}
	return true
}

// World is the model of the logical database.
type World struct {
	Tables map[string]*Table
	Views  map[string]string

	// generator bookkeeping (not part of the logical state)
	Stats Stats
	seq   int64 // row identity counter
}

// Stats counts what a history contained (for labels / non-triviality).
type Stats struct {
	Persists          int // explicit persists that wrote a new state
	PersistsNoop      int
	Reopens           int
	AdminAccepted     int
	AdminRefused      int
	Drops             int // accepted drops of a table
	ViewDrops         int
	Renames           int // accepted table or column renames
	FkTouch           int // accepted rename/drop/alter drop that affects a table on either side of a foreign key
	TransCommit       int
	TransAbort        int
	TransRefused      int
	TransOpen         int
	RowsWritten       int
	LastWasPersist    bool // the previous step was an explicit persist
	DropSinceOpen     int  // drops+renames since the last reopen
	PersistsSinceOpen int
}

func NewWorld() *World {
	return &World{Tables: map[string]*Table{}, Views: map[string]string{}}
}

// Clone returns a deep copy (a model snapshot).
func (w *World) Clone() *World {
	c := &World{Tables: map[string]*Table{}, Views: map[string]string{}, Stats: w.Stats, seq: w.seq}
	for k, t := range w.Tables {
		c.Tables[k] = t.clone()
	}
	for k, v := range w.Views {
		c.Views[k] = v
	}
	return c
}

// TableNames returns the table names, sorted.
func (w *World) TableNames() []string {
	names := make([]string, 0, len(w.Tables))
	for n := range w.Tables {
		names = append(names, n)
	}
	sort.Strings(names)
	return names
}

func (w *World) ViewNames() []string {
	names := make([]string, 0, len(w.Views))
	for n := range w.Views {
		names = append(names, n)
	}
	sort.Strings(names)
	return names
}

// NRows is the total number of rows.
func (w *World) NRows() int {
	n := 0
	for _, t := range w.Tables {
		n += len(t.Rows)
	}
	return n
}

// HasFk reports whether any table has a foreign key.
func (w *World) HasFk() bool {
	for _, t := range w.Tables {
		for _, ix := range t.Idx {
			if ix.Fk != nil {
				return true
			}
		}
	}
	return false
}

// HasDroppedCol reports whether any table has a dropped ("-") column.
func (w *World) HasDroppedCol() bool {
	for _, t := range w.Tables {
		if slices.Contains(t.Cols, "-") {
			return true
		}
	}
	return false
}

// fkSide reports whether table name is the source or the target of a
// foreign key.
func (w *World) fkSide(name string) bool {
	for _, t := range w.Tables {
		for _, ix := range t.Idx {
			if ix.Fk != nil && (t.Name == name || ix.Fk.Table == name) {
				return true
			}
		}
	}
	return false
}

// incoming lists (source table, source index position) of foreign keys that
// reference index cols of table target.
type fkRef struct {
	src *Table
	ii  int
}

func (w *World) incoming(target string, cols []string) []fkRef {
	var refs []fkRef
	for _, n := range w.TableNames() {
		t := w.Tables[n]
		for i, ix := range t.Idx {
			if ix.Fk != nil && ix.Fk.Table == target && slices.Equal(ix.Fk.Cols, cols) {
				refs = append(refs, fkRef{t, i})
			}
		}
	}
	return refs
}

func (w *World) hasIncomingFromOthers(target string) bool {
	for _, t := range w.Tables {
		if t.Name == target {
			continue
		}
		for _, ix := range t.Idx {
			if ix.Fk != nil && ix.Fk.Table == target {
				return true
			}
		}
	}
	return false
}

// ---------------------------------------------------------------- dump

// RowText is the canonical text of a row over the live columns.
func RowText(cols []string, get func(col string) Val) string {
	var sb strings.Builder
	sb.WriteByte('{')
	first := true
	for _, c := range cols {
		if c == "-" {
			continue
		}
		if !first {
			sb.WriteByte(',')
		}
		first = false
		sb.WriteString(c)
		sb.WriteByte(':')
		sb.WriteString(get(c).Show())
	}
	sb.WriteByte('}')
	return sb.String()
}

// Dump renders the expected canonical logical dump (no Info.Size numbers);
// DumpLogical of a database that agrees with the model gives the same text.
func (w *World) Dump() string {
	var sb strings.Builder
	for _, name := range w.TableNames() {
		t := w.Tables[name]
		fmt.Fprintf(&sb, "table %s\n", name)
		fmt.Fprintf(&sb, " columns: %s\n", strings.Join(t.Cols, ","))
		fmt.Fprintf(&sb, " derived: %s\n", strings.Join(t.Derived, ","))
		for _, ix := range t.Idx {
			fmt.Fprintf(&sb, " index: %s", ix.Head())
			if ix.Fk != nil {
				fmt.Fprintf(&sb, " in %s(%s)%s -> %s", ix.Fk.Table, strings.Join(ix.Fk.Cols, ","),
					fkModeStr(ix.Fk.Mode), w.targetHead(ix.Fk))
			}
			sb.WriteByte('\n')
		}
		var toHere []string
		for _, ix := range t.Idx {
			for _, ref := range w.incoming(name, ix.Cols) {
				six := ref.src.Idx[ref.ii]
				toHere = append(toHere, fmt.Sprintf(" tohere: %s <- %s(%s)%s via %s\n", ix.Head(),
					ref.src.Name, strings.Join(six.Cols, ","), fkModeStr(six.Fk.Mode), six.Head()))
			}
		}
		sort.Strings(toHere)
		for _, s := range toHere {
			sb.WriteString(s)
		}
		fmt.Fprintf(&sb, " nrows: %d\n", len(t.Rows))
		rows := make([]string, len(t.Rows))
		for i, r := range t.Rows {
			rows[i] = RowText(t.Cols, func(c string) Val { return getv(r, c) })
		}
		sort.Strings(rows)
		for _, r := range rows {
			fmt.Fprintf(&sb, " row: %s\n", r)
		}
		for _, ix := range t.Idx {
			fmt.Fprintf(&sb, " via %s: ok\n", ix.Head())
		}
	}
	for _, v := range w.ViewNames() {
		fmt.Fprintf(&sb, "view %s = %s\n", v, w.Views[v])
	}
	return sb.String()
}

// targetHead is the head of the target index of a foreign key ("?" when the
// model has no such index: the database must not have accepted that).
func (w *World) targetHead(fk *Fk) string {
	t := w.Tables[fk.Table]
	if t == nil {
		return "?"
	}
	if i := t.findIndex(fk.Cols); i >= 0 {
		return t.Idx[i].Head()
	}
	return "?"
}

// ---------------------------------------------------------------- admin requests

// Admin is a structured admin request; Text() is what is sent to
// query.DoAdmin.
type Admin struct {
	Kind  string   `json:"kind"` // create ensure altercreate alterdrop alterrename rename view drop
	Table string   `json:"table"`
	Cols  []string `json:"cols,omitempty"` // as written: physical, Capitalised rules, x_lower!
	Idx   []Index  `json:"idx,omitempty"`
	From  []string `json:"from,omitempty"`
	To    []string `json:"to,omitempty"`
	Def   string   `json:"def,omitempty"`
}

func schemaText(cols []string, idx []Index, parens bool) string {
	var sb strings.Builder
	if parens || len(cols) > 0 {
		sb.WriteString(" (" + strings.Join(cols, ", ") + ")")
	}
	for _, ix := range idx {
		sb.WriteString(" " + ix.Text())
	}
	return sb.String()
}

func (a *Admin) Text() string {
	switch a.Kind {
	case "create":
		return "create " + a.Table + schemaText(a.Cols, a.Idx, true)
	case "ensure":
		return "ensure " + a.Table + schemaText(a.Cols, a.Idx, true)
	case "altercreate":
		return "alter " + a.Table + " create" + schemaText(a.Cols, a.Idx, false)
	case "alterdrop":
		return "alter " + a.Table + " drop" + schemaText(a.Cols, a.Idx, false)
	case "alterrename":
		parts := make([]string, len(a.From))
		for i := range a.From {
			parts[i] = a.From[i] + " to " + a.To[i]
		}
		return "alter " + a.Table + " rename " + strings.Join(parts, ", ")
	case "rename":
		return "rename " + a.Table + " to " + a.To[0]
	case "view":
		return "view " + a.Table + " = " + a.Def
	case "drop":
		return "drop " + a.Table
	}
	panic("dbgen: bad admin kind " + a.Kind)
}

func isDerivedName(c string) bool {
	return (c != "" && c[0] >= 'A' && c[0] <= 'Z') || strings.HasSuffix(c, "_lower!")
}

func splitCols(cols []string) (phys, derived []string) {
	for _, c := range cols {
		if isDerivedName(c) {
			derived = append(derived, c)
		} else {
			phys = append(phys, c)
		}
	}
	return
}

func isSystemTable(n string) bool {
	switch n {
	case "tables", "columns", "indexes", "views":
		return true
	}
	return false
}

// Expectation of the model about the verdict of a request.
type Expect int

const (
	Either Expect = iota
	MustAccept
	MustRefuse
)

func (e Expect) String() string { return [...]string{"either", "must-accept", "must-refuse"}[e] }

// ExpectAdmin says what the documentation unambiguously requires for the
// request in the current state (Either when the model does not commit
// itself).
func (w *World) ExpectAdmin(a *Admin) Expect {
	t := w.Tables[a.Table]
	switch a.Kind {
	case "create":
		if isSystemTable(a.Table) || t != nil {
			return MustRefuse
		}
		if simpleValidSchema(a) {
			return MustAccept
		}
	case "ensure":
		if isSystemTable(a.Table) {
			return MustRefuse
		}
		if t == nil && simpleValidSchema(a) {
			return MustAccept
		}
		if t != nil && w.newIndexViolated(t, a, true) {
			return MustRefuse
		}
	case "altercreate":
		if isSystemTable(a.Table) || t == nil {
			return MustRefuse
		}
		if w.newIndexViolated(t, a, false) {
			return MustRefuse
		}
	case "alterdrop", "alterrename":
		if isSystemTable(a.Table) || t == nil {
			return MustRefuse
		}
		if a.Kind == "alterrename" {
			// a column that an x_lower! column / index is based on cannot be
			// renamed (db19 630468b; before that the single rename was refused
			// by the final validation and the swap form was finding
			// C21/rename-lower-base)
			for _, f := range a.From {
				if slices.Contains(t.Derived, f+"_lower!") {
					return MustRefuse
				}
				for _, ix := range t.Idx {
					if slices.Contains(ix.Cols, f+"_lower!") {
						return MustRefuse
					}
				}
			}
		}
	case "rename":
		if isSystemTable(a.Table) || isSystemTable(a.To[0]) || t == nil || w.Tables[a.To[0]] != nil {
			return MustRefuse
		}
	case "view":
		if isSystemTable(a.Table) {
			return MustRefuse
		}
		if _, ok := w.Views[a.Table]; ok {
			return MustRefuse
		}
		return MustAccept
	case "drop":
		if isSystemTable(a.Table) {
			return MustRefuse
		}
		if _, ok := w.Views[a.Table]; ok {
			return MustAccept
		}
		if t == nil {
			return MustRefuse
		}
		if w.hasIncomingFromOthers(a.Table) {
			return MustRefuse
		}
		return MustAccept
	}
	return Either
}

// simpleValidSchema: distinct physical columns, at least one key, index
// columns among the columns, distinct indexes, no derived columns, no
// foreign keys.
func simpleValidSchema(a *Admin) bool {
	phys, der := splitCols(a.Cols)
	if len(der) > 0 || len(phys) == 0 {
		return false
	}
	seen := map[string]bool{}
	for _, c := range phys {
		if seen[c] || c == "-" {
			return false
		}
		seen[c] = true
	}
	haveKey := false
	heads := map[string]bool{}
	for _, ix := range a.Idx {
		if ix.Fk != nil {
			return false
		}
		if ix.Mode == 'k' {
			haveKey = true
		} else if len(ix.Cols) == 0 {
			return false
		}
		h := strings.Join(ix.Cols, ",")
		if heads[h] {
			return false
		}
		heads[h] = true
		cs := map[string]bool{}
		for _, c := range ix.Cols {
			if !seen[c] || cs[c] {
				return false
			}
			cs[c] = true
		}
	}
	return haveKey
}

// newIndexViolated: the request adds a key / unique index that the existing
// rows violate, or a foreign key that an existing row violates (building the
// index must be refused).
func (w *World) newIndexViolated(t *Table, a *Admin, ensure bool) bool {
	if len(t.Rows) == 0 {
		return false
	}
	phys, _ := splitCols(a.Cols)
	have := func(c string) bool {
		base := strings.TrimSuffix(c, "_lower!")
		return slices.Contains(t.Cols, base) || slices.Contains(phys, base)
	}
	for _, ix := range a.Idx {
		if t.findIndex(ix.Cols) >= 0 {
			continue // ensure: ignored; alter create: refused anyway, not our business
		}
		ok := true
		for _, c := range ix.Cols {
			if !have(c) || c == "-" {
				ok = false
			}
		}
		if !ok {
			continue
		}
		if ix.Mode == 'k' || ix.Mode == 'u' {
			seen := map[string]bool{}
			for _, r := range t.Rows {
				tu := tuple(r, ix.Cols)
				if ix.Mode == 'u' && allEmpty(tu) {
					continue
				}
				k := fmt.Sprint(tu)
				if seen[k] {
					return true
				}
				seen[k] = true
			}
		}
		if ix.Fk != nil && len(ix.Fk.Cols) == len(ix.Cols) {
			tt := w.Tables[ix.Fk.Table]
			if tt == nil || tt.findIndex(ix.Fk.Cols) < 0 {
				continue
			}
			for _, r := range t.Rows {
				tu := tuple(r, ix.Cols)
				if allEmpty(tu) {
					continue
				}
				if !tt.hasKey(ix.Fk.Cols, tu) {
					return true
				}
			}
		}
	}
	return false
}

func (t *Table) hasKey(cols []string, vals []Val) bool {
	for _, r := range t.Rows {
		if eqTuple(tuple(r, cols), vals) {
			return true
		}
	}
	return false
}

// ApplyAdmin applies the effect of an *accepted* request to the model.
func (w *World) ApplyAdmin(a *Admin) {
	w.Stats.AdminAccepted++
	defer func() {
		if t := w.Tables[a.Table]; t != nil && (a.Kind == "create" || a.Kind == "ensure" || a.Kind == "altercreate") {
			t.noteIndexNames()
		}
	}()
	t := w.Tables[a.Table]
	phys, der := splitCols(a.Cols)
	switch a.Kind {
	case "create":
		w.Tables[a.Table] = &Table{Name: a.Table, Cols: phys, Derived: der, Idx: cloneIdx(a.Idx)}
	case "ensure":
		if t == nil {
			w.Tables[a.Table] = &Table{Name: a.Table, Cols: phys, Derived: der, Idx: cloneIdx(a.Idx)}
			return
		}
		changed := false
		for _, c := range phys {
			if !slices.Contains(t.Cols, c) {
				t.Cols = append(t.Cols, c)
				changed = true
			}
		}
		for _, c := range der {
			if !slices.Contains(t.Derived, c) {
				t.Derived = append(t.Derived, c)
				changed = true
			}
		}
		for _, ix := range a.Idx {
			if t.findIndex(ix.Cols) < 0 {
				t.Idx = append(t.Idx, cloneIndex(ix))
				changed = true
				t.markBuilt()
			}
		}
		if changed {
		}
	case "altercreate":
		t.Cols = append(t.Cols, phys...)
		t.Derived = append(t.Derived, der...)
		t.Idx = append(t.Idx, cloneIdx(a.Idx)...)
		if len(a.Idx) > 0 {
			t.markBuilt()
		}
	case "alterdrop":
		touchesFk := false
		for _, dx := range a.Idx {
			if i := t.findIndex(dx.Cols); i >= 0 {
				if t.Idx[i].Fk != nil || len(w.incoming(t.Name, t.Idx[i].Cols)) > 0 {
					touchesFk = true
				}
				t.Idx = slices.Delete(t.Idx, i, i+1)
			}
		}
		if touchesFk || (len(a.Idx) > 0 && w.fkSide(t.Name)) {
			w.Stats.FkTouch++
		}
		for _, c := range phys {
			if i := slices.Index(t.Cols, c); i >= 0 && c != "-" {
				t.Cols[i] = "-"
				for _, r := range t.Rows {
					delete(r, c)
				}
			} else if j := slices.Index(t.Derived, capitalize(c)); j >= 0 {
				t.Derived = slices.Delete(t.Derived, j, j+1)
			}
		}
		for _, c := range der {
			if j := slices.Index(t.Derived, c); j >= 0 {
				t.Derived = slices.Delete(t.Derived, j, j+1)
			}
		}
	case "alterrename":
		if w.fkSide(t.Name) {
			w.Stats.FkTouch++
		}
		w.Stats.Renames++
		w.Stats.DropSinceOpen++
		for i := range a.From {
			w.renameCol(t, a.From[i], a.To[i])
		}
	case "rename":
		if w.fkSide(t.Name) {
			w.Stats.FkTouch++
		}
		w.Stats.Renames++
		w.Stats.DropSinceOpen++
		to := a.To[0]
		delete(w.Tables, t.Name)
		for _, o := range w.Tables {
			for i := range o.Idx {
				if o.Idx[i].Fk != nil && o.Idx[i].Fk.Table == t.Name {
					o.Idx[i].Fk.Table = to
				}
			}
		}
		for i := range t.Idx {
			if t.Idx[i].Fk != nil && t.Idx[i].Fk.Table == t.Name {
				t.Idx[i].Fk.Table = to
			}
		}
		t.Name = to
		w.Tables[to] = t
	case "view":
		w.Views[a.Table] = a.Def
	case "drop":
		if _, ok := w.Views[a.Table]; ok {
			delete(w.Views, a.Table)
			w.Stats.ViewDrops++
			return
		}
		if w.fkSide(a.Table) {
			w.Stats.FkTouch++
		}
		w.Stats.Drops++
		w.Stats.DropSinceOpen++
		delete(w.Tables, a.Table)
	}
}

func capitalize(s string) string {
	if s != "" && s[0] >= 'a' && s[0] <= 'z' {
		return string(s[0]-32) + s[1:]
	}
	return s
}

func cloneIdx(idx []Index) []Index {
	r := make([]Index, len(idx))
	for i := range idx {
		r[i] = cloneIndex(idx[i])
		if r[i].Fk != nil && r[i].Fk.Cols == nil {
			r[i].Fk.Cols = slices.Clone(r[i].Cols)
		}
	}
	return r
}

func replace1(list []string, from, to string) {
	for i := range list {
		if list[i] == from {
			list[i] = to
		}
	}
}

// renameCol renames a column of t: the column itself, every index column of
// that name, foreign keys of other tables (and of t itself) that name it as a
// target column, and the values of the rows.
func (w *World) renameCol(t *Table, from, to string) {
	if from == to {
		return
	}
	replace1(t.Cols, from, to)
	replace1(t.Derived, from, to)
	for i := range t.Idx {
		replace1(t.Idx[i].Cols, from, to)
	}
	for _, o := range w.Tables {
		for i := range o.Idx {
			if fk := o.Idx[i].Fk; fk != nil && fk.Table == t.Name {
				replace1(fk.Cols, from, to)
			}
		}
	}
	if !isDerivedName(from) {
		for _, r := range t.Rows {
			if v, ok := r[from]; ok {
				delete(r, from)
				r[to] = v
			}
		}
	}
}

// HasEmptyCompositeFk reports whether some row has an empty last value (or
// all-empty values) in a foreign key of two or more columns under a non-key
// index (legal; the full database check is known to complain about it:
// known findings C12/truncfunc-*).
func (w *World) HasEmptyCompositeFk() bool {
	for _, t := range w.Tables {
		for _, ix := range t.Idx {
			if ix.Fk == nil || len(ix.Fk.Cols) < 2 || ix.Mode == 'k' {
				continue
			}
			n := min(len(ix.Cols), len(ix.Fk.Cols))
			for _, r := range t.Rows {
				if colVal(r, ix.Cols[n-1]).IsEmpty() {
					return true
				}
			}
		}
	}
	return false
}

// markBuilt records that an index was built over the existing rows of t.
func (t *Table) markBuilt() {
	if len(t.Rows) > 0 {
		t.built = true
		t.atBuild = t.ids()
	}
}

// MarkStateWritten tells the model that the database has written a state
// (explicit persist that wrote, or close).
func (w *World) MarkStateWritten() {
	for _, t := range w.Tables {
		t.base = t.ids()
		t.built = false
		t.atBuild = nil
	}
}

// MarkReopened tells the model that the database was closed and opened
// again (in-memory leftovers are gone).
func (w *World) MarkReopened() {
	w.MarkStateWritten()
	for _, t := range w.Tables {
		t.stale = nil
		t.noteIndexNames()
	}
}

// AdoptData takes over tables, views and the row counter of a scratch copy
// (commit of a transaction that was simulated on the copy).
func (w *World) AdoptData(scratch *World) {
	w.Tables, w.Views, w.seq = scratch.Tables, scratch.Views, scratch.seq
}
