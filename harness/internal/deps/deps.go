// Package deps pins the harness's third-party modules so `go mod tidy`
// keeps them in go.mod while engines are being built.
package deps

import (
	_ "github.com/anishathalye/porcupine"
	_ "pgregory.net/rapid"
)
