// Package ev collects and writes the evidence file of one check run.
//
// A test creates one Rec per property (ev.New), calls Case for every generated
// case (with a canonical description used for the distinct count when the
// case is non-trivial by the property's stated rule), Label for generator
// distribution counters, and Write at the end (deferred). When several
// processes shard one check, each writes a part file (VERIF_EVIDENCE_PART) and
// the driver merges them.
package ev

import (
	"encoding/json"
	"fmt"
	"hash/fnv"
	"os"
	"sort"
	"strconv"
	"sync"
	"time"
)

const maxHashes = 400000
const samplesPerClass = 3

type Rec struct {
	mu          sync.Mutex
	ID          string
	Level       string
	Rule        string
	Assumptions []string
	start       time.Time
	evals       int64
	hashes      map[uint64]struct{}
	overflowNT  int64 // non-trivial cases seen after the hash set was full (not counted as distinct)
	labels      map[string]int64
	samples     map[string][]any
	sampleOrder []string
	excluded    map[string]int64
	extra       map[string]any
	violations  int
	knownLines  map[string]bool
	noCount     bool
}

func New(id, rule string) *Rec {
	return &Rec{ID: id, Level: "exploration", Rule: rule, start: time.Now(),
		hashes: map[uint64]struct{}{}, labels: map[string]int64{},
		samples: map[string][]any{}, excluded: map[string]int64{},
		extra: map[string]any{}, knownLines: map[string]bool{}}
}

func Tier() string {
	if os.Getenv("VERIF_TIER") == "thorough" {
		return "thorough"
	}
	return "quick"
}

func Thorough() bool { return Tier() == "thorough" }

func Seed() int64 {
	n, _ := strconv.ParseInt(os.Getenv("VERIF_SEED"), 10, 64)
	return n
}

// Shard returns this process's shard index and the shard count.
func Shard() (int, int) {
	i, _ := strconv.Atoi(os.Getenv("VERIF_SHARD"))
	n, _ := strconv.Atoi(os.Getenv("VERIF_NSHARDS"))
	if n < 1 {
		n = 1
	}
	return i, n
}

func Hash(s string) uint64 {
	h := fnv.New64a()
	h.Write([]byte(s))
	return h.Sum64()
}

// Pause stops counting (used while rapid shrinks or replays).
func (r *Rec) Pause(b bool) { r.mu.Lock(); r.noCount = b; r.mu.Unlock() }

// Case records one evaluated case. canon is a canonical rendering of the
// case; it is hashed into the distinct set only if nontrivial.
func (r *Rec) Case(nontrivial bool, canon string) {
	r.mu.Lock()
	defer r.mu.Unlock()
	if r.noCount {
		return
	}
	r.evals++
	if nontrivial {
		r.labels["nontrivial"]++
		if len(r.hashes) < maxHashes {
			r.hashes[Hash(canon)] = struct{}{}
		} else {
			r.overflowNT++
		}
	}
}

// Evals adds n evaluations that are not individually classified.
func (r *Rec) Evals(n int) {
	r.mu.Lock()
	if !r.noCount {
		r.evals += int64(n)
	}
	r.mu.Unlock()
}

// Distinct adds a non-trivial distinct item without counting an evaluation.
func (r *Rec) Distinct(canon string) {
	r.mu.Lock()
	defer r.mu.Unlock()
	if r.noCount {
		return
	}
	if len(r.hashes) < maxHashes {
		r.hashes[Hash(canon)] = struct{}{}
	} else {
		r.overflowNT++
	}
}

func (r *Rec) Label(name string) { r.LabelN(name, 1) }

func (r *Rec) LabelN(name string, n int) {
	r.mu.Lock()
	if !r.noCount {
		r.labels[name] += int64(n)
	}
	r.mu.Unlock()
}

func (r *Rec) LabelIf(cond bool, name string) {
	if cond {
		r.Label(name)
	}
}

// Sample keeps the first few cases of each class.
func (r *Rec) Sample(class string, v any) {
	r.mu.Lock()
	defer r.mu.Unlock()
	if r.noCount {
		return
	}
	if _, ok := r.samples[class]; !ok {
		r.sampleOrder = append(r.sampleOrder, class)
	}
	if len(r.samples[class]) < samplesPerClass {
		r.samples[class] = append(r.samples[class], v)
	}
}

// WantSample reports whether another sample of class would be kept
// (lets callers avoid rendering expensive samples).
func (r *Rec) WantSample(class string) bool {
	r.mu.Lock()
	defer r.mu.Unlock()
	return !r.noCount && len(r.samples[class]) < samplesPerClass
}

func (r *Rec) Excluded(why string) {
	r.mu.Lock()
	if !r.noCount {
		r.excluded[why]++
	}
	r.mu.Unlock()
}

func (r *Rec) Set(key string, v any) { r.mu.Lock(); r.extra[key] = v; r.mu.Unlock() }

func (r *Rec) Violation() { r.mu.Lock(); r.violations++; r.mu.Unlock() }

// Known prints the KNOWN-FINDING line (once per distinct text).
func (r *Rec) Known(what string) {
	r.mu.Lock()
	defer r.mu.Unlock()
	if !r.knownLines[what] {
		r.knownLines[what] = true
		fmt.Printf("KNOWN-FINDING: property=%s %s\n", r.ID, what)
	}
}

type part struct {
	PropertyID  string           `json:"property_id"`
	Tier        string           `json:"tier"`
	Seed        int64            `json:"seed"`
	Level       string           `json:"level"`
	Rule        string           `json:"rule"`
	Assumptions []string         `json:"assumptions"`
	Evals       int64            `json:"evaluations"`
	Hashes      []uint64         `json:"hashes"`
	OverflowNT  int64            `json:"nontrivial_not_in_distinct_set"`
	Labels      map[string]int64 `json:"labels"`
	Excluded    map[string]int64 `json:"excluded"`
	Samples     []any            `json:"samples"`
	Extra       map[string]any   `json:"extra"`
	Violations  int              `json:"violations"`
	Known       []string         `json:"known"`
	WallS       float64          `json:"wall_s"`
}

// Write writes the part file named by VERIF_EVIDENCE_PART (merged by the
// driver). Without that variable it writes nothing (plain `go test` use).
func (r *Rec) Write() {
	path := os.Getenv("VERIF_EVIDENCE_PART")
	if path == "" {
		return
	}
	r.mu.Lock()
	defer r.mu.Unlock()
	p := part{PropertyID: r.ID, Tier: Tier(), Seed: Seed(), Level: r.Level,
		Rule: r.Rule, Assumptions: r.Assumptions, Evals: r.evals,
		OverflowNT: r.overflowNT, Labels: r.labels, Excluded: r.excluded,
		Extra: r.extra, Violations: r.violations,
		WallS: time.Since(r.start).Seconds()}
	for h := range r.hashes {
		p.Hashes = append(p.Hashes, h)
	}
	sort.Slice(p.Hashes, func(i, j int) bool { return p.Hashes[i] < p.Hashes[j] })
	for _, c := range r.sampleOrder {
		for _, s := range r.samples[c] {
			p.Samples = append(p.Samples, map[string]any{"class": c, "case": s})
		}
	}
	for k := range r.knownLines {
		p.Known = append(p.Known, k)
	}
	sort.Strings(p.Known)
	b, err := json.Marshal(p)
	if err != nil {
		fmt.Fprintln(os.Stderr, "ev: marshal:", err)
		// samples may contain unmarshalable values: retry without them
		p.Samples = []any{"(samples not serialisable: " + err.Error() + ")"}
		b, _ = json.Marshal(p)
	}
	tmp := path + ".tmp"
	if err := os.WriteFile(tmp, b, 0o644); err == nil {
		os.Rename(tmp, path)
	}
}
