package gen

import (
	"math/bits"

	"pgregory.net/rapid"
)

// rapid's IntRange / SampledFrom / SliceOfN lengths are deliberately biased
// towards small values (geometric bit length), so `IntRange(0,99) < 8` is
// true far more often than 8% of the time. For probabilities and weighted
// choices use these helpers, which build the number from unbiased Bool draws
// (still inside rapid, so shrinking and replay work; shrinks towards 0).

// Uniform draws an (almost exactly) uniform integer in [0, n).
func Uniform(t *rapid.T, label string, n int) int {
	if n <= 1 {
		return 0
	}
	k := bits.Len(uint(n - 1))
	v := 0
	bs := rapid.SliceOfN(rapid.Bool(), k+3, k+3).Draw(t, label)
	for _, b := range bs {
		v <<= 1
		if b {
			v |= 1
		}
	}
	return v % n
}

// Chance is true with probability percent/100.
func Chance(t *rapid.T, label string, percent int) bool {
	return Uniform(t, label, 100) < percent
}

// Weighted picks an index with probability proportional to its weight.
func Weighted(t *rapid.T, label string, weights []int) int {
	total := 0
	for _, w := range weights {
		total += w
	}
	if total <= 0 {
		return 0
	}
	x := Uniform(t, label, total)
	for i, w := range weights {
		if x < w {
			return i
		}
		x -= w
	}
	return len(weights) - 1
}

// Pick picks one of items uniformly.
func Pick[T any](t *rapid.T, label string, items []T) T {
	return items[Uniform(t, label, len(items))]
}
