// Package gen holds generators shared by the checks. Every generator draws
// only through rapid. Values come with an independent model (MV) so oracles
// need not ask the implementation what a value means.
package gen

import (
	"fmt"
	"math"
	"math/big"
	"strings"

	"github.com/apmckinlay/gsuneido/core"
	"github.com/apmckinlay/gsuneido/util/dnum"
	"pgregory.net/rapid"
)

type Kind int

const (
	KBool Kind = iota
	KNum
	KStr
	KDate
	KObj
)

// MV is a generated value with its model.
type MV struct {
	V    core.Value
	Kind Kind
	B    bool
	Rat  *big.Rat // finite numbers
	Inf  int      // -1 / +1 for infinities
	S    string   // strings
	D    [8]int   // y m d h mi s ms extra
	Repr string   // which internal representation was chosen
}

func (m MV) String() string {
	switch m.Kind {
	case KBool:
		return fmt.Sprint(m.B)
	case KNum:
		if m.Inf != 0 {
			return fmt.Sprintf("%s(%+dinf)", m.Repr, m.Inf)
		}
		return fmt.Sprintf("%s(%s)", m.Repr, m.V.String())
	case KStr:
		return fmt.Sprintf("%s(%q)", m.Repr, m.S)
	case KDate:
		return fmt.Sprintf("%s(%v)", m.Repr, m.D)
	}
	return fmt.Sprintf("%s(%s)", m.Repr, m.V.String())
}

var pow10 = func() [20]int64 {
	var p [20]int64
	p[0] = 1
	for i := 1; i < 19; i++ {
		p[i] = p[i-1] * 10
	}
	return p
}()

// Int64 is boundary weighted over the whole int64 range.
func Int64() *rapid.Generator[int64] {
	return rapid.Custom(func(t *rapid.T) int64 {
		switch rapid.IntRange(0, 9).Draw(t, "icls") {
		case 0:
			return rapid.Int64Range(-20, 20).Draw(t, "small")
		case 1: // around powers of two
			b := rapid.IntRange(0, 63).Draw(t, "bit")
			d := rapid.Int64Range(-3, 3).Draw(t, "d")
			var v int64
			if b == 63 {
				v = math.MinInt64
			} else {
				v = int64(1) << b
			}
			if rapid.Bool().Draw(t, "neg") && b != 63 {
				v = -v
			}
			return addSat(v, d)
		case 2: // around powers of ten
			e := rapid.IntRange(0, 18).Draw(t, "e")
			d := rapid.Int64Range(-3, 3).Draw(t, "d")
			v := pow10[e]
			if rapid.Bool().Draw(t, "neg") {
				v = -v
			}
			return addSat(v, d)
		case 3: // multiples of powers of ten (trailing zeros)
			e := rapid.IntRange(0, 18).Draw(t, "e")
			m := rapid.Int64Range(-9223, 9223).Draw(t, "m")
			hi, lo := bitsMul(m, pow10[e])
			if hi {
				return lo
			}
			return m
		case 4:
			return rapid.Int64Range(math.MinInt16-5, math.MaxInt16+5).Draw(t, "i16")
		case 5:
			return rapid.Int64Range(math.MinInt32-5, math.MaxInt32+5).Draw(t, "i32")
		case 6:
			return rapid.SampledFrom([]int64{math.MaxInt64, math.MinInt64, math.MaxInt64 - 1, math.MinInt64 + 1,
				9999999999999999, 10000000000000000, 99999999999999999, -9999999999999999, -10000000000000000}).Draw(t, "edge")
		default:
			return rapid.Int64().Draw(t, "any")
		}
	})
}

func addSat(v, d int64) int64 {
	if d > 0 && v > math.MaxInt64-d {
		return math.MaxInt64
	}
	if d < 0 && v < math.MinInt64-d {
		return math.MinInt64
	}
	return v + d
}

// bitsMul returns (ok, a*b) where ok means no overflow
func bitsMul(a, b int64) (bool, int64) {
	r := new(big.Int).Mul(big.NewInt(a), big.NewInt(b))
	if r.IsInt64() {
		return true, r.Int64()
	}
	return false, 0
}

// IntMV draws an int64 in one of its representations.
func IntMV() *rapid.Generator[MV] {
	return rapid.Custom(func(t *rapid.T) MV {
		n := Int64().Draw(t, "n")
		return IntAs(t, n)
	})
}

// IntAs picks a representation for the integer n.
func IntAs(t *rapid.T, n int64) MV {
	m := MV{Kind: KNum, Rat: new(big.Rat).SetInt64(n)}
	reprs := []string{"IntVal", "Int64Val", "SuInt64"}
	// an integer valued decimal is exact only up to 16 digits
	if dn := dnum.FromInt(n); func() bool { x, ok := dn.ToInt64(); return ok && x == n }() {
		reprs = append(reprs, "SuDnum")
	}
	switch r := rapid.SampledFrom(reprs).Draw(t, "repr"); r {
	case "IntVal":
		m.V, m.Repr = core.IntVal(int(n)), r
	case "Int64Val":
		m.V, m.Repr = core.Int64Val(n), r
	case "SuInt64":
		// SuInt64 cannot be built directly (unexported field); Int64Val gives it
		// outside the small-int range and at the two boundary values.
		m.V, m.Repr = core.Int64Val(n), r
	case "SuDnum":
		m.V, m.Repr = core.SuDnum{Dnum: dnum.FromInt(n)}, r
	}
	return m
}

// DnumParts draws sign, coefficient (1..16 digits, any trailing zeros) and the
// normalised exponent (value = 0.digits * 10^exp, -128..127).
func DnumParts(t *rapid.T) (int8, uint64, int) {
	sign := int8(1)
	if rapid.Bool().Draw(t, "neg") {
		sign = -1
	}
	nd := rapid.IntRange(1, 16).Draw(t, "ndigits")
	var coef uint64
	switch rapid.IntRange(0, 3).Draw(t, "ccls") {
	case 0:
		coef = uint64(pow10[nd-1])
	case 1:
		coef = uint64(pow10[nd]) - 1
	case 2:
		coef = rapid.Uint64Range(uint64(pow10[nd-1]), uint64(pow10[nd])-1).Draw(t, "coef")
	default:
		coef = rapid.Uint64Range(1, 99).Draw(t, "c2") * uint64(pow10[nd-1]) / 10
		if coef == 0 {
			coef = 1
		}
	}
	var exp int
	switch rapid.IntRange(0, 3).Draw(t, "ecls") {
	case 0:
		exp = rapid.IntRange(-3, 20).Draw(t, "exp")
	case 1:
		exp = rapid.IntRange(-128, -110).Draw(t, "exp")
	case 2:
		exp = rapid.IntRange(110, 127).Draw(t, "exp")
	default:
		exp = rapid.IntRange(-128, 127).Draw(t, "exp")
	}
	return sign, coef, exp
}

// RatOf gives the exact value of a finite dnum from its accessor parts:
// value = coef * 10^(exp-16) with coef normalised to 16 digits.
func RatOf(d dnum.Dnum) *big.Rat {
	if d.IsZero() {
		return new(big.Rat)
	}
	r := new(big.Rat).SetInt(new(big.Int).SetUint64(d.Coef()))
	e := d.Exp() - 16
	p := new(big.Int).Exp(big.NewInt(10), big.NewInt(int64(abs(e))), nil)
	if e >= 0 {
		r.Mul(r, new(big.Rat).SetInt(p))
	} else {
		r.Quo(r, new(big.Rat).SetInt(p))
	}
	if d.Sign() < 0 {
		r.Neg(r)
	}
	return r
}

func abs(x int) int {
	if x < 0 {
		return -x
	}
	return x
}

// Pow10Rat returns 10^e exactly.
func Pow10Rat(e int) *big.Rat {
	p := new(big.Int).Exp(big.NewInt(10), big.NewInt(int64(abs(e))), nil)
	r := new(big.Rat).SetInt(p)
	if e < 0 {
		r.Inv(r)
	}
	return r
}

// DnumMV draws a decimal (possibly infinite or zero) with its exact value,
// computed from the generated parts, not from the implementation.
func DnumMV() *rapid.Generator[MV] {
	return rapid.Custom(func(t *rapid.T) MV {
		switch rapid.IntRange(0, 19).Draw(t, "dcls") {
		case 0:
			return MV{Kind: KNum, V: core.SuDnum{Dnum: dnum.PosInf}, Inf: 1, Repr: "SuDnum"}
		case 1:
			return MV{Kind: KNum, V: core.SuDnum{Dnum: dnum.NegInf}, Inf: -1, Repr: "SuDnum"}
		case 2:
			return MV{Kind: KNum, V: core.SuDnum{Dnum: dnum.Zero}, Rat: new(big.Rat), Repr: "SuDnum"}
		}
		sign, coef, iexp := DnumParts(t)
		// iexp is the exponent of the normalised form 0.d1d2... * 10^iexp (what Exp() returns);
		// dnum.New takes value = coef * 10^(exp-16), so exp = iexp + 16 - ndigits
		nd := len(fmt.Sprint(coef))
		d := dnum.New(sign, coef, iexp+16-nd)
		m := MV{Kind: KNum, V: core.SuDnum{Dnum: d}, Repr: "SuDnum"}
		r := new(big.Rat).SetInt(new(big.Int).SetUint64(coef))
		r.Mul(r, Pow10Rat(iexp-nd))
		if sign < 0 {
			r.Neg(r)
		}
		m.Rat = r
		return m
	})
}

// NumMV draws any number.
func NumMV() *rapid.Generator[MV] {
	return rapid.OneOf(IntMV(), IntMV(), DnumMV())
}

// StrMV draws a string in one of its representations.
func StrMV() *rapid.Generator[MV] {
	return rapid.Custom(func(t *rapid.T) MV {
		var s string
		switch rapid.IntRange(0, 5).Draw(t, "scls") {
		case 0:
			s = ""
		case 1:
			s = rapid.StringMatching(`[a-c]{0,3}`).Draw(t, "s")
		case 2:
			s = string(rapid.SliceOfN(rapid.SampledFrom([]byte{0, 1, 2, 3, 4, 5, 6, 7, 'a', 'b', 0xff, 0x80, '"', '\'', '\\', '`', '\n'}), 0, 6).Draw(t, "sb"))
		case 3:
			s = string(rapid.SliceOfN(rapid.Byte(), 0, 40).Draw(t, "bytes"))
		case 4:
			n := rapid.IntRange(250, 300).Draw(t, "n")
			s = strings.Repeat(rapid.StringMatching(`[a-c]`).Draw(t, "c"), n) + rapid.StringMatching(`[a-c]{0,2}`).Draw(t, "tail")
		default:
			s = rapid.String().Draw(t, "utf8")
		}
		return StrAs(t, s)
	})
}

func StrAs(t *rapid.T, s string) MV {
	m := MV{Kind: KStr, S: s}
	switch rapid.IntRange(0, 2).Draw(t, "srepr") {
	case 0:
		m.V, m.Repr = core.SuStr(s), "SuStr"
	case 1:
		k := rapid.IntRange(0, len(s)).Draw(t, "cut")
		c := core.NewSuConcat().Add(s[:k]).Add(s[k:])
		m.V, m.Repr = c, "SuConcat"
	default:
		m.V, m.Repr = core.NewSuExcept(&core.Thread{}, core.SuStr(s)), "SuExcept"
	}
	return m
}

func daysIn(y, m int) int {
	switch m {
	case 4, 6, 9, 11:
		return 30
	case 2:
		if y%4 == 0 && (y%100 != 0 || y%400 == 0) {
			return 29
		}
		return 28
	}
	return 31
}

// DateMV draws a valid date or timestamp (extra != 0).
func DateMV() *rapid.Generator[MV] {
	return rapid.Custom(func(t *rapid.T) MV {
		y := rapid.OneOf(rapid.IntRange(1700, 2999), rapid.SampledFrom([]int{1700, 1899, 1900, 1999, 2000, 2024, 2100, 2999})).Draw(t, "y")
		mo := rapid.IntRange(1, 12).Draw(t, "mo")
		d := rapid.OneOf(rapid.IntRange(1, daysIn(y, mo)), rapid.Just(daysIn(y, mo)), rapid.Just(1)).Draw(t, "d")
		var h, mi, s, ms int
		if rapid.IntRange(0, 3).Draw(t, "hastime") != 0 {
			h = rapid.OneOf(rapid.IntRange(0, 23), rapid.Just(23), rapid.Just(0)).Draw(t, "h")
			mi = rapid.OneOf(rapid.IntRange(0, 59), rapid.Just(59)).Draw(t, "mi")
			s = rapid.OneOf(rapid.IntRange(0, 59), rapid.Just(59)).Draw(t, "s")
			ms = rapid.OneOf(rapid.IntRange(0, 999), rapid.Just(999), rapid.Just(0)).Draw(t, "ms")
		}
		extra := 0
		if rapid.IntRange(0, 2).Draw(t, "ts") == 0 {
			extra = rapid.OneOf(rapid.IntRange(1, 255), rapid.Just(1), rapid.Just(255)).Draw(t, "extra")
		}
		m := MV{Kind: KDate, D: [8]int{y, mo, d, h, mi, s, ms, extra}}
		if extra == 0 {
			m.V, m.Repr = core.NewDate(y, mo, d, h, mi, s, ms), "SuDate"
		} else {
			lit := fmt.Sprintf("#%04d%02d%02d.%02d%02d%02d%03d%03d", y, mo, d, h, mi, s, ms, extra)
			m.V, m.Repr = core.DateFromLiteral(lit), "SuTimestamp"
			if _, ok := m.V.(core.SuTimestamp); !ok {
				panic("DateFromLiteral did not give a timestamp for " + lit)
			}
		}
		return m
	})
}

func BoolMV() *rapid.Generator[MV] {
	return rapid.Custom(func(t *rapid.T) MV {
		b := rapid.Bool().Draw(t, "b")
		return MV{Kind: KBool, B: b, V: core.SuBool(b), Repr: "SuBool"}
	})
}

// ScalarMV draws a boolean, number, string or date.
func ScalarMV() *rapid.Generator[MV] {
	return rapid.OneOf(BoolMV(), IntMV(), DnumMV(), StrMV(), DateMV())
}

// CmpModel orders two scalar models: type rank first, then value. It is
// written from the documented order (bool < number < string < date), not
// from the implementation.
func CmpModel(a, b MV) int {
	if a.Kind != b.Kind {
		return sgn(int(a.Kind) - int(b.Kind))
	}
	switch a.Kind {
	case KBool:
		return sgn(b2i(a.B) - b2i(b.B))
	case KNum:
		if a.Inf != 0 || b.Inf != 0 {
			return sgn(a.Inf - b.Inf)
		}
		return a.Rat.Cmp(b.Rat)
	case KStr:
		return strings.Compare(a.S, b.S)
	case KDate:
		for i := range a.D {
			if a.D[i] != b.D[i] {
				return sgn(a.D[i] - b.D[i])
			}
		}
		return 0
	}
	panic("CmpModel: not scalar")
}

func sgn(x int) int {
	if x < 0 {
		return -1
	}
	if x > 0 {
		return 1
	}
	return 0
}

func b2i(b bool) int {
	if b {
		return 1
	}
	return 0
}

// Sgn is exported for oracles.
func Sgn(x int) int { return sgn(x) }

// ObjMV draws a nested object or record of scalars (depth <= depth).
func ObjMV(depth int) *rapid.Generator[MV] {
	return rapid.Custom(func(t *rapid.T) MV {
		return objMV(t, depth)
	})
}

func objMV(t *rapid.T, depth int) MV {
	isRec := rapid.IntRange(0, 2).Draw(t, "isrec") == 0
	var ob *core.SuObject
	var rec *core.SuRecord
	if isRec {
		rec = core.NewSuRecord()
	} else {
		ob = &core.SuObject{}
	}
	put := func(k, v core.Value) {
		if isRec {
			rec.Set(k, v)
		} else {
			ob.Set(k, v)
		}
	}
	add := func(v core.Value) {
		if isRec {
			rec.Add(v)
		} else {
			ob.Add(v)
		}
	}
	elem := func(label string) core.Value {
		if depth > 0 && rapid.IntRange(0, 4).Draw(t, label+"nest") == 0 {
			return objMV(t, depth-1).V
		}
		return ScalarMV().Draw(t, label).V
	}
	nl := rapid.IntRange(0, 4).Draw(t, "nlist")
	for i := 0; i < nl; i++ {
		add(elem(fmt.Sprintf("l%d", i)))
	}
	nn := rapid.IntRange(0, 4).Draw(t, "nnamed")
	for i := 0; i < nn; i++ {
		var k core.Value
		if isRec || rapid.Bool().Draw(t, "strkey") {
			k = core.SuStr(rapid.StringMatching(`[a-d]{1,2}`).Draw(t, "key"))
		} else {
			k = ScalarMV().Draw(t, "key").V
		}
		put(k, elem(fmt.Sprintf("n%d", i)))
	}
	if isRec {
		return MV{Kind: KObj, V: rec, Repr: "SuRecord"}
	}
	return MV{Kind: KObj, V: ob, Repr: "SuObject"}
}
