// Package kf reads /verif/known_findings.json (never written at run time).
//
// An entry with status "known" names a specific failing input class of one
// property; checks exclude that class by construction (counting what they
// excluded), print one KNOWN-FINDING line and keep searching. An entry with
// status "fixed" suppresses nothing.
package kf

import (
	"encoding/json"
	"os"
	"path/filepath"
	"runtime"
)

type Entry struct {
	Property string `json:"property"`
	Key      string `json:"key"`    // identifier used by the check to match the failing class
	Status   string `json:"status"` // "known" | "fixed"
	What     string `json:"what"`
	Commit   string `json:"commit,omitempty"`
}

var entries []Entry
var loaded bool

func file() string {
	if p := os.Getenv("VERIF_KNOWN_FINDINGS"); p != "" {
		return p
	}
	_, f, _, _ := runtime.Caller(0)
	// harness/internal/kf/kf.go -> /verif/known_findings.json
	return filepath.Join(filepath.Dir(f), "..", "..", "..", "known_findings.json")
}

func load() {
	if loaded {
		return
	}
	loaded = true
	b, err := os.ReadFile(file())
	if err != nil {
		return
	}
	var doc struct {
		Findings []Entry `json:"findings"`
	}
	if json.Unmarshal(b, &doc) == nil {
		entries = doc.Findings
	}
}

// Known returns the entry if (property,key) is listed with status "known".
func Known(property, key string) (Entry, bool) {
	load()
	for _, e := range entries {
		if e.Property == property && e.Key == key && e.Status == "known" {
			return e, true
		}
	}
	return Entry{}, false
}

// All returns the "known" entries of a property.
func All(property string) []Entry {
	load()
	var r []Entry
	for _, e := range entries {
		if e.Property == property && e.Status == "known" {
			r = append(r, e)
		}
	}
	return r
}
