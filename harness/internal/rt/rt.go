// Package rt holds the glue between rapid, the evidence recorder and the
// driver: case counts per tier, sub-property runs, failure markers.
package rt

import (
	"flag"
	"fmt"
	"os"
	"strconv"
	"testing"

	"pgregory.net/rapid"
	"verifharness/internal/ev"
)

// N returns the number of rapid cases for the current tier, scaled by the
// optional VERIF_SCALE factor (debugging aid).
func N(quick, thorough int) int {
	n := quick
	if ev.Thorough() {
		n = thorough
	}
	if s := os.Getenv("VERIF_SCALE"); s != "" {
		if f, err := strconv.ParseFloat(s, 64); err == nil {
			n = int(float64(n) * f)
		}
	}
	if n < 1 {
		n = 1
	}
	return n
}

// Replaying reports whether this process replays a saved failure.
func Replaying() bool {
	f := flag.Lookup("rapid.failfile")
	return (f != nil && f.Value.String() != "") || os.Getenv("VERIF_REPLAY") != ""
}

// Check runs prop as the sub-test sub of t with quick/thorough (per shard)
// case counts. A failure is marked for the driver.
func Check(t *testing.T, rec *ev.Rec, sub string, quick, thorough int, prop func(*rapid.T)) bool {
	t.Helper()
	flag.Set("rapid.checks", strconv.Itoa(N(quick, thorough)))
	ok := t.Run(sub, func(t *testing.T) {
		rapid.Check(t, prop)
	})
	if !ok {
		rec.Violation()
		fmt.Printf("VERIF-FAIL property=%s sub=%s\n", rec.ID, sub)
	}
	return ok
}

// Fail reports a violation found outside rapid (recorded-history oracles,
// enumerations). replayPath may be "" when the test could not write one.
func Fail(t testing.TB, rec *ev.Rec, sub, replayPath, msg string) {
	t.Helper()
	rec.Violation()
	fmt.Printf("VERIF-FAIL property=%s sub=%s replay=%s\n", rec.ID, sub, replayPath)
	t.Errorf("%s: %s", sub, msg)
}

// ReplayOut returns a path in the directory where the driver collects
// replay artefacts written by the test itself (histories, journals).
func ReplayOut(name string) string {
	d := os.Getenv("VERIF_REPLAY_OUT")
	if d == "" {
		d = os.TempDir()
	}
	return d + "/" + name
}
