package lang

import (
	"fmt"
	"math"
	"math/big"
	"testing"

	"github.com/apmckinlay/gsuneido/core"
	"pgregory.net/rapid"
	"verifharness/internal/ev"
	"verifharness/internal/gen"
	"verifharness/internal/kf"
	"verifharness/internal/rt"
)

// --- generators --------------------------------------------------------------

func mvOfDspec(s dspec) gen.MV {
	d, x := s.build()
	return gen.MV{Kind: gen.KNum, V: core.SuDnum{Dnum: d}, Rat: x.r, Inf: x.inf, Repr: "SuDnum"}
}

// decimals in the range programs compute in; the exponent limits of the
// decimal type are the subject of C27 (and of its known findings), not of C26
func c26Dec(t *rapid.T, label string) gen.MV {
	s := dspec{neg: rapid.Bool().Draw(t, label+"neg")}
	switch gen.Uniform(t, label+"dcls", 25) {
	case 11:
		return mvOfDspec(dspec{inf: 1})
	case 12:
		return mvOfDspec(dspec{inf: -1})
	case 13:
		return mvOfDspec(dspec{})
	case 14, 15, 16:
		s.e = -60 + gen.Uniform(t, label+"e", 121)
	default:
		s.e = -8 + gen.Uniform(t, label+"e", 31)
	}
	s.coef = genCoef(t, label)
	return mvOfDspec(s)
}

func clampInt64(b *big.Int) int64 {
	if b.Cmp(maxInt64) > 0 {
		return math.MaxInt64
	}
	if b.Cmp(minInt64) < 0 {
		return math.MinInt64
	}
	return b.Int64()
}

var c26PairClasses = []string{"int_int", "add_edge", "mul_edge", "pow2", "div_edge", "int_dec", "dec_int", "dec_dec",
	"same_value", "near16", "toint_edge", "small"}

// c26Pair draws two numbers; the integer pairs are aimed at the int64 limits.
func c26Pair(t *rapid.T) (a, b gen.MV, cls string) {
	cls = gen.Pick(t, "pcls", c26PairClasses)
	bi := func(n int64) *big.Int { return big.NewInt(n) }
	switch cls {
	case "int_int":
		a, b = intMV(t, "a"), intMV(t, "b")
	case "small":
		a = intAs(t, rapid.Int64Range(-40000, 40000).Draw(t, "a"))
		b = intAs(t, rapid.Int64Range(-40000, 40000).Draw(t, "b"))
	case "add_edge": // a+b or a-b lands within ±3 of an int64 limit
		x := genInt64(t, "x")
		lim := maxInt64
		if rapid.Bool().Draw(t, "low") {
			lim = minInt64
		}
		y := new(big.Int).Sub(lim, bi(x))
		if rapid.Bool().Draw(t, "forsub") {
			y.Neg(y)
		}
		y.Add(y, bi(rapid.Int64Range(-3, 3).Draw(t, "d")))
		a, b = intAs(t, x), intAs(t, clampInt64(y))
	case "mul_edge": // a*b lands next to ±2^63
		x := []*rapid.Generator[int64]{rapid.Int64Range(2, 1<<20), rapid.Int64Range(1<<20, 1<<42), rapid.Int64Range(3037000400, 3037000600)}[gen.Uniform(t, "xcls", 3)].Draw(t, "x")
		if rapid.Bool().Draw(t, "xneg") {
			x = -x
		}
		lim := maxInt64
		if rapid.Bool().Draw(t, "low") {
			lim = minInt64
		}
		y := new(big.Int).Quo(lim, bi(x))
		y.Add(y, bi(rapid.Int64Range(-2, 2).Draw(t, "d")))
		a, b = intAs(t, x), intAs(t, clampInt64(y))
	case "pow2": // products that wrap to 0 or MinInt64
		i := gen.Uniform(t, "i", 63)
		j := gen.Pick(t, "sum", []int{62, 63, 64, 65}) - i
		j = max(0, min(62, j))
		x, y := int64(1)<<i, int64(1)<<j
		if rapid.Bool().Draw(t, "xneg") {
			x = -x
		}
		if rapid.Bool().Draw(t, "yneg") {
			y = -y
		}
		a, b = intAs(t, x), intAs(t, y)
	case "div_edge":
		switch gen.Uniform(t, "dcls", 4) {
		case 0:
			a, b = intAs(t, math.MinInt64), intAs(t, gen.Pick(t, "y", []int64{-1, 1, -2, 2}))
		case 1: // divisible
			y := rapid.Int64Range(-1000, 1000).Draw(t, "y")
			if rapid.Bool().Draw(t, "ybig") {
				y = genInt64(t, "y")
			}
			if y == 0 {
				y = 7
			}
			q := rapid.Int64Range(-3000000, 3000000).Draw(t, "q")
			p := new(big.Int).Mul(bi(y), bi(q))
			if !p.IsInt64() {
				p = bi(y)
			}
			a, b = intAs(t, p.Int64()), intAs(t, y)
		case 2: // zero divisor / zero dividend
			a, b = intMV(t, "a"), intAs(t, 0)
			if rapid.Bool().Draw(t, "swap") {
				a, b = b, a
			}
		default:
			a, b = intMV(t, "a"), intAs(t, rapid.Int64Range(-12, 12).Draw(t, "y"))
		}
	case "int_dec":
		a, b = intMV(t, "a"), c26Dec(t, "b")
	case "dec_int":
		a, b = c26Dec(t, "a"), intMV(t, "b")
	case "dec_dec":
		a, b = c26Dec(t, "a"), c26Dec(t, "b")
	case "same_value":
		n := genInt64(t, "n")
		a, b = intAs(t, n), intAs(t, n)
	case "near16": // a 16..19 digit integer and a number within a few units of its 16th digit
		nd := 16 + gen.Uniform(t, "nd", 4)
		hi := int64(math.MaxInt64)
		if nd < 19 {
			hi = int64(p10u[nd]) - 1
		}
		n := rapid.Int64Range(int64(p10u[nd-1]), hi).Draw(t, "n")
		if rapid.Bool().Draw(t, "nneg") {
			n = -n
		}
		a = intAs(t, n)
		unit := int64(p10u[nd-16])
		switch gen.Uniform(t, "ncls", 3) {
		case 0: // the 16 digit decimal next to n
			base := n / unit * unit
			mb := new(big.Int).Add(big.NewInt(base), new(big.Int).Mul(big.NewInt(unit), big.NewInt(rapid.Int64Range(-1, 2).Draw(t, "k"))))
			m := base
			if mb.IsInt64() && mb.Sign() == big.NewInt(n).Sign() {
				m = mb.Int64()
			}
			coef := new(big.Int).Abs(big.NewInt(m)).Uint64() / uint64(unit)
			for coef >= p10u[16] {
				coef /= 10
			}
			b = mvOfDspec(dspec{neg: m < 0, coef: coef, e: len(new(big.Int).Abs(big.NewInt(m)).String())})
		case 1:
			b = intAs(t, addClamp(n, rapid.Int64Range(-12, 12).Draw(t, "d")))
		default:
			b = intAs(t, addClamp(n, rapid.Int64Range(-2, 2).Draw(t, "d")*unit))
		}
		if rapid.Bool().Draw(t, "swap") {
			a, b = b, a
		}
	case "toint_edge": // the last 16-digit decimals below MaxInt64
		n := gen.Pick(t, "n", []int64{9223372036854775000, 9223372036854774000, -9223372036854775000, 9223372036854770000, 9223372036000000000})
		a = intAs(t, n)
		if rapid.Bool().Draw(t, "asdec") {
			// gen.IntAs offers SuDnum only if ToInt64 gives the value back: build it directly
			nz := new(big.Int).Abs(big.NewInt(n)).String()
			z := len(nz)
			for nz[z-1] == '0' {
				z--
			}
			var coef uint64
			fmt.Sscan(nz[:z], &coef)
			a = mvOfDspec(dspec{neg: n < 0, coef: coef, e: len(nz)})
		}
		b = []gen.MV{intMV(t, "b"), intAs(t, n), intAs(t, 7)}[gen.Uniform(t, "bcls", 3)]
		if rapid.Bool().Draw(t, "swap") {
			a, b = b, a
		}
	}
	return
}

func addClamp(n, d int64) int64 {
	return clampInt64(new(big.Int).Add(big.NewInt(n), big.NewInt(d)))
}

// altRepr re-draws the representation of an integer value.
func altRepr(t *rapid.T, m gen.MV) gen.MV {
	if m.Inf == 0 && m.Rat.IsInt() && m.Rat.Num().IsInt64() {
		return intAs(t, m.Rat.Num().Int64())
	}
	return m
}

// --- oracle --------------------------------------------------------------------

const (
	kfOverflow = "int-overflow-wraps"             // F2
	kfBeyond16 = "integer-decimal-beyond-16"      // integer valued decimals lose digits the integer path keeps
	kfLossyCmp = "int64-dnum-lossy-compare"       // F7
	kfToInt    = "dnum-toint64-rejects-last-thou" // ToInt64: coef < MaxInt64/1000
)

var c26Src = map[string]string{
	"+": "function(a,b){ a + b }", "-": "function(a,b){ a - b }", "*": "function(a,b){ a * b }",
	"/": "function(a,b){ a / b }", "%": "function(a,b){ a % b }", "neg": "function(a){ -a }",
	"<": "function(a,b){ a < b }", "<=": "function(a,b){ a <= b }", ">": "function(a,b){ a > b }",
	">=": "function(a,b){ a >= b }", "is": "function(a,b){ a is b }", "isnt": "function(a,b){ a isnt b }",
}

var c26Ops = []string{"+", "-", "*", "/", "%", "neg", "<", "<=", ">", ">=", "is", "isnt"}

func intSig(r *big.Rat) int { return sigDigits(r.Num()) }

// intLen: number of digits of the integer r (0 for 0)
func intLen(r *big.Rat) int {
	if r.Sign() == 0 {
		return 0
	}
	return len(new(big.Int).Abs(r.Num()).String())
}

// toIntEdge: the decimal ±9223372036854775000 (the only 16 digit decimal in
// (MaxInt64-808, MaxInt64]) which Dnum.ToInt64 refuses.
func toIntEdge(m gen.MV) bool {
	return m.Repr == "SuDnum" && m.Inf == 0 && m.Rat.IsInt() &&
		new(big.Int).Abs(m.Rat.Num()).Cmp(big.NewInt(9223372036854775000)) == 0
}

// lossyPair: an integer representation with more than 16 significant digits
// against a finite decimal closer than one unit of the integer's 16th digit.
func lossyPair(a, b gen.MV) bool {
	one := func(i, d gen.MV) bool {
		if !isIntRepr(i) || d.Repr != "SuDnum" || d.Inf != 0 || intSig(i.Rat) <= 16 {
			return false
		}
		unit := gen.Pow10Rat(decExp(i.Rat) - 16)
		diff := new(big.Rat).Sub(i.Rat, d.Rat)
		return diff.Abs(diff).Cmp(unit) < 0
	}
	return one(a, b) || one(b, a)
}

type c26Verdict struct {
	fail       string // violation text
	known      string // known finding key whose class the case belongs to
	class      string // label
	relax      bool   // judged by the relaxed rule because of a known finding / documented limit
	documented bool   // documented 16-digit limit of the decimal path (counted, not a finding)
	judged     bool
}

// decPathOK: got is the result of decimal arithmetic on the operands converted
// to 16-digit decimals (either neighbour for longer integers).
func decPathOK(op byte, x, y *big.Rat, got xnum) (bool, decVerdict) {
	var last decVerdict
	for _, x1 := range dec16(x) {
		for _, y1 := range dec16(y) {
			v := decArith(op, x1, y1, got)
			if v.ok {
				return true, v
			}
			last = v
		}
	}
	return false, last
}

func c26Arith(op byte, a, b gen.MV, r callResult, known map[string]bool) (v c26Verdict) {
	v.judged = true
	x, y := xOfMV(a), xOfMV(b)
	if r.rterr {
		v.fail = fmt.Sprintf("Go runtime error: %v", r.perr)
		return
	}
	if r.perr != nil {
		v.fail = fmt.Sprintf("raises %q", errText(r.perr))
		return
	}
	got, isnum := xOfValue(r.v)
	if !isnum {
		v.fail = fmt.Sprintf("result %v is not a number", r.v)
		return
	}
	if x.inf != 0 || y.inf != 0 || (op == '/' && y.r.Sign() == 0) {
		want, ok := infArith(op, x, y)
		if !ok {
			v.judged, v.class = false, "not_stated_inf_or_zero_divisor"
			return
		}
		v.class = "infinite_operand"
		if !xEqual(got, want) {
			v.fail = fmt.Sprintf("= %v, want %v", got, want)
		}
		return
	}
	e := decExact(op, x.r, y.r)
	// integers that exist in the integer representations too
	allInt := x.r.IsInt() && y.r.IsInt() && x.r.Num().IsInt64() && y.r.Num().IsInt64()
	bothIntRepr := isIntRepr(a) && isIntRepr(b)
	eFits := e.IsInt() && e.Num().IsInt64()
	exactly := func() {
		if !xEqual(got, xnum{r: e}) {
			v.fail = fmt.Sprintf("= %v (%T), want exactly %s", got, r.v, e.RatString())
		}
	}
	decimal := func() {
		ok, dv := decPathOK(op, x.r, y.r, got)
		if !ok {
			v.fail = fmt.Sprintf("= %v (%T), exact %s: not decimal arithmetic on the operands (%s, %.4g units)", got, r.v, sci(e), dv.class, dv.errU)
		}
		v.class += "_" + ulpClass(dv)
	}
	switch {
	case bothIntRepr && (op != '/' || e.IsInt()):
		if eFits {
			v.class = "intpath_fits"
			exactly()
		} else {
			v.class, v.known = "intpath_overflow", kfOverflow
			if known[kfOverflow] {
				v.judged = false // the wrapped value is not judged at all
				return
			}
			decimal()
		}
	case bothIntRepr:
		v.class = "intpath_div_inexact"
		decimal()
	case allInt && eFits:
		// below 10^16 every integer and every intermediate digit lies inside the
		// 16 digit window of a decimal, so the decimal path must be exact too
		if max(intLen(x.r), intLen(y.r), intLen(e)) <= 16 {
			v.class = "decpath_integers_le16"
			exactly()
		} else {
			// Documented limit, not a finding: suneidoc (Number, Introduction)
			// promises 16 digits of precision; an integer-valued *decimal*
			// operand takes the decimal path, whose result must be correctly
			// rounded (judged with the C27 bound) but need not be exact beyond
			// 10^16. Counted as excluded_documented by the caller.
			v.class = "decpath_integers_gt16"
			v.relax = true
			v.documented = true
			decimal()
		}
	default:
		v.class = "decpath"
		decimal()
	}
	return
}

type callResult struct {
	v     core.Value
	perr  any
	rterr bool
}

func c26Neg(a gen.MV, r callResult, known map[string]bool) (v c26Verdict) {
	v.judged = true
	if r.perr != nil {
		v.fail = fmt.Sprintf("raises %q", errText(r.perr))
		return
	}
	got, isnum := xOfValue(r.v)
	if !isnum {
		v.fail = fmt.Sprintf("result %v is not a number", r.v)
		return
	}
	x := xOfMV(a)
	want := xnum{inf: -x.inf}
	if x.inf == 0 {
		want.r = new(big.Rat).Neg(x.r)
	}
	v.class = "neg"
	if isIntRepr(a) && !want.r.Num().IsInt64() {
		v.class, v.known = "neg_overflow", kfOverflow
		if known[kfOverflow] {
			v.judged = false
			return
		}
		ok, _ := decPathOK('*', x.r, big.NewRat(-1, 1), got)
		if !ok {
			v.fail = fmt.Sprintf("= %v, exact %s", got, want)
		}
		return
	}
	if !xEqual(got, want) {
		v.fail = fmt.Sprintf("= %v, want %v", got, want)
	}
	return
}

func c26Mod(a, b gen.MV, r callResult, known map[string]bool) (v c26Verdict) {
	x, y := xOfMV(a), xOfMV(b)
	isI64 := func(n xnum) bool { return n.inf == 0 && n.r.IsInt() && n.r.Num().IsInt64() }
	if !isI64(x) || !isI64(y) {
		// conversion of non-integers / out of range values is not stated
		v.class = "mod_not_integer"
		if r.rterr {
			v.judged, v.fail = true, fmt.Sprintf("Go runtime error: %v", r.perr)
		}
		return
	}
	v.judged = true
	if y.r.Sign() == 0 {
		v.class = "mod_zero"
		if r.perr == nil {
			v.fail = fmt.Sprintf("= %v, want an error", r.v)
		}
		return
	}
	v.class = "mod"
	if toIntEdge(a) || toIntEdge(b) {
		v.class, v.known = "mod_toint_edge", kfToInt
		if known[kfToInt] {
			v.judged = false
			return
		}
	}
	if r.perr != nil {
		v.fail = fmt.Sprintf("raises %q", errText(r.perr))
		return
	}
	want := new(big.Int).Rem(x.r.Num(), y.r.Num()) // truncated: sign of the dividend
	got, isnum := xOfValue(r.v)
	if !isnum || got.inf != 0 || !got.r.IsInt() || got.r.Num().Cmp(want) != 0 {
		v.fail = fmt.Sprintf("= %v, want %s", r.v, want)
	}
	return
}

func c26Cmp(op string, a, b gen.MV, r callResult, known map[string]bool) (v c26Verdict) {
	v.judged = true
	v.class = "compare"
	if lossyPair(a, b) {
		v.class, v.known = "compare_lossy_pair", kfLossyCmp
		if known[kfLossyCmp] {
			v.judged = false
			return
		}
	}
	if (op == "is" || op == "isnt") && (toIntEdge(a) && isIntRepr(b) || toIntEdge(b) && isIntRepr(a)) {
		v.class, v.known = "equal_toint_edge", kfToInt
		if known[kfToInt] {
			v.judged = false
			return
		}
	}
	if r.perr != nil {
		v.fail = fmt.Sprintf("raises %q", errText(r.perr))
		return
	}
	c := xCmp(xOfMV(a), xOfMV(b))
	var want bool
	switch op {
	case "<":
		want = c < 0
	case "<=":
		want = c <= 0
	case ">":
		want = c > 0
	case ">=":
		want = c >= 0
	case "is":
		want = c == 0
	case "isnt":
		want = c != 0
	}
	if r.v != core.SuBool(want) {
		v.fail = fmt.Sprintf("= %v, want %v (exact order %d)", r.v, want, c)
	}
	return
}

func TestC26(t *testing.T) {
	rec := ev.New("C26", "rapid-generated operand pairs: boundary-weighted int64 values, pairs constructed so that a+b / a-b / a*b land within a few units of ±2^63 (and powers of two whose product wraps to 0), divisible pairs and MinInt64/-1, 16..19 digit integers next to a decimal, decimals over all coefficient classes; every integer value in a drawn representation (smi, SuInt64 incl. the two boundary values, integer-valued SuDnum); each pair goes through + - * / % unary- < <= > >= is isnt as arguments of compiled functions, and again with re-drawn representations of the same values. Non-trivial: a pair that involves SuInt64 or SuDnum (i.e. not two small ints); distinct by (a, b) rendering incl. representation.")
	rec.Assumptions = []string{
		"a result is read through IfInt / Dnum.Coef,Exp,Sign only",
		"decimal path = arithmetic within the C27 bounds on the operands converted to 16 digit decimals (either neighbour for a longer integer)",
		"% is the truncated remainder (sign of the dividend) of int64 operands; conversion of non-integers and the error raised for a zero divisor are not stated and only required not to be silent for zero",
		"results with an infinite operand or a zero divisor of / are judged only where mathematically unambiguous",
	}
	defer rec.Write()
	known := map[string]bool{}
	what := map[string]string{}
	for _, e := range kf.All("C26") {
		known[e.Key] = true
		what[e.Key] = e.What
	}
	c := newCaller()
	run := func(op string, args ...gen.MV) callResult {
		vals := make([]core.Value, len(args))
		for i, a := range args {
			vals[i] = a.V
		}
		v, perr, rterr := c.call(c26Src[op], vals...)
		return callResult{v, perr, rterr}
	}
	judge := func(op string, a, b gen.MV, r callResult) c26Verdict {
		switch op {
		case "+", "-", "*", "/":
			return c26Arith(op[0], a, b, r, known)
		case "%":
			return c26Mod(a, b, r, known)
		case "neg":
			return c26Neg(a, r, known)
		}
		return c26Cmp(op, a, b, r, known)
	}

	rt.Check(t, rec, "ops", 24000, 1200000, func(t *rapid.T) {
		a, b, cls := c26Pair(t)
		a2, b2 := altRepr(t, a), altRepr(t, b)
		rec.Label("pair_" + cls)
		rec.Label("repr_" + reprClass(a) + "_" + reprClass(b))
		for _, op := range c26Ops {
			var r, r2 callResult
			if op == "neg" {
				r, r2 = run(op, a), run(op, a2)
			} else {
				r, r2 = run(op, a, b), run(op, a2, b2)
			}
			desc := fmt.Sprintf("%v %s %v", a, op, b)
			if op == "neg" {
				desc = fmt.Sprintf("- %v", a)
			}
			v := judge(op, a, b, r)
			if v.known != "" {
				rec.Label("class_" + v.known)
				if known[v.known] {
					rec.Excluded(v.known)
					rec.Known(what[v.known])
				}
			}
			if v.documented {
				rec.Excluded("excluded_documented: integer-valued decimal operand beyond 16 digits (decimal path, correctly rounded)")
			}
			if v.fail != "" {
				t.Fatalf("%s %s", desc, v.fail)
			}
			rec.Label("op" + op + "_" + v.class)
			if v.judged && rec.WantSample("op"+op+"_"+v.class) {
				rec.Sample("op"+op+"_"+v.class, map[string]string{"case": desc, "result": fmt.Sprint(r.v), "error": errText(r.perr)})
			}
			// the same values in other representations
			v2 := judge(op, a2, b2, r2)
			if v2.fail != "" {
				t.Fatalf("%v %s %v %s", a2, op, b2, v2.fail)
			}
			// representation independence: where both evaluations were judged by
			// the strict rules the results must be the same number
			if v.judged && v2.judged && !v.relax && !v2.relax && r.perr == nil && r2.perr == nil {
				g1, ok1 := xOfValue(r.v)
				g2, ok2 := xOfValue(r2.v)
				same := ok1 == ok2 && (!ok1 && r.v == r2.v || ok1 && xEqual(g1, g2))
				// an integer result with more than 16 digits is exact on the integer
				// path only: that class is the known finding kfBeyond16 / kfOverflow
				if !same {
					t.Fatalf("%s = %v but with the same values as %v, %v = %v", desc, r.v, a2, b2, r2.v)
				}
				rec.LabelIf(a.Repr != a2.Repr || b.Repr != b2.Repr, "repr_independence_checked")
			}
		}
		nt := reprClass(a) != "smi" || reprClass(b) != "smi"
		rec.Case(nt, a.String()+"|"+b.String())
	})
}
