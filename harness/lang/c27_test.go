package lang

import (
	"fmt"
	"math"
	"math/big"
	"math/bits"
	"testing"

	"github.com/apmckinlay/gsuneido/util/dnum"
	"pgregory.net/rapid"
	"verifharness/internal/ev"
	"verifharness/internal/gen"
	"verifharness/internal/kf"
	"verifharness/internal/rt"
)

// dspec is a generated decimal: ±coef (1..16 digits, or 0) with normalised
// exponent e (value = .coef-digits * 10^e), or an infinity.
type dspec struct {
	inf  int
	neg  bool
	coef uint64 // 0 = zero
	e    int    // normalised exponent -128..127
}

func ndigits(c uint64) int { return len(fmt.Sprint(c)) }

// build constructs the Dnum through dnum.New and its exact value from the parts.
func (s dspec) build() (dnum.Dnum, xnum) {
	if s.inf != 0 {
		return dnum.Inf(int8(s.inf)), xnum{inf: s.inf}
	}
	if s.coef == 0 {
		return dnum.Zero, xnum{r: new(big.Rat)}
	}
	sign := int8(1)
	if s.neg {
		sign = -1
	}
	nd := ndigits(s.coef)
	// dnum.New: value = coef * 10^(exp-16); here value = coef * 10^(e-nd)
	d := dnum.New(sign, s.coef, s.e+16-nd)
	r := new(big.Rat).SetInt(new(big.Int).SetUint64(s.coef))
	r.Mul(r, gen.Pow10Rat(s.e-nd))
	if s.neg {
		r.Neg(r)
	}
	return d, xnum{r: r}
}

func (s dspec) String() string {
	if s.inf != 0 {
		return fmt.Sprintf("%+dinf", s.inf)
	}
	sg := ""
	if s.neg {
		sg = "-"
	}
	return fmt.Sprintf("%s.%de%d", sg, s.coef, s.e)
}

var p10u = func() [20]uint64 {
	var p [20]uint64
	p[0] = 1
	for i := 1; i < 20; i++ {
		p[i] = p[i-1] * 10
	}
	return p
}()

func genCoef(t *rapid.T, label string) uint64 {
	nd := 1 + gen.Uniform(t, label+"nd", 16)
	lo, hi := p10u[nd-1], p10u[nd]-1
	var c uint64
	switch gen.Uniform(t, label+"ccls", 8) {
	case 0:
		c = lo
	case 1:
		c = hi
	case 2: // ...5 / ...49 / ...51 : rounding ties when shifted
		c = hi - rapid.Uint64Range(0, 60).Draw(t, label+"tail")
	case 3:
		c = lo + rapid.Uint64Range(0, 60).Draw(t, label+"tail")
	case 4: // 5000.. (half) neighbourhood
		c = 5 * lo
		if d := rapid.Uint64Range(0, 2).Draw(t, label+"d"); nd > 1 {
			c = c - 1 + d
		}
	case 5: // few leading digits then zeros (low half zero for Mul's split)
		k := 1 + gen.Uniform(t, label+"k", min(nd, 9))
		c = rapid.Uint64Range(p10u[k-1], p10u[k]-1).Draw(t, label+"lead") * p10u[nd-k]
	default:
		c = rapid.Uint64Range(lo, hi).Draw(t, label+"coef")
	}
	if c < lo {
		c = lo
	}
	if c > hi {
		c = hi
	}
	return c
}

func genExp(t *rapid.T, label string) int {
	switch gen.Uniform(t, label+"ecls", 6) {
	case 0:
		return -6 + gen.Uniform(t, label+"e", 27)
	case 1:
		return -128 + gen.Uniform(t, label+"e", 21)
	case 2:
		return 108 + gen.Uniform(t, label+"e", 20)
	case 3:
		return gen.Pick(t, label+"e", []int{-128, -127, -65, -64, -63, 0, 1, 16, 17, 63, 64, 65, 126, 127})
	default:
		return -128 + gen.Uniform(t, label+"e", 256)
	}
}

func clampE(e int) int { return max(-128, min(127, e)) }

func genDspec(t *rapid.T, label string) dspec {
	switch gen.Uniform(t, label+"dcls", 40) {
	case 0:
		return dspec{inf: 1}
	case 1:
		return dspec{inf: -1}
	case 2:
		return dspec{}
	}
	return dspec{neg: rapid.Bool().Draw(t, label+"neg"), coef: genCoef(t, label), e: genExp(t, label)}
}

// genPair draws two decimals, correlated so that alignment, cancellation and
// the exponent range limits are actually reached.
func genPair(t *rapid.T) (dspec, dspec, string) {
	x := genDspec(t, "x")
	cls := c27PairClasses[gen.Weighted(t, "pcls", c27PairWeights)]
	if cls == "pow10_edge" {
		x, y := genPow10Edge(t)
		return x, y, cls
	}
	if cls == "div_divisor_near_pow2" {
		x, y := genDivNearPow2(t)
		return x, y, cls
	}
	if x.inf != 0 || x.coef == 0 {
		cls = "indep"
	}
	var y dspec
	switch cls {
	case "indep":
		y = genDspec(t, "y")
	case "same":
		y = x
		y.neg = rapid.Bool().Draw(t, "yneg")
	case "align":
		k := gen.Pick(t, "k", []int{0, 1, 2, 3, 8, 14, 15, 16, 17, 18, 19, 20})
		if rapid.Bool().Draw(t, "up") {
			k = -k
		}
		y = dspec{neg: rapid.Bool().Draw(t, "yneg"), coef: genCoef(t, "y"), e: clampE(x.e - k)}
	case "cancel":
		// nearly equal magnitudes, opposite or equal sign
		nd := ndigits(x.coef)
		c16 := x.coef * p10u[16-nd]
		d := rapid.Int64Range(-12, 12).Draw(t, "dc")
		c := int64(c16) + d
		ye := x.e
		if c < int64(p10u[15]) {
			// borrow into the next lower decade: 0.0999.. of the same exponent
			c = int64(p10u[16]) - rapid.Int64Range(1, 12).Draw(t, "dc2")
			ye = x.e - 1
		} else if c >= int64(p10u[16]) {
			c = int64(p10u[15]) + rapid.Int64Range(0, 3).Draw(t, "dc3")
			ye = x.e + 1
		}
		y = dspec{neg: gen.Chance(t, "samesign", 25) == x.neg, coef: uint64(c), e: clampE(ye)}
	case "range_mul":
		s := gen.Pick(t, "sum", []int{125, 126, 127, 128, 129, 130, -125, -126, -127, -128, -129, -130})
		y = dspec{neg: rapid.Bool().Draw(t, "yneg"), coef: genCoef(t, "y"), e: clampE(s - x.e)}
	case "range_div":
		s := gen.Pick(t, "diff", []int{125, 126, 127, 128, 129, -126, -127, -128, -129, -130, -131})
		y = dspec{neg: rapid.Bool().Draw(t, "yneg"), coef: genCoef(t, "y"), e: clampE(x.e - s)}
	}
	if rapid.Bool().Draw(t, "swap") {
		x, y = y, x
	}
	return x, y, cls
}

var c27PairClasses = []string{"indep", "align", "cancel", "range_mul", "range_div", "same", "pow10_edge", "div_divisor_near_pow2"}
var c27PairWeights = []int{12, 24, 12, 12, 12, 12, 12, 4}

// genDivNearPow2: a divisor whose 16 digit coefficient lies just below (or just
// above) a power of two 2^50..2^53 - after the bit normalisation of the 128/64
// bit division its high 32 bit word is next to 2^32 (or to 2^31), where the
// quotient digit estimates need their corrections - or next to a power of two
// times a power of ten, or next to d*10^15; the dividend is a random 16 digit
// coefficient (the caller tries a run of neighbouring dividends as well).
func genDivNearPow2(t *rapid.T) (x, y dspec) {
	// eps log-uniform in 2^-24 .. 2^-6
	shift := 6 + gen.Uniform(t, "epsbits", 19)
	frac := func(v uint64) uint64 { // v * eps, eps = m * 2^-(shift+8), m in 128..255
		m := uint64(128 + gen.Uniform(t, "epsmant", 128))
		hi, lo := bits.Mul64(v, m)
		sh := uint(shift + 8)
		return hi<<(64-sh) | lo>>sh
	}
	var c uint64
	switch gen.Weighted(t, "dcls", []int{6, 2, 1, 1}) {
	case 0: // 2^k (1 - eps) / 2^k (1 + eps), k = 50..53: already 16 digits
		v := uint64(1) << (50 + gen.Uniform(t, "k", 4))
		if gen.Chance(t, "above", 25) {
			c = v + frac(v)
		} else {
			c = v - 1 - frac(v)
		}
	case 1: // 2^k, k = 47..63, scaled by a power of ten into 16 digits
		k := 47 + gen.Uniform(t, "k2", 17)
		v := new(big.Int).Lsh(big.NewInt(1), uint(k))
		v.Sub(v, new(big.Int).Rsh(v, uint(shift)))
		for v.Cmp(new(big.Int).SetUint64(p10u[16])) >= 0 {
			v.Quo(v, big.NewInt(10))
		}
		for v.Cmp(new(big.Int).SetUint64(p10u[15])) < 0 {
			v.Mul(v, big.NewInt(10))
		}
		c = v.Uint64()
	case 2: // d * 10^15 (1 ± eps)
		v := uint64(1+gen.Uniform(t, "d", 9)) * p10u[15]
		if rapid.Bool().Draw(t, "above") {
			c = v + frac(v)
		} else {
			c = v - 1 - frac(v)
		}
	default: // low 32 bit word of the normalised divisor all ones / zero
		v := rapid.Uint64Range(p10u[15], p10u[16]-1).Draw(t, "v")
		lz := uint(bits.LeadingZeros64(v))
		mask := uint64(1)<<(32-lz) - 1
		if rapid.Bool().Draw(t, "ones") {
			c = v | mask
		} else {
			c = v &^ mask
		}
	}
	c = max(p10u[15], min(p10u[16]-1, c))
	y = dspec{neg: rapid.Bool().Draw(t, "yneg"), coef: c, e: gen.Uniform(t, "ye", 60) - 30}
	x = dspec{neg: rapid.Bool().Draw(t, "xneg"), coef: rapid.Uint64Range(p10u[15], p10u[16]-1).Draw(t, "xc"), e: gen.Uniform(t, "xe", 60) - 30}
	return
}

// divCorrections is an own model of the two quotient digit estimates of a
// 128/64 bit schoolbook division of xc*10^16 by yc (Knuth D with 32 bit digits):
// it reports by how much the first and the second digit estimate exceed the
// true digits. Used only to label (and aim) the generated cases.
func divCorrections(xc, yc uint64) (d1, d0 uint64) {
	hi, lo := bits.Mul64(xc, p10u[16])
	s := uint(bits.LeadingZeros64(yc))
	dn := yc << s
	if s > 0 {
		hi, lo = hi<<s|lo>>(64-s), lo<<s
	}
	v1 := dn >> 32
	// first digit: (hi : top 32 bits of lo) / dn
	q1true, r := bits.Div64(hi>>32, hi<<32|lo>>32, dn)
	q1est := hi / v1
	if q1est > q1true {
		d1 = q1est - q1true
	}
	// second digit: (r : low 32 bits of lo) / dn
	q0true, _ := bits.Div64(r>>32, r<<32|lo&0xffffffff, dn)
	q0est := r / v1
	if q0est > q0true {
		d0 = q0est - q0true
	}
	return
}

// genPow10Edge draws operands whose exact product, quotient or sum lies at a
// power of ten or within about half a unit of the 16th/17th digit of one:
// there rounding carries into a new leading digit and the result has to be
// normalised again.
func genPow10Edge(t *rapid.T) (x, y dspec) {
	ex, ey := genExp(t, "ex"), genExp(t, "ey")
	if gen.Chance(t, "moderate", 50) {
		ex, ey = gen.Uniform(t, "exm", 24)-6, gen.Uniform(t, "eym", 24)-6
	}
	small := func(label string) uint64 { return uint64(gen.Uniform(t, label, 13)) }
	switch gen.Uniform(t, "pecls", 6) {
	case 0: // (1 + i e-15) * (1 - j e-15)
		x = dspec{coef: p10u[15] + small("i"), e: ex}
		y = dspec{coef: p10u[16] - 10*(1+small("j")), e: ey}
	case 1: // (1 + i e-15) * (1 - j e-16), 99..9 * (1 + small)
		x = dspec{coef: p10u[15] + small("i"), e: ex}
		y = dspec{coef: p10u[16] - 1 - small("j"), e: ey}
	case 2: // x * (16 digit decimal next to 10^k / x): product at 10^k ± a few units of the 17th digit
		xc := rapid.Uint64Range(p10u[15], p10u[16]-1).Draw(t, "xc")
		q := new(big.Int).Quo(pow10Big(31), new(big.Int).SetUint64(xc)) // 10^15 < q <= 10^16
		yc := q.Uint64() + small("d") - 6
		yc = max(p10u[15], min(p10u[16]-1, yc))
		x, y = dspec{coef: xc, e: ex}, dspec{coef: yc, e: ey}
	case 3: // quotient 1 ± a few units of the 16th digit: adjacent coefficients
		c := rapid.Uint64Range(p10u[15]+20, p10u[16]-20).Draw(t, "c")
		if gen.Chance(t, "top", 50) {
			c = gen.Pick(t, "cedge", []uint64{p10u[16] - 20, p10u[15] + 20, 5 * p10u[15]})
		}
		x, y = dspec{coef: c + small("i"), e: ex}, dspec{coef: c + small("j"), e: ey}
	case 4: // sum at 10^16 ± a few units (carry into a 17th digit)
		a := 1 + rapid.Uint64Range(0, 5000).Draw(t, "a")
		x = dspec{coef: p10u[16] - a, e: ex}
		b := a + small("d")
		if b > 6 {
			b -= 6
		}
		y = dspec{coef: b, e: clampE(ex - 16 + ndigits(b))}
	default: // sum at 10^16 ± half a unit: y has one more decimal place ending in 5
		a := 1 + rapid.Uint64Range(0, 5000).Draw(t, "a")
		x = dspec{coef: p10u[16] - a, e: ex}
		b := (a-1)*10 + gen.Pick(t, "half", []uint64{4, 5, 6, 14, 15, 16})
		y = dspec{coef: b, e: clampE(ex - 17 + ndigits(b))}
	}
	x.neg, y.neg = rapid.Bool().Draw(t, "xneg"), rapid.Bool().Draw(t, "yneg")
	if rapid.Bool().Draw(t, "swap") {
		x, y = y, x
	}
	return
}

func pow10Big(e int) *big.Int { return new(big.Int).Exp(big.NewInt(10), big.NewInt(int64(e)), nil) }

// c27Derived feeds a computed decimal d back into the comparison and text
// properties: Compare/Equal against the same value built from its exact parts
// and against other decimals must follow the exact values, and the text form
// must parse back to d. (what is the origin of d, others are operands)
func c27Derived(what string, d dnum.Dnum, skipStringExpMin bool, others ...dnum.Dnum) string {
	v := xOfDnum(d)
	if v.inf != 0 || v.r.Sign() == 0 {
		return ""
	}
	// the same value constructed from (sign, 16 digit coefficient, exponent)
	e := decExp(v.r)
	if e >= -128 && e <= 127 {
		c := new(big.Rat).Quo(ratAbs(v.r), gen.Pow10Rat(e-16))
		if c.IsInt() && c.Num().IsUint64() {
			sign := int8(1)
			if v.r.Sign() < 0 {
				sign = -1
			}
			ref := dnum.New(sign, c.Num().Uint64(), e)
			if xEqual(xOfDnum(ref), v) {
				if cmp := dnum.Compare(d, ref); cmp != 0 || !dnum.Equal(d, ref) {
					return fmt.Sprintf("%s = %v: Compare with the same value built by New(%d, %s, %d) = %d, Equal = %v", what, v, sign, c.Num(), e, cmp, dnum.Equal(d, ref))
				}
			}
		}
	}
	for _, o := range others {
		if cmp, want := dnum.Compare(d, o), xCmp(v, xOfDnum(o)); cmp != want {
			return fmt.Sprintf("%s = %v: Compare with %v = %d, exact order %d", what, v, xOfDnum(o), cmp, want)
		}
		if cmp, want := dnum.Compare(o, d), xCmp(xOfDnum(o), v); cmp != want {
			return fmt.Sprintf("%s = %v: Compare(%v, result) = %d, exact order %d", what, v, xOfDnum(o), cmp, want)
		}
	}
	if d.Exp() == -128 && skipStringExpMin {
		return ""
	}
	s, back, perr := strRoundTrip(d)
	if perr != nil {
		return fmt.Sprintf("%s = %v: FromStr(String()) = FromStr(%q) panics: %v", what, v, s, perr)
	}
	if !dnum.Equal(back, d) || !xEqual(xOfDnum(back), v) {
		return fmt.Sprintf("%s = %v: FromStr(String()) = FromStr(%q) = %v", what, v, s, xOfDnum(back))
	}
	return ""
}

// c27Known classifies a finite/finite operation into the known genuine defect
// classes of util/dnum (by a predicate on the exact operands and result only).
// It returns the known_findings key or "".
func c27Known(op byte, x, y, e *big.Rat) string {
	if e.Sign() == 0 {
		return ""
	}
	ee := decExp(e)
	switch op {
	case '+', '-':
		// the difference of two decimals is below the smallest decimal:
		// New shifts the coefficient up and the exponent wraps around int8
		if ee < -128 {
			return "underflow-wraps"
		}
	case '*':
		// New(sign, c, xe+ye-2) returns Zero when xe+ye-2 < -128 before
		// normalising the 17/18 digit product
		if x.Sign() != 0 && y.Sign() != 0 && decExp(x)+decExp(y)-2 < -128 && ee >= -128 {
			return "early-underflow"
		}
	case '/':
		if x.Sign() != 0 && y.Sign() != 0 && decExp(x)-decExp(y) < -128 && ee >= -128 {
			return "early-underflow"
		}
	}
	return ""
}

var c27ops = []byte{'+', '-', '*', '/'}

func dnumOp(op byte, a, b dnum.Dnum) dnum.Dnum {
	switch op {
	case '+':
		return dnum.Add(a, b)
	case '-':
		return dnum.Sub(a, b)
	case '*':
		return dnum.Mul(a, b)
	}
	return dnum.Div(a, b)
}

// infArith: results that are mathematically unambiguous with an infinite
// operand or a zero divisor; ok=false means "not stated, not judged".
func infArith(op byte, x, y xnum) (want xnum, ok bool) {
	sg := func(v xnum) int {
		if v.inf != 0 {
			return v.inf
		}
		return v.r.Sign()
	}
	zero := xnum{r: new(big.Rat)}
	switch op {
	case '+', '-':
		yi := y.inf
		if op == '-' {
			yi = -yi
		}
		switch {
		case x.inf != 0 && yi != 0:
			if x.inf == yi {
				return x, true
			}
			return xnum{}, false // inf - inf
		case x.inf != 0:
			return x, true
		default:
			return xnum{inf: yi}, true
		}
	case '*':
		if sg(x) == 0 || sg(y) == 0 {
			return xnum{}, false // inf * 0
		}
		return xnum{inf: sg(x) * sg(y)}, true
	case '/':
		switch {
		case x.inf != 0 && y.inf != 0:
			return xnum{}, false
		case x.inf != 0:
			if sg(y) == 0 {
				return xnum{}, false
			}
			return xnum{inf: sg(x) * sg(y)}, true
		case y.inf != 0:
			return zero, true
		default: // y == 0
			return xnum{}, false
		}
	}
	return xnum{}, false
}

// c27Check judges one operation. It returns a failure message ("" = ok), the
// known-finding key that applies to the case ("" = none) and the verdict.
func c27Check(op byte, xs, ys dspec) (fail string, known string, v decVerdict, judged bool) {
	xd, x := xs.build()
	yd, y := ys.build()
	res := dnumOp(op, xd, yd)
	got := xOfDnum(res)
	if x.inf != 0 || y.inf != 0 || (op == '/' && y.r.Sign() == 0) {
		want, ok := infArith(op, x, y)
		if !ok {
			return "", "", decVerdict{class: "not_stated"}, false
		}
		if !xEqual(got, want) {
			return fmt.Sprintf("%v %c %v = %v, want %v", xs, op, ys, got, want), "", decVerdict{class: "bad_inf"}, true
		}
		return "", "", decVerdict{class: "infinite_operand", ok: true}, true
	}
	known = c27Known(op, x.r, y.r, decExact(op, x.r, y.r))
	v = decArith(op, x.r, y.r, got)
	if !v.ok {
		fail = fmt.Sprintf("%v %c %v = %v; exact %s, tolerance %s, error %.4g units (%s)",
			xs, op, ys, got, sci(v.exact), v.tol.RatString(), v.errU, v.class)
	} else {
		// the computed value is itself a decimal: order and text of it
		_, skip := kf.Known("C27", "string-exp-min")
		fail = c27Derived(fmt.Sprintf("%v %c %v", xs, op, ys), res, skip, xd, yd)
	}
	return fail, known, v, true
}

func strRoundTrip(d dnum.Dnum) (s string, back dnum.Dnum, perr any) {
	defer func() { perr = recover() }()
	s = d.String()
	back = dnum.FromStr(s)
	return
}

func TestC27(t *testing.T) {
	rec := ev.New("C27", "rapid-generated decimals built with dnum.New from (sign, 1-16 digit coefficient with boundary classes, exponent over -128..127 weighted to both ends), 0, ±inf; pairs are independent or correlated (exponent distance 0..20 for alignment, nearly equal magnitudes for cancellation, exponent sums/differences at ±126..±130 for the range limits); every pair is run through + - * /, Compare, and String/FromStr. Non-trivial: both operands finite non-zero and the exact result (math/big) is not reproduced trivially, i.e. it needed alignment, rounding, cancellation or lies at the range limit; distinct by (pair, op).")
	rec.Assumptions = []string{
		"'one unit in the 16th significant digit of the larger operand' for + and - is read as one unit of the largest of |x|, |y| and |exact result| (a 16 digit result that carried into the next decade cannot be closer than half a unit of its own 16th digit)",
		"results with an infinite operand or a zero divisor are judged only where mathematically unambiguous (inf-inf, inf*0, inf/inf, x/0 are not stated by the property)",
		"dnum.New is driven inside its callers' domain: coefficient <= MaxInt64 (FromInt), sign ±1",
	}
	defer rec.Write()
	kfs := map[string]kf.Entry{}
	for _, e := range kf.All("C27") {
		kfs[e.Key] = e
	}
	skipKnown := func(key string) bool {
		if e, ok := kfs[key]; ok && key != "" {
			rec.Excluded(key)
			rec.Known(e.What)
			return true
		}
		return false
	}

	rt.Check(t, rec, "arith", 30000, 1500000, func(t *rapid.T) {
		xs, ys, cls := genPair(t)
		xd, x := xs.build()
		yd, y := ys.build()
		rec.Label("pair_" + cls)
		// Compare orders by exact value
		if c, want := dnum.Compare(xd, yd), xCmp(x, y); c != want {
			t.Fatalf("Compare(%v, %v) = %d, exact order %d", xs, ys, c, want)
		}
		if dnum.Equal(xd, yd) != (xCmp(x, y) == 0) {
			t.Fatalf("Equal(%v, %v) = %v, exact order %d", xs, ys, dnum.Equal(xd, yd), xCmp(x, y))
		}
		// the constructed operand is the generated value (New is exact for <= 16 digits)
		if got := xOfDnum(xd); !xEqual(got, x) {
			t.Fatalf("New for %v gives %v, want %v", xs, got, x)
		}
		finite := x.inf == 0 && y.inf == 0 && x.r.Sign() != 0 && y.r.Sign() != 0
		if cls == "div_divisor_near_pow2" {
			// a run of dividends against the same divisor; those whose digit
			// estimates need a correction (own model) are counted
			step := rapid.Uint64Range(1, p10u[15]/64).Draw(t, "xstep")
			at := func(i uint64) uint64 { return p10u[15] + (xs.coef-p10u[15]+i*step)%(9*p10u[15]) }
			cands := make([]uint64, 0, 48)
			for i := uint64(0); i < 24; i++ {
				cands = append(cands, at(i))
			}
			// scan further dividends with the own model for the rare ones whose
			// first digit estimate is too large
			for i := uint64(24); i < 6000 && len(cands) < 40; i++ {
				if d1, _ := divCorrections(at(i), ys.coef); d1 > 0 {
					cands = append(cands, at(i))
				}
			}
			for _, xc := range cands {
				x2 := xs
				x2.coef = xc
				d1, d0 := divCorrections(x2.coef, ys.coef)
				fail, known, _, _ := c27Check('/', x2, ys)
				if known != "" && skipKnown(known) {
					continue
				}
				if fail != "" {
					t.Fatalf("%s (digit estimate corrections by own model: first %d, second %d)", fail, d1, d0)
				}
				rec.Case(true, fmt.Sprintf("%v / %v", x2, ys))
				rec.Label("div_divisor_near_pow2_divides")
				rec.LabelIf(d1 > 0, "div_first_digit_correction")
				rec.LabelIf(d1 > 1, "div_first_digit_correction_twice")
				rec.LabelIf(d0 > 0, "div_second_digit_correction")
				rec.LabelIf(d0 > 1, "div_second_digit_correction_twice")
			}
		} else if finite && xs.inf == 0 && ys.inf == 0 {
			d1, d0 := divCorrections(xs.coef*p10u[16-ndigits(xs.coef)], ys.coef*p10u[16-ndigits(ys.coef)])
			rec.LabelIf(d1 > 0, "div_first_digit_correction")
			rec.LabelIf(d0 > 0, "div_second_digit_correction")
		}
		for _, op := range c27ops {
			fail, known, v, judged := c27Check(op, xs, ys)
			canon := fmt.Sprintf("%v %c %v", xs, op, ys)
			if !judged {
				rec.Case(false, canon)
				rec.Label("not_stated_inf_or_zero_divisor")
				continue
			}
			if known != "" {
				rec.Label("class_" + known)
				if skipKnown(known) {
					continue
				}
			}
			if fail != "" {
				t.Fatalf("%s", fail)
			}
			nt := finite && v.class != "exact" || finite && (op == '*' || op == '/' || xs.e != ys.e)
			rec.Case(nt, canon)
			rec.Label(fmt.Sprintf("op%c_%s", op, ulpClass(v)))
			if r := dnumOp(op, xd, yd); finite && !r.IsInf() && r.Coef() == p10u[15] && v.class != "exact" {
				// a rounded result whose coefficient is a power of ten: rounding carried
				// into a new leading digit (or stopped exactly on it)
				rec.Label(fmt.Sprintf("op%c_rounded_to_power_of_ten", op))
			}
			if finite && (op == '+' || op == '-') {
				d := xs.e - ys.e
				if d < 0 {
					d = -d
				}
				switch {
				case d == 0:
					rec.Label("expdist_0")
				case d <= 14:
					rec.Label("expdist_1..14")
				case d <= 17:
					rec.Label(fmt.Sprintf("expdist_%d", d))
				default:
					rec.Label("expdist_>17")
				}
			}
			if sc := fmt.Sprintf("op%c_%s", op, ulpClass(v)); rec.WantSample(sc) && finite {
				rec.Sample(sc, map[string]string{"x": xs.String(), "y": ys.String(), "got": xOfDnum(dnumOp(op, xd, yd)).String(), "err_units": fmt.Sprintf("%.3g", v.errU)})
			}
		}
	})

	rt.Check(t, rec, "string", 15000, 800000, func(t *rapid.T) {
		xs := genDspec(t, "x")
		d, x := xs.build()
		if d.Sign() != 0 && !d.IsInf() && d.Exp() == -128 {
			rec.Label("class_string-exp-min")
			if skipKnown("string-exp-min") {
				return
			}
		}
		s, back, perr := strRoundTrip(d)
		if perr != nil {
			t.Fatalf("FromStr(String(%v)) = FromStr(%q) panics: %v", xs, s, perr)
		}
		if !dnum.Equal(back, d) || !xEqual(xOfDnum(back), x) {
			t.Fatalf("FromStr(String(%v)) = FromStr(%q) = %v, want %v", xs, s, xOfDnum(back), x)
		}
		format := "sci"
		switch {
		case x.inf != 0:
			format = "inf"
		case x.r.Sign() == 0:
			format = "zero"
		case -7 <= xs.e && xs.e <= 0:
			format = "leading_zeros"
		case 0 < xs.e && xs.e <= 16:
			format = "plain"
		}
		rec.Case(x.inf == 0 && x.r.Sign() != 0, "str "+xs.String())
		rec.Label("string_" + format)
		if rec.WantSample("string_" + format) {
			rec.Sample("string_"+format, map[string]string{"x": xs.String(), "text": s})
		}
	})

	// dnum.New itself: normalisation and rounding of 1..19 digit coefficients
	rt.Check(t, rec, "new", 15000, 800000, func(t *rapid.T) {
		var coef uint64
		switch gen.Uniform(t, "ncls", 5) {
		case 4: // sixteen 9s followed by 1..3 more digits: rounding carries to 10^16
			k := 1 + gen.Uniform(t, "k", 3)
			coef = (p10u[16]-1)*p10u[k] + uint64(gen.Uniform(t, "tail9", int(p10u[k])))
			rec.Label("new_sixteen_nines")
		case 0:
			coef = genCoef(t, "c")
		case 1: // 17..19 digits: rounding in New (FromInt path)
			nd := 17 + gen.Uniform(t, "nd", 3)
			hi := p10u[nd] - 1
			if nd == 19 {
				hi = math.MaxInt64
			}
			coef = rapid.Uint64Range(p10u[nd-1], hi).Draw(t, "big")
		case 2: // rounding carries: 99..95..
			nd := 17 + gen.Uniform(t, "nd", 3)
			coef = p10u[nd] - 1 - rapid.Uint64Range(0, 600).Draw(t, "tail")
			if coef > math.MaxInt64 {
				coef = math.MaxInt64 - rapid.Uint64Range(0, 600).Draw(t, "tail2")
			}
		default:
			coef = rapid.Uint64Range(1, math.MaxInt64).Draw(t, "any")
		}
		exp := []int{-150, -135, 105}[gen.Uniform(t, "expcls", 3)]
		exp += gen.Uniform(t, "exp", []int{301, 31, 31}[map[int]int{-150: 0, -135: 1, 105: 2}[exp]])
		neg := rapid.Bool().Draw(t, "neg")
		sign := int8(1)
		if neg {
			sign = -1
		}
		e := new(big.Rat).SetInt(new(big.Int).SetUint64(coef))
		e.Mul(e, gen.Pow10Rat(exp-16))
		if neg {
			e.Neg(e)
		}
		ee := decExp(e)
		nd := ndigits(coef)
		known := ""
		switch {
		case exp >= -128 && ee < -128:
			known = "underflow-wraps" // shift below -128 after the range test
		case exp < -128 && ee >= -128:
			known = "early-underflow" // range test before normalising a >16 digit coefficient
		}
		if known != "" {
			rec.Label("class_" + known)
			if skipKnown(known) {
				return
			}
		}
		made := dnum.New(sign, coef, exp)
		got := xOfDnum(made)
		// judged as "x + 0": one unit of the 16th digit of the value
		v := decArith('*', e, new(big.Rat).SetInt64(1), got)
		if !v.ok {
			t.Fatalf("New(%d, %d, %d) = %v; exact %s (%s, %.4g units)", sign, coef, exp, got, sci(e), v.class, v.errU)
		}
		if nd <= 16 && v.class == "within" {
			t.Fatalf("New(%d, %d, %d) = %v is not exact although the coefficient has %d digits", sign, coef, exp, got, nd)
		}
		if msg := c27Derived(fmt.Sprintf("New(%d, %d, %d)", sign, coef, exp), made, false); msg != "" {
			t.Fatalf("%s", msg)
		}
		rec.Case(nd > 16 || ee > 125 || ee < -126, fmt.Sprintf("new %d %d %d", sign, coef, exp))
		if nd <= 16 {
			rec.Label("new_1..16digits_" + ulpClass(v))
		} else {
			rec.Label(fmt.Sprintf("new_%ddigits_%s", nd, ulpClass(v)))
		}
	})

	// conversions that normalise through New: FromInt (judged: within one unit of
	// the 16th digit, exact up to 16 digits) and FromFloat (its accuracy is not
	// stated: only the order / text of the decimal it returns are judged)
	rt.Check(t, rec, "convert", 10000, 400000, func(t *rapid.T) {
		var n int64
		cls := gen.Pick(t, "icls", []string{"any", "digits", "sixteen_nines", "pow10"})
		switch cls {
		case "any":
			n = genInt64(t, "n")
		case "digits":
			nd := 1 + gen.Uniform(t, "nd", 19)
			hi := int64(math.MaxInt64)
			if nd < 19 {
				hi = int64(p10u[nd]) - 1
			}
			n = rapid.Int64Range(int64(p10u[nd-1]), hi).Draw(t, "n")
		case "sixteen_nines":
			k := 1 + gen.Uniform(t, "k", 2) // 17 or 18 digits (19 digits of 9s exceed int64)
			n = int64((p10u[16]-1)*p10u[k] + uint64(gen.Uniform(t, "tail", int(p10u[k]))))
		default:
			n = addClamp(int64(p10u[gen.Uniform(t, "e", 19)]), rapid.Int64Range(-60, 60).Draw(t, "d"))
		}
		if rapid.Bool().Draw(t, "neg") && n != math.MinInt64 {
			n = -n
		}
		d := dnum.FromInt(n)
		exact := new(big.Rat).SetInt64(n)
		if n != 0 {
			v := decArith('*', exact, new(big.Rat).SetInt64(1), xOfDnum(d))
			if !v.ok || v.class != "exact" && intSig(exact) <= 16 {
				t.Fatalf("FromInt(%d) = %v (%s, %.4g units)", n, xOfDnum(d), v.class, v.errU)
			}
			rec.Label("fromint_" + cls + "_" + ulpClass(v))
		}
		if msg := c27Derived(fmt.Sprintf("FromInt(%d)", n), d, false, dnum.FromInt(n/10), dnum.One); msg != "" {
			t.Fatalf("%s", msg)
		}
		if back, ok := d.ToInt64(); intSig(exact) <= 16 && (!ok || back != n) {
			t.Fatalf("FromInt(%d).ToInt64() = %d, %v", n, back, ok)
		}
		// a float next to a power of ten or to n
		f := float64(n)
		switch gen.Uniform(t, "fcls", 3) {
		case 0:
			f = math.Nextafter(math.Pow10(gen.Uniform(t, "fe", 40)-20), []float64{0, math.Inf(1)}[gen.Uniform(t, "dir", 2)])
		case 1:
			f = f / math.Pow10(gen.Uniform(t, "fscale", 20))
		}
		if f != 0 && !math.IsInf(f, 0) {
			fd := func() (r dnum.Dnum) {
				defer func() {
					if e := recover(); e != nil {
						t.Fatalf("FromFloat(%v) panics: %v", f, e)
					}
				}()
				return dnum.FromFloat(f)
			}()
			if msg := c27Derived(fmt.Sprintf("FromFloat(%v)", f), fd, false, d, dnum.One); msg != "" {
				t.Fatalf("%s", msg)
			}
			rec.Label("fromfloat")
		}
		rec.Case(intSig(exact) > 16, fmt.Sprintf("fromint %d", n))
	})
}

// FuzzC27 drives the same oracle from native fuzzing (thorough tier).
func FuzzC27(f *testing.F) {
	f.Add(uint64(1), int8(1), false, uint64(3), int8(1), false, uint8(3))
	f.Add(uint64(9999999999999999), int8(16), false, uint64(5), int8(0), true, uint8(0))
	f.Add(uint64(1000000000000001), int8(-124), false, uint64(1), int8(-124), true, uint8(0))
	f.Add(uint64(1), int8(-64), false, uint64(1), int8(-63), false, uint8(2))
	f.Add(uint64(7), int8(127), false, uint64(7), int8(127), false, uint8(2))
	f.Add(uint64(1234567890123456), int8(3), true, uint64(9876543219876543), int8(-20), false, uint8(1))
	// divisors just below 2^50..2^53 (quotient digit corrections of the 128 bit division)
	f.Add(uint64(9620467036358519), int8(16), false, uint64(1125113108267332), int8(16), false, uint8(3))
	f.Add(uint64(9823435550186620), int8(1), false, uint64(1124478067140456), int8(4), false, uint8(3))
	f.Add(uint64(8963112368636409), int8(-14), true, uint64(1122880259073983), int8(21), false, uint8(3))
	f.Add(uint64(7777777777777777), int8(0), false, uint64(1)<<51-12345, int8(0), false, uint8(3))
	f.Add(uint64(3141592653589793), int8(5), false, uint64(1)<<52-987654321, int8(-5), true, uint8(3))
	f.Add(uint64(2718281828459045), int8(9), false, uint64(1)<<53-4242424242, int8(2), false, uint8(3))
	f.Add(uint64(1000000000000001), int8(1), false, uint64(1)<<50+99, int8(1), false, uint8(3))
	known := map[string]bool{}
	for _, e := range kf.All("C27") {
		known[e.Key] = true
	}
	f.Fuzz(func(t *testing.T, c1 uint64, e1 int8, n1 bool, c2 uint64, e2 int8, n2 bool, opi uint8) {
		xs := dspec{neg: n1, coef: c1 % p10u[16], e: int(e1)}
		ys := dspec{neg: n2, coef: c2 % p10u[16], e: int(e2)}
		if opi&0x80 != 0 {
			xs = dspec{inf: 1}
			if n1 {
				xs.inf = -1
			}
		}
		op := c27ops[opi&3]
		xd, x := xs.build()
		yd, y := ys.build()
		if c, want := dnum.Compare(xd, yd), xCmp(x, y); c != want {
			t.Fatalf("Compare(%v, %v) = %d, exact order %d", xs, ys, c, want)
		}
		fail, k, _, judged := c27Check(op, xs, ys)
		if judged && fail != "" && !known[k] {
			t.Fatalf("%s", fail)
		}
		if xd.Sign() != 0 && !xd.IsInf() && !(xd.Exp() == -128 && known["string-exp-min"]) {
			s, back, perr := strRoundTrip(xd)
			if perr != nil || !dnum.Equal(back, xd) {
				t.Fatalf("FromStr(String(%v)) = FromStr(%q) = %v (%v)", xs, s, xOfDnum(back), perr)
			}
		}
	})
}
