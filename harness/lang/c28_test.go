package lang

import (
	"fmt"
	"math"
	"math/big"
	"sort"
	"strings"
	"testing"

	"github.com/apmckinlay/gsuneido/core"
	"pgregory.net/rapid"
	"verifharness/internal/ev"
	"verifharness/internal/gen"
	"verifharness/internal/kf"
	"verifharness/internal/rt"
)

// --- models --------------------------------------------------------------------

// smodel is a scalar value identity; render draws one of its representations.
type smodel struct {
	kind   gen.Kind
	canon  string
	render func(t *rapid.T) gen.MV
}

func numCanon(m gen.MV) string {
	if m.Inf != 0 {
		return fmt.Sprintf("N%+dinf", m.Inf)
	}
	return "N" + m.Rat.RatString()
}

func smInt(n int64) smodel {
	return smodel{gen.KNum, "N" + big.NewInt(n).String(), func(t *rapid.T) gen.MV { return intAs(t, n) }}
}

func smFixed(m gen.MV) smodel {
	var c string
	switch m.Kind {
	case gen.KBool:
		c = fmt.Sprint("B", m.B)
	case gen.KNum:
		if m.Inf == 0 && m.Rat.IsInt() && m.Rat.Num().IsInt64() && !toIntEdge(m) {
			return smInt(m.Rat.Num().Int64())
		}
		c = numCanon(m)
	case gen.KDate:
		c = fmt.Sprint("D", m.D)
	default:
		panic("smFixed")
	}
	return smodel{m.Kind, c, func(*rapid.T) gen.MV { return m }}
}

func smStr(s string) smodel {
	return smodel{gen.KStr, "S" + s, func(t *rapid.T) gen.MV { return strAs(t, s) }}
}

// omodel is an object value identity: list elements and named members.
type omodel struct {
	list  []emodel
	names []emodel // keys (scalars), distinct by canon
	vals  []emodel
	// rowable: only field-name keys and non-empty packable scalar values, so the
	// value can also exist as a record that is still backed by a database row
	rowable bool
}

type emodel struct {
	s *smodel
	o *omodel
}

func (e emodel) canon() string {
	if e.s != nil {
		return e.s.canon
	}
	return e.o.canon()
}

func (o *omodel) canon() string {
	var sb strings.Builder
	sb.WriteString("{")
	for _, e := range o.list {
		sb.WriteString(e.canon())
		sb.WriteString(",")
	}
	sb.WriteString("|")
	var nv []string
	for i := range o.names {
		nv = append(nv, o.names[i].canon()+":"+o.vals[i].canon())
	}
	sort.Strings(nv)
	sb.WriteString(strings.Join(nv, ","))
	sb.WriteString("}")
	return sb.String()
}

// item is one rendering of a model.
type item struct {
	v     core.Value
	kind  gen.Kind
	canon string // model identity: equal canon <=> equal value
	mv    gen.MV // scalars
	desc  string
	// containers:
	nnamed     int
	namedOrder []string        // key canons in insertion order
	hashNums   map[string]bool // hash relevant position -> "is a SuDnum" for integers outside int16
	keyNums    map[string]bool // path of a named key (any depth) -> "is a SuDnum" for integers outside int16
	isRec      bool
	rowStates  []string // states of row backed records inside (lazy / touched / unpacked)
}

func outsideInt16(m gen.MV) bool {
	return m.Kind == gen.KNum && m.Inf == 0 && m.Rat.IsInt() &&
		(m.Rat.Cmp(big.NewRat(math.MaxInt16, 1)) > 0 || m.Rat.Cmp(big.NewRat(math.MinInt16, 1)) < 0)
}

func renderScalar(t *rapid.T, m *smodel) item {
	mv := m.render(t)
	return item{v: mv.V, kind: m.kind, canon: m.canon, mv: mv, desc: mv.String()}
}

// renderObj builds a container from the model: members are inserted in a drawn
// order and every scalar in a drawn representation.
func renderObj(t *rapid.T, o *omodel, path string, top *item) core.Value {
	if o.rowable && gen.Chance(t, "rowbacked", 60) {
		return renderRowRecord(t, o, path, top)
	}
	isRec := gen.Chance(t, "isrec", 33)
	var ob interface {
		core.Value
		Add(core.Value)
		Set(core.Value, core.Value)
	}
	if isRec {
		ob = core.NewSuRecord()
	} else {
		ob = &core.SuObject{}
	}
	elem := func(e emodel, pos string, hashRelevant bool) core.Value {
		if e.o != nil {
			return renderObj(t, e.o, path+pos+"/", top)
		}
		mv := e.s.render(t)
		if hashRelevant && outsideInt16(mv) {
			top.hashNums[pos] = mv.Repr == "SuDnum"
		}
		return mv.V
	}
	for i, e := range o.list {
		ob.Add(elem(e, fmt.Sprintf("L%d", i), path == "" && i < 2))
	}
	perm := rapid.Permutation(seq(len(o.names))).Draw(t, "order")
	for _, i := range perm {
		kc := o.names[i].canon()
		kmv := o.names[i].s.render(t)
		if outsideInt16(kmv) {
			top.keyNums[path+"K:"+kc] = kmv.Repr == "SuDnum"
		}
		v := elem(o.vals[i], "V:"+kc, path == "" && len(o.names) <= 4)
		ob.Set(kmv.V, v)
		if path == "" {
			top.namedOrder = append(top.namedOrder, kc)
		}
	}
	if path == "" {
		top.isRec = isRec
		top.nnamed = len(o.names)
	}
	return ob
}

// renderRowRecord builds the record the way a query result is built: a packed
// Record under a Header, wrapped by SuRecordFromRow. The fields stay packed in
// the row until something unpacks them; the drawn state says how far that went.
func renderRowRecord(t *rapid.T, o *omodel, path string, top *item) core.Value {
	perm := rapid.Permutation(seq(len(o.names))).Draw(t, "fieldorder")
	var b core.RecordBuilder
	fields := make([]string, 0, len(perm))
	for _, i := range perm {
		fields = append(fields, o.names[i].s.canon[1:]) // canon is "S" + name
		b.Add(o.vals[i].s.render(t).V.(core.Packable))
		if path == "" {
			top.namedOrder = append(top.namedOrder, o.names[i].canon())
		}
	}
	hdr := core.NewHeader([][]string{fields}, fields)
	r := core.SuRecordFromRow(core.Row{core.DbRec{Record: b.Build()}}, hdr, "", nil)
	state := gen.Pick(t, "rowstate", []string{"lazy", "lazy", "touched", "unpacked"})
	switch state {
	case "touched":
		r.Get(nil, core.SuStr(fields[gen.Uniform(t, "touch", len(fields))]))
	case "unpacked":
		r.ToObject()
	}
	top.rowStates = append(top.rowStates, state)
	if path == "" {
		top.isRec = true
		top.nnamed = len(o.names)
	}
	return r
}

// genRowRecModel: 1..5 fields with non-empty scalar values
func genRowRecModel(t *rapid.T) *omodel {
	o := &omodel{rowable: true}
	seen := map[string]bool{}
	for i := 1 + gen.Uniform(t, "nfields", 5); i > 0; i-- {
		k := smStr(rapid.StringMatching(`[a-d]{1,2}`).Draw(t, "field"))
		if seen[k.canon] {
			continue
		}
		seen[k.canon] = true
		var v *smodel
		for {
			v = genScalarModel(t)
			if v.canon != "S" {
				break // an empty string in a row is a missing field
			}
		}
		o.names = append(o.names, emodel{s: &k})
		o.vals = append(o.vals, emodel{s: v})
	}
	return o
}

func seq(n int) []int {
	s := make([]int, n)
	for i := range s {
		s[i] = i
	}
	return s
}

func renderItem(t *rapid.T, e emodel) item {
	if e.s != nil {
		return renderScalar(t, e.s)
	}
	it := item{kind: gen.KObj, canon: e.o.canon(), hashNums: map[string]bool{}, keyNums: map[string]bool{}}
	it.v = renderObj(t, e.o, "", &it)
	if len(it.rowStates) > 0 {
		// String() would unpack the row: describe by the model
		it.desc = fmt.Sprintf("%T%s rowbacked%v order%v", it.v, it.canon, it.rowStates, it.namedOrder)
	} else {
		it.desc = fmt.Sprintf("%T%s order%v", it.v, it.v.String(), it.namedOrder)
	}
	return it
}

// --- model generators -------------------------------------------------------------

func genNumFamily(t *rapid.T) []smodel {
	n := genInt64(t, "n")
	fam := []smodel{smInt(n)}
	add := func(m smodel) { fam = append(fam, m) }
	for i := 1 + gen.Uniform(t, "nrel", 3); i > 0; i-- {
		switch gen.Uniform(t, "rel", 7) {
		case 0:
			add(smInt(addClamp(n, rapid.Int64Range(-2, 2).Draw(t, "d"))))
		case 1: // n + fraction as a decimal
			if n > -1e15 && n < 1e15 {
				f := new(big.Rat).SetFrac64(rapid.Int64Range(-9, 9).Draw(t, "f"), 10)
				r := new(big.Rat).Add(new(big.Rat).SetInt64(n), f)
				num := new(big.Int).Mul(r.Num(), big.NewInt(10))
				num.Quo(num, r.Denom()) // r*10 is an integer
				c := new(big.Int).Abs(num)
				if c.Sign() != 0 {
					s := c.String()
					z := len(s)
					for s[z-1] == '0' {
						z--
					}
					var coef uint64
					fmt.Sscan(s[:z], &coef)
					add(smFixed(mvOfDspec(dspec{neg: num.Sign() < 0, coef: coef, e: len(s) - 1})))
				}
			}
		case 2:
			add(smFixed(gen.DnumMV().Draw(t, "dec")))
		case 3:
			add(smInt(genInt64(t, "m")))
		case 4: // the 16 digit decimal next to a long integer (lossy conversion zone)
			nd := len(new(big.Int).Abs(big.NewInt(n)).String())
			if nd > 16 {
				unit := int64(p10u[nd-16])
				m := n / unit * unit
				coef := new(big.Int).Abs(big.NewInt(m)).Uint64() / uint64(unit)
				add(smFixed(mvOfDspec(dspec{neg: m < 0, coef: coef, e: nd})))
			} else {
				add(smInt(-n))
			}
		case 5:
			add(smFixed(mvOfDspec(dspec{inf: gen.Pick(t, "inf", []int{-1, 1})})))
		default:
			add(smInt(n)) // same value again
		}
	}
	return fam
}

func genStrFamily(t *rapid.T) []smodel {
	s := gen.StrMV().Draw(t, "s").S
	fam := []smodel{smStr(s)}
	for i := 1 + gen.Uniform(t, "nrel", 3); i > 0; i-- {
		switch gen.Uniform(t, "rel", 6) {
		case 0:
			fam = append(fam, smStr(s+gen.Pick(t, "suffix", []string{"a", "\x00", "\xff", " "})))
		case 1:
			fam = append(fam, smStr(s[:rapid.IntRange(0, len(s)).Draw(t, "cut")]))
		case 2:
			b := []byte(s)
			if len(b) > 0 {
				i := rapid.IntRange(0, len(b)-1).Draw(t, "pos")
				b[i] += byte(gen.Pick(t, "delta", []int{1, 255, 128}))
			}
			fam = append(fam, smStr(string(b)))
		case 3:
			fam = append(fam, smStr(gen.StrMV().Draw(t, "other").S))
		case 4: // longer but smaller / shorter but larger (a length-first compare breaks these)
			fam = append(fam, smStr("b"), smStr("ab"), smStr("abc"))
		default:
			fam = append(fam, smStr(s))
		}
	}
	return fam
}

func genDateFamily(t *rapid.T) []smodel {
	d := gen.DateMV().Draw(t, "d")
	fam := []smodel{smFixed(d)}
	for i := 1 + gen.Uniform(t, "nrel", 3); i > 0; i-- {
		e := d
		switch gen.Uniform(t, "rel", 4) {
		case 0: // same instant as plain date / as timestamp
			x := rapid.IntRange(0, 255).Draw(t, "extra")
			e.D[7] = x
		case 1: // neighbouring millisecond
			e.D[6] = (e.D[6] + 1) % 1000
		case 2:
			e = gen.DateMV().Draw(t, "other")
		default:
			e.D[2] = 1 + e.D[2]%28
		}
		if e.D[7] == 0 {
			e.V, e.Repr = core.NewDate(e.D[0], e.D[1], e.D[2], e.D[3], e.D[4], e.D[5], e.D[6]), "SuDate"
		} else {
			e.V = core.DateFromLiteral(fmt.Sprintf("#%04d%02d%02d.%02d%02d%02d%03d%03d", e.D[0], e.D[1], e.D[2], e.D[3], e.D[4], e.D[5], e.D[6], e.D[7]))
			e.Repr = "SuTimestamp"
		}
		if e.V == core.Value(core.NilDate) {
			continue
		}
		fam = append(fam, smFixed(e))
	}
	return fam
}

func genScalarFamily(t *rapid.T) []smodel {
	switch gen.Uniform(t, "skind", 4) {
	case 0:
		return genNumFamily(t)
	case 1:
		return genStrFamily(t)
	case 2:
		return genDateFamily(t)
	}
	return []smodel{smFixed(gen.BoolMV().Draw(t, "b")), smFixed(gen.BoolMV().Draw(t, "b2"))}
}

func pick[T any](t *rapid.T, s []T, label string) T {
	return s[gen.Uniform(t, label, len(s))]
}

func genScalarModel(t *rapid.T) *smodel {
	m := pick(t, genScalarFamily(t), "pick")
	return &m
}

// genKeyModel: a scalar usable as a named key that never migrates into the list
func genKeyModel(t *rapid.T) *smodel {
	for {
		m := genScalarModel(t)
		if m.kind == gen.KNum && strings.HasPrefix(m.canon, "N") && !strings.Contains(m.canon, "/") && !strings.Contains(m.canon, "inf") {
			n, ok := new(big.Int).SetString(m.canon[1:], 10)
			if ok && n.Sign() >= 0 && n.Cmp(big.NewInt(100)) < 0 {
				continue // could be (or become) a list index
			}
		}
		return m
	}
}

func genObjModel(t *rapid.T, depth int) *omodel {
	o := &omodel{}
	elem := func() emodel {
		if depth > 0 && gen.Chance(t, "nest", 20) {
			return emodel{o: genObjModel(t, depth-1)}
		}
		return emodel{s: genScalarModel(t)}
	}
	for i := gen.Uniform(t, "nlist", 4); i > 0; i-- {
		o.list = append(o.list, elem())
	}
	seen := map[string]bool{}
	for i := gen.Pick(t, "nnamed", []int{0, 1, 2, 2, 3, 4, 5, 6}); i > 0; i-- {
		var k *smodel
		if gen.Chance(t, "strkey", 60) {
			s := smStr(rapid.StringMatching(`[a-d]{1,2}`).Draw(t, "key"))
			k = &s
		} else {
			k = genKeyModel(t)
		}
		if seen[k.canon] {
			continue
		}
		seen[k.canon] = true
		o.names = append(o.names, emodel{s: k})
		o.vals = append(o.vals, elem())
	}
	return o
}

// variant of an object model: one list element or named value changed / dropped
func mutateObjModel(t *rapid.T, o *omodel) *omodel {
	c := &omodel{list: append([]emodel{}, o.list...), names: append([]emodel{}, o.names...), vals: append([]emodel{}, o.vals...)}
	switch gen.Uniform(t, "mut", 4) {
	case 0:
		if len(c.list) > 0 {
			c.list[rapid.IntRange(0, len(c.list)-1).Draw(t, "i")] = emodel{s: genScalarModel(t)}
			return c
		}
	case 1:
		if len(c.vals) > 0 {
			c.vals[rapid.IntRange(0, len(c.vals)-1).Draw(t, "i")] = emodel{s: genScalarModel(t)}
			return c
		}
	case 2:
		if len(c.list) > 0 {
			c.list = c.list[:len(c.list)-1]
			return c
		}
	}
	c.list = append(c.list, emodel{s: genScalarModel(t)})
	return c
}

// genConcatFamily: concatenation values as the interpreter produces them. A
// result of 256 bytes or more is an SuConcat; extending it with a further $
// appends in place, so s and t = s $ x share one buffer with different
// lengths, while a second extension u = s $ y of the same base is copied.
// Each model renders either as that very value or as an independent
// SuStr / SuConcat / SuExcept of the same bytes.
func genConcatFamily(t *rapid.T) []smodel {
	a := strings.Repeat(rapid.StringMatching(`[a-c]{1,3}`).Draw(t, "unit"), 210)[:150+gen.Uniform(t, "alen", 60)]
	b := strings.Repeat(rapid.StringMatching(`[a-c]{1,2}`).Draw(t, "unit2"), 170)[:110+gen.Uniform(t, "blen", 60)]
	ext := func(label string) core.Value {
		return core.SuStr(gen.Pick(t, label, []string{"a", "b", "c", "ab", "\x00", ""}))
	}
	sv := core.OpCat(core.SuStr(a), core.SuStr(b)) // >= 256 bytes: SuConcat
	vals := []core.Value{sv}
	tv := core.OpCat(sv, ext("x")) // in place: shares sv's buffer
	vals = append(vals, tv)
	vals = append(vals, core.OpCat(sv, ext("y"))) // buffer already extended: copy
	if gen.Chance(t, "deeper", 50) {
		vals = append(vals, core.OpCat(tv, ext("z"))) // extends t in place again
	}
	if gen.Chance(t, "catn", 30) { // a function level `$` chain through the interpreter
		v, perr, _ := newCaller().call("function(s, x){ t = s $ x; return t $ x }", sv, ext("w"))
		if perr == nil {
			vals = append(vals, v)
		}
	}
	var fam []smodel
	for _, v := range vals {
		v := v
		str := core.ToStr(v)
		repr := fmt.Sprintf("%T(shared)", v)
		if _, ok := v.(core.SuConcat); !ok {
			repr = fmt.Sprintf("%T", v)
		}
		fam = append(fam, smodel{gen.KStr, "S" + str, func(t *rapid.T) gen.MV {
			if gen.Chance(t, "shared", 60) {
				return gen.MV{Kind: gen.KStr, S: str, V: v, Repr: repr}
			}
			return strAs(t, str)
		}})
	}
	return fam
}

// genPool returns models (as emodel) for one case.
func genPool(t *rapid.T) ([]emodel, string) {
	theme := gen.Pick(t, "theme", []string{"numbers", "strings", "dates", "objects", "objects", "mixed", "mixed", "concat_family", "row_record"})
	var ms []emodel
	addS := func(f []smodel) {
		for i := range f {
			ms = append(ms, emodel{s: &f[i]})
		}
	}
	switch theme {
	case "numbers":
		addS(genNumFamily(t))
	case "strings":
		addS(genStrFamily(t))
	case "dates":
		addS(genDateFamily(t))
	case "row_record":
		// a record as a query returns it (fields still packed in the row), bare or
		// nested as list member / named value of a container, next to the same
		// value built as plain SuRecord / SuObject and to a variant
		rm := genRowRecModel(t)
		variant := mutateObjModel(t, rm)
		variant.rowable = false
		wrap := gen.Uniform(t, "rwrap", 4)
		for _, m := range []*omodel{rm, rm, variant} {
			switch wrap {
			case 0:
				ms = append(ms, emodel{o: m})
			case 1:
				ms = append(ms, emodel{o: &omodel{list: []emodel{{o: m}}}})
			case 2:
				one := smInt(1)
				ms = append(ms, emodel{o: &omodel{list: []emodel{{s: &one}, {o: m}}}})
			default:
				k := smStr("r")
				ms = append(ms, emodel{o: &omodel{names: []emodel{{s: &k}}, vals: []emodel{{o: m}}}})
			}
		}
	case "concat_family":
		fam := genConcatFamily(t)
		switch gen.Uniform(t, "wrap", 4) {
		case 0: // as first list member of a container
			for i := range fam {
				ms = append(ms, emodel{o: &omodel{list: []emodel{{s: &fam[i]}}}})
			}
		case 1: // as a named value
			k := smStr("k")
			for i := range fam {
				ms = append(ms, emodel{o: &omodel{names: []emodel{{s: &k}}, vals: []emodel{{s: &fam[i]}}}})
			}
		default:
			addS(fam)
		}
	case "objects":
		o := genObjModel(t, 1)
		ms = append(ms, emodel{o: o}, emodel{o: o})
		for i := gen.Uniform(t, "nmut", 3); i > 0; i-- {
			ms = append(ms, emodel{o: mutateObjModel(t, o)})
		}
	default:
		for i := 2 + gen.Uniform(t, "nfam", 3); i > 0; i-- {
			if gen.Chance(t, "obj", 25) {
				ms = append(ms, emodel{o: genObjModel(t, 1)})
			} else {
				addS(genScalarFamily(t))
			}
		}
	}
	return ms, theme
}

// --- known finding predicates -----------------------------------------------------

const (
	kfHashDnum  = "dnum-int-hash"     // F3
	kfHashOrder = "object-hash-order" // Hash of 2..4 named members depends on insertion order
	kfLossy28   = "int64-dnum-lossy-compare"
)

// pairKnown returns the known finding class a pair of items falls into
// ("" = none) and whether Equal/Compare themselves (not only Hash) are affected.
func pairKnown(a, b item) (string, bool) {
	if a.kind == gen.KNum && b.kind == gen.KNum {
		if lossyPair(a.mv, b.mv) {
			return kfLossy28, true
		}
		if a.canon == b.canon && outsideInt16(a.mv) && (a.mv.Repr == "SuDnum") != (b.mv.Repr == "SuDnum") {
			return kfHashDnum, false
		}
		return "", false
	}
	if a.kind != gen.KObj || b.kind != gen.KObj || a.canon != b.canon {
		return "", false
	}
	// a named key (any depth) that is an integer outside int16, as SuDnum in one
	// rendering and as integer in the other, is not found by deepEqual's lookup
	for p, d := range a.keyNums {
		if d2, ok := b.keyNums[p]; ok && d != d2 {
			return kfHashDnum, true
		}
	}
	for p, d := range a.hashNums {
		if d2, ok := b.hashNums[p]; ok && d != d2 {
			return kfHashDnum, false
		}
	}
	if a.nnamed >= 2 && a.nnamed <= 4 && strings.Join(a.namedOrder, "\x01") != strings.Join(b.namedOrder, "\x01") {
		return kfHashOrder, false
	}
	return "", false
}

func safeCompare(x, y core.Value) (c int, perr any) {
	defer func() { perr = recover() }()
	return gen.Sgn(x.Compare(y)), nil
}

func safeEqual(x, y core.Value) (eq bool, perr any) {
	defer func() { perr = recover() }()
	return x.Equal(y), nil
}

func TestC28(t *testing.T) {
	rec := ev.New("C28", "rapid-generated pools: a theme (numbers / strings / dates / objects / mixed) gives 2-8 related value models (n, n±δ, n+fraction, the 16 digit decimal next to a long integer, ±inf; s, s+suffix, prefixes, one byte changed; a date, the same instant as timestamp, next millisecond; an object model and variants with one member changed); every model is rendered 1-3 times with drawn representations (smi/SuInt64/SuDnum, SuStr/SuConcat/SuExcept, SuDate/SuTimestamp, SuObject/SuRecord with members inserted in a drawn order); triples are drawn from the renderings. Non-trivial: a triple with at least two model-equal values in different renderings, or three values of one kind; distinct by the rendered triple. Sub-check lookup: a member stored under one rendering of a key must be found under every other rendering.")
	rec.Assumptions = []string{
		"whether two generated values are equal is decided by the generator's model (exact rational, byte string, date tuple, member set), not by Equal",
		"container Compare is documented to look at list members only: Compare == 0 is not required to imply Equal for containers",
		"order of scalars of one kind is compared with an independent model (numeric value, byte order, chronological tuple incl. the timestamp byte)",
	}
	defer rec.Write()
	known := map[string]bool{}
	what := map[string]string{}
	for _, e := range kf.All("C28") {
		known[e.Key] = true
		what[e.Key] = e.What
	}
	excluded := func(key string) bool {
		if key == "" {
			return false
		}
		rec.Label("class_" + key)
		if known[key] {
			rec.Excluded(key)
			rec.Known(what[key])
			return true
		}
		return false
	}

	rt.Check(t, rec, "order", 20000, 1200000, func(t *rapid.T) {
		models, theme := genPool(t)
		var pool []item
		for _, m := range models {
			for i := 1 + gen.Uniform(t, "nrender", 2); i > 0; i-- {
				pool = append(pool, renderItem(t, m))
			}
		}
		tr := [3]item{pick(t, pool, "a"), pick(t, pool, "b"), pick(t, pool, "c")}
		// hashes first: Compare and Equal may unpack lazily built values
		var h0 [3]uint64
		for i := range tr {
			h0[i] = tr[i].v.Hash()
		}
		var cmp [3][3]int
		anyKnown := false
		for i := 0; i < 3; i++ {
			for j := 0; j < 3; j++ {
				x, y := tr[i], tr[j]
				c, perr := safeCompare(x.v, y.v)
				if perr != nil {
					t.Fatalf("Compare(%s, %s) panics: %v", x.desc, y.desc, perr)
				}
				cmp[i][j] = c
			}
		}
		for i := 0; i < 3; i++ {
			for j := 0; j < 3; j++ {
				x, y := tr[i], tr[j]
				k, eqAffected := pairKnown(x, y)
				if k != "" && i < j {
					if excluded(k) {
						anyKnown = true
					}
				}
				skip := k != "" && known[k]
				if skip {
					anyKnown = true
				}
				// antisymmetry
				if cmp[i][j] != -cmp[j][i] && !(skip && eqAffected) {
					t.Fatalf("Compare(%s, %s) = %d but Compare(%s, %s) = %d", x.desc, y.desc, cmp[i][j], y.desc, x.desc, cmp[j][i])
				}
				// type rank
				if x.kind != y.kind && cmp[i][j] != gen.Sgn(int(x.kind)-int(y.kind)) {
					t.Fatalf("Compare(%s, %s) = %d contradicts the type rank bool < number < string < date < object", x.desc, y.desc, cmp[i][j])
				}
				eq, perr := safeEqual(x.v, y.v)
				if perr != nil {
					t.Fatalf("Equal(%s, %s) panics: %v", x.desc, y.desc, perr)
				}
				if skip && eqAffected {
					continue // Equal / Compare themselves are affected
				}
				modelEq := x.canon == y.canon
				if eq != modelEq {
					t.Fatalf("Equal(%s, %s) = %v but the values are %s", x.desc, y.desc, eq, map[bool]string{true: "equal", false: "different"}[modelEq])
				}
				if eq {
					if cmp[i][j] != 0 {
						t.Fatalf("Equal(%s, %s) but Compare = %d", x.desc, y.desc, cmp[i][j])
					}
					if hx, hy := x.v.Hash(), y.v.Hash(); hx != hy && !skip {
						t.Fatalf("Equal(%s, %s) but Hash %x != %x", x.desc, y.desc, hx, hy)
					}
					if h0[i] != h0[j] && !skip {
						t.Fatalf("Equal(%s, %s) but Hash before any comparison %x != %x", x.desc, y.desc, h0[i], h0[j])
					}
					if i == j && h0[i] != x.v.Hash() {
						t.Fatalf("Hash of %s changed by comparing it: %x -> %x", x.desc, h0[i], x.v.Hash())
					}
				}
				// independent order of scalars of one kind
				if x.kind == y.kind && x.kind != gen.KObj {
					if want := gen.CmpModel(x.mv, y.mv); cmp[i][j] != want {
						t.Fatalf("Compare(%s, %s) = %d, model order %d", x.desc, y.desc, cmp[i][j], want)
					}
				}
			}
		}
		// transitivity over all orders of the triple
		if !anyKnown {
			for _, p := range [][3]int{{0, 1, 2}, {0, 2, 1}, {1, 0, 2}, {1, 2, 0}, {2, 0, 1}, {2, 1, 0}} {
				xy, yz, xz := cmp[p[0]][p[1]], cmp[p[1]][p[2]], cmp[p[0]][p[2]]
				if xy <= 0 && yz <= 0 {
					if xz > 0 || (xy < 0 || yz < 0) && xz == 0 {
						t.Fatalf("not transitive: cmp(%s, %s) = %d, cmp(.., %s) = %d, but cmp(first, last) = %d",
							tr[p[0]].desc, tr[p[1]].desc, xy, tr[p[2]].desc, yz, xz)
					}
				}
			}
		}
		sameModelDiffRender := 0
		for i := 0; i < 3; i++ {
			for j := i + 1; j < 3; j++ {
				if tr[i].canon == tr[j].canon && tr[i].desc != tr[j].desc {
					sameModelDiffRender++
				}
			}
		}
		oneKind := tr[0].kind == tr[1].kind && tr[1].kind == tr[2].kind
		rec.Case(sameModelDiffRender > 0 || oneKind, tr[0].desc+"|"+tr[1].desc+"|"+tr[2].desc)
		rec.Label("theme_" + theme)
		rec.LabelIf(sameModelDiffRender > 0, "equal_values_in_different_renderings")
		rec.LabelIf(oneKind, fmt.Sprintf("triple_one_kind_%d", tr[0].kind))
		rec.LabelIf(!oneKind, "triple_cross_kind")
		rec.LabelIf(!anyKnown, "transitivity_checked")
		for i := 0; i < 3; i++ {
			if tr[i].kind == gen.KObj {
				for _, st := range tr[i].rowStates {
					rec.Label("render_row_backed_record_" + st)
				}
				rec.LabelIf(tr[i].isRec, "render_SuRecord")
				rec.LabelIf(!tr[i].isRec, "render_SuObject")
			} else {
				rec.Label("render_" + tr[i].mv.Repr)
			}
		}
		if sameModelDiffRender > 0 && rec.WantSample("equal_"+theme) {
			rec.Sample("equal_"+theme, []string{tr[0].desc, tr[1].desc, tr[2].desc})
		}
	})

	c := newCaller()
	rt.Check(t, rec, "lookup", 15000, 800000, func(t *rapid.T) {
		// container with some unrelated members
		isRec := gen.Chance(t, "isrec", 25)
		var ob core.Container
		if isRec {
			ob = core.NewSuRecord()
		} else {
			ob = &core.SuObject{}
		}
		for i := gen.Uniform(t, "nlist", 4); i > 0; i-- {
			ob.Add(core.SuStr("l"))
		}
		for i := gen.Uniform(t, "nother", 7); i > 0; i-- {
			ob.Put(nil, core.SuStr(rapid.StringMatching(`[m-z]{3}`).Draw(t, "other")), core.SuStr("o"))
		}
		// the key
		var km emodel
		switch gen.Uniform(t, "kcls", 7) {
		case 6: // a row backed record, or a container holding one, as key
			rm := genRowRecModel(t)
			switch gen.Uniform(t, "rwrap", 3) {
			case 0:
				km = emodel{o: rm}
			case 1:
				km = emodel{o: &omodel{list: []emodel{{o: rm}}}}
			default:
				k := smStr("r")
				km = emodel{o: &omodel{names: []emodel{{s: &k}}, vals: []emodel{{o: rm}}}}
			}
			rec.Label("lookup_row_record_key")
		case 5: // a concatenation value (or a container holding one) as key
			fam := genConcatFamily(t)
			m := pick(t, fam, "cf")
			km = emodel{s: &m}
			if gen.Chance(t, "inobj", 40) {
				km = emodel{o: &omodel{list: []emodel{{s: &m}}}}
			}
			rec.Label("lookup_concat_family_key")
		case 0:
			km = emodel{o: genObjModel(t, 1)}
		case 1:
			m := smInt(rapid.Int64Range(-5, 8).Draw(t, "smallint")) // may be a list index or the next one
			km = emodel{s: &m}
		default:
			km = emodel{s: genScalarModel(t)}
		}
		k1 := renderItem(t, km)
		marker := core.SuStr("found:" + km.canon())
		how := gen.Pick(t, "store", []string{"go", "lang"})
		if how == "go" {
			ob.Put(nil, k1.v, marker)
		} else if _, perr, _ := c.call("function(ob,k,v){ ob[k] = v }", ob, k1.v, marker); perr != nil {
			t.Fatalf("ob[%s] = v raises %v", k1.desc, errText(perr))
		}
		for i := 1 + gen.Uniform(t, "nlookups", 3); i > 0; i-- {
			k2 := renderItem(t, km)
			kn, _ := pairKnown(k1, k2)
			if excluded(kn) {
				continue
			}
			got := func() (v core.Value) {
				defer func() {
					if e := recover(); e != nil {
						v = core.SuStr(fmt.Sprint("panic: ", e))
					}
				}()
				return ob.GetIfPresent(nil, k2.v)
			}()
			if got == nil || got != core.Value(marker) {
				t.Fatalf("member stored under %s is not found under %s (GetIfPresent = %v) in %v", k1.desc, k2.desc, got, ob)
			}
			if !ob.HasKey(k2.v) {
				t.Fatalf("member stored under %s: HasKey(%s) is false", k1.desc, k2.desc)
			}
			v, perr, _ := c.call("function(ob,k){ ob[k] }", ob, k2.v)
			if perr != nil || v != core.Value(marker) {
				t.Fatalf("member stored under %s: ob[%s] = %v %v", k1.desc, k2.desc, v, errText(perr))
			}
			v, perr, _ = c.call("function(ob,k){ ob.Member?(k) }", ob, k2.v)
			if perr != nil || v != core.True {
				t.Fatalf("member stored under %s: ob.Member?(%s) = %v %v", k1.desc, k2.desc, v, errText(perr))
			}
			// ... and still under the rendering it was stored with (the lookups above
			// compared it, which may have unpacked lazily built parts)
			if got := ob.GetIfPresent(nil, k1.v); got != core.Value(marker) {
				t.Fatalf("member stored under %s is no longer found under that same value after lookups with %s (GetIfPresent = %v)", k1.desc, k2.desc, got)
			}
			diff := k1.desc != k2.desc
			rec.Case(diff, "lookup "+k1.desc+"|"+k2.desc)
			rec.LabelIf(diff, fmt.Sprintf("lookup_other_rendering_kind%d", k1.kind))
			rec.LabelIf(!diff, "lookup_same_rendering")
			if diff && rec.WantSample(fmt.Sprintf("lookup_kind%d", k1.kind)) {
				rec.Sample(fmt.Sprintf("lookup_kind%d", k1.kind), []string{k1.desc, k2.desc})
			}
		}
	})
}
