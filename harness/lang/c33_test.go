package lang

import (
	"fmt"
	"math/big"
	"testing"
	"time"

	"github.com/apmckinlay/gsuneido/compile"
	"github.com/apmckinlay/gsuneido/core"
	"pgregory.net/rapid"
	"verifharness/internal/ev"
	"verifharness/internal/gen"
	"verifharness/internal/kf"
	"verifharness/internal/rt"
)

// --- own proleptic Gregorian model (no use of Go's time package) ----------------

func floorDiv(a, b int64) (q, r int64) {
	q, r = a/b, a%b
	if r < 0 {
		q--
		r += b
	}
	return
}

func isLeap(y int64) bool { return y%4 == 0 && (y%100 != 0 || y%400 == 0) }

func daysInMonth(y int64, m int) int {
	switch m {
	case 4, 6, 9, 11:
		return 30
	case 2:
		if isLeap(y) {
			return 29
		}
		return 28
	}
	return 31
}

// daysFromCivil: days since 1970-01-01 of the proleptic Gregorian date y-m-d
// (m in 1..12, any d: day d is day 1 plus d-1).
func daysFromCivil(y int64, m int, d int64) int64 {
	if m <= 2 {
		y--
	}
	era, yoe := floorDiv(y, 400)
	mp := int64((m + 9) % 12)              // March = 0
	doy := (153*mp+2)/5 + d - 1            // day of the March based year
	doe := yoe*365 + yoe/4 - yoe/100 + doy // day of era
	return era*146097 + doe - 719468
}

func civilFromDays(z int64) (y int64, m int, d int) {
	z += 719468
	era, doe := floorDiv(z, 146097)
	yoe := (doe - doe/1460 + doe/36524 - doe/146096) / 365
	y = yoe + era*400
	doy := doe - (365*yoe + yoe/4 - yoe/100)
	mp := (5*doy + 2) / 153
	d = int(doy - (153*mp+2)/5 + 1)
	m = int(mp) + 3
	if m > 12 {
		m -= 12
	}
	if m <= 2 {
		y++
	}
	return
}

// cdate is a civil date and time.
type cdate struct {
	y                   int64
	mo, d, h, mi, s, ms int
}

const msPerDay = 86400000

func (c cdate) days() int64 { return daysFromCivil(c.y, c.mo, int64(c.d)) }
func (c cdate) msOfDay() int64 {
	return int64(c.ms) + 1000*(int64(c.s)+60*(int64(c.mi)+60*int64(c.h)))
}
func (c cdate) stamp() int64 { return c.days()*msPerDay + c.msOfDay() }

func (c cdate) String() string {
	return fmt.Sprintf("%04d-%02d-%02d %02d:%02d:%02d.%03d", c.y, c.mo, c.d, c.h, c.mi, c.s, c.ms)
}

// normalize: overflowed fields carried upward (months into years, then the day
// count and the time of day into days).
func normalize(y, mo, d, h, mi, s, ms int64) cdate {
	yq, m0 := floorDiv(mo-1, 12)
	y += yq
	tod := ms + 1000*(s+60*(mi+60*h))
	dq, tod := floorDiv(tod, msPerDay)
	z := daysFromCivil(y, int(m0)+1, 1) + (d - 1) + dq
	var c cdate
	c.y, c.mo, c.d = civilFromDays(z)
	c.ms = int(tod % 1000)
	tod /= 1000
	c.s = int(tod % 60)
	tod /= 60
	c.mi = int(tod % 60)
	c.h = int(tod / 60)
	return c
}

// representable: what an SuDate can hold (year 0..2999 and 3000-01-01 00:00 exactly)
func (c cdate) representable() bool {
	if c.y == 3000 {
		return c.mo == 1 && c.d == 1 && c.msOfDay() == 0
	}
	return 0 <= c.y && c.y < 3000
}

// supported: the documented range Date.Begin() .. Date.End()
func (c cdate) supported() bool { return c.representable() && c.y >= 1700 }

func cdateOf(d core.SuDate) cdate {
	return cdate{int64(d.Year()), d.Month(), d.Day(), d.Hour(), d.Minute(), d.Second(), d.Millisecond()}
}

func (c cdate) su() core.SuDate {
	return core.NewDate(int(c.y), c.mo, c.d, c.h, c.mi, c.s, c.ms)
}

// --- generators -----------------------------------------------------------------

func genCdate(t *rapid.T, label string) cdate {
	var c cdate
	switch gen.Uniform(t, label+"ycls", 4) {
	case 0:
		c.y = gen.Pick(t, label+"yedge", []int64{1700, 1701, 1799, 1800, 1899, 1900, 1901, 1970, 1999, 2000, 2001, 2024, 2099, 2100, 2199, 2200, 2399, 2400, 2800, 2999})
	case 1: // leap years and their neighbours
		c.y = 1700 + 4*int64(gen.Uniform(t, label+"y4", 325)) + int64(gen.Uniform(t, label+"yd", 3)) - 1
		c.y = max(1700, min(2999, c.y))
	default:
		c.y = 1700 + int64(gen.Uniform(t, label+"y", 1300))
	}
	c.mo = 1 + gen.Uniform(t, label+"mo", 12)
	if gen.Chance(t, label+"feb", 20) {
		c.mo = gen.Pick(t, label+"moedge", []int{1, 2, 2, 3, 12})
	}
	dim := daysInMonth(c.y, c.mo)
	switch gen.Uniform(t, label+"dcls", 4) {
	case 0:
		c.d = 1
	case 1:
		c.d = dim
	case 2:
		c.d = min(dim, 27+gen.Uniform(t, label+"dend", 5))
	default:
		c.d = 1 + gen.Uniform(t, label+"d", dim)
	}
	switch gen.Uniform(t, label+"tcls", 4) {
	case 0: // midnight
	case 1:
		c.h, c.mi, c.s, c.ms = 23, 59, 59, gen.Pick(t, label+"msend", []int{999, 998, 995, 900, 0})
	case 2:
		c.h, c.mi, c.s = gen.Uniform(t, label+"h", 24), gen.Uniform(t, label+"mi", 60), gen.Uniform(t, label+"s", 60)
		c.ms = gen.Pick(t, label+"msedge", []int{0, 1, 499, 500, 900, 994, 995, 998, 999})
	default:
		c.h, c.mi, c.s, c.ms = gen.Uniform(t, label+"h", 24), gen.Uniform(t, label+"mi", 60), gen.Uniform(t, label+"s", 60), gen.Uniform(t, label+"ms", 1000)
	}
	return c
}

var unitNames = []string{"years", "months", "days", "hours", "minutes", "seconds", "milliseconds"}

// span of the supported range in each unit (1300 years)
var unitSpan = []int64{1300, 15600, 474830, 11395920, 683755200, 41025312000, 41025312000000}

// one unit of the next larger field, in this unit (where fixed)
var unitCarry = []int64{1, 12, 31, 24, 60, 60, 1000}

func genOffset(t *rapid.T, u int, label string) (int64, string) {
	sign := int64(1)
	if rapid.Bool().Draw(t, label+"neg") {
		sign = -1
	}
	switch gen.Uniform(t, label+"mag", 6) {
	case 0:
		return sign * int64(1+gen.Uniform(t, label+"small", 3)), "small"
	case 1: // around one carry
		return sign * (unitCarry[u] + int64(gen.Uniform(t, label+"c", 5)) - 2), "carry"
	case 2: // several carries
		return sign * rapid.Int64Range(1, 50*unitCarry[u]).Draw(t, label+"medium"), "medium"
	case 3: // years worth
		return sign * rapid.Int64Range(1, unitSpan[u]/10).Draw(t, label+"large"), "large"
	case 4: // anywhere in the supported range
		return sign * rapid.Int64Range(1, unitSpan[u]).Draw(t, label+"span"), "span"
	default: // beyond
		return sign * rapid.Int64Range(unitSpan[u], 3*unitSpan[u]).Draw(t, label+"beyond"), "beyond"
	}
}

const kfMsOverflow = "plus-ms-overflow"

type plusOutcome struct {
	d    core.Value
	perr any
	rt   bool
}

func goPlus(d core.SuDate, o [7]int64) (r plusOutcome) {
	defer func() {
		if e := recover(); e != nil {
			r.perr = e
		}
	}()
	r.d = d.Plus(int(o[0]), int(o[1]), int(o[2]), int(o[3]), int(o[4]), int(o[5]), int(o[6]))
	return
}

// (Thread.Call takes fewer than 8 arguments: the offsets travel in an object)
const plusSrc = "function(d,o){ d.Plus(years: o[0], months: o[1], days: o[2], hours: o[3], minutes: o[4], seconds: o[5], milliseconds: o[6]) }"

func TestC33(t *testing.T) {
	rec := ev.New("C33", "rapid-generated valid dates 1700-2999 (edge years 1700/1800/1900/2000/2100/2400/2999, leap years and neighbours, first/last days of months, 23:59:59.999) as SuDate and SuTimestamp; offsets in one or several of the seven units with magnitudes from ±1 over one carry, many carries, up to the width of the supported range and beyond; pairs of dates for differences and order. Oracle: own days-from-civil arithmetic. Non-trivial: a Plus whose raw fields needed normalising (a carry into a higher field), a difference across a month boundary; distinct by (date, offsets) / (date, date).")
	rec.Assumptions = []string{
		"the process time zone is pinned to UTC (SuDate validity and MinusMs go through time.Local; the daylight-saving caveat of MinusSeconds is documented)",
		"a result in the years 0..1699 (representable, below Date.Begin) may be returned or refused; if returned it must be the correct date",
		"AddMs is exercised inside its callers' domain: ms == 1, or ms in 1..99 without carry out of the millisecond field",
		"offsets are bounded by three times the width of the supported range per unit (no int64 overflow in the sum of fields)",
	}
	defer rec.Write()
	defer func(l *time.Location) { time.Local = l }(time.Local)
	time.Local = time.UTC
	known := map[string]bool{}
	what := map[string]string{}
	for _, e := range kf.All("C33") {
		known[e.Key] = true
		what[e.Key] = e.What
	}
	c := newCaller()
	modelSelfCheck(t)

	rt.Check(t, rec, "plus", 20000, 2000000, func(t *rapid.T) {
		cd := genCdate(t, "d")
		d := cd.su()
		if d == core.NilDate {
			t.Fatalf("NewDate refuses the valid date %v", cd)
		}
		var o [7]int64
		nunits := gen.Pick(t, "nunits", []int{1, 1, 1, 2, 3, 7})
		var mags []string
		for i := 0; i < nunits; i++ {
			u := gen.Uniform(t, "unit", 7)
			var m string
			o[u], m = genOffset(t, u, fmt.Sprintf("o%d", i))
			if u == 2 && gen.Chance(t, "tofeb29", 10) { // land on (or next to) a 29 February
				ly := 1704 + 4*int64(gen.Uniform(t, "leap", 324))
				if !isLeap(ly) {
					ly += 4
				}
				o[u], m = daysFromCivil(ly, 2, 29)-cd.days()+int64(gen.Uniform(t, "off29", 3))-1, "to_feb29"
			}
			mags = append(mags, unitNames[u]+"_"+m)
		}
		want := normalize(cd.y+o[0], int64(cd.mo)+o[1], int64(cd.d)+o[2], int64(cd.h)+o[3], int64(cd.mi)+o[4], int64(cd.s)+o[5], int64(cd.ms)+o[6])
		desc := fmt.Sprintf("%v Plus(y %d, mo %d, d %d, h %d, mi %d, s %d, ms %d)", cd, o[0], o[1], o[2], o[3], o[4], o[5], o[6])
		msField := int64(cd.ms) + o[6]
		if msField > 9223372036854 || msField < -9223372036854 {
			rec.Label("class_" + kfMsOverflow)
			if known[kfMsOverflow] {
				rec.Excluded(kfMsOverflow)
				rec.Known(what[kfMsOverflow])
				return
			}
		}
		extra := 0
		if gen.Chance(t, "ts", 25) {
			extra = 1 + gen.Uniform(t, "extra", 255)
		}
		args := []core.Value{d}
		if extra != 0 {
			args[0] = core.DateFromLiteral(tsLiteral(cd, extra))
			if _, ok := args[0].(core.SuTimestamp); !ok {
				t.Fatalf("no timestamp from literal for %v extra %d: %v", cd, extra, args[0])
			}
		}
		offs := &core.SuObject{}
		for _, x := range o {
			offs.Add(core.IntVal(int(x)))
		}
		args = append(args, offs)
		outs := []plusOutcome{goPlus(d, o)}
		v, perr, rterr := c.call(plusSrc, args...)
		outs = append(outs, plusOutcome{v, perr, rterr})
		for i, out := range outs {
			via := []string{"SuDate.Plus", "date.Plus (compiled)"}[i]
			if out.rt {
				t.Fatalf("%s via %s: Go runtime error %v", desc, via, out.perr)
			}
			switch {
			case want.supported() || want.representable() && out.perr == nil:
				if out.perr != nil {
					t.Fatalf("%s via %s raises %q, want %v", desc, via, errText(out.perr), want)
				}
				var got core.SuDate
				switch r := out.d.(type) {
				case core.SuDate:
					got = r
					if i == 1 && extra != 0 {
						t.Fatalf("%s on a timestamp returns a plain date", desc)
					}
				case core.SuTimestamp:
					got = r.SuDate
					if want := fmt.Sprintf("%03d", extra); i != 1 || extra == 0 || r.String()[len(r.String())-3:] != want {
						t.Fatalf("%s via %s returns timestamp %v (extra wanted %d)", desc, via, r, extra)
					}
				default:
					t.Fatalf("%s via %s returns %v", desc, via, out.d)
				}
				if got == core.NilDate || cdateOf(got) != want {
					t.Fatalf("%s via %s = %v, want %v", desc, via, got, want)
				}
			case want.representable():
				// below Date.Begin and refused: accepted
			default:
				if out.perr == nil {
					t.Fatalf("%s via %s = %v, but the result %v is outside the date range: want an error", desc, via, out.d, want)
				}
			}
		}
		raw := [7]int64{cd.y + o[0], int64(cd.mo) + o[1], int64(cd.d) + o[2], int64(cd.h) + o[3], int64(cd.mi) + o[4], int64(cd.s) + o[5], int64(cd.ms) + o[6]}
		carried := raw[1] < 1 || raw[1] > 12 || raw[2] < 1 || raw[2] > int64(daysInMonth(want.y, want.mo)) || raw[3] < 0 || raw[3] > 23 ||
			raw[4] < 0 || raw[4] > 59 || raw[5] < 0 || raw[5] > 59 || raw[6] < 0 || raw[6] > 999
		rec.Case(carried && want.representable(), desc)
		for _, m := range mags {
			rec.Label("plus_" + m)
		}
		rec.LabelIf(carried, "plus_normalised")
		rec.LabelIf(!want.representable(), "plus_out_of_range")
		rec.LabelIf(want.representable() && !want.supported(), "plus_below_1700")
		rec.LabelIf(want.mo == 2 && want.d == 29, "plus_lands_on_feb29")
		rec.LabelIf(want.y/100 != cd.y/100, "plus_crosses_century")
		rec.LabelIf(extra != 0, "plus_timestamp")
		if carried && rec.WantSample("plus_"+mags[0]) {
			rec.Sample("plus_"+mags[0], map[string]string{"case": desc, "want": want.String()})
		}
	})

	rt.Check(t, rec, "diff", 20000, 2000000, func(t *rapid.T) {
		ca := genCdate(t, "a")
		var cb cdate
		rel := gen.Pick(t, "rel", []string{"indep", "near_days", "same_day", "plus_days", "near_ms", "years"})
		switch rel {
		case "indep":
			cb = genCdate(t, "b")
		case "near_days":
			cb = normalize(ca.y, int64(ca.mo), int64(ca.d)+rapid.Int64Range(-400, 400).Draw(t, "dd"), int64(gen.Uniform(t, "h", 24)), int64(gen.Uniform(t, "mi", 60)), 0, 0)
		case "same_day":
			cb = ca
			cb.h, cb.mi, cb.s, cb.ms = gen.Uniform(t, "h", 24), gen.Uniform(t, "mi", 60), gen.Uniform(t, "s", 60), gen.Uniform(t, "ms", 1000)
		case "plus_days":
			cb = normalize(ca.y, int64(ca.mo), int64(ca.d)+rapid.Int64Range(-474830, 474830).Draw(t, "dd"), int64(ca.h), int64(ca.mi), int64(ca.s), int64(ca.ms))
		case "near_ms":
			cb = normalize(ca.y, int64(ca.mo), int64(ca.d), int64(ca.h), int64(ca.mi), int64(ca.s), int64(ca.ms)+rapid.Int64Range(-200000000, 200000000).Draw(t, "dms"))
		default:
			cb = normalize(ca.y+rapid.Int64Range(-60, 60).Draw(t, "dy"), int64(ca.mo), int64(ca.d), int64(ca.h), int64(ca.mi), int64(ca.s), int64(ca.ms))
		}
		if !cb.supported() {
			cb = genCdate(t, "b2")
		}
		a, b := ca.su(), cb.su()
		if a == core.NilDate || b == core.NilDate {
			t.Fatalf("NewDate refuses %v or %v", ca, cb)
		}
		desc := fmt.Sprintf("%v vs %v", ca, cb)
		wantDays := ca.days() - cb.days()
		wantMs := ca.stamp() - cb.stamp()
		if got := a.MinusDays(b); int64(got) != wantDays {
			t.Fatalf("%s: MinusDays = %d, want %d", desc, got, wantDays)
		}
		if got := a.MinusMs(b); got != wantMs {
			t.Fatalf("%s: MinusMs = %d, want %d", desc, got, wantMs)
		}
		if v, perr, _ := c.call("function(a,b){ a.MinusDays(b) }", a, b); perr != nil || !sameInt(v, wantDays) {
			t.Fatalf("%s: a.MinusDays(b) = %v %v, want %d", desc, v, errText(perr), wantDays)
		}
		v, perr, rterr := c.call("function(a,b){ a.MinusSeconds(b) }", a, b)
		if ca.y-cb.y >= 50 {
			if perr == nil || rterr {
				t.Fatalf("%s: a.MinusSeconds(b) = %v %v, want the documented 'interval too large' error", desc, v, perr)
			}
			rec.Label("diff_interval_too_large")
		} else {
			x, ok := xOfValue(v)
			if perr != nil || !ok || x.inf != 0 || x.r.Cmp(big.NewRat(wantMs, 1000)) != 0 {
				t.Fatalf("%s: a.MinusSeconds(b) = %v %v, want %s", desc, v, errText(perr), big.NewRat(wantMs, 1000).FloatString(3))
			}
		}
		// consistency with addition: b + days == a's date, b + ms == a
		if back := goPlus(b, [7]int64{0, 0, wantDays, 0, 0, 0, 0}); back.perr != nil || cdateOf(back.d.(core.SuDate)).days() != ca.days() {
			t.Fatalf("%s: b.Plus(days: a.MinusDays(b)) = %v %v", desc, back.d, back.perr)
		}
		if wantMs < 9000000000000 && wantMs > -9000000000000 {
			if back := goPlus(b, [7]int64{0, 0, 0, 0, 0, 0, wantMs}); back.perr != nil || back.d != core.Value(a) {
				t.Fatalf("%s: b.Plus(milliseconds: a.MinusMs(b)) = %v %v", desc, back.d, back.perr)
			}
		}
		// order is chronological, also against timestamps of the same instant
		wantCmp := boolInt(wantMs > 0) - boolInt(wantMs < 0)
		if got := gen.Sgn(a.Compare(b)); got != wantCmp {
			t.Fatalf("%s: Compare = %d, want %d", desc, got, wantCmp)
		}
		if got := gen.Sgn(b.Compare(a)); got != -wantCmp {
			t.Fatalf("%s: reverse Compare = %d, want %d", desc, got, -wantCmp)
		}
		for _, op := range []string{"<", "<=", ">", ">=", "is"} {
			v, perr, _ := c.call("function(a,b){ a "+op+" b }", a, b)
			want := map[string]bool{"<": wantCmp < 0, "<=": wantCmp <= 0, ">": wantCmp > 0, ">=": wantCmp >= 0, "is": wantCmp == 0}[op]
			if perr != nil || v != core.SuBool(want) {
				t.Fatalf("%s: a %s b = %v %v, want %v", desc, op, v, errText(perr), want)
			}
		}
		ex := 1 + gen.Uniform(t, "extra", 255)
		ts := core.DateFromLiteral(tsLiteral(cb, ex))
		wantTs := wantCmp
		if wantTs == 0 {
			wantTs = -1 // same instant: the plain date sorts before its timestamps
		}
		if got := gen.Sgn(a.Compare(ts)); got != wantTs {
			t.Fatalf("%v Compare timestamp %v = %d, want %d", ca, ts, got, wantTs)
		}
		if got := gen.Sgn(ts.Compare(a)); got != -wantTs {
			t.Fatalf("timestamp %v Compare %v = %d, want %d", ts, ca, got, -wantTs)
		}
		nt := ca.y != cb.y || ca.mo != cb.mo
		rec.Case(nt, desc)
		rec.Label("diff_" + rel)
		rec.LabelIf(ca.y/100 != cb.y/100, "diff_across_century")
		rec.LabelIf(ca.y/400 != cb.y/400, "diff_across_400y")
		rec.LabelIf(wantDays == 0, "diff_same_day")
		if nt && rec.WantSample("diff_"+rel) {
			rec.Sample("diff_"+rel, map[string]string{"a": ca.String(), "b": cb.String(), "days": fmt.Sprint(wantDays), "ms": fmt.Sprint(wantMs)})
		}
	})

	rt.Check(t, rec, "literal", 10000, 1000000, func(t *rapid.T) {
		cd := genCdate(t, "d")
		if gen.Chance(t, "end", 2) {
			cd = cdate{y: 3000, mo: 1, d: 1}
		}
		switch gen.Uniform(t, "trunc", 4) { // the shorter literal forms
		case 0:
			cd.ms = 0
		case 1:
			cd.s, cd.ms = 0, 0
		case 2:
			cd.h, cd.mi, cd.s, cd.ms = 0, 0, 0, 0
		}
		d := cd.su()
		if d == core.NilDate || cdateOf(d) != cd {
			t.Fatalf("NewDate(%v) = %v", cd, d)
		}
		var v core.Value = d
		if gen.Chance(t, "ts", 30) {
			v = core.DateFromLiteral(tsLiteral(cd, 1+gen.Uniform(t, "extra", 255)))
		}
		s := v.String()
		if back := core.DateFromLiteral(s); back != v {
			t.Fatalf("DateFromLiteral(%q) = %v, want %v", s, back, v)
		}
		back, perr := func() (r core.Value, e any) {
			defer func() { e = recover() }()
			return compile.Constant(s), nil
		}()
		if perr != nil || back != v {
			t.Fatalf("compile.Constant(%q) = %v %v, want %v", s, back, perr, v)
		}
		rec.Case(true, "lit "+s)
		rec.Label(fmt.Sprintf("literal_len%d", len(s)))
	})

	rt.Check(t, rec, "valid_addms", 10000, 1000000, func(t *rapid.T) {
		// validity of constructed dates follows the calendar
		y := 1700 + int64(gen.Uniform(t, "y", 1300))
		if gen.Chance(t, "cent", 30) {
			y = gen.Pick(t, "ycent", []int64{1700, 1800, 1900, 2000, 2100, 2200, 2300, 2400, 2800, 2900})
		}
		mo := gen.Uniform(t, "mo", 14)
		d := gen.Pick(t, "d", []int{0, 1, 15, 28, 29, 30, 31, 32})
		if gen.Chance(t, "feb", 40) {
			mo = 2
		}
		h, mi, s, ms := gen.Pick(t, "h", []int{0, 12, 23, 24, -1}), gen.Pick(t, "mi", []int{0, 59, 60, -1}), gen.Pick(t, "s", []int{0, 59, 60, -1}), gen.Pick(t, "ms", []int{0, 999, 1000, -1})
		if gen.Chance(t, "timeok", 70) {
			h, mi, s, ms = 1, 2, 3, 4
		}
		wantValid := mo >= 1 && mo <= 12 && d >= 1 && d <= daysInMonth(y, max(1, min(12, mo))) &&
			h >= 0 && h <= 23 && mi >= 0 && mi <= 59 && s >= 0 && s <= 59 && ms >= 0 && ms <= 999
		got := core.NewDate(int(y), mo, d, h, mi, s, ms)
		if (got != core.NilDate) != wantValid {
			t.Fatalf("NewDate(%d,%d,%d,%d,%d,%d,%d) = %v, valid by the calendar: %v", y, mo, d, h, mi, s, ms, got, wantValid)
		}
		rec.Case(mo == 2 && d >= 28, fmt.Sprintf("valid %d %d %d %d %d %d %d", y, mo, d, h, mi, s, ms))
		rec.LabelIf(mo == 2 && d == 29, fmt.Sprintf("feb29_valid_%v", wantValid))

		// AddMs inside its callers' domain
		cd := genCdate(t, "a")
		add := 1
		if cd.ms < 900 && rapid.Bool().Draw(t, "batch") {
			add = 1 + gen.Uniform(t, "add", min(99, 999-cd.ms))
		}
		want := normalize(cd.y, int64(cd.mo), int64(cd.d), int64(cd.h), int64(cd.mi), int64(cd.s), int64(cd.ms+add))
		if !want.representable() {
			return
		}
		r := func() (r core.SuDate) {
			defer func() {
				if e := recover(); e != nil {
					t.Fatalf("%v AddMs(%d) panics: %v", cd, add, e)
				}
			}()
			return cd.su().AddMs(add)
		}()
		if cdateOf(r) != want || r != want.su() {
			t.Fatalf("%v AddMs(%d) = %v (ms field %d), want %v", cd, add, r, r.Millisecond(), want)
		}
		rec.Case(cd.ms+add > 999, fmt.Sprintf("addms %v %d", cd, add))
		rec.LabelIf(cd.ms+add > 999, "addms_carry")
		rec.LabelIf(cd.ms+add <= 999, "addms_fast")
	})
}

func tsLiteral(c cdate, extra int) string {
	return fmt.Sprintf("#%04d%02d%02d.%02d%02d%02d%03d%03d", c.y, c.mo, c.d, c.h, c.mi, c.s, c.ms, extra)
}

// modelSelfCheck: anchors and round trip of the own calendar arithmetic.
func modelSelfCheck(t *testing.T) {
	anchors := []struct {
		y    int64
		m, d int
		z    int64
	}{{1970, 1, 1, 0}, {1970, 1, 2, 1}, {1969, 12, 31, -1}, {2000, 3, 1, 11017}, {2000, 2, 29, 11016}, {1900, 3, 1, -25508}, {1900, 2, 28, -25509},
		{2024, 1, 1, 19723}, {1700, 1, 1, -98615}, {3000, 1, 1, 376200}}
	for _, a := range anchors {
		if z := daysFromCivil(a.y, a.m, int64(a.d)); z != a.z {
			t.Fatalf("model: daysFromCivil(%d-%d-%d) = %d, want %d", a.y, a.m, a.d, z, a.z)
		}
	}
	prev := daysFromCivil(1699, 12, 31)
	for y := int64(1700); y <= 3000; y++ {
		for m := 1; m <= 12; m++ {
			for d := 1; d <= daysInMonth(y, m); d++ {
				z := daysFromCivil(y, m, int64(d))
				if z != prev+1 {
					t.Fatalf("model: day numbers not consecutive at %d-%d-%d", y, m, d)
				}
				prev = z
				if y2, m2, d2 := civilFromDays(z); y2 != y || m2 != m || d2 != d {
					t.Fatalf("model: civilFromDays(%d) = %d-%d-%d, want %d-%d-%d", z, y2, m2, d2, y, m, d)
				}
			}
		}
	}
}

func boolInt(b bool) int {
	if b {
		return 1
	}
	return 0
}

func sameInt(v core.Value, want int64) bool {
	x, ok := xOfValue(v)
	return ok && x.inf == 0 && x.r.IsInt() && x.r.Num().IsInt64() && x.r.Num().Int64() == want
}
