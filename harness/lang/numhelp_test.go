package lang

// Helpers shared by the numeric checks C26, C27 and C28: exact values of
// numbers (math/big), decimal exponent / significant digit arithmetic, the
// precision criterion of util/dnum, and calling compiled Suneido functions.

import (
	"fmt"
	"math"
	"math/big"
	"runtime"

	_ "github.com/apmckinlay/gsuneido/builtin"
	"github.com/apmckinlay/gsuneido/compile"
	"github.com/apmckinlay/gsuneido/core"
	"github.com/apmckinlay/gsuneido/core/types"
	"github.com/apmckinlay/gsuneido/util/dnum"
	"pgregory.net/rapid"
	"verifharness/internal/gen"
)

// xnum is an exact number: a rational or an infinity.
type xnum struct {
	r   *big.Rat
	inf int // -1 / +1
}

func (x xnum) String() string {
	if x.inf != 0 {
		return fmt.Sprintf("%+dinf", x.inf)
	}
	return sci(x.r)
}

// sci renders a rational with 25 significant digits.
func sci(r *big.Rat) string {
	if r.IsInt() && len(r.Num().String()) <= 25 {
		return r.Num().String()
	}
	return new(big.Float).SetPrec(300).SetRat(r).Text('e', 24)
}

func xOfMV(m gen.MV) xnum { return xnum{r: m.Rat, inf: m.Inf} }

// xOfDnum reads a Dnum through its accessors only.
func xOfDnum(d dnum.Dnum) xnum {
	if d.IsInf() {
		if d.Sign() < 0 {
			return xnum{inf: -1}
		}
		return xnum{inf: +1}
	}
	return xnum{r: gen.RatOf(d)}
}

// xOfValue gives the exact value of a number Value (false if v is not a number).
func xOfValue(v core.Value) (xnum, bool) {
	if v == nil {
		return xnum{}, false
	}
	if d, ok := v.(core.SuDnum); ok {
		return xOfDnum(d.Dnum), true
	}
	if v.Type() != types.Number {
		return xnum{}, false
	}
	n, ok := v.IfInt()
	if !ok {
		return xnum{}, false
	}
	return xnum{r: new(big.Rat).SetInt64(int64(n))}, true
}

func xEqual(a, b xnum) bool {
	if a.inf != 0 || b.inf != 0 {
		return a.inf == b.inf
	}
	return a.r.Cmp(b.r) == 0
}

func xCmp(a, b xnum) int {
	if a.inf != 0 || b.inf != 0 {
		return gen.Sgn(a.inf - b.inf)
	}
	return a.r.Cmp(b.r)
}

var (
	maxInt64 = new(big.Int).SetInt64(int64(^uint64(0) >> 1))
	minInt64 = new(big.Int).Neg(new(big.Int).Add(maxInt64, big.NewInt(1)))
	// largest finite decimal .9999999999999999e127 and the overflow threshold 1e127
	decOverflow = gen.Pow10Rat(127)
	// smallest positive decimal .1e-128
	decMinPos = gen.Pow10Rat(-129)
)

func ratAbs(r *big.Rat) *big.Rat { return new(big.Rat).Abs(r) }

// decExp returns the normalised decimal exponent E of r != 0:
// 10^(E-1) <= |r| < 10^E (the value is .d1d2... * 10^E).
func decExp(r *big.Rat) int {
	if r.Sign() == 0 {
		panic("decExp(0)")
	}
	a := ratAbs(r)
	e := len(a.Num().String()) - len(a.Denom().String())
	for a.Cmp(gen.Pow10Rat(e)) >= 0 {
		e++
	}
	for a.Cmp(gen.Pow10Rat(e-1)) < 0 {
		e--
	}
	return e
}

// sigDigits returns the number of significant decimal digits of the integer n
// (trailing zeros do not count); 0 for 0.
func sigDigits(n *big.Int) int {
	if n.Sign() == 0 {
		return 0
	}
	s := new(big.Int).Abs(n).String()
	i := len(s)
	for i > 0 && s[i-1] == '0' {
		i--
	}
	return i
}

// ratSigDigits: significant digits of a rational with a terminating decimal
// expansion; -1 if the expansion does not terminate within 200 digits.
func ratSigDigits(r *big.Rat) int {
	if r.Sign() == 0 {
		return 0
	}
	x := new(big.Rat).Set(r)
	for i := 0; i < 200; i++ {
		if x.IsInt() {
			return sigDigits(x.Num())
		}
		x.Mul(x, new(big.Rat).SetInt64(10))
	}
	return -1
}

// dec16 returns the 16-digit decimals a conversion of r may produce: r itself
// if it has at most 16 significant digits, else its two 16-digit neighbours.
func dec16(r *big.Rat) []*big.Rat {
	if r.Sign() == 0 {
		return []*big.Rat{r}
	}
	if n := ratSigDigits(r); n >= 0 && n <= 16 {
		return []*big.Rat{r}
	}
	e := decExp(r)
	unit := gen.Pow10Rat(e - 16)
	q := new(big.Rat).Quo(ratAbs(r), unit) // 10^15 <= q < 10^16
	fl := new(big.Int).Quo(q.Num(), q.Denom())
	lo := new(big.Rat).Mul(new(big.Rat).SetInt(fl), unit)
	hi := new(big.Rat).Add(lo, unit)
	if r.Sign() < 0 {
		lo.Neg(lo)
		hi.Neg(hi)
	}
	return []*big.Rat{lo, hi}
}

// decArith is the precision criterion of decimal arithmetic (property C27):
// x, y are exact finite operands that are 16-digit decimals, got is the
// result. It returns the exact result, the error in units of the allowed
// tolerance (<= 1 is acceptable) and a verdict.
//
//   - -  : |got-exact| <= one unit of the 16th digit of the largest of |x|,|y|,|exact|
//   - /  : |got-exact| <= one unit of the 16th digit of |exact|
//     exact overflow (>= 1e127 within tolerance) -> ±inf; results below the
//     smallest decimal 1e-129 -> 0 (or the smallest decimal)
type decVerdict struct {
	ok    bool
	exact *big.Rat
	tol   *big.Rat
	errU  float64 // |got-exact| / tol (finite results)
	class string  // exact | within | overflow | underflow | bad...
}

func decExact(op byte, x, y *big.Rat) *big.Rat {
	e := new(big.Rat)
	switch op {
	case '+':
		e.Add(x, y)
	case '-':
		e.Sub(x, y)
	case '*':
		e.Mul(x, y)
	case '/':
		e.Quo(x, y)
	default:
		panic("decExact: op")
	}
	return e
}

func decArith(op byte, x, y *big.Rat, got xnum) decVerdict {
	e := decExact(op, x, y)
	v := decVerdict{exact: e}
	// tolerance
	top := -1 << 30
	if e.Sign() != 0 {
		top = decExp(e)
	}
	if op == '+' || op == '-' {
		if x.Sign() != 0 {
			top = max(top, decExp(x))
		}
		if y.Sign() != 0 {
			top = max(top, decExp(y))
		}
	}
	if top == -1<<30 { // 0 op 0
		v.tol = new(big.Rat)
		v.ok = got.inf == 0 && got.r.Sign() == 0
		v.class = "exact"
		if !v.ok {
			v.class = "bad_zero"
		}
		return v
	}
	v.tol = gen.Pow10Rat(top - 16)
	abse := ratAbs(e)
	if got.inf != 0 {
		// overflow is legitimate when the exact result reaches 1e127 within tolerance
		v.ok = got.inf == e.Sign() && new(big.Rat).Add(abse, v.tol).Cmp(decOverflow) >= 0
		v.class = "overflow"
		if !v.ok {
			v.class = "bad_inf"
		}
		return v
	}
	diff := new(big.Rat).Sub(got.r, e)
	diff.Abs(diff)
	u := new(big.Rat).Quo(diff, v.tol)
	v.errU, _ = u.Float64()
	if diff.Sign() == 0 {
		v.ok, v.class = true, "exact"
		return v
	}
	if got.r.Sign() == 0 && abse.Cmp(decMinPos) < 0 {
		v.ok, v.class = true, "underflow"
		return v
	}
	if diff.Cmp(v.tol) <= 0 {
		v.ok, v.class = true, "within"
		if abse.Cmp(decMinPos) < 0 {
			v.class = "underflow"
		}
		return v
	}
	v.class = "bad_precision"
	return v
}

// ulpClass buckets the error for the label distribution.
func ulpClass(v decVerdict) string {
	switch {
	case v.class != "within":
		return v.class
	case v.errU <= 0.1:
		return "err<=0.1u"
	case v.errU <= 0.5:
		return "err<=0.5u"
	case v.errU < 1:
		return "err<1u"
	default:
		return "err==1u"
	}
}

// --- calling compiled functions --------------------------------------------

type caller struct {
	th  *core.Thread
	fns map[string]core.Value
}

func newCaller() *caller {
	return &caller{th: &core.Thread{}, fns: map[string]core.Value{}}
}

// fn compiles src once.
func (c *caller) fn(src string) core.Value {
	f, ok := c.fns[src]
	if !ok {
		f = compile.Constant(src)
		c.fns[src] = f
	}
	return f
}

// call runs the compiled function src with args. A panic is returned as perr
// (the thread is replaced afterwards); a Go runtime error is flagged.
func (c *caller) call(src string, args ...core.Value) (v core.Value, perr any, rterr bool) {
	f := c.fn(src)
	defer func() {
		if e := recover(); e != nil {
			perr = e
			if _, ok := e.(runtime.Error); ok {
				rterr = true
			}
			c.th = &core.Thread{}
		}
	}()
	v = c.th.Call(f, args...)
	return
}

func errText(e any) string {
	switch x := e.(type) {
	case nil:
		return ""
	case error:
		return x.Error()
	case string:
		return x
	case *core.SuExcept:
		return string(x.SuStr)
	case core.Value:
		return x.String()
	}
	return fmt.Sprint(e)
}

func isIntRepr(m gen.MV) bool {
	return m.Kind == gen.KNum && m.Repr != "SuDnum"
}

// reprClass: smi | SuInt64 | dint (integer valued decimal) | dfrac | dzero | dinf
func reprClass(m gen.MV) string {
	if m.Repr != "SuDnum" {
		if _, ok := m.V.(core.SuInt64); ok {
			return "SuInt64"
		}
		return "smi"
	}
	switch {
	case m.Inf != 0:
		return "dinf"
	case m.Rat.Sign() == 0:
		return "dzero"
	case m.Rat.IsInt():
		return "dint"
	}
	return "dfrac"
}

// --- generator helpers with uniform class choice ---------------------------------
// (rapid's IntRange/SampledFrom favour small values / first entries: fine for
// values, wrong for class mixes - see gen/uniform.go)

// genInt64 is boundary weighted over the whole int64 range, classes equally likely.
func genInt64(t *rapid.T, label string) int64 {
	neg := func(v int64) int64 {
		if rapid.Bool().Draw(t, label+"neg") {
			return -v
		}
		return v
	}
	switch gen.Uniform(t, label+"icls", 10) {
	case 0:
		return rapid.Int64Range(-20, 20).Draw(t, label+"small")
	case 1: // around powers of two
		b := gen.Uniform(t, label+"bit", 64)
		d := rapid.Int64Range(-3, 3).Draw(t, label+"d")
		if b == 63 {
			return addClamp(math.MinInt64, d)
		}
		return addClamp(neg(int64(1)<<b), d)
	case 2: // around powers of ten
		e := gen.Uniform(t, label+"e", 19)
		return addClamp(neg(int64(p10u[e])), rapid.Int64Range(-3, 3).Draw(t, label+"d"))
	case 3: // trailing zeros
		e := gen.Uniform(t, label+"e", 19)
		m := rapid.Int64Range(-9223, 9223).Draw(t, label+"m")
		p := new(big.Int).Mul(big.NewInt(m), new(big.Int).SetUint64(p10u[e]))
		if p.IsInt64() {
			return p.Int64()
		}
		return m
	case 4:
		return rapid.Int64Range(math.MinInt16-5, math.MaxInt16+5).Draw(t, label+"i16")
	case 5:
		return rapid.Int64Range(math.MinInt32-5, math.MaxInt32+5).Draw(t, label+"i32")
	case 6:
		return gen.Pick(t, label+"edge", []int64{math.MaxInt64, math.MinInt64, math.MaxInt64 - 1, math.MinInt64 + 1,
			9999999999999999, 10000000000000000, 99999999999999999, -9999999999999999, -10000000000000000,
			math.MaxInt16, math.MinInt16, math.MaxInt16 + 1, math.MinInt16 - 1})
	case 7: // a given number of digits
		nd := 1 + gen.Uniform(t, label+"nd", 19)
		hi := int64(math.MaxInt64)
		if nd < 19 {
			hi = int64(p10u[nd]) - 1
		}
		return neg(rapid.Int64Range(int64(p10u[nd-1]), hi).Draw(t, label+"n"))
	default:
		return rapid.Int64().Draw(t, label+"any")
	}
}

// intAs picks a representation of the integer n, each available one equally likely.
func intAs(t *rapid.T, n int64) gen.MV {
	m := gen.MV{Kind: gen.KNum, Rat: new(big.Rat).SetInt64(n)}
	reprs := []string{"IntVal", "Int64Val"}
	dn := dnum.FromInt(n)
	if x, ok := dn.ToInt64(); ok && x == n {
		reprs = append(reprs, "SuDnum", "SuDnum")
	}
	switch r := gen.Pick(t, "repr", reprs); r {
	case "IntVal":
		m.V, m.Repr = core.IntVal(int(n)), r
	case "Int64Val": // SuInt64 also at the two boundary values of the small int range
		m.V, m.Repr = core.Int64Val(n), r
	default:
		m.V, m.Repr = core.SuDnum{Dnum: dn}, r
	}
	return m
}

func intMV(t *rapid.T, label string) gen.MV { return intAs(t, genInt64(t, label)) }

// strAs picks a representation of the string s uniformly.
func strAs(t *rapid.T, s string) gen.MV {
	m := gen.MV{Kind: gen.KStr, S: s}
	switch gen.Uniform(t, "srepr", 3) {
	case 0:
		m.V, m.Repr = core.SuStr(s), "SuStr"
	case 1:
		k := rapid.IntRange(0, len(s)).Draw(t, "cut")
		m.V, m.Repr = core.NewSuConcat().Add(s[:k]).Add(s[k:]), "SuConcat"
	default:
		m.V, m.Repr = core.NewSuExcept(&core.Thread{}, core.SuStr(s)), "SuExcept"
	}
	return m
}
