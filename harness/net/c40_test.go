package netx

import (
	"encoding/hex"
	"encoding/json"
	"fmt"
	"hash/fnv"
	"net"
	"os"
	"regexp"
	"sort"
	"strings"
	"sync"
	"testing"
	"time"

	"github.com/apmckinlay/gsuneido/compile"
	"github.com/apmckinlay/gsuneido/core"
	"github.com/apmckinlay/gsuneido/dbms/mux"
	"pgregory.net/rapid"
	"verifharness/internal/ev"
	"verifharness/internal/gen"
	"verifharness/internal/rt"
)

const maxio = 1 << 20 // the documented message limit (1 MB)

// ---------------------------------------------------------------- script

// rowv is the generated content of one row of t0/t1: (k, a, b, c).
type rowv struct {
	K    int
	A    int
	B    bin    // packed scalar
	BStr string // rendering of B
	CLen int    // c is a derived string of this length
	Seed int
}

// bin is a byte string that survives JSON (journal files) as hex.
type bin string

func (b bin) MarshalText() ([]byte, error) { return []byte(hex.EncodeToString([]byte(b))), nil }
func (b *bin) UnmarshalText(t []byte) error {
	d, err := hex.DecodeString(string(t))
	*b = bin(d)
	return err
}

func (r rowv) String() string {
	return fmt.Sprintf("{k:%d a:%d b:%s c:[%d]}", r.K, r.A, r.BStr, r.CLen)
}

// bigStr is a string of n bytes whose content depends on its length, the
// seed and the position, so truncation, duplication and reordering of parts
// change it.
func bigStr(n, seed int) string {
	b := make([]byte, n)
	x := uint32(seed*2654435761) ^ uint32(n)
	for i := range b {
		if i%64 == 0 {
			x = x*1664525 + 1013904223 + uint32(i)
		}
		b[i] = 'a' + byte((x>>8+uint32(i))%26)
	}
	return string(b)
}

type op struct {
	K   string // kind
	H   int    // handle selector (taken modulo the open handles at run time)
	H2  int
	S   string
	N   int
	Dir byte
	B   bool
	Row rowv
}

func (o op) String() string {
	s := o.K
	str := fmt.Sprintf("%q", o.S)
	if len(o.S) > 70 {
		str = fmt.Sprintf("[%d]%q..", len(o.S), o.S[:50])
	}
	switch o.K {
	case "admin", "query", "cursor", "action", "log", "sessionid", "libget", "kill":
		s += fmt.Sprintf(" %s h%d", str, o.H)
	case "run", "exec":
		s += fmt.Sprintf(" %s n%d %s", str, o.N, o.Row.BStr)
	case "get":
		s += fmt.Sprintf(" h%d h%d %c", o.H, o.H2, o.Dir)
	case "getone":
		s += fmt.Sprintf(" h%d %s k=%d %c %v", o.H, str, o.N, o.Dir, o.B)
	case "output", "update":
		s += fmt.Sprintf(" h%d %v", o.H, o.Row)
	case "abandon":
		s += fmt.Sprintf(" %s unpackable%d %c in-tran=%v h%d", o.S, o.N, o.Dir, o.B, o.H)
	case "tran", "strategy", "check":
		s += fmt.Sprintf(" %v h%d", o.B, o.H)
	case "asof":
		s += fmt.Sprintf(" h%d %d", o.H, o.N)
	default:
		s += fmt.Sprintf(" h%d", o.H)
	}
	return s
}

var queries40 = []string{
	"t0", "t0 sort a", "t0 sort reverse k", "t0 sort k", "t1", "t1 sort k",
	"t0 where a = 2", "t0 where k > 3 sort k", "t0 where a in (1, 3) sort a, k",
	"t0 project a", "t0 project k, c", "t0 join t1", "t0 leftjoin t1 sort k", "t0 union t1",
	"t0 extend x = a $ 'z' sort k", "t0 extend n = c.Size()", "t0 summarize count", "t0 summarize a, total k",
	"t0 rename a to aa sort aa", "t0 where c.Size() > 5000", "t0 times (t1 project d)", "t0 minus (t0 where a = 1)",
	"v0", "v0 sort k", "tables", "columns where table = 't0'", "indexes",
	"nosuch", "t0 where", "t0 sort nosuchcol", "",
}

var admins40 = []string{
	"create t1 (k, d) key(k)", "ensure t1 (k, d, e) key(k) index(e)", "alter t1 create (f)", "alter t1 drop (d)",
	"alter t0 create (z) index(z)", "alter t0 rename b to bb", "rename t1 to t2", "rename t2 to t1", "drop t1",
	"view v0 = t0 where a > 1", "drop v0", "create t0 (k) key(k)", "create", "drop nosuch",
	"alter t0 create (k)", "alter t0 drop (c)",
}

var actions40 = []string{
	"update t0 where a = 1 set a = 4", "delete t0 where a = 2", "delete t0 where k > 1000",
	"update t0 set b = 'upd'", "delete t1", "update nosuch set a = 1", "delete t0 where",
	"update t0 where k = 1 set k = 2",
}

var codes40 = []string{
	"123", "'abc' $ 'def'", "Object(1, 2, a: 3)", "#20200101.123", "1/3", "-0.0001e-20", "true", "''",
	"throw 'boom'", "x = ", "", "#(1, (2, 3), a: #{b: 4})", "'\\x00\\xff'.Repeat(3)", "1.Max(2)",
	"QueryFirst('t0 sort k')", "Query1('t0', k: 1)", "QueryAll('t0 sort k', 3)", "QueryLast('t0 sort a')",
	"QueryOutput('t0', [k: 7777, a: 1, b: 'via run'])", "QueryDo('delete t0 where k = 7777')",
	"Record(a: 1).Copy()", "Date().Year() > 2000", "nosuchglobal", "Suneido.x40 = 5", "Suneido.GetDefault('x40', 0)",
}

func genSize(t *rapid.T, label string) int {
	switch gen.Pick(t, label+"cls", []int{0, 0, 0, 0, 0, 0, 1, 1, 1, 1, 1, 2, 2, 2, 2, 2, 2, 3}) {
	case 0:
		return rapid.IntRange(0, 30).Draw(t, label)
	case 1:
		return rapid.IntRange(3900, 4250).Draw(t, label)
	case 2:
		return rapid.IntRange(4096, 70000).Draw(t, label)
	}
	return rapid.IntRange(100000, 998000).Draw(t, label)
}

func genRow(t *rapid.T, k int) rowv {
	b := gen.ScalarMV().Draw(t, "b")
	return rowv{K: k, A: rapid.IntRange(0, 4).Draw(t, "a"), B: bin(core.PackValue(b.V)), BStr: b.String(),
		CLen: genSize(t, "clen"), Seed: rapid.IntRange(0, 255).Draw(t, "seed")}
}

// genScript generates a request script. A light model of what is probably
// open steers the choice; validity is decided at run time.
func genScript(t *rapid.T) []op {
	ops := []op{{K: "admin", S: "create t0 (k, a, b, c) key(k) index(a)"},
		{K: "admin", S: "create stdlib (name, group, text) key(name, group)"}}
	if gen.Chance(t, "t1", 60) {
		ops = append(ops, op{K: "admin", S: "create t1 (k, d) key(k)"})
	}
	n := 6 + gen.Uniform(t, "nops", 35)
	nextK := 0
	utrans, trans, qs := 0, 0, 0
	sel := func(label string) int { return gen.Uniform(t, label, 8) }
	for i := 0; i < n; i++ {
		kinds := []string{"tran", "tran", "admin", "getone", "getone", "run", "exec", "misc", "cursor", "libput",
			"wblock", "wblock", "mblock", "mblock", "mblock", "abandon", "abandon"}
		if trans > 0 {
			kinds = append(kinds, "query", "query", "query", "commit", "commit", "abort", "getone", "asof")
		}
		if utrans > 0 {
			kinds = append(kinds, "action", "action")
		}
		if qs > 0 {
			kinds = append(kinds, "get", "get", "get", "get", "output", "output", "output", "update", "erase",
				"rewind", "header", "keys", "order", "strategy", "close")
		}
		o := op{K: gen.Pick(t, "kind", kinds), H: sel("h"), H2: sel("h2")}
		switch o.K {
		case "abandon":
			// A request that cannot be completed because an argument (or the
			// result) cannot be packed: the client gives up after it has begun
			// to encode it (Get/Query1/First/Last encode command, direction
			// and transaction before the query object; Exec packs first), or
			// the server gives up a reply it has begun. The caller catches the
			// exception and goes on using the same session / transaction / query.
			o.S = gen.Pick(t, "abandon what", []string{"getone", "getone", "getone", "exec", "run"})
			o.N = gen.Uniform(t, "unpackable", 5)
			o.Dir = gen.Pick(t, "dir", []byte{'1', '@'})
			o.B = gen.Chance(t, "in transaction", 50)
			ops = append(ops, o)
			// ... followed by valid requests on the same session
			for j := 1 + gen.Uniform(t, "followers", 2); j > 0; j-- {
				fk := []string{"size", "run", "getone", "getone", "libraries", "transactions"}
				if trans > 0 {
					fk = append(fk, "getone-in-tran", "getone-in-tran", "query")
				}
				if qs > 0 {
					fk = append(fk, "get", "get", "header")
				}
				fo := op{K: gen.Pick(t, "follower", fk), H: sel("h"), H2: sel("h2"), Dir: '+'}
				switch fo.K {
				case "run":
					fo.S = gen.Pick(t, "code", codes40[:8])
				case "getone":
					fo.S, fo.N, fo.Dir = "t0", gen.Uniform(t, "k", 4), gen.Pick(t, "dir", []byte{'1', '@'})
				case "getone-in-tran":
					fo.K, fo.B = "getone", true
					fo.S, fo.N, fo.Dir = "t0 sort k", -1, gen.Pick(t, "dir", []byte{'+', '-'})
				case "query":
					fo.S = gen.Pick(t, "q", queries40[:6])
					qs++
				}
				ops = append(ops, fo)
			}
			continue
		case "wblock": // what QueryOutput does: transaction, query, output rows, commit (H -1 = the newest handle)
			ops = append(ops, op{K: "tran", B: true}, op{K: "query", H: -1, S: gen.Pick(t, "wq", []string{"t0", "t0", "t1", "t0 sort k"})})
			for j := 1 + gen.Uniform(t, "rows", 3); j > 0; j-- {
				ops = append(ops, op{K: "output", H: -1, Row: genRow(t, nextK)})
				nextK++
			}
			if gen.Chance(t, "commit now", 70) {
				ops = append(ops, op{K: "commit", H: -1})
			} else {
				trans, utrans, qs = trans+1, utrans+1, qs+1
			}
			continue
		case "mblock": // read rows and update / delete them
			ops = append(ops, op{K: "tran", B: gen.Chance(t, "mupdate", 90)},
				op{K: "query", H: -1, S: gen.Pick(t, "mq", []string{"t0", "t0 sort k", "t0 sort reverse k", "t0 where a = 2", "t1", "t0 sort a"})})
			for j := 1 + gen.Uniform(t, "rows", 4); j > 0; j-- {
				ops = append(ops, op{K: "get", H: -1, H2: -1, Dir: gen.Pick(t, "dir", []byte{'+', '+', '-'})})
				switch gen.Uniform(t, "mod", 3) {
				case 0:
					ops = append(ops, op{K: "update", H: -1, Row: genRow(t, gen.Uniform(t, "k", nextK+2))})
				case 1:
					ops = append(ops, op{K: "erase", H: -1})
				}
			}
			if gen.Chance(t, "commit now", 70) {
				ops = append(ops, op{K: "commit", H: -1})
			} else {
				trans, utrans, qs = trans+1, utrans+1, qs+1
			}
			continue
		case "tran":
			o.B = gen.Chance(t, "update", 70)
			trans++
			if o.B {
				utrans++
			}
		case "commit", "abort":
			trans--
			utrans = max(0, utrans-1)
			qs = 0
		case "admin":
			o.S = gen.Pick(t, "admin", admins40)
		case "query", "cursor":
			o.S = gen.Pick(t, "q", queries40)
			qs++
		case "get":
			o.Dir = gen.Pick(t, "dir", []byte{'+', '+', '+', '-'})
		case "getone":
			o.S = gen.Pick(t, "q", queries40)
			o.N = rapid.IntRange(-1, 12).Draw(t, "k") // -1: no selector
			o.Dir = gen.Pick(t, "dir", []byte{'+', '-', '1', '@', '?'})
			o.B = gen.Chance(t, "in transaction", 50)
		case "output", "update":
			k := nextK
			if gen.Chance(t, "dupkey", 15) {
				k = rapid.IntRange(0, max(0, nextK)).Draw(t, "k")
			} else {
				nextK++
			}
			o.Row = genRow(t, k)
		case "action":
			if gen.Chance(t, "insert", 50) {
				o.S = fmt.Sprintf("insert { k: %d, a: %d, b: 'act' } into t0", nextK, nextK%5)
				nextK++
			} else {
				o.S = gen.Pick(t, "action", actions40)
			}
		case "strategy":
			o.B = gen.Chance(t, "formatted", 50)
		case "asof":
			o.N = gen.Pick(t, "asof", []int{0, 0, -1, 1})
		case "run":
			switch gen.Uniform(t, "runcls", 6) {
			case 0: // a large literal travels both ways
				o.N = genSize(t, "len")
				o.S = "'" + bigStr(o.N, i) + "'"
			case 1: // a large result
				o.N = genSize(t, "len")
				o.S = fmt.Sprintf("'%s'.Repeat(%d)", "ab", o.N/2)
			default:
				o.S = gen.Pick(t, "code", codes40)
			}
		case "exec":
			o.S = gen.Pick(t, "fn", []string{"Object", "Max", "Type", "Display", "Nosuch", "Object.Nosuch", "String"})
			o.N = genSize(t, "len")
			v := gen.ScalarMV().Draw(t, "v")
			o.Row = rowv{B: bin(core.PackValue(v.V)), BStr: v.String(), Seed: i}
		case "libput":
			// a library record, so that LibGet has something (large) to send
			o.K = "action"
			o.N = genSize(t, "len")
			o.S = fmt.Sprintf("insert { name: 'Lib%d', group: -1, text: %q } into stdlib", gen.Uniform(t, "lib", 4), bigStr(o.N, i))
		case "misc":
			o.K = gen.Pick(t, "misc", []string{"size", "info", "final", "transactions", "timestamp", "libraries", "libget",
				"log", "nonce", "token", "sessionid", "kill", "check", "connections", "cursors", "newsession"})
			switch o.K {
			case "libget":
				o.S = gen.Pick(t, "name", []string{"Lib0", "Lib1", "Lib2", "Lib3", "Nothing", ""})
			case "log":
				o.S = logMark + fmt.Sprintf(" %d ", i) + bigStr(rapid.IntRange(0, 300).Draw(t, "loglen"), i)
			case "sessionid":
				o.S = gen.Pick(t, "sid", []string{"sess1", "", "another session"})
			case "kill":
				o.S = "nobody-has-this-session-id"
			case "check":
				o.B = gen.Chance(t, "full", 50)
			case "newsession":
				trans, utrans, qs = 0, 0, 0
			}
		}
		ops = append(ops, o)
	}
	// most scripts end with committed data
	if utrans > 0 && gen.Chance(t, "final commit", 75) {
		ops = append(ops, op{K: "commit", H: 0})
	}
	return ops
}

// ---------------------------------------------------------------- execution

type tranH struct {
	t      core.ITran
	update bool
	serial int // creation order: the same on both sides
	// gone: offsets this transaction has already deleted or replaced. A second
	// delete of a row that was output in the same transaction is not refused
	// by the database and breaks its index merge (reported separately);
	// the scripts stay clear of it.
	gone map[uint64]bool
}

type queryH struct {
	q      core.IQuery
	c      core.ICursor
	tran   *tranH
	last   core.Row
	tbl    string
	fields []string
	broken bool // the query / cursor request failed
}

func (qh *queryH) qc() core.IQueryCursor {
	if qh.c != nil {
		return qh.c
	}
	return qh.q
}

// side is one executor of the script: the database used directly
// (DbmsLocal) or through a client session.
type side struct {
	name   string
	d      core.IDbms
	th     *core.Thread
	sv     *core.Sviews
	call   func(func()) string
	newSes func() core.IDbms // remote only
	trans  []*tranH
	qs     []*queryH
	lastTs core.SuDate
	dead   bool
	// barrier waits until the database's transaction checker has processed
	// what the request queued (reads and writes are reported to it
	// asynchronously, so the request at which a doomed transaction notices
	// its abort would otherwise depend on timing, on either side)
	barrier func()
	active  func() []int // the served database's active update transactions (read directly)
	// involved is the serial of the transaction the current request used (0 = none)
	involved  int
	ntrans    int
	oneUpdate bool
}

var tranNumRx = regexp.MustCompile(`\b([ur]t)\d+\b`)
var numRx = regexp.MustCompile(`\d+`)

func normErr(s string) string {
	s = strings.ReplaceAll(s, " (from server)", "")
	return tranNumRx.ReplaceAllString(s, "${1}N")
}

func hashStr(s string) string {
	if len(s) <= 40 {
		return fmt.Sprintf("%q", s)
	}
	h := fnv.New64a()
	h.Write([]byte(s))
	return fmt.Sprintf("[%d]%016x", len(s), h.Sum64())
}

func normRow(row core.Row, hdr *core.Header, tbl string) string {
	if row == nil {
		return "eof"
	}
	cols := append([]string(nil), hdr.Columns...)
	sort.Strings(cols)
	var sb strings.Builder
	fmt.Fprintf(&sb, "row tbl=%q off=%v", tbl, row[0].Off != 0)
	for _, col := range cols {
		if strings.HasSuffix(col, "_lower!") {
			continue
		}
		fmt.Fprintf(&sb, " %s=%s", col, hashStr(row.GetRaw(hdr, col)))
	}
	return sb.String()
}

func valStr(v core.Value) string {
	if v == nil {
		return "nil"
	}
	var s string
	if e := protect(func() { s = "val " + hashStr(core.PackValue(v)) }); e != "" {
		return "unpackable " + v.Type().String()
	}
	return s
}

func (s *side) buildRec(fields []string, r rowv) core.Record {
	var rb core.RecordBuilder
	for _, f := range fields {
		switch f {
		case "k":
			rb.Add(core.IntVal(r.K))
		case "a", "aa":
			rb.Add(core.IntVal(r.A))
		case "b", "bb", "d":
			rb.AddRaw(string(r.B))
		case "c":
			rb.Add(core.SuStr(bigStr(r.CLen, r.Seed)))
		default: // "-" (deleted) and columns added later
			rb.AddRaw("")
		}
	}
	return rb.Trim().Build()
}

func (s *side) closeTran(th *tranH) {
	for i, t := range s.trans {
		if t == th {
			s.trans = append(s.trans[:i:i], s.trans[i+1:]...)
			break
		}
	}
	var keep []*queryH
	for _, q := range s.qs {
		if q.tran != th || q.c != nil {
			keep = append(keep, q)
		}
		if q.tran == th && q.c != nil {
			q.tran, q.last = nil, nil
		}
	}
	s.qs = keep
}

// waitGone waits (watchdog 10 s) until none of the update transactions nums
// is active in the served database.
func (s *side) waitGone(nums []int) bool {
	for i := 0; i < 100000; i++ {
		active := s.active()
		gone := true
		for _, n := range nums {
			for _, a := range active {
				gone = gone && a != n
			}
		}
		if gone {
			return true
		}
		time.Sleep(100 * time.Microsecond)
	}
	return false
}

// exec runs one op and returns its normalised, comparable result.
func (s *side) exec(o op) (res string) {
	if s.dead {
		return "dead"
	}
	var r string
	s.involved = 0
	errstr := s.call(func() { r = s.exec1(o) })
	if s.barrier != nil {
		s.barrier()
	}
	if errstr == errLost || errstr == errHang {
		s.dead = true
		return errstr
	}
	if errstr != "" {
		return normErr(errstr)
	}
	return r
}

func (s *side) exec1(o op) string {
	const skip = "skip"
	d, th := s.d, s.th
	pickT := func() *tranH {
		if len(s.trans) == 0 {
			return nil
		}
		t := s.trans[len(s.trans)-1]
		if o.H >= 0 {
			t = s.trans[o.H%len(s.trans)]
		}
		s.involved = t.serial
		return t
	}
	pickQ := func() *queryH {
		if len(s.qs) == 0 {
			return nil
		}
		q := s.qs[len(s.qs)-1]
		if o.H >= 0 {
			q = s.qs[o.H%len(s.qs)]
		}
		if q.tran != nil {
			s.involved = q.tran.serial
		}
		if q.broken {
			return nil
		}
		return q
	}
	switch o.K {
	case "admin":
		d.Admin(o.S, s.sv)
		return "ok"
	case "tran":
		if o.B && s.oneUpdate {
			// Overlapping update transactions that conflict are resolved by
			// the database in an order that depends on Go map iteration and
			// goroutine timing (a different loser per run): a differential
			// needs a deterministic database, so the script keeps at most one
			// update transaction open (any number of read-only ones).
			for _, t := range s.trans {
				if t.update {
					return skip
				}
			}
		}
		s.ntrans++
		t := d.Transaction(o.B)
		s.trans = append(s.trans, &tranH{t: t, update: o.B, serial: s.ntrans})
		return "tran " + numRx.ReplaceAllString(t.String(), "")
	case "commit":
		t := pickT()
		if t == nil {
			return skip
		}
		defer s.closeTran(t) // the transaction is gone whatever the outcome
		return "commit " + normErr(t.t.Complete())
	case "abort":
		t := pickT()
		if t == nil {
			return skip
		}
		defer s.closeTran(t)
		return "abort " + t.t.Abort()
	case "query":
		t := pickT()
		if t == nil {
			return skip
		}
		qh := &queryH{tran: t, broken: true}
		s.qs = append(s.qs, qh) // also when the query is refused: the handle numbering stays the script's
		qh.q = t.t.Query(o.S, s.sv)
		qh.broken = false
		return "query"
	case "cursor":
		qh := &queryH{broken: true}
		s.qs = append(s.qs, qh)
		qh.c = d.Cursor(o.S, s.sv)
		qh.broken = false
		return "cursor"
	case "get":
		q := pickQ()
		if q == nil {
			return skip
		}
		var row core.Row
		var tbl string
		dir := core.Dir(o.Dir)
		if q.c != nil {
			if len(s.trans) == 0 {
				return skip
			}
			t := s.trans[len(s.trans)-1]
			if o.H2 >= 0 {
				t = s.trans[o.H2%len(s.trans)]
			}
			q.tran = t
			s.involved = t.serial
			row, tbl = q.c.Get(th, t.t, dir)
		} else {
			row, tbl = q.q.Get(th, dir)
		}
		hdr := q.qc().Header()
		q.last, q.tbl = row, tbl
		return normRow(row, hdr, tbl)
	case "rewind":
		q := pickQ()
		if q == nil {
			return skip
		}
		q.qc().Rewind()
		return "ok"
	case "header":
		q := pickQ()
		if q == nil {
			return skip
		}
		hdr := q.qc().Header()
		cols := append([]string(nil), hdr.Columns...)
		sort.Strings(cols)
		return fmt.Sprint("header ", cols, hdr.GetFields())
	case "keys":
		q := pickQ()
		if q == nil {
			return skip
		}
		return fmt.Sprint("keys ", q.qc().Keys())
	case "order":
		q := pickQ()
		if q == nil {
			return skip
		}
		return fmt.Sprint("order ", q.qc().Order())
	case "strategy":
		q := pickQ()
		if q == nil {
			return skip
		}
		return "strategy " + q.qc().Strategy(o.B)
	case "close":
		q := pickQ()
		if q == nil {
			return skip
		}
		for i, x := range s.qs {
			if x == q {
				s.qs = append(s.qs[:i:i], s.qs[i+1:]...)
			}
		}
		q.qc().Close()
		return "ok"
	case "output":
		q := pickQ()
		if q == nil || q.q == nil {
			return skip
		}
		if q.fields == nil {
			q.fields = q.q.Header().GetFields()
		}
		q.q.Output(th, s.buildRec(q.fields, o.Row))
		return "ok"
	case "update", "erase":
		q := pickQ()
		if q == nil || q.last == nil || q.tran == nil {
			return skip
		}
		off := q.last[0].Off
		tbl := q.tbl
		if tbl == "" || off == 0 || q.tran.gone[off] {
			// not updateable: the callers (SuRecord.Update/Delete) refuse
			// before anything reaches the dbms interface
			return skip
		}
		q.last = nil
		if q.tran.gone == nil {
			q.tran.gone = map[uint64]bool{}
		}
		q.tran.gone[off] = true
		if o.K == "erase" {
			q.tran.t.Delete(th, tbl, off)
			return "ok"
		}
		fields := q.qc().Header().GetFields()
		newoff := q.tran.t.Update(th, tbl, off, s.buildRec(fields, o.Row))
		return fmt.Sprint("updated ", newoff != 0)
	case "action":
		t := pickT()
		if t == nil {
			return skip
		}
		for _, q := range s.qs {
			if q.tran == t {
				q.last = nil // the action may delete the row (see tranH.gone)
			}
		}
		return fmt.Sprint("action ", t.t.Action(th, o.S))
	case "getone":
		args := core.SuObjectOf(core.SuStr(o.S))
		if o.N >= 0 {
			args.Set(core.SuStr("k"), core.IntVal(o.N))
		}
		var row core.Row
		var hdr *core.Header
		var tbl string
		if t := pickT(); t != nil && o.B {
			row, hdr, tbl = t.t.Get(th, args, core.Dir(o.Dir))
		} else {
			row, hdr, tbl = d.Get(th, args, core.Dir(o.Dir))
		}
		if row == nil {
			return "none"
		}
		if o.Dir == '?' {
			return "strategy " + tbl
		}
		return normRow(row, hdr, tbl)
	case "asof":
		t := pickT()
		if t == nil {
			return skip
		}
		return fmt.Sprint("asof ", t.t.Asof(int64(o.N)) != 0)
	case "size":
		return fmt.Sprint("size ", d.Size() > 0)
	case "info":
		ob := d.Info().(*core.SuObject)
		return fmt.Sprint("info ", ob.Get(th, core.SuStr("timeoutMin")), ob.Get(th, core.SuStr("currentSize")) != nil)
	case "final":
		return fmt.Sprint("final ", d.Final())
	case "transactions":
		list := d.Transactions()
		var hs []string
		for i := 0; i < list.ListSize(); i++ {
			n, _ := list.ListGet(i).ToInt()
			h := "?"
			for j, t := range s.trans {
				if t.t.Num() == n {
					h = fmt.Sprint("h", j)
				}
			}
			hs = append(hs, h)
		}
		sort.Strings(hs)
		return fmt.Sprint("transactions ", hs)
	case "timestamp":
		ts := d.Timestamp()
		if ts.Compare(s.lastTs) <= 0 {
			return "timestamp NOT INCREASING " + ts.String()
		}
		s.lastTs = ts
		return "timestamp ok"
	case "libraries":
		return fmt.Sprint("libraries ", d.Libraries())
	case "libget":
		defs := d.LibGet(o.S)
		var sb strings.Builder
		for _, x := range defs {
			sb.WriteString(hashStr(x) + " ")
		}
		return "libget " + sb.String()
	case "log":
		n0, _ := logCap.marked()
		d.Log(o.S)
		n1, last := logCap.marked()
		return fmt.Sprint("log lines ", n1-n0, " ", strings.HasSuffix(last, strings.TrimSpace(o.S)))
	case "nonce":
		return fmt.Sprint("nonce ", len(d.Nonce(th)))
	case "token":
		return fmt.Sprint("token ", len(d.Token()))
	case "sessionid":
		got := d.SessionId(th, o.S)
		if o.S == "" {
			return fmt.Sprint("sessionid keeps ", got == th.Session())
		}
		return "sessionid " + got
	case "kill":
		return fmt.Sprint("kill ", d.Kill(o.S))
	case "check":
		return "check " + d.Check(o.B)
	case "connections":
		// the list is process-wide server state (both sides read the same one)
		ob := d.Connections().(*core.SuObject)
		for i := 0; i < ob.ListSize(); i++ {
			if _, ok := ob.ListGet(i).(core.SuStr); !ok {
				return "connections: not a string " + ob.String()
			}
		}
		return "connections ok"
	case "cursors":
		// DbmsLocal.Cursors is a stub (0); the server counts the session's cursors
		n := d.Cursors()
		if s.newSes == nil {
			return "cursors ok"
		}
		want := 0
		for _, q := range s.qs {
			if q.c != nil {
				want++
			}
		}
		if n != want {
			return fmt.Sprintf("cursors %d, session has %d", n, want)
		}
		return "cursors ok"
	case "newsession":
		// end the session (aborting what it has open) and continue on a new
		// one over the same connection
		var nums []int
		for _, t := range append([]*tranH(nil), s.trans...) {
			if s.newSes == nil {
				t.t.Abort()
			} else if t.update {
				nums = append(nums, t.t.Num())
			}
			s.closeTran(t)
		}
		s.qs = nil
		if s.newSes != nil {
			d.Close() // EndSession: the server aborts the session's transactions
			// EndSession is not answered and other sessions' requests are
			// served by other workers: wait until its effect is there
			if !s.waitGone(nums) {
				return fmt.Sprint("EndSession did not abort the session's update transactions ", nums)
			}
			s.d = s.newSes()
			s.th = core.NewThread(nil)
			s.th.SetDbms(s.d)
		}
		return "ok"
	case "abandon":
		return s.abandon(o, pickT)
	case "run":
		return "run " + valStr(d.Run(th, o.S))
	case "exec":
		ob := core.SuObjectOf(core.SuStr(o.S), core.Unpack(string(o.Row.B)), core.SuStr(bigStr(o.N, o.Row.Seed)))
		if o.S == "Object" {
			ob.Set(core.SuStr("named"), core.Unpack(string(o.Row.B)))
		}
		return "exec " + valStr(d.Exec(th, ob))
	}
	panic("unknown op " + o.K)
}

// unpackable returns a value that cannot be sent: an object containing
// itself, a function, a class instance, or one of these deep inside an
// otherwise ordinary object.
func unpackable(th *core.Thread, variant int) core.Value {
	fn := core.Global.GetName(th, "Type") // a builtin function
	switch variant {
	case 0:
		ob := core.SuObjectOf(core.IntVal(1))
		ob.Add(ob)
		return ob
	case 1:
		return fn
	case 2:
		inner := core.SuObjectOf(core.SuStr("deep"), fn)
		return core.SuObjectOf(core.IntVal(1), core.SuObjectOf(core.SuStr("x"), core.SuObjectOf(inner)))
	case 3:
		var inst core.Value
		if e := protect(func() { inst = compile.EvalString(th, "class { }()") }); e != "" || inst == nil {
			return fn
		}
		return inst
	}
	ob := core.SuObjectOf(core.IntVal(1))
	mid := core.SuObjectOf(core.SuStr("m"), ob)
	ob.Set(core.SuStr("loop"), mid)
	return core.SuObjectOf(core.SuStr("outer"), mid)
}

// abandon makes a request that must fail because a value cannot be packed.
// Both ways of access must refuse it; what matters is what follows.
func (s *side) abandon(o op, pickT func() *tranH) string {
	d, th := s.d, s.th
	unp := unpackable(th, o.N)
	switch o.S {
	case "getone":
		// the query argument object with an unpackable selector value on a
		// plain table with Query1 / QueryEmpty?: the direct path packs the
		// selectors too, so both ways must raise. (QueryFirst/Last directly
		// render the value into a where clause instead: a function is
		// accepted there, a different question from the one asked here.)
		args := core.SuObjectOf(core.SuStr("t0"))
		args.Set(core.SuStr("k"), core.IntVal(1))
		args.Set(core.SuStr("b"), unp)
		e := protect(func() {
			if t := pickT(); t != nil && o.B {
				t.t.Get(th, args, core.Dir(o.Dir))
			} else {
				d.Get(th, args, core.Dir(o.Dir))
			}
		})
		if e == "" {
			return "abandon getone: accepted"
		}
		return "abandon getone: raised"
	case "exec", "run":
		// Exec with an unpackable argument (the client packs before it writes
		// anything) / a result that cannot be packed (the server has begun
		// its reply): directly the value is simply returned
		var v core.Value
		e := protect(func() {
			if o.S == "run" {
				v = d.Run(th, "Type")
			} else {
				v = d.Exec(th, core.SuObjectOf(core.SuStr("Object"), core.IntVal(7), unp))
			}
		})
		if s.newSes == nil { // direct
			if e != "" || !strings.HasPrefix(valStr(v), "unpackable") {
				return "abandon " + o.S + ": direct call did not return an unpackable value: " + e + valStr(v)
			}
			return "abandon " + o.S + ": cannot be sent"
		}
		if e == "" {
			return "abandon " + o.S + ": accepted by the client: " + valStr(v)
		}
		return "abandon " + o.S + ": cannot be sent"
	}
	panic("abandon " + o.S)
}

// dump is the logical content of a database, read directly.
func dumpDb(s *server) string {
	th := core.NewThread(nil)
	th.SetDbms(s.local)
	var sb strings.Builder
	tran := s.local.Transaction(false)
	defer tran.Complete()
	tables := []string{}
	q := tran.Query("tables", nil)
	hdr := q.Header()
	for {
		row, _ := q.Get(th, core.Next)
		if row == nil {
			break
		}
		tables = append(tables, core.ToStr(row.GetVal(hdr, "table", th, nil)))
	}
	sort.Strings(tables)
	for _, tbl := range append([]string{"tables", "columns", "indexes", "views"}, tables...) {
		fmt.Fprintf(&sb, "%s: %s\n", tbl, s.db.Schema(tbl))
		func() {
			defer func() {
				if r := recover(); r != nil {
					fmt.Fprintf(&sb, "ERR %v\n", r)
				}
			}()
			q := tran.Query(tbl, nil)
			hdr := q.Header()
			var rows []string
			for {
				row, _ := q.Get(th, core.Next)
				if row == nil {
					break
				}
				rows = append(rows, normRow(row, hdr, ""))
			}
			sort.Strings(rows)
			sb.WriteString(strings.Join(rows, "\n") + "\n")
		}()
	}
	sb.WriteString("check: " + s.local.Check(true) + "\n")
	return sb.String()
}

func scriptNeedsBigStor(ops []op) bool {
	for _, o := range ops {
		if o.Row.CLen > 30000 || o.N > 30000 {
			return true
		}
	}
	return false
}

func stats40(ops []op, results []string) (updCommit bool, multipart int, kinds map[string]bool) {
	kinds = map[string]bool{}
	for i, o := range ops {
		if i < len(results) && results[i] != "skip" {
			kinds[o.K] = true
		}
		if i < len(results) && o.K == "commit" && results[i] == "commit " {
			updCommit = true
		}
		if i < len(results) && strings.HasPrefix(results[i], "ERR") {
			continue
		}
		if (o.K == "output" || o.K == "update") && o.Row.CLen > 4096 && i < len(results) && results[i] != "skip" {
			multipart++
		}
		if (o.K == "run" || o.K == "exec" || o.K == "action") && len(o.S)+o.N > 4096 {
			multipart++
		}
		if i < len(results) && strings.Contains(results[i], "=[") { // a hashed (long) column value in a row
			for _, m := range numRx.FindAllString(results[i], -1) {
				if len(m) >= 4 && m > "4096" || len(m) > 4 {
					multipart++
					break
				}
			}
		}
	}
	return
}

// ---------------------------------------------------------------- C40

func TestC40(t *testing.T) {
	rec := ev.New("C40", "differential: rapid-generated request scripts (6-40 requests: admin, read/update transactions, queries and cursors with Get/Rewind/Header/Keys/Order/Strategy/Close, Output/Update/Erase, actions, Get/Query1/First/Last/Empty?/Strategy1, Run/Exec with values of every kind, LibGet, Size/Info/Final/Transactions/Timestamp/Log/Nonce/Token/SessionId/Kill/Check/Connections/Cursors, end session + new session) run on DbmsLocal directly and through the real client over fragmented TLS pipes against a second identical database; then 2-8 concurrent sessions on one connection; then a mux-only echo with arbitrary payloads. Value/message sizes 0 B .. 1 MB and over the limit. Non-trivial: the script commits >= 1 update transaction and moves >= 1 multi-part (> 4 KB) message (differential); >= 2 sessions each moving a multi-part message (concurrent, echo); distinct = by rendered script.")
	rec.Assumptions = []string{
		"record offsets, transaction/query numbers, sizes, timestamps, nonces and tokens are compared through handles or by shape, not by value",
		"ReadCount/WriteCount (server-side TODO stubs returning 0) and Cursors (DbmsLocal stub returning 0; checked against the session's own count), Auth, Use/Unuse, DisableTrigger, Dump/Load are not part of the differential",
		"a request or reply over the 1 MB limit must fail loudly (error or lost connection), it is never compared for equality",
		"both sides run in one process: the io limit panics (options.Action == server) where a stand-alone client would exit",
		"the database itself must be deterministic for a differential: checker coin flip off (db19.VerifAbortT1), a checker barrier after every request, at most one update transaction open at a time (conflicts between overlapping update transactions are resolved in map-iteration / timing order), results of a transaction aborted by a conflict are not compared after the abort (it must not commit on either side)",
		"scripts do not delete/update the same row twice in one transaction (a second delete of a row output in the same transaction is accepted by db19 and breaks its index merge at persist - reported, outside this property) and do not call Update/Delete for rows of non-updateable queries (callers refuse those)",
		"db.Check(full) is part of the compared dump; a complaint shared by both sides is counted, not judged",
		"fragmentation: raw chunks below TLS in both directions, the client's writes split into separate TLS records, short reads for the client's mux reader; at most ~16-64 pieces per write call so that 1 MB messages stay affordable",
	}
	defer rec.Write()
	defer leakReport(rec, 0)()

	if p := os.Getenv("VERIF_REPLAY"); p != "" {
		replay40(t, rec, p)
		return
	}
	// (a failed part ends the run: shrinking three parts costs minutes)
	if !rt.Check(t, rec, "differential", 400, 3000, func(t *rapid.T) { differential40(t, rec) }) {
		return
	}
	if !rt.Check(t, rec, "concurrent", 100, 300, func(t *rapid.T) { concurrent40(t, rec) }) {
		return
	}
	rt.Check(t, rec, "muxecho", 100, 600, func(t *rapid.T) { muxEcho40(t, rec) })
}

func newSides(big bool, f frag) (loc, rem *side, srvL, srvR *server, c *client) {
	chunk := 1 << 17
	if big {
		chunk = 1 << 21
	}
	srvL, srvR = newServer(chunk), newServer(chunk)
	srvR.serve()
	c = srvR.connect(f)
	thL := core.NewThread(nil)
	thL.SetDbms(srvL.local)
	loc = &side{name: "local", d: srvL.local, th: thL, sv: &core.Sviews{}, call: protect, oneUpdate: true}
	thL.SetSviews(loc.sv)
	loc.barrier = func() { srvL.db.Transactions() }
	newSes := func() core.IDbms { d, _ := c.newSession(); return d }
	rd := newSes()
	thR := core.NewThread(nil)
	thR.SetDbms(rd)
	rem = &side{name: "remote", d: rd, th: thR, call: c.call, newSes: newSes, oneUpdate: true}
	rem.barrier = func() { srvR.db.Transactions() }
	rem.active = func() []int { return srvR.db.Transactions() }
	return
}

func differential40(t *rapid.T, rec *ev.Rec) {
	ops := genScript(t)
	f := genFrag().Draw(t, "frag")
	// optionally one request around the message limit at the very end
	limitProbe := 0
	if gen.Chance(t, "limit probe", 8) {
		limitProbe = gen.Pick(t, "probe size", []int{maxio - 4096, maxio - 64, maxio - 16, maxio - 8, maxio - 3, maxio, maxio + 1, maxio + 4096})
	}
	journal(journalCase{Sub: "differential", Ops: ops, Frag: f, LimitProbe: limitProbe})
	defer unjournal()
	runDifferential(t, rec, ops, f, limitProbe)
}

// fataler is what the oracle needs from *rapid.T / *testing.T.
type fataler interface {
	Fatalf(format string, args ...any)
}

func runDifferential(t fataler, rec *ev.Rec, ops []op, f frag, limitProbe int) {
	loc, rem, srvL, srvR, c := newSides(scriptNeedsBigStor(ops) || limitProbe > 0, f)
	defer srvL.close()
	defer srvR.close()
	defer c.close()
	takeServerFatals()

	resL := make([]string, 0, len(ops))
	resR := make([]string, 0, len(ops))
	invL := make([]int, 0, len(ops))
	for _, o := range ops {
		resL = append(resL, loc.exec(o))
		invL = append(invL, loc.involved)
	}
	// The database reports a transaction's reads and writes to its conflict
	// checker asynchronously, so the request at which a transaction that loses
	// a conflict starts failing depends on timing (on either side). Once a
	// transaction has been aborted by a conflict on one side, the results of
	// its further requests are not compared, but it must not commit on the
	// other side either.
	doomed := map[int]bool{}
	ndoomed := 0
	for i, o := range ops {
		r := rem.exec(o)
		resR = append(resR, r)
		tr := invL[i]
		if tr != 0 && tr == rem.involved && !doomed[tr] &&
			(strings.Contains(r, "transaction aborted") || strings.Contains(resL[i], "transaction aborted")) {
			doomed[tr] = true
			ndoomed++
		}
		if tr != 0 && tr == rem.involved && doomed[tr] {
			if o.K == "commit" && (r == "commit " || resL[i] == "commit ") {
				t.Fatalf("request %d (%v): transaction aborted by a conflict on one side commits on the other\n direct: %s\n client: %s", i, o, resL[i], r)
			}
			continue
		}
		if r != resL[i] {
			var sb strings.Builder
			if f := takeServerFatals(); len(f) > 0 {
				fmt.Fprintf(&sb, "server: %q\n", f)
			}
			for j := 0; j <= i; j++ {
				fmt.Fprintf(&sb, "  %2d %-50s => %s\n", j, ops[j], resL[j])
			}
			t.Fatalf("request %d (%v) differs\n direct: %s\n client: %s\nscript so far (direct results):\n%s", i, o, resL[i], r, sb.String())
		}
	}
	if f := takeServerFatals(); len(f) > 0 {
		t.Fatalf("the server called Fatal while serving a well-formed client: %q", f)
	}
	// end both the same way: abort what is open, then compare the contents
	end := op{K: "newsession"}
	loc.exec(end)
	if r := rem.exec(end); r != "ok" {
		t.Fatalf("ending the session: %s", r)
	}
	// a request after EndSession is the barrier that it was processed
	if r := rem.exec(op{K: "size"}); r != "size true" {
		t.Fatalf("request on the new session: %s", r)
	}
	dL, dR := dumpDb(srvL), dumpDb(srvR)
	if dL != dR {
		var sb strings.Builder
		for j := range ops {
			fmt.Fprintf(&sb, "  %2d %-50s => %s\n", j, ops[j], resL[j])
		}
		t.Fatalf("database contents differ after the script (lines only in one dump):\n%s\nscript (direct results):\n%s", diffLines(dL, dR), sb.String())
	}
	// (the dumps include db.Check(full); a complaint that both sides share is
	// the database layer's business, not this property's: counted only)
	rec.LabelIf(!strings.Contains(dL, "check: \n"), "diff_dbcheck_complains_on_both_sides")

	if limitProbe > 0 {
		// a literal of limitProbe bytes in the request, its value in the reply
		code := "'" + bigStr(limitProbe-2, 7) + "'"
		want := loc.exec(op{K: "run", S: code})
		got := rem.exec(op{K: "run", S: code})
		loud := strings.HasPrefix(got, "ERR") || got == errLost
		switch {
		case got == want:
			rec.Label("limit_probe_equal")
		case loud && limitProbe+16 > maxio:
			rec.Label("limit_probe_refused_loudly")
		default:
			t.Fatalf("request with a %d byte string: direct %s, client %s", limitProbe, want, got)
		}
		if got != errLost {
			// a refused request must not leave anything behind for the next one
			if w, g := loc.exec(op{K: "run", S: "123"}), rem.exec(op{K: "run", S: "123"}); w != g {
				t.Fatalf("request after one with a %d byte string (%s): direct %s, client %s", limitProbe, got, w, g)
			}
		}
	}

	updCommit, multipart, kinds := stats40(ops, resL)
	rec.Case(updCommit && multipart > 0, fmt.Sprint(ops))
	nab := 0
	for i, o := range ops {
		if o.K == "abandon" && i+1 < len(ops) && resL[i] != "skip" && resL[i+1] != "skip" {
			nab++
			rec.Label("diff_abandoned_" + o.S + "_then_request_on_same_session")
		}
	}
	rec.LabelIf(nab > 0, "diff_case_abandoned_request_followed_on_same_session")
	rec.LabelIf(updCommit, "diff_update_committed")
	rec.LabelN("diff_transactions_aborted_by_conflict", ndoomed)
	rec.LabelIf(multipart > 0, "diff_multipart_message")
	rec.LabelN("diff_multipart_messages", multipart)
	rec.LabelIf(f.fragmented(), "diff_fragmented")
	for k := range kinds {
		rec.Label("diff_op_" + k)
	}
	nerr := 0
	for _, r := range resL {
		if strings.HasPrefix(r, "ERR") {
			nerr++
		}
	}
	rec.LabelN("diff_requests", len(ops))
	rec.LabelN("diff_requests_error", nerr)
	rec.LabelN("raw_chunks", int(c.rawC.chunks.Load()+c.rawS.chunks.Load()))
	if updCommit && multipart > 0 && rec.WantSample("differential") {
		var lines []string
		for i, o := range ops {
			lines = append(lines, fmt.Sprintf("%v => %s", o, resL[i]))
		}
		rec.Sample("differential", lines)
	}
}

// ---------------------------------------------------------------- concurrent sessions

// sessionScript is the work of one of several concurrent sessions: its own
// table, values tagged with the session.
func sessionScript(t *rapid.T, si int) []op {
	tbl := fmt.Sprintf("s%d", si)
	ops := []op{{K: "admin", S: fmt.Sprintf("create %s (k, a, b, c) key(k)", tbl)}}
	n := 3 + gen.Uniform(t, "n", 10)
	k := 0
	for i := 0; i < n; i++ {
		switch gen.Uniform(t, "kind", 5) {
		case 0, 1: // write some tagged rows in a transaction and read them back
			ops = append(ops, op{K: "tran", B: true}, op{K: "query", H: 1000, S: tbl})
			m := 1 + gen.Uniform(t, "rows", 3)
			for j := 0; j < m; j++ {
				r := genRow(t, k)
				r.A = si
				r.Seed = si*16 + j
				k++
				ops = append(ops, op{K: "output", H: 1000, Row: r})
			}
			ops = append(ops, op{K: "commit", H: 1000})
		case 2: // scan
			ops = append(ops, op{K: "tran", B: false}, op{K: "query", H: 1000, S: tbl + " sort k"})
			for j := 0; j <= k && j < 6; j++ {
				ops = append(ops, op{K: "get", H: 1000, Dir: '+'})
			}
			ops = append(ops, op{K: "commit", H: 1000})
		case 3: // echo of a tagged string
			sz := genSize(t, "len")
			ops = append(ops, op{K: "run", N: sz, S: fmt.Sprintf("'%d:%s'", si, bigStr(sz, si))})
		case 4:
			ops = append(ops, op{K: "getone", S: tbl, N: rapid.IntRange(0, max(k, 1)).Draw(t, "k"), Dir: '1'})
		}
	}
	return ops
}

func concurrent40(t *rapid.T, rec *ev.Rec) {
	ns := 2 + gen.Uniform(t, "sessions", 7)
	f := genFrag().Draw(t, "frag")
	scripts := make([][]op, ns)
	for i := range scripts {
		scripts[i] = sessionScript(t, i)
	}
	journal(journalCase{Sub: "concurrent", Scripts: scripts, Frag: f})
	defer unjournal()
	runConcurrent(t, rec, scripts, f)
}

func runConcurrent(t fataler, rec *ev.Rec, scripts [][]op, f frag) {
	ns := len(scripts)
	scripts = append([][]op(nil), scripts...)
	big := false
	for i := range scripts {
		big = big || scriptNeedsBigStor(scripts[i])
	}
	loc, rem0, srvL, srvR, c := newSides(big, f)
	defer srvL.close()
	defer srvR.close()
	defer c.close()
	// schema changes are refused while another one is running: the tables are
	// made first, one after the other, through the connection
	for i := range scripts {
		for _, sd := range []*side{loc, rem0} {
			if r := sd.exec(scripts[i][0]); r != "ok" {
				t.Fatalf("%s: %v: %s", sd.name, scripts[i][0], r)
			}
		}
		scripts[i] = scripts[i][1:]
	}
	// expected: every session's script alone, directly on a database
	want := make([][]string, ns)
	for i, sc := range scripts {
		l := &side{name: "local", d: srvL.local, th: loc.th, sv: loc.sv, call: protect}
		for _, o := range sc {
			want[i] = append(want[i], l.exec(o))
		}
	}
	// the same scripts, one goroutine per session, over one connection
	got := make([][]string, ns)
	var wg sync.WaitGroup
	start := make(chan struct{})
	for i := range scripts {
		d, _ := c.newSession()
		th := core.NewThread(nil)
		th.SetDbms(d)
		r := &side{name: "remote", d: d, th: th, call: c.call, newSes: func() core.IDbms { d, _ := c.newSession(); return d },
			active: func() []int { return srvR.db.Transactions() }}
		wg.Add(1)
		go func() {
			defer wg.Done()
			<-start
			for _, o := range scripts[i] {
				got[i] = append(got[i], r.exec(o))
			}
		}()
	}
	close(start)
	wg.Wait()
	multi := 0
	fatals := takeServerFatals()
	for i := range scripts {
		for j := range scripts[i] {
			if got[i][j] != want[i][j] {
				t.Fatalf("session %d of %d, request %d (%v):\n alone, direct: %s\n concurrent, client: %s\n%q", i, ns, j, scripts[i][j], want[i][j], got[i][j], fatals)
			}
		}
		_, mp, _ := stats40(scripts[i], want[i])
		if mp > 0 {
			multi++
		}
	}
	if len(fatals) > 0 {
		t.Fatalf("the server called Fatal / panicked while serving well-formed clients: %q", fatals)
	}
	if dL, dR := dumpDb(srvL), dumpDb(srvR); dL != dR {
		t.Fatalf("database contents differ after %d concurrent sessions (lines only in one dump):\n%s", ns, diffLines(dL, dR))
	}
	rec.Case(multi >= 2, fmt.Sprint(scripts))
	rec.Label(fmt.Sprintf("conc_sessions_%d", ns))
	rec.LabelIf(multi >= 2, "conc_two_sessions_multipart")
	rec.LabelIf(f.fragmented(), "conc_fragmented")
	if multi >= 2 && rec.WantSample("concurrent") {
		rec.Sample("concurrent", map[string]any{"sessions": ns, "frag": f, "session0": fmt.Sprint(scripts[0])})
	}
}

// ---------------------------------------------------------------- mux only

var echoWorkers = sync.OnceValue(func() *mux.Workers {
	return mux.NewWorkers(func(wb *mux.WriteBuf, th *core.Thread, id uint64, req []byte) {
		if req == nil {
			return
		}
		// reply: true, then the request in the pieces its first bytes ask for
		wb.ResetWrite()
		wb.PutBool(true)
		piece := 1 + int(req[0])*37
		for len(req) > 0 {
			n := min(piece, len(req))
			wb.Write(req[:n])
			req = req[n:]
		}
		wb.EndMsg()
	})
})

func muxEcho40(t *rapid.T, rec *ev.Rec) {
	ns := 1 + gen.Uniform(t, "sessions", 8)
	f := genFrag().Draw(t, "frag")
	type msg struct {
		Size, Seed int
		Str        bool // sent with WriteString instead of byte-wise writes
	}
	over := gen.Chance(t, "over limit", 10)
	msgs := make([][]msg, ns)
	for i := range msgs {
		n := 1 + gen.Uniform(t, "n", 6)
		for j := 0; j < n; j++ {
			sz := 1 + genSize(t, "size")
			switch gen.Uniform(t, "edge", 10) {
			case 0:
				sz = gen.Pick(t, "edge size", []int{1, 2, 4086, 4087, 4088, 4095, 4096, 4097, 8183, 8192})
			case 1:
				sz = rapid.IntRange(maxio-5000, maxio-1).Draw(t, "near limit") // + the reply's leading bool stays within 1 MB
			}
			msgs[i] = append(msgs[i], msg{Size: sz, Seed: rapid.IntRange(0, 255).Draw(t, "seed"), Str: gen.Chance(t, "str", 50)})
		}
	}
	p1, p2 := net.Pipe()
	rs := newRawConn(p1, f.RawW, f.RawR)
	rc := newRawConn(p2, f.RawW, f.RawR)
	ac := &appConn{Conn: rc, wpat: pattern{sizes: f.AppW, div: 16}, rpat: pattern{sizes: f.AppR, div: 16}, dead: make(chan struct{})}
	sc := mux.NewServerConn(rs)
	served := make(chan struct{})
	go func() { sc.Run(echoWorkers().Submit); close(served) }()
	cc := mux.NewClientConn(ac)
	cl := &client{app: ac, rawC: rc, rawS: rs}
	defer func() {
		ac.Close()
		rc.Close()
		<-served
		rs.Close()
		<-rc.done
		<-rs.done
	}()

	errs := make([]string, ns)
	var wg sync.WaitGroup
	start := make(chan struct{})
	for i := 0; i < ns; i++ {
		cs := cc.NewClientSession()
		wg.Add(1)
		go func() {
			defer wg.Done()
			<-start
			for j, m := range msgs[i] {
				payload := []byte(bigStr(m.Size, m.Seed*8+i))
				payload[0] = byte(m.Seed)
				var got string
				e := cl.call(func() {
					cs.ResetWrite()
					if m.Str {
						cs.WriteString(string(payload))
					} else {
						// the way PutStr etc. build messages: small and large writes
						h := min(len(payload), 1+m.Seed%7)
						for _, b := range payload[:h] {
							cs.Write1(b)
						}
						cs.Write(payload[h:])
					}
					cs.Request()
					got = cs.GetN(cs.Remaining())
				})
				if e != "" {
					errs[i] = fmt.Sprintf("session %d message %d (%d bytes): %s", i, j, m.Size, e)
					return
				}
				if got != string(payload) {
					errs[i] = fmt.Sprintf("session %d message %d (%d bytes): reply of %d bytes differs from the request (first difference at %d)",
						i, j, m.Size, len(got), firstDiff(got, string(payload)))
					return
				}
			}
		}()
	}
	close(start)
	wg.Wait()
	for _, e := range errs {
		if e != "" {
			t.Fatalf("%s\n%d sessions, fragmentation %+v, messages %+v", e, ns, f, msgs)
		}
	}
	if over {
		// a message over the limit ends the connection, it is not delivered cut
		cs := cc.NewClientSession()
		sz := gen.Pick(t, "over size", []int{maxio + 1, maxio + 4096, 2 * maxio})
		e := cl.call(func() {
			cs.ResetWrite()
			cs.Write([]byte(bigStr(sz, 3)))
			cs.Request()
		})
		if e != errLost {
			t.Fatalf("a %d byte message was not refused: %q", sz, e)
		}
		rec.Label("echo_over_limit_refused")
	}
	multi, total := 0, 0
	for i := range msgs {
		mp := false
		for _, m := range msgs[i] {
			total++
			rec.LabelIf(m.Size > 4096, "echo_msg_multipart")
			rec.LabelIf(m.Size > 100000, "echo_msg_over_100k")
			rec.LabelIf(m.Size <= 16, "echo_msg_tiny")
			mp = mp || m.Size > 4096
		}
		if mp {
			multi++
		}
	}
	rec.LabelN("echo_messages", total)
	rec.Case(multi >= 2, fmt.Sprint(ns, f, msgs))
	rec.Label(fmt.Sprintf("echo_sessions_%d", ns))
	if multi >= 2 && rec.WantSample("muxecho") {
		rec.Sample("muxecho", map[string]any{"sessions": ns, "frag": f, "messages": msgs})
	}
}

func firstDiff(a, b string) int {
	n := min(len(a), len(b))
	for i := 0; i < n; i++ {
		if a[i] != b[i] {
			return i
		}
	}
	return n
}

// diffLines lists the lines that occur in only one of two dumps.
func diffLines(a, b string) string {
	count := map[string]int{}
	for _, l := range strings.Split(a, "\n") {
		count[l]++
	}
	for _, l := range strings.Split(b, "\n") {
		count[l]--
	}
	var out []string
	for l, n := range count {
		if n > 0 {
			out = append(out, "direct: "+l)
		} else if n < 0 {
			out = append(out, "client: "+l)
		}
	}
	sort.Strings(out)
	return strings.Join(out, "\n")
}

// journalCase is a case in replayable form.
type journalCase struct {
	Sub        string
	Ops        []op   `json:",omitempty"`
	Scripts    [][]op `json:",omitempty"`
	Frag       frag
	LimitProbe int
}

// journal writes the case about to run where the driver collects replay
// artefacts: if the code under test kills the process (a panic on one of the
// database's own goroutines, log.Fatal) this file is the failing case;
// `./check --replay <file>` (VERIF_REPLAY) runs it again.
func journal(jc journalCase) {
	if rt.Replaying() {
		return
	}
	b, err := json.Marshal(jc)
	if err == nil {
		os.WriteFile(rt.ReplayOut("C40_journal.json"), b, 0o644)
	}
}

// unjournal removes the journal of a case that ended (in whatever way) with
// the process alive; failures found by the oracle are replayed from rapid's
// fail file.
func unjournal() {
	if !rt.Replaying() {
		os.Remove(rt.ReplayOut("C40_journal.json"))
	}
}

// replay40 re-runs a journalled case.
func replay40(t *testing.T, rec *ev.Rec, path string) {
	b, err := os.ReadFile(path)
	if err != nil {
		t.Fatal(err)
	}
	var jc journalCase
	if err := json.Unmarshal(b, &jc); err != nil {
		t.Fatalf("%s: %v", path, err)
	}
	switch jc.Sub {
	case "differential":
		runDifferential(t, rec, jc.Ops, jc.Frag, jc.LimitProbe)
	case "concurrent":
		runConcurrent(t, rec, jc.Scripts, jc.Frag)
	default:
		t.Fatalf("%s: unknown case kind %q", path, jc.Sub)
	}
}
