package netx

import (
	"crypto/sha1"
	"fmt"
	"slices"
	"sort"
	"strings"
	"testing"

	"github.com/apmckinlay/gsuneido/core"
	"github.com/apmckinlay/gsuneido/db19"
	"github.com/apmckinlay/gsuneido/dbms"
	"github.com/apmckinlay/gsuneido/dbms/commands"
	"github.com/apmckinlay/gsuneido/dbms/mux"
	"pgregory.net/rapid"
	"verifharness/internal/ev"
	"verifharness/internal/gen"
	"verifharness/internal/kf"
	"verifharness/internal/rt"
)

// ---------------------------------------------------------------- protocol

const nCmds = int(commands.Asof) + 1 // 40 valid command codes

// allowed41 is the set the property allows to an unauthenticated connection.
var allowed41 = map[commands.Command]bool{
	commands.Auth: true, commands.Nonce: true, commands.SessionId: true,
	commands.LibGet: true, commands.Libraries: true, commands.EndSession: true,
}

// wire signature of each command's arguments, read from the server's cmdXxx
// functions: i varint, s sized string, b bool, y byte, v packed value (sized),
// r record (sized), l int64.
var sig41 = map[commands.Command]string{
	commands.Abort: "i", commands.Admin: "s", commands.Auth: "s", commands.Check: "b",
	commands.Close: "iy", commands.Commit: "i", commands.Connections: "", commands.Cursor: "s",
	commands.Cursors: "", commands.Erase: "isl", commands.Exec: "v", commands.Strategy: "iyb",
	commands.Final: "", commands.Get: "yii", commands.GetOne: "yiv", commands.Header: "iy",
	commands.Info: "", commands.Keys: "iy", commands.Kill: "s", commands.LibGet: "s",
	commands.Libraries: "", commands.Log: "s", commands.Nonce: "", commands.Order: "iy",
	commands.Output: "ir", commands.Query: "is", commands.ReadCount: "i", commands.Action: "is",
	commands.Rewind: "iy", commands.Run: "s", commands.SessionId: "s", commands.Size: "",
	commands.Timestamp: "", commands.Token: "", commands.Transaction: "b", commands.Transactions: "",
	commands.Update: "islr", commands.WriteCount: "i", commands.EndSession: "", commands.Asof: "il",
}

// warg is one wire argument of a raw request.
type warg struct {
	K byte   // i l s b y v r, or 'x' raw bytes
	I int64  // i l b y
	S string // s v r x
}

func (a warg) String() string {
	switch a.K {
	case 'i', 'l':
		return fmt.Sprintf("%c%d", a.K, a.I)
	case 'b', 'y':
		return fmt.Sprintf("%c%#x", a.K, a.I)
	}
	if len(a.S) > 24 {
		return fmt.Sprintf("%c[%d]%x..", a.K, len(a.S), a.S[:8])
	}
	return fmt.Sprintf("%c%q", a.K, a.S)
}

func putArgs(cs *mux.ClientSession, args []warg) {
	for _, a := range args {
		switch a.K {
		case 'i':
			cs.PutInt(int(a.I))
		case 'l':
			cs.PutInt64(a.I)
		case 's', 'v', 'r':
			cs.PutStr_(a.S)
		case 'b', 'y':
			cs.PutByte(byte(a.I))
		case 'x':
			cs.Write([]byte(a.S))
		}
	}
}

// rawRequest sends cmd+args on a session and returns the reply: ok=true and
// the remaining response bytes, or the error text. noReply: send only.
func rawRequest(c *client, cs *mux.ClientSession, cmd commands.Command, args []warg, noReply bool) (resp string, errstr string) {
	errstr = c.call(func() {
		cs.PutCmd(cmd)
		putArgs(cs, args)
		if noReply {
			cs.EndMsg()
			return
		}
		cs.Request()
		resp = cs.GetN(cs.Remaining())
	})
	return
}

// ---------------------------------------------------------------- model

type user41 struct{ Name, Hash string }

// conn41 is the harness's view of one client connection.
type conn41 struct {
	c    *client
	sess []*mux.ClientSession
	hi   []core.IDbms // the same sessions through the real client API
	// model of the server's per-connection authentication state
	authed     bool
	restricted bool   // opened while the database had users: must authenticate
	late       bool   // ... and after users appeared during this history (an earlier connection was accepted without)
	nonce      string // latest nonce issued to this connection, "" = none/consumed
	prevNonces []string
	logBytes   int // bytes counted by the server's per-connection log limit
}

type env41 struct {
	t     *rapid.T
	rec   *ev.Rec
	srv   *server
	th    *core.Thread
	users []user41 // model of the rows of the users table
	// usersTable: the users table exists
	usersTable bool
	// usersAppeared: the database went from no users to users while a
	// connection accepted earlier was open
	usersAppeared bool
	frag          frag
	A             *conn41 // authenticated party
	authed        []*conn41
	U             []*conn41 // unauthenticated connections
	all           []*conn41 // every connection made in this case (closed at its end)
	// model
	validTokens  map[string]bool
	spentTokens  []string
	okAuths      []string // auth strings that were accepted earlier
	otherNonces  []string // nonces issued to A
	aTrans       []core.ITran
	aTranNums    []int
	aIds         []int // query / cursor numbers of A
	aSession     string
	fp           string
	state        *db19.DbState
	nextK        int
	steps        []string
	sawRefused   bool
	ntAuth       bool     // an auth attempt built from obtained material after a refusal
	obtained     []string // byte strings taken from replies on the unauthenticated side
	nAuthSuccess int
}

func (e *env41) fail(format string, args ...any) {
	e.t.Helper()
	e.t.Fatalf("%s\nsteps:\n  %s", fmt.Sprintf(format, args...), strings.Join(e.steps, "\n  "))
}

func (e *env41) step(format string, args ...any) {
	e.steps = append(e.steps, fmt.Sprintf(format, args...))
}

// known reports whether the failing class key is a listed known finding
// (then the generated request is skipped and counted).
func (e *env41) known(key string) bool {
	if en, ok := kf.Known("C41", key); ok {
		e.rec.Excluded(key)
		e.rec.Known(en.What)
		return true
	}
	return false
}

// haveUsers is the model of "the database has users" (what the server asks
// of the database when it accepts a connection).
func (e *env41) haveUsers() bool { return e.usersTable && len(e.users) > 0 }

// newConn opens a connection now. The property's rule: opened while the
// database has users it is restricted until it authenticates; opened while
// there are none it is not restricted (newServerConn takes that decision once,
// when it accepts the connection).
func (e *env41) newConn() *conn41 {
	c := e.srv.connect(e.frag)
	cn := &conn41{c: c, restricted: e.haveUsers()}
	cn.late = cn.restricted && e.usersAppeared
	e.all = append(e.all, cn)
	cn.addSession()
	// the server decides after its side of the handshake: a first answered
	// request (allowed in either mode) means the decision has been taken
	// before the history goes on
	if _, errstr := rawRequest(c, cn.sess[0], commands.Libraries, nil, false); errstr != "" {
		e.fail("new connection: Libraries: %s", errstr)
	}
	e.rec.LabelIf(cn.restricted, "conn_opened_while_users")
	e.rec.LabelIf(!cn.restricted, "conn_opened_while_no_users")
	e.rec.LabelIf(cn.late, "conn_opened_after_users_appeared")
	return cn
}

// unauth returns the connection of slot ui that has not authenticated,
// opening one if the slot is empty. A connection whose mode no longer matches
// the database (opened without users and users exist now: the property does
// not restrict it; opened with users and they are gone: the property says
// nothing) is set aside, still open, and a new connection is opened now.
func (e *env41) unauth(ui int) *conn41 {
	if cn := e.U[ui]; cn != nil && cn.restricted != e.haveUsers() {
		e.step("U%d: set aside (opened %s users), a new connection is opened", ui, map[bool]string{true: "with", false: "without"}[cn.restricted])
		e.U[ui] = nil
	}
	if e.U[ui] == nil {
		e.U[ui] = e.newConn()
		e.step("U%d: connected (database has users: %v)", ui, e.U[ui].restricted)
	}
	return e.U[ui]
}

// probeUnrestricted: a connection opened while the database has no users is
// not restricted: read-only requests must be answered.
func (e *env41) probeUnrestricted(ui int, cn *conn41) {
	type probe struct {
		cmd  commands.Command
		args []warg
	}
	probes := []probe{{commands.Size, nil}, {commands.Info, nil}, {commands.Final, nil}, {commands.Timestamp, nil},
		{commands.Transactions, nil}, {commands.Libraries, nil}, {commands.Nonce, nil}, {commands.Cursors, nil},
		{commands.GetOne, []warg{{K: 'y', I: '+'}, {K: 'i', I: 0}, {K: 'v', S: packedObj("t0 sort k")}}},
		{commands.Check, []warg{{K: 'b', I: 0}}}}
	p := gen.Pick(e.t, "probe", probes)
	desc := fmt.Sprintf("U%d (no users when it connected): %v", ui, p.cmd)
	e.step("%s", desc)
	_, errstr := rawRequest(cn.c, cn.sess[0], p.cmd, p.args, false)
	if errstr != "" {
		e.fail("%s: refused on a connection opened while the database has no users: %s", desc, errstr)
	}
	e.rec.Label("unrestricted_probe_ok")
	e.checkNoEffect(desc)
}

// usersEvent changes the users table at this point of the history:
// created, populated, a user removed, emptied, dropped - directly on the
// database or by the authenticated side over its connection.
func (e *env41) usersEvent() {
	t := e.t
	var opts []string
	switch {
	case !e.usersTable:
		opts = []string{"create", "create+insert", "create+insert"}
	case len(e.users) == 0:
		opts = []string{"insert", "insert", "insert", "drop"}
	default:
		opts = []string{"delete-all", "drop"}
		if len(e.users) < 3 {
			opts = append(opts, "insert", "insert", "insert")
		}
		if len(e.users) > 1 {
			opts = append(opts, "delete-one", "delete-one")
		}
	}
	what := gen.Pick(t, "users event", opts)
	viaA := gen.Chance(t, "via A", 50)
	had := e.haveUsers()
	admin := func(stmt string) {
		if viaA {
			e.aCall(stmt, func() { e.A.hi[0].Admin(stmt, nil) })
		} else {
			e.srv.local.Admin(stmt, nil)
		}
	}
	action := func(stmt string) {
		var res string
		if viaA {
			e.aCall(stmt, func() {
				tr := e.A.hi[0].Transaction(true)
				tr.Action(e.th, stmt)
				res = tr.Complete()
			})
		} else {
			tr := e.srv.local.Transaction(true)
			tr.Action(e.th, stmt)
			res = tr.Complete()
		}
		if res != "" {
			e.fail("users event %q: commit failed: %s", stmt, res)
		}
	}
	insert := func() {
		name := ""
		for _, n := range []string{"joe", "sue", "admin"} {
			used := false
			for _, u := range e.users {
				used = used || u.Name == n
			}
			if !used {
				name = n
				break
			}
		}
		u := user41{Name: name, Hash: rapid.StringMatching(`[a-f0-9]{8,20}`).Draw(t, "passhash")}
		action(fmt.Sprintf("insert { user: %q, passhash: %q } into users", u.Name, u.Hash))
		e.users = append(e.users, u)
	}
	switch what {
	case "create", "create+insert":
		admin("create users (user, passhash) key(user)")
		e.usersTable = true
		if what == "create+insert" {
			insert()
		}
	case "insert":
		insert()
	case "delete-one":
		i := gen.Uniform(t, "which user", len(e.users))
		action(fmt.Sprintf("delete users where user = %q", e.users[i].Name))
		e.users = append(e.users[:i:i], e.users[i+1:]...)
	case "delete-all":
		action("delete users")
		e.users = nil
	case "drop":
		admin("drop users")
		e.usersTable, e.users = false, nil
	}
	if !had && e.haveUsers() && len(e.all) > 0 {
		e.usersAppeared = true
	}
	via := map[bool]string{true: "over A's connection", false: "directly"}[viaA]
	e.step("users table: %s %s (database has users: %v)", what, via, e.haveUsers())
	e.rec.Label("users_event_" + what)
	e.rec.LabelIf(!had && e.haveUsers(), "users_appeared")
	e.rec.LabelIf(had && !e.haveUsers(), "users_disappeared")
	e.refreshFingerprint()
}

func (cn *conn41) addSession() int {
	d, cs := cn.c.newSession()
	cn.sess = append(cn.sess, cs)
	cn.hi = append(cn.hi, d)
	return len(cn.sess) - 1
}

// fingerprint is the logical content of the database read directly
// (not through the protocol): schema tables and every row of the user tables.
func (e *env41) fingerprint() string {
	var sb strings.Builder
	tran := e.srv.local.Transaction(false)
	defer tran.Complete()
	for _, q := range []string{"tables", "columns", "indexes", "views", "users", "stdlib", "t0"} {
		func() {
			defer func() {
				if r := recover(); r != nil {
					fmt.Fprintf(&sb, "%s: ERR %v\n", q, r)
				}
			}()
			qu := tran.Query(q, nil)
			hdr := qu.Header()
			cols := append([]string(nil), hdr.Columns...)
			sort.Strings(cols)
			var rows []string
			for {
				row, _ := qu.Get(e.th, core.Next)
				if row == nil {
					break
				}
				var rb strings.Builder
				for _, col := range cols {
					fmt.Fprintf(&rb, "%s=%q ", col, row.GetRaw(hdr, col))
				}
				rows = append(rows, rb.String())
			}
			sort.Strings(rows)
			fmt.Fprintf(&sb, "%s:\n%s\n", q, strings.Join(rows, "\n"))
		}()
	}
	return sb.String()
}

func (e *env41) refreshFingerprint() {
	e.fp = e.fingerprint()
	e.state = e.srv.db.GetState()
}

// checkNoEffect is the effect half of the oracle, evaluated after every
// request on an unauthenticated connection.
func (e *env41) checkNoEffect(what string) {
	if f := takeServerFatals(); len(f) > 0 {
		e.fail("%s made the server call Fatal (the server process exits, ending every session): %q", what, f)
	}
	if st := e.srv.db.GetState(); st != e.state {
		// the state also changes when the merger folds A's earlier commits;
		// compare the logical contents
		if fp := e.fingerprint(); fp != e.fp {
			e.fail("%s changed the database:\nbefore:\n%s\nafter:\n%s", what, e.fp, fp)
		}
		e.state = st
	}
	if e.A.c.isDead() {
		e.fail("%s: the authenticated connection was closed", what)
	}
	for _, cn := range e.authed {
		if cn.c.isDead() {
			e.fail("%s: an authenticated connection was closed", what)
		}
	}
	want := append([]int(nil), e.aTranNums...)
	sort.Ints(want)
	got := e.srv.db.Transactions()
	sort.Ints(got)
	if fmt.Sprint(got) != fmt.Sprint(want) {
		e.fail("%s: open update transactions of the authenticated connection changed: have %v, want %v", what, got, want)
	}
	toks := dbms.VerifTokens()
	wantToks := e.sortedTokens()
	if fmt.Sprintf("%x", toks) != fmt.Sprintf("%x", wantToks) {
		e.fail("%s: set of valid tokens changed: have %x, want %x", what, toks, wantToks)
	}
}

// authModel says whether the property lets s authenticate connection cn
// now, and applies the single-use rules to the model.
func (e *env41) authModel(cn *conn41, s string) bool {
	ok := false
	if cn.nonce != "" {
		for _, u := range e.users {
			h := sha1.Sum([]byte(cn.nonce + u.Hash))
			if s == u.Name+"\x00"+string(h[:]) {
				ok = true
			}
		}
	}
	if cn.nonce != "" {
		cn.prevNonces = append(cn.prevNonces, cn.nonce)
	}
	cn.nonce = "" // any attempt consumes the nonce
	if !ok && e.validTokens[s] {
		ok = true
		delete(e.validTokens, s)
		e.spentTokens = append(e.spentTokens, s)
	}
	return ok
}

func (e *env41) sortedTokens() []string {
	toks := make([]string, 0, len(e.validTokens))
	for tok := range e.validTokens {
		toks = append(toks, tok)
	}
	sort.Strings(toks)
	return toks
}

func sha1of(s string) string {
	h := sha1.Sum([]byte(s))
	return string(h[:])
}

// ---------------------------------------------------------------- A: normal authenticated work

func (e *env41) aCall(what string, f func()) {
	if s := e.A.c.call(f); s != "" {
		e.fail("authenticated connection: %s failed: %s", what, s)
	}
}

func (e *env41) aStep() {
	t := e.t
	a := e.A
	hi := a.hi[0]
	kind := gen.Uniform(t, "akind", 8)
	switch {
	case kind == 0 && len(e.aTrans) < 3: // open an update transaction and write
		var tr core.ITran
		e.aCall("Transaction", func() { tr = hi.Transaction(true) })
		e.nextK++
		k := e.nextK
		e.aCall("Action", func() {
			tr.Action(e.th, fmt.Sprintf("insert { k: %d, a: %d, b: 'by A' } into t0", k, k%5))
		})
		e.aTrans = append(e.aTrans, tr)
		e.aTranNums = append(e.aTranNums, tr.Num())
		e.step("A: update transaction %d insert k=%d", len(e.aTrans), k)
	case kind == 1 && len(e.aTrans) > 0: // commit the oldest
		tr := e.aTrans[0]
		var res string
		e.aCall("Commit", func() { res = tr.Complete() })
		if res != "" {
			e.fail("authenticated connection: commit failed: %s", res)
		}
		e.aTrans, e.aTranNums = e.aTrans[1:], e.aTranNums[1:]
		e.step("A: commit")
	case kind == 2 && len(e.aTrans) > 0: // abort the newest
		tr := e.aTrans[len(e.aTrans)-1]
		e.aCall("Abort", func() { tr.Abort() })
		e.aTrans, e.aTranNums = e.aTrans[:len(e.aTrans)-1], e.aTranNums[:len(e.aTranNums)-1]
		e.step("A: abort")
	case kind == 3: // obtain a token
		var tok string
		e.aCall("Token", func() { tok = hi.Token() })
		if len(tok) != 16 {
			e.fail("authenticated connection: token has %d bytes", len(tok))
		}
		e.validTokens[tok] = true
		e.step("A: token")
	case kind == 4: // a query (raw, to learn its number) in a read transaction
		cs := a.sess[0]
		resp, errstr := rawRequest(a.c, cs, commands.Transaction, []warg{{K: 'b', I: 0}}, false)
		if errstr != "" {
			e.fail("authenticated connection: Transaction: %s", errstr)
		}
		var rb mux.ReadBuf
		rb.SetBuf([]byte(resp))
		tn := rb.GetInt()
		resp, errstr = rawRequest(a.c, cs, commands.Query, []warg{{K: 'i', I: int64(tn)}, {K: 's', S: "t0 sort k"}}, false)
		if errstr != "" {
			e.fail("authenticated connection: Query: %s", errstr)
		}
		rb.SetBuf([]byte(resp))
		qn := rb.GetInt()
		e.aIds = append(e.aIds, tn, qn)
		e.step("A: read transaction + query")
	case kind == 5: // a cursor
		cs := a.sess[0]
		resp, errstr := rawRequest(a.c, cs, commands.Cursor, []warg{{K: 's', S: "t0"}}, false)
		if errstr != "" {
			e.fail("authenticated connection: Cursor: %s", errstr)
		}
		var rb mux.ReadBuf
		rb.SetBuf([]byte(resp))
		e.aIds = append(e.aIds, rb.GetInt())
		e.step("A: cursor")
	case kind == 6: // read
		var n uint64
		e.aCall("Size", func() { n = hi.Size() })
		if n == 0 {
			e.fail("authenticated connection: Size 0")
		}
		e.step("A: size")
	default: // name the session
		e.aSession = "sessA"
		var got string
		th := core.NewThread(nil)
		e.aCall("SessionId", func() { got = hi.SessionId(th, e.aSession) })
		if got != e.aSession {
			e.fail("authenticated connection: SessionId returned %q", got)
		}
		e.step("A: session id")
	}
	e.refreshFingerprint()
}

// authenticate performs the documented login on cn (nonce, then
// user NUL sha1(nonce+passhash)); used for A.
func (e *env41) login(cn *conn41, u user41) bool {
	var nonce string
	var ok bool
	errstr := cn.c.call(func() {
		nonce = cn.hi[0].Nonce(e.th)
		s := u.Name + "\x00" + sha1of(nonce+u.Hash)
		ok = cn.hi[0].Auth(e.th, s)
		if ok {
			e.okAuths = append(e.okAuths, s)
		}
	})
	if errstr != "" {
		e.fail("login: %s", errstr)
	}
	e.otherNonces = append(e.otherNonces, nonce)
	return ok
}

// ---------------------------------------------------------------- U: requests of the unauthenticated side

var strPool = []string{"", "t0", "users", "stdlib", "t0 sort k", "users where user = 'joe'", "tables",
	"create t9 (a) key(a)", "drop users", "delete users", "insert { user: 'eve', passhash: 'x' } into users",
	"update users set passhash = ''", "Suneido", "Database.Dump", "1+1", "Database('drop users')", "pipe"}

func (e *env41) genInt(label string) int64 {
	t := e.t
	pool := []int64{0, 1, -1, 2, 3, 1 << 31, -1 << 63, 1<<63 - 1}
	for _, n := range e.aTranNums {
		pool = append(pool, int64(n))
	}
	for _, n := range e.aIds {
		pool = append(pool, int64(n))
	}
	if gen.Chance(t, label+"cls", 25) {
		return rapid.Int64Range(-100, 300).Draw(t, label)
	}
	return gen.Pick(t, label, pool)
}

// plausible arguments per command, so that a request that is wrongly let
// through does something
var cmdStrs = map[commands.Command][]string{
	commands.Run:    {"1+1", "", "Suneido", "Database('drop users')", "QueryFirst('users sort user')", "Query1('users', user: 'joe').passhash"},
	commands.Admin:  {"create t9 (a) key(a)", "drop users", "drop t0", "alter t0 create (z)", "view v9 = users"},
	commands.Action: {"delete users", "insert { user: 'eve', passhash: 'x' } into users", "update users set passhash = ''", "delete t0"},
	commands.Query:  {"users", "t0 sort k", "tables"},
	commands.Cursor: {"users", "t0 sort k", "tables"},
	commands.Exec:   {"Suneido", "Date", "Database.Transactions", "Database.SessionId"},
	commands.GetOne: {"users sort user", "t0 sort k", "users"},
	commands.LibGet: {"Suneido", "Nothing", ""},
	commands.Erase:  {"users", "t0"},
	commands.Update: {"users", "t0"},
}

func (e *env41) genStr(label string, cmd commands.Command) string {
	t := e.t
	if specific := cmdStrs[cmd]; len(specific) > 0 && gen.Chance(t, label+"specific", 60) {
		return gen.Pick(t, label, specific)
	}
	pool := append([]string(nil), strPool...)
	pool = append(pool, e.aSession, "joe")
	pool = append(pool, e.sortedTokens()...)
	switch gen.Uniform(t, label+"cls", 6) {
	case 0:
		return string(rapid.SliceOfN(rapid.Byte(), 0, 20).Draw(t, label))
	case 1:
		if len(e.obtained) > 0 {
			return gen.Pick(t, label, e.obtained)
		}
	}
	return gen.Pick(t, label, pool)
}

func packedObj(vals ...string) string {
	ob := &core.SuObject{}
	for _, v := range vals {
		ob.Add(core.SuStr(v))
	}
	return core.PackValue(ob)
}

func (e *env41) genRec(label string) string {
	var rb core.RecordBuilder
	rb.Add(core.IntVal(int(e.genInt(label + "k"))))
	rb.Add(core.SuStr(e.genStr(label+"v", 0xff)))
	return string(rb.Build())
}

// genArgs builds the arguments of one raw request. variant: 0 well formed
// per the command's signature, 1 well formed framing with boundary values,
// 2 truncated, 3 random bytes, 4 well formed + trailing bytes.
func (e *env41) genArgs(cmd commands.Command, variant int) []warg {
	t := e.t
	sig := sig41[cmd]
	var args []warg
	if variant == 3 {
		return []warg{{K: 'x', S: string(rapid.SliceOfN(rapid.Byte(), 0, 24).Draw(t, "rawbytes"))}}
	}
	for i := 0; i < len(sig); i++ {
		k := sig[i]
		lbl := fmt.Sprintf("arg%d", i)
		switch k {
		case 'i', 'l':
			args = append(args, warg{K: k, I: e.genInt(lbl)})
		case 's':
			args = append(args, warg{K: 's', S: e.genStr(lbl, cmd)})
		case 'b':
			b := int64(gen.Uniform(t, lbl, 2))
			if variant == 1 {
				b = int64(gen.Pick(t, lbl+"b", []int{0, 1, 2, 0xff}))
			}
			args = append(args, warg{K: 'b', I: b})
		case 'y':
			pool := []byte{'q', 'c', '+', '-', '1', '@', '?'}
			if variant == 1 {
				pool = append(pool, 0, 'x', 0xff)
			}
			args = append(args, warg{K: 'y', I: int64(gen.Pick(t, lbl, pool))})
		case 'v':
			if variant == 1 && gen.Chance(t, lbl+"bad", 50) {
				args = append(args, warg{K: 'v', S: string(rapid.SliceOfN(rapid.Byte(), 0, 12).Draw(t, lbl))})
			} else {
				args = append(args, warg{K: 'v', S: packedObj(e.genStr(lbl, cmd), e.genStr(lbl+"b", 0xff))})
			}
		case 'r':
			args = append(args, warg{K: 'r', S: e.genRec(lbl)})
		}
	}
	switch variant {
	case 1: // a sized argument announcing more than follows / the io limit
		// a sized argument that announces more than follows / than the io limit
		if n := len(args); n > 0 && strings.IndexByte("svr", args[n-1].K) >= 0 && gen.Chance(t, "oversize", 40) {
			announced := gen.Pick(t, "announced", []int64{5, 4096, 1 << 20, 1<<20 + 1, 1 << 40, -1})
			args = append(args[:n-1], warg{K: 'l', I: announced}, warg{K: 'x', S: "abc"})
		}
	case 2:
		if len(args) > 0 {
			args = args[:gen.Uniform(t, "keep", len(args))]
		}
	case 4:
		args = append(args, warg{K: 'x', S: string(rapid.SliceOfN(rapid.Byte(), 1, 8).Draw(t, "trailing"))})
	}
	return args
}

func argsStr(args []warg) string {
	ss := make([]string, len(args))
	for i, a := range args {
		ss[i] = a.String()
	}
	return strings.Join(ss, " ")
}

// wellFormed: the argument list is exactly the command's signature.
func wellFormed(cmd commands.Command, args []warg) bool {
	sig := sig41[cmd]
	if len(args) != len(sig) {
		return false
	}
	for i := range args {
		k := args[i].K
		if k != sig[i] {
			return false
		}
		if k == 'b' && args[i].I > 1 {
			return false
		}
	}
	return true
}

// uRequest sends one raw request on unauthenticated connection ui and
// judges the reply and its effects.
func (e *env41) uRequest(ui int) {
	t := e.t
	cn := e.unauth(ui)
	if !cn.restricted {
		e.probeUnrestricted(ui, cn)
		return
	}
	code := gen.Uniform(t, "cmd", nCmds+2)
	if code >= nCmds {
		code = gen.Pick(t, "badcmd", []int{nCmds, nCmds + 1, 0x7f, 0xff})
	}
	cmd := commands.Command(code)
	variant := gen.Pick(t, "variant", []int{0, 0, 0, 1, 2, 3, 4})
	if cmd == commands.Auth {
		variant = 0 // auth attempts are generated (and modelled) by uAuth
		e.uAuth(ui)
		return
	}
	args := e.genArgs(cmd, variant)
	wf := code < nCmds && wellFormed(cmd, args)
	name := fmt.Sprint(cmd)
	if code >= nCmds {
		name = fmt.Sprintf("invalid%d", code)
	}
	desc := fmt.Sprintf("U%d: %s v%d %s", ui, name, variant, argsStr(args))

	// known findings: the generated request is skipped, not sent
	if code < nCmds && !allowed41[cmd] {
		payload := encodeArgs(args)
		_, strOk, strRest := parseStr(payload)
		switch {
		case cmd == commands.Token && e.known("token"),
			cmd == commands.Kill && strOk && e.known("kill"),
			cmd == commands.Connections && payload == "" && e.known("connections"),
			cmd == commands.Cursors && payload == "" && e.known("cursors"),
			cmd == commands.ReadCount && payload == "\x00" && e.known("readcount-tn0"),
			cmd == commands.WriteCount && payload == "\x00" && e.known("writecount-tn0"),
			cmd == commands.Log && strOk && strRest == 0 && logUnlogged(cn, payload) && e.known("log-unlogged"),
			(cmd == commands.Transaction || cmd == commands.Check) && len(payload) > 0 && payload[0] > 1 && e.known("fatal-bool"):
			e.step("%s   [skipped: known finding]", desc)
			e.rec.Label("skipped_known_" + name)
			return
		}
	}
	e.step("%s", desc)

	sess := gen.Uniform(t, "session", len(cn.sess))
	cs := cn.sess[sess]
	noReply := false
	if cmd == commands.EndSession {
		// EndSession is not answered: use a session of its own
		sess = cn.addSession()
		cs = cn.sess[sess]
		noReply = true
	}
	if cmd == commands.Log {
		// the server's per-connection log limit counts every message it parses
		if m, ok, _ := parseStr(encodeArgs(args)); ok {
			cn.logBytes += len(m) + 1
		}
	}
	resp, errstr := rawRequest(cn.c, cs, cmd, args, noReply)
	if noReply {
		// ordering barrier: a request on another session of the connection
		_, _ = rawRequest(cn.c, cn.sess[0], commands.Libraries, nil, false)
		cn.sess = cn.sess[:len(cn.sess)-1]
		cn.hi = cn.hi[:len(cn.hi)-1]
	}
	if errstr == errHang {
		e.fail("%s: no reply", desc)
	}
	outcome := "ok"
	switch {
	case errstr == errLost:
		outcome = "closed"
	case strings.Contains(errstr, "not authorized"):
		outcome = "notauth"
	case errstr != "":
		outcome = "error"
	}
	e.rec.Label("u_" + name + "_" + outcome)
	e.rec.Label(fmt.Sprintf("u_variant%d_%s", variant, outcome))
	e.rec.LabelIf(cn.late && code < nCmds && !allowed41[cmd], "restricted_request_on_late_connection")
	if errstr != "" && errstr != errLost && len(errstr) < 200 {
		e.obtained = appendObtained(e.obtained, errstr)
	}

	switch {
	case code >= nCmds:
		// not a command: the reply must be an error or the connection ends
		if errstr == "" {
			e.fail("%s: invalid command code accepted, reply %q", desc, resp)
		}
		e.sawRefused = true
	case !allowed41[cmd]:
		if errstr == "" {
			e.fail("%s: request of an unauthenticated connection was not refused, reply %q", desc, resp)
		}
		e.sawRefused = true
	default:
		e.judgeAllowed(cn, cmd, args, wf, resp, errstr, desc)
	}
	e.checkNoEffect(desc)
	if cn.c.isDead() {
		// the server closed it: continue with a fresh unauthenticated one
		cn.c.close()
		e.U[ui] = nil // replaced by a fresh unauthenticated connection when next used
		e.rec.Label("u_reconnected")
	}
}

func appendObtained(l []string, s string) []string {
	if len(l) < 8 {
		return append(l, s)
	}
	return l
}

// encodeArgs is the harness's own rendering of the argument bytes
// (zig-zag varints, size-prefixed strings), used by the known-finding
// predicates; the request itself is written by the real client encoder.
func encodeArgs(args []warg) string {
	var b []byte
	varint := func(i int64) {
		n := uint64(i<<1) ^ uint64(i>>63)
		for n > 0x7f {
			b = append(b, byte(n)|0x80)
			n >>= 7
		}
		b = append(b, byte(n))
	}
	for _, a := range args {
		switch a.K {
		case 'i', 'l':
			varint(a.I)
		case 's', 'v', 'r':
			varint(int64(len(a.S)))
			b = append(b, a.S...)
		case 'b', 'y':
			b = append(b, byte(a.I))
		case 'x':
			b = append(b, a.S...)
		}
	}
	return string(b)
}

// parseStr reads a size-prefixed string from the front of payload the way the
// server does; rest = number of bytes following it.
func parseStr(payload string) (s string, ok bool, rest int) {
	var n uint64
	shift := uint(0)
	i := 0
	for {
		if i >= len(payload) || shift > 63 {
			return "", false, 0
		}
		c := payload[i]
		i++
		n |= uint64(c&0x7f) << shift
		shift += 7
		if c&0x80 == 0 {
			break
		}
	}
	size := int64(n>>1) ^ -int64(n&1)
	if size < 0 || size > 1<<20 || int(size) > len(payload)-i {
		return "", false, 0
	}
	return payload[i : i+int(size)], true, len(payload) - i - int(size)
}

// logUnlogged: the cases in which cmdLog answers true without logging:
// empty message under the limit, or any message once the connection is over
// its 10 KB log limit.
func logUnlogged(cn *conn41, payload string) bool {
	m, _, _ := parseStr(payload)
	const logLimit = 10 * 1024
	return cn.logBytes > logLimit || (m == "" && cn.logBytes+1 <= logLimit)
}

// judgeAllowed checks the replies of the commands an unauthenticated
// connection may use (Auth is handled by uAuth).
func (e *env41) judgeAllowed(cn *conn41, cmd commands.Command, args []warg, wf bool, resp, errstr, desc string) {
	if !wf {
		if cmd == commands.Nonce {
			// Nonce with trailing bytes replaces the nonce and then fails:
			// the harness no longer knows the connection's nonce
			if cn.nonce != "" {
				cn.prevNonces = append(cn.prevNonces, cn.nonce)
			}
			cn.nonce = ""
		}
		return
	}
	var rb mux.ReadBuf
	rb.SetBuf([]byte(resp))
	switch cmd {
	case commands.Nonce:
		if errstr != "" {
			e.fail("%s: Nonce refused: %s", desc, errstr)
		}
		n := rb.GetStr_()
		if len(n) != 8 || rb.Remaining() != 0 {
			e.fail("%s: nonce reply %q", desc, resp)
		}
		if cn.nonce != "" {
			cn.prevNonces = append(cn.prevNonces, cn.nonce)
		}
		for _, old := range append(append([]string(nil), cn.prevNonces...), e.otherNonces...) {
			if old == n {
				e.fail("%s: nonce %x issued twice", desc, n)
			}
		}
		cn.nonce = n
	case commands.Libraries:
		if errstr != "" {
			e.fail("%s: Libraries refused: %s", desc, errstr)
		}
		if libs := rb.GetStrs(); fmt.Sprint(libs) != "[stdlib]" {
			e.fail("%s: Libraries = %v", desc, libs)
		}
	case commands.SessionId:
		if errstr != "" {
			e.fail("%s: SessionId refused: %s", desc, errstr)
		}
		got := rb.GetStr()
		if want := args[0].S; want != "" && got != want {
			e.fail("%s: SessionId = %q", desc, got)
		}
	case commands.LibGet:
		var want []string
		werr := protect(func() { want = e.srv.local.LibGet(args[0].S) })
		if (werr != "") != (errstr != "") {
			e.fail("%s: LibGet error %q, directly %q", desc, errstr, werr)
		}
		if errstr == "" {
			n := rb.GetInt()
			got := make([]string, 2*n)
			sizes := make([]int, n)
			for i := 0; i < n; i++ {
				got[2*i] = rb.GetStr()
				sizes[i] = rb.GetInt()
			}
			for i := 0; i < n; i++ {
				got[2*i+1] = rb.GetN(sizes[i])
			}
			if fmt.Sprintf("%q", got) != fmt.Sprintf("%q", want) {
				e.fail("%s: LibGet = %q, directly %q", desc, got, want)
			}
		}
	}
}

// nearValid: authentication data derived from the valid response by a small
// change (the connection gets a live nonce first, so that only the change
// stands between the attempt and a login).
var nearValid = []string{"prefix-name", "prefix-name-nul", "prefix-hash-k", "prefix-any", "empty", "valid-extra",
	"flip-name", "flip-nul", "flip-hash", "other-user-name", "name-case", "token-prefix", "token-extended"}

var authClasses = append([]string{"valid", "valid", "valid", "stale-nonce", "foreign-nonce", "wrong-hash",
	"unknown-user-empty-hash", "unknown-user-other-hash", "replay", "token", "token", "spent-token", "random-token",
	"passhash-plain", "garbage", "no-nonce", "empty-pass-hash", "obtained", "suffix"},
	append(append([]string(nil), nearValid...), "prefix-name", "prefix-name-nul", "prefix-hash-k", "prefix-any", "empty")...)

// uAuth makes one authentication attempt on unauthenticated connection ui.
func (e *env41) uAuth(ui int) {
	cn := e.unauth(ui)
	if !cn.restricted {
		e.probeUnrestricted(ui, cn)
		return
	}
	class := gen.Pick(e.t, "authclass", authClasses)
	near := slices.Contains(nearValid, class)
	if e.uAuthClass(ui, class, near) || !near || e.U[ui] == nil {
		return
	}
	// a near miss must leave the connection as it was: a privileged request
	// is still refused ...
	cn = e.U[ui]
	desc := fmt.Sprintf("U%d: Size after Auth %s", ui, class)
	e.step("%s", desc)
	if resp, errstr := rawRequest(cn.c, cn.sess[0], commands.Size, nil, false); errstr == "" {
		e.fail("%s: not refused, reply %q", desc, resp)
	}
	e.checkNoEffect(desc)
	e.rec.Label("near_valid_auth_then_refused")
	// ... and the correct response to a new nonce is still accepted
	if gen.Chance(e.t, "then valid", 60) {
		if e.uAuthClass(ui, "valid", true) {
			e.rec.Label("near_valid_auth_then_valid_accepted")
		}
	}
}

// flipByte returns s with one bit of byte i inverted.
func flipByte(s string, i int, bit uint) string {
	b := []byte(s)
	b[i] ^= 1 << (bit % 8)
	return string(b)
}

// uAuthClass makes one authentication attempt of the given class and
// reports whether it was accepted.
func (e *env41) uAuthClass(ui int, class string, freshNonce bool) bool {
	t := e.t
	cn := e.unauth(ui)
	u := gen.Pick(t, "user", e.users)
	if freshNonce || gen.Chance(t, "fresh nonce first", 50) {
		desc := fmt.Sprintf("U%d: Nonce", ui)
		e.step("%s", desc)
		resp, errstr := rawRequest(cn.c, cn.sess[0], commands.Nonce, nil, false)
		e.judgeAllowed(cn, commands.Nonce, nil, true, resp, errstr, desc)
		e.obtained = appendObtained(e.obtained, cn.nonce)
	}
	liveNonce := cn.nonce
	anyNonce := liveNonce
	if anyNonce == "" && len(cn.prevNonces) > 0 {
		anyNonce = cn.prevNonces[len(cn.prevNonces)-1]
	}
	var s string
	fromObtained := false
	valid := u.Name + "\x00" + sha1of(anyNonce+u.Hash)
	tok := "0123456789abcdef"
	if toks := e.sortedTokens(); len(toks) > 0 {
		tok = gen.Pick(t, "tok", toks)
	}
	if slices.Contains(nearValid, class) {
		fromObtained = anyNonce != ""
	}
	switch class {
	case "prefix-name":
		s = u.Name
	case "prefix-name-nul":
		s = u.Name + "\x00"
	case "prefix-hash-k":
		s = valid[:len(u.Name)+1+1+gen.Uniform(t, "k", 19)] // 1..19 of the 20 hash bytes
	case "prefix-any":
		s = valid[:gen.Uniform(t, "cut", len(valid))]
	case "empty":
		s = ""
	case "valid-extra":
		s = valid + string(rapid.SliceOfN(rapid.Byte(), 1, 4).Draw(t, "extra"))
	case "flip-name":
		s = flipByte(valid, gen.Uniform(t, "pos", len(u.Name)), uint(gen.Uniform(t, "bit", 8)))
	case "flip-nul":
		s = flipByte(valid, len(u.Name), uint(gen.Uniform(t, "bit", 8)))
	case "flip-hash":
		s = flipByte(valid, len(u.Name)+1+gen.Uniform(t, "pos", 20), uint(gen.Uniform(t, "bit", 8)))
	case "other-user-name":
		other := "nobody"
		for _, o := range e.users {
			if o.Name != u.Name {
				other = o.Name
			}
		}
		s = other + "\x00" + sha1of(anyNonce+u.Hash)
	case "name-case":
		name := gen.Pick(t, "case", []string{strings.ToUpper(u.Name), strings.ToUpper(u.Name[:1]) + u.Name[1:], u.Name[:1] + strings.ToUpper(u.Name[1:])})
		s = name + "\x00" + sha1of(anyNonce+u.Hash)
	case "token-prefix":
		s = tok[:gen.Uniform(t, "k", len(tok))]
	case "token-extended":
		s = tok + string(rapid.SliceOfN(rapid.Byte(), 1, 4).Draw(t, "extra"))
	case "valid":
		s = u.Name + "\x00" + sha1of(anyNonce+u.Hash)
		fromObtained = anyNonce != ""
	case "stale-nonce":
		old := "12345678"
		if len(cn.prevNonces) > 0 {
			old = gen.Pick(t, "old", cn.prevNonces)
			fromObtained = true
		}
		s = u.Name + "\x00" + sha1of(old+u.Hash)
	case "foreign-nonce":
		foreign := "abcdefgh"
		if len(e.otherNonces) > 0 {
			foreign = gen.Pick(t, "foreign", e.otherNonces)
		}
		s = u.Name + "\x00" + sha1of(foreign+u.Hash)
	case "wrong-hash":
		s = u.Name + "\x00" + sha1of(anyNonce+u.Hash+"x")
		fromObtained = anyNonce != ""
	case "unknown-user-empty-hash":
		s = "nobody\x00" + sha1of(anyNonce)
		fromObtained = anyNonce != ""
	case "unknown-user-other-hash":
		s = "nobody\x00" + sha1of(anyNonce+u.Hash)
		fromObtained = anyNonce != ""
	case "replay":
		s = u.Name + "\x00" + sha1of("abcdefgh"+u.Hash)
		if len(e.okAuths) > 0 {
			s = gen.Pick(t, "replayed", e.okAuths)
		}
	case "token":
		s = "0123456789abcdef"
		toks := e.sortedTokens()
		if len(toks) > 0 {
			s = gen.Pick(t, "tok", toks)
		}
	case "spent-token":
		s = "fedcba9876543210"
		if len(e.spentTokens) > 0 {
			s = gen.Pick(t, "spent", e.spentTokens)
		}
	case "random-token":
		s = string(rapid.SliceOfN(rapid.Byte(), 16, 16).Draw(t, "rnd"))
	case "passhash-plain":
		s = u.Name + "\x00" + u.Hash
	case "garbage":
		s = string(rapid.SliceOfN(rapid.Byte(), 0, 40).Draw(t, "garbage"))
	case "no-nonce":
		s = u.Name + "\x00" + sha1of(u.Hash)
	case "empty-pass-hash":
		s = u.Name + "\x00" + sha1of(anyNonce)
		fromObtained = anyNonce != ""
	case "obtained":
		s = "x"
		if len(e.obtained) > 0 {
			s = gen.Pick(t, "obt", e.obtained)
			fromObtained = true
		}
	case "suffix":
		s = u.Name + "\x00" + sha1of(anyNonce+u.Hash) + "\x00"
		fromObtained = anyNonce != ""
	}
	live := liveNonce != "" && liveNonce == anyNonce
	desc := fmt.Sprintf("U%d: Auth %s (live nonce: %v)", ui, class, live)
	if class == "unknown-user-empty-hash" && live && e.known("auth-unknown-user") {
		e.step("%s   [skipped: known finding]", desc)
		e.rec.Label("skipped_known_Auth_unknown_user")
		return false
	}
	e.step("%s", desc)
	if e.sawRefused && fromObtained {
		e.ntAuth = true
	}
	want := e.authModel(cn, s)
	sess := gen.Uniform(t, "session", len(cn.sess))
	resp, errstr := rawRequest(cn.c, cn.sess[sess], commands.Auth, []warg{{K: 's', S: s}}, false)
	if errstr != "" {
		e.fail("%s: Auth answered with an error: %s", desc, errstr)
	}
	got := resp == "\x01"
	if resp != "\x01" && resp != "\x00" {
		e.fail("%s: Auth reply %q", desc, resp)
	}
	e.rec.Label(fmt.Sprintf("auth_%s_%v", class, got))
	if got && !want {
		e.fail("%s: authentication succeeded without valid credentials (string %q)", desc, s)
	}
	if !got && want {
		// not required by the property (it says "only"); visible in the labels
		e.rec.Label("valid_credentials_rejected")
	}
	e.checkNoEffect(desc)
	if !got {
		return false
	}
	// authenticated: everything works now
	e.okAuths = append(e.okAuths, s)
	e.nAuthSuccess++
	cn.authed = true
	var size uint64
	if errstr := cn.c.call(func() { size = cn.hi[0].Size() }); errstr != "" || size != e.srv.local.Size() {
		e.fail("%s: after successful authentication Size failed: %q %d", desc, errstr, size)
	}
	var n int
	if errstr := cn.c.call(func() {
		tr := cn.hi[0].Transaction(false)
		q := tr.Query("users", nil)
		for {
			row, _ := q.Get(e.th, core.Next)
			if row == nil {
				break
			}
			n++
		}
		tr.Complete()
	}); errstr != "" || n != len(e.users) {
		e.fail("%s: after successful authentication a query failed: %q (%d rows)", desc, errstr, n)
	}
	e.rec.Label("auth_success_then_works")
	e.authed = append(e.authed, cn)
	e.U[ui] = nil
	return true
}

// ---------------------------------------------------------------- the property

func TestC41(t *testing.T) {
	rec := ev.New("C41", "rapid-generated histories (5-30 steps) of a server whose users table is missing, empty or populated at the start and is created / populated / reduced / emptied / dropped at generated points (directly on the database or by the working party over its connection), with client connections opened at generated points before and after those changes. One party (A) works normally (logs in if the database has users when it connects): update/read transactions, queries, cursors, tokens. On connections opened while the database has users and not authenticated: raw protocol requests for every command code 0..39 plus invalid codes, arguments well formed (ids of A's transactions/queries/cursors, its session id, table names, statements), boundary (bad booleans/bytes, over-announced sizes), truncated, random bytes, trailing bytes; nonce requests and authentication attempts of 32 classes (valid, stale/foreign/consumed nonce, wrong hash, unknown/removed user, replayed string, issued/spent/random token, reply bytes; near-valid: every kind of proper prefix of the valid response, empty, valid + extra bytes, one bit flipped in name / NUL / hash, other user's name, name case variants, prefix / extension of an issued token - each followed by a privileged request that must be refused and mostly by the correct response to a new nonce). On connections opened while it has none: read-only requests that must be answered. Non-trivial: a refused request is followed by an authentication attempt built from material obtained on the unauthenticated connection (nonce, reply bytes); distinct = by the rendered step sequence.")
	rec.Assumptions = []string{
		"rule taken from the property and from where newServerConn takes the decision (once, when it accepts the connection): a connection opened while the database has users is restricted until it authenticates, as long as the database has users; a connection opened while it has none is not restricted while it has none. Nothing is demanded of a connection opened without users after users appear, nor of a restricted one after the users are gone: such connections are set aside (left open) and a new one is opened",
		"'the database has users' is the harness's own model of the users table (every change to it is a generated event); a first answered request on a new connection is the barrier after which the history continues",
		"refused = the reply is an error or the server closes the connection; a core.Fatal while serving the request counts as the server process exiting",
		"effects are observed directly on the server's database (logical contents of schema tables, users, stdlib, t0), db.Transactions(), the token table (hook VerifTokens) and the liveness of the authenticated connections, after every unauthenticated request",
		"steps are sequential (one request in flight at a time); interleaving is between connections, not within a request",
		"nonce/token expiry by the once-a-minute background task is not exercised",
		"a valid login that is rejected is only counted (the property says 'only')",
	}
	defer rec.Write()
	defer leakReport(rec, 0)()
	dbms.VerifClearTokens()

	rt.Check(t, rec, "unauth", 500, 5000, func(t *rapid.T) {
		e := &env41{t: t, rec: rec, validTokens: map[string]bool{}, nextK: 100}
		// (fragmentation is C40's subject; a third of the cases keep it here)
		e.frag = frag{RawW: []int{1 << 20}, RawR: []int{1 << 20}, AppW: []int{1 << 20}, AppR: []int{1 << 20}}
		if gen.Chance(t, "fragmented", 33) {
			e.frag = genFrag().Draw(t, "frag")
		}
		e.th = core.NewThread(nil)
		e.srv = newServer(1 << 16)
		e.srv.serve()
		defer e.srv.close()
		e.th.SetDbms(e.srv.local)
		dbms.VerifClearTokens()
		takeServerFatals()

		// a library and a data table; the users table is missing, empty or
		// populated at the start and changes at generated points later
		names := []string{"joe", "sue", "admin"}
		loc := e.srv.local
		loc.Admin("create stdlib (name, group, text) key(name, group)", nil)
		loc.Admin("create t0 (k, a, b) key(k)", nil)
		initial := gen.Pick(t, "initial users", []string{"missing", "missing", "missing", "empty", "empty", "empty", "users", "users", "users", "users", "users", "users", "users",
			"users", "users", "users", "users", "users", "users", "users"})
		if initial != "missing" {
			loc.Admin("create users (user, passhash) key(user)", nil)
			e.usersTable = true
		}
		ut := loc.Transaction(true)
		if initial == "users" {
			nu := 1 + gen.Uniform(t, "nusers", 3)
			for i := 0; i < nu; i++ {
				u := user41{Name: names[i], Hash: rapid.StringMatching(`[a-f0-9]{8,20}`).Draw(t, "passhash")}
				e.users = append(e.users, u)
				ut.Action(e.th, fmt.Sprintf("insert { user: %q, passhash: %q } into users", u.Name, u.Hash))
			}
		}
		ut.Action(e.th, "insert { name: 'Suneido', group: -1, text: 'class { }' } into stdlib")
		ut.Action(e.th, "insert { k: 1, a: 1, b: 'one' } into t0")
		if r := ut.Complete(); r != "" {
			t.Fatalf("setup: %s", r)
		}
		e.step("database: users table %s", initial)
		rec.Label("initial_users_" + initial)

		defer func() {
			for _, cn := range e.all {
				cn.c.close()
			}
		}()
		// A: the party that works normally. With users it logs in; without,
		// its connection is accepted as it is (e.g. the administrator who
		// will create the first user over it)
		e.A = e.newConn()
		if e.A.restricted {
			if !e.login(e.A, e.users[0]) {
				e.fail("setup: the documented login was rejected")
			}
			e.A.authed = true
			e.step("A: connected and logged in as %s", e.users[0].Name)
		} else {
			e.step("A: connected (database has no users)")
			e.aCall("Size on a connection opened without users", func() { e.A.hi[0].Size() })
		}
		nU := 1
		if gen.Chance(t, "nU", 35) {
			nU = 2
		}
		e.U = make([]*conn41, nU)
		for i := 0; i < nU; i++ {
			// connections are opened at generated points: now, or when first used
			if gen.Chance(t, "open now", 60) {
				cn := e.unauth(i)
				if gen.Chance(t, "two sessions", 50) {
					cn.addSession()
				}
			}
		}
		e.refreshFingerprint()

		nsteps := 5 + gen.Uniform(t, "nsteps", 26)
		nevents := 0
		for i := 0; i < nsteps; i++ {
			ui := gen.Uniform(t, "ui", len(e.U))
			kinds := []string{"a", "req", "req", "req", "req", "req", "req", "nonce", "auth", "auth", "users", "open"}
			if !e.haveUsers() {
				// periods without users are kept short: the property is about databases with users
				kinds = []string{"a", "req", "open", "users", "users", "users"}
			}
			switch gen.Pick(t, "kind", kinds) {
			case "a":
				e.aStep()
			case "req":
				e.uRequest(ui)
			case "nonce":
				cn := e.unauth(ui)
				desc := fmt.Sprintf("U%d: Nonce", ui)
				e.step("%s", desc)
				resp, errstr := rawRequest(cn.c, cn.sess[0], commands.Nonce, nil, false)
				e.judgeAllowed(cn, commands.Nonce, nil, true, resp, errstr, desc)
				e.rec.Label("u_Nonce_ok")
				e.checkNoEffect(desc)
			case "auth":
				e.uAuth(ui)
			case "users":
				if nevents < 4 || !e.haveUsers() {
					nevents++
					e.usersEvent()
				}
			case "open":
				// a further connection is opened at this point of the history;
				// the one in the slot stays open (and is judged at the end)
				if len(e.all) < 8 {
					if e.U[ui] != nil {
						e.step("U%d: set aside, a further connection is opened", ui)
						e.U[ui] = nil
					}
					e.unauth(ui)
				}
			}
		}
		// At the end: every connection that was opened while the database had
		// users and did not authenticate is still refused (if the database
		// has users now); one opened while it had none and has none now works
		nlate := 0
		for i, cn := range e.all {
			if cn == e.A || cn.authed || cn.c.isDead() {
				continue
			}
			switch {
			case cn.restricted && e.haveUsers():
				_, errstr := rawRequest(cn.c, cn.sess[0], commands.Size, nil, false)
				if errstr == "" {
					e.fail("final: connection #%d, opened while the database had users and never authenticated, can read the database size", i)
				}
				resp, errstr := rawRequest(cn.c, cn.sess[0], commands.GetOne,
					[]warg{{K: 'y', I: '+'}, {K: 'i', I: 0}, {K: 'v', S: packedObj("users sort user")}}, false)
				if errstr == "" {
					e.fail("final: connection #%d, opened while the database had users and never authenticated, read a users row: %q", i, resp)
				}
				rec.Label("final_restricted_refused")
				if cn.late {
					nlate++
					rec.Label("restricted_request_on_late_connection")
				}
			case !cn.restricted && !e.haveUsers():
				if _, errstr := rawRequest(cn.c, cn.sess[0], commands.Size, nil, false); errstr != "" {
					e.fail("final: connection #%d, opened while the database had no users (and it has none now), is refused: %s", i, errstr)
				}
				rec.Label("final_unrestricted_works")
			}
		}
		e.checkNoEffect("final probes")
		// and the authenticated one still works
		e.aCall("final Size", func() { e.A.hi[0].Size() })
		rec.LabelIf(e.usersAppeared, "case_users_appeared_after_a_connection")
		rec.LabelIf(nlate > 0, "case_late_connection_judged")

		rec.Case(e.ntAuth, strings.Join(e.steps, "|"))
		rec.LabelIf(e.nAuthSuccess > 0, "case_with_successful_auth")
		rec.LabelIf(e.frag.fragmented(), "case_fragmented")
		rec.LabelIf(nU == 2, "case_two_unauth_connections")
		if e.ntAuth && rec.WantSample("nontrivial") {
			rec.Sample("nontrivial", e.steps)
		}
		if e.nAuthSuccess > 0 && rec.WantSample("auth_success") {
			rec.Sample("auth_success", e.steps)
		}
	})
}
