// Package netx (directory net): client-server and authentication checks
// C40 and C41. The server side is the real newServerConn (through the
// verif hook dbms.VerifServe), the client side the real NewDbmsClient,
// connected by net.Pipe with TLS using the embedded test certificate.
package netx

import (
	"bytes"
	"errors"
	"fmt"
	"io"
	"log"
	"net"
	"os"
	"runtime"
	"strings"
	"sync"
	"sync/atomic"
	"testing"
	"time"

	_ "github.com/apmckinlay/gsuneido/builtin"
	"github.com/apmckinlay/gsuneido/core"
	"github.com/apmckinlay/gsuneido/db19"
	"github.com/apmckinlay/gsuneido/db19/stor"
	"github.com/apmckinlay/gsuneido/dbms"
	"github.com/apmckinlay/gsuneido/dbms/mux"
	"github.com/apmckinlay/gsuneido/options"
	"pgregory.net/rapid"
	"verifharness/internal/ev"
	"verifharness/internal/gen"
)

// ---------------------------------------------------------------- process

// logCapture collects what the code under test writes with the log package
// (server log, FATAL lines). Only the harness reads it.
type logCapture struct {
	mu        sync.Mutex
	lines     int
	lastFatal string
	marks     []string // lines containing logMark, most recent last
	nmarks    int      // number of lines containing logMark so far
}

// marked returns the number of marked lines logged so far and the last one.
func (lc *logCapture) marked() (int, string) {
	lc.mu.Lock()
	defer lc.mu.Unlock()
	last := ""
	if len(lc.marks) > 0 {
		last = lc.marks[len(lc.marks)-1]
	}
	return lc.nmarks, last
}

const logMark = "VERIFLOG"

func (lc *logCapture) Write(p []byte) (int, error) {
	lc.mu.Lock()
	defer lc.mu.Unlock()
	lc.lines++
	s := string(p)
	if i := strings.Index(s, "FATAL: "); i >= 0 {
		lc.lastFatal = strings.TrimSpace(s[i+7:])
	}
	if strings.Contains(s, logMark) {
		lc.nmarks++
		if len(lc.marks) > 64 {
			lc.marks = lc.marks[32:]
		}
		lc.marks = append(lc.marks, strings.TrimSpace(s))
	}
	return len(p), nil
}

func (lc *logCapture) fatal() string {
	lc.mu.Lock()
	defer lc.mu.Unlock()
	return lc.lastFatal
}

// logged reports whether a line containing s was logged.
func (lc *logCapture) logged(s string) bool {
	lc.mu.Lock()
	defer lc.mu.Unlock()
	for _, l := range lc.marks {
		if strings.Contains(l, s) {
			return true
		}
	}
	return false
}

var logCap = &logCapture{}

// fatalExit is what core.Fatal becomes in this process when it is called on
// a goroutine that the harness owns (the production process would exit).
type fatalExit struct{ msg string }

func (f fatalExit) Error() string { return "FATAL: " + f.msg }

// exitHook replaces core.Exit. A Fatal on the mux reader goroutine is the
// client's "lost connection": the production client exits, here that reader
// goroutine ends. Anywhere else it becomes a panic the caller can observe.
func exitHook(int) {
	buf := make([]byte, 8192)
	n := runtime.Stack(buf, false)
	if bytes.Contains(buf[:n], []byte("mux.(*conn).reader")) {
		// the client's reader gave up (e.g. refused a frame): the connection
		// is lost for every session on it
		if ac, ok := readers.Load(goid(buf[:n])); ok {
			ac.(*appConn).lost()
		}
		runtime.Goexit()
	}
	msg := logCap.fatal()
	if bytes.Contains(buf[:n], []byte("dbms.doRequest")) {
		// the production server process would exit here
		fatalMu.Lock()
		serverFatals = append(serverFatals, msg)
		fatalMu.Unlock()
	}
	panic(fatalExit{msg})
}

// readers maps the goroutine id of a client mux reader to its connection.
var readers sync.Map

// goid extracts the goroutine number from a runtime.Stack dump.
func goid(stack []byte) string {
	// "goroutine 123 [running]:"
	f := bytes.Fields(stack[:min(len(stack), 40)])
	if len(f) >= 2 {
		return string(f[1])
	}
	return ""
}

var fatalMu sync.Mutex
var serverFatals []string // core.Fatal calls made while serving a request

// takeServerFatals returns and clears the recorded server-side Fatal calls.
func takeServerFatals() []string {
	fatalMu.Lock()
	defer fatalMu.Unlock()
	r := serverFatals
	serverFatals = nil
	return r
}

var realStderr = os.Stderr

func TestMain(m *testing.M) {
	options.Action = "server" // Kill and the io limit behave as in a server
	options.BuiltDate = "Dec 29 2020 12:34"
	core.Exit = exitHook
	log.SetOutput(logCap)
	log.SetFlags(0)
	// dbg.PrintStack writes Go stacks of refused requests to os.Stderr
	if f, err := os.OpenFile(os.DevNull, os.O_WRONLY, 0); err == nil {
		os.Stderr = f
	}
	if _, n := ev.Shard(); n > 1 {
		// thorough: 16 shard processes share the machine; with 16 Ps each they
		// spend their time in futex handoffs of the pipes
		runtime.GOMAXPROCS(4)
	}
	dbms.VerifAuthRate(1e12)
	// the checker's coin flip (which of two conflicting transactions is
	// aborted) would make the two sides of a differential disagree
	db19.VerifAbortT1(true)
	db19.StartTimestamps()
	os.Exit(m.Run())
}

// ---------------------------------------------------------------- fragmentation

// frag is the generated fragmentation of one connection.
type frag struct {
	RawW []int // chunk sizes of raw (below TLS) writes, cyclic, both directions
	RawR []int // read size limits below TLS
	AppW []int // split sizes of client writes above TLS (one TLS record each)
	AppR []int // read size limits of the client mux reader above TLS
}

var chunkSizes = []int{1, 1, 2, 3, 5, 8, 9, 10, 13, 17, 64, 100, 512, 1400, 4095, 4096, 4097, 9000, 16384, 1 << 20}

func genChunks(t *rapid.T, label string) []int {
	if gen.Chance(t, label+" whole", 30) {
		return []int{1 << 20} // unfragmented
	}
	l := make([]int, 1+gen.Uniform(t, label+" n", 6))
	for i := range l {
		l[i] = gen.Pick(t, label, chunkSizes)
	}
	return l
}

type fragGen struct{}

func genFrag() fragGen { return fragGen{} }

func (fragGen) Draw(t *rapid.T, label string) frag {
	return frag{
		RawW: genChunks(t, "rawW"),
		RawR: genChunks(t, "rawR"),
		AppW: genChunks(t, "appW"),
		AppR: genChunks(t, "appR"),
	}
}

func (f frag) fragmented() bool {
	for _, l := range [][]int{f.RawW, f.RawR, f.AppW, f.AppR} {
		for _, n := range l {
			if n < 4096 {
				return true
			}
		}
	}
	return false
}

// pattern hands out sizes cyclically; a size is never smaller than total/div
// so that a 1 MB message is not moved a byte at a time (bounded case cost).
type pattern struct {
	sizes []int
	i     int
	div   int
}

func (p *pattern) next(total int) int {
	n := p.sizes[p.i%len(p.sizes)]
	p.i++
	if m := total / p.div; n < m {
		n = m
	}
	if n < 1 {
		n = 1
	}
	return n
}

// rawConn wraps one end of a net.Pipe below TLS. Writes are queued and
// delivered asynchronously in generated chunk sizes (like a socket with a
// send buffer: net.Pipe itself is synchronous and both sides of the protocol
// write their hello first); reads are limited to generated sizes.
type rawConn struct {
	net.Conn
	mu     sync.Mutex
	cond   *sync.Cond
	queue  [][]byte
	closed bool
	wpat   pattern
	rpat   pattern // used by the single reader only
	done   chan struct{}
	chunks atomic.Int64
}

func newRawConn(c net.Conn, w, r []int) *rawConn {
	rc := &rawConn{Conn: c, wpat: pattern{sizes: w, div: 8}, rpat: pattern{sizes: r, div: 8},
		done: make(chan struct{})}
	rc.cond = sync.NewCond(&rc.mu)
	go rc.pump()
	return rc
}

func (rc *rawConn) pump() {
	defer close(rc.done)
	for {
		rc.mu.Lock()
		for len(rc.queue) == 0 && !rc.closed {
			rc.cond.Wait()
		}
		if rc.closed {
			rc.mu.Unlock()
			return
		}
		buf := rc.queue[0]
		rc.queue = rc.queue[1:]
		rc.mu.Unlock()
		total := len(buf)
		for len(buf) > 0 {
			n := min(rc.wpat.next(total), len(buf))
			if _, err := rc.Conn.Write(buf[:n]); err != nil {
				rc.mu.Lock()
				rc.closed = true
				rc.queue = nil
				rc.mu.Unlock()
				return
			}
			rc.chunks.Add(1)
			buf = buf[n:]
		}
	}
}

func (rc *rawConn) Write(p []byte) (int, error) {
	rc.mu.Lock()
	defer rc.mu.Unlock()
	if rc.closed {
		return 0, io.ErrClosedPipe
	}
	rc.queue = append(rc.queue, bytes.Clone(p))
	rc.cond.Signal()
	return len(p), nil
}

func (rc *rawConn) Read(p []byte) (int, error) {
	if n := rc.rpat.next(len(p)); n < len(p) {
		p = p[:n]
	}
	return rc.Conn.Read(p)
}

func (rc *rawConn) Close() error {
	rc.mu.Lock()
	rc.closed = true
	rc.cond.Broadcast()
	rc.mu.Unlock()
	return rc.Conn.Close()
}

// appConn wraps the client's TLS connection: what the client's mux layer
// writes is split into several TLS records (so the server's mux reader sees
// headers and bodies arrive in pieces) and the client's mux reader gets short
// reads. It also notices the loss of the connection.
type appConn struct {
	net.Conn
	wpat pattern // guarded by the mux write lock (one writer at a time)
	rpat pattern // mux reader goroutine only
	dead chan struct{}
	once sync.Once
	// closing is set by the harness before it closes the connection itself
	closing  atomic.Bool
	readerID string // goroutine of the client's mux reader
}

func (ac *appConn) Write(p []byte) (int, error) {
	total := len(p)
	written := 0
	for len(p) > 0 {
		n := min(ac.wpat.next(total), len(p))
		m, err := ac.Conn.Write(p[:n])
		written += m
		if err != nil {
			ac.lost()
			return written, err
		}
		p = p[n:]
	}
	return written, nil
}

func (ac *appConn) Read(p []byte) (int, error) {
	if ac.readerID == "" { // only the mux reader goroutine reads
		buf := make([]byte, 64)
		ac.readerID = goid(buf[:runtime.Stack(buf, false)])
		readers.Store(ac.readerID, ac)
	}
	if n := ac.rpat.next(len(p)); n < len(p) {
		p = p[:n]
	}
	n, err := ac.Conn.Read(p)
	if err != nil {
		ac.lost()
	}
	return n, err
}

func (ac *appConn) lost() {
	ac.once.Do(func() {
		close(ac.dead)
		if ac.readerID != "" {
			readers.Delete(ac.readerID)
		}
	})
}

// ---------------------------------------------------------------- server, client

type server struct {
	db    *db19.Database
	local *dbms.DbmsLocal
	wg    sync.WaitGroup // VerifServe goroutines
}

// currentServer is what core.GetDbms returns to server worker threads
// (the production server injects its DbmsLocal the same way).
var currentServer atomic.Pointer[server]

func newServer(chunksize int) *server {
	databasesMade.Add(1)
	db := db19.CreateDb(stor.HeapStor(chunksize))
	db19.StartConcur(db, 24*time.Hour)
	s := &server{db: db, local: dbms.NewDbmsLocal(db)}
	return s
}

// serve makes s the database of the server side of this process.
// Server worker threads live longer than a case and cache what GetDbms
// returned, so they get an indirection whose Unwrap (what Thread.Dbms calls
// on every use) is the current case's real DbmsLocal.
func (s *server) serve() {
	currentServer.Store(s)
	core.GetDbms = func() core.IDbms { return switchDbms{} }
}

type switchDbms struct{ core.IDbms }

func (switchDbms) Unwrap() core.IDbms { return currentServer.Load().local }

func (switchDbms) SessionId(th *core.Thread, id string) string {
	return currentServer.Load().local.SessionId(th, id)
}

func (s *server) close() {
	s.wg.Wait()
	s.db.Close()
}

// client is one client connection (real dbmsClient over the wrapped pipe).
type client struct {
	app        *appConn
	rawC, rawS *rawConn
	newSession func() (core.IDbms, *mux.ClientSession)
}

var errHandshake = errors.New("handshake")

// connect creates a pipe, runs the real server connection code on one end
// and the real client handshake + NewDbmsClient on the other.
func (s *server) connect(f frag) *client {
	var lastErr error
	for range 5 {
		p1, p2 := net.Pipe()
		rs := newRawConn(p1, f.RawW, f.RawR)
		rc := newRawConn(p2, f.RawW, f.RawR)
		s.wg.Add(1)
		go func() {
			defer s.wg.Done()
			defer func() {
				// a panic on the server's connection goroutine ends the
				// production server process
				if e := recover(); e != nil {
					fatalMu.Lock()
					serverFatals = append(serverFatals, "panic in server connection goroutine: "+errString(e))
					fatalMu.Unlock()
					rs.Close()
				}
			}()
			dbms.VerifServe(s.local, rs)
		}()
		tc, err := dbms.VerifClientHandshake(rc)
		if err != nil {
			// only seen when the machine stalls longer than the hello timeout
			lastErr = err
			rc.Close()
			rs.Close()
			continue
		}
		ac := &appConn{Conn: tc, wpat: pattern{sizes: f.AppW, div: 16},
			rpat: pattern{sizes: f.AppR, div: 16}, dead: make(chan struct{})}
		dc := dbms.NewDbmsClient(ac)
		return &client{app: ac, rawC: rc, rawS: rs,
			newSession: func() (core.IDbms, *mux.ClientSession) {
				ms := dc.NewSession()
				return ms, ms.ClientSession
			}}
	}
	panic(fmt.Sprint("INFRA: cannot establish connection: ", lastErr))
}

func (c *client) close() {
	c.app.closing.Store(true)
	c.app.Conn.Close()
	c.rawC.Close()
	<-c.rawC.done
	<-c.rawS.done
}

func (c *client) isDead() bool {
	select {
	case <-c.app.dead:
		return true
	default:
		return false
	}
}

// errLost is the outcome of a request whose connection was closed by the
// server (the production client process reports "lost connection" and exits).
const errLost = "LOST CONNECTION"

// errHang: no response within the (generous) watchdog.
const errHang = "HANG"
const watchdog = 60 * time.Second

// call runs one client request. A request on a connection that the server
// closes never returns in the client (its process exits in the reader), so
// the request runs on its own goroutine and the loss of the connection ends
// the wait. Returns the panic value of f as a string ("" = no panic).
func (c *client) call(f func()) (errstr string) {
	if c.isDead() {
		return errLost
	}
	done := make(chan string, 1)
	go func() {
		defer func() {
			if e := recover(); e != nil {
				done <- "ERR: " + errString(e)
				return
			}
			done <- ""
		}()
		f()
	}()
	select {
	case s := <-done:
		return s
	case <-time.After(watchdog):
		return errHang
	case <-c.app.dead:
		// a response that arrived before the loss is still delivered
		select {
		case s := <-done:
			return s
		case <-time.After(50 * time.Millisecond):
			return errLost
		}
	}
}

func errString(e any) string {
	// a Suneido exception carries its message as a string value
	if t, ok := e.(interface{ ToStr() (string, bool) }); ok {
		if s, ok := t.ToStr(); ok {
			return s
		}
	}
	switch e := e.(type) {
	case string:
		return e
	case error:
		return e.Error()
	case fmt.Stringer:
		return e.String()
	}
	return fmt.Sprint(e)
}

// protect runs f and returns its panic as a string ("" = none).
func protect(f func()) (errstr string) {
	defer func() {
		if e := recover(); e != nil {
			errstr = "ERR: " + errString(e)
		}
	}()
	f()
	return ""
}

// ---------------------------------------------------------------- cleanup evidence

// databasesMade counts newServer calls (each database leaks the 8 persist
// workers that db19.StartConcur starts and never stops).
var databasesMade atomic.Int64

// leakReport records, at the end of a test, how many goroutines and server
// connections are left beyond what the databases themselves leak.
func leakReport(rec *ev.Rec, _ int) func() {
	g0 := runtime.NumGoroutine()
	d0 := databasesMade.Load()
	return func() {
		time.Sleep(100 * time.Millisecond) // let closed connections unwind
		dbs := databasesMade.Load() - d0
		g := runtime.NumGoroutine() - g0
		rec.Set("databases_created", dbs)
		rec.Set("goroutines_left", g)
		rec.Set("goroutines_left_beyond_8_per_database", int64(g)-8*dbs)
		rec.Set("server_connections_left", dbms.VerifServerConns())
		var ms runtime.MemStats
		runtime.ReadMemStats(&ms)
		rec.Set("heap_sys_mb_at_end", ms.HeapSys>>20)
	}
}
