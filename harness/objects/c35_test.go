package objects

import (
	"fmt"
	"sort"
	"strconv"
	"strings"
	"testing"

	"github.com/apmckinlay/gsuneido/core"
	"pgregory.net/rapid"
	"verifharness/internal/ev"
	"verifharness/internal/gen"
	"verifharness/internal/kf"
	"verifharness/internal/rt"
)

// ---------------------------------------------------------------------------
// Rule expressions: a small pure language over the fields of the record,
// rendered to Suneido source and evaluated by the model's own evaluator.
// Semantics used (suneidoc Language/Expressions): arithmetic yields a number
// and treats "" as 0; $ converts numbers to strings; is/isnt never equate a
// number and a string; ?: and/or evaluate only what they need; a member a
// record does not contain reads as "" (Record default value).

type xkind int

const (
	xField xkind = iota
	xLit
	xArith // op + - *
	xCat
	xCond // c ? a : b
	xIs   // a is b / a isnt b (neg)
	xLt   // a < b / a >= b (neg)
	xAnd
	xOr
	xNot
)

type expr struct {
	k    xkind
	f    string
	lit  mval
	op   byte
	neg  bool
	a, b *expr
	c    *expr
}

func (e *expr) src() string {
	switch e.k {
	case xField:
		return "." + e.f
	case xLit:
		if e.lit.str {
			return strconv.Quote(e.lit.s)
		}
		if e.lit.n < 0 {
			return "(" + strconv.Itoa(e.lit.n) + ")"
		}
		return strconv.Itoa(e.lit.n)
	case xArith:
		return "(" + e.a.src() + " " + string(e.op) + " " + e.b.src() + ")"
	case xCat:
		return "(" + e.a.src() + " $ " + e.b.src() + ")"
	case xCond:
		return "(" + e.c.src() + " ? " + e.a.src() + " : " + e.b.src() + ")"
	case xIs:
		if e.neg {
			return "(" + e.a.src() + " isnt " + e.b.src() + ")"
		}
		return "(" + e.a.src() + " is " + e.b.src() + ")"
	case xLt:
		if e.neg {
			return "(" + e.a.src() + " >= " + e.b.src() + ")"
		}
		return "(" + e.a.src() + " < " + e.b.src() + ")"
	case xAnd:
		return "(" + e.a.src() + " and " + e.b.src() + ")"
	case xOr:
		return "(" + e.a.src() + " or " + e.b.src() + ")"
	case xNot:
		return "(not " + e.a.src() + ")"
	}
	panic("expr kind")
}

// fields collects every field mentioned (static dependencies).
func (e *expr) fields(into map[string]bool) {
	if e == nil {
		return
	}
	if e.k == xField {
		into[e.f] = true
	}
	e.a.fields(into)
	e.b.fields(into)
	e.c.fields(into)
}

func (e *expr) hasField() bool {
	m := map[string]bool{}
	e.fields(m)
	return len(m) > 0
}

func (e *expr) hasConditional() bool {
	if e == nil {
		return false
	}
	if e.k == xCond || e.k == xAnd || e.k == xOr {
		return true
	}
	return e.a.hasConditional() || e.b.hasConditional() || e.c.hasConditional()
}

type ruleDef struct {
	name    string
	e       *expr
	numeric bool // value is always a number or ""
	attach  bool // record.AttachRule (else Rule_<name> global)
	form    int  // rendering of the function
	src     string
	fn      core.Value
	static  map[string]bool // transitive static dependencies
	direct  map[string]bool // fields mentioned in the rule itself
}

type c35world struct {
	plains []string
	rules  []*ruleDef
	byName map[string]*ruleDef
	wide   bool   // 6-10 rules, most of them reading the hub field (fan-out of dependents)
	hub    string // the plain field most rules read in a wide world
}

func (w *c35world) isRule(f string) bool { _, ok := w.byName[f]; return ok }

// reader gives the value of a field as a rule sees it.
type reader func(f string) mval

// eval evaluates e; every field read is reported to onRead (in order,
// including repeats), respecting short-circuit evaluation.
func eval(e *expr, get reader, onRead func(string)) mval {
	switch e.k {
	case xField:
		if onRead != nil {
			onRead(e.f)
		}
		return get(e.f)
	case xLit:
		return e.lit
	case xArith:
		a, b := num(eval(e.a, get, onRead)), num(eval(e.b, get, onRead))
		switch e.op {
		case '+':
			return mi(a + b)
		case '-':
			return mi(a - b)
		}
		return mi(a * b)
	case xCat:
		a, b := eval(e.a, get, onRead), eval(e.b, get, onRead)
		return ms(text(a) + text(b))
	case xCond:
		if truth(eval(e.c, get, onRead)) {
			return eval(e.a, get, onRead)
		}
		return eval(e.b, get, onRead)
	case xIs:
		a, b := eval(e.a, get, onRead), eval(e.b, get, onRead)
		return boolv((a == b) != e.neg)
	case xLt:
		a, b := num(eval(e.a, get, onRead)), num(eval(e.b, get, onRead))
		return boolv((a < b) != e.neg)
	case xAnd:
		if !truth(eval(e.a, get, onRead)) {
			return boolv(false)
		}
		return boolv(truth(eval(e.b, get, onRead)))
	case xOr:
		if truth(eval(e.a, get, onRead)) {
			return boolv(true)
		}
		return boolv(truth(eval(e.b, get, onRead)))
	case xNot:
		return boolv(!truth(eval(e.a, get, onRead)))
	}
	panic("expr kind")
}

// booleans only occur as conditions, never as rule results
func boolv(b bool) mval {
	if b {
		return mval{str: true, s: "\x00true"}
	}
	return mval{str: true, s: "\x00false"}
}
func truth(v mval) bool { return v.s == "\x00true" }
func num(v mval) int {
	if v.str {
		if v.s != "" {
			panic("model: arithmetic on string " + v.String())
		}
		return 0
	}
	return v.n
}
func text(v mval) string {
	if v.str {
		return v.s
	}
	return strconv.Itoa(v.n)
}

// --- generation --------------------------------------------------------------

type c35gen struct {
	t     *rapid.T
	w     *c35world
	avail []string // fields the rule under construction may mention
}

var c35lits = []int{0, 1, 2, 3, -1, 5}

func (g *c35gen) numericFields() []string {
	var r []string
	for _, f := range g.avail {
		if rd, ok := g.w.byName[f]; !ok || rd.numeric {
			r = append(r, f)
		}
	}
	return r
}

// pickField prefers earlier rule fields (chains, diamonds).
func (g *c35gen) pickField(cands []string) string {
	var rules, plains []string
	for _, f := range cands {
		if g.w.isRule(f) {
			rules = append(rules, f)
		} else {
			plains = append(plains, f)
		}
	}
	if len(rules) > 0 && (len(plains) == 0 || gen.Chance(g.t, "refrule", 45)) {
		return gen.Pick(g.t, "rulefield", rules)
	}
	return gen.Pick(g.t, "plainfield", plains)
}

// numExpr yields a number or "" (usable as an arithmetic operand).
func (g *c35gen) numExpr(depth int) *expr {
	if depth <= 0 || gen.Chance(g.t, "numleaf", 35) {
		if gen.Chance(g.t, "numfield", 75) {
			return &expr{k: xField, f: g.pickField(g.numericFields())}
		}
		return &expr{k: xLit, lit: mi(gen.Pick(g.t, "lit", c35lits))}
	}
	switch gen.Weighted(g.t, "numform", []int{45, 15, 40}) {
	case 0:
		return &expr{k: xArith, op: gen.Pick(g.t, "op", []byte{'+', '-'}), a: g.numExpr(depth - 1), b: g.numExpr(depth - 1)}
	case 1:
		return &expr{k: xArith, op: '*', a: g.numExpr(depth - 1), b: &expr{k: xLit, lit: mi(2 + gen.Uniform(g.t, "mul", 2))}}
	}
	return &expr{k: xCond, c: g.cond(depth - 1), a: g.numExpr(depth - 1), b: g.numExpr(depth - 1)}
}

// strictNum always yields a number (operand of < and >=).
func (g *c35gen) strictNum(depth int) *expr {
	e := g.numExpr(depth)
	if e.k == xArith || (e.k == xLit && !e.lit.str) {
		return e
	}
	return &expr{k: xArith, op: '+', a: e, b: &expr{k: xLit, lit: mi(0)}}
}

func (g *c35gen) anyExpr(depth int) *expr {
	if depth <= 0 || gen.Chance(g.t, "anyleaf", 35) {
		switch gen.Weighted(g.t, "anyleafkind", []int{65, 15, 20}) {
		case 0:
			return &expr{k: xField, f: g.pickField(g.avail)}
		case 1:
			return &expr{k: xLit, lit: mi(gen.Pick(g.t, "lit", c35lits))}
		}
		return &expr{k: xLit, lit: ms(gen.Pick(g.t, "slit", []string{"", "a", "1", "-"}))}
	}
	switch gen.Weighted(g.t, "anyform", []int{40, 30, 30}) {
	case 0:
		return &expr{k: xCat, a: g.anyExpr(depth - 1), b: g.anyExpr(depth - 1)}
	case 1:
		return &expr{k: xCond, c: g.cond(depth - 1), a: g.anyExpr(depth - 1), b: g.anyExpr(depth - 1)}
	}
	return g.numExpr(depth - 1)
}

func (g *c35gen) cond(depth int) *expr {
	w := []int{50, 25, 10, 10, 5}
	if depth <= 0 {
		w = []int{65, 35, 0, 0, 0}
	}
	switch gen.Weighted(g.t, "condform", w) {
	case 0:
		var b *expr
		if gen.Chance(g.t, "iswithlit", 70) {
			if gen.Chance(g.t, "isstr", 25) {
				b = &expr{k: xLit, lit: ms(gen.Pick(g.t, "slit", []string{"", "a", "1"}))}
			} else {
				b = &expr{k: xLit, lit: mi(gen.Pick(g.t, "lit", c35lits))}
			}
		} else {
			b = g.anyExpr(0)
		}
		// a comparison of two constants is folded at compile time and then
		// short-circuits and/or/?: (`x or true` drops x): always involve a field
		a := g.anyExpr(min(depth, 1))
		if !a.hasField() {
			a = &expr{k: xField, f: g.pickField(g.avail)}
		}
		return &expr{k: xIs, neg: gen.Chance(g.t, "isnt", 35), a: a, b: b}
	case 1:
		a := g.strictNum(min(depth, 1))
		if !a.hasField() {
			a = &expr{k: xArith, op: '+', a: &expr{k: xField, f: g.pickField(g.numericFields())}, b: a}
		}
		return &expr{k: xLt, neg: gen.Chance(g.t, "gte", 40), a: a, b: g.strictNum(0)}
	case 2:
		return &expr{k: xAnd, a: g.cond(depth - 1), b: g.cond(depth - 1)}
	case 3:
		return &expr{k: xOr, a: g.cond(depth - 1), b: g.cond(depth - 1)}
	}
	return &expr{k: xNot, a: g.cond(depth - 1)}
}

func genWorld(t *rapid.T) *c35world {
	w := &c35world{byName: map[string]*ruleDef{}}
	np := 2 + gen.Uniform(t, "nplain", 4)
	nr := 1 + gen.Uniform(t, "nrule", 4)
	if gen.Chance(t, "wide", 50) {
		// many rules over the same base field: a field then has 3-7 dependents
		w.wide = true
		np = 2 + gen.Uniform(t, "nplainwide", 3)
		nr = 6 + gen.Uniform(t, "nrulewide", 5)
		w.hub = "p0"
	}
	for i := 0; i < np; i++ {
		w.plains = append(w.plains, fmt.Sprintf("p%d", i))
	}
	g := &c35gen{t: t, w: w}
	for i := 0; i < nr; i++ {
		rd := &ruleDef{attach: gen.Chance(t, "attach", 55)}
		if rd.attach {
			rd.name = fmt.Sprintf("r%d", i)
		} else {
			rd.name = fmt.Sprintf("g%d", i)
		}
		g.avail = append([]string{}, w.plains...)
		for _, r := range w.rules {
			g.avail = append(g.avail, r.name)
		}
		rd.numeric = gen.Chance(t, "numeric", 60)
		depth := 1 + gen.Uniform(t, "depth", 3)
		if w.wide {
			depth = gen.Uniform(t, "depthwide", 3) // small rules, many of them
		}
		if rd.numeric {
			rd.e = g.numExpr(depth)
			if rd.e.k == xLit { // a constant rule has no dependencies: make it depend on something
				rd.e = &expr{k: xArith, op: '+', a: rd.e, b: &expr{k: xField, f: g.pickField(g.numericFields())}}
			}
		} else {
			rd.e = &expr{k: xCat, a: g.anyExpr(depth), b: g.anyExpr(depth - 1)}
		}
		if w.wide && gen.Chance(t, "readshub", 75) {
			hub := &expr{k: xField, f: w.hub}
			if rd.numeric {
				rd.e = &expr{k: xArith, op: gen.Pick(t, "hubop", []byte{'+', '-'}), a: hub, b: rd.e}
			} else {
				rd.e = &expr{k: xCat, a: hub, b: rd.e}
			}
		}
		rd.form = gen.Uniform(t, "form", 3)
		switch {
		case rd.form == 1 && rd.e.k == xCond:
			rd.src = "function() { if " + rd.e.c.src() + " { return " + rd.e.a.src() + " } else { return " + rd.e.b.src() + " } }"
		case rd.form == 2:
			rd.src = "function() { x = " + rd.e.src() + "; return x }"
		default:
			rd.src = "function() { " + rd.e.src() + " }"
		}
		rd.direct = map[string]bool{}
		rd.e.fields(rd.direct)
		rd.static = map[string]bool{}
		for f := range rd.direct {
			rd.static[f] = true
			if r2, ok := w.byName[f]; ok {
				for f2 := range r2.static {
					rd.static[f2] = true
				}
			}
		}
		w.rules = append(w.rules, rd)
		w.byName[rd.name] = rd
	}
	return w
}

// --- model of one record -------------------------------------------------------

const (
	stInvalid = iota // no usable cached value: the next access evaluates the rule
	stValid          // evaluated, and nothing it could depend on was touched since
	stMaybe          // evaluated, then something it does not currently use (but mentions) was touched
)

type c35obs struct {
	id   int
	kind int // 0 recording block, 1 block that reads this[member], 2 bound method
	fn   core.Value
}

type c35rec struct {
	real     core.Value
	plain    map[string]mval // present plain members
	st       map[string]int
	cached   map[string]bool // rule fields that may hold a saved result (valid or not)
	memo     map[string]mval // rule values for the current plain values (cleared on every change)
	// statistics only: which rules have read a field on this record or its
	// ancestors (how many dependents the field has), and which rules were
	// evaluated for the first time since the last Copy this record took part in
	depsSeen map[string]map[string]bool
	firsts   map[string]bool
	obs      []*c35obs
	readonly bool
	name     string
}

// staleCache: some rule field holds a saved result that is not known to be valid.
func (r *c35rec) staleCache() bool {
	for f, c := range r.cached {
		if c && r.st[f] != stValid {
			return true
		}
	}
	return false
}

func (w *c35world) seen(r *c35rec, f string) mval {
	if rd, ok := w.byName[f]; ok {
		if v, ok := r.memo[f]; ok {
			return v
		}
		v := eval(rd.e, func(g string) mval { return w.seen(r, g) }, nil)
		if r.memo == nil {
			r.memo = map[string]mval{}
		}
		r.memo[f] = v
		return v
	}
	if v, ok := r.plain[f]; ok {
		return v
	}
	return ms("")
}

// directReads: the fields the rule reads itself when evaluated now.
func (w *c35world) directReads(r *c35rec, rd *ruleDef) map[string]bool {
	reads := map[string]bool{}
	eval(rd.e, func(g string) mval { return w.seen(r, g) }, func(f string) { reads[f] = true })
	return reads
}

// dynDeps: everything an evaluation of the rule reads now, through rule fields.
func (w *c35world) dynDeps(r *c35rec, rd *ruleDef, into map[string]bool) {
	for f := range w.directReads(r, rd) {
		if !into[f] {
			into[f] = true
			if r2, ok := w.byName[f]; ok {
				w.dynDeps(r, r2, into)
			}
		}
	}
}

// touch: the rule field has just been read.
func (w *c35world) touch(r *c35rec, f string, events *c35events) {
	rd, ok := w.byName[f]
	if !ok || r.readonly {
		return // read-only records cannot save results
	}
	was := r.st[f]
	if !r.cached[f] && r.firsts != nil {
		r.firsts[f] = true
	}
	r.cached[f] = true
	if was == stValid {
		return
	}
	r.st[f] = stValid
	for g := range w.directReads(r, rd) {
		if r.depsSeen[g] == nil {
			r.depsSeen[g] = map[string]bool{}
		}
		r.depsSeen[g][f] = true
	}
	if was == stInvalid {
		for g := range w.directReads(r, rd) {
			w.touch(r, g, events)
		}
	} else {
		// stMaybe: the implementation may or may not have evaluated the rule
		// again; everything it would read may now hold a saved result
		deps := map[string]bool{}
		w.dynDeps(r, rd, deps)
		for g := range deps {
			if w.isRule(g) {
				r.cached[g] = true
			}
		}
	}
}

// change: field f (plain or rule) has changed / been invalidated. Returns the
// rule fields whose invalidation the documentation makes mandatory.
func (w *c35world) change(r *c35rec, f string, definite bool, events *c35events) []string {
	var required []string
	for _, rd := range w.rules {
		if rd.name == f || !rd.static[f] {
			continue
		}
		if r.st[rd.name] != stValid {
			continue
		}
		deps := map[string]bool{}
		w.dynDeps(r, rd, deps)
		if definite && deps[f] {
			required = append(required, rd.name)
			if !w.directReads(r, rd)[f] {
				events.indirect++
			}
		}
	}
	// state update after the required set was computed on the old state
	for _, rd := range w.rules {
		if rd.name == f || !rd.static[f] || r.st[rd.name] != stValid {
			continue
		}
		in := false
		for _, q := range required {
			if q == rd.name {
				in = true
			}
		}
		if in {
			r.st[rd.name] = stInvalid
		} else {
			r.st[rd.name] = stMaybe
		}
	}
	return required
}

type c35events struct {
	recompute, indirect, condSwitch, notified, copyChange, roGets int
}

// --- compiled helpers -----------------------------------------------------------

const (
	c35New      = `function() { Record() }`
	c35Set      = `function(r, f, v) { r[f] = v }`
	c35Get      = `function(r, f) { r[f] }`
	c35Delete   = `function(r, f) { r.Delete(f) }`
	c35Erase    = `function(r, f) { r.Erase(f) }`
	c35Copy     = `function(r) { r.Copy() }`
	c35Inval1   = `function(r, f) { r.Invalidate(f) }`
	c35Inval2   = `function(r, f, g) { r.Invalidate(f, g) }`
	c35Observer = `function(r, o) { r.Observer(o) }`
	c35Remove   = `function(r, o) { r.RemoveObserver(o) }`
	c35Attach   = `function(r, f, rule) { r.AttachRule(f, rule) }`
	c35GetDeps  = `function(r, f) { r.GetDeps(f) }`
	c35Readonly = `function(r) { r.Set_readonly() }`
	c35IsRO     = `function(r) { r.Readonly?() }`
	c35ObsRec   = `function(log, id) { return {|member| log.Add(Object(id, member)) } }`
	c35ObsRead  = `function(log, id) { return {|member| log.Add(Object(id, member, this[member])) } }`
	c35ObsMeth  = `function(log, id) {
		c = class { New(.log, .id) { } Obs(member) { .log.Add(Object(.id, member)) } }
		return (new c(log, id)).Obs }`
)

type c35run struct {
	t      *rapid.T
	l      *lang
	w      *c35world
	log    *core.SuObject
	desc   []string
	ev     c35events
	nextID int
	lab    map[string]int
}

func (r *c35run) failf(format string, args ...any) {
	r.t.Helper()
	var rules []string
	for _, rd := range r.w.rules {
		how := "Rule_" + rd.name
		if rd.attach {
			how = "AttachRule " + rd.name
		}
		rules = append(rules, how+" = "+rd.src)
	}
	r.t.Fatalf("%s\nrules:\n  %s\nscript:\n  %s", fmt.Sprintf(format, args...), strings.Join(rules, "\n  "), strings.Join(r.desc, "\n  "))
}

func (r *c35run) must(v core.Value, pe *perr, what ...string) core.Value {
	if pe != nil {
		r.failf("%s failed: %s", strings.Join(what, " "), pe)
	}
	return v
}

type c35note struct {
	id     int
	member string
	val    core.Value // nil for recording observers
}

// drain reads and clears the observer log.
func (r *c35run) drain() []c35note {
	n := r.log.ListSize()
	notes := make([]c35note, 0, n)
	for i := 0; i < n; i++ {
		e, ok := r.log.ListGet(i).(*core.SuObject)
		if !ok || e.ListSize() < 2 {
			r.failf("bad log entry %v", r.log.ListGet(i))
		}
		id, _ := e.ListGet(0).IfInt()
		m, _ := e.ListGet(1).ToStr()
		nt := c35note{id: id, member: m}
		if e.ListSize() > 2 {
			nt.val = e.ListGet(2)
		}
		notes = append(notes, nt)
	}
	r.log.DeleteAll()
	return notes
}

// settle checks the observer calls of one operation on rec: only observers
// registered on rec are called, a reading observer sees current values, and
// every registered observer got every mandatory member.
func (r *c35run) settle(rec *c35rec, text string, required []string) {
	notes := r.drain()
	got := map[int]map[string]bool{}
	for _, o := range rec.obs {
		got[o.id] = map[string]bool{}
	}
	for _, nt := range notes {
		g, ok := got[nt.id]
		if !ok {
			r.failf("%s: observer #%d, which is not registered on %s, was called for %q", text, nt.id, rec.name, nt.member)
		}
		g[nt.member] = true
		r.ev.notified++
		if nt.val != nil {
			want := r.w.seen(rec, nt.member)
			if gv, ok := toMval(nt.val); !ok || gv != want {
				r.failf("%s: observer #%d read this[%q] = %v, the rule on the current fields gives %v", text, nt.id, nt.member, nt.val, want)
			}
			r.w.touch(rec, nt.member, &r.ev)
		}
	}
	for _, o := range rec.obs {
		for _, m := range required {
			if !got[o.id][m] {
				r.failf("%s: observer #%d of %s was not told about %q (mandatory %v, told %v)", text, o.id, rec.name, m, required, keys(got[o.id]))
			}
		}
	}
	if len(required) > 0 && len(rec.obs) > 0 {
		r.lab["ops_with_mandatory_notifications"]++
		if len(required) > 1 {
			r.lab["ops_notifying_dependents"]++
		}
	}
}

func ruleNames(w *c35world) []string {
	var r []string
	for _, rd := range w.rules {
		r = append(r, rd.name)
	}
	return r
}

func keys(m map[string]bool) []string {
	var r []string
	for k := range m {
		r = append(r, k)
	}
	sort.Strings(r)
	return r
}

func c35script(t *rapid.T, erec *ev.Rec, l *lang) {
	w := genWorld(t)
	r := &c35run{t: t, l: l, w: w, log: &core.SuObject{}, lab: map[string]int{}}
	for _, rd := range w.rules {
		rd.fn = compileOnce(rd.src) // not cached: sources differ per script
		if !rd.attach {
			core.Global.TestDef("Rule_"+rd.name, rd.fn)
		}
		how := "Rule_" + rd.name
		if rd.attach {
			how = "AttachRule(" + rd.name + ")"
		}
		r.desc = append(r.desc, how+" = "+rd.src)
	}
	attachAll := func(rec *c35rec, viaGo bool) {
		for _, rd := range w.rules {
			if !rd.attach {
				continue
			}
			if viaGo {
				rec.real.(*core.SuRecord).AttachRule(core.SuStr(rd.name), rd.fn)
			} else {
				r.must(l.call(c35Attach, rec.real, core.SuStr(rd.name), rd.fn))
			}
		}
	}
	// shape labels
	depthOf := map[string]int{}
	maxDepth, diamond, conditional := 0, false, false
	for _, rd := range w.rules {
		d := 1
		for f := range rd.direct {
			if depthOf[f]+1 > d {
				d = depthOf[f] + 1
			}
		}
		depthOf[rd.name] = d
		maxDepth = max(maxDepth, d)
		conditional = conditional || rd.e.hasConditional()
		// diamond: two different direct dependencies share a static dependency
		ds := keys(rd.direct)
		for i := range ds {
			for j := i + 1; j < len(ds); j++ {
				si, sj := map[string]bool{ds[i]: true}, map[string]bool{ds[j]: true}
				if r1, ok := w.byName[ds[i]]; ok {
					for f := range r1.static {
						si[f] = true
					}
				}
				if r2, ok := w.byName[ds[j]]; ok {
					for f := range r2.static {
						sj[f] = true
					}
				}
				for f := range si {
					if sj[f] && (w.isRule(ds[i]) || w.isRule(ds[j])) {
						diamond = true
					}
				}
			}
		}
	}

	first := &c35rec{plain: map[string]mval{}, st: map[string]int{}, cached: map[string]bool{}, depsSeen: map[string]map[string]bool{}, name: "r0"}
	recs := []*c35rec{first}
	// stored class: r0 is a record as read from the database (SuRecordFromRow, no
	// transaction): base fields, previously computed rule values and their
	// <rule>_deps columns. Model: the stored values are valid saved results
	// with exactly the stored dependencies.
	stored := gen.Chance(t, "stored", 25)
	storedRules := 0
	if stored {
		for _, p := range w.plains {
			if gen.Chance(t, "init", 75) {
				first.plain[p] = mi(gen.Pick(t, "initv", c35lits))
			}
		}
		rb := core.RecordBuilder{}
		var cols, show []string
		for _, p := range w.plains {
			if v, ok := first.plain[p]; ok {
				cols = append(cols, p)
				rb.Add(v.value().(core.Packable))
				show = append(show, fmt.Sprintf("%s: %v", p, v))
			}
		}
		isStored := map[string]bool{}
		for _, rd := range w.rules {
			// a stored rule value implies that the rule fields it was computed from are stored too
			ok := gen.Chance(t, "storerule", 85)
			reads := keys(w.directReads(first, rd))
			for _, f := range reads {
				if w.isRule(f) && !isStored[f] {
					ok = false
				}
			}
			if !ok {
				continue
			}
			isStored[rd.name] = true
			storedRules++
			v := w.seen(first, rd.name)
			cols = append(cols, rd.name, rd.name+"_deps")
			rb.Add(v.value().(core.Packable))
			rb.Add(core.SuStr(strings.Join(reads, ",")))
			show = append(show, fmt.Sprintf("%s: %v, %s_deps: %q", rd.name, v, rd.name, strings.Join(reads, ",")))
			if v != ms("") { // an empty value is not stored: the rule runs on first access
				first.st[rd.name] = stValid
				first.cached[rd.name] = true
			}
			for _, f := range reads {
				if first.depsSeen[f] == nil {
					first.depsSeen[f] = map[string]bool{}
				}
				first.depsSeen[f][rd.name] = true
			}
		}
		row := core.Row{core.DbRec{Record: rb.Build()}}
		first.real = core.SuRecordFromRow(row, core.NewHeader([][]string{cols}, cols), "", nil)
		r.desc = append(r.desc, "r0 = database row {"+strings.Join(show, ", ")+"}")
		attachAll(first, gen.Chance(t, "attachgo", 50))
	} else {
		first.real = r.must(l.call(c35New))
		r.desc = append(r.desc, "r0 = Record()")
		rulesFirst := gen.Chance(t, "rulesfirst", 50)
		if rulesFirst {
			attachAll(first, gen.Chance(t, "attachgo", 50))
		}
		for _, p := range w.plains {
			if gen.Chance(t, "init", 70) {
				v := mi(gen.Pick(t, "initv", c35lits))
				first.plain[p] = v
				first.memo = nil
				r.must(l.call(c35Set, first.real, core.SuStr(p), v.value()))
				r.desc = append(r.desc, fmt.Sprintf("r0.%s = %v", p, v))
			}
		}
		if !rulesFirst {
			attachAll(first, gen.Chance(t, "attachgo", 50))
		}
	}
	r.drain()
	// for the label: is the first operation on the stored record that needs
	// its dependencies a Delete / Erase?
	depTouched, firstTouchIsDelete := !stored, false
	touchDeps := func(rec *c35rec, isDelete bool) {
		if rec == first && !depTouched {
			depTouched, firstTouchIsDelete = true, isDelete
		}
	}

	// previous direct reads per (record, rule), for the conditional-switch label
	lastReads := map[string]string{}

	doGet := func(rec *c35rec, f string, useLang bool, text string) {
		wasInvalid := w.isRule(f) && rec.st[f] == stInvalid
		var v core.Value
		var pe *perr
		if useLang {
			v, pe = l.call(c35Get, rec.real, core.SuStr(f))
		} else {
			pe = l.protect(func() { v = rec.real.Get(l.th, core.SuStr(f)) })
		}
		r.must(v, pe, text)
		want := w.seen(rec, f)
		if g, ok := toMval(v); !ok || g != want {
			cls := "a plain field"
			if w.isRule(f) {
				cls = "the rule on the current field values"
			}
			r.failf("%s = %v, %s gives %v (plain fields %v)", text, v, cls, want, rec.plain)
		}
		if rd, ok := w.byName[f]; ok {
			if rec.readonly {
				r.ev.roGets++
			}
			if wasInvalid && !rec.readonly {
				r.lab["get_evaluates"]++
			}
			if rec.st[f] != stValid {
				touchDeps(rec, false)
			}
			w.touch(rec, f, &r.ev)
			reads := strings.Join(keys(w.directReads(rec, rd)), ",")
			key := rec.name + "." + f
			if prev, ok := lastReads[key]; ok && prev != reads {
				r.ev.condSwitch++
			}
			lastReads[key] = reads
			// dependencies are tracked automatically: everything the evaluation read is listed
			if !rec.readonly && gen.Chance(t, "getdeps", 25) {
				touchDeps(rec, false)
				dv := r.must(l.call(c35GetDeps, rec.real, core.SuStr(f)))
				ds, _ := dv.ToStr()
				have := map[string]bool{}
				for _, d := range strings.Split(ds, ",") {
					have[strings.TrimSpace(d)] = true
				}
				for d := range w.directReads(rec, rd) {
					if !have[d] {
						r.failf("%s: GetDeps(%q) = %q lacks %q which the rule just read", text, f, ds, d)
					}
				}
				r.lab["getdeps_checked"]++
			}
		}
		r.settle(rec, text, nil)
	}

	nops := 10 + gen.Uniform(t, "nops", 31)
	if w.wide {
		nops = 20 + gen.Uniform(t, "nopswide", 36)
	}
	maxRecs := 3
	if w.wide {
		maxRecs = 4
	}
	// statistics on copies: per copy the rules evaluated for the first time
	// afterwards on the source and on the copy, and the fields whose number of
	// dependents at copy time leaves spare capacity in a Go slice grown by append
	type copyPair struct {
		src, dst map[string]bool
		spare    []string
	}
	var pairs []copyPair
	spareCap := func(n int) bool { return n == 3 || (n >= 5 && n <= 7) || (n >= 9 && n <= 15) }
	for step := 1; step <= nops; step++ {
		rec := recs[gen.Uniform(t, "rec", len(recs))]
		useLang := gen.Chance(t, "lang", 60)
		route := "go"
		if useLang {
			route = "lang"
		}
		sr := rec.real.(*core.SuRecord)
		weights := []int{26, 30, 6, 3, 4, 8, 8, 3, 2}
		if w.wide {
			weights = []int{22, 36, 3, 2, 9, 5, 6, 2, 1}
		}
		if stored && step <= 4 {
			// the first operations on a database record: plain reads, deletes, sets, ...
			rec = first
			sr = rec.real.(*core.SuRecord)
			weights = []int{14, 22, 34, 4, 4, 5, 16, 0, 0}
		}
		// set, get, delete plain, delete rule, copy, invalidate, observer, remove observer, readonly
		if rec.readonly {
			weights = []int{0, 60, 0, 0, 10, 0, 0, 0, 0}
		}
		if len(rec.obs) == 0 {
			weights[7] = 0
		}
		if len(rec.obs) >= 3 {
			weights[6] = 0
		}
		opi := gen.Weighted(t, "op", weights)
		text := ""
		switch opi {
		case 0: // set a plain field
			p := gen.Pick(t, "field", w.plains)
			if w.wide && gen.Chance(t, "sethub", 50) {
				p = w.hub
			}
			var v mval
			if gen.Chance(t, "setempty", 6) {
				v = ms("")
			} else {
				v = mi(gen.Pick(t, "value", c35lits))
			}
			text = fmt.Sprintf("%s.%s = %v [%s]", rec.name, p, v, route)
			r.desc = append(r.desc, text)
			old := w.seen(rec, p)
			var required []string
			if old != v {
				touchDeps(rec, false)
				// counted before the change: which evaluated rules used p
				required = append([]string{p}, w.change(rec, p, true, &r.ev)...)
				if len(recs) > 1 {
					r.ev.copyChange++
				}
			} else {
				w.change(rec, p, false, &r.ev)
				r.lab["set_same_value"]++
			}
			rec.plain[p] = v
			rec.memo = nil
			if useLang {
				r.must(l.call(c35Set, rec.real, core.SuStr(p), v.value()))
			} else {
				r.must(nil, l.protect(func() { sr.Put(l.th, core.SuStr(p), v.value()) }), text)
			}
			r.settle(rec, text, required)
		case 1: // get
			var f string
			var fresh []string
			for _, rd := range w.rules {
				if !rec.cached[rd.name] {
					fresh = append(fresh, rd.name)
				}
			}
			pfresh := 55
			if rec.firsts != nil && len(rec.firsts) == 0 {
				pfresh = 85 // just copied: first evaluations on both sides of the copy
			}
			if w.wide && len(fresh) > 0 && gen.Chance(t, "getfresh", pfresh) {
				// a rule this record has not evaluated yet: registers new dependencies
				f = gen.Pick(t, "freshrule", fresh)
			} else if gen.Chance(t, "getrule", 80) {
				f = gen.Pick(t, "rule", w.rules).name
			} else {
				f = gen.Pick(t, "field", w.plains)
			}
			text = fmt.Sprintf("%s.%s [%s]", rec.name, f, route)
			r.desc = append(r.desc, text)
			if w.isRule(f) && rec.st[f] == stInvalid && lastReads[rec.name+"."+f] != "" && !rec.readonly {
				r.ev.recompute++
			}
			doGet(rec, f, useLang, text)
		case 2, 3: // delete
			var f string
			if opi == 2 {
				f = gen.Pick(t, "field", w.plains)
			} else {
				f = gen.Pick(t, "rule", w.rules).name
			}
			useErase := gen.Chance(t, "erase", 40)
			text = fmt.Sprintf("%s.Delete(%q) [%s]", rec.name, f, route)
			if useErase {
				text = fmt.Sprintf("%s.Erase(%q) [%s]", rec.name, f, route)
				r.lab["erase"]++
			}
			r.desc = append(r.desc, text)
			var required []string
			if opi == 2 {
				if old, ok := rec.plain[f]; ok {
					touchDeps(rec, true)
					if old != ms("") {
						required = w.change(rec, f, true, &r.ev)
					} else {
						w.change(rec, f, false, &r.ev)
					}
					delete(rec.plain, f)
					rec.memo = nil
				}
			} else {
				// the cached result is gone; the next access calls the rule
				if rec.cached[f] {
					touchDeps(rec, true)
				}
				w.change(rec, f, false, &r.ev)
				rec.st[f] = stInvalid
				rec.cached[f] = false
			}
			switch {
			case useLang && useErase:
				r.must(l.call(c35Erase, rec.real, core.SuStr(f)))
			case useLang:
				r.must(l.call(c35Delete, rec.real, core.SuStr(f)))
			case useErase:
				r.must(nil, l.protect(func() { sr.Erase(l.th, core.SuStr(f)) }), text)
			default:
				r.must(nil, l.protect(func() { sr.Delete(l.th, core.SuStr(f)) }), text)
			}
			r.settle(rec, text, required)
		case 4: // copy
			text = fmt.Sprintf("%s.Copy() [%s]", rec.name, route)
			touchDeps(rec, false)
			var cv core.Value
			if useLang {
				cv = r.must(l.call(c35Copy, rec.real))
			} else if gen.Chance(t, "slice0", 40) {
				// Container.Slice(0): the copy the interpreter makes for @args
				text = fmt.Sprintf("%s.Slice(0) [go]", rec.name)
				r.must(nil, l.protect(func() { cv = sr.Slice(0) }), text)
				r.lab["copy_by_slice"]++
			} else {
				r.must(nil, l.protect(func() { cv = sr.Copy() }), text)
			}
			if _, ok := cv.(*core.SuRecord); !ok || cv == rec.real {
				r.failf("%s returned %T", text, cv)
			}
			nc := &c35rec{real: cv, plain: map[string]mval{}, st: map[string]int{}, cached: map[string]bool{}, depsSeen: map[string]map[string]bool{}}
			maxDeps := 0
			var spare []string
			for _, f := range append(append([]string{}, w.plains...), ruleNames(w)...) {
				ds := rec.depsSeen[f]
				nc.depsSeen[f] = map[string]bool{}
				for k := range ds {
					nc.depsSeen[f][k] = true
				}
				maxDeps = max(maxDeps, len(ds))
				if spareCap(len(ds)) {
					spare = append(spare, f)
				}
			}
			r.lab[fmt.Sprintf("copy_max_dependents_on_a_field_%02d", min(maxDeps, 9))]++
			if len(spare) > 0 {
				r.lab["copy_with_field_of_3_or_5to7_dependents"]++
			}
			rec.firsts, nc.firsts = map[string]bool{}, map[string]bool{}
			pairs = append(pairs, copyPair{rec.firsts, nc.firsts, spare})
			for k, v := range rec.plain {
				nc.plain[k] = v
			}
			for k, v := range rec.cached {
				nc.cached[k] = v
			}
			for k, v := range rec.st {
				nc.st[k] = v // "a copy of the record, including rule dependencies"
			}
			ro := r.must(l.call(c35IsRO, cv))
			nc.readonly = ro == core.True
			if rec.readonly {
				r.lab[fmt.Sprintf("copy_of_readonly_readonly=%v", nc.readonly)]++
			}
			if len(recs) < maxRecs {
				nc.name = fmt.Sprintf("r%d", len(recs))
				recs = append(recs, nc)
			} else {
				i := 1 + gen.Uniform(t, "replace", maxRecs-1)
				nc.name = recs[i].name
				for k := range lastReads {
					if strings.HasPrefix(k, nc.name+".") {
						delete(lastReads, k)
					}
				}
				recs[i] = nc
			}
			for k, v := range lastReads {
				if strings.HasPrefix(k, rec.name+".") {
					lastReads[nc.name+k[len(rec.name):]] = v
				}
			}
			text = nc.name + " = " + text
			r.desc = append(r.desc, text)
			// whether a copy keeps AttachRule rules is not documented: attach them again
			attachAll(nc, !useLang)
			r.settle(rec, text, nil) // "This does not copy observers"
		case 5: // Invalidate
			var fs []string
			nf := 1 + gen.Uniform(t, "ninval", 2)
			for i := 0; i < nf; i++ {
				if gen.Chance(t, "invalrule", 75) {
					fs = append(fs, gen.Pick(t, "rule", w.rules).name)
				} else {
					fs = append(fs, gen.Pick(t, "field", w.plains))
				}
			}
			if !useLang {
				fs = fs[:1]
			}
			text = fmt.Sprintf("%s.Invalidate(%s) [%s]", rec.name, strings.Join(fs, ", "), route)
			r.desc = append(r.desc, text)
			touchDeps(rec, false)
			var required []string
			for _, f := range fs {
				required = append(required, f) // "This will also trigger any observers"
				required = append(required, w.change(rec, f, true, &r.ev)...)
				if w.isRule(f) {
					rec.st[f] = stInvalid
				}
			}
			switch {
			case !useLang:
				r.must(nil, l.protect(func() { sr.Invalidate(l.th, fs[0]) }), text)
			case len(fs) == 1:
				r.must(l.call(c35Inval1, rec.real, core.SuStr(fs[0])))
			default:
				r.must(l.call(c35Inval2, rec.real, core.SuStr(fs[0]), core.SuStr(fs[1])))
			}
			r.lab["invalidate"]++
			r.settle(rec, text, required)
		case 6: // Observer
			r.nextID++
			o := &c35obs{id: r.nextID, kind: gen.Weighted(t, "obskind", []int{40, 40, 20})}
			src := []string{c35ObsRec, c35ObsRead, c35ObsMeth}[o.kind]
			o.fn = r.must(l.call(src, r.log, core.IntVal(o.id)))
			text = fmt.Sprintf("%s.Observer(#%d %s) [%s]", rec.name, o.id, []string{"recording", "reading", "method"}[o.kind], route)
			r.desc = append(r.desc, text)
			if useLang {
				r.must(l.call(c35Observer, rec.real, o.fn))
			} else {
				sr.Observer(o.fn)
			}
			rec.obs = append(rec.obs, o)
			r.lab["observer_kind_"+[]string{"recording", "reading", "method"}[o.kind]]++
			r.settle(rec, text, nil)
		case 7: // RemoveObserver
			i := gen.Uniform(t, "whichobs", len(rec.obs))
			o := rec.obs[i]
			text = fmt.Sprintf("%s.RemoveObserver(#%d) [%s]", rec.name, o.id, route)
			r.desc = append(r.desc, text)
			if useLang {
				r.must(l.call(c35Remove, rec.real, o.fn))
			} else {
				sr.RemoveObserver(o.fn)
			}
			rec.obs = append(rec.obs[:i:i], rec.obs[i+1:]...)
			r.lab["remove_observer"]++
			r.settle(rec, text, nil)
		case 8: // Set_readonly: "rules will still work, but their results can not be saved"
			if rec.staleCache() {
				r.lab["readonly_with_stale_cache"]++
				if e, ok := kf.Known("C35", "readonly-invalid-cached-rule"); ok {
					erec.Excluded("readonly-invalid-cached-rule")
					erec.Known(e.What)
					continue
				}
			}
			text = fmt.Sprintf("%s.Set_readonly() [%s]", rec.name, route)
			r.desc = append(r.desc, text)
			if useLang {
				r.must(l.call(c35Readonly, rec.real))
			} else {
				r.must(nil, l.protect(func() { sr.SetReadOnly() }), text)
			}
			rec.readonly = true
			r.settle(rec, text, nil)
		}
		r.lab["op_"+[]string{"set", "get", "delete_plain", "delete_rule", "copy", "invalidate", "observer", "remove_observer", "readonly"}[opi]]++
		r.lab["route_"+route]++
	}
	// final sweep: every field of every record
	for _, rec := range recs {
		for _, rd := range w.rules {
			doGet(rec, rd.name, true, rec.name+"."+rd.name+" [final]")
		}
		for _, p := range w.plains {
			doGet(rec, p, false, rec.name+"."+p+" [final]")
		}
	}

	nt := r.ev.recompute > 0
	erec.Case(nt, strings.Join(r.desc, ";"))
	for k, v := range r.lab {
		erec.LabelN(k, v)
	}
	erec.LabelN("recompute_after_dependency_change", r.ev.recompute)
	erec.LabelN("mandatory_invalidation_through_another_rule", r.ev.indirect)
	erec.LabelN("conditional_dependency_switched", r.ev.condSwitch)
	erec.LabelN("observer_calls", r.ev.notified)
	erec.LabelN("gets_on_readonly_record", r.ev.roGets)
	erec.LabelIf(r.ev.recompute > 0, "script_with_recompute")
	erec.LabelIf(r.ev.indirect > 0, "script_with_indirect_invalidation")
	erec.LabelIf(r.ev.condSwitch > 0, "script_with_conditional_switch")
	erec.LabelIf(maxDepth >= 2, "world_chain_depth>=2")
	erec.LabelIf(maxDepth >= 3, "world_chain_depth>=3")
	erec.LabelIf(diamond, "world_with_diamond")
	erec.LabelIf(conditional, "world_with_conditional_rule")
	erec.LabelIf(len(recs) > 1, "script_with_copy")
	erec.LabelIf(w.wide, "world_wide_6to10_rules")
	erec.LabelIf(stored, "script_on_stored_deps_record")
	erec.LabelIf(stored && storedRules > 0, "stored_record_with_rule_values_and_deps")
	erec.LabelIf(stored && storedRules > 0 && firstTouchIsDelete, "stored_record_first_dependency_touching_op_is_delete_or_erase")
	erec.LabelIf(stored && storedRules > 0 && depTouched && !firstTouchIsDelete, "stored_record_first_dependency_touching_op_is_other")
	erec.LabelN("copies_made", len(pairs))
	erec.Label(fmt.Sprintf("records_alive_at_end_%d", len(recs)))
	diverge, pattern := false, false
	for _, pr := range pairs {
		if len(pr.src) == 0 || len(pr.dst) == 0 {
			continue
		}
		erec.Label("copy_followed_by_first_evaluations_on_both_sides")
		onlySrc, onlyDst := []string{}, []string{}
		for f := range pr.src {
			if !pr.dst[f] {
				onlySrc = append(onlySrc, f)
			}
		}
		for f := range pr.dst {
			if !pr.src[f] {
				onlyDst = append(onlyDst, f)
			}
		}
		if len(onlySrc) > 0 && len(onlyDst) > 0 {
			diverge = true
			erec.Label("copy_followed_by_different_first_evaluations")
			// both sides registered a different new dependent on a field that had 3 / 5-7 dependents
			for _, f := range pr.spare {
				a, b := false, false
				for _, x := range onlySrc {
					a = a || w.byName[x].direct[f]
				}
				for _, x := range onlyDst {
					b = b || w.byName[x].direct[f]
				}
				if a && b {
					pattern = true
				}
			}
		}
	}
	erec.LabelIf(diverge, "script_with_diverging_first_evaluations_after_copy")
	erec.LabelIf(pattern, "script_with_new_dependents_on_both_sides_of_a_3_or_5to7_field")
	nattach := 0
	for _, rd := range w.rules {
		if rd.attach {
			nattach++
		}
	}
	erec.LabelN("rules_attached", nattach)
	erec.LabelN("rules_global", len(w.rules)-nattach)
	cls := "plain"
	switch {
	case r.ev.indirect > 0 && r.ev.condSwitch > 0:
		cls = "chain+conditional"
	case r.ev.indirect > 0:
		cls = "chain"
	case r.ev.condSwitch > 0:
		cls = "conditional"
	}
	if nt && erec.WantSample("script_"+cls) {
		erec.Sample("script_"+cls, r.desc)
	}
}

// TestC35: record rules always reflect current field values.
func TestC35(t *testing.T) {
	rec := ev.New("C35", "rapid-generated worlds of 2-5 plain fields and 1-4 rule fields whose rules are generated pure Suneido functions (arithmetic, $, is/isnt, </>=, ?:, if/else, and/or/not over plain fields and earlier rule fields: chains, diamonds, conditional dependencies), attached with AttachRule or defined as Rule_ globals; scripts of 10-40 operations (set, get, Delete of plain and rule fields, Copy, Invalidate of one or two fields, Observer of three kinds, RemoveObserver, Set_readonly) on up to three records, each through compiled Suneido code or the Go API of core.SuRecord, ending with a get of every field of every record. Half of the worlds are wide: 6-10 small rules, 75% of them reading the hub field p0 (3-7 dependents on one field), 20-55 operations on a family of up to four records copied mid-history (Copy or Slice(0)), gets biased to rules the record has not evaluated yet, sets biased to the hub; each record is modelled independently. A quarter of the scripts start from a stored record: r0 built with SuRecordFromRow from a row holding base fields, previously computed rule values and their <rule>_deps columns (valid saved results with exactly the stored dependencies); its first four operations are plain gets, Delete/Erase, sets, observers, Invalidate, Copy. Oracle: the rule expressions evaluated recursively by the model's own evaluator on the model's current plain values; observers: every observer registered on the record is told about the field that changed / was passed to Invalidate and about every rule field that had been evaluated, not been touched since, and whose evaluation read the field (directly or through other rule fields); observers not registered on the record are never called; a reading observer sees current values; GetDeps lists everything the evaluation read. Non-trivial: a script in which a rule field that had been evaluated was read again after a field it used changed (or it was invalidated); distinct = by rendered script.")
	rec.Assumptions = []string{
		"model written from suneidoc Database/Rules.md and Database/Reference/Record/*.md, not from core/surecord.go",
		"rule fields are never assigned directly and PreSet is not used (what then holds is not stated)",
		"whether record.Copy keeps rules attached with AttachRule is not documented (gSuneido does not keep them): they are attached again to every copy; Rule_ globals apply to copies by name",
		"notifications beyond the mandatory ones (e.g. through dependencies of an earlier evaluation) are accepted",
		"Rule_ globals are installed with core.Global.TestDef (the library loader is not linked)",
	}
	defer rec.Write()
	l := newLang()
	rt.Check(t, rec, "script", 2000, 30000, func(t *rapid.T) {
		c35script(t, rec, l)
	})
}
