package objects

import (
	"fmt"
	"sort"
	"strings"
	"testing"

	"github.com/apmckinlay/gsuneido/core"
	"github.com/apmckinlay/gsuneido/util/dnum"
	"pgregory.net/rapid"
	"verifharness/internal/ev"
	"verifharness/internal/gen"
	"verifharness/internal/rt"
)

// ---------------------------------------------------------------------------
// Model (written from suneidoc Language/Reference/Object/*, Expressions/
// Subscript): a container is ONE map member -> value. The "list" (un-named
// members) is not stored: it is, as documented, "the consecutive integer
// members starting at zero" - the maximal prefix 0..n-1 of present integer
// keys. Everything else is "named". The list/named migration is therefore a
// consequence of the definition, not an operation of the model.

type mkey struct {
	kind byte // 'i' integer, 's' string, 'd' non-integer number
	n    int
	s    string
}

func ik(n int) mkey    { return mkey{kind: 'i', n: n} }
func sk(s string) mkey { return mkey{kind: 's', s: s} }

func (k mkey) canon() string {
	switch k.kind {
	case 'i':
		return fmt.Sprintf("i:%d", k.n)
	case 's':
		return "s:" + k.s
	}
	return "d:" + k.s
}

func (k mkey) String() string {
	switch k.kind {
	case 'i':
		return fmt.Sprint(k.n)
	case 's':
		return fmt.Sprintf("%q", k.s)
	}
	return k.s
}

// value renders the key as a Suneido value; asDnum renders an integer key as
// an integer-valued decimal (the same number, another representation).
func (k mkey) value(asDnum bool) core.Value {
	switch k.kind {
	case 'i':
		if asDnum {
			return core.SuDnum{Dnum: dnum.FromInt(int64(k.n))}
		}
		return core.IntVal(k.n)
	case 's':
		return core.SuStr(k.s)
	}
	return core.SuDnum{Dnum: dnum.FromStr(k.s)}
}

func keyOf(x core.Value) (mkey, bool) {
	if x == nil || x == core.True || x == core.False {
		return mkey{}, false
	}
	if s, ok := x.ToStr(); ok {
		return sk(s), true
	}
	if n, ok := x.IfInt(); ok {
		return ik(n), true
	}
	if d, ok := x.ToDnum(); ok {
		return mkey{kind: 'd', s: d.String()}, true
	}
	return mkey{}, false
}

type cont struct {
	m        map[string]mval
	keys     map[string]mkey
	readonly bool
	rec      bool
}

func newCont(rec bool) *cont {
	return &cont{m: map[string]mval{}, keys: map[string]mkey{}, rec: rec}
}

func (c *cont) clone() *cont {
	d := newCont(c.rec)
	for k, v := range c.m {
		d.m[k] = v
		d.keys[k] = c.keys[k]
	}
	d.readonly = c.readonly
	return d
}

func (c *cont) has(k mkey) bool { _, ok := c.m[k.canon()]; return ok }
func (c *cont) get(k mkey) (mval, bool) {
	v, ok := c.m[k.canon()]
	return v, ok
}
func (c *cont) put(k mkey, v mval) { c.m[k.canon()] = v; c.keys[k.canon()] = k }
func (c *cont) del(k mkey) bool {
	_, ok := c.m[k.canon()]
	delete(c.m, k.canon())
	delete(c.keys, k.canon())
	return ok
}

// n is the number of un-named members.
func (c *cont) n() int {
	n := 0
	for c.has(ik(n)) {
		n++
	}
	return n
}

func (c *cont) list() []mval {
	n := c.n()
	l := make([]mval, n)
	for i := range l {
		l[i] = c.m[ik(i).canon()]
	}
	return l
}

// namedKeys returns the keys outside the list in a deterministic order.
func (c *cont) namedKeys() []mkey {
	n := c.n()
	var ks []string
	for ck, k := range c.keys {
		if k.kind == 'i' && 0 <= k.n && k.n < n {
			continue
		}
		ks = append(ks, ck)
	}
	sort.Strings(ks)
	r := make([]mkey, len(ks))
	for i, ck := range ks {
		r[i] = c.keys[ck]
	}
	return r
}

func (c *cont) setList(l []mval) {
	n := c.n()
	for i := 0; i < n; i++ {
		c.del(ik(i))
	}
	for i, v := range l {
		c.put(ik(i), v)
	}
}

func (c *cont) equal(d *cont) bool {
	if len(c.m) != len(d.m) {
		return false
	}
	for k, v := range c.m {
		if w, ok := d.m[k]; !ok || w != v {
			return false
		}
	}
	return true
}

func (c *cont) String() string {
	var sb strings.Builder
	if c.rec {
		sb.WriteString("[")
	} else {
		sb.WriteString("#(")
	}
	sep := ""
	for _, v := range c.list() {
		sb.WriteString(sep + v.String())
		sep = ", "
	}
	for _, k := range c.namedKeys() {
		sb.WriteString(sep + k.String() + ": " + c.m[k.canon()].String())
		sep = ", "
	}
	if c.rec {
		sb.WriteString("]")
	} else {
		sb.WriteString(")")
	}
	if c.readonly {
		sb.WriteString("ro")
	}
	return sb.String()
}

// documented operations ------------------------------------------------------

func (c *cont) add(v mval) { c.put(ik(c.n()), v) }

// insert: "If the position is within the un-named members, the values are
// inserted there", otherwise the member is simply set.
func (c *cont) insert(at mkey, v mval) {
	n := c.n()
	if at.kind == 'i' && 0 <= at.n && at.n <= n {
		for i := n - 1; i >= at.n; i-- {
			c.put(ik(i+1), c.m[ik(i).canon()])
		}
		c.put(at, v)
		return
	}
	c.put(at, v)
}

// delete: "If the members are within the un-named members, any following
// members are moved down."
func (c *cont) delete(k mkey) bool {
	n := c.n()
	if k.kind == 'i' && 0 <= k.n && k.n < n {
		for i := k.n; i < n-1; i++ {
			c.put(ik(i), c.m[ik(i+1).canon()])
		}
		c.del(ik(n - 1))
		return true
	}
	return c.del(k)
}

// erase: "the following members are not moved down".
func (c *cont) erase(k mkey) bool { return c.del(k) }

func (c *cont) deleteAll() {
	c.m = map[string]mval{}
	c.keys = map[string]mkey{}
}

// sortKey is the part of the value the generated comparators look at.
func sortKey(v mval) int {
	if v.str {
		return 100 + len(v.s)
	}
	return v.n % 10
}

const sortKeySrc = `(String?(%[1]s) ? 100 + %[1]s.Size() : %[1]s %% 10)`

func keyExpr(v string) string { return fmt.Sprintf(sortKeySrc, v) }

// slice bounds as documented in Expressions/Subscript.
func sliceTo(size, from, to int) (int, int) {
	from = relEnd(from, size)
	to = relEnd(to, size)
	if to < from {
		to = from
	}
	return from, to
}
func sliceLen(size, from, n int) (int, int) {
	from = relEnd(from, size)
	if n < 0 {
		n = 0
	}
	to := from + n
	if to > size {
		to = size
	}
	return from, to
}
func relEnd(i, size int) int {
	if i < 0 {
		i += size
		if i < 0 {
			i = 0
		}
	}
	if i > size {
		i = size
	}
	return i
}

// ---------------------------------------------------------------------------
// language-level operations (compiled once)

const (
	srcNewOb    = `function() { Object() }`
	srcNewRec   = `function() { Record() }`
	srcAdd1     = `function(ob, v) { ob.Add(v) }`
	srcAdd2     = `function(ob, v, w) { ob.Add(v, w) }`
	srcAddAt1   = `function(ob, v, k) { ob.Add(v, at: k) }`
	srcAddAt2   = `function(ob, v, w, k) { ob.Add(v, w, at: k) }`
	srcSet      = `function(ob, k, v) { ob[k] = v }`
	srcDelete   = `function(ob, k) { ob.Delete(k) }`
	srcDelAll   = `function(ob) { ob.Delete(all:) }`
	srcErase    = `function(ob, k) { ob.Erase(k) }`
	srcFind     = `function(ob, v) { ob.Find(v) }`
	srcGet      = `function(ob, k) { ob[k] }`
	srcMember   = `function(ob, k) { ob.Member?(k) }`
	srcSort0    = `function(ob) { ob.Sort!() }`
	srcUnique   = `function(ob) { ob.Unique!() }`
	srcReverse  = `function(ob) { ob.Reverse!() }`
	srcCopy     = `function(ob) { ob.Copy() }`
	srcReadonly = `function(ob) { ob.Set_readonly() }`
	srcIsRO     = `function(ob) { ob.Readonly?() }`
	srcPopFirst = `function(ob) { ob.PopFirst() }`
	srcPopLast  = `function(ob) { ob.PopLast() }`
	srcEq       = `function(a, b) { (a is b) and (b is a) and not (a isnt b) }`
	srcRangeTo  = `function(ob, i, j) { ob[i .. j] }`
	srcRangeTo1 = `function(ob, i) { ob[i ..] }`
	srcRangeTo2 = `function(ob, j) { ob[.. j] }`
	srcRangeLn  = `function(ob, i, n) { ob[i :: n] }`
	srcRangeLn1 = `function(ob, i) { ob[i ::] }`
	srcRangeLn2 = `function(ob, n) { ob[:: n] }`
	srcDesc     = `function(ob) {
		ml = Object(); for m in ob.Members(list:) ml.Add(m)
		mn = Object(); for m in ob.Members(named:) mn.Add(m)
		ma = Object(); for m in ob.Members() ma.Add(m)
		vl = Object(); for v in ob.Values(list:) vl.Add(v)
		vn = Object(); for v in ob.Values(named:) vn.Add(v)
		va = Object(); for v in ob.Values() va.Add(v)
		it = Object(); for v in ob it.Add(v)
		return Object(ob.Size(), ob.Size(list:), ob.Size(named:), ml, mn, ma, vl, vn, va, it)
	}`
)

var (
	srcSortAscBlock  = `function(ob) { ob.Sort!({|x, y| ` + keyExpr("x") + ` < ` + keyExpr("y") + ` }) }`
	srcSortDescBlock = `function(ob) { ob.Sort!({|x, y| ` + keyExpr("x") + ` > ` + keyExpr("y") + ` }) }`
	srcCmpAsc        = `function(x, y) { return ` + keyExpr("x") + ` < ` + keyExpr("y") + ` }`
	srcCmpDesc       = `function(x, y) { return ` + keyExpr("x") + ` > ` + keyExpr("y") + ` }`
	srcSortWith      = `function(ob, f) { ob.Sort!(f) }`
)

// ---------------------------------------------------------------------------

type c36run struct {
	t    *rapid.T
	l    *lang
	step int
	desc []string // rendered script
	lab  map[string]int
}

func (r *c36run) failf(format string, args ...any) {
	r.t.Helper()
	r.t.Fatalf("%s\nscript:\n  %s", fmt.Sprintf(format, args...), strings.Join(r.desc, "\n  "))
}

func listOf(x core.Value) ([]core.Value, bool) {
	ob, ok := x.(*core.SuObject)
	if !ok {
		return nil, false
	}
	if ob.NamedSize() != 0 {
		return nil, false
	}
	l := make([]core.Value, ob.ListSize())
	for i := range l {
		l[i] = ob.ListGet(i)
	}
	return l, true
}

// checkState compares everything observable of the real container with the
// model: sizes, members, values, iteration (language level), list and named
// parts through the Go API, every member by subscript, and absent members.
func (r *c36run) checkState(real core.Value, c *cont, why string) {
	n := c.n()
	list := c.list()
	named := c.namedKeys()
	// language level description
	dv, pe := r.l.call(srcDesc, real)
	if pe != nil {
		r.failf("%s: describing the container failed: %s (model %v)", why, pe, c)
	}
	d, ok := listOf(dv)
	if !ok || len(d) != 10 {
		r.failf("%s: bad description %v", why, dv)
	}
	wantInt := func(what string, x core.Value, want int) {
		if g, ok := x.IfInt(); !ok || g != want {
			r.failf("%s: %s = %v, model %d (model %v, real %v)", why, what, x, want, c, real)
		}
	}
	wantInt("Size()", d[0], len(c.m))
	wantInt("Size(list:)", d[1], n)
	wantInt("Size(named:)", d[2], len(named))
	ml, _ := listOf(d[3])
	mn, _ := listOf(d[4])
	ma, _ := listOf(d[5])
	vl, _ := listOf(d[6])
	vn, _ := listOf(d[7])
	va, _ := listOf(d[8])
	it, _ := listOf(d[9])
	if len(ml) != n {
		r.failf("%s: Members(list:) = %v, model list size %d (model %v)", why, d[3], n, c)
	}
	for i, m := range ml {
		if g, ok := m.IfInt(); !ok || g != i {
			r.failf("%s: Members(list:) = %v, want 0..%d", why, d[3], n-1)
		}
	}
	keySet := func(what string, ks []core.Value, want []mkey) {
		if len(ks) != len(want) {
			r.failf("%s: %s = %v, model named keys %v (model %v)", why, what, ks, want, c)
		}
		seen := map[string]bool{}
		for _, kv := range ks {
			k, ok := keyOf(kv)
			if !ok {
				r.failf("%s: %s contains %v", why, what, kv)
			}
			seen[k.canon()] = true
		}
		for _, k := range want {
			if !seen[k.canon()] {
				r.failf("%s: %s = %v lacks %v (model %v)", why, what, ks, k, c)
			}
		}
	}
	keySet("Members(named:)", mn, named)
	if len(ma) != len(c.m) {
		r.failf("%s: Members() = %v (model %v)", why, d[5], c)
	}
	for i := 0; i < n && i < len(ma); i++ {
		if g, ok := ma[i].IfInt(); !ok || g != i {
			r.failf("%s: Members() = %v does not start with the list members (model %v)", why, d[5], c)
		}
	}
	keySet("Members() after the list", ma[n:], named)
	valList := func(what string, vs []core.Value) {
		if len(vs) != n {
			r.failf("%s: %s has %d values, model list %v", why, what, len(vs), list)
		}
		for i, x := range vs {
			if g, ok := toMval(x); !ok || g != list[i] {
				r.failf("%s: %s[%d] = %v, model list %v (real %v)", why, what, i, x, list, real)
			}
		}
	}
	valList("Values(list:)", vl)
	valBag := func(what string, vs []core.Value) {
		var got, want []string
		for _, x := range vs {
			g, ok := toMval(x)
			if !ok {
				r.failf("%s: %s contains %v", why, what, x)
			}
			got = append(got, g.String())
		}
		for _, k := range named {
			want = append(want, c.m[k.canon()].String())
		}
		sort.Strings(got)
		sort.Strings(want)
		if strings.Join(got, ",") != strings.Join(want, ",") {
			r.failf("%s: %s = %v, model named values %v (model %v)", why, what, vs, want, c)
		}
	}
	valBag("Values(named:)", vn)
	if len(va) != len(c.m) || len(it) != len(c.m) {
		r.failf("%s: Values() = %v / iteration = %v (model %v)", why, d[8], d[9], c)
	}
	valList("Values() list part", va[:n])
	valBag("Values() named part", va[n:])
	valList("for-in list part", it[:n])
	valBag("for-in named part", it[n:])

	// Go API
	cn := core.ToContainer(real)
	if cn.ListSize() != n || cn.NamedSize() != len(named) {
		r.failf("%s: Go ListSize/NamedSize = %d/%d, model %d/%d (model %v)", why, cn.ListSize(), cn.NamedSize(), n, len(named), c)
	}
	for i := 0; i < n; i++ {
		if g, ok := toMval(cn.ListGet(i)); !ok || g != list[i] {
			r.failf("%s: Go ListGet(%d) = %v, model %v", why, i, cn.ListGet(i), list)
		}
	}
	iter := cn.Iter2(false, true)
	cnt := 0
	for k, v := iter(); k != nil; k, v = iter() {
		mk, ok := keyOf(k)
		if !ok {
			r.failf("%s: Go named iteration key %v", why, k)
		}
		want, ok := c.get(mk)
		g, ok2 := toMval(v)
		if !ok || !ok2 || g != want || (mk.kind == 'i' && 0 <= mk.n && mk.n < n) {
			r.failf("%s: Go named iteration yields %v: %v, model %v", why, k, v, c)
		}
		cnt++
	}
	if cnt != len(named) {
		r.failf("%s: Go named iteration yields %d members, model %v", why, cnt, c)
	}
	// every member by subscript, alternating the route
	useLang := r.step%2 == 0
	getk := func(k mkey, asDnum bool) (core.Value, *perr) {
		if useLang {
			return r.l.call(srcGet, real, k.value(asDnum))
		}
		var v core.Value
		pe := r.l.protect(func() { v = real.Get(r.l.th, k.value(asDnum)) })
		return v, pe
	}
	for ck, k := range c.keys {
		asDnum := k.kind == 'i' && (len(ck)+r.step)%5 == 0
		v, pe := getk(k, asDnum)
		if pe != nil {
			r.failf("%s: ob[%v] (dnum key %v) failed: %s (model %v)", why, k, asDnum, pe, c)
		}
		if g, ok := toMval(v); !ok || g != c.m[ck] {
			r.failf("%s: ob[%v] (dnum key %v) = %v, model %v", why, k, asDnum, v, c)
		}
		if !cn.HasKey(k.value(asDnum)) {
			r.failf("%s: HasKey(%v) false (model %v)", why, k, c)
		}
	}
	// absent members
	for _, k := range []mkey{ik(n), ik(-1), ik(n + 7), sk("zz")} {
		if c.has(k) {
			continue
		}
		mv, pe := r.l.call(srcMember, real, k.value(false))
		if pe != nil || mv != core.False {
			r.failf("%s: Member?(%v) = %v %s, model %v", why, k, mv, pe, c)
		}
		v, pe := getk(k, false)
		if c.rec {
			// "default value of \"\""
			if pe != nil || v == nil || !v.Equal(core.EmptyStr) {
				r.failf("%s: record[%v] of an absent member = %v %s, want \"\"", why, k, v, pe)
			}
		} else if useLang {
			if pe == nil || pe.runtime {
				r.failf("%s: ob[%v] of an absent member = %v %s, want 'member not found'", why, k, v, pe)
			}
		} else if pe != nil || v != nil {
			r.failf("%s: Go Get(%v) of an absent member = %v %s, want nil", why, k, v, pe)
		}
	}
}

// fresh builds a new container with the model's contents in a drawn order.
func (r *c36run) fresh(c *cont) core.Value {
	src := srcNewOb
	if c.rec {
		src = srcNewRec
	}
	ob, pe := r.l.call(src)
	if pe != nil {
		r.failf("creating a container failed: %s", pe)
	}
	var cks []string
	for ck := range c.keys {
		cks = append(cks, ck)
	}
	sort.Strings(cks)
	// insertion order: a drawn rotation, reversed half of the time
	if len(cks) > 1 {
		rot := gen.Uniform(r.t, "freshrot", len(cks))
		cks = append(cks[rot:], cks[:rot]...)
		if gen.Chance(r.t, "freshrev", 50) {
			for i, j := 0, len(cks)-1; i < j; i, j = i+1, j-1 {
				cks[i], cks[j] = cks[j], cks[i]
			}
		}
	}
	for _, ck := range cks {
		if _, pe := r.l.call(srcSet, ob, c.keys[ck].value(false), c.m[ck].value()); pe != nil {
			r.failf("building the comparison object failed: %s", pe)
		}
	}
	return ob
}

func drawVal(t *rapid.T) mval {
	if gen.Chance(t, "vstr", 18) {
		return ms(gen.Pick(t, "vs", []string{"a", "b", "ab", "", "ba"}))
	}
	return mi(gen.Uniform(t, "vtens", 3)*10 + gen.Uniform(t, "vdig", 4))
}

// drawKey picks a member key relative to the target's current shape.
func drawKey(t *rapid.T, c *cont) mkey {
	n := c.n()
	named := c.namedKeys()
	w := []int{30, 18, 18, 12, 5, 14, 3}
	if n == 0 {
		w[0] = 0
	}
	if len(named) == 0 {
		w[3] = 0
	}
	switch gen.Weighted(t, "kcls", w) {
	case 0:
		return ik(gen.Uniform(t, "kin", n))
	case 1:
		return ik(n)
	case 2:
		return ik(n + 1 + gen.Uniform(t, "kbeyond", 4))
	case 3:
		return gen.Pick(t, "knamed", named)
	case 4:
		return ik(-1 - gen.Uniform(t, "kneg", 2))
	case 5:
		return sk(gen.Pick(t, "kstr", []string{"a", "b", "c", "d"}))
	}
	return mkey{kind: 'd', s: gen.Pick(t, "kdec", []string{"1.5", ".5"})}
}

var c36ops = []string{"add", "add2", "addat", "addat2", "set", "delete", "erase", "deleteall",
	"find", "sort", "sortasc", "sortdesc", "unique", "reverse", "slice", "copy", "popfirst", "poplast", "readonly", "equal"}
var c36weights = []int{12, 4, 14, 4, 16, 10, 9, 1,
	5, 5, 5, 3, 4, 4, 6, 4, 2, 2, 2, 3}

type c36stats struct {
	pullIn, pushOut, ties, roRejected, roNoop, mutations int
	copies, slices, sorts                                int
}

func (s c36stats) nontrivial() bool {
	return s.pullIn > 0 || s.pushOut > 0 || s.ties > 0 || s.roRejected > 0
}

// namedIntsAbove counts integer keys that are present but outside the list.
func namedIntsAbove(c *cont) map[int]bool {
	n := c.n()
	r := map[int]bool{}
	for _, k := range c.keys {
		if k.kind == 'i' && k.n > n {
			r[k.n] = true
		}
	}
	return r
}

func c36script(t *rapid.T, rec *ev.Rec, l *lang) {
	r := &c36run{t: t, l: l, lab: map[string]int{}}
	var st c36stats
	type slot struct {
		real core.Value
		c    *cont
	}
	var pool []slot
	isRec := gen.Chance(t, "record", 25)
	mk := func(rec bool) slot {
		src := srcNewOb
		if rec {
			src = srcNewRec
		}
		v, pe := l.call(src)
		if pe != nil {
			t.Fatalf("creating a container: %s", pe)
		}
		return slot{v, newCont(rec)}
	}
	pool = append(pool, mk(isRec))
	// initial contents
	n0 := gen.Uniform(t, "n0", 6)
	if gen.Chance(t, "longlist", 20) {
		// sort.Slice and friends switch algorithm above 12 elements
		n0 = 13 + gen.Uniform(t, "n0long", 12)
	}
	for i := 0; i < n0; i++ {
		v := drawVal(t)
		pool[0].c.add(v)
		core.ToContainer(pool[0].real).Add(v.value())
	}
	for i := gen.Uniform(t, "m0", 4); i > 0; i-- {
		k, v := drawKey(t, pool[0].c), drawVal(t)
		pool[0].c.put(k, v)
		pool[0].real.Put(l.th, k.value(false), v.value())
	}
	r.desc = append(r.desc, fmt.Sprintf("o0 = %v", pool[0].c))
	r.checkState(pool[0].real, pool[0].c, "initial")

	nops := 6 + gen.Uniform(t, "nops", 30)
	for r.step = 1; r.step <= nops; r.step++ {
		ti := gen.Uniform(t, "target", len(pool))
		tgt := pool[ti]
		c := tgt.c
		opn := c36ops[gen.Weighted(t, "op", c36weights)]
		useLang := gen.Chance(t, "lang", 60)
		route := "go"
		if useLang {
			route = "lang"
		}
		before := c.clone()
		after := c.clone() // the model applies the operation to `after`
		aboveBefore := namedIntsAbove(before)
		cn := core.ToContainer(tgt.real)
		var res core.Value
		var pe *perr
		var wantThis bool   // result must be the object itself
		var check func()    // extra result check (only when the op was not rejected)
		mutator := true
		text := ""
		run := func(src string, goop func(), args ...core.Value) {
			if useLang {
				res, pe = l.call(src, append([]core.Value{tgt.real}, args...)...)
			} else {
				pe = l.protect(goop)
			}
		}
		asDnum := gen.Chance(t, "dnumkey", 6)
		switch opn {
		case "add":
			v := drawVal(t)
			after.add(v)
			text = fmt.Sprintf("o%d.Add(%v)", ti, v)
			wantThis = useLang
			run(srcAdd1, func() { cn.Add(v.value()) }, v.value())
		case "add2":
			v, w := drawVal(t), drawVal(t)
			after.add(v)
			after.add(w)
			text = fmt.Sprintf("o%d.Add(%v, %v)", ti, v, w)
			wantThis = useLang
			run(srcAdd2, func() { cn.Add(v.value()); cn.Add(w.value()) }, v.value(), w.value())
		case "addat":
			k, v := drawKey(t, c), drawVal(t)
			after.insert(k, v)
			text = fmt.Sprintf("o%d.Add(%v, at: %v)", ti, v, k)
			wantThis = useLang
			run(srcAddAt1, func() {
				if k.kind == 'i' {
					cn.Insert(k.n, v.value())
				} else {
					tgt.real.Put(l.th, k.value(false), v.value())
				}
			}, v.value(), k.value(asDnum && k.kind == 'i'))
		case "addat2":
			// several values need an un-named or numeric position; a negative
			// position running into member 0 is left open by the documentation
			k := drawKey(t, c)
			for k.kind != 'i' || k.n < 0 {
				k = ik(gen.Uniform(t, "kat2", c.n()+3))
			}
			v, w := drawVal(t), drawVal(t)
			after.insert(k, v)
			after.insert(ik(k.n+1), w)
			text = fmt.Sprintf("o%d.Add(%v, %v, at: %v)", ti, v, w, k)
			wantThis = useLang
			run(srcAddAt2, func() { cn.Insert(k.n, v.value()); cn.Insert(k.n+1, w.value()) },
				v.value(), w.value(), k.value(false))
		case "set":
			k, v := drawKey(t, c), drawVal(t)
			after.put(k, v)
			text = fmt.Sprintf("o%d[%v] = %v", ti, k, v)
			kv := k.value(asDnum && k.kind == 'i')
			run(srcSet, func() { tgt.real.Put(l.th, kv, v.value()) }, kv, v.value())
		case "delete":
			k := drawKey(t, c)
			after.delete(k)
			text = fmt.Sprintf("o%d.Delete(%v)", ti, k)
			wantThis = useLang
			kv := k.value(asDnum && k.kind == 'i')
			run(srcDelete, func() { cn.Delete(l.th, kv) }, kv)
		case "erase":
			k := drawKey(t, c)
			after.erase(k)
			text = fmt.Sprintf("o%d.Erase(%v)", ti, k)
			wantThis = useLang
			kv := k.value(asDnum && k.kind == 'i')
			run(srcErase, func() { cn.Erase(l.th, kv) }, kv)
		case "deleteall":
			after.deleteAll()
			text = fmt.Sprintf("o%d.Delete(all:)", ti)
			wantThis = useLang
			run(srcDelAll, func() { cn.DeleteAll() })
		case "find":
			mutator = false
			var v mval
			if len(c.m) > 0 && gen.Chance(t, "findpresent", 70) {
				var cks []string
				for ck := range c.m {
					cks = append(cks, ck)
				}
				sort.Strings(cks)
				v = c.m[gen.Pick(t, "findwhich", cks)]
			} else {
				v = drawVal(t)
			}
			text = fmt.Sprintf("o%d.Find(%v)", ti, v)
			run(srcFind, func() { res = cn.ToObject().Find(v.value()) }, v.value())
			check = func() {
				list := c.list()
				for i, x := range list {
					if x == v {
						// "If the value is in multiple un-named members, the first one will be returned"
						if g, ok := res.IfInt(); !ok || g != i {
							r.failf("Find(%v) = %v, model: first list position %d (model %v)", v, res, i, c)
						}
						return
					}
				}
				var cands []string
				for _, k := range c.namedKeys() {
					if c.m[k.canon()] == v {
						cands = append(cands, k.canon())
					}
				}
				if len(cands) == 0 {
					if res != core.False {
						r.failf("Find(%v) = %v, model: not present (model %v)", v, res, c)
					}
					return
				}
				// which of several named members is undefined
				k, ok := keyOf(res)
				if !ok || !strings.Contains(","+strings.Join(cands, ",")+",", ","+k.canon()+",") {
					r.failf("Find(%v) = %v, model candidates %v (model %v)", v, res, cands, c)
				}
				r.lab["find_named"]++
			}
		case "sort", "sortasc", "sortdesc":
			list := after.list()
			less := func(a, b mval) bool { return cmpMval(a, b) < 0 }
			src := srcSort0
			var cmp core.Value = core.False
			switch opn {
			case "sortasc":
				less = func(a, b mval) bool { return sortKey(a) < sortKey(b) }
				src = srcSortAscBlock
				cmp = l.fn(srcCmpAsc)
			case "sortdesc":
				less = func(a, b mval) bool { return sortKey(a) > sortKey(b) }
				src = srcSortDescBlock
				cmp = l.fn(srcCmpDesc)
			}
			// ties between different values make stability observable
			tie := false
			for i := range list {
				for j := i + 1; j < len(list); j++ {
					if list[i] != list[j] && !less(list[i], list[j]) && !less(list[j], list[i]) {
						tie = true
					}
				}
			}
			sort.SliceStable(list, func(i, j int) bool { return less(list[i], list[j]) })
			after.setList(list)
			text = fmt.Sprintf("o%d.%s", ti, opn)
			wantThis = useLang
			fnArg := opn != "sort" && gen.Chance(t, "cmpAsFunction", 40)
			if useLang && fnArg {
				text += "(fn)"
				res, pe = l.call(srcSortWith, tgt.real, cmp)
			} else {
				run(src, func() { cn.ToObject().Sort(l.th, cmp) })
			}
			st.sorts++
			if tie && !c.readonly {
				st.ties++
				r.lab["sort_with_ties"]++
			}
		case "unique":
			list := after.list()
			var u []mval
			for i, v := range list {
				if i == 0 || v != list[i-1] {
					u = append(u, v)
				}
			}
			after.setList(u)
			text = fmt.Sprintf("o%d.Unique!()", ti)
			wantThis = useLang
			run(srcUnique, func() { cn.ToObject().Unique() })
			if len(u) < len(list) {
				r.lab["unique_removed"]++
			}
		case "reverse":
			list := after.list()
			for i, j := 0, len(list)-1; i < j; i, j = i+1, j-1 {
				list[i], list[j] = list[j], list[i]
			}
			after.setList(list)
			text = fmt.Sprintf("o%d.Reverse!()", ti)
			wantThis = useLang
			run(srcReverse, func() { cn.ToObject().Reverse() })
		case "popfirst", "poplast":
			list := after.list()
			var want *mval
			if len(list) > 0 {
				if opn == "popfirst" {
					want = &list[0]
					after.delete(ik(0))
				} else {
					want = &list[len(list)-1]
					after.delete(ik(len(list) - 1))
				}
			}
			text = fmt.Sprintf("o%d.%s()", ti, opn)
			src := srcPopFirst
			if opn == "poplast" {
				src = srcPopLast
			}
			run(src, func() {
				if opn == "popfirst" {
					res = cn.ToObject().PopFirst()
				} else {
					res = cn.ToObject().PopLast()
				}
			})
			check = func() {
				if want == nil {
					// "If the list is empty, it returns the object itself" (Go API: nil)
					if useLang && res != tgt.real || !useLang && res != nil {
						r.failf("%s on an empty list returned %v", opn, res)
					}
					return
				}
				if g, ok := toMval(res); !ok || g != *want {
					r.failf("%s returned %v, model %v", opn, res, *want)
				}
			}
		case "slice":
			mutator = false
			n := c.n()
			form := gen.Uniform(t, "sliceform", 6)
			i := gen.Uniform(t, "slicei", 2*n+5) - n - 2
			j := gen.Uniform(t, "slicej", 2*n+5) - n - 2
			var from, to int
			var src string
			var args []core.Value
			var goop func()
			switch form {
			case 0:
				from, to = sliceTo(n, i, j)
				src, args = srcRangeTo, []core.Value{core.IntVal(i), core.IntVal(j)}
				goop = func() { res = tgt.real.RangeTo(i, j) }
				text = fmt.Sprintf("o%d[%d .. %d]", ti, i, j)
			case 1:
				from, to = sliceTo(n, i, n)
				src, args = srcRangeTo1, []core.Value{core.IntVal(i)}
				goop = func() { res = tgt.real.RangeTo(i, n) }
				text = fmt.Sprintf("o%d[%d ..]", ti, i)
			case 2:
				from, to = sliceTo(n, 0, j)
				src, args = srcRangeTo2, []core.Value{core.IntVal(j)}
				goop = func() { res = tgt.real.RangeTo(0, j) }
				text = fmt.Sprintf("o%d[.. %d]", ti, j)
			case 3:
				from, to = sliceLen(n, i, j)
				src, args = srcRangeLn, []core.Value{core.IntVal(i), core.IntVal(j)}
				goop = func() { res = tgt.real.RangeLen(i, j) }
				text = fmt.Sprintf("o%d[%d :: %d]", ti, i, j)
			case 4:
				from, to = sliceLen(n, i, n)
				src, args = srcRangeLn1, []core.Value{core.IntVal(i)}
				goop = func() { res = tgt.real.RangeLen(i, n) }
				text = fmt.Sprintf("o%d[%d ::]", ti, i)
			default:
				from, to = sliceLen(n, 0, j)
				src, args = srcRangeLn2, []core.Value{core.IntVal(j)}
				goop = func() { res = tgt.real.RangeLen(0, j) }
				text = fmt.Sprintf("o%d[:: %d]", ti, j)
			}
			run(src, goop, args...)
			st.slices++
			check = func() {
				nc := newCont(false)
				for _, v := range c.list()[from:to] {
					nc.add(v)
				}
				if res == tgt.real {
					r.failf("slice returned the object itself")
				}
				if _, ok := res.(*core.SuObject); !ok {
					r.failf("slice returned %T", res)
				}
				// whether the result of slicing a read-only object can be modified is not documented
				ro, _ := l.call(srcIsRO, res)
				nc.readonly = ro == core.True
				r.checkState(res, nc, "result of "+text)
				r.lab[fmt.Sprintf("slice_len_%d", min(to-from, 3))]++
				if len(pool) < 3 {
					pool = append(pool, slot{res, nc})
				} else {
					pool[(ti+1)%3] = slot{res, nc}
				}
			}
		case "copy":
			mutator = false
			text = fmt.Sprintf("o%d.Copy()", ti)
			run(srcCopy, func() { res = cn.Copy() })
			st.copies++
			check = func() {
				nc := c.clone()
				if res == tgt.real {
					r.failf("Copy returned the object itself")
				}
				// whether a copy of a read-only object is read-only is not documented: ask
				ro, pe := l.call(srcIsRO, res)
				if pe != nil {
					r.failf("Readonly? failed: %s", pe)
				}
				nc.readonly = ro == core.True
				if c.readonly {
					r.lab[fmt.Sprintf("copy_of_readonly_readonly=%v", nc.readonly)]++
				} else if nc.readonly {
					r.failf("copy of a modifiable object is read-only")
				}
				r.checkState(res, nc, "result of "+text)
				if len(pool) < 3 {
					pool = append(pool, slot{res, nc})
				} else {
					pool[(ti+1)%3] = slot{res, nc}
				}
			}
		case "readonly":
			mutator = false
			text = fmt.Sprintf("o%d.Set_readonly()", ti)
			wantThis = useLang
			run(srcReadonly, func() { cn.SetReadOnly() })
			check = func() {
				c.readonly = true
				ro, _ := l.call(srcIsRO, tgt.real)
				if ro != core.True || !cn.IsReadOnly() {
					r.failf("Readonly?() after Set_readonly = %v", ro)
				}
			}
		case "equal":
			mutator = false
			text = fmt.Sprintf("o%d is fresh(model)", ti)
			f := r.fresh(c)
			res, pe = l.call(srcEq, tgt.real, f)
			check = func() {
				if res != core.True {
					r.failf("container %v is not equal to a new one with the model's members %v (model %v)", tgt.real, f, c)
				}
				// and differs from one with a changed member
				d := c.clone()
				if n := d.n(); n > 0 && gen.Chance(t, "neq_list", 50) {
					d.put(ik(n-1), mi(77))
				} else {
					d.put(sk("q"), mi(1))
				}
				res2, _ := l.call(srcEq, tgt.real, r.fresh(d))
				if res2 != core.False {
					r.failf("container %v equals one with different members %v", tgt.real, d)
				}
			}
		}
		r.desc = append(r.desc, fmt.Sprintf("%-34s [%s]", text, route))
		r.lab["op_"+opn]++
		r.lab["route_"+route]++
		if c.rec {
			r.lab["on_record"]++
		}

		if pe != nil && pe.runtime {
			r.failf("%s: Go runtime error: %s", text, pe)
		}
		if mutator && before.readonly {
			// read-only: the object must be unchanged; an operation that would
			// have changed it must have been refused
			changes := !after.equal(before)
			if changes && pe == nil {
				r.failf("%s on a read-only object was not refused (model %v)", text, before)
			}
			if changes {
				st.roRejected++
				r.lab["readonly_rejected"]++
				if strings.Contains(pe.String(), "readonly") {
					r.lab["readonly_rejected_msg_readonly"]++
				}
			} else {
				st.roNoop++
				r.lab["readonly_noop"]++
			}
			r.checkState(tgt.real, before, "after refused "+text)
			continue
		}
		if pe != nil {
			r.failf("%s failed: %s (model %v)", text, pe, before)
		}
		if wantThis && res != tgt.real {
			r.failf("%s returned %v, documented to return the object itself", text, res)
		}
		if mutator {
			st.mutations++
			*c = *after
			// classify list/named migration
			n1 := c.n()
			for k := range aboveBefore {
				if k < n1 {
					st.pullIn++
					r.lab["named_int_pulled_into_list"]++
					break
				}
			}
			if opn == "erase" && c.n() < before.n()-1 {
				st.pushOut++
				r.lab["list_tail_became_named"]++
			}
			if (opn == "addat" || opn == "addat2") && c.n() > before.n() && len(aboveBefore) > 0 {
				r.lab["insert_with_named_ints_above"]++
			}
		}
		if check != nil {
			check()
		}
		r.checkState(tgt.real, c, "after "+text)
		// the other containers (copies, slices, originals) must be untouched
		for oi, o := range pool {
			if oi != ti && o.real != tgt.real && (r.step+oi)%3 == 0 {
				r.checkState(o.real, o.c, fmt.Sprintf("o%d after %s", oi, text))
			}
		}
	}
	for oi, o := range pool {
		r.checkState(o.real, o.c, fmt.Sprintf("o%d at end", oi))
	}

	rec.Case(st.nontrivial(), strings.Join(r.desc, ";"))
	for k, v := range r.lab {
		rec.LabelN(k, v)
	}
	rec.LabelIf(st.pullIn > 0, "script_with_pull_in")
	rec.LabelIf(st.pushOut > 0, "script_with_push_out")
	rec.LabelIf(st.ties > 0, "script_with_sort_ties")
	rec.LabelIf(st.roRejected > 0, "script_with_readonly_rejection")
	rec.LabelIf(isRec, "script_on_record")
	rec.LabelIf(n0 > 12, "script_starting_with_long_list")
	rec.LabelIf(len(pool) > 1, "script_with_copies_or_slices")
	cls := "plain"
	switch {
	case st.pullIn > 0 && st.ties > 0:
		cls = "migration+ties"
	case st.pullIn > 0:
		cls = "migration"
	case st.ties > 0:
		cls = "ties"
	case st.roRejected > 0:
		cls = "readonly"
	}
	if rec.WantSample("script_" + cls) {
		rec.Sample("script_"+cls, r.desc)
	}
}

// TestC36: container operations match list and map semantics.
func TestC36(t *testing.T) {
	rec := ev.New("C36", "rapid-generated operation scripts (6-35 operations, chosen with unbiased weights) on up to three containers (object or record, copies and slices join the pool), every operation through either compiled Suneido code (builtin/object.go methods, subscripts, ranges) or the Go API of core.SuObject/SuRecord; keys are integers inside / at / beyond the list size, negative, strings, non-integer numbers and integer-valued decimals; values are 12 small integers (tens*10+digit) and 5 strings so that equal values and comparator ties are frequent. After every operation the whole observable state (sizes, Members/Values in the three forms, for-in, every member by subscript, absent members, Go ListGet/Iter2/HasKey) is compared with a model that is one map member->value whose list is by definition the maximal run of integer members from 0. Non-trivial: a script in which a named integer member was pulled into the list, an Erase turned a list tail into named members, a sort had ties between different values (stability observable), or a read-only object refused an operation that would have changed it; distinct = by rendered script.")
	rec.Assumptions = []string{
		"model written from suneidoc Language/Reference/Object/*.md and Language/Expressions/Subscript.md, not from core/suobject.go",
		"open points are not judged: which of several named members Find returns, order of named members, whether a copy or slice of a read-only object is read-only (asked with Readonly? and then held to it), Add of several values at a negative position (not generated), an operation on a read-only object that would not change it may or may not raise",
		"value order for the default Sort! on the generated values: numbers before strings, numbers numerically, strings bytewise",
	}
	defer rec.Write()
	l := newLang()
	rt.Check(t, rec, "script", 2000, 30000, func(t *rapid.T) {
		c36script(t, rec, l)
	})
}
