package objects

import (
	"fmt"
	"sort"
	"strings"
	"sync"
	"testing"
	"time"

	"github.com/apmckinlay/gsuneido/core"
	"github.com/apmckinlay/gsuneido/db19"
	"github.com/apmckinlay/gsuneido/db19/stor"
	"github.com/apmckinlay/gsuneido/dbms"
	qry "github.com/apmckinlay/gsuneido/dbms/query"
	"pgregory.net/rapid"
	"verifharness/internal/ev"
	"verifharness/internal/gen"
	"verifharness/internal/rt"
)

// ---------------------------------------------------------------------------
// Programs: a function (log, a, b) whose body is a list of statements; the
// interesting statement is the transaction block
//
//	xN = Transaction(update:) { |t| step ... ; EXIT }
//
// possibly inside `for (i = 0; i < n; ++i)` and / or `try ... catch (e)`.
// The model interprets the same tree with the documented meaning
// (suneidoc Database/Reference/Transaction/Transaction.md, Language/Blocks.md,
// Statements/return.md): the block's work becomes visible iff the block
// finishes normally or returns from the enclosing function; if it throws
// (throw, break, continue, an error raised by the work itself, a nested block
// that throws) nothing becomes visible and the exception propagates.

type kexpr struct { // integer expression: c, c+i, c+a
	c  int
	v  string // "", "i", "a", "b"
}

func (k kexpr) src() string {
	if k.v == "" {
		return fmt.Sprint(k.c)
	}
	return fmt.Sprintf("(%d + %s)", k.c, k.v)
}
func (k kexpr) eval(env map[string]int) int { return k.c + env[k.v] }

type guard struct {
	v  string
	eq int
}

func (g *guard) src() string { return fmt.Sprintf("%s is %d", g.v, g.eq) }

const (
	wInsert    = iota // t.QueryDo("insert ...") - raises "duplicate key" when the key exists
	wUpdate           // t.QueryDo("update ... set v = ")
	wDelete           // t.QueryDo("delete ...")
	wOutput           // t.Query(table) { |q| q.Output([...]) }
	wRecUpdate        // r = t.Query1(...); r.v = ...; r.Update()
	wRecDelete        // r = t.Query1(...); r.Delete()
	wRead             // log what the transaction sees
	wNested           // try { bb = { work; throw "in" }; bb() } catch (e2) { log } : caught inside the block
	wComplete         // t.Complete() : the block ends its own transaction
	wRollback         // t.Rollback()
	wLoop             // a loop in the block whose body is try { work; [throw]; [continue|break] } catch (e3) { log; [continue|break] }; tail
)

var loopKinds = []string{"while", "forever", "for-in", "for(;;)", "do-while"}
var loopExits = []string{"", "continue", "break"}

// tranErr is how the model names the error raised by using, completing or
// rolling back a transaction that has already been ended the other way
const tranErr = "<transaction error>"

func isTranErr(s string) bool {
	return !strings.Contains(s, "duplicate key") && strings.Contains(strings.ToLower(s), "transaction")
}

type step struct {
	kind  int
	k, v  kexpr
	inner []step // wNested: work done by the nested block before it throws; wLoop: work in the try body
	id    int
	// wLoop: j runs 1..n
	loopKind, n      int
	throwAt          int // the try body throws when j is throwAt (0: never)
	tryExit, tryExitAt int // 0 none, 1 continue, 2 break at the end of the try body (tryExitAt 0: every iteration)
	catchExit        int // the same at the end of the catch body
}

const (
	xFall         = iota // run off the end of the block (block value returned by Transaction)
	xReturn              // return V : returns from the enclosing function
	xThrow               // throw "T.."
	xBreak               // break  => "block:break"
	xContinue            // continue => "block:continue"
	xNestedThrow         // bb = { throw ".." }; bb()   not caught
	xNestedReturn        // bb = { return V }; bb()
	xNestedReturnTry     // try { bb = { return V }; bb() } catch (e2) { .. } : a return is not an exception
	xNestedBreak         // bb = { break }; bb()
)

var exitNames = []string{"fallthrough", "return", "throw", "break", "continue", "nested_throw", "nested_return", "nested_return_in_try", "nested_break"}

type exitStep struct {
	g    *guard // nil: unconditional
	kind int
}

type tranBlock struct {
	id     int
	steps  []step
	exits  []exitStep // guarded exits are tried in order after the work; the last is unconditional
	early  *exitStep  // optional guarded exit before the work
	assign bool
}

type stmt struct {
	kind string // "tran", "loop", "try", "log"
	tb   *tranBlock
	n    int
	body []stmt
	text string
}

const c42table = "c42t"

func ind(n int) string { return strings.Repeat("\t", n) }

func (s step) src(d int, allowTry bool) string {
	t := ind(d)
	q := func(parts ...string) string { return strings.Join(parts, " $ ") }
	switch s.kind {
	case wInsert:
		return t + "t.QueryDo(" + q(`"insert { k: "`, s.k.src(), `", v: "`, s.v.src(), `" } into `+c42table+`"`) + ")\n"
	case wUpdate:
		return t + "t.QueryDo(" + q(`"update `+c42table+` where k is "`, s.k.src(), `" set v = "`, s.v.src()) + ")\n"
	case wDelete:
		return t + "t.QueryDo(" + q(`"delete `+c42table+` where k is "`, s.k.src()) + ")\n"
	case wOutput:
		return t + `t.Query("` + c42table + `") { |q| q.Output([k: ` + s.k.src() + `, v: ` + s.v.src() + "]) }\n"
	case wRecUpdate:
		return t + "r = t.Query1(" + q(`"`+c42table+` where k is "`, s.k.src()) + ")\n" +
			t + "if r isnt false { r.v = " + s.v.src() + "; r.Update() }\n"
	case wRecDelete:
		return t + "r = t.Query1(" + q(`"`+c42table+` where k is "`, s.k.src()) + ")\n" +
			t + "if r isnt false { r.Delete() }\n"
	case wRead:
		return t + "r = t.Query1(" + q(`"`+c42table+` where k is "`, s.k.src()) + ")\n" +
			t + `log.Add("read " $ ` + s.k.src() + ` $ "=" $ (r is false ? "none" : r.v))` + "\n"
	case wLoop:
		var sb strings.Builder
		t1 := t + "\t"
		switch s.loopKind {
		case 0:
			sb.WriteString(fmt.Sprintf("%sj = 0\n%swhile j < %d\n%s\t{\n%s++j\n", t, t, s.n, t, t1))
		case 1:
			sb.WriteString(fmt.Sprintf("%sj = 0\n%sforever\n%s\t{\n%s++j\n%sif j > %d\n%s\t{ break }\n", t, t, t, t1, t1, s.n, t1))
		case 2:
			var js []string
			for j := 1; j <= s.n; j++ {
				js = append(js, fmt.Sprint(j))
			}
			sb.WriteString(fmt.Sprintf("%sfor j in #(%s)\n%s\t{\n", t, strings.Join(js, ", "), t))
		case 3:
			sb.WriteString(fmt.Sprintf("%sfor (j = 1; j <= %d; ++j)\n%s\t{\n", t, s.n, t))
		default:
			sb.WriteString(fmt.Sprintf("%sj = 0\n%sdo\n%s\t{\n%s++j\n", t, t, t, t1))
		}
		sb.WriteString(t1 + "try\n" + t1 + "\t{\n")
		for _, in := range s.inner {
			sb.WriteString(in.src(d+2, false))
		}
		if s.throwAt > 0 {
			sb.WriteString(fmt.Sprintf("%s\tif j is %d\n%s\t\t{ throw \"L%d\" }\n", t1, s.throwAt, t1, s.id))
		}
		if s.tryExit != 0 {
			if s.tryExitAt > 0 {
				sb.WriteString(fmt.Sprintf("%s\tif j is %d\n%s\t\t{ %s }\n", t1, s.tryExitAt, t1, loopExits[s.tryExit]))
			} else {
				sb.WriteString(t1 + "\t" + loopExits[s.tryExit] + "\n")
			}
		}
		sb.WriteString(t1 + "\t}\n" + t1 + "catch (e3)\n" + t1 + "\t{\n" + t1 + "\tlog.Add(\"loopcatch:\" $ e3)\n")
		if s.catchExit != 0 {
			sb.WriteString(t1 + "\t" + loopExits[s.catchExit] + "\n")
		}
		sb.WriteString(t1 + "\t}\n")
		sb.WriteString(t1 + "log.Add(\"tail \" $ j)\n")
		if s.loopKind == 4 {
			sb.WriteString(fmt.Sprintf("%s\t} while j < %d\n", t, s.n))
		} else {
			sb.WriteString(t + "\t}\n")
		}
		return sb.String()
	case wComplete:
		return t + "t.Complete()\n"
	case wRollback:
		return t + "t.Rollback()\n"
	case wNested:
		var sb strings.Builder
		sb.WriteString(t + "try\n" + t + "\t{\n" + t + "\tbb = {\n")
		for _, in := range s.inner {
			sb.WriteString(in.src(d+2, false))
		}
		sb.WriteString(fmt.Sprintf("%s\t\tthrow \"in%d\"\n%s\t\t}\n%s\tbb()\n%s\t}\n", t, s.id, t, t, t))
		sb.WriteString(t + "catch (e2)\n" + t + "\t{ log.Add(\"inner:\" $ e2) }\n")
		return sb.String()
	}
	panic("step kind")
}

func retVal(id int) int  { return 1000 + id }
func fallVal(id int) int { return 100 + id }

func (x exitStep) src(d int, id int) string {
	t := ind(d)
	var body string
	switch x.kind {
	case xFall:
		body = fmt.Sprint(fallVal(id))
	case xReturn:
		body = fmt.Sprintf("return %d", retVal(id))
	case xThrow:
		body = fmt.Sprintf(`throw "T%d"`, id)
	case xBreak:
		body = "break"
	case xContinue:
		body = "continue"
	case xNestedThrow:
		body = fmt.Sprintf(`bb = { throw "N%d" }; bb()`, id)
	case xNestedReturn:
		body = fmt.Sprintf(`bb = { return %d }; bb()`, retVal(id))
	case xNestedReturnTry:
		body = fmt.Sprintf(`try { bb = { return %d }; bb() } catch (e2) { log.Add("caught a return: " $ e2) }`, retVal(id))
	case xNestedBreak:
		body = `bb = { break }; bb()`
	}
	if x.g != nil {
		return t + "if " + x.g.src() + "\n" + t + "\t{ " + body + " }\n"
	}
	return t + body + "\n"
}

func (b *tranBlock) src(d int) string {
	t := ind(d)
	var sb strings.Builder
	if b.assign {
		sb.WriteString(fmt.Sprintf("%sx%d = Transaction(update:) { |t|\n", t, b.id))
	} else {
		sb.WriteString(t + "Transaction(update:) { |t|\n")
	}
	if b.early != nil {
		sb.WriteString(b.early.src(d+1, b.id))
	}
	for _, s := range b.steps {
		sb.WriteString(s.src(d+1, true))
	}
	for _, x := range b.exits {
		sb.WriteString(x.src(d+1, b.id))
	}
	sb.WriteString(t + "\t}\n")
	if b.assign {
		sb.WriteString(fmt.Sprintf("%slog.Add(\"x%d=\" $ x%d)\n", t, b.id, b.id))
	} else {
		sb.WriteString(fmt.Sprintf("%slog.Add(\"after %d\")\n", t, b.id))
	}
	return sb.String()
}

func (s stmt) src(d int) string {
	t := ind(d)
	switch s.kind {
	case "tran":
		return s.tb.src(d)
	case "log":
		return t + `log.Add("` + s.text + `")` + "\n"
	case "loop":
		var sb strings.Builder
		sb.WriteString(fmt.Sprintf("%sfor (i = 0; i < %d; ++i)\n%s\t{\n", t, s.n, t))
		for _, b := range s.body {
			sb.WriteString(b.src(d + 1))
		}
		sb.WriteString(t + "\t}\n")
		return sb.String()
	case "try":
		var sb strings.Builder
		sb.WriteString(t + "try\n" + t + "\t{\n")
		for _, b := range s.body {
			sb.WriteString(b.src(d + 1))
		}
		sb.WriteString(t + "\t}\n" + t + "catch (e)\n" + t + "\t{ log.Add(\"outer:\" $ (e.Has?(\"duplicate key\") ? \"duplicate key\" : e)) }\n")
		return sb.String()
	}
	panic("stmt kind")
}

func progSrc(body []stmt) string {
	var sb strings.Builder
	sb.WriteString("function (log, a, b)\n\t{\n")
	for _, s := range body {
		sb.WriteString(s.src(1))
	}
	sb.WriteString("\treturn \"done\"\n\t}\n")
	return sb.String()
}

// --- model interpreter ---------------------------------------------------------

type ctl struct {
	kind int // 0 normal, 1 return from the function, 2 exception
	val  string
}

type c42model struct {
	table map[int]int
	log   []string
	env   map[string]int
	// statistics
	blocks, committedWithWork, rolledBackWithWork int
	exitCommitted, exitRolledBack                 map[string]int
	dupErrors, innerCaught, outerCaught           int
	// the block being executed: 0 transaction active, 1 completed, 2 rolled back by the block itself
	ended        int
	explicitEnds map[string]int // class: explicit end + how the block was left
	useAfterEnd  int
	// loops with try/catch inside blocks
	loops, contFromTry, breakFromTry, exitFromCatch, loopCaught int
	contInBlock                                                bool // a continue ran from inside a try body in the current block
	contThenThrow                                              int
}

func copyTable(m map[int]int) map[int]int {
	c := make(map[int]int, len(m))
	for k, v := range m {
		c[k] = v
	}
	return c
}

func sameTable(a, b map[int]int) bool {
	if len(a) != len(b) {
		return false
	}
	for k, v := range a {
		if w, ok := b[k]; !ok || w != v {
			return false
		}
	}
	return true
}

func (m *c42model) work(s step, tmp map[int]int) ctl {
	k, v := s.k.eval(m.env), s.v.eval(m.env)
	switch {
	case s.kind == wComplete:
		switch m.ended {
		case 0:
			m.table = copyTable(tmp) // the work so far is committed here
			m.ended = 1
		case 2:
			return ctl{2, tranErr}
		}
		return ctl{}
	case s.kind == wRollback:
		switch m.ended {
		case 0:
			m.ended = 2
		case 1:
			return ctl{2, tranErr}
		}
		return ctl{}
	case m.ended != 0 && s.kind != wNested && s.kind != wLoop:
		m.useAfterEnd++
		return ctl{2, tranErr} // the transaction can no longer be used
	}
	switch s.kind {
	case wInsert, wOutput:
		if _, ok := tmp[k]; ok {
			m.dupErrors++
			return ctl{2, "duplicate key"}
		}
		tmp[k] = v
	case wUpdate, wRecUpdate:
		if _, ok := tmp[k]; ok {
			tmp[k] = v
		}
	case wDelete, wRecDelete:
		delete(tmp, k)
	case wRead:
		if x, ok := tmp[k]; ok {
			m.log = append(m.log, fmt.Sprintf("read %d=%d", k, x))
		} else {
			m.log = append(m.log, fmt.Sprintf("read %d=none", k))
		}
	case wLoop:
		m.loops++
	loop:
		for j := 1; j <= s.n; j++ {
			m.env["j"] = j
			// try body
			thrown := ""
			for _, in := range s.inner {
				if c := m.work(in, tmp); c.kind == 2 {
					thrown = c.val
					break
				}
			}
			if thrown == "" && s.throwAt == j {
				thrown = fmt.Sprintf("L%d", s.id)
			}
			exit := 0
			if thrown != "" {
				m.log = append(m.log, "loopcatch:"+thrown)
				m.loopCaught++
				exit = s.catchExit
				if exit != 0 {
					m.exitFromCatch++
				}
			} else if s.tryExit != 0 && (s.tryExitAt == 0 || s.tryExitAt == j) {
				exit = s.tryExit
				if exit == 1 {
					m.contFromTry++
					m.contInBlock = true
				} else {
					m.breakFromTry++
				}
			}
			switch exit {
			case 1:
				continue loop
			case 2:
				break loop
			}
			m.log = append(m.log, fmt.Sprintf("tail %d", j))
		}
	case wNested:
		for _, in := range s.inner {
			if c := m.work(in, tmp); c.kind != 0 {
				// an error raised by the inner work is caught by the same try
				m.log = append(m.log, "inner:"+c.val)
				m.innerCaught++
				return ctl{}
			}
		}
		m.log = append(m.log, fmt.Sprintf("inner:in%d", s.id))
		m.innerCaught++
	}
	return ctl{}
}

func (m *c42model) exit(x exitStep, id int) (ctl, bool) {
	if x.g != nil && m.env[x.g.v] != x.g.eq {
		return ctl{}, false
	}
	switch x.kind {
	case xFall:
		return ctl{0, fmt.Sprint(fallVal(id))}, true
	case xReturn, xNestedReturn, xNestedReturnTry:
		return ctl{1, fmt.Sprint(retVal(id))}, true
	case xThrow:
		return ctl{2, fmt.Sprintf("T%d", id)}, true
	case xBreak, xNestedBreak:
		return ctl{2, "block:break"}, true
	case xContinue:
		return ctl{2, "block:continue"}, true
	case xNestedThrow:
		return ctl{2, fmt.Sprintf("N%d", id)}, true
	}
	panic("exit kind")
}

func (m *c42model) tran(b *tranBlock) ctl {
	c := m.tran1(b)
	if c.kind == 2 && m.contInBlock {
		m.contThenThrow++ // continue out of a try body, then an exception outside any try
	}
	return c
}

func (m *c42model) tran1(b *tranBlock) ctl {
	m.blocks++
	m.ended = 0
	m.contInBlock = false
	before := m.table
	tmp := copyTable(m.table)
	var c ctl
	how := ""
	done := false
	if b.early != nil {
		if c, done = m.exit(*b.early, b.id); done {
			how = exitNames[b.early.kind]
		}
	}
	if !done {
		for _, s := range b.steps {
			if c = m.work(s, tmp); c.kind != 0 {
				done = true
				how = "error_in_work"
				break
			}
		}
	}
	if !done {
		for _, x := range b.exits {
			if c, done = m.exit(x, b.id); done {
				how = exitNames[x.kind]
				break
			}
		}
	}
	if m.ended != 0 {
		// the block ended its transaction itself: that decided the database
		// effect; the exit (value, return, exception) reaches the caller unchanged
		cls := []string{"", "complete", "rollback"}[m.ended] + "_then_" + how
		m.explicitEnds[cls]++
		if m.ended == 1 && !sameTable(before, m.table) {
			m.committedWithWork++
		}
		if m.ended == 2 && !sameTable(before, tmp) {
			m.rolledBackWithWork++
		}
		return c
	}
	changed := !sameTable(tmp, m.table)
	if c.kind == 0 || c.kind == 1 {
		m.table = tmp // "automatically Complete'd when it returns"
		m.exitCommitted[how]++
		if changed {
			m.committedWithWork++
		}
	} else {
		m.exitRolledBack[how]++ // "If the block throws an exception, Rollback is called"
		if changed {
			m.rolledBackWithWork++
		}
	}
	return c
}

func (m *c42model) run(body []stmt) ctl {
	for _, s := range body {
		switch s.kind {
		case "log":
			m.log = append(m.log, s.text)
		case "tran":
			c := m.tran(s.tb)
			if c.kind != 0 {
				return c
			}
			if s.tb.assign {
				m.log = append(m.log, fmt.Sprintf("x%d=%s", s.tb.id, c.val))
			} else {
				m.log = append(m.log, fmt.Sprintf("after %d", s.tb.id))
			}
		case "loop":
			for i := 0; i < s.n; i++ {
				m.env["i"] = i
				if c := m.run(s.body); c.kind != 0 {
					return c
				}
			}
			m.env["i"] = s.n
		case "try":
			c := m.run(s.body)
			if c.kind == 2 {
				m.log = append(m.log, "outer:"+c.val)
				m.outerCaught++
				continue
			}
			if c.kind != 0 {
				return c
			}
		}
	}
	return ctl{}
}

// --- generation -----------------------------------------------------------------

type c42gen struct {
	t      *rapid.T
	nextID int
}

func (g *c42gen) kx(inLoop bool) kexpr {
	k := kexpr{c: gen.Uniform(g.t, "kc", 6)}
	w := []int{60, 0, 20, 20}
	if inLoop {
		w = []int{35, 40, 15, 10}
	}
	k.v = []string{"", "i", "a", "b"}[gen.Weighted(g.t, "kvar", w)]
	return k
}

func (g *c42gen) vx(inLoop bool) kexpr {
	v := kexpr{c: 10 + gen.Uniform(g.t, "vc", 40)}
	if inLoop && gen.Chance(g.t, "vi", 30) {
		v.v = "i"
	}
	return v
}

func (g *c42gen) guard(inLoop bool) *guard {
	w := []int{0, 50, 50}
	if inLoop {
		w = []int{60, 20, 20}
	}
	return &guard{v: []string{"i", "a", "b"}[gen.Weighted(g.t, "gvar", w)], eq: gen.Uniform(g.t, "geq", 3)}
}

func (g *c42gen) step(inLoop, allowTry, inner bool) step {
	w := []int{26, 16, 12, 8, 12, 6, 12, 8, 0, 0, 14}
	if !allowTry || inner {
		w[wNested] = 0
		w[wLoop] = 0 // the compiler rejects a try nested in a try (also through blocks)
	}
	if inner {
		// whether a transaction survives a failed insert that is caught inside
		// the block is not documented: caught inner work cannot fail
		w[wInsert], w[wOutput] = 0, 0
	}
	s := step{kind: gen.Weighted(g.t, "work", w), k: g.kx(inLoop), v: g.vx(inLoop)}
	if (s.kind == wInsert || s.kind == wOutput) && gen.Chance(g.t, "freshkey", 55) {
		s.k.c += 6 // beyond the initial rows: the insert succeeds unless repeated
	}
	if s.kind == wNested {
		g.nextID++
		s.id = g.nextID
		for n := gen.Uniform(g.t, "ninner", 3); n > 0; n-- {
			s.inner = append(s.inner, g.step(inLoop, false, true))
		}
	}
	if s.kind == wLoop {
		g.nextID++
		s.id = g.nextID
		s.loopKind = gen.Uniform(g.t, "loopkind", 5)
		s.n = 2 + gen.Uniform(g.t, "loopn", 2)
		for n := gen.Uniform(g.t, "nloopwork", 3); n > 0; n-- {
			in := g.step(inLoop, false, true)
			if gen.Chance(g.t, "keyj", 50) {
				in.k.v = "j"
			}
			s.inner = append(s.inner, in)
		}
		s.throwAt = gen.Uniform(g.t, "throwat", s.n+2) // 0 and n+1: never
		if s.throwAt > s.n {
			s.throwAt = 0
		}
		s.tryExit = gen.Weighted(g.t, "tryexit", []int{20, 55, 25})
		if gen.Chance(g.t, "tryexitguarded", 40) {
			s.tryExitAt = 1 + gen.Uniform(g.t, "tryexitat", s.n)
		}
		s.catchExit = gen.Weighted(g.t, "catchexit", []int{50, 28, 22})
	}
	return s
}

var exitWeights = []int{30, 18, 12, 7, 7, 7, 8, 5, 4}

func (g *c42gen) exitKind(allowTry, guarded bool) int {
	w := append([]int{}, exitWeights...)
	if !allowTry {
		w[xNestedReturnTry] = 0
	}
	if guarded {
		w[xFall] = 0 // a value inside an if does not leave the block
	}
	return gen.Weighted(g.t, "exit", w)
}

func (g *c42gen) tran(inLoop, inTry bool) *tranBlock {
	g.nextID++
	b := &tranBlock{id: g.nextID, assign: gen.Chance(g.t, "assign", 60)}
	allowTry := !inTry // "nested try not supported" by the compiler
	if gen.Chance(g.t, "early", 12) {
		b.early = &exitStep{g: g.guard(inLoop), kind: g.exitKind(allowTry, true)}
	}
	for n := 1 + gen.Uniform(g.t, "nwork", 4); n > 0; n-- {
		b.steps = append(b.steps, g.step(inLoop, allowTry, false))
	}
	if gen.Chance(g.t, "explicitend", 25) {
		// the block ends its transaction itself, at any position, also twice,
		// also followed by more work ("can't use ended transaction")
		for n := 1 + gen.Weighted(g.t, "nends", []int{75, 25}); n > 0; n-- {
			e := step{kind: wComplete}
			if gen.Chance(g.t, "endrollback", 50) {
				e.kind = wRollback
			}
			at := len(b.steps) // mostly after the work
			if gen.Chance(g.t, "endearly", 35) {
				at = gen.Uniform(g.t, "endat", len(b.steps)+1)
			}
			b.steps = append(b.steps[:at:at], append([]step{e}, b.steps[at:]...)...)
		}
	}
	for n := gen.Uniform(g.t, "nguarded", 3); n > 0; n-- {
		b.exits = append(b.exits, exitStep{g: g.guard(inLoop), kind: g.exitKind(allowTry, true)})
	}
	b.exits = append(b.exits, exitStep{kind: g.exitKind(allowTry, false)})
	return b
}

func (g *c42gen) stmts(depth int, inLoop, inTry bool, n int) []stmt {
	var r []stmt
	for ; n > 0; n-- {
		w := []int{60, 18, 14, 8}
		if inLoop || depth >= 2 {
			w[1] = 0
		}
		if inTry || depth >= 2 {
			w[2] = 0
		}
		switch gen.Weighted(g.t, "stmt", w) {
		case 0:
			r = append(r, stmt{kind: "tran", tb: g.tran(inLoop, inTry)})
		case 1:
			r = append(r, stmt{kind: "loop", n: 2 + gen.Uniform(g.t, "loopn", 2),
				body: g.stmts(depth+1, true, inTry, 1+gen.Uniform(g.t, "nbody", 2))})
		case 2:
			r = append(r, stmt{kind: "try", body: g.stmts(depth+1, inLoop, true, 1+gen.Uniform(g.t, "nbody", 2))})
		default:
			g.nextID++
			r = append(r, stmt{kind: "log", text: fmt.Sprintf("s%d", g.nextID)})
		}
	}
	return r
}

// --- database ---------------------------------------------------------------------

var c42once sync.Once
var c42dbms *dbms.DbmsLocal

// c42setup creates the one database of the process (StartConcur leaks its
// goroutines, so it is not created per case) and installs it for all threads.
func c42setup() {
	c42once.Do(func() {
		db := db19.CreateDb(stor.HeapStor(8192))
		db19.StartConcur(db, 50*time.Millisecond)
		c42dbms = dbms.NewDbmsLocal(db)
		core.GetDbms = func() core.IDbms { return c42dbms }
		qry.DoAdmin(db, "create "+c42table+" (k, v) key(k) index(v)", nil)
	})
}

// explicit (non-block) transactions: independent of the mechanism under test
const (
	c42Reset = `function(rows) {
		t = Transaction(update:)
		t.QueryDo("delete ` + c42table + `")
		for r in rows
			t.QueryDo("insert { k: " $ r[0] $ ", v: " $ r[1] $ " } into ` + c42table + `")
		t.Complete()
	}`
	c42ReadAll = `function() {
		ob = Object()
		t = Transaction(read:)
		q = t.Query("` + c42table + ` sort k")
		while false isnt x = q.Next()
			ob.Add(Object(x.k, x.v))
		q.Close()
		t.Complete()
		return ob
	}`
)

func renderTable(m map[int]int) string {
	var ks []int
	for k := range m {
		ks = append(ks, k)
	}
	sort.Ints(ks)
	var sb strings.Builder
	for _, k := range ks {
		fmt.Fprintf(&sb, "%d:%d ", k, m[k])
	}
	return strings.TrimSpace(sb.String())
}

func c42case(t *rapid.T, rec *ev.Rec, l *lang) {
	g := &c42gen{t: t}
	// initial rows
	init := map[int]int{}
	for k := 0; k < 6; k++ {
		if gen.Chance(t, "row", 45) {
			init[k] = 1 + gen.Uniform(t, "rowv", 9)
		}
	}
	a, b := gen.Uniform(t, "a", 3), gen.Uniform(t, "b", 3)
	body := g.stmts(0, false, false, 1+gen.Uniform(t, "nstmt", 3))
	src := progSrc(body)
	header := fmt.Sprintf("table {%s} a=%d b=%d\n", renderTable(init), a, b)

	// model
	m := &c42model{table: copyTable(init), env: map[string]int{"a": a, "b": b, "": 0},
		exitCommitted: map[string]int{}, exitRolledBack: map[string]int{}, explicitEnds: map[string]int{}}
	want := m.run(body)

	// real
	rows := &core.SuObject{}
	var ks []int
	for k := range init {
		ks = append(ks, k)
	}
	sort.Ints(ks)
	for _, k := range ks {
		rows.Add(core.SuObjectOf(core.IntVal(k), core.IntVal(init[k])))
	}
	if _, pe := l.call(c42Reset, rows); pe != nil {
		t.Fatalf("resetting the table failed: %s", pe)
	}
	var fn core.Value
	if pe := l.protect(func() { fn = compileOnce(src) }); pe != nil {
		t.Fatalf("program does not compile: %s\n%s", pe, src)
	}
	log := &core.SuObject{}
	res, pe := l.callv(fn, log, core.IntVal(a), core.IntVal(b))

	fail := func(format string, args ...any) {
		t.Helper()
		t.Fatalf("%s\n%s%s", fmt.Sprintf(format, args...), header, src)
	}
	if pe != nil && pe.runtime {
		fail("Go runtime error: %s", pe)
	}
	// outcome
	switch want.kind {
	case 2:
		if pe == nil {
			fail("the exception %q did not reach the caller: returned %v", want.val, res)
		}
		if got := pe.String(); got != want.val && !(want.val == "duplicate key" && strings.Contains(got, "duplicate key")) &&
			!(want.val == tranErr && isTranErr(got)) {
			fail("the caller got exception %q, model %q", got, want.val)
		}
	default:
		if pe != nil {
			fail("unexpected exception %q, model: returns %q", pe, want.val)
		}
		wantRes := "done"
		if want.kind == 1 {
			wantRes = want.val
		}
		if res == nil || core.ToStrOrString(res) != wantRes {
			fail("function returned %v, model %q", res, wantRes)
		}
	}
	// trace
	var gotLog []string
	for i := 0; i < log.ListSize(); i++ {
		s := core.ToStrOrString(log.ListGet(i))
		if strings.HasPrefix(s, "inner:") && strings.Contains(s, "duplicate key") {
			s = "inner:duplicate key"
		}
		for _, pre := range []string{"inner:", "outer:", "loopcatch:"} {
			if strings.HasPrefix(s, pre) && isTranErr(s[len(pre):]) {
				s = pre + tranErr
			}
		}
		gotLog = append(gotLog, s)
	}
	if strings.Join(gotLog, "|") != strings.Join(m.log, "|") {
		fail("trace differs:\n real  %v\n model %v", gotLog, m.log)
	}
	// database contents through a new, explicit read transaction
	tv, pe := l.call(c42ReadAll)
	if pe != nil {
		fail("reading the table failed: %s", pe)
	}
	got := map[int]int{}
	tl, _ := listOf(tv)
	for _, rv := range tl {
		row, _ := listOf(rv)
		k, _ := row[0].IfInt()
		v, _ := row[1].IfInt()
		got[k] = v
	}
	if !sameTable(got, m.table) {
		fail("table afterwards {%s}, model {%s} (committed exits %v, rolled back exits %v)",
			renderTable(got), renderTable(m.table), m.exitCommitted, m.exitRolledBack)
	}
	// every transaction of a block form is ended
	if n := c42dbms.Transactions().Size(); n != 0 {
		fail("%d update transaction(s) still open after the program", n)
	}

	nt := m.committedWithWork+m.rolledBackWithWork > 0
	rec.Case(nt, header+src)
	for k, v := range m.exitCommitted {
		rec.LabelN("completed_by_"+k, v)
	}
	for k, v := range m.exitRolledBack {
		rec.LabelN("rolledback_by_"+k, v)
	}
	for k, v := range m.explicitEnds {
		rec.LabelN("explicit_"+k, v)
		rec.LabelN("blocks_ending_their_own_transaction", v)
		if !strings.HasSuffix(k, "_then_fallthrough") {
			rec.LabelN("explicit_end_then_nonlocal_exit", v)
		}
	}
	rec.LabelN("use_of_transaction_after_explicit_end", m.useAfterEnd)
	rec.LabelN("loops_with_try_in_block", m.loops)
	rec.LabelN("continue_from_try_body", m.contFromTry)
	rec.LabelN("break_from_try_body", m.breakFromTry)
	rec.LabelN("continue_or_break_from_catch_body", m.exitFromCatch)
	rec.LabelN("caught_in_loop_try", m.loopCaught)
	rec.LabelN("block_continue_out_of_try_then_throw_outside_try", m.contThenThrow)
	rec.LabelIf(m.contThenThrow > 0, "program_continue_out_of_try_then_throw_outside_try")
	rec.LabelN("blocks_executed", m.blocks)
	rec.LabelN("blocks_committed_with_visible_work", m.committedWithWork)
	rec.LabelN("blocks_rolledback_with_work_undone", m.rolledBackWithWork)
	rec.LabelN("caught_inside_block", m.innerCaught)
	rec.LabelN("caught_by_enclosing_function", m.outerCaught)
	rec.Label([]string{"program_returns_done", "program_returns_from_block", "program_throws"}[want.kind])
	rec.LabelIf(strings.Contains(src, "for (i"), "program_with_loop")
	cls := []string{"normal", "return", "exception"}[want.kind]
	if nt && rec.WantSample("program_"+cls) {
		rec.Sample("program_"+cls, map[string]any{"setup": header, "program": src, "trace": m.log,
			"table_after": renderTable(m.table), "outcome": want.val})
	}
}

// TestC42: transaction blocks commit exactly when the block completes.
func TestC42(t *testing.T) {
	rec := ev.New("C42", "rapid-generated Suneido functions with 1-3 top-level statements (transaction block, for loop over 2-3 iterations, try/catch, log) containing `Transaction(update:) { |t| work; EXIT }` blocks: work = 1-4 of QueryDo insert/update/delete, query.Output, record.Update, record.Delete, a logged read, or a nested block that does work, throws and is caught inside the block; EXIT = optional guarded exits (on the loop variable or a function argument) and a final one from fall through / return / throw / break / continue / nested block that throws uncaught / nested block that returns (also through a try) / nested break; a duplicate-key insert makes the work itself throw. 25% of the blocks also call t.Complete() / t.Rollback() themselves (1-2 calls at any position; later work then fails on the ended transaction) before leaving in any of these ways. A work step can also be a loop (while, forever, for-in, for(;;), do-while over j = 1..2-3) whose body is try { work; optional throw at one j; optional continue/break } catch { log; optional continue/break } plus a tail log. Compiled and called through the real interpreter and Transaction builtin on a db19 HeapStor database (StartConcur, DbmsLocal installed with core.GetDbms), table reset per case with an explicit transaction. Oracle: own interpreter of the program tree - work of a block is applied to the model table iff the block fell through or returned; the function result / the exception reaching the caller, the trace (reads inside transactions, values returned by Transaction, caught exceptions) and the table read back through a new explicit read transaction must match; no update transaction stays open. Non-trivial: a program in which at least one executed block had work that changes the table at its exit; distinct = by rendered setup + program.")
	rec.Assumptions = []string{
		"model written from suneidoc Database/Reference/Transaction/Transaction.md, Language/Blocks.md, Language/Statements/return.md",
		"single client: commits cannot conflict, the documented 'block commit failed' path is not explored",
		"a quarter of the blocks end their own transaction with t.Complete()/t.Rollback() (any position, also twice, also followed by more work): the explicit call decides the database effect, the block's exit (value, return, throw, break/continue, the error of using/ending an ended transaction) reaches the caller unchanged; the text of that error is not compared (any exception mentioning 'transaction'); ending the same way twice is taken as a no-op",
		"the compiler rejects a try nested in a try (also through blocks), so a block inside try/catch contains no try",
	}
	defer rec.Write()
	c42setup()
	l := newLang()
	rt.Check(t, rec, "program", 2000, 30000, func(t *rapid.T) {
		c42case(t, rec, l)
	})
}
