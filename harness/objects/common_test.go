// Package objects holds the checks for records with rules (C35), containers
// (C36) and transaction blocks (C42). Programs are compiled with the real
// compiler and run by the real interpreter with the builtin package linked in.
package objects

import (
	"fmt"
	"runtime"
	"strings"

	_ "github.com/apmckinlay/gsuneido/builtin"
	"github.com/apmckinlay/gsuneido/compile"
	"github.com/apmckinlay/gsuneido/core"
)

// lang compiles Suneido source once per text and calls it on its own thread.
type lang struct {
	th  *core.Thread
	fns map[string]core.Value
}

func newLang() *lang {
	return &lang{th: &core.Thread{}, fns: map[string]core.Value{}}
}

func (l *lang) fn(src string) core.Value {
	f, ok := l.fns[src]
	if !ok {
		f = compile.Constant(src)
		l.fns[src] = f
	}
	return f
}

// compileOnce compiles without caching.
func compileOnce(src string) core.Value {
	return compile.Constant(src)
}

// perr is a recovered panic: a Suneido-level error (string / *SuExcept /
// error value) or a Go runtime error.
type perr struct {
	val     any
	runtime bool
}

func (p *perr) String() string {
	if p == nil {
		return ""
	}
	return errText(p.val)
}

// reset makes the thread usable again after a panic unwound its frames
// (what the repl and the server workers do); allocating a new Thread per
// expected error would dominate the run time.
func (l *lang) reset() {
	defer func() {
		if recover() != nil {
			l.th = &core.Thread{}
		}
	}()
	l.th.Reset()
}

// call runs the compiled function src with args.
func (l *lang) call(src string, args ...core.Value) (v core.Value, pe *perr) {
	f := l.fn(src)
	return l.callv(f, args...)
}

func (l *lang) callv(f core.Value, args ...core.Value) (v core.Value, pe *perr) {
	defer func() {
		if e := recover(); e != nil {
			pe = mkPerr(e)
			l.reset()
		}
	}()
	v = l.th.Call(f, args...)
	return
}

// protect runs a Go-API operation, turning a panic into a perr.
func (l *lang) protect(f func()) (pe *perr) {
	defer func() {
		if e := recover(); e != nil {
			pe = mkPerr(e)
			l.reset()
		}
	}()
	f()
	return nil
}

func mkPerr(e any) *perr {
	_, rt := e.(runtime.Error)
	if err, ok := e.(error); ok && !rt {
		// wrapped runtime errors (WrapPanic uses %w)
		s := err.Error()
		if strings.Contains(s, "runtime error") || strings.Contains(s, "nil pointer") {
			rt = true
		}
	}
	return &perr{val: e, runtime: rt}
}

func errText(e any) string {
	switch x := e.(type) {
	case nil:
		return ""
	case *core.SuExcept:
		return string(x.SuStr)
	case error:
		return x.Error()
	case string:
		return x
	case core.Value:
		return core.ToStrOrString(x)
	}
	return fmt.Sprint(e)
}

// mval is a model value: an integer or a byte string.
type mval struct {
	str bool
	n   int
	s   string
}

func mi(n int) mval    { return mval{n: n} }
func ms(s string) mval { return mval{str: true, s: s} }

func (v mval) String() string {
	if v.str {
		return fmt.Sprintf("%q", v.s)
	}
	return fmt.Sprint(v.n)
}

func (v mval) value() core.Value {
	if v.str {
		return core.SuStr(v.s)
	}
	return core.IntVal(v.n)
}

// toMval reads a result value back into the model's value space.
func toMval(x core.Value) (mval, bool) {
	if x == nil {
		return mval{}, false
	}
	if x == core.True || x == core.False {
		return mval{}, false
	}
	if n, ok := x.IfInt(); ok {
		if _, isstr := x.ToStr(); !isstr {
			return mi(n), true
		}
	}
	if s, ok := x.ToStr(); ok {
		return ms(s), true
	}
	return mval{}, false
}

// cmpMval is the documented value order restricted to the generated values:
// numbers sort before strings, numbers numerically, strings by bytes.
func cmpMval(a, b mval) int {
	switch {
	case !a.str && b.str:
		return -1
	case a.str && !b.str:
		return 1
	case !a.str:
		switch {
		case a.n < b.n:
			return -1
		case a.n > b.n:
			return 1
		}
		return 0
	}
	return strings.Compare(a.s, b.s)
}
