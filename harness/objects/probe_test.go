package objects

import (
	"fmt"
	"testing"
)

func TestProbe(t *testing.T) {
	l := newLang()
	fmt.Println(l.call(`function() {
		r = Record(a: 0)
		r.AttachRule(#x, function() { .a })
		x0 = r.x
		r.a = 1
		r.Set_readonly()
		x1 = r.x
		x2 = r.x
		c = r.Copy()
		return Object(x0, x1, x2, c.x, c.Readonly?())
	}`))
}
