package persist

import (
	"flag"
	"fmt"
	"os"
	"path/filepath"
	"testing"

	"pgregory.net/rapid"
	"verifharness/internal/dbgen"
	"verifharness/internal/ev"
	"verifharness/internal/gen"
	"verifharness/internal/rt"
)

// c04Case is one lifecycle history under the close/reopen oracle.
type c04Case struct {
	rec      *ev.Rec
	s        *dbgen.Session
	jr       *journal
	storage  string
	before   string // full dump taken right before the last Close
	nt       bool   // non-trivial: >= 8 persists and a drop/rename since open before a close
	excluded bool   // cut short by a known finding
	gapHits  int    // closes whose final state ended 1..7 bytes before a chunk end
}

func newC04Case(rec *ev.Rec, jr *journal, opener dbgen.Opener, storage string) (*c04Case, error) {
	s, err := dbgen.NewSession(opener)
	if err != nil {
		return nil, err
	}
	c := &c04Case{rec: rec, s: s, jr: jr, storage: storage}
	s.BeforeClose = func() {
		c.before = dbgen.Dump(s.DB)
		if s.W.Stats.Persists >= 8 && s.W.Stats.DropSinceOpen > 0 {
			c.nt = true
		}
	}
	return c, nil
}

func (c *c04Case) failure(format string, args ...any) string {
	return fmt.Sprintf("%s\nhistory (%s):\n%s", fmt.Sprintf(format, args...), c.storage, c.jr.text())
}

// step applies one step and the oracle; it returns "" or the violation.
func (c *c04Case) step(st *dbgen.Step) string {
	s := c.s
	if c.excluded {
		return ""
	}
	if st.Kind == dbgen.KPersist || st.Kind == dbgen.KReopen {
		if knownFlatten(c.rec, s) {
			c.excluded = true
			return ""
		}
	}
	if knownStep(c.rec, s, st) {
		return ""
	}
	c.jr.add(st)
	res := s.Apply(st)
	if knownBadTail(c.rec, res) {
		c.excluded = true
		return ""
	}
	c.rec.Label(stepLabel(st, res))
	if st.Kind == dbgen.KReopen && res.Err == "" {
		c.rec.LabelIf(res.Padded, "close_padded")
		switch g := res.CloseGap; {
		case g == 0:
			c.rec.Label("close_state_ends_0_before_chunk_end")
		case g >= 1 && g <= 7:
			c.rec.Label("close_state_ends_1..7_before_chunk_end")
			c.gapHits++
		case g >= 8 && g <= 16:
			c.rec.Label("close_state_ends_8..16_before_chunk_end")
		}
	}
	n := len(c.jr.steps) - 1
	if res.Err != "" {
		return c.failure("step %d: %s", n, res.Err)
	}
	if st.Kind == dbgen.KReopen {
		after := dbgen.Dump(s.DB)
		if after != c.before {
			return c.failure("step %d: database differs after clean close + reopen: %s\n--- before close\n%s--- after reopen\n%s",
				n, firstDiff(c.before, after), c.before, after)
		}
	}
	// the model comparison localises a divergence; it is made at every state
	// write / reopen and at every 6th step (the dumps dominate the cost)
	if st.Kind != dbgen.KPersist && st.Kind != dbgen.KReopen && n%6 != 5 {
		return ""
	}
	if got, want := dbgen.DumpLogical(s.DB), s.W.Dump(); got != want {
		return c.failure("step %d: database differs from the model: %s\n--- database\n%s--- model\n%s",
			n, firstDiff(got, want), got, want)
	}
	return ""
}

// finish: full check of the (reopened) database.
func (c *c04Case) finish() string {
	if c.excluded {
		return ""
	}
	if err := c.s.DB.Check(true); err != nil && !checkFalsePositive(c.s.W, err) {
		return c.failure("db.Check(true) after the final reopen: %v", err)
	}
	return ""
}

// TestC04: clean close + reopen preserves the database exactly.
//
// G: lifecycle histories (dbgen): admin requests, transactions, explicit
// persists, several close/reopen cycles (some with a transaction holding
// uncommitted writes at close), always one more close/reopen at the end.
// O: canonical dump (with Info.Size) before Close == dump after
// OpenDbStor(check=true)+StartConcur; logical dump == model after every
// step; db.Check(true) at the end.
func TestC04(t *testing.T) {
	rec := ev.New("C04", "lifecycle histories of 20..100 steps over 4 tables x 6 columns (admin requests valid/invalid with foreign keys, views, renames, drops; insert/update/delete transactions committed/aborted/left open at close; explicit persists; 1..6 clean close+reopen cycles, HeapStor chunk 8..64 KB in quick, also mmap files in thorough). Non-trivial: >= 8 state-writing persists and an accepted table drop or rename since the previous open before some close; distinct = by history text.")
	rec.Assumptions = []string{
		"the model computes the effect of accepted admin requests from the documentation and follows the database in the accept/refuse verdict except for unambiguous cases",
		"deterministic mode: one update transaction at a time (no conflicts) and a merger round trip before every admin request (Database.AlterCreate snapshots the layer count before it synchronises with the merger, so free-running outcomes depend on goroutine timing; see the report)",
		"cascade-update targets with referencing rows are not deleted (F1 belongs to C08); where clauses avoid empty / zero-byte values on indexed columns (query-layer defect candidates reported to the query engine)",
		"db.Check(true) complaints 'foreign key not found' are ignored when a composite foreign key under a non-key index has an empty last value (known findings C12/truncfunc-*)",
	}
	defer rec.Write()
	jr := newJournal("C04-journal.json")
	defer func() {
		if !t.Failed() {
			jr.done()
		}
	}()
	if steps, ok := replaySteps(t); ok {
		c, err := newC04Case(rec, jr, dbgen.HeapOpener(replayChunk()), "heap")
		if err != nil {
			t.Fatal(err)
		}
		defer c.s.Close()
		for _, st := range steps {
			if msg := c.step(st); msg != "" {
				rt.Fail(t, rec, "replay", os.Getenv("VERIF_REPLAY"), msg)
				return
			}
		}
		if msg := c.finish(); msg != "" {
			rt.Fail(t, rec, "replay", os.Getenv("VERIF_REPLAY"), msg)
		}
		return
	}
	dir, err := os.MkdirTemp("", "verif-c04-")
	if err != nil {
		t.Fatal(err)
	}
	defer os.RemoveAll(dir)
	nfile := 0

	flag.Set("rapid.shrinktime", "5s") // rapid cannot shrink these interactive histories much; TestMinimize does
	rt.Check(t, rec, "reopen", 450, 3000, func(t *rapid.T) {
		jr.reset()
		var opener dbgen.Opener
		storage := "heap"
		if ev.Thorough() && gen.Chance(t, "mmap", 25) {
			nfile++
			path := filepath.Join(dir, fmt.Sprintf("c04-%d.db", nfile))
			defer os.Remove(path)
			opener = dbgen.FileOpener(path)
			storage = "mmap"
		} else {
			opener = dbgen.HeapOpener(draw(t, "chunk", []int{8192, 8192, 16384, 65536}))
		}
		c, err := newC04Case(rec, jr, opener, storage)
		if err != nil {
			t.Fatalf("create: %v", err)
		}
		s := c.s
		defer func() { c.s.Close() }()
		o := dbgen.DefaultOpts()
		o.Persist = draw(t, "persistweight", []int{20, 35, 50})
		o.PadClose = 25
		n := 20 + gen.Uniform(t, "nsteps", 81)
		for i := 0; i < n && !c.excluded; i++ {
			if msg := c.step(dbgen.GenStep(t, s.W, o)); msg != "" {
				t.Fatalf("%s", msg)
			}
		}
		// one more cycle, then the full check of the reopened database
		final := &dbgen.Step{Kind: dbgen.KReopen}
		if storage == "heap" && gen.Chance(t, "finalpad", 25) {
			final.Pad = 1 + gen.Uniform(t, "finalpadd", 17)
		}
		if len(s.W.Tables) > 0 && !c.excluded && rapid.Bool().Draw(t, "finalopen") {
			final.Acts = dbgen.GenActions(t, s.W, o, 2)
			for i := range final.Acts {
				final.Text += final.Acts[i].Text() + " ; "
			}
		}
		if msg := c.step(final); msg != "" {
			t.Fatalf("%s", msg)
		}
		if msg := c.finish(); msg != "" {
			t.Fatalf("%s", msg)
		}
		st := s.W.Stats
		rec.Case(c.nt && !c.excluded, jr.text())
		rec.LabelIf(st.Persists >= 8, "history_persists>=8")
		rec.LabelIf(st.Persists >= 20, "history_persists>=20")
		rec.LabelIf(st.Drops > 0, "history_with_table_drop")
		rec.LabelIf(st.Renames > 0, "history_with_rename")
		rec.LabelIf(st.ViewDrops > 0, "history_with_view_drop")
		rec.LabelIf(st.Reopens >= 3, "history_reopens>=3")
		rec.LabelIf(st.TransOpen > 0, "history_open_tran_at_close")
		rec.LabelIf(s.W.HasFk(), "final_state_has_fk")
		rec.LabelIf(s.W.HasDroppedCol(), "final_state_has_dropped_column")
		rec.LabelIf(s.W.NRows() >= 10, "final_state_rows>=10")
		rec.LabelIf(c.excluded, "history_cut_by_known_finding")
		rec.LabelIf(c.gapHits > 0, "history_close_state_ends_1..7_before_chunk_end")
		rec.Label("storage_" + storage)
		if c.nt && !c.excluded && rec.WantSample("nontrivial_history") {
			rec.Sample("nontrivial_history", map[string]any{"steps": jr.lines(), "final_dump": dbgen.Dump(s.DB)})
		}
	})
}
