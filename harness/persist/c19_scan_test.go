package persist

import (
	"bytes"
	"fmt"
	"testing"

	"github.com/apmckinlay/gsuneido/db19/stor"
	"pgregory.net/rapid"
	"verifharness/internal/ev"
	"verifharness/internal/gen"
	"verifharness/internal/rt"
)

// Sub-check "scan" of C19: stepping to the next / previous persisted state is
// Stor.FirstOffset / Stor.LastOffset looking for the state marker. Real
// histories rarely outgrow one storage chunk, so the two scans are judged
// here directly on heap stores with tiny chunks against a flat model.

const scanMagic = "\x01\x23\x45\x67\x89\xab\xcd\xef" // = db19 magic1

func c19ScanCase(t *rapid.T, rec *ev.Rec) {
	chunk := gen.Pick(t, "chunk", []int{32, 64, 128, 512})
	marker := scanMagic
	if gen.Chance(t, "shortmarker", 20) {
		marker = scanMagic[:1+gen.Uniform(t, "mlen", 7)]
	}
	st := stor.HeapStor(chunk)
	var flat []byte // model: every chunk in full, zero where nothing was allocated
	put := func(b []byte) {
		off, buf := st.Alloc(len(b))
		copy(buf, b)
		for uint64(len(flat)) < off+uint64(len(b)) {
			flat = append(flat, make([]byte, chunk)...)
		}
		copy(flat[off:], b)
	}
	put([]byte{0xee}) // offset 0 means "not found"
	nblocks := 2 + gen.Uniform(t, "nblocks", 40)
	nmark := 0
	for i := 0; i < nblocks; i++ {
		n := 1 + gen.Uniform(t, "blen", chunk)
		if gen.Chance(t, "small", 60) {
			n = 1 + gen.Uniform(t, "blen2", min(chunk, 24))
		}
		b := make([]byte, n)
		for j := range b {
			// filler from the marker's own bytes so that partial matches are common
			b[j] = scanMagic[gen.Uniform(t, "fill", 3)]
			if gen.Chance(t, "other", 30) {
				b[j] = 0x77
			}
		}
		if n >= len(marker) && gen.Chance(t, "mark", 45) {
			at := gen.Uniform(t, "at", n-len(marker)+1)
			if gen.Chance(t, "edge", 40) {
				at = []int{0, n - len(marker)}[gen.Uniform(t, "which", 2)]
			}
			copy(b[at:], marker)
			nmark++
		}
		put(b)
	}
	size := st.Size()
	nchunks := len(flat) / chunk
	// occurrences that lie inside one chunk (an allocation never straddles chunks)
	var occ []uint64
	for c := 0; c < nchunks; c++ {
		cb := flat[c*chunk : (c+1)*chunk]
		for i := 0; i+len(marker) <= len(cb); i++ {
			if bytes.Equal(cb[i:i+len(marker)], []byte(marker)) {
				occ = append(occ, uint64(c*chunk+i))
			}
		}
	}
	firstModel := func(off uint64) uint64 {
		for _, o := range occ {
			if o >= off {
				return o
			}
		}
		return 0
	}
	lastModel := func(off uint64) uint64 {
		best := uint64(0)
		for _, o := range occ {
			sameChunk := o/uint64(chunk) == (off-1)/uint64(chunk)
			if off > 0 && (o/uint64(chunk) < (off-1)/uint64(chunk) || sameChunk && o+uint64(len(marker)) <= off) {
				best = o
			}
		}
		return best
	}
	crossF, crossL := 0, 0
	check := func(off uint64) {
		if off < size {
			got, want := st.FirstOffset(off, marker), firstModel(off)
			if got != want {
				t.Fatalf("chunk %d, %d chunks, marker %x at %v: FirstOffset(%d) = %d, model %d", chunk, nchunks, marker, occ, off, got, want)
			}
			if want != 0 && want/uint64(chunk) != off/uint64(chunk) && off%uint64(chunk) != 0 {
				crossF++
			}
		}
		got, want := st.LastOffset(off, marker, nil), lastModel(off)
		if got != want {
			t.Fatalf("chunk %d, %d chunks, marker %x at %v: LastOffset(%d) = %d, model %d", chunk, nchunks, marker, occ, off, got, want)
		}
		if want != 0 && off > 0 && want/uint64(chunk) != (off-1)/uint64(chunk) {
			crossL++
		}
	}
	// the walks the callers do: NextState = FirstOffset(o+1), PrevState = LastOffset(o)
	for _, o := range occ {
		check(o)
		check(o + 1)
	}
	check(0)
	check(size)
	for i := 0; i < 12; i++ {
		check(uint64(gen.Uniform(t, "off", int(size)+1)))
	}
	for c := 1; c < nchunks; c++ {
		if uint64(c*chunk) <= size {
			check(uint64(c * chunk))
			check(uint64(c*chunk) - 1)
		}
	}
	nt := nchunks >= 3 && len(occ) >= 2 && crossF > 0 && crossL > 0
	rec.Case(nt, fmt.Sprintf("%d %x %x", chunk, marker, flat))
	rec.LabelIf(crossF > 0, "scan_forward_crosses_chunk_from_inside_a_chunk")
	rec.LabelIf(crossL > 0, "scan_backward_crosses_chunk")
	rec.LabelIf(nchunks >= 3, "scan_3+_chunks")
	if nt && rec.WantSample("scan") {
		rec.Sample("scan", map[string]any{"chunk": chunk, "chunks": nchunks, "marker_len": len(marker), "occurrences": occ, "size": size})
	}
}

func c19Scan(t *testing.T, rec *ev.Rec) {
	rt.Check(t, rec, "scan", 3000, 60000, func(t *rapid.T) { c19ScanCase(t, rec) })
}
