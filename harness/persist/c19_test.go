package persist

import (
	"encoding/binary"
	"flag"
	"fmt"
	"strings"
	"testing"
	"testing/synctest"
	"time"

	"github.com/apmckinlay/gsuneido/db19"
	"pgregory.net/rapid"
	"verifharness/internal/dbgen"
	"verifharness/internal/ev"
	"verifharness/internal/gen"
	"verifharness/internal/kf"
	"verifharness/internal/rt"
)

// stateRec is what the harness knows about one state record of the file.
type stateRec struct {
	t    int64  // fake clock (unix ms) when it was written
	off  uint64 // offset in the file (from db.Persist() / GetState after reopen)
	dump string // canonical dump of the live database at that moment
}

// inBubble runs body inside a fresh synctest bubble (fake clock starting at
// 2000-01-01). Panics of body (rapid's Fatalf among them) are carried out of
// the bubble and re-raised in the caller's goroutine. The code under test
// leaks goroutines that block forever (persist workers), which the bubble
// reports as a deadlock when body has returned: that report is expected and
// dropped.
func inBubble(t *testing.T, body func()) {
	var carried any
	func() {
		defer func() {
			if r := recover(); r != nil {
				if e, ok := r.(error); ok && strings.Contains(e.Error(), "blocked goroutines remain") {
					return
				}
				if s, ok := r.(fmt.Stringer); ok && strings.Contains(s.String(), "blocked goroutines remain") {
					return
				}
				if strings.Contains(fmt.Sprint(r), "blocked goroutines remain") {
					return
				}
				panic(r)
			}
		}()
		synctest.Test(t, func(*testing.T) {
			defer func() { carried = recover() }()
			body()
		})
	}()
	if carried != nil {
		// rapid's shrinker recognises "the same failure" by the traceback
		// only; all panics leave the bubble through here, so rapid's own
		// invalid-data signal (bit stream overrun while shrinking) must be
		// re-raised from a different function than real failures
		if strings.HasSuffix(fmt.Sprintf("%T", carried), "invalidData") {
			repanicInvalidData(carried)
		}
		repanicFailure(carried)
	}
}

//go:noinline
func repanicInvalidData(v any) { panic(v) }

//go:noinline
func repanicFailure(v any) { panic(v) }

// rawStateTime reads the timestamp of the state record at off straight from
// the storage (8 bytes big endian after the 8 byte marker).
func rawStateTime(db *db19.Database, off uint64) int64 {
	buf := db.Store.Data(off)
	return int64(binary.BigEndian.Uint64(buf[8:16]))
}

// TestC19: historical reads show the state as of the requested time.
//
// Every case runs in its own synctest bubble: time.Now() in writeState and
// in ReadTran.Asof is the bubble's fake clock, so the harness knows every
// state timestamp exactly and makes them strictly increasing with generated
// gaps (>= 1 ms) without sleeping. rapid itself runs outside the bubble.
func TestC19(t *testing.T) {
	rec := ev.New("C19", "lifecycle histories (admin requests, transactions, data containing the state marker bytes, close+reopen) with 2..12 state records written at generated fake-clock gaps of 1..50 ms in a per-case synctest bubble; after the history (and between its halves) a read transaction gets up to 20 requests: Asof(t) for t in {t_i, t_i-1, t_i+1, midpoints, before the first state, now, future}, Asof(-1), Asof(+1), Asof(0). Non-trivial: >= 3 state records with pairwise different dumps among neighbours and a step sequence that changes direction; distinct = history text + request list. Sub-check 'scan' (3000 quick / 60 000 thorough cases): Stor.FirstOffset / Stor.LastOffset (what NextState / PrevState / stateAsof use to find state records) on heap stores with 32..512 byte chunks filled by Alloc with 2..41 blocks of marker-like filler and markers at generated positions (block start/end favoured; the real 8-byte state marker or a 1..7 byte prefix); every occurrence o is walked with FirstOffset(o), FirstOffset(o+1), LastOffset(o), LastOffset(o+1), plus offsets 0, size, every chunk boundary and boundary-1 and 12 random offsets, against a flat model of the chunks; non-trivial there: >= 3 chunks, >= 2 occurrences, a forward scan that starts inside a chunk and finds its answer in a later chunk, and a backward scan that crosses a chunk.")
	rec.Assumptions = []string{
		"oracle: the dump through the moved read transaction equals the dump of the live database recorded when that state was written; expected state index computed from the recorded (fake) times",
		"the returned time is asserted for past states (== recorded time, which is also read back raw from the file); for 'now or later' only the contents are asserted",
		"state offsets come from db.Persist() / GetState().Off, not from the scan functions under test",
	}
	defer rec.Write()
	jr := newJournal("C19-journal.json")
	defer func() {
		if !t.Failed() {
			jr.done()
		}
	}()
	c19Scan(t, rec)
	flag.Set("rapid.shrinktime", "5s") // rapid cannot shrink these interactive histories much; TestMinimize does
	rt.Check(t, rec, "asof", 500, 4000, func(rt_ *rapid.T) {
		inBubble(t, func() { c19Case(rt_, rec, jr) })
	})
}

func nowMs() int64 { return time.Now().UnixMilli() }

func c19Case(t *rapid.T, rec *ev.Rec, jr *journal) {
	jr.reset()
	s, err := dbgen.NewSession(dbgen.HeapOpener(draw(t, "chunk", []int{8192, 8192, 16384})))
	if err != nil {
		t.Fatalf("create: %v", err)
	}
	defer func() { s.Close() }()
	o := dbgen.DefaultOpts()
	o.Admin, o.Tran, o.Persist, o.Reopen, o.Sleep = 18, 40, 22, 3, 17
	o.Invalid, o.Long = 5, false
	magic := gen.Chance(t, "magic", 50)
	if magic {
		o.Magic = db19.VerifMagic1
	}
	s.Sleep = func(ms int) { time.Sleep(time.Duration(ms) * time.Millisecond) }

	var states []stateRec
	var requests []string
	var before string
	excluded := false
	fail := func(format string, args ...any) {
		t.Fatalf("%s\nstates: %s\nmarker occurrences in the file: %s\nrequests: %s\nhistory:\n%s", fmt.Sprintf(format, args...), statesText(states), rawMarkers(s.DB), strings.Join(requests, " "), jr.text())
	}
	s.BeforeClose = func() { before = dbgen.Dump(s.DB) }
	s.OnState = func(off uint64, closing bool) {
		if len(states) > 0 && states[len(states)-1].off == off {
			return // nothing was written
		}
		if off == 0 {
			return
		}
		st := stateRec{t: nowMs(), off: off}
		if closing {
			st.dump = before
		} else {
			st.dump = dbgen.Dump(s.DB)
		}
		if raw := rawStateTime(s.DB, off); raw != st.t {
			fail("state record at %d carries time %d, the (fake) clock says %d", off, raw, st.t)
		}
		states = append(states, st)
	}
	apply := func(st *dbgen.Step) {
		if excluded {
			return
		}
		if st.Kind == dbgen.KPersist || st.Kind == dbgen.KReopen {
			if knownFlatten(rec, s) {
				excluded = true
				return
			}
			// strictly increasing state times
			if len(states) > 0 && nowMs() <= states[len(states)-1].t {
				time.Sleep(time.Millisecond)
			}
		}
		if knownStep(rec, s, st) {
			return
		}
		// ensure / alter create persist before they build an index on a
		// populated table (db19 f849650): that state holds the database as
		// it is before the request
		pre, mayBuild := "", false
		if st.Kind == dbgen.KAdmin && (st.Admin.Kind == "ensure" || st.Admin.Kind == "altercreate") {
			mayBuild = true // (the dump of an empty database is "")
			if len(states) > 0 && nowMs() <= states[len(states)-1].t {
				time.Sleep(time.Millisecond)
			}
			s.Quiesce()
			pre = dbgen.Dump(s.DB)
		}
		jr.add(st)
		res := s.Apply(st)
		if mayBuild {
			if off := s.DB.GetState().Off; off != s.LastOff {
				s.LastOff = off
				sr := stateRec{t: nowMs(), off: off, dump: pre}
				if raw := rawStateTime(s.DB, off); raw != sr.t {
					fail("state record at %d carries time %d, the (fake) clock says %d", off, raw, sr.t)
				}
				states = append(states, sr)
				rec.Label("state_written_by_index_build")
			}
		}
		if knownBadTail(rec, res) {
			excluded = true
			return
		}
		rec.Label(stepLabel(st, res))
		if res.Err != "" {
			// the lifecycle model lost track: C04's business, not an as-of matter
			rec.Label("model_diverged")
			excluded = true
		}
	}

	changedDirection := false
	// query issues n requests on a fresh read transaction of the current db
	query := func(n int) {
		if excluded || len(states) == 0 {
			return
		}
		tran := s.DB.NewReadTran()
		live := dbgen.Dump(s.DB)
		// occurrences of the marker bytes that are not state records (data,
		// index nodes): finding C19/marker-in-data
		var fakes []uint64
		for _, m := range markerOffsets(s.DB) {
			real := false
			for _, st := range states {
				if st.off == m {
					real = true
				}
			}
			if !real {
				fakes = append(fakes, m)
			}
		}
		size := s.DB.Store.Size()
		crosses := func(lo, hi uint64) bool { // a fake marker in (lo, hi)
			for _, f := range fakes {
				if lo < f && f < hi {
					if e, ok := kf.Known("C19", "marker-in-data"); ok {
						rec.Excluded("marker-in-data")
						rec.Known(e.What)
						return true
					}
				}
			}
			return false
		}
		pos := -1 // -1: not positioned (fresh), len(states): the current (live) state
		lastDir := 0
		beforeFirst := false // positioned by Asof(t) with t before the first state
		check := func(what string, want string) {
			if got := dbgen.DumpTran(tran, true); got != want {
				fail("%s: contents differ: %s\n--- seen through the read transaction\n%s--- expected\n%s", what, firstDiff(got, want), got, want)
			}
		}
		for i := 0; i < n; i++ {
			switch k := gen.Weighted(t, "reqkind", []int{50, 20, 20, 10}); k {
			case 0: // Asof(time)
				tt, desc := drawTime(t, states)
				if tt < nowMs() {
					lo := uint64(0) // the backward scan stops at the target state
					if tt >= states[0].t {
						for i := range states {
							if states[i].t <= tt {
								lo = states[i].off
							}
						}
					}
					if crosses(lo, size) {
						continue
					}
				}
				requests = append(requests, "asof("+desc+")")
				var got int64
				msg, _, bad := callPanics(func() { got = tran.Asof(tt) })
				if bad {
					fail("Asof(%d) [%s] panicked: %s", tt, desc, msg)
				}
				beforeFirst = tt < states[0].t
				if tt >= nowMs() {
					pos = len(states)
					check(fmt.Sprintf("Asof(%d) [%s, not before now=%d]", tt, desc, nowMs()), live)
					rec.Label("request_asof_now_or_future")
					continue
				}
				j := 0
				for i := range states {
					if states[i].t <= tt {
						j = i
					}
				}
				if tt < states[0].t {
					rec.Label("request_asof_before_first_state")
				} else {
					rec.Label("request_asof_past")
				}
				if got != states[j].t {
					fail("Asof(%d) [%s] returned time %d, expected state %d at %d", tt, desc, got, j, states[j].t)
				}
				pos = j
				check(fmt.Sprintf("Asof(%d) [%s] => state %d", tt, desc, j), states[j].dump)
			case 1, 2: // step
				dir := -1
				if k == 2 {
					dir = +1
				}
				if beforeFirst {
					// finding C19/asof-before-first-off0: stateAsof returns Off 0
					// for a time before the first state, so a following step
					// starts from "no position"
					if e, ok := kf.Known("C19", "asof-before-first-off0"); ok {
						rec.Excluded("asof-before-first-off0")
						rec.Known(e.What)
						continue
					}
				}
				{
					cur := pos
					if cur == len(states) {
						cur = len(states) - 1
					}
					var lo, hi uint64
					switch {
					case pos == -1 && dir == -1:
						lo, hi = states[len(states)-1].off, size
					case pos == -1 && dir == +1:
						lo, hi = 0, states[0].off
					case dir == -1:
						hi = states[cur].off
						if cur > 0 {
							lo = states[cur-1].off
						}
					default:
						lo, hi = states[cur].off, size
						if cur+1 < len(states) {
							hi = states[cur+1].off
						}
					}
					if crosses(lo, hi) {
						continue
					}
				}
				requests = append(requests, fmt.Sprintf("asof(%+d)", dir))
				if lastDir != 0 && lastDir != dir {
					changedDirection = true
				}
				lastDir = dir
				var got int64
				msg, _, bad := callPanics(func() { got = tran.Asof(int64(dir)) })
				if bad {
					fail("Asof(%+d) from position %d panicked: %s", dir, pos, msg)
				}
				cur := pos
				if cur == len(states) { // the live state sits at the latest state record
					cur = len(states) - 1
				}
				next := cur + dir
				switch {
				case pos == -1 && dir == -1:
					next = len(states) - 1
				case pos == -1 && dir == +1:
					next = 0
				}
				if next < 0 || next >= len(states) {
					rec.Label("request_step_at_end")
					if got != 0 {
						fail("Asof(%+d) from position %d (of %d states) returned %d, expected 0 (no such state)", dir, pos, len(states), got)
					}
					want := live
					if pos >= 0 && pos < len(states) {
						want = states[pos].dump
					}
					check(fmt.Sprintf("Asof(%+d) at the end (position %d) must not move", dir, pos), want)
					continue
				}
				rec.Label("request_step")
				if got != states[next].t {
					fail("Asof(%+d) from position %d returned time %d, expected state %d at %d", dir, pos, got, next, states[next].t)
				}
				pos = next
				check(fmt.Sprintf("Asof(%+d) => state %d", dir, next), states[next].dump)
			default: // Asof(0) reports the current time of the transaction
				requests = append(requests, "asof(0)")
				got := tran.Asof(0)
				if pos >= 0 && pos < len(states) && got != states[pos].t {
					fail("Asof(0) at position %d returned %d, expected %d", pos, got, states[pos].t)
				}
				if pos == -1 && got != 0 {
					fail("Asof(0) on a fresh transaction returned %d", got)
				}
			}
		}
	}

	n := 15 + gen.Uniform(t, "nsteps", 46)
	for i := 0; i < n && !excluded && len(states) < 12; i++ {
		apply(dbgen.GenStep(t, s.W, o))
		if i == n/2 {
			query(rapid.IntRange(0, 8).Draw(t, "nreq1"))
		}
	}
	// make sure the last changes are in a state, then the main request batch
	apply(&dbgen.Step{Kind: dbgen.KSleep, GapMs: rapid.IntRange(1, 50).Draw(t, "lastgap")})
	apply(&dbgen.Step{Kind: dbgen.KPersist})
	if gen.Chance(t, "finalreopen", 30) {
		apply(&dbgen.Step{Kind: dbgen.KSleep, GapMs: 3})
		apply(&dbgen.Step{Kind: dbgen.KReopen})
	}
	apply(&dbgen.Step{Kind: dbgen.KSleep, GapMs: rapid.IntRange(1, 20).Draw(t, "querygap")})
	query(5 + gen.Uniform(t, "nreq2", 16))

	differ := 0
	for i := 1; i < len(states); i++ {
		if states[i].dump != states[i-1].dump {
			differ++
		}
	}
	nt := !excluded && len(states) >= 3 && differ >= 2 && changedDirection
	rec.Case(nt, jr.text()+strings.Join(requests, " "))
	rec.LabelIf(len(states) >= 3, "history_states>=3")
	rec.LabelIf(len(states) >= 8, "history_states>=8")
	rec.LabelIf(changedDirection, "steps_change_direction")
	rec.LabelIf(s.W.Stats.Reopens > 0, "history_with_reopen")
	rec.LabelIf(magic, "history_with_marker_bytes_in_data")
	rec.LabelIf(excluded, "history_cut_by_known_finding")
	if nt && rec.WantSample("nontrivial_history") {
		rec.Sample("nontrivial_history", map[string]any{"steps": jr.lines(), "states": statesText(states), "requests": requests})
	}
}

func statesText(states []stateRec) string {
	parts := make([]string, len(states))
	for i, st := range states {
		parts[i] = fmt.Sprintf("#%d t=%d off=%d", i, st.t, st.off)
	}
	return strings.Join(parts, ", ")
}

// drawTime draws a requested time around the recorded state times.
func drawTime(t *rapid.T, states []stateRec) (int64, string) {
	i := gen.Uniform(t, "ti", len(states))
	ti := states[i].t
	switch gen.Uniform(t, "timeclass", 8) {
	case 0:
		return ti, fmt.Sprintf("t%d", i)
	case 1:
		return ti - 1, fmt.Sprintf("t%d-1", i)
	case 2:
		return ti + 1, fmt.Sprintf("t%d+1", i)
	case 3:
		if i+1 < len(states) {
			return (ti + states[i+1].t) / 2, fmt.Sprintf("mid(t%d,t%d)", i, i+1)
		}
		return ti, fmt.Sprintf("t%d", i)
	case 4:
		return states[0].t - int64(1+gen.Uniform(t, "early", 100000)), "before t0"
	case 5:
		return nowMs(), "now"
	case 6:
		return nowMs() + int64(1+gen.Uniform(t, "future", 100000)), "future"
	default:
		return nowMs() - 1, "now-1"
	}
}

func callPanics(fn func()) (msg string, rte bool, panicked bool) {
	defer func() {
		if e := recover(); e != nil {
			panicked = true
			msg = fmt.Sprint(e)
		}
	}()
	fn()
	return
}

// markerOffsets: offsets of every occurrence of the state marker bytes.
func markerOffsets(db *db19.Database) []uint64 {
	var offs []uint64
	size := db.Store.Size()
	for off := uint64(0); off < size; {
		buf := db.Store.Data(off)
		if uint64(len(buf)) > size-off {
			buf = buf[:size-off]
		}
		i := strings.Index(string(buf), db19.VerifMagic1)
		if i < 0 {
			off += uint64(len(buf))
			continue
		}
		offs = append(offs, off+uint64(i))
		off += uint64(i) + 1
	}
	return offs
}

// rawMarkers lists every occurrence of the state marker in the storage with
// the 8 bytes that follow it read as a time (debugging aid for failure
// messages; own scan over Store.Data, not the functions under test).
func rawMarkers(db *db19.Database) string {
	var sb strings.Builder
	size := db.Store.Size()
	for off := uint64(0); off < size; {
		buf := db.Store.Data(off)
		if uint64(len(buf)) > size-off {
			buf = buf[:size-off]
		}
		i := strings.Index(string(buf), db19.VerifMagic1)
		if i < 0 {
			off += uint64(len(buf))
			continue
		}
		at := off + uint64(i)
		if i+16 <= len(buf) {
			fmt.Fprintf(&sb, "@%d t=%d ", at, int64(binary.BigEndian.Uint64(buf[i+8:i+16])))
		} else {
			fmt.Fprintf(&sb, "@%d (at chunk end) ", at)
		}
		off = at + 1
	}
	return sb.String()
}
