package persist

import (
	"flag"
	"fmt"
	"os"
	"slices"
	"strings"
	"testing"

	"pgregory.net/rapid"
	"verifharness/internal/dbgen"
	"verifharness/internal/ev"
	"verifharness/internal/gen"
	"verifharness/internal/rt"
)

// c21Case is one admin-heavy history under the metadata invariants.
type c21Case struct {
	rec      *ev.Rec
	s        *dbgen.Session
	jr       *journal
	excluded bool
	diverged bool // the model lost track (data verdict mismatch): stop, not a C21 matter
	nchecked int
	// refusals that happened late (final validation / foreign key fix-up /
	// index build) on a table that is on either side of a foreign key
	lateFk      int
	refusedFk   int
	lateLowerFk int // ... of a request that involves an x_lower! column
}

// lateRefusal recognises refusals that are raised after the request has
// already been partly processed (metaUpdate.validate, createFkeys, index
// build), by their message.
func lateRefusal(msg string) bool {
	for _, m := range []string{"_lower! nonexistent column", "foreign key references nonexistent", "foreign key must point to key",
		"IIndex mismatch", "can't create foreign key to nonexistent", "cannot build index", "invalid index column",
		"key required in", "index entry too large", "duplicate derived column", "duplicate column in"} {
		if strings.Contains(msg, m) {
			return true
		}
	}
	return false
}

// requestOnFk: the request addresses a table on either side of a foreign
// key, or carries a foreign key itself.
func requestOnFk(w *dbgen.World, a *dbgen.Admin) bool {
	if w.FkSide(a.Table) {
		return true
	}
	for _, ix := range a.Idx {
		if ix.Fk != nil {
			return true
		}
	}
	return false
}

func newC21Case(rec *ev.Rec, jr *journal, opener dbgen.Opener) (*c21Case, error) {
	s, err := dbgen.NewSession(opener)
	if err != nil {
		return nil, err
	}
	return &c21Case{rec: rec, s: s, jr: jr}, nil
}

func (c *c21Case) failure(format string, args ...any) string {
	return fmt.Sprintf("%s\nhistory:\n%s", fmt.Sprintf(format, args...), c.jr.text())
}

// invariants checks the model-free metadata invariants on the current state.
func (c *c21Case) invariants(when string) string {
	if problems := dbgen.CheckMeta(c.s.DB.NewReadTran()); len(problems) > 0 {
		return c.failure("%s: metadata inconsistent:\n  %s\n--- dump\n%s", when, strings.Join(problems, "\n  "), dbgen.Dump(c.s.DB))
	}
	c.nchecked++
	return ""
}

func (c *c21Case) step(st *dbgen.Step) string {
	s := c.s
	if c.excluded || c.diverged {
		return ""
	}
	if st.Kind == dbgen.KPersist || st.Kind == dbgen.KReopen {
		if knownFlatten(c.rec, s) {
			c.excluded = true
			return ""
		}
	}
	if knownStep(c.rec, s, st) {
		return ""
	}
	c.jr.add(st)
	n := len(c.jr.steps) - 1
	var recsBefore map[string][]string
	var dumpBefore string
	onFk := false
	if st.Kind == dbgen.KAdmin {
		onFk = requestOnFk(s.W, st.Admin)
		s.Quiesce()
		rtBefore := s.DB.NewReadTran()
		recsBefore = dbgen.TableRecords(rtBefore)
		dumpBefore = dbgen.DumpTran(rtBefore, true)
	}
	res := s.Apply(st)
	if knownBadTail(c.rec, res) {
		c.excluded = true
		return ""
	}
	c.rec.Label(stepLabel(st, res))
	if st.Kind != dbgen.KAdmin && res.Err != "" {
		c.diverged = true
		c.rec.Label("model_diverged_on_data_step")
		return ""
	}
	when := fmt.Sprintf("step %d (%s %s)", n, st.Kind, st.Text)
	if msg := c.invariants(when); msg != "" {
		return msg
	}
	if st.Kind == dbgen.KAdmin {
		rtAfter := s.DB.NewReadTran()
		if !res.Accepted {
			if onFk {
				c.refusedFk++
				c.rec.Label("refused_on_fk_table")
				if lateRefusal(res.Refusal) {
					c.lateFk++
					c.rec.Label("refused_late_on_fk_table")
					c.rec.Label("refused_late_on_fk_table_" + st.Admin.Kind)
					if strings.Contains(st.Text, "_lower!") || strings.Contains(res.Refusal, "_lower!") {
						c.lateLowerFk++
						c.rec.Label("refused_late_on_fk_table_involving_lower")
					}
				}
			} else if lateRefusal(res.Refusal) {
				c.rec.Label("refused_late_other_table")
			}
			// a refused request changes nothing: schema, links in both
			// directions, Info, rows of ALL tables (full dump), and the
			// invariants above were evaluated on all tables as well
			if after := dbgen.DumpTran(rtAfter, true); after != dumpBefore {
				return c.failure("%s: refused (%s) but the database changed: %s\n--- before\n%s--- after\n%s",
					when, res.Refusal, firstDiff(dumpBefore, after), dumpBefore, after)
			}
			return ""
		}
		// the stored records of every surviving table are unchanged
		recsAfter := dbgen.TableRecords(rtAfter)
		for name, after := range recsAfter {
			before, existed := recsBefore[name]
			if !existed && st.Admin.Kind == "rename" && st.Admin.To[0] == name {
				before, existed = recsBefore[st.Admin.Table]
			}
			if !existed {
				if len(after) != 0 {
					return c.failure("%s: new table %s has %d records", when, name, len(after))
				}
				continue
			}
			if st.Admin.Kind == "drop" && st.Admin.Table == name {
				continue // dropped and (not possible in one request) recreated
			}
			if !slices.Equal(before, after) {
				return c.failure("%s: stored records of %s changed: %d before, %d after", when, name, len(before), len(after))
			}
		}
	}
	return ""
}

func (c *c21Case) finish() string {
	if c.excluded || c.diverged {
		return ""
	}
	if err := c.s.DB.Check(true); err != nil && !checkFalsePositive(c.s.W, err) {
		return c.failure("db.Check(true) at the end: %v", err)
	}
	return ""
}

// TestC21: schema changes keep metadata consistent.
//
// G: admin-heavy lifecycle histories (valid and invalid requests, foreign
// keys including self references, data in the tables, persists, reopen).
// O: model-free invariants (dbgen.CheckMeta) after every request, accepted
// or refused; a refused request changes nothing; stored records of surviving
// tables unchanged by admin requests; again after persist + reopen
// (linkFkeys); db.Check(true) at the end.
func TestC21(t *testing.T) {
	rec := ev.New("C21", "admin-heavy histories of 10..45 steps (60% admin requests: create/ensure/alter create|drop|rename/rename/view/drop, 12..30% drawn without regard to validity, foreign keys incl. self references in 45% of new indexes; 20..50% of the requests aimed at the foreign key / derived column neighbourhood: x_lower! columns and indexes on foreign key columns, renames and drops of columns used by a foreign key index and a derived column at once, a late-failing part after a valid foreign key part, renames of tables on either side of a foreign key; 25% data transactions; persists; close+reopen) with the invariants checked after every step and the full dump compared around every refused request. Non-trivial: >= 1 accepted rename / drop / alter drop on a table that is on either side of a foreign key; distinct = by history text.")
	rec.Assumptions = []string{
		"the invariants are model-free (dbgen.CheckMeta); the lifecycle model is only used to generate fitting requests and to keep data actions legal",
		"requests in the input classes of listed known findings (C21/selffk-index-drop, C21/alter-drop-two-fks-same-key, C21/rename-lower-base, C21/rename-stale-index-fields) are not issued",
	}
	defer rec.Write()
	jr := newJournal("C21-journal.json")
	defer func() {
		if !t.Failed() {
			jr.done()
		}
	}()
	if steps, ok := replaySteps(t); ok {
		c, err := newC21Case(rec, jr, dbgen.HeapOpener(replayChunk()))
		if err != nil {
			t.Fatal(err)
		}
		defer c.s.Close()
		for _, st := range steps {
			if msg := c.step(st); msg != "" {
				rt.Fail(t, rec, "replay", os.Getenv("VERIF_REPLAY"), msg)
				return
			}
		}
		if msg := c.finish(); msg != "" {
			rt.Fail(t, rec, "replay", os.Getenv("VERIF_REPLAY"), msg)
		}
		return
	}
	totalChecks := 0
	flag.Set("rapid.shrinktime", "5s") // rapid cannot shrink these interactive histories much; TestMinimize does
	rt.Check(t, rec, "invariants", 600, 5000, func(t *rapid.T) {
		jr.reset()
		c, err := newC21Case(rec, jr, dbgen.HeapOpener(8192))
		if err != nil {
			t.Fatalf("create: %v", err)
		}
		s := c.s
		defer func() { c.s.Close() }()
		o := dbgen.DefaultOpts()
		o.Admin, o.Tran, o.Persist, o.Reopen = 60, 25, 10, 5
		o.Invalid = draw(t, "invalid", []int{12, 20, 30})
		o.Long = false
		o.FkStress = draw(t, "fkstress", []int{20, 35, 50})
		n := 10 + gen.Uniform(t, "nsteps", 36)
		for i := 0; i < n && !c.excluded && !c.diverged; i++ {
			if msg := c.step(dbgen.GenStep(t, s.W, o)); msg != "" {
				t.Fatalf("%s", msg)
			}
		}
		if msg := c.step(&dbgen.Step{Kind: dbgen.KReopen}); msg != "" {
			t.Fatalf("%s", msg)
		}
		if msg := c.finish(); msg != "" {
			t.Fatalf("%s", msg)
		}
		st := s.W.Stats
		nt := st.FkTouch > 0 && !c.excluded && !c.diverged
		rec.Case(nt, jr.text())
		totalChecks += c.nchecked
		rec.LabelN("invariant_evaluations", c.nchecked)
		rec.LabelIf(c.lateFk > 0, "history_late_refusal_on_fk_table")
		rec.LabelIf(c.lateFk >= 3, "history_late_refusal_on_fk_table>=3")
		rec.LabelIf(c.lateLowerFk > 0, "history_late_refusal_on_fk_table_involving_lower")
		rec.LabelIf(st.FkTouch > 0, "history_rename_or_drop_touching_fk")
		rec.LabelIf(st.FkTouch >= 3, "history_rename_or_drop_touching_fk>=3")
		rec.LabelIf(st.Drops > 0, "history_with_table_drop")
		rec.LabelIf(st.Renames > 0, "history_with_rename")
		rec.LabelIf(s.W.HasFk(), "final_state_has_fk")
		rec.LabelIf(hasSelfFk(s.W), "final_state_has_self_fk")
		rec.LabelIf(st.AdminRefused > 0, "history_with_refused_request")
		rec.LabelIf(c.excluded, "history_cut_by_known_finding")
		if nt && rec.WantSample("nontrivial_history") {
			rec.Sample("nontrivial_history", map[string]any{"steps": jr.lines(), "final_dump": dbgen.Dump(s.DB)})
		}
	})
}

func hasSelfFk(w *dbgen.World) bool {
	for _, t := range w.Tables {
		for _, ix := range t.Idx {
			if ix.Fk != nil && ix.Fk.Table == t.Name {
				return true
			}
		}
	}
	return false
}
