// Package persist: lifecycle / metadata checks (C04 close+reopen, C19 as-of,
// C21 schema consistency) on top of the shared generator in internal/dbgen.
package persist

import (
	"encoding/json"
	"fmt"
	"os"
	"runtime/debug"
	"strings"

	"pgregory.net/rapid"
	"verifharness/internal/dbgen"
	"verifharness/internal/ev"
	"verifharness/internal/kf"
	"verifharness/internal/rt"
)

// journal keeps the steps of the running case on disk (written *before* a
// step is executed) so that a process death inside the code under test
// (log.Fatal in the merger/checker) leaves a replay artefact.
type journal struct {
	path  string
	f     *os.File
	steps []*dbgen.Step
}

func newJournal(name string) *journal {
	// many goroutines (8 persist workers per opened database) are leaked by
	// the code under test; fewer GC cycles keep their stack scans affordable
	debug.SetGCPercent(400)
	return &journal{path: rt.ReplayOut(name)}
}

// reset starts the journal of a new case (JSON lines, one step per line;
// readSteps also accepts a JSON list).
func (j *journal) reset() {
	j.steps = j.steps[:0]
	if j.f != nil {
		j.f.Close()
	}
	j.f, _ = os.Create(j.path)
}

func (j *journal) add(st *dbgen.Step) {
	j.steps = append(j.steps, st)
	if j.f == nil && j.path != os.DevNull {
		j.f, _ = os.Create(j.path)
	}
	if j.f != nil {
		if b, err := json.Marshal(st); err == nil {
			j.f.Write(append(b, '\n'))
		}
	}
}

func (j *journal) done() {
	if j.f != nil {
		j.f.Close()
		j.f = nil
	}
	os.Remove(j.path)
}

// text renders the history for failure messages and samples.
func (j *journal) text() string {
	var sb strings.Builder
	for i, st := range j.steps {
		fmt.Fprintf(&sb, "%3d %s", i, st.Kind)
		if st.Text != "" {
			fmt.Fprintf(&sb, " %s", st.Text)
		}
		if st.End != "" {
			fmt.Fprintf(&sb, " [%s]", st.End)
		}
		if st.Kind == dbgen.KSleep {
			fmt.Fprintf(&sb, " %dms", st.GapMs)
		}
		sb.WriteByte('\n')
	}
	return sb.String()
}

func (j *journal) lines() []string {
	return strings.Split(strings.TrimRight(j.text(), "\n"), "\n")
}

// knownFlatten handles the findings that strike at a state write
// (C04/flatten-to-empty, C04/new-index-not-saved): when the next state write
// would hit one and the finding is listed, the case is cut short (returns
// true) and counted as excluded.
func knownFlatten(rec *ev.Rec, s *dbgen.Session) bool {
	if hit, _ := dbgen.FlattenToEmpty(s.DB); hit {
		if e, ok := kf.Known("C04", "flatten-to-empty"); ok {
			rec.Excluded("flatten-to-empty")
			rec.Known(e.What)
			return true
		}
	}
	if hit, _ := dbgen.StaleNewIndex(s.W); hit {
		if e, ok := kf.Known("C04", "new-index-not-saved"); ok {
			rec.Excluded("new-index-not-saved")
			rec.Known(e.What)
			return true
		}
	}
	return false
}

// knownStep reports whether the generated step belongs to the input class
// of a listed known finding (then it is not issued, and counted).
func knownStep(rec *ev.Rec, s *dbgen.Session, st *dbgen.Step) bool {
	w := s.W
	if st.Kind == dbgen.KAdmin && dbgen.DropLosesInfoTombstone(s.DB, st.Admin) {
		if e, ok := kf.Known("C04", "drop-info-created-mixup"); ok {
			rec.Excluded("drop-info-created-mixup")
			rec.Known(e.What)
			return true
		}
	}
	if st.Kind == dbgen.KAdmin && dbgen.DropsSelfFkIndex(w, st.Admin) {
		if e, ok := kf.Known("C21", "selffk-index-drop"); ok {
			rec.Excluded("selffk-index-drop")
			rec.Known(e.What)
			return true
		}
	}
	if st.Kind == dbgen.KAdmin && dbgen.AlterDropWithTwoFksToSameKey(w, st.Admin) {
		if e, ok := kf.Known("C21", "alter-drop-two-fks-same-key"); ok {
			rec.Excluded("alter-drop-two-fks-same-key")
			rec.Known(e.What)
			return true
		}
	}
	if st.Kind == dbgen.KAdmin && dbgen.IntroducesStaleIndexName(w, st.Admin) {
		if e, ok := kf.Known("C21", "rename-stale-index-fields"); ok {
			rec.Excluded("rename-stale-index-fields")
			rec.Known(e.What)
			return true
		}
	}
	if st.Kind == dbgen.KAdmin && dbgen.RefusedBuildLeaksFlags(w, st.Admin) {
		if e, ok := kf.Known("C21", "refused-build-leaks-primary"); ok {
			rec.Excluded("refused-build-leaks-primary")
			rec.Known(e.What)
			return true
		}
	}
	if st.Kind == dbgen.KAdmin && dbgen.AlterDropKeyInsideUnique(w, st.Admin) {
		if e, ok := kf.Known("C21", "alter-drop-key-stale-containskey"); ok {
			rec.Excluded("alter-drop-key-stale-containskey")
			rec.Known(e.What)
			return true
		}
	}
	if st.Kind == dbgen.KAdmin && dbgen.RenamesLowerBase(w, st.Admin) {
		if e, ok := kf.Known("C21", "rename-lower-base"); ok {
			rec.Excluded("rename-lower-base")
			rec.Known(e.What)
			return true
		}
	}
	return false
}

// stepLabel classifies a step result for the label distribution.
func stepLabel(st *dbgen.Step, res dbgen.Result) string {
	switch st.Kind {
	case dbgen.KAdmin:
		v := "refused"
		if res.Accepted {
			v = "accepted"
		} else if res.RuntimeError {
			v = "refused_runtime_error"
		}
		return "admin_" + st.Admin.Kind + "_" + v
	case dbgen.KTran:
		switch {
		case res.Accepted:
			return "tran_committed"
		case res.Refusal != "":
			return "tran_refused_action"
		}
		return "tran_aborted"
	case dbgen.KPersist:
		if res.NewState {
			return "persist_new_state"
		}
		return "persist_noop"
	case dbgen.KReopen:
		if len(st.Acts) > 0 {
			return "reopen_with_open_tran"
		}
		return "reopen"
	}
	return st.Kind
}

func draw[T any](t *rapid.T, label string, xs []T) T {
	return xs[rapid.IntRange(0, len(xs)-1).Draw(t, label)]
}

// firstDiff returns the first differing line of two dumps.
func firstDiff(a, b string) string {
	la, lb := strings.Split(a, "\n"), strings.Split(b, "\n")
	for i := 0; i < len(la) || i < len(lb); i++ {
		var x, y string
		if i < len(la) {
			x = la[i]
		}
		if i < len(lb) {
			y = lb[i]
		}
		if x != y {
			return fmt.Sprintf("line %d: %q vs %q", i+1, x, y)
		}
	}
	return "(equal)"
}

// checkFalsePositive recognises the known false positive of the full
// checker (reported by the txn engine): "foreign key not found" for a row
// whose composite foreign key under a non-unique index is all empty.
func checkFalsePositive(w *dbgen.World, err error) bool {
	if !strings.Contains(err.Error(), "foreign key not found") {
		return false
	}
	return w.HasEmptyCompositeFk()
}

// replaySteps reads the journal named by VERIF_REPLAY (a JSON list of
// steps as written by journal.add).
func replaySteps(t interface{ Fatalf(string, ...any) }) ([]*dbgen.Step, bool) {
	path := os.Getenv("VERIF_REPLAY")
	if path == "" || !strings.HasSuffix(path, ".json") {
		return nil, false
	}
	steps, err := readSteps(path)
	if err != nil {
		t.Fatalf("replay %s: %v", path, err)
	}
	return steps, true
}

func readSteps(path string) ([]*dbgen.Step, error) {
	b, err := os.ReadFile(path)
	if err != nil {
		return nil, err
	}
	var steps []*dbgen.Step
	if len(b) > 0 && b[0] == '[' {
		if err := json.Unmarshal(b, &steps); err != nil {
			return nil, err
		}
		return steps, nil
	}
	for _, line := range strings.Split(string(b), "\n") {
		if strings.TrimSpace(line) == "" {
			continue
		}
		st := &dbgen.Step{}
		if err := json.Unmarshal([]byte(line), st); err != nil {
			return nil, err
		}
		steps = append(steps, st)
	}
	return steps, nil
}

// replayChunk: heap chunk size for replays (VERIF_REPLAY_CHUNK, default 8192).
func replayChunk() int {
	n := 8192
	fmt.Sscan(os.Getenv("VERIF_REPLAY_CHUNK"), &n)
	return n
}

// knownBadTail recognises finding C04/tail-at-chunk-start in the result of
// a reopen step.
func knownBadTail(rec *ev.Rec, res dbgen.Result) bool {
	if res.TailAtChunkStart && strings.Contains(res.Err, "bad state") {
		if e, ok := kf.Known("C04", "tail-at-chunk-start"); ok {
			rec.Excluded("tail-at-chunk-start")
			rec.Known(e.What)
			return true
		}
	}
	return false
}
