package persist

import (
	"fmt"
	"os"
	"testing"

	"verifharness/internal/dbgen"
)

func TestDebugReplay(t *testing.T) {
	path := os.Getenv("VERIF_DEBUG")
	if path == "" {
		t.Skip()
	}
	steps, err := readSteps(path)
	if err != nil {
		t.Fatal(err)
	}
	s, _ := dbgen.NewSession(dbgen.HeapOpener(replayChunk()))
	defer s.Close()
	for i, st := range steps {
		if st.Kind == dbgen.KReopen {
			fmt.Printf("   before close: size=%d (mod chunk %d) state off=%d\n", s.DB.Store.Size(), s.DB.Store.Size()%uint64(replayChunk()), s.DB.GetState().Off)
			store := s.DB.Store
			defer func() {
				fmt.Printf("   after close: size=%d (mod chunk %d)\n", store.Size(), store.Size()%uint64(replayChunk()))
			}()
		}
		res := s.Apply(st)
		sc, ic := s.DB.GetState().Meta.VerifChains()
		fmt.Printf("%2d %-8s %-50.50s acc=%v err=%q\n     schema %+v info %+v\n", i, st.Kind, st.Text, res.Accepted, res.Err, sc, ic)
		if os.Getenv("VERIF_DEBUG_DUMP") != "" {
			fmt.Print(dbgen.Dump(s.DB))
		}
		for _, n := range dbgen.TableUniverse {
			if a, b, ok := s.DB.GetState().Meta.VerifCreated(n); ok {
				fmt.Printf("     %s created schema=%d info=%d\n", n, a, b)
			}
		}
	}
}
