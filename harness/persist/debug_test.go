package persist

import (
	"fmt"
	"os"
	"testing"

	"verifharness/internal/dbgen"
)

func TestDebugReplay(t *testing.T) {
	path := os.Getenv("VERIF_DEBUG")
	if path == "" {
		t.Skip()
	}
	steps, err := readSteps(path)
	if err != nil {
		t.Fatal(err)
	}
	s, _ := dbgen.NewSession(dbgen.HeapOpener(replayChunk()))
	defer s.Close()
	for i, st := range steps {
		res := s.Apply(st)
		sc, ic := s.DB.GetState().Meta.VerifChains()
		fmt.Printf("%2d %-8s %-50.50s acc=%v err=%q\n     schema %+v info %+v\n", i, st.Kind, st.Text, res.Accepted, res.Err, sc, ic)
		for _, n := range dbgen.TableUniverse {
			if a, b, ok := s.DB.GetState().Meta.VerifCreated(n); ok {
				fmt.Printf("     %s created schema=%d info=%d\n", n, a, b)
			}
		}
	}
}
