package persist

import (
	"encoding/json"
	"fmt"
	"os"
	"strings"
	"testing"

	"verifharness/internal/dbgen"
	"verifharness/internal/ev"
)

// TestMinimize is a debugging aid (not a check): VERIF_MINIMIZE=<journal>
// VERIF_MINIMIZE_PROP=C04|C21 delta-debugs the journal under that property's
// oracle and writes <journal>.min.json.
func TestMinimize(t *testing.T) {
	path := os.Getenv("VERIF_MINIMIZE")
	if path == "" {
		t.Skip("VERIF_MINIMIZE not set")
	}
	steps, err := readSteps(path)
	if err != nil {
		t.Fatal(err)
	}
	prop := os.Getenv("VERIF_MINIMIZE_PROP")
	match := os.Getenv("VERIF_MINIMIZE_MATCH")
	fails0 := func(steps []*dbgen.Step) string { return "" }
	fails := func(steps []*dbgen.Step) string {
		if m := fails0(steps); strings.Contains(m, match) {
			return m
		}
		return ""
	}
	fails0 = func(steps []*dbgen.Step) string {
		rec := ev.New("X", "")
		jr := &journal{path: os.DevNull}
		switch prop {
		case "C21":
			c, err := newC21Case(rec, jr, dbgen.HeapOpener(replayChunk()))
			if err != nil {
				return ""
			}
			defer c.s.Close()
			for _, st := range steps {
				if msg := c.step(st); msg != "" {
					return msg
				}
			}
			return c.finish()
		default:
			c, err := newC04Case(rec, jr, dbgen.HeapOpener(replayChunk()), "heap")
			if err != nil {
				return ""
			}
			defer c.s.Close()
			for _, st := range steps {
				if msg := c.step(st); msg != "" {
					return msg
				}
			}
			return c.finish()
		}
	}
	msg := fails(steps)
	if msg == "" {
		t.Fatalf("the journal does not fail")
	}
	for chunk := len(steps) / 2; chunk >= 1; {
		removed := false
		for i := 0; i+chunk <= len(steps); {
			cand := append(append([]*dbgen.Step{}, steps[:i]...), steps[i+chunk:]...)
			if m := fails(cand); m != "" {
				steps, msg, removed = cand, m, true
			} else {
				i += chunk
			}
		}
		if !removed || chunk > len(steps) {
			chunk /= 2
		}
		if chunk > len(steps) {
			chunk = len(steps)
		}
	}
	// also shrink transactions
	for i := range steps {
		for j := 0; j < len(steps[i].Acts) && len(steps[i].Acts) > 1; {
			old := steps[i].Acts
			cp := append(append([]dbgen.Action{}, old[:j]...), old[j+1:]...)
			steps[i].Acts = cp
			if m := fails(steps); m != "" {
				msg = m
			} else {
				steps[i].Acts = old
				j++
			}
		}
	}
	for _, st := range steps {
		if st.Kind == dbgen.KTran || st.Kind == dbgen.KReopen {
			st.Text = ""
			for i := range st.Acts {
				st.Text += st.Acts[i].Text() + " ; "
			}
		}
	}
	b, _ := json.MarshalIndent(steps, "", " ")
	os.WriteFile(path+".min.json", b, 0o644)
	fmt.Printf("minimized to %d steps:\n%s\n", len(steps), msg)
}
