package persist

import (
	"fmt"
	"os"
	"testing"

	"github.com/apmckinlay/gsuneido/dbms/query"
	"verifharness/internal/dbgen"
)

// script runs admin requests / "!action" / persist / reopen / dump lines
// against a fresh heap database (debugging aid, VERIF_SCRIPT=1).
func script(name string, steps ...string) {
	fmt.Println("=====", name)
	s, _ := dbgen.NewSession(dbgen.HeapOpener(8192))
	defer func() {
		if s.DB != nil {
			s.Close()
		}
	}()
	for _, x := range steps {
		func() {
			defer func() {
				if e := recover(); e != nil {
					fmt.Println("  refused:", x, "--", e)
				}
			}()
			switch {
			case x == "persist":
				s.Apply(&dbgen.Step{Kind: dbgen.KPersist})
			case x == "reopen":
				r := s.Apply(&dbgen.Step{Kind: dbgen.KReopen})
				if r.Err != "" {
					fmt.Println("  reopen:", r.Err)
				}
			case x == "dump":
				fmt.Print(dbgen.Dump(s.DB))
			case x[0] == '!':
				ut := s.DB.NewUpdateTran()
				n := query.DoAction(s.Th, ut, x[1:])
				fmt.Println("  ", x[1:], "=>", n, ut.Complete())
			default:
				query.DoAdmin(s.DB, x, nil)
			}
		}()
		if s.DB == nil {
			return
		}
	}
	fmt.Print(dbgen.Dump(s.DB))
	fmt.Println("checkmeta:", dbgen.CheckMeta(s.DB.NewReadTran()))
	fmt.Println("check:", s.DB.Check(true))
}

func TestScripts(t *testing.T) {
	if os.Getenv("VERIF_SCRIPT") == "" {
		t.Skip()
	}
	script("D1 flatten-to-empty", "create ta (a) key(a)", "persist", "drop ta", "reopen")
	script("D5 new-index-not-saved", "create tc (d) key(d)", `!insert { d: "x" } into tc`, "alter tc create (b) index(b)",
		`!delete tc where d is "x"`, "persist", "reopen")
	script("D2 selffk-index-drop", "create tc (a, b) key(b) index(a) in tc(b)", "alter tc drop index(a)", `!insert { a: "", b: 1 } into tc`, `!delete tc where b is 1`)
	script("D3 two fks same key", "create tb (b, d) key(b)", "create tc (a, c, e) key(e) index(a) in tb(b) index(c) in tb(b) index(e,a)", "alter tc drop index(e,a)")
	script("D3b two fks same key, drop first", "create tb (b, d) key(b)", "create tc (a, c, e) key(e) index(e,a) index(a) in tb(b) index(c) in tb(b)", "alter tc drop index(e,a)")
	script("D4 rename lower base", "create ta (d, e, d_lower!) key(d) index(d_lower!)", `!insert { d: "B", e: "a" } into ta`, `!insert { d: "a", e: "C" } into ta`,
		"alter ta rename d to f, e to d", "dump", "reopen")
	script("D7 stale index fields", "create tc (c, e) key(c)", `!insert { c: 1, e: 2 } into tc`, "alter tc rename c to a", "alter tc create (c)",
		`!update tc where c is "" set e = 3`)
	script("D9 refused build leaks primary", "create ta (a) key(a)", "create tb (c, a) key(a,c)", `!insert { a: -1 } into ta`, `!insert { c: "Y", a: -1 } into tb`,
		"ensure tb (c, b) key(c) in ta(a)", `!insert { c: 4, a: -1 } into tb`, `!insert { c: 4, a: -1 } into tb`)
}
